package main

// C02, strengthening round 2: two more ops.
//
//   hand   a HAND-BUILT *geojson.Geometry (fields Type / Coordinates / Geometries set directly, not through
//          NewGeometry): Coordinates of each of the nine kinds incl. Ring, Bound, Collection and the typed
//          nils, Type strings that disagree with it, Geometries next to Coordinates, nil pointers among the
//          members, nested hand-built members.  Marshalled through encoding/json (MarshalJSON), bson top level
//          (MarshalBSON) and bson as a struct field (MarshalBSONValue); documents compared with the model's
//          document for that value (`Orb.GeoJSON.hgTop` / `hgMember`), decoded again, re-marshalled.
//            input   H x<hex Type> <gsN value | nil> <Geometries: - | l n (N | H…)*>
//            outcome J ; UnmarshalGeometry ; json.Unmarshal(&ptr) ; remarshal ; B ; bson.Unmarshal ; remarshal ;
//                    WB (the wrapper document) ; bson.Unmarshal(&wrapper).G ; mut same|mutated
//
//   seq    a SEQUENCE of documents decoded into ONE receiver that is kept between the calls (the
//          `var f Feature; for … { Decode(&f) }` idiom, json.Unmarshal into a slice / map / struct that
//          already holds elements), every step also decoded into a brand-new receiver of the same shape:
//          "receiver history must not matter".
//            input   <json|bson> <G|F|C|T0..T5> <form> (; [pad] <tree>)+
//            forms   v   var x T; Unmarshal(data, &x)          m   x.UnmarshalJSON(data) / x.UnmarshalBSON(data)
//                    pp  var x *T; Unmarshal(data, &x)         sp  []*T      sv  []T     (data: [doc])
//                    mp  map[string]*T   mv  map[string]T      (data: {"k":doc})
//                    tp  struct{G *T}    tv  struct{G T}       (data: {"g":doc})
//                    (bson: slices and maps sit in a wrapper struct field "g")
//            outcome per step (joined by ` ; `)   <fresh outcome> | <reused outcome, `=` when identical> | rm <same|differs>
//                    rm: the reused receiver re-marshalled against the fresh one re-marshalled
//            Geometry outcomes carry the receiver's hidden state: `… st <Coordinates != nil> <len(Geometries) | n>`

import (
	"bytes"
	"encoding/json"
	"reflect"
	"strconv"
	"strings"

	"github.com/paulmach/orb"
	"github.com/paulmach/orb/geojson"
	"go.mongodb.org/mongo-driver/bson"
)

// ---------------------------------------------------------------------------------------------
// hand-built geometries

func (r *tokReader) hand() *geojson.Geometry {
	switch t := r.next(); t {
	case "N":
		return nil
	case "H":
	default:
		panic("bad hand token " + t)
	}
	g := &geojson.Geometry{Type: r.xstr()}
	g.Coordinates = r.geom()
	switch t := r.next(); t {
	case "-":
	case "l":
		n := r.int()
		g.Geometries = make([]*geojson.Geometry, n)
		for i := range g.Geometries {
			g.Geometries[i] = r.hand()
		}
	default:
		panic("bad geometries token " + t)
	}
	return g
}

func handTok(g *geojson.Geometry) string {
	if g == nil {
		return "N"
	}
	s := "H " + xs(g.Type) + " " + gsN(g.Coordinates)
	if g.Geometries == nil {
		return s + " -"
	}
	s += " l " + strconv.Itoa(len(g.Geometries))
	for _, m := range g.Geometries {
		s += " " + handTok(m)
	}
	return s
}

type handWrapper struct {
	G *geojson.Geometry `bson:"g"`
}

func c02Hand(g *geojson.Geometry) string {
	before := handTok(g)
	var jb, bb, wb []byte
	var jerr, berr, werr error
	parts := make([]string, 0, 10)
	parts = append(parts, gp("h", func() string { jb, jerr = json.Marshal(g); return jsonTreeTok(jb, jerr) }))
	if jerr == nil && jb != nil {
		var g1 *geojson.Geometry
		ug := gp("h", func() string {
			var err error
			g1, err = geojson.UnmarshalGeometry(jb)
			return geometryOutcome(g1, err)
		})
		var g2 *geojson.Geometry
		ok2 := false
		ugp := gp("h", func() string {
			err := json.Unmarshal(jb, &g2)
			ok2 = err == nil
			return geometryOutcome(g2, err)
		})
		rm := "na"
		if strings.HasPrefix(ug, "ok") {
			rm = gp("h", func() string { b, err := json.Marshal(g1); return sameFlag(jb, b, err) })
		} else if ok2 {
			rm = gp("h", func() string { b, err := json.Marshal(g2); return sameFlag(jb, b, err) })
		}
		parts = append(parts, ug, ugp, rm)
	} else {
		parts = append(parts, "na", "na", "na")
	}
	parts = append(parts, gp("h", func() string { bb, berr = bson.Marshal(g); return bsonTreeTok(bb, berr) }))
	if berr == nil && bb != nil {
		g3 := &geojson.Geometry{}
		ub := gp("h", func() string { err := bson.Unmarshal(bb, g3); return geometryOutcome(g3, err) })
		rm := "na"
		if strings.HasPrefix(ub, "ok") {
			rm = gp("h", func() string { b, err := bson.Marshal(g3); return bsonSame(bb, b, err) })
		}
		parts = append(parts, ub, rm)
	} else {
		parts = append(parts, "na", "na")
	}
	parts = append(parts, gp("h", func() string { wb, werr = bson.Marshal(handWrapper{G: g}); return bsonTreeTok(wb, werr) }))
	if werr == nil && wb != nil {
		parts = append(parts, gp("h", func() string {
			var w handWrapper
			err := bson.Unmarshal(wb, &w)
			return geometryOutcome(w.G, err)
		}))
	} else {
		parts = append(parts, "na")
	}
	if handTok(g) == before {
		parts = append(parts, "mut same")
	} else {
		parts = append(parts, "mut mutated")
	}
	return strings.Join(parts, " ; ")
}

// ---------------------------------------------------------------------------------------------
// decode sequences

var seqElemTypes = map[string]reflect.Type{
	"G":  reflect.TypeOf(geojson.Geometry{}),
	"F":  reflect.TypeOf(geojson.Feature{}),
	"C":  reflect.TypeOf(geojson.FeatureCollection{}),
	"T0": reflect.TypeOf(geojson.Point{}),
	"T1": reflect.TypeOf(geojson.MultiPoint{}),
	"T2": reflect.TypeOf(geojson.LineString{}),
	"T3": reflect.TypeOf(geojson.MultiLineString{}),
	"T4": reflect.TypeOf(geojson.Polygon{}),
	"T5": reflect.TypeOf(geojson.MultiPolygon{}),
}

var seqTypeNames = []string{"G", "F", "C", "T0", "T1", "T2", "T3", "T4", "T5"}
var seqForms = []string{"v", "m", "pp", "sp", "sv", "mp", "mv", "tp", "tv"}

type seqRecv struct {
	codec, form string
	elem        reflect.Type
	holder      reflect.Value // pointer to the container that lives across the steps
}

func seqWrapField(t reflect.Type) reflect.Type {
	return reflect.StructOf([]reflect.StructField{{Name: "G", Type: t, Tag: `json:"g" bson:"g"`}})
}

func newSeqRecv(codec, form string, elem reflect.Type) *seqRecv {
	var ct reflect.Type
	str := reflect.TypeOf("")
	switch form {
	case "v", "m":
		ct = elem
	case "pp":
		ct = reflect.PtrTo(elem)
	case "sp":
		ct = reflect.SliceOf(reflect.PtrTo(elem))
	case "sv":
		ct = reflect.SliceOf(elem)
	case "mp":
		ct = reflect.MapOf(str, reflect.PtrTo(elem))
	case "mv":
		ct = reflect.MapOf(str, elem)
	case "tp":
		ct = seqWrapField(reflect.PtrTo(elem))
	case "tv":
		ct = seqWrapField(elem)
	default:
		panic("bad form " + form)
	}
	if codec == "bson" && (form == "sp" || form == "sv" || form == "mp" || form == "mv") {
		ct = seqWrapField(ct) // a bson top level is a document
	}
	return &seqRecv{codec: codec, form: form, elem: elem, holder: reflect.New(ct)}
}

// data: the bytes handed to the decoder for this form; ok=false: the document cannot be spelled
// (bson top level must be an object)
func (s *seqRecv) data(doc *jnode, pad bool) ([]byte, bool) {
	if s.codec == "json" {
		var sb strings.Builder
		doc.jsonText(&sb)
		t := sb.String()
		switch s.form {
		case "v", "m", "pp":
			if pad {
				t = " " + t + "\n"
			}
		case "sp", "sv":
			t = "[" + t + "]"
		case "mp", "mv":
			t = `{"k":` + t + `}`
		default:
			t = `{"g":` + t + `}`
		}
		return []byte(t), true
	}
	v := doc.bsonValue(func() int { return 0 })
	var top interface{}
	switch s.form {
	case "v", "m", "pp":
		if doc.k != 'o' {
			return nil, false
		}
		top = v
	case "sp", "sv":
		top = bson.D{{Key: "g", Value: bson.A{v}}}
	case "mp", "mv":
		top = bson.D{{Key: "g", Value: bson.D{{Key: "k", Value: v}}}}
	default:
		top = bson.D{{Key: "g", Value: v}}
	}
	b, err := bson.Marshal(top)
	if err != nil {
		return nil, false
	}
	return b, true
}

func (s *seqRecv) decode(data []byte) error {
	if s.form == "m" {
		if s.codec == "json" {
			return s.holder.Interface().(json.Unmarshaler).UnmarshalJSON(data)
		}
		return s.holder.Interface().(bson.Unmarshaler).UnmarshalBSON(data)
	}
	if s.codec == "json" {
		return json.Unmarshal(data, s.holder.Interface())
	}
	return bson.Unmarshal(data, s.holder.Interface())
}

// observe returns the element the step decoded into, as a (possibly nil) *T; "" or a complaint
func (s *seqRecv) observe() (interface{}, string) {
	c := s.holder.Elem()
	if s.codec == "bson" && (s.form == "sp" || s.form == "sv" || s.form == "mp" || s.form == "mv") {
		c = c.Field(0)
	}
	switch s.form {
	case "v", "m":
		return s.holder.Interface(), ""
	case "pp":
		return c.Interface(), ""
	case "sp":
		if c.Len() != 1 {
			return nil, "badlen " + strconv.Itoa(c.Len())
		}
		return c.Index(0).Interface(), ""
	case "sv":
		if c.Len() != 1 {
			return nil, "badlen " + strconv.Itoa(c.Len())
		}
		return c.Index(0).Addr().Interface(), ""
	case "mp":
		if c.Len() != 1 {
			return nil, "badlen " + strconv.Itoa(c.Len())
		}
		e := c.MapIndex(reflect.ValueOf("k"))
		if !e.IsValid() {
			return nil, "missing"
		}
		return e.Interface(), ""
	case "mv":
		if c.Len() != 1 {
			return nil, "badlen " + strconv.Itoa(c.Len())
		}
		e := c.MapIndex(reflect.ValueOf("k"))
		if !e.IsValid() {
			return nil, "missing"
		}
		p := reflect.New(s.elem)
		p.Elem().Set(e)
		return p.Interface(), ""
	case "tp":
		return c.Field(0).Interface(), ""
	default:
		return c.Field(0).Addr().Interface(), ""
	}
}

func seqGeomState(g *geojson.Geometry) string {
	s := " st 0 "
	if g.Coordinates != nil {
		s = " st 1 "
	}
	if g.Geometries == nil {
		return s + "n"
	}
	return s + strconv.Itoa(len(g.Geometries))
}

func seqOutcome(x interface{}) string {
	typed := func(isNil bool, g func() orb.Geometry) string {
		if isNil {
			return "ok nil"
		}
		return "ok " + gs(g())
	}
	switch x := x.(type) {
	case *geojson.Geometry:
		if x == nil {
			return "ok nil"
		}
		return geometryOutcome(x, nil) + seqGeomState(x)
	case *geojson.Feature:
		return featureOutcome(x, nil)
	case *geojson.FeatureCollection:
		return fcOutcome(x, nil)
	case *geojson.Point:
		return typed(x == nil, func() orb.Geometry { return x.Geometry() })
	case *geojson.MultiPoint:
		return typed(x == nil, func() orb.Geometry { return x.Geometry() })
	case *geojson.LineString:
		return typed(x == nil, func() orb.Geometry { return x.Geometry() })
	case *geojson.MultiLineString:
		return typed(x == nil, func() orb.Geometry { return x.Geometry() })
	case *geojson.Polygon:
		return typed(x == nil, func() orb.Geometry { return x.Geometry() })
	case *geojson.MultiPolygon:
		return typed(x == nil, func() orb.Geometry { return x.Geometry() })
	}
	return "badtype"
}

func seqErrOutcome(err error) string {
	if strings.Contains(err.Error(), "geojson: not a ") && strings.HasSuffix(err.Error(), " type") {
		return "err nottype"
	}
	return "err " + gjErrClass(err)
}

// seqRemarshal: the reused element against the fresh one, both marshalled again
func seqRemarshal(codec string, a, b interface{}) string {
	nilPtr := func(x interface{}) bool { v := reflect.ValueOf(x); return v.Kind() == reflect.Ptr && v.IsNil() }
	if nilPtr(a) || nilPtr(b) {
		if nilPtr(a) == nilPtr(b) {
			return "same"
		}
		return "differs"
	}
	var ma, mb []byte
	var ea, eb error
	if codec == "json" {
		ma, ea = json.Marshal(a)
		mb, eb = json.Marshal(b)
	} else {
		ma, ea = bson.Marshal(a)
		mb, eb = bson.Marshal(b)
	}
	if ea != nil || eb != nil {
		if (ea != nil) == (eb != nil) {
			return "same"
		}
		return "differs"
	}
	if bytes.Equal(ma, mb) {
		return "same"
	}
	if codec == "bson" {
		return bsonSame(ma, mb, nil)
	}
	return "differs"
}

func runC02Seq(in []string) string {
	if len(in) < 4 {
		return "badinput"
	}
	codec, tn, form := in[0], in[1], in[2]
	elem, ok := seqElemTypes[tn]
	if !ok || (codec != "json" && codec != "bson") {
		return "badinput"
	}
	okForm := false
	for _, f := range seqForms {
		okForm = okForm || f == form
	}
	if !okForm {
		return "badinput"
	}
	// the documents
	type sdoc struct {
		pad  bool
		tree *jnode
	}
	var docs []sdoc
	var cur []string
	flush := func() bool {
		if len(cur) == 0 {
			return false
		}
		d := sdoc{}
		if cur[0] == "pad" {
			d.pad = true
			cur = cur[1:]
		}
		r := &tokReader{t: cur}
		d.tree = r.tree()
		if r.i != len(cur) {
			return false
		}
		docs = append(docs, d)
		return true
	}
	if in[3] != ";" {
		return "badinput"
	}
	for _, t := range in[4:] {
		if t == ";" {
			if !flush() {
				return "badinput"
			}
			cur = nil
			continue
		}
		cur = append(cur, t)
	}
	if !flush() {
		return "badinput"
	}
	reused := newSeqRecv(codec, form, elem)
	steps := make([]string, 0, len(docs))
	for _, d := range docs {
		steps = append(steps, guard(func() string {
			fresh := newSeqRecv(codec, form, elem)
			data, ok := fresh.data(d.tree, d.pad)
			if !ok {
				return "unspellable"
			}
			one := func(s *seqRecv) (string, interface{}) {
				if err := s.decode(append([]byte(nil), data...)); err != nil {
					return seqErrOutcome(err), nil
				}
				x, complaint := s.observe()
				if complaint != "" {
					return complaint, nil
				}
				return seqOutcome(x), x
			}
			fo, fx := one(fresh)
			ro, rx := one(reused)
			rm := "na"
			if fx != nil && rx != nil {
				rm = seqRemarshal(codec, rx, fx)
			}
			if ro == fo {
				ro = "="
			}
			return fo + " | " + ro + " | rm " + rm
		}))
	}
	return strings.Join(steps, " ; ")
}

// ---------------------------------------------------------------------------------------------
// generators

var c02HandTypes = []string{"", "Point", "MultiPoint", "LineString", "MultiLineString", "Polygon", "MultiPolygon",
	"GeometryCollection", "Feature", "X"}

// c02HandCoords: a Coordinates value of any of the nine kinds (Ring and Bound at their natural rate,
// plus a boost), typed nils and the nil interface
func c02HandCoords(c *Ctx) orb.Geometry {
	r := c.Rng
	o := c02GeomOpts(c, false)
	o.InnerNil = r.Intn(6) == 0
	switch r.Intn(12) {
	case 0:
		return orb.Bound{Min: orb.Point{coord(r, o.Mode), coord(r, o.Mode)}, Max: orb.Point{coord(r, o.Mode), coord(r, o.Mode)}}
	case 1:
		o.MaxDepth = 0
		for i := 0; i < 50; i++ {
			if g, ok := genGeom(r, o, 0).(orb.Ring); ok {
				return g
			}
		}
		return orb.Ring{{0, 0}, {1, 0}, {1, 1}, {0, 0}}
	case 2:
		return []orb.Geometry{orb.MultiPoint(nil), orb.LineString(nil), orb.MultiLineString(nil), orb.Ring(nil), orb.Polygon(nil),
			orb.MultiPolygon(nil), orb.Collection(nil), orb.Collection{}, orb.MultiPoint{}, orb.Polygon{}}[r.Intn(10)]
	}
	for i := 0; ; i++ {
		g := genGeom(r, o, 0)
		if !hasEmptyMember(g) || r.Intn(8) == 0 || i > 20 {
			return g
		}
	}
}

func c02GenHand(c *Ctx, depth int) string {
	r := c.Rng
	ty := c02HandTypes[r.Intn(len(c02HandTypes))]
	var coords orb.Geometry
	geoms := "-"
	mode := r.Intn(10)
	if depth > 0 && mode < 5 {
		mode = 0
	}
	switch {
	case mode < 6: // Coordinates only
		coords = c02HandCoords(c)
		if r.Intn(8) == 0 {
			geoms = "l 0"
		}
	case mode < 8: // Geometries only
		n := 1 + r.Intn(3)
		if depth >= 2 {
			n = 0
		}
		geoms = "l " + strconv.Itoa(n)
		for i := 0; i < n; i++ {
			if r.Intn(12) == 0 {
				geoms += " N"
			} else {
				geoms += " " + c02GenHand(c, depth+1)
			}
		}
	case mode == 8: // both
		coords = c02HandCoords(c)
		n := 1 + r.Intn(2)
		geoms = "l " + strconv.Itoa(n)
		for i := 0; i < n; i++ {
			geoms += " " + c02GenHand(c, depth+1)
		}
	default: // neither
		if r.Intn(2) == 0 {
			geoms = "l 0"
		}
	}
	if r.Intn(3) != 0 { // mostly the Type a careful caller would write
		switch {
		case coords != nil:
			ty = coords.GeoJSONType()
		case geoms != "-":
			ty = "GeometryCollection"
		}
	}
	return "H " + xs(ty) + " " + gsN(coords) + " " + geoms
}

// --- documents for the sequences

func c02TreeOf(b []byte, err error) *jnode {
	if err != nil {
		return jnull()
	}
	n, ok := parseJSONTree(b)
	if !ok {
		return jnull()
	}
	return n
}

func (n *jnode) member(k string) (int, bool) {
	for i, key := range n.keys {
		if key == k {
			return i, true
		}
	}
	return 0, false
}

func (n *jnode) del(k string) {
	if i, ok := n.member(k); ok {
		n.keys = append(n.keys[:i], n.keys[i+1:]...)
		n.vals = append(n.vals[:i], n.vals[i+1:]...)
	}
}

func (n *jnode) put(k string, v *jnode) {
	if i, ok := n.member(k); ok {
		n.vals[i] = v
		return
	}
	n.set(k, v)
}

// whole numbers written by the library come back from the text as 'd' nodes; ids / properties / bbox
// values stay what they are.  (bson: 'd' nodes are written as doubles.)

// c02SeqTweak: the member-level variations that tell "assigned from the document" from "left over from
// the previous call": a member absent, null, of the wrong type; another type string.  Never a
// duplicate key (the model does not follow decoding INTO a partly filled field of the same document).
func c02SeqTweak(c *Ctx, n *jnode, members []string) {
	r := c.Rng
	if n.k != 'o' {
		return
	}
	k := members[r.Intn(len(members))]
	switch r.Intn(7) {
	case 0, 1:
		n.del(k)
	case 2, 3:
		n.put(k, jnull())
	case 4:
		n.put(k, c02Junk(c))
	case 5:
		if i, ok := n.member("type"); ok {
			n.vals[i] = jstr(c02Types[r.Intn(len(c02Types))])
		}
	default:
		if len(n.keys) > 1 { // member order
			i := 1 + r.Intn(len(n.keys)-1)
			n.keys[0], n.keys[i] = n.keys[i], n.keys[0]
			n.vals[0], n.vals[i] = n.vals[i], n.vals[0]
		}
	}
}

func c02SeqGeomDoc(c *Ctx, want int) *jnode { // want: 0 any, 1 a coordinate kind, 2 a collection
	r := c.Rng
	o := c02GeomOpts(c, false)
	o.InnerNil = false
	for i := 0; ; i++ {
		g := genGeom(r, o, 0)
		_, isC := g.(orb.Collection)
		if want == 1 && isC || want == 2 && !isC && i < 200 {
			continue
		}
		if want == 2 && !isC {
			g = orb.Collection{g}
		}
		if hasEmptyMember(g) && r.Intn(8) != 0 && i < 200 {
			continue
		}
		t := c02TreeOf(geojson.NewGeometry(g).MarshalJSON())
		return t
	}
}

func c02SeqFeatureDoc(c *Ctx) *jnode {
	rd := &tokReader{t: strings.Fields(c02GenFeature(c))}
	f := rd.feature()
	return c02TreeOf(json.Marshal(f))
}

func c02SeqFCDoc(c *Ctx) *jnode {
	rd := &tokReader{t: strings.Fields(c02GenFC(c))}
	return c02TreeOf(json.Marshal(rd.fc()))
}

func c02SeqTypedDoc(c *Ctx, k int) *jnode {
	r := c.Rng
	o := c02GeomOpts(c, false)
	o.InnerNil = false
	o.MaxDepth = 0
	for i := 0; ; i++ {
		g := genGeom(r, o, 0)
		idx := -1
		switch g.(type) {
		case orb.Point:
			idx = 0
		case orb.MultiPoint:
			idx = 1
		case orb.LineString:
			idx = 2
		case orb.MultiLineString:
			idx = 3
		case orb.Polygon:
			idx = 4
		case orb.MultiPolygon:
			idx = 5
		}
		if idx == k || (i > 300) || (idx >= 0 && r.Intn(40) == 0) {
			return c02TreeOf(geojson.NewGeometry(g).MarshalJSON())
		}
	}
}

// c02GenSeq: one `seq` input.
func c02GenSeq(c *Ctx) string {
	r := c.Rng
	codec := []string{"json", "json", "bson"}[r.Intn(3)]
	tn := []string{"G", "F", "F", "F", "C", "C", "T"}[r.Intn(7)]
	if tn == "T" {
		tn = "T" + strconv.Itoa(r.Intn(6))
	}
	form := seqForms[r.Intn(len(seqForms))]
	n := 2 + r.Intn(3)
	gmode := r.Intn(5) // Geometry receivers: 0,1 coordinate kinds only; 2 collections only; 3,4 mixed
	docs := make([]string, 0, n)
	for i := 0; i < n; i++ {
		var t *jnode
		switch tn {
		case "G":
			switch gmode {
			case 0, 1:
				t = c02SeqGeomDoc(c, 1)
			case 2:
				t = c02SeqGeomDoc(c, 2)
			default:
				t = c02SeqGeomDoc(c, 0)
			}
			if r.Intn(6) == 0 {
				c02SeqTweak(c, t, []string{"type", "coordinates", "geometries"})
			}
		case "F":
			t = c02SeqFeatureDoc(c)
			// the later documents often lack what the earlier ones had
			if i > 0 && r.Intn(2) == 0 && t.k == 'o' {
				switch r.Intn(5) {
				case 0, 1:
					t.put("geometry", jnull())
				case 2:
					t.del("geometry")
				case 3:
					t.del("id")
					t.del("bbox")
				default:
					t.put("properties", jnull())
				}
			} else if r.Intn(5) == 0 {
				c02SeqTweak(c, t, []string{"id", "type", "bbox", "geometry", "properties"})
			}
		case "C":
			t = c02SeqFCDoc(c)
			if i > 0 && r.Intn(3) == 0 && t.k == 'o' {
				switch r.Intn(4) {
				case 0:
					t.del("bbox")
				case 1:
					t.del("features")
				case 2:
					t.put("features", jnull())
				default: // drop the foreign members
					for _, k := range append([]string(nil), t.keys...) {
						if k != "type" && k != "bbox" && k != "features" {
							t.del(k)
						}
					}
				}
			} else if r.Intn(5) == 0 {
				c02SeqTweak(c, t, []string{"type", "bbox", "features", "extra"})
			}
		default:
			t = c02SeqTypedDoc(c, int(tn[1]-'0'))
			if r.Intn(6) == 0 {
				c02SeqTweak(c, t, []string{"type", "coordinates"})
			}
		}
		if r.Intn(20) == 0 {
			t = jnull()
		}
		if codec == "bson" && t.k != 'o' && t.k != 'n' {
			t = jnull()
		}
		if codec == "bson" && t.k == 'n' && (form == "v" || form == "m" || form == "pp") {
			t = jobj() // a bson top level is a document
		}
		pad := ""
		if codec == "json" && r.Intn(10) == 0 {
			pad = "pad "
		}
		docs = append(docs, pad+t.tokens())
	}
	return codec + " " + tn + " " + form + " ; " + strings.Join(docs, " ; ")
}

// the fixed families: run on shard 0
func genC02Round2Fixed(c *Ctx) {
	coordsL := []orb.Geometry{
		nil, orb.Point{1, 2}, orb.MultiPoint{{1, 2}, {3, 4}}, orb.LineString{{1, 2}, {3, 4.5}},
		orb.MultiLineString{{{1, 2}, {3, 4}}, {{5, 6}, {7, 8}}}, orb.Ring{{0, 0}, {1, 0}, {1, 1}, {0, 0}},
		orb.Polygon{{{0, 0}, {4, 0}, {4, 4}, {0, 0}}, {{1, 1}, {2, 1}, {2, 2}, {1, 1}}},
		orb.MultiPolygon{{{{0, 0}, {1, 0}, {1, 1}, {0, 0}}}}, orb.Bound{Min: orb.Point{-1.5, 2}, Max: orb.Point{3, 4.25}},
		orb.Bound{}, orb.Collection{orb.Point{1, 2}}, orb.Collection{orb.Bound{Min: orb.Point{0, 0}, Max: orb.Point{1, 1}}, orb.Ring{{0, 0}, {1, 0}, {0, 0}}},
		orb.Collection{}, orb.Collection(nil), orb.MultiPoint(nil), orb.LineString(nil), orb.MultiLineString(nil), orb.Ring(nil),
		orb.Polygon(nil), orb.MultiPolygon(nil), orb.MultiPoint{}, orb.Ring{}, orb.Polygon{},
	}
	pt := "H " + xs("Point") + " " + gsN(orb.Point{5, 6}) + " -"
	for _, co := range coordsL {
		ty := ""
		if co != nil {
			ty = co.GeoJSONType()
		}
		for _, t := range []string{ty, "", "Point", "GeometryCollection"} {
			for _, gm := range []string{"-", "l 0", "l 1 " + pt, "l 2 N " + pt, "l 1 H " + xs("GeometryCollection") + " nil l 1 " + pt} {
				c.Case("hand", "H "+xs(t)+" "+gsN(co)+" "+gm)
			}
		}
	}
	// sequences: every receiver type x form x codec over a short fixed script
	p := func(x, y float64) *jnode { return jarr(jnum(x), jnum(y)) }
	g := func(ty string, co *jnode) *jnode { return jobj().set("type", jstr(ty)).set("coordinates", co) }
	gc := func(ms ...*jnode) *jnode { return jobj().set("type", jstr("GeometryCollection")).set("geometries", jarr(ms...)) }
	feat := func(id *jnode, geom *jnode, props *jnode, bb *jnode) *jnode {
		f := jobj()
		if id != nil {
			f.set("id", id)
		}
		f.set("type", jstr("Feature"))
		if bb != nil {
			f.set("bbox", bb)
		}
		if geom != nil {
			f.set("geometry", geom)
		}
		if props != nil {
			f.set("properties", props)
		}
		return f
	}
	scripts := map[string][][]*jnode{
		"G": {
			{g("Point", p(1, 2)), g("LineString", jarr(p(1, 2), p(3, 4))), g("Point", p(5, 6))},
			{gc(g("Point", p(1, 2))), gc(g("Point", p(3, 4)), g("Point", p(5, 6))), gc()},
			{g("Point", p(1, 2)), gc(g("Point", p(3, 4))), g("Point", p(5, 6))},
			{gc(g("Point", p(3, 4))), g("Point", p(1, 2)), jnull(), gc(g("Point", p(3, 4)))},
		},
		"F": {
			{feat(jstr("a"), g("Point", p(1, 2)), jobj().set("k", jstr("v")), jarr(jnum(1), jnum(2), jnum(3), jnum(4))),
				feat(jstr("b"), jnull(), jnull(), nil), feat(nil, nil, nil, nil)},
			{feat(jnum(7), gc(g("Point", p(1, 2))), jobj().set("a", jnum(1)), nil), feat(nil, jnull(), jobj(), nil),
				jnull(), feat(nil, g("Point", p(1, 2)), nil, nil), jobj().set("type", jstr("X"))},
		},
		"C": {
			{jobj().set("type", jstr("FeatureCollection")).set("bbox", jarr(jnum(1), jnum(2), jnum(3), jnum(4))).
				set("features", jarr(feat(jstr("a"), g("Point", p(1, 2)), nil, nil))).set("name", jstr("x")),
				jobj().set("type", jstr("FeatureCollection")).set("features", jarr()),
				jobj().set("type", jstr("FeatureCollection")), jnull(),
				jobj().set("type", jstr("FeatureCollection")).set("features", jarr(feat(nil, jnull(), nil, nil)))},
		},
	}
	typedDocs := []*jnode{g("Point", p(1, 2)), g("MultiPoint", jarr(p(1, 2), p(3, 4))), g("LineString", jarr(p(1, 2), p(3, 4))),
		g("MultiLineString", jarr(jarr(p(1, 2), p(3, 4)))), g("Polygon", jarr(jarr(p(0, 0), p(1, 0), p(0, 0)))),
		g("MultiPolygon", jarr(jarr(jarr(p(0, 0), p(1, 0), p(0, 0)))))}
	emptyDocs := []*jnode{g("Point", jarr()), g("MultiPoint", jarr()), g("LineString", jnull()), g("MultiLineString", jarr()),
		g("Polygon", jarr()), g("MultiPolygon", jnull())}
	for k := 0; k < 6; k++ {
		scripts["T"+strconv.Itoa(k)] = [][]*jnode{{typedDocs[k], emptyDocs[k], typedDocs[(k+1)%6], jnull(), typedDocs[k]}}
	}
	for _, tn := range seqTypeNames {
		for _, sc := range scripts[tn] {
			for _, codec := range []string{"json", "bson"} {
				for _, form := range seqForms {
					toks := make([]string, 0, len(sc))
					for _, d := range sc {
						if codec == "bson" && d.k == 'n' && (form == "v" || form == "m" || form == "pp") {
							continue
						}
						toks = append(toks, d.tokens())
					}
					c.Case("seq", codec+" "+tn+" "+form+" ; "+strings.Join(toks, " ; "))
				}
			}
		}
	}
}
