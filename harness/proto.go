package main

import (
	"fmt"
	"math"
	"strconv"
	"strings"

	"github.com/paulmach/orb"
)

// Line-protocol encoding of geometries (mirror of lean/Orb/Proto.lean).

func fb(f float64) string { return fmt.Sprintf("%016x", math.Float64bits(f)) }

func pf(s string) float64 {
	u, err := strconv.ParseUint(s, 16, 64)
	if err != nil {
		panic("bad float token " + s)
	}
	return math.Float64frombits(u)
}

func pi(s string) int {
	n, err := strconv.Atoi(s)
	if err != nil {
		panic("bad int token " + s)
	}
	return n
}

func pu(s string) uint64 {
	n, err := strconv.ParseUint(s, 10, 64)
	if err != nil {
		panic("bad uint token " + s)
	}
	return n
}

func b2s(b bool) string {
	if b {
		return "1"
	}
	return "0"
}

func wPt(sb *strings.Builder, p orb.Point) {
	sb.WriteString(" ")
	sb.WriteString(fb(p[0]))
	sb.WriteString(" ")
	sb.WriteString(fb(p[1]))
}

// innerNilMode: when set (by gsN only) a nil slice BELOW the top level is written as the count
// token "n" (a nil ring of a polygon, a nil line of a multi line string, a nil polygon of a multi
// polygon); the Lean side reads "n" as an empty list (below the top level the models do not
// distinguish nil from empty: the code must treat both alike), the Go side rebuilds a nil slice.
var innerNilMode = false

func wPts(sb *strings.Builder, ps []orb.Point) {
	sb.WriteString(" ")
	if ps == nil && innerNilMode {
		sb.WriteString("n")
		return
	}
	sb.WriteString(strconv.Itoa(len(ps)))
	for _, p := range ps {
		wPt(sb, p)
	}
}

func wGeom(sb *strings.Builder, g orb.Geometry) {
	switch g := g.(type) {
	case nil:
		sb.WriteString(" nil")
	case orb.Point:
		sb.WriteString(" P")
		wPt(sb, g)
	case orb.MultiPoint:
		if g == nil {
			sb.WriteString(" nMP")
			return
		}
		sb.WriteString(" MP")
		wPts(sb, g)
	case orb.LineString:
		if g == nil {
			sb.WriteString(" nLS")
			return
		}
		sb.WriteString(" LS")
		wPts(sb, g)
	case orb.Ring:
		if g == nil {
			sb.WriteString(" nR")
			return
		}
		sb.WriteString(" R")
		wPts(sb, g)
	case orb.MultiLineString:
		if g == nil {
			sb.WriteString(" nMLS")
			return
		}
		sb.WriteString(" MLS ")
		sb.WriteString(strconv.Itoa(len(g)))
		for _, l := range g {
			wPts(sb, l)
		}
	case orb.Polygon:
		if g == nil {
			sb.WriteString(" nPG")
			return
		}
		sb.WriteString(" PG ")
		sb.WriteString(strconv.Itoa(len(g)))
		for _, l := range g {
			wPts(sb, l)
		}
	case orb.MultiPolygon:
		if g == nil {
			sb.WriteString(" nMPG")
			return
		}
		sb.WriteString(" MPG ")
		sb.WriteString(strconv.Itoa(len(g)))
		for _, pg := range g {
			sb.WriteString(" ")
			if pg == nil && innerNilMode {
				sb.WriteString("n")
				continue
			}
			sb.WriteString(strconv.Itoa(len(pg)))
			for _, l := range pg {
				wPts(sb, l)
			}
		}
	case orb.Bound:
		sb.WriteString(" B")
		wPt(sb, g.Min)
		wPt(sb, g.Max)
	case orb.Collection:
		if g == nil {
			sb.WriteString(" nC")
			return
		}
		sb.WriteString(" C ")
		sb.WriteString(strconv.Itoa(len(g)))
		for _, m := range g {
			wGeom(sb, m)
		}
	default:
		panic("unknown geometry")
	}
}

// gs serialises a geometry to protocol tokens.
// Nested typed-nil members are written as empty values of their kind
// (nil members below the top level are outside every property's quantifier),
// except at top level where nil-ness is preserved.
func gs(g orb.Geometry) string {
	var sb strings.Builder
	wGeom(&sb, g)
	return strings.TrimSpace(sb.String())
}

// gsN is gs with nil slices below the top level kept distinguishable (token "n").
// Used for case INPUTS of the properties whose quantifier includes nil-slice members.
func gsN(g orb.Geometry) string {
	innerNilMode = true
	defer func() { innerNilMode = false }()
	return gs(g)
}

type tokReader struct {
	t []string
	i int
}

func (r *tokReader) next() string {
	if r.i >= len(r.t) {
		panic("token underflow")
	}
	s := r.t[r.i]
	r.i++
	return s
}
func (r *tokReader) int() int     { return pi(r.next()) }
func (r *tokReader) f() float64   { return pf(r.next()) }
func (r *tokReader) pt() orb.Point { x := r.f(); y := r.f(); return orb.Point{x, y} }
// pts reads a vertex list.  The slice is given spare capacity filled with sentinel points (as a
// sub-slice of a larger buffer would have), so code that reslices or reads beyond len is observable.
func (r *tokReader) pts() []orb.Point {
	if r.i < len(r.t) && r.t[r.i] == "n" {
		r.i++
		return nil
	}
	n := r.int()
	buf := make([]orb.Point, n+3)
	for i := 0; i < n; i++ {
		buf[i] = r.pt()
	}
	for i := n; i < n+3; i++ {
		buf[i] = orb.Point{123456789.25 + float64(i), -987654321.5 - float64(i)}
	}
	if n == 0 {
		return buf[:0]
	}
	return buf[:n]
}
func (r *tokReader) rest() []string { return r.t[r.i:] }

func (r *tokReader) geom() orb.Geometry {
	switch k := r.next(); k {
	case "nil":
		return nil
	case "nMP":
		return orb.MultiPoint(nil)
	case "nLS":
		return orb.LineString(nil)
	case "nMLS":
		return orb.MultiLineString(nil)
	case "nR":
		return orb.Ring(nil)
	case "nPG":
		return orb.Polygon(nil)
	case "nMPG":
		return orb.MultiPolygon(nil)
	case "nC":
		return orb.Collection(nil)
	case "P":
		return r.pt()
	case "MP":
		return orb.MultiPoint(r.pts())
	case "LS":
		return orb.LineString(r.pts())
	case "R":
		return orb.Ring(r.pts())
	case "MLS":
		n := r.int()
		m := make(orb.MultiLineString, n)
		for i := range m {
			m[i] = orb.LineString(r.pts())
		}
		return m
	case "PG":
		n := r.int()
		m := make(orb.Polygon, n)
		for i := range m {
			m[i] = orb.Ring(r.pts())
		}
		return m
	case "MPG":
		n := r.int()
		m := make(orb.MultiPolygon, n)
		for i := range m {
			if r.i < len(r.t) && r.t[r.i] == "n" {
				r.i++
				continue // nil polygon member
			}
			k := r.int()
			pg := make(orb.Polygon, k)
			for j := range pg {
				pg[j] = orb.Ring(r.pts())
			}
			m[i] = pg
		}
		return m
	case "B":
		a := r.pt()
		b := r.pt()
		return orb.Bound{Min: a, Max: b}
	case "C":
		n := r.int()
		c := make(orb.Collection, n)
		for i := range c {
			c[i] = r.geom()
		}
		return c
	default:
		panic("bad geometry token " + k)
	}
}

func parseGeom(in []string) (orb.Geometry, []string) {
	r := &tokReader{t: in}
	g := r.geom()
	return g, r.rest()
}
