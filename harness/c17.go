package main

import (
	"context"
	"fmt"
	"math"
	"os"
	"os/exec"
	"strconv"
	"strings"
	"syscall"
	"time"

	"github.com/paulmach/orb"
	"github.com/paulmach/orb/geo"
	"github.com/paulmach/orb/planar"
	"github.com/paulmach/orb/resample"
)

// C17 — resample.Resample / resample.ToInterval.
//
//	rs <df> <line> <N>      => D m d0 … dm-1 <result> ; B <reuse>
//	iv <df> <line> <dbits>  => D m d0 … dm-1 <result> ; B <reuse>
//	conc <G> <rounds> <k> (<op> <df> <line> <arg>)*k => … ; C …   (c17_state.go)
//
// `; B …` reports the repetitions of the call out of one reused vertex buffer (c17_state.go).
//
// <df> is pl (planar.Distance) or geo (geo.Distance); <line> is nLS | LS n (x y)*;
// the outcome starts with the segment distances the real df returns for the line
// (observations of the external function: the Lean twin cannot recompute math.Cos
// bit for bit) followed by the result serialised AFTER the call:
// nLS | LS k (x y)* | panic | hang | toobig.
//
// Inputs whose vertices differ while the computed total length is not a positive finite
// number (and only those) are run in a child process of this binary under a watchdog and
// an address-space limit; everything else runs in-process.  Before 8096037 the append loop
// of resample() did not terminate on such inputs; since then it is bounded by
// `step < totalPoints` (theorem resample_total), so the outcome `hang` is reachable by
// mutants only.  The watchdog is generous (5 s; a probe takes ~10 ms) and a probe that did
// not answer is repeated once, so that a scheduling stall on a loaded machine is not
// reported as a hang of correct code.
//
// Resource screen (harness safety, not part of the judgement): more than 1e6 requested
// points => `toobig` without calling the code.  ToInterval with total/d >= 2^63 (or d = NaN)
// IS called: int(x) wraps to MinInt64 and the call fails at once in make(); the driver
// classifies these inputs as outside the quantifier.

const c17ProbeEnv = "ORBVERIF_C17_PROBE"

const c17ProbeTimeout = 5 * time.Second

func init() {
	if v := os.Getenv(c17ProbeEnv); v != "" {
		// child process: run one case with the real code and exit
		var lim syscall.Rlimit
		lim.Cur, lim.Max = 6<<30, 6<<30
		_ = syscall.Setrlimit(syscall.RLIMIT_AS, &lim)
		time.AfterFunc(c17ProbeTimeout, func() {
			fmt.Println("hang")
			os.Exit(0)
		})
		if strings.HasPrefix(v, "@") { // a case too long for the environment: the name of a file that holds it
			data, err := os.ReadFile(v[1:])
			if err != nil {
				fmt.Println("noprobe")
				os.Exit(0)
			}
			v = string(data)
		}
		f := strings.Fields(v)
		fmt.Println(c17Call(f[0], f[1:]))
		os.Exit(0)
	}
	register(&Prop{ID: "C17", Run: runC17, Gen: genC17})
}

func c17DF(name string) orb.DistanceFunc {
	if name == "geo" {
		return geo.Distance
	}
	return planar.Distance
}

func c17Line(r *tokReader) orb.LineString {
	g := r.geom()
	ls, ok := g.(orb.LineString)
	if !ok {
		panic("C17: not a line string")
	}
	return ls
}

// c17Call runs the real function (under guard) and serialises the result after the call.
func c17Call(op string, in []string) string {
	return guard(func() string {
		r := &tokReader{t: in}
		df := c17DF(r.next())
		ls := c17Line(r)
		var out orb.LineString
		switch op {
		case "rs":
			out = resample.Resample(ls, df, r.int())
		case "iv":
			out = resample.ToInterval(ls, df, r.f())
		default:
			return "badop"
		}
		return gs(out)
	})
}

func runC17(op string, in []string) string {
	if op == "conc" {
		return guard(func() string { return runC17Conc(in) })
	}
	r := &tokReader{t: in}
	dfName := r.next()
	df := c17DF(dfName)
	ls := c17Line(r)
	// observations of df on the consecutive vertex pairs
	var sb strings.Builder
	m := len(ls) - 1
	if m < 0 {
		m = 0
	}
	sb.WriteString("D " + strconv.Itoa(m))
	total := 0.0
	for i := 0; i+1 < len(ls); i++ {
		d := df(ls[i], ls[i+1])
		total += d
		sb.WriteString(" " + fb(d))
	}
	allEqual := true
	for _, p := range ls {
		if !ls[0].Equal(p) {
			allEqual = false
		}
	}
	// resource screen (harness safety, not part of the judgement)
	points := 0.0
	switch op {
	case "rs":
		points = float64(r.int())
	case "iv":
		d := r.f()
		if d > 0 && len(ls) > 0 {
			if x := total / d; x >= 9223372036854775808.0 {
				// int(x) is out of range: the count wraps to a negative number and the call
				// fails at once (makeslice / slice bounds); safe to run
				points = 0
			} else {
				points = x + 1
			}
		}
	}
	if points > 1e6 {
		return sb.String() + " toobig ; B none"
	}
	risky := len(ls) >= 2 && !allEqual && !(total > 0 && total <= math.MaxFloat64)
	if !risky {
		// the fresh call (a freshly made slice, used once), then the same call again and again out
		// of ONE reused vertex buffer whose contents change in between (c17_state.go)
		a := c17ParseArgs(op, &tokReader{t: in})
		out, pan := c17Do(a, a.ls, df)
		want := c17Snap(out, pan)
		res := c17Show(out, pan)
		return sb.String() + " " + res + " ; " + guard(func() string { return c17Reuse(c17ParseArgs(op, &tokReader{t: in}), want) })
	}
	return sb.String() + " " + c17Probe(op, in) + " ; B none"
}

// c17Probe runs one case in a child process under the watchdog; a probe that does not
// answer (watchdog fired, or killed by the address-space limit before it fired) is repeated
// once before it is reported as `hang`.
func c17Probe(op string, in []string) string {
	exe, err := os.Executable()
	if err != nil {
		return "noprobe"
	}
	res := "hang"
	payload := op + " " + strings.Join(in, " ")
	if len(payload) > 60000 {
		// one environment string is limited to 128 KiB (a line of more than ~3500 vertices does
		// not fit: exec fails and the probe would be reported as `hang`): hand the case over in a file
		f, err := os.CreateTemp("", "c17probe")
		if err != nil {
			return "noprobe"
		}
		f.WriteString(payload)
		f.Close()
		defer os.Remove(f.Name())
		payload = "@" + f.Name()
	}
	for attempt := 0; attempt < 2; attempt++ {
		ctx, cancel := context.WithTimeout(context.Background(), 3*c17ProbeTimeout)
		cmd := exec.CommandContext(ctx, exe)
		cmd.Env = append(os.Environ(), c17ProbeEnv+"="+payload)
		outb, _ := cmd.Output()
		cancel()
		res = strings.TrimSpace(string(outb))
		if i := strings.LastIndex(res, "\n"); i >= 0 {
			res = res[i+1:]
		}
		if res == "" {
			res = "hang"
		}
		if res != "hang" {
			break
		}
	}
	return res
}

// ---------------------------------------------------------------------------
// generators

func c17Case(c *Ctx, op, df string, ls orb.LineString, arg string) {
	c.Case(op, df+" "+gs(ls)+" "+arg)
}

// axis-aligned integer walk: every segment is horizontal, vertical or of zero length
func c17AxisLine(c *Ctx, n int, maxStep int) orb.LineString {
	r := c.Rng
	ls := make(orb.LineString, 0, n)
	p := orb.Point{float64(r.Intn(9) - 4), float64(r.Intn(9) - 4)}
	for i := 0; i < n; i++ {
		ls = append(ls, p)
		s := float64(r.Intn(maxStep) + 1)
		switch r.Intn(6) {
		case 0: // zero-length segment (repeated vertex)
		case 1:
			p[0] += s
		case 2:
			p[0] -= s
		case 3:
			p[1] += s
		case 4:
			p[1] -= s
		default:
			p[0] += s
		}
	}
	return ls
}

func c17FloatLine(c *Ctx, n int, m CoordMode) orb.LineString {
	r := c.Rng
	ls := make(orb.LineString, n)
	scale := []float64{1, 1, 1e-7, 1e4, 180}[r.Intn(5)]
	for i := range ls {
		switch {
		case i > 0 && r.Intn(7) == 0:
			ls[i] = ls[r.Intn(i)] // repeated vertex (zero-length segment when adjacent)
		case i > 0 && r.Intn(7) == 0:
			ls[i] = ls[i-1]
		case m == CoordFloat:
			ls[i] = orb.Point{(r.Float64()*2 - 1) * scale, (r.Float64()*2 - 1) * scale}
		default:
			ls[i] = genPoint(r, m)
		}
	}
	return ls
}

func c17GeoLine(c *Ctx, n int) orb.LineString {
	r := c.Rng
	ls := make(orb.LineString, n)
	base := orb.Point{(r.Float64()*2 - 1) * 170, (r.Float64()*2 - 1) * 80}
	spread := []float64{1e-4, 0.01, 1, 8}[r.Intn(4)]
	for i := range ls {
		if i > 0 && r.Intn(7) == 0 {
			ls[i] = ls[i-1]
		} else if r.Intn(5) == 0 {
			ls[i] = orb.Point{math.Round(base[0]) + float64(r.Intn(5)-2), math.Round(base[1]) + float64(r.Intn(5)-2)}
		} else {
			ls[i] = orb.Point{base[0] + (r.Float64()*2-1)*spread, base[1] + (r.Float64()*2-1)*spread}
		}
	}
	return ls
}

// meridian / parallel walk in lon/lat: every segment keeps its longitude or its latitude.  On
// such segments geo.Distance is linear in the interpolation parameter, so the spacing clause
// measured with geo.Distance itself must hold (it does not on oblique segments: known finding
// C17-geo-spacing-nonlinear).
func c17GeoAxisLine(c *Ctx, n int) orb.LineString {
	r := c.Rng
	ls := make(orb.LineString, 0, n)
	p := orb.Point{(r.Float64()*2 - 1) * 150, (r.Float64()*2 - 1) * 70}
	if r.Intn(3) == 0 {
		p = orb.Point{math.Round(p[0]), math.Round(p[1])}
	}
	spread := []float64{1e-4, 0.01, 1, 8}[r.Intn(4)]
	if n > 20 {
		spread /= 16 // long lines: stay away from the poles and the antimeridian
	}
	for i := 0; i < n; i++ {
		ls = append(ls, p)
		s := (r.Float64()*2 - 1) * spread
		switch r.Intn(5) {
		case 0: // repeated vertex
		case 1, 2:
			if q := p[0] + s; math.Abs(q) < 175 {
				p[0] = q
			}
		default:
			if q := p[1] + s; math.Abs(q) < 85 {
				p[1] = q
			}
		}
	}
	return ls
}

// antimeridian walk in lon/lat: the line stays within `reach` degrees of the antimeridian and
// crosses it the usual way, by a pair of consecutive vertices (180, lat), (-180, lat) or
// (-180, lat), (180, lat).  geo.Distance folds the longitude difference, so this hop is a segment
// of length EXACTLY 0 between two different coordinates (the only way to get one through the
// protocol: the df tags are pl and geo).  Every other segment stays on one side of the
// antimeridian (no segment crosses it, none is folded) and is a parallel or a meridian, except
// for a few oblique ones.  Hops occur as first / last / interior segment, repeated back and
// forth, and next to repeated vertices.
func c17AntiLine(c *Ctx, n int) orb.LineString {
	r := c.Rng
	reach := []float64{1e-3, 0.5, 10, 10, 40}[r.Intn(5)]
	grid := r.Intn(3) == 0 // integer / half-integer coordinates
	rnd := func(x float64) float64 {
		if grid {
			return math.Round(x*2) / 2
		}
		return x
	}
	side := float64(1 - 2*r.Intn(2)) // +1: longitudes 180-reach..180, -1: -180..-180+reach
	lat := rnd((r.Float64()*2 - 1) * 70)
	lon := side * 180
	if r.Intn(3) != 0 { // otherwise the line starts on the seam (first segment may be the hop)
		lon = side * (180 - rnd(r.Float64()*reach))
	}
	ls := make(orb.LineString, 0, n)
	for i := 0; i < n; i++ {
		ls = append(ls, orb.Point{lon, lat})
		if math.Abs(lon) == 180 && r.Intn(2) == 0 {
			// the zero-length hop over the antimeridian
			side = -side
			lon = -lon
			continue
		}
		switch k := r.Intn(10); {
		case k == 0: // repeated vertex
		case k <= 3: // along the parallel to the seam
			lon = side * 180
		case k <= 6: // along the parallel
			lon = side * (180 - rnd(r.Float64()*reach))
		case k <= 8: // along the meridian (also the meridian +-180 itself)
			if q := lat + rnd((r.Float64()*2-1)*reach); math.Abs(q) < 85 {
				lat = q
			}
		default: // oblique (spacing-df is the known finding there)
			lon = side * (180 - rnd(r.Float64()*reach))
			if q := lat + rnd((r.Float64()*2-1)*reach); math.Abs(q) < 85 {
				lat = q
			}
		}
	}
	return ls
}

// fixed antimeridian lines at latitude L (see c17AntiLine): the hop (180,L)(-180,L) resp.
// (-180,L)(180,L) as interior / first / last segment, in both directions, repeated, next to
// repeated vertices, followed by a parallel, a meridian or an oblique segment; and lines that
// consist of hops only (different vertices, length exactly 0)
func c17AntiFixed(L float64) []orb.LineString {
	return []orb.LineString{
		{{170, L}, {180, L}, {-180, L}, {-170, L}}, // the seeded witness C17-r2m3 (to 5 points)
		{{-170, L}, {-180, L}, {180, L}, {170, L}},
		{{180, L}, {-180, L}, {-170, L}, {-160, L}}, // first segment
		{{-180, L}, {180, L}, {170, L}},
		{{160, L}, {170, L}, {180, L}, {-180, L}}, // last segment
		{{-170, L}, {-180, L}, {180, L}},
		{{180, L}, {-180, L}, {-170, L}, {-180, L}, {180, L}},                                                            // first and last
		{{170, L}, {180, L}, {-180, L}, {180, L}, {-180, L}, {-170, L}},                                                  // back and forth
		{{175, L}, {180, L}, {-180, L}, {180, L}, {170, L}},                                                              // hop and back: never leaves the east side
		{{170, L}, {180, L}, {180, L}, {-180, L}, {-180, L}, {-175, L}, {-175, L + 5}},                                   // with repeated vertices
		{{170, L}, {180, L}, {-180, L}, {-170, L}, {-180, L}, {180, L}, {175, L}},                                        // two crossings
		{{175, L}, {180, L}, {-180, L}, {-180, L + 5}, {180, L + 5}, {170, L + 5}},                                       // meridian along the seam
		{{170, L}, {180, L}, {-180, L}, {-180, L}, {-180, L - 4}, {-176, L - 4}},                                         // hop, repeat, meridian
		{{170, L}, {180, L + 3}, {-180, L + 3}, {-172, L - 2}},                                                           // oblique neighbours
		{{179.5, L}, {180, L}, {-180, L}, {-179.75, L}, {-180, L}, {180, L}, {179.5, L}, {180, L}, {-180, L}, {-179, L}}, // three hops
		{{180, L}, {-180, L}},           // hops only: length 0, vertices differ
		{{180, L}, {-180, L}, {180, L}}, //
	}
}

// long-line family: 50..200 vertices resampled to about 1e4 points (5000..15000); the
// integer axis-aligned kind, which the driver judges in exact rational arithmetic (slow), has
// 50..100 vertices and 1000..3000 points
func c17LongCase(c *Ctx) {
	r := c.Rng
	n := 50 + r.Intn(151)
	N := 5000 + r.Intn(10001)
	var ls orb.LineString
	df := "pl"
	switch r.Intn(6) {
	case 0:
		n = 50 + r.Intn(51)
		N = 1000 + r.Intn(2001)
		ls = c17AxisLine(c, n, []int{4, 1000}[r.Intn(2)])
	case 1, 2:
		ls = c17FloatLine(c, n, CoordFloat)
	case 3:
		ls = c17FloatLine(c, n, CoordHalf)
	case 4:
		ls = c17GeoLine(c, n)
		df = "geo"
	default:
		if r.Intn(3) == 0 {
			ls = c17AntiLine(c, n)
		} else {
			ls = c17GeoAxisLine(c, n)
		}
		df = "geo"
	}
	if r.Intn(2) == 0 {
		c17Case(c, "rs", df, ls, strconv.Itoa(N))
		return
	}
	total := c17Len(ls, c17DF(df))
	d := total / float64(N-1) * []float64{1, 1, 1.0000001, 0.9999999, 1 + r.Float64()*1e-3}[r.Intn(5)]
	if r.Intn(8) == 0 {
		d = math.Inf(1)
	}
	c17Case(c, "iv", df, ls, fb(d))
}

func c17Len(ls orb.LineString, df orb.DistanceFunc) float64 {
	t := 0.0
	for i := 0; i+1 < len(ls); i++ {
		t += df(ls[i], ls[i+1])
	}
	return t
}

// interval arguments for a line of length total: d <= 0, d > total, d dividing the
// length exactly, dyadic and decimal fractions
func c17Intervals(c *Ctx, total float64) []float64 {
	r := c.Rng
	ds := []float64{0, -1, -0.5, 1, 2, 3, 0.5, 0.25, 0.75, 1.5, 0.1, 0.3, math.Inf(1), 1e300}
	if total > 0 && !math.IsInf(total, 0) {
		ds = append(ds, total, total/2, total/3, total/4, total/5, total/7, total*2, total+1, total*1.0000001, total*0.9999999,
			total/float64(r.Intn(12)+1), total*r.Float64(), total*(0.02+r.Float64()))
	}
	return ds
}

func c17PickInterval(c *Ctx, total float64) float64 {
	ds := c17Intervals(c, total)
	d := ds[c.Rng.Intn(len(ds))]
	if d > 0 && total/d > 4000 { // keep the point count small
		d = total / float64(c.Rng.Intn(4000)+1)
	}
	return d
}

func c17PickN(c *Ctx) int {
	r := c.Rng
	switch r.Intn(10) {
	case 0:
		return -r.Intn(5)
	case 1:
		return 1
	case 2:
		return 2
	case 3:
		return 13 + r.Intn(200)
	default:
		return r.Intn(13)
	}
}

func genC17(c *Ctx) {
	r := c.Rng
	idx := 0
	mine := func() bool { idx++; return c.Mine(idx) }

	// --- fixed family 1: nil, empty, one vertex; every N in -2..12 and a set of intervals
	short := []orb.LineString{nil, {}, {{1, 2}}, {{0, 0}}}
	for _, ls := range short {
		for _, df := range []string{"pl", "geo"} {
			for n := -2; n <= 12; n++ {
				if mine() {
					c17Case(c, "rs", df, ls, strconv.Itoa(n))
				}
			}
			for _, d := range []float64{-1, 0, 0.5, 1, 7, math.Inf(1)} {
				if mine() {
					c17Case(c, "iv", df, ls, fb(d))
				}
			}
		}
	}
	// --- fixed family 2: all-equal lines of 2..8 vertices, N in -2..12 (padding and truncation)
	for k := 2; k <= 8; k++ {
		ls := make(orb.LineString, k)
		for i := range ls {
			ls[i] = orb.Point{3, -2}
		}
		for n := -2; n <= 12; n++ {
			if mine() {
				c17Case(c, "rs", "pl", ls, strconv.Itoa(n))
			}
		}
		for _, d := range []float64{-1, 0, 0.5, 1, 7} {
			if mine() {
				c17Case(c, "iv", []string{"pl", "geo"}[k%2], ls, fb(d))
			}
		}
	}
	// --- fixed family 3: exhaustive axis-aligned integer lines of 2..4 vertices over a step alphabet,
	// N in 1..12, intervals incl. exact divisors
	steps := []orb.Point{{0, 0}, {1, 0}, {0, 2}, {-3, 0}, {0, -1}, {4, 0}}
	var rec func(ls orb.LineString, depth int)
	rec = func(ls orb.LineString, depth int) {
		if len(ls) >= 2 {
			if mine() {
				total := c17Len(ls, planar.Distance)
				for n := 1; n <= 12; n++ {
					c17Case(c, "rs", "pl", ls, strconv.Itoa(n))
				}
				for _, d := range []float64{0.5, 1, 2, 3, 0.75, total, total / 2, total / 4, total + 1, total / 3, math.Inf(1)} {
					if d > 0 {
						c17Case(c, "iv", "pl", ls, fb(d))
					}
				}
			}
		}
		if depth == 0 {
			return
		}
		last := ls[len(ls)-1]
		for _, s := range steps {
			nl := append(append(orb.LineString{}, ls...), orb.Point{last[0] + s[0], last[1] + s[1]})
			rec(nl, depth-1)
		}
	}
	depth := 3
	if c.Tier == "thorough" {
		depth = 4
	}
	rec(orb.LineString{{0, 0}}, depth)

	// --- fixed family 4 (shard 0 only): vertices differ but the computed length is zero (underflow)
	if c.Shard == 0 {
		tiny := []orb.LineString{
			{{0, 0}, {1e-200, 0}},
			{{0, 0}, {0, 0}, {0, 1e-170}},
			{{1, 1}, {1, 1}, {1, 1}, {1, 1 + 1e-16}, {1, 1}}, // 1+1e-16 == 1: an all-equal line after all
			{{0, 0}, {3e-162, 4e-162}, {0, 0}},
		}
		for _, ls := range tiny {
			for _, n := range []int{1, 2, 3} {
				c17Case(c, "rs", "pl", ls, strconv.Itoa(n))
			}
			c17Case(c, "iv", "pl", ls, fb(1))
		}
		c17Case(c, "rs", "geo", orb.LineString{{0, 0}, {0, 1e-320}}, "2")
	}

	// --- fixed family 5 (shard 0 only): the interval argument at the edge of / outside "d > 0":
	// +Inf (one point), NaN (neither > 0 nor <= 0), and d so small that total/d >= 2^63 (the
	// requested count is not representable: int() wraps, make() panics).  The driver judges the
	// first and classifies the others as outside the quantifier (skip nan-interval /
	// unrepresentable-count), so that they are seen in every run rather than never generated.
	if c.Shard == 0 {
		edge := []orb.LineString{
			{{0, 0}, {1, 0}},
			{{0, 0}, {3, 4}, {3, 4}},
			{{2, 2}, {2, 2}, {2, 2}}, // all-equal: total = 0, one point whatever d is
		}
		for _, ls := range edge {
			for _, d := range []float64{math.Inf(1), math.NaN(), 1e-19, 1e-300, 5e-324, 1e300} {
				c17Case(c, "iv", "pl", ls, fb(d))
			}
		}
		c17Case(c, "iv", "geo", orb.LineString{{0, 0}, {0, 1}}, fb(1e-300))
		c17Case(c, "iv", "geo", orb.LineString{{0, 0}, {0, 1}, {1, 1}}, fb(math.Inf(1)))
	}

	// --- fixed family 6 (shard 0 only): great-circle distance on long oblique segments (the
	// reviewer's witness of the known finding C17-geo-spacing-nonlinear) and on meridians /
	// parallels of the same size, where the clause holds
	if c.Shard == 0 {
		for _, ls := range []orb.LineString{
			{{0, 0}, {60, 80}},
			{{0, 0}, {0, 80}},
			{{0, 40}, {60, 40}},
			{{10, 10}, {10, 50}, {70, 50}, {70, 50}, {70, -20}},
		} {
			for _, n := range []int{2, 3, 7} {
				c17Case(c, "rs", "geo", ls, strconv.Itoa(n))
			}
			c17Case(c, "iv", "geo", ls, fb(c17Len(ls, geo.Distance)/4))
		}
	}

	// --- fixed family 7: zero-length hops between DIFFERENT coordinates — the antimeridian pair
	// (180,L)(-180,L) under geo.Distance — at every position of the line; every N in 1..12 and
	// intervals incl. exact divisors of the length (seeded change C17-r2m3: a walk that carries
	// the segment start over a skipped zero-length segment interpolates the next segment from
	// lon 180 to lon -170 through 0)
	for _, L := range []float64{0, 10, 45, -62.5} {
		for _, ls := range c17AntiFixed(L) {
			if !mine() {
				continue
			}
			total := c17Len(ls, geo.Distance)
			for n := 1; n <= 12; n++ {
				c17Case(c, "rs", "geo", ls, strconv.Itoa(n))
			}
			for _, d := range []float64{total, total / 2, total / 3, total / 4, total / 4.5, total / 7, total / 11.3,
				total * 1.0000001, total * 0.9999999, total + 1, 1000, 250000, math.Inf(1)} {
				if d > 0 {
					c17Case(c, "iv", "geo", ls, fb(d))
				}
			}
		}
	}

	// --- state / size outside one fresh call (c17_state.go), on EVERY shard: concurrent callers and
	// huge lines (200..20000 vertices, up to 50000 points), so that every run has some of each
	for i := 0; i < 2; i++ {
		c17ConcCase(c)
		c17HugeCase(c)
	}

	// --- random cases
	longEvery := 400
	for i := 0; i < c.Budget && !c.Exhausted(); i++ {
		if r.Intn(longEvery) == 0 {
			c17LongCase(c)
			continue
		}
		switch k := r.Intn(3000); {
		case k < 3:
			c17HugeCase(c)
			continue
		case k < 5:
			c17ConcCase(c)
			continue
		case k < 125:
			c17MediumCase(c)
			continue
		}
		n := 2 + r.Intn(7)
		if r.Intn(12) == 0 {
			n = r.Intn(2)
		}
		var ls orb.LineString
		df := "pl"
		switch r.Intn(10) {
		case 0, 1, 2:
			ls = c17AxisLine(c, n, 4)
		case 3:
			ls = c17AxisLine(c, n, 1000)
		case 4:
			ls = c17FloatLine(c, n, CoordSmallInt)
		case 5:
			ls = c17FloatLine(c, n, CoordHalf)
		case 6, 7:
			ls = c17FloatLine(c, n, CoordFloat)
		case 8:
			switch r.Intn(6) {
			case 0, 1:
				ls = c17GeoAxisLine(c, n)
			case 2, 3:
				ls = c17AntiLine(c, n)
			default:
				ls = c17GeoLine(c, n)
			}
			df = "geo"
		default: // all-equal line, arbitrary coordinates
			p := genPoint(r, CoordFloat)
			if math.Abs(p[0]) > 1e6 || math.Abs(p[1]) > 1e6 {
				p = orb.Point{float64(r.Intn(9)), float64(r.Intn(9))}
			}
			ls = make(orb.LineString, n)
			for j := range ls {
				ls[j] = p
			}
			if r.Intn(2) == 0 {
				df = "geo"
			}
		}
		if n == 0 && r.Intn(2) == 0 {
			ls = nil
		}
		if r.Intn(2) == 0 {
			c17Case(c, "rs", df, ls, strconv.Itoa(c17PickN(c)))
		} else {
			c17Case(c, "iv", df, ls, fb(c17PickInterval(c, c17Len(ls, c17DF(df)))))
		}
	}
}
