package main

// C01 strengthening after the white-box round: the configurations the property quantifies over
// implicitly and the generator never varied.
//
//   - the io.Reader behind the stream decoder (fragmenting readers: a Read may return fewer bytes than
//     asked for without being at the end)
//   - the io.Writer behind the encoder (writers that are not io.ByteWriter / io.StringWriter /
//     io.ReaderFrom, buffered writers, pipes, writers that fail)
//   - the binary.ByteOrder VALUE given to the encoder (binary.LittleEndian, binary.BigEndian,
//     binary.NativeEndian, user types wrapping or re-implementing either)
//   - part sizes and member counts between the small random ones (<= 7) and the allocation caps
//   - collection nesting between 5 and MaxCollectionDepth with members of every kind at every level

import (
	"bufio"
	"bytes"
	"encoding/binary"
	"encoding/hex"
	"errors"
	"fmt"
	"io"
	"math"
	"math/rand"
	"sort"
	"strings"
	"testing/iotest"

	"github.com/paulmach/orb"
	"github.com/paulmach/orb/encoding/ewkb"
	"github.com/paulmach/orb/encoding/wkb"
)

/* ---------------------------------------------------------------- readers */

// chunkReader hands out at most sizes[i] bytes on the i-th call (cyclic).
type chunkReader struct {
	r     io.Reader
	sizes []int
	i     int
}

func (c *chunkReader) Read(p []byte) (int, error) {
	n := c.sizes[c.i%len(c.sizes)]
	c.i++
	if n < len(p) {
		p = p[:n]
	}
	return c.r.Read(p)
}

// zeroReader answers (0, nil) on every other call, which the io.Reader contract allows
// ("discouraged", not forbidden) and io.ReadFull copes with.
//
// min: only requests of at least that many bytes are answered that way.  The family member "zero" has
// min 2; the reader with min 1 is kept apart (`zero1=` token, own verdict): readByteOrderType reads the
// byte-order mark with a bare r.Read(buf[:1]) and does not look at the count, a finding of its own.
type zeroReader struct {
	r    io.Reader
	min  int
	flip bool
}

func (z *zeroReader) Read(p []byte) (int, error) {
	if len(p) >= z.min && len(p) > 0 {
		z.flip = !z.flip
		if z.flip {
			return 0, nil
		}
	}
	return z.r.Read(p)
}

type fragReader struct {
	name string
	mk   func(data []byte) (r io.Reader, done func())
}

// the readers / writers that run on every case; the others take turns (one case in four each, chosen by
// a hash of the bytes, so that a replayed case runs the same ones), except in the large cases (all).
var c01ReadersAlways = map[string]bool{"one": true, "half": true, "dataerr": true, "chunk": true, "zero": true}
var c01WritersAlways = map[string]bool{"only": true, "bufio16": true}

func turn(data []byte, i int, always bool) bool {
	if always || len(data) > 4096 {
		return true
	}
	h := uint32(2166136261)
	for _, b := range data {
		h = (h ^ uint32(b)) * 16777619
	}
	return (int(h>>8)+i)%4 == 0
}

// decOut: what one Decode call returned.
type decOut struct {
	g    orb.Geometry
	srid int
	err  error
}

func sameOuts(a, b []decOut) bool {
	if len(a) != len(b) {
		return false
	}
	for i := range a {
		if a[i].err != b[i].err || a[i].srid != b[i].srid || !sameBits(a[i].g, b[i].g) {
			return false
		}
	}
	return true
}

func showOuts(o []decOut) string {
	parts := make([]string, len(o))
	for i, x := range o {
		parts[i] = wkbOutcome(x.g, x.srid, x.err)
	}
	return strings.Join(parts, " ; ")
}

// guardOuts: a panic of the decoder becomes an outcome that is equal to nothing else.
func guardOuts(f func() []decOut) (out []decOut, panicked bool) {
	defer func() {
		if recover() != nil {
			out, panicked = nil, true
		}
	}()
	return f(), false
}

// fragAgreeG: like fragAgree on decoded values instead of their text (the text is made only for what differs).
func fragAgreeG(plain []decOut, data []byte, dec func(r io.Reader) []decOut, zero1 bool) string {
	var bad []string
	run := func(name string, r io.Reader, done func()) string {
		out, p := guardOuts(func() []decOut { return dec(r) })
		done()
		switch {
		case p:
			return name + "=panic"
		case !sameOuts(out, plain):
			return name + "=" + short(showOuts(out))
		}
		return ""
	}
	for i, fr := range c01FragReaders {
		if !turn(data, i, c01ReadersAlways[fr.name]) {
			continue
		}
		r, done := fr.mk(data)
		if b := run(fr.name, r, done); b != "" {
			bad = append(bad, b)
		}
	}
	res := "same"
	if len(bad) != 0 {
		res = "differs:" + strings.Join(bad, ",")
	}
	if zero1 {
		if b := run("zero1", &zeroReader{r: bytes.NewReader(data), min: 1}, nop); b != "" {
			res += " " + b
		}
	}
	return res
}

// decodeAll: up to `max` Decode calls on one ewkb decoder (stops after the first error).
func decodeAll(rd io.Reader, max int) []decOut {
	var outs []decOut
	dec := ewkb.NewDecoder(rd)
	for i := 0; i < max; i++ {
		g, s, err := dec.Decode()
		outs = append(outs, decOut{g, s, err})
		if err != nil {
			break
		}
	}
	return outs
}

func nop() {}

// c01FragReaders: the same bytes behind readers that fragment them in different ways.
var c01FragReaders = []fragReader{
	{"one", func(d []byte) (io.Reader, func()) { return iotest.OneByteReader(bytes.NewReader(d)), nop }},
	{"half", func(d []byte) (io.Reader, func()) { return iotest.HalfReader(bytes.NewReader(d)), nop }},
	{"dataerr", func(d []byte) (io.Reader, func()) { return iotest.DataErrReader(bytes.NewReader(d)), nop }},
	{"dataerr1", func(d []byte) (io.Reader, func()) {
		return iotest.DataErrReader(iotest.OneByteReader(bytes.NewReader(d))), nop
	}},
	{"chunk", func(d []byte) (io.Reader, func()) {
		return &chunkReader{r: bytes.NewReader(d), sizes: []int{3, 1, 7, 2, 5, 4, 13, 6}}, nop
	}},
	{"chunk9", func(d []byte) (io.Reader, func()) {
		return &chunkReader{r: bytes.NewReader(d), sizes: []int{9}}, nop
	}},
	{"zero", func(d []byte) (io.Reader, func()) { return &zeroReader{r: bytes.NewReader(d), min: 2}, nop }},
	{"bufio16", func(d []byte) (io.Reader, func()) {
		// bufio hands out what is left in its buffer: short reads at every buffer boundary
		return bufio.NewReaderSize(&chunkReader{r: bytes.NewReader(d), sizes: []int{11}}, 16), nop
	}},
	{"multi", func(d []byte) (io.Reader, func()) {
		// io.MultiReader never reads across a boundary of its parts
		var parts []io.Reader
		for i := 0; i < len(d); i += 7 {
			j := i + 7
			if j > len(d) {
				j = len(d)
			}
			parts = append(parts, bytes.NewReader(d[i:j]))
		}
		return io.MultiReader(parts...), nop
	}},
	{"pipe", func(d []byte) (io.Reader, func()) {
		// a pipe: every Write of the other side is one (or more) Reads on this side
		pr, pw := io.Pipe()
		go func() {
			for i := 0; i < len(d); i += 5 {
				j := i + 5
				if j > len(d) {
					j = len(d)
				}
				if _, err := pw.Write(d[i:j]); err != nil {
					return
				}
			}
			pw.Close()
		}()
		return pr, func() { pr.Close() }
	}},
}

func short(s string) string {
	f := strings.Fields(s)
	if len(f) > 2 {
		f = f[:2]
	}
	return strings.Join(f, "_")
}

// fragAgree decodes `data` once more through every fragmenting reader; the outcome must be the one the
// plain *bytes.Reader gave.  "same" or the readers that differ (with the head of what they returned).
func fragAgree(plain string, data []byte, dec func(r io.Reader) string) string {
	return fragAgreeZ(plain, data, dec, false)
}

// fragAgreeZ: with zero1, additionally the reader that answers (0, nil) to one-byte requests too (op zread only:
// it fails on every stream while finding C01-stream-zero-read-mark is open, and a verdict per rt / wrt / seq /
// big case would bury their own tags).
func fragAgreeZ(plain string, data []byte, dec func(r io.Reader) string, zero1 bool) string {
	var bad []string
	for i, fr := range c01FragReaders {
		if !turn(data, i, c01ReadersAlways[fr.name]) {
			continue
		}
		r, done := fr.mk(data)
		out := guard(func() string { return dec(r) })
		done()
		if out != plain {
			bad = append(bad, fr.name+"="+short(out))
		}
	}
	res := "same"
	if len(bad) != 0 {
		res = "differs:" + strings.Join(bad, ",")
	}
	if zero1 { // apart: (0, nil) also on one-byte requests
		z := &zeroReader{r: bytes.NewReader(data), min: 1}
		if out := guard(func() string { return dec(z) }); out != plain {
			res += " zero1=" + short(out)
		}
	}
	return res
}

// sameBits: the two values are of the same kind, shape (nil-ness of slices included) and coordinate bits.
// For the large cases: what a fragmenting reader returned is compared with what the plain reader
// returned without printing 10 x 10001 points.
func sameBits(a, b orb.Geometry) bool {
	pe := func(p, q orb.Point) bool {
		return math.Float64bits(p[0]) == math.Float64bits(q[0]) && math.Float64bits(p[1]) == math.Float64bits(q[1])
	}
	pse := func(p, q []orb.Point) bool {
		if len(p) != len(q) || (p == nil) != (q == nil) {
			return false
		}
		for i := range p {
			if !pe(p[i], q[i]) {
				return false
			}
		}
		return true
	}
	switch a := a.(type) {
	case nil:
		return b == nil
	case orb.Point:
		b, ok := b.(orb.Point)
		return ok && pe(a, b)
	case orb.MultiPoint:
		b, ok := b.(orb.MultiPoint)
		return ok && pse(a, b)
	case orb.LineString:
		b, ok := b.(orb.LineString)
		return ok && pse(a, b)
	case orb.Ring:
		b, ok := b.(orb.Ring)
		return ok && pse(a, b)
	case orb.Bound:
		b, ok := b.(orb.Bound)
		return ok && pe(a.Min, b.Min) && pe(a.Max, b.Max)
	case orb.MultiLineString:
		b, ok := b.(orb.MultiLineString)
		if !ok || len(a) != len(b) || (a == nil) != (b == nil) {
			return false
		}
		for i := range a {
			if !pse(a[i], b[i]) {
				return false
			}
		}
		return true
	case orb.Polygon:
		b, ok := b.(orb.Polygon)
		if !ok || len(a) != len(b) || (a == nil) != (b == nil) {
			return false
		}
		for i := range a {
			if !pse(a[i], b[i]) {
				return false
			}
		}
		return true
	case orb.MultiPolygon:
		b, ok := b.(orb.MultiPolygon)
		if !ok || len(a) != len(b) || (a == nil) != (b == nil) {
			return false
		}
		for i := range a {
			if !sameBits(a[i], b[i]) {
				return false
			}
		}
		return true
	case orb.Collection:
		b, ok := b.(orb.Collection)
		if !ok || len(a) != len(b) || (a == nil) != (b == nil) {
			return false
		}
		for i := range a {
			if !sameBits(a[i], b[i]) {
				return false
			}
		}
		return true
	}
	return false
}

/* ---------------------------------------------------------------- writers */

// onlyWriter hides every method but Write (no WriteByte, WriteString, ReadFrom).
type onlyWriter struct{ w io.Writer }

func (o onlyWriter) Write(p []byte) (int, error) { return o.w.Write(p) }

var errSentinel = errors.New("c01: writer is full")

// failWriter accepts `limit` bytes in whole Write calls, then fails; counts what is asked of it afterwards.
type failWriter struct {
	buf    []byte
	limit  int
	failed bool
	after  int
}

func (f *failWriter) Write(p []byte) (int, error) {
	if f.failed {
		f.after++
		return 0, errSentinel
	}
	if len(f.buf)+len(p) > f.limit {
		f.failed = true
		return 0, errSentinel
	}
	f.buf = append(f.buf, p...)
	return len(p), nil
}

var c01WriterKinds = []string{"only", "bufio16", "bufio4k", "pipe", "multi", "fail"}

// encVia runs `enc` against a writer of the given kind and returns the bytes that reached the far end.
// Kind "fail": the writer fails after a few limits below len(want); Encode must hand that error back,
// what was written before must be a prefix of `want`, and nothing may be written after the failure
// (then `want` itself is returned so that the caller's comparison passes).
func encVia(kind string, want []byte, enc func(w io.Writer) error) ([]byte, error) {
	var buf bytes.Buffer
	switch kind {
	case "plain":
		err := enc(&buf)
		return buf.Bytes(), err
	case "only":
		err := enc(onlyWriter{&buf})
		return buf.Bytes(), err
	case "bufio16", "bufio4k":
		n := 16
		if kind == "bufio4k" {
			n = 4096
		}
		bw := bufio.NewWriterSize(onlyWriter{&buf}, n)
		err := enc(bw)
		if err2 := bw.Flush(); err == nil {
			err = err2
		}
		return buf.Bytes(), err
	case "pipe":
		pr, pw := io.Pipe()
		done := make(chan struct{})
		go func() { io.Copy(onlyWriter{&buf}, onlyReader{pr}); close(done) }()
		err := func() error { defer pw.Close(); return enc(pw) }() // closed also when the encoder panics
		<-done
		return buf.Bytes(), err
	case "multi":
		var b2 bytes.Buffer
		err := enc(io.MultiWriter(onlyWriter{&buf}, &b2))
		if !bytes.Equal(buf.Bytes(), b2.Bytes()) {
			return nil, errors.New("the two writers got different bytes")
		}
		return buf.Bytes(), err
	case "fail":
		if len(want) == 0 {
			err := enc(&failWriter{limit: 0})
			return nil, err
		}
		limits := map[int]bool{0: true, 1: true, 5: true, 9: true, 13: true, len(want) / 2: true, len(want) - 1: true}
		ls := make([]int, 0, len(limits))
		for l := range limits {
			if l < len(want) {
				ls = append(ls, l)
			}
		}
		sort.Ints(ls)
		for _, l := range ls {
			fw := &failWriter{limit: l}
			err := enc(fw)
			switch {
			case err != errSentinel:
				return nil, fmt.Errorf("limit %d: error of the writer not returned (%v)", l, err)
			case !bytes.HasPrefix(want, fw.buf):
				return nil, fmt.Errorf("limit %d: not a prefix", l)
			case fw.after != 0:
				return nil, fmt.Errorf("limit %d: %d writes after the failure", l, fw.after)
			}
		}
		return want, nil
	}
	return nil, errors.New("bad writer kind " + kind)
}

type onlyReader struct{ r io.Reader }

func (o onlyReader) Read(p []byte) (int, error) { return o.r.Read(p) }

// addWriterVariants: every encoder entry point that takes a writer, once per writer kind.
func addWriterVariants(vs map[string]func() ([]byte, error), want []byte, name string, enc func(w io.Writer) error) {
	for i, k := range c01WriterKinds {
		k := k
		if turn(want, i, c01WritersAlways[k]) {
			vs[name+"/"+k] = func() ([]byte, error) { return encVia(k, want, enc) }
		}
	}
}

/* ---------------------------------------------------------------- byte orders */

// wrapOrder: a user type wrapping a byte order (logging, counting, … wrappers look like this).
type wrapOrder struct{ binary.ByteOrder }

// ptrOrder: the same behind a pointer.
type ptrOrder struct{ o binary.ByteOrder }

func (p *ptrOrder) Uint16(b []byte) uint16       { return p.o.Uint16(b) }
func (p *ptrOrder) Uint32(b []byte) uint32       { return p.o.Uint32(b) }
func (p *ptrOrder) Uint64(b []byte) uint64       { return p.o.Uint64(b) }
func (p *ptrOrder) PutUint16(b []byte, v uint16) { p.o.PutUint16(b, v) }
func (p *ptrOrder) PutUint32(b []byte, v uint32) { p.o.PutUint32(b, v) }
func (p *ptrOrder) PutUint64(b []byte, v uint64) { p.o.PutUint64(b, v) }
func (p *ptrOrder) String() string               { return "ptrOrder" }

// ownOrder: a byte order implemented from scratch (no value of encoding/binary inside); the dynamic type
// is not comparable (slice field), interface comparison with it must not be relied upon.
type ownOrder struct {
	little bool
	_      []int
}

func (o ownOrder) idx(i, n int) int {
	if o.little {
		return i
	}
	return n - 1 - i
}
func (o ownOrder) get(b []byte, n int) uint64 {
	var v uint64
	for i := 0; i < n; i++ {
		v |= uint64(b[o.idx(i, n)]) << (8 * uint(i))
	}
	return v
}
func (o ownOrder) put(b []byte, n int, v uint64) {
	_ = b[n-1]
	for i := 0; i < n; i++ {
		b[o.idx(i, n)] = byte(v >> (8 * uint(i)))
	}
}
func (o ownOrder) Uint16(b []byte) uint16       { return uint16(o.get(b, 2)) }
func (o ownOrder) Uint32(b []byte) uint32       { return uint32(o.get(b, 4)) }
func (o ownOrder) Uint64(b []byte) uint64       { return o.get(b, 8) }
func (o ownOrder) PutUint16(b []byte, v uint16) { o.put(b, 2, uint64(v)) }
func (o ownOrder) PutUint32(b []byte, v uint32) { o.put(b, 4, uint64(v)) }
func (o ownOrder) PutUint64(b []byte, v uint64) { o.put(b, 8, v) }
func (o ownOrder) String() string               { return "ownOrder" }

// c01Orders: token -> byte order value.  le / be are the two values the library documents; the others
// are byte orders as well (binary.ByteOrder is an interface, and encoding/binary itself has a third value).
var c01OrderToks = []string{"le", "be", "ne", "wle", "wbe", "wne", "ple", "pbe", "ole", "obe"}

func orderOf(tok string) binary.ByteOrder {
	switch tok {
	case "le":
		return binary.LittleEndian
	case "be":
		return binary.BigEndian
	case "ne":
		return binary.NativeEndian
	case "wle":
		return wrapOrder{binary.LittleEndian}
	case "wbe":
		return wrapOrder{binary.BigEndian}
	case "wne":
		return wrapOrder{binary.NativeEndian}
	case "ple":
		return &ptrOrder{binary.LittleEndian}
	case "pbe":
		return &ptrOrder{binary.BigEndian}
	case "ole":
		return ownOrder{little: true}
	case "obe":
		return ownOrder{little: false}
	}
	panic("bad order token " + tok)
}

// payloadLittle: which of the two orders the value writes integers in (probed, not assumed).
func payloadLittle(bo binary.ByteOrder) bool {
	var b [2]byte
	bo.PutUint16(b[:], 1)
	return b[0] == 1
}

func outcomeWkb(g orb.Geometry, err error) string {
	if err != nil {
		return "err " + wkbErrClass(err)
	}
	return "ok 0 " + gs(g)
}

/* ---------------------------------------------------------------- ops */

func runC01wb(op string, r *tokReader) string {
	switch op {
	case "bo":
		// bo <order token> <srid> <gval> => <payload order> <hex> ; <Unmarshal> ; <Decoder> ; <entry points>
		return guard(func() string {
			tok := r.next()
			srid := r.int()
			g := r.geom()
			bo := orderOf(tok)
			po := "0"
			if payloadLittle(bo) {
				po = "1"
			}
			data, err := ewkb.Marshal(g, srid, bo)
			if err != nil {
				return "err marshal"
			}
			um := guard(func() string {
				g2, s2, err := ewkb.Unmarshal(append([]byte(nil), data...))
				return wkbOutcome(g2, s2, err)
			})
			st := guard(func() string {
				g2, s2, err := ewkb.NewDecoder(bytes.NewReader(data)).Decode()
				return wkbOutcome(g2, s2, err)
			})
			vs := map[string]func() ([]byte, error){
				"MustMarshal": func() ([]byte, error) { return ewkb.MustMarshal(g, srid, bo), nil },
				"MarshalToHex": func() ([]byte, error) {
					h, err := ewkb.MarshalToHex(g, srid, bo)
					if err != nil {
						return nil, err
					}
					return unhex(h)
				},
				"Encoder": func() ([]byte, error) {
					var buf bytes.Buffer
					err := ewkb.NewEncoder(&buf).SetByteOrder(bo).SetSRID(srid).Encode(g)
					return buf.Bytes(), err
				},
				"Encoder/only": func() ([]byte, error) {
					var buf bytes.Buffer
					err := ewkb.NewEncoder(onlyWriter{&buf}).SetByteOrder(bo).Encode(g, srid)
					return buf.Bytes(), err
				},
				"DefaultByteOrderVar": func() ([]byte, error) {
					old := ewkb.DefaultByteOrder
					ewkb.DefaultByteOrder = bo
					defer func() { ewkb.DefaultByteOrder = old }()
					return ewkb.Marshal(g, srid)
				},
				"DefaultVars": func() ([]byte, error) {
					oldS, oldO := ewkb.DefaultSRID, ewkb.DefaultByteOrder
					ewkb.DefaultSRID, ewkb.DefaultByteOrder = srid, bo
					defer func() { ewkb.DefaultSRID, ewkb.DefaultByteOrder = oldS, oldO }()
					var buf bytes.Buffer
					err := ewkb.NewEncoder(&buf).Encode(g)
					return buf.Bytes(), err
				},
			}
			if srid == 0 {
				vs["wkb.Marshal"] = func() ([]byte, error) { return wkb.Marshal(g, bo) }
				vs["wkb.Encoder"] = func() ([]byte, error) {
					var buf bytes.Buffer
					err := wkb.NewEncoder(&buf).SetByteOrder(bo).Encode(g)
					return buf.Bytes(), err
				}
				vs["wkb.DefaultByteOrderVar"] = func() ([]byte, error) {
					old := wkb.DefaultByteOrder
					wkb.DefaultByteOrder = bo
					defer func() { wkb.DefaultByteOrder = old }()
					return wkb.Marshal(g)
				}
			}
			return po + " " + hexOrEmpty(data) + " ; " + um + " ; " + st + " ; " + apiAgree(data, vs)
		})
	case "zread":
		// zread <o> <srid> <gval> => <Decoder> ; <readers incl. the one that answers (0, nil) to one-byte requests>
		return guard(func() string {
			o := order(r.next())
			srid := r.int()
			g := r.geom()
			data, err := ewkb.Marshal(g, srid, o)
			if err != nil {
				return "err marshal"
			}
			dec := func(rd io.Reader) []decOut { return decodeAll(rd, 1) }
			plain, p := guardOuts(func() []decOut { return dec(bytes.NewReader(data)) })
			if p {
				return "panic ; same"
			}
			return showOuts(plain) + " ; " + fragAgreeG(plain, data, dec, true)
		})
	case "trunc":
		// trunc <o> <srid> <cut> <gval> => <kept> <len> ; <Unmarshal of the first `kept` bytes> ; <Decoder> ; <readers>
		return guard(func() string {
			o := order(r.next())
			srid := r.int()
			cut := r.int()
			g := r.geom()
			data, err := ewkb.Marshal(g, srid, o)
			if err != nil {
				return "err marshal"
			}
			kept := cut % (len(data) + 1)
			d := data[:kept:kept]
			um := guard(func() string {
				g2, s2, err := ewkb.Unmarshal(append([]byte(nil), d...))
				return wkbOutcome(g2, s2, err)
			})
			dec := func(rd io.Reader) []decOut { return decodeAll(rd, 1) }
			plain, p := guardOuts(func() []decOut { return dec(bytes.NewReader(d)) })
			if p {
				return fmt.Sprintf("%d %d ; %s ; panic ; same", kept, len(data), um)
			}
			return fmt.Sprintf("%d %d ; %s ; %s ; %s", kept, len(data), um, showOuts(plain), fragAgreeG(plain, d, dec, false))
		})
	}
	return "badop"
}

/* ---------------------------------------------------------------- generators */

// logSize: sizes between lo and hi, uniform in the logarithm (every order of magnitude gets its share).
func logSize(r *rand.Rand, lo, hi int) int {
	x := math.Log(float64(lo)) + r.Float64()*(math.Log(float64(hi)+1)-math.Log(float64(lo)))
	n := int(math.Exp(x))
	if n < lo {
		n = lo
	}
	if n > hi {
		n = hi
	}
	return n
}

// genMedium: geometries whose part sizes and member counts lie between the small random family (<= 7)
// and the digest cases of op `big`: 8 … ~400 points per part / members per multi, full text through rt / sc / seq.
func genMedium(r *rand.Rand, mode CoordMode) orb.Geometry {
	pts := func(n int) []orb.Point {
		ps := make([]orb.Point, n)
		for i := range ps {
			ps[i] = genPoint(r, mode)
		}
		return ps
	}
	n := logSize(r, 8, 400)
	few := func() int { return 1 + r.Intn(3) }
	switch r.Intn(11) {
	case 0:
		return orb.LineString(pts(n))
	case 1:
		return orb.MultiPoint(pts(n))
	case 2:
		return orb.Ring(pts(n))
	case 3: // a long ring among short ones
		pg := orb.Polygon{}
		for i, k := 0, few(); i < k; i++ {
			pg = append(pg, pts(r.Intn(5)))
		}
		pg[r.Intn(len(pg))] = pts(n)
		return pg
	case 4: // a long line among short ones
		m := orb.MultiLineString{}
		for i, k := 0, few(); i < k; i++ {
			m = append(m, pts(r.Intn(5)))
		}
		m[r.Intn(len(m))] = pts(n)
		return m
	case 5: // many lines
		m := make(orb.MultiLineString, n)
		for i := range m {
			m[i] = pts(r.Intn(3))
		}
		return m
	case 6: // many rings
		pg := make(orb.Polygon, n)
		for i := range pg {
			pg[i] = pts(r.Intn(3))
		}
		return pg
	case 7: // many polygons
		m := make(orb.MultiPolygon, n/2+1)
		for i := range m {
			m[i] = make(orb.Polygon, r.Intn(3))
			for j := range m[i] {
				m[i][j] = pts(r.Intn(3))
			}
		}
		if len(m) > 0 && r.Intn(2) == 0 {
			m[r.Intn(len(m))] = orb.Polygon{pts(logSize(r, 8, 200))}
		}
		return m
	case 8: // many members of all kinds
		c := make(orb.Collection, n/2+1)
		o := GenOpts{Mode: mode, MaxPts: 3, MaxDepth: 2}
		for i := range c {
			c[i] = genGeom(r, o, 1)
		}
		return c
	case 9: // deeper than the random family nests (6 … 40 levels), members of every kind on the way down
		return genNested(r, mode, 6+r.Intn(35))
	default:
		return orb.Collection{orb.LineString(pts(n)), genPoint(r, mode), orb.Polygon{pts(logSize(r, 8, 100))}}
	}
}

// genNested: `depth` collection levels; at every level a few members of random kinds before and after
// the inner collection.
func genNested(r *rand.Rand, mode CoordMode, depth int) orb.Geometry {
	o := GenOpts{Mode: mode, MaxPts: 3, MaxDepth: 0}
	var g orb.Geometry = genGeom(r, o, 1)
	for k := 0; k < depth; k++ {
		c := orb.Collection{}
		for i, n := 0, r.Intn(3); i < n; i++ {
			c = append(c, genGeom(r, o, 1))
		}
		c = append(c, g)
		for i, n := 0, r.Intn(3); i < n; i++ {
			c = append(c, genGeom(r, o, 1))
		}
		g = c
	}
	return g
}

// c01ThresholdSizes: sizes an implementation is likely to treat specially (buffers of 2^k bytes or
// points, round chunk sizes) and their neighbours.
func c01ThresholdSizes() (exact []int, near []int) {
	seen := map[int]bool{}
	add := func(dst *[]int, n int) {
		if n >= 8 && !seen[n] {
			seen[n] = true
			*dst = append(*dst, n)
		}
	}
	for k := 3; k <= 14; k++ {
		add(&exact, 1<<uint(k))
	}
	for j := 1; j <= 10; j++ {
		add(&exact, 1000*j)
	}
	for _, n := range []int{100, 200, 250, 300, 400, 500, 600, 700, 750, 800, 900, 1500, 2500, 4095, 20000} {
		add(&exact, n)
	}
	for _, n := range append([]int(nil), exact...) {
		add(&near, n-1)
		add(&near, n+1)
	}
	return
}

// genC01wb: the fixed families of the white-box round (spread over the shards by `mine`) .
func genC01wb(c *Ctx, mine func() bool, bigCase func(shape string, n int, o int, srid int, base uint64)) {
	// ---- byte orders: every value x orb.AllGeometries x srid
	for _, tok := range c01OrderToks {
		for i, g := range orb.AllGeometries {
			if mine() {
				c.Case("bo", fmt.Sprintf("%s %d %s", tok, []int{0, 4326}[i%2], gs(g)))
				c.Case("bo", fmt.Sprintf("%s %d %s", tok, []int{4326, 0}[i%2], gs(g)))
			}
		}
		if mine() {
			c.Case("bo", tok+" 0 nil")
			c.Case("bo", tok+" 4326 nLS")
		}
	}
	// ---- a reader that answers (0, nil) to every other request, one-byte requests included
	for i, g := range orb.AllGeometries {
		if mine() {
			c.Case("zread", fmt.Sprintf("%d %d %s", i%2, 4326*((i/2)%2), gs(g)))
		}
	}
	// ---- truncation: every cut of a few encodings through every reader
	for i, g := range orb.AllGeometries {
		if !mine() {
			continue
		}
		data, _ := ewkb.Marshal(g, 4326, binary.LittleEndian)
		step := 1
		if len(data) > 120 {
			step = 1 + len(data)/60
		}
		for cut := 0; cut <= len(data); cut += step {
			c.Case("trunc", fmt.Sprintf("%d %d %d %s", i%2, 4326*(i%2), cut, gs(g)))
		}
	}
	// ---- sizes: every part size 8 … 1100 (two shapes each in quick, all in thorough), the thresholds
	// with all shapes, their neighbours with one
	allShapes := c.Tier == "thorough"
	for n := 8; n <= 1100; n++ {
		for si, sh := range c01BigPoints {
			if !allShapes && si != 0 && si != 1+n%(len(c01BigPoints)-1) {
				continue
			}
			if mine() {
				bigCase(sh, n, (n+si)%2, 4326*((n/2+si)%2), c01BigBases[(n+si)%3])
			}
		}
	}
	exact, near := c01ThresholdSizes()
	for _, n := range exact {
		if n <= 1100 && allShapes {
			continue
		}
		for si, sh := range c01BigPoints {
			if n <= 1100 && (si == 0 || si == 1+n%(len(c01BigPoints)-1)) {
				continue // already in the sweep
			}
			if mine() {
				bigCase(sh, n, (n/8+si)%2, 4326*(si%2), c01BigBases[si%3])
			}
		}
	}
	for i, n := range near {
		if n <= 1100 {
			continue
		}
		if mine() {
			bigCase(c01BigPoints[i%len(c01BigPoints)], n, i%2, 4326*((i/2)%2), c01BigBases[i%3])
		}
		if allShapes && mine() {
			bigCase(c01BigPoints[(i+3)%len(c01BigPoints)], n, (i+1)%2, 4326*((i/2)%2), c01BigBases[(i+1)%3])
		}
	}
	// ---- member counts 2 … 300 (above: 100 / 101 only)
	for n := 2; n <= 300; n++ {
		for si, sh := range c01BigMulti {
			if !allShapes && si != n%len(c01BigMulti) && si != (n/len(c01BigMulti)+3)%len(c01BigMulti) {
				continue
			}
			if mine() {
				bigCase(sh, n, (n+si)%2, 4326*((n/2)%2), c01BigBases[(n+si)%3])
			}
		}
	}
	// ---- nesting 1 … 300 with members of every kind at every level (NESTM), then around the limit
	for n := 1; n <= 300; n++ {
		if mine() {
			bigCase("NESTM", n, n%2, 4326*((n/2)%2), c01BigBases[n%3])
		}
	}
	deep := []int{1000, 4096, 9999, 10000, 10001}
	if allShapes {
		deep = append(deep, 301, 512, 2000, 9998, 10002, 20000)
	}
	for i, n := range deep {
		if mine() {
			bigCase("NESTM", n, i%2, 4326*(i%2), c01BigBases[i%3])
		}
	}
}

// genC01wbRandom: the random part, called once per iteration of the random loop of genC01.
func genC01wbRandom(c *Ctx, k int, opt GenOpts, bigCase func(shape string, n int, o int, srid int, base uint64)) {
	r := c.Rng
	g := genGeom(r, opt, 0)
	if k%2 == 0 {
		c.Case("bo", fmt.Sprintf("%s %d %s", c01OrderToks[r.Intn(len(c01OrderToks))], genSrid(c), gsN(g)))
	}
	if k%4 == 1 {
		c.Case("trunc", fmt.Sprintf("%d %d %d %s", r.Intn(2), genSrid(c), r.Intn(1<<20), gsN(g)))
	}
	if k%32 == 9 {
		c.Case("zread", fmt.Sprintf("%d %d %s", r.Intn(2), genSrid(c), gsN(g)))
	}
	if k%16 == 5 { // medium sizes, full text
		m := genMedium(r, opt.Mode)
		switch r.Intn(4) {
		case 0:
			c.Case("rt", fmt.Sprintf("%d %d %s", r.Intn(2), genSrid(c), gsN(m)))
		case 1:
			c.Case("wrt", fmt.Sprintf("%d %s", r.Intn(2), gsN(m)))
		case 2:
			d := c01Dests[r.Intn(len(c01Dests))]
			fr := c01Framings[r.Intn(len(c01Framings))]
			c.Case("sc", fmt.Sprintf("%d %d %s %s %d %s", r.Intn(2), genSrid(c), d, fr, genSrid(c), gsN(m)))
		default:
			c.Case("seq", fmt.Sprintf("2 %d %d set %s %d %d arg %s", r.Intn(2), genSrid(c), gsN(m), r.Intn(2), genSrid(c), gsN(g)))
		}
	}
	if k%512 == 77 { // random sizes over the whole range, any shape
		bigCase(c01BigPoints[r.Intn(len(c01BigPoints))], logSize(r, 8, 20000), r.Intn(2), genSrid(c), c01BigBases[r.Intn(3)])
		bigCase(c01BigMulti[r.Intn(len(c01BigMulti))], logSize(r, 2, 2000), r.Intn(2), genSrid(c), c01BigBases[r.Intn(3)])
		bigCase("NESTM", logSize(r, 6, 3000), r.Intn(2), genSrid(c), c01BigBases[r.Intn(3)])
	}
}

var _ = hex.EncodeToString
