package main

import (
	"math"
	"math/rand"

	"github.com/paulmach/orb"
)

// C06, extended coordinate values (white-box round).
//
// The pools of gen.go used by the geom / pair / bounds ops are finite and write every zero as +0.
// The quantifier of the property excludes NaN only, and says that coordinates agree when they are
// `==`.  This file adds, for the ops geom, pair and bounds:
//   - the values at the ends of the order: ±Inf, ±MaxFloat64 and its neighbour, ±2^53, ±MaxFloat32;
//   - the values around zero: +0, -0, the smallest / largest subnormal, the smallest normal;
//   - float neighbours (x, nextafter x) and values `==` but different in bits (+0 / -0);
//   - NaN (several payloads): judged by correspondence with the Float twin only;
// at every nesting level (every kind, collections of collections, Point and Bound values), as
// single coordinates, as whole axes (every x / every y / both the same value) and mixed.

var c06NegZero = math.Copysign(0, -1)

// every non-NaN value class
var c06ExtVals = []float64{
	0, c06NegZero,
	math.Inf(1), math.Inf(-1),
	math.MaxFloat64, -math.MaxFloat64,
	math.Float64frombits(0x7feffffffffffffe), math.Float64frombits(0xffeffffffffffffe), // next to ±MaxFloat64
	5e-324, -5e-324, // smallest subnormals
	math.Float64frombits(0x000fffffffffffff), math.Float64frombits(0x800fffffffffffff), // largest subnormals
	math.Float64frombits(0x0010000000000000), math.Float64frombits(0x8010000000000000), // smallest normals
	1, -1,
	9007199254740992, -9007199254740992,
	math.MaxFloat32, -math.MaxFloat32,
	1e308, -1e308,
}

var c06NaNs = []float64{
	math.Float64frombits(0x7ff8000000000000), math.Float64frombits(0x7ff8000000000001),
	math.Float64frombits(0xfff8000000000000), math.Float64frombits(0x7ff0000000000001),
	math.Float64frombits(0xffffffffffffffff),
}

// mapCoords applies f(axis, value) to every coordinate of g in storage order.  Point slices are
// written in place; Point / Bound values and the members of collections are replaced.
func mapCoords(g orb.Geometry, f func(axis int, v float64) float64) orb.Geometry {
	pts := func(ps []orb.Point) {
		for i := range ps {
			ps[i][0] = f(0, ps[i][0])
			ps[i][1] = f(1, ps[i][1])
		}
	}
	switch v := g.(type) {
	case orb.Point:
		x := f(0, v[0])
		y := f(1, v[1])
		return orb.Point{x, y}
	case orb.Bound:
		a := f(0, v.Min[0])
		b := f(1, v.Min[1])
		c := f(0, v.Max[0])
		d := f(1, v.Max[1])
		return orb.Bound{Min: orb.Point{a, b}, Max: orb.Point{c, d}}
	case orb.MultiPoint:
		pts(v)
	case orb.LineString:
		pts(v)
	case orb.Ring:
		pts(v)
	case orb.MultiLineString:
		for _, l := range v {
			pts(l)
		}
	case orb.Polygon:
		for _, l := range v {
			pts(l)
		}
	case orb.MultiPolygon:
		for _, pg := range v {
			for _, l := range pg {
				pts(l)
			}
		}
	case orb.Collection:
		for i := range v {
			if v[i] != nil {
				v[i] = mapCoords(v[i], f)
			}
		}
	}
	return g
}

func countCoords(g orb.Geometry) int {
	n := 0
	mapCoords(copyGeom(g), func(_ int, v float64) float64 { n++; return v })
	return n
}

// setCoord returns a copy of g whose k-th coordinate (storage order) is v.
func setCoord(g orb.Geometry, k int, v float64) orb.Geometry {
	i := 0
	return mapCoords(copyGeom(g), func(_ int, old float64) float64 {
		i++
		if i-1 == k {
			return v
		}
		return old
	})
}

// setAxis returns a copy of g with every x (axis 0), every y (axis 1) or every coordinate (axis 2) set to v.
func setAxis(g orb.Geometry, axis int, v float64) orb.Geometry {
	return mapCoords(copyGeom(g), func(a int, old float64) float64 {
		if axis == 2 || a == axis {
			return v
		}
		return old
	})
}

func flipZero(v float64) float64 {
	if v == 0 {
		return math.Float64frombits(math.Float64bits(v) ^ 1<<63)
	}
	return v
}

// c06Shapes: every kind, several nesting depths, all coordinates distinct and non-zero; fresh values.
func c06Shapes() []orb.Geometry {
	return []orb.Geometry{
		orb.Point{1, 2},
		orb.MultiPoint{{1, 2}},
		orb.MultiPoint{{1, 2}, {3, 4}, {5, 6}},
		orb.LineString{{1, 2}, {3, 4}},
		orb.Ring{{1, 2}, {3, 2}, {3, 4}, {1, 2}},
		orb.MultiLineString{{{1, 2}}, {{3, 4}, {5, 6}}},
		orb.Polygon{{{1, 2}, {3, 2}, {3, 4}}, {{2, 3}}},
		orb.MultiPolygon{{{{1, 2}}}, {{{3, 4}, {5, 6}}, {{7, 8}}}},
		orb.Bound{Min: orb.Point{1, 2}, Max: orb.Point{3, 4}},
		orb.Collection{orb.MultiPoint{{1, 2}}},
		orb.Collection{orb.Point{1, 2}, orb.LineString{{3, 4}, {5, 6}}},
		orb.Collection{orb.Collection{orb.Collection{orb.Ring{{1, 2}, {3, 4}}}, orb.Bound{Min: orb.Point{5, 6}, Max: orb.Point{7, 8}}}, orb.Polygon{{{5, 6}}}},
		orb.Collection{nil, orb.MultiPolygon{{{{1, 2}, {3, 4}}}}, nil, orb.MultiLineString{nil, {{5, 6}}}},
	}
}

// value pairs for one coordinate of two otherwise identical values: `==` with different bits, not
// `==` with neighbouring bits, the ends of the order, NaN against itself / another payload / a number
func c06PairVals() [][2]float64 {
	nz := c06NegZero
	inf := math.Inf(1)
	up := func(x float64) float64 { return math.Nextafter(x, inf) }
	dn := func(x float64) float64 { return math.Nextafter(x, -inf) }
	return [][2]float64{
		{0, nz}, {nz, 0}, {0, 0}, {nz, nz},
		{0, 5e-324}, {nz, -5e-324}, {5e-324, -5e-324}, {5e-324, 1e-323},
		{math.Float64frombits(0x000fffffffffffff), math.Float64frombits(0x0010000000000000)},
		{inf, math.MaxFloat64}, {-inf, -math.MaxFloat64}, {inf, inf}, {-inf, -inf}, {inf, -inf},
		{math.MaxFloat64, dn(math.MaxFloat64)},
		{1, up(1)}, {1, dn(1)}, {-1, dn(-1)},
		{9007199254740992, up(9007199254740992)}, {0.1, up(0.1)}, {1e-7, 1.0000001e-7}, {16777216, 16777217},
		{c06NaNs[0], c06NaNs[0]}, {c06NaNs[1], c06NaNs[1]}, {c06NaNs[4], c06NaNs[4]},
		{c06NaNs[0], c06NaNs[1]}, {c06NaNs[0], c06NaNs[2]}, {c06NaNs[0], 0}, {inf, c06NaNs[0]},
	}
}

// genC06ExtFixed: the fixed family (shard 0).
func genC06ExtFixed(c *Ctx) {
	all := append(append([]float64{}, c06ExtVals...), c06NaNs...)
	for _, s := range c06Shapes() {
		n := countCoords(s)
		// Bound / Clone / Equal(g, Clone(g)) with one special coordinate, with a whole axis special
		for _, v := range all {
			for k := 0; k < n; k++ {
				c.Case("geom", gsN(setCoord(s, k, v)))
			}
			for axis := 0; axis < 3; axis++ {
				c.Case("geom", gsN(setAxis(s, axis, v)))
			}
		}
		// two values on one axis (the box has to reach both)
		for _, pr := range [][2]float64{{math.Inf(1), math.MaxFloat64}, {math.Inf(-1), -math.MaxFloat64}, {math.Inf(1), math.Inf(-1)},
			{0, c06NegZero}, {c06NegZero, 0}, {5e-324, 0}, {-5e-324, c06NegZero}, {math.MaxFloat64, -math.MaxFloat64}, {math.Inf(1), c06NaNs[0]}} {
			for axis := 0; axis < 3; axis++ {
				i := 0
				c.Case("geom", gsN(mapCoords(copyGeom(s), func(a int, old float64) float64 {
					if axis == 2 || a == axis {
						i++
						return pr[i%2]
					}
					return old
				})))
			}
		}
		// Equal: two copies that differ in one coordinate only
		for _, pr := range c06PairVals() {
			for k := 0; k < n; k++ {
				c.Case("pair", gsN(setCoord(s, k, pr[0]))+" "+gsN(setCoord(s, k, pr[1])))
			}
		}
		// … and in the sign of every zero / every second zero
		z := setAxis(s, 2, 0)
		c.Case("pair", gsN(z)+" "+gsN(setAxis(s, 2, c06NegZero)))
		c.Case("pair", gsN(setAxis(s, 2, c06NegZero))+" "+gsN(z))
		i := 0
		alt := mapCoords(copyGeom(z), func(_ int, v float64) float64 {
			i++
			if i%2 == 0 {
				return c06NegZero
			}
			return v
		})
		c.Case("pair", gsN(z)+" "+gsN(alt))
		c.Case("pair", gsN(alt)+" "+gsN(setAxis(s, 2, c06NegZero)))
		for axis := 0; axis < 2; axis++ {
			c.Case("pair", gsN(setAxis(s, axis, 0))+" "+gsN(setAxis(s, axis, c06NegZero)))
			c.Case("pair", gsN(setAxis(s, axis, math.Inf(1)))+" "+gsN(setAxis(s, axis, math.Inf(1))))
			c.Case("pair", gsN(setAxis(s, axis, math.Inf(1)))+" "+gsN(setAxis(s, axis, math.MaxFloat64)))
			c.Case("pair", gsN(setAxis(s, axis, c06NaNs[0]))+" "+gsN(setAxis(s, axis, c06NaNs[0])))
		}
	}
	// boxes: every combination of the end / zero values as an interval on x, a plain interval on y (and
	// the other way round), against each other and a probe point
	iv := []float64{math.Inf(-1), -math.MaxFloat64, -1, c06NegZero, 0, 5e-324, 1, math.MaxFloat64, math.Inf(1)}
	var boxes []orb.Bound
	for i, lo := range iv {
		for _, hi := range iv[i:] {
			boxes = append(boxes, orb.Bound{Min: orb.Point{lo, -2}, Max: orb.Point{hi, 3}})
		}
	}
	boxes = append(boxes, orb.Bound{Min: orb.Point{1, 1}, Max: orb.Point{-1, -1}},
		orb.Bound{Min: orb.Point{math.Inf(1), 0}, Max: orb.Point{math.Inf(-1), 0}},
		orb.Bound{Min: orb.Point{0, 0}, Max: orb.Point{c06NegZero, c06NegZero}},
		orb.Bound{Min: orb.Point{math.Inf(-1), math.Inf(-1)}, Max: orb.Point{math.Inf(1), math.Inf(1)}})
	k := 0
	for _, b1 := range boxes {
		for _, b2 := range boxes {
			b3 := boxes[(k*7+3)%len(boxes)]
			p := orb.Point{iv[k%len(iv)], []float64{-2, 3, 0, 4, math.Inf(1)}[k%5]}
			k++
			for t := 0; t < 2; t++ {
				c.Case("bounds", sbound(b1)+" "+sbound(b2)+" "+sbound(b3)+" "+fb(p[0])+" "+fb(p[1]))
				// the same with the axes exchanged
				sw := func(b orb.Bound) orb.Bound {
					return orb.Bound{Min: orb.Point{b.Min[1], b.Min[0]}, Max: orb.Point{b.Max[1], b.Max[0]}}
				}
				b1, b2, b3, p = sw(b1), sw(b2), sw(b3), orb.Point{p[1], p[0]}
			}
		}
	}
}

func c06ExtVal(r *rand.Rand) float64 { return c06ExtVals[r.Intn(len(c06ExtVals))] }

// extInject overwrites coordinates of g (in place / rebuilt) by extended values.
func extInject(r *rand.Rand, g orb.Geometry) orb.Geometry {
	inf := math.Inf(1)
	switch r.Intn(6) {
	case 0: // sprinkle
		p := 2 + r.Intn(4)
		g = mapCoords(g, func(_ int, v float64) float64 {
			if r.Intn(p) == 0 {
				return c06ExtVal(r)
			}
			return v
		})
	case 1: // a whole axis (or both) is one value
		axis := r.Intn(3)
		v := c06ExtVal(r)
		g = mapCoords(g, func(a int, old float64) float64 {
			if axis == 2 || a == axis {
				return v
			}
			return old
		})
	case 2: // zeros of both signs
		g = mapCoords(g, func(_ int, v float64) float64 {
			switch r.Intn(4) {
			case 0:
				return 0
			case 1:
				return c06NegZero
			}
			return v
		})
	case 3: // two values on an axis
		axis := r.Intn(3)
		a, b := c06ExtVal(r), c06ExtVal(r)
		g = mapCoords(g, func(ax int, old float64) float64 {
			if axis == 2 || ax == axis {
				if r.Intn(2) == 0 {
					return a
				}
				return b
			}
			return old
		})
	case 4: // a value and its two float neighbours
		b := c06ExtVal(r)
		if r.Intn(2) == 0 {
			b = coord(r, CoordFloat)
		}
		g = mapCoords(g, func(_ int, old float64) float64 {
			switch r.Intn(5) {
			case 0:
				return b
			case 1:
				return math.Nextafter(b, inf)
			case 2:
				return math.Nextafter(b, -inf)
			}
			return old
		})
	default: // everything from the pool
		g = mapCoords(g, func(_ int, _ float64) float64 { return c06ExtVal(r) })
	}
	return g
}

// nanInject puts NaNs (several payloads) on some coordinates.
func nanInject(r *rand.Rand, g orb.Geometry) orb.Geometry {
	p := 1 + r.Intn(5)
	return mapCoords(g, func(_ int, v float64) float64 {
		if r.Intn(p) == 0 {
			return c06NaNs[r.Intn(len(c06NaNs))]
		}
		return v
	})
}

// extPair: g (possibly with one coordinate forced to zero) and a partner that is g up to
// representation (signs of zeros), or next to g in the order (one coordinate moved to a float
// neighbour), or g itself, or a structural mutation of g.
func extPair(c *Ctx, g orb.Geometry) (orb.Geometry, orb.Geometry) {
	r := c.Rng
	inf := math.Inf(1)
	n := countCoords(g)
	switch r.Intn(6) {
	case 0, 1: // flip the sign of zeros (at least one): still equal
		zeros := 0
		mapCoords(copyGeom(g), func(_ int, v float64) float64 {
			if v == 0 {
				zeros++
			}
			return v
		})
		if zeros == 0 {
			if n == 0 {
				return g, copyGeom(g)
			}
			g = setCoord(g, r.Intn(n), []float64{0, c06NegZero}[r.Intn(2)])
			zeros = 1
		}
		must := r.Intn(zeros)
		i := 0
		return g, mapCoords(copyGeom(g), func(_ int, v float64) float64 {
			if v == 0 {
				i++
				if i-1 == must || r.Intn(2) == 0 {
					return flipZero(v)
				}
			}
			return v
		})
	case 2: // one coordinate moved to a float neighbour
		if n == 0 {
			return g, copyGeom(g)
		}
		k := r.Intn(n)
		i := 0
		return g, mapCoords(copyGeom(g), func(_ int, v float64) float64 {
			i++
			if i-1 == k {
				if r.Intn(2) == 0 {
					return math.Nextafter(v, inf)
				}
				return math.Nextafter(v, -inf)
			}
			return v
		})
	case 3: // one coordinate replaced by another extended value
		if n == 0 {
			return g, copyGeom(g)
		}
		return g, setCoord(g, r.Intn(n), c06ExtVal(r))
	case 4:
		return g, mutateGeom(c, g)
	}
	return g, copyGeom(g)
}

func genBoundExt(r *rand.Rand) orb.Bound {
	v := func() float64 {
		if r.Intn(3) == 0 {
			return float64(r.Intn(9) - 4)
		}
		return c06ExtVal(r)
	}
	a, b := orb.Point{v(), v()}, orb.Point{v(), v()}
	switch r.Intn(8) {
	case 0:
		return orb.Bound{Min: orb.Point{1, 1}, Max: orb.Point{-1, -1}}
	case 1: // as drawn: often empty on one axis
		return orb.Bound{Min: a, Max: b}
	case 2:
		return orb.Bound{Min: a, Max: a}
	case 3: // a point box up to the sign of zero
		return orb.Bound{Min: a, Max: orb.Point{flipZero(a[0]), flipZero(a[1])}}
	}
	if a[0] > b[0] {
		a[0], b[0] = b[0], a[0]
	}
	if a[1] > b[1] {
		a[1], b[1] = b[1], a[1]
	}
	return orb.Bound{Min: a, Max: b}
}

// genC06ExtRandom: one round of random cases with extended values (called once per iteration of genC06).
func genC06ExtRandom(c *Ctx) {
	r := c.Rng
	mode := []CoordMode{CoordSmallInt, CoordSmallInt, CoordHalf, CoordFloat}[r.Intn(4)]
	o := GenOpts{Mode: mode, MaxPts: 5, MaxDepth: 3, TopNil: true, InnerNil: true}
	g := genGeom(r, o, 0)
	if r.Intn(6) == 0 {
		g = genNilColl(r, o)
	}
	g = extInject(r, g)
	if r.Intn(8) == 0 {
		g = nanInject(r, g)
	}
	c.Case("geom", gsN(g))
	// Equal
	g2 := genGeom(r, o, 0)
	if r.Intn(6) == 0 {
		g2 = genNilColl(r, o)
	}
	g2 = extInject(r, g2)
	if r.Intn(8) == 0 {
		g2 = nanInject(r, g2)
	}
	g2, h := extPair(c, g2)
	c.Case("pair", gsN(g2)+" "+gsN(h))
	// boxes
	b1, b2, b3 := genBoundExt(r), genBoundExt(r), genBoundExt(r)
	p := orb.Point{c06ExtVal(r), c06ExtVal(r)}
	switch r.Intn(4) {
	case 0: // a corner of b1
		p = orb.Point{[]float64{b1.Min[0], b1.Max[0]}[r.Intn(2)], []float64{b1.Min[1], b1.Max[1]}[r.Intn(2)]}
	case 1: // next to a corner
		p = orb.Point{math.Nextafter(b1.Min[0], math.Inf(r.Intn(2)*2-1)), math.Nextafter(b1.Max[1], math.Inf(r.Intn(2)*2-1))}
	case 2:
		p = orb.Point{float64(r.Intn(9) - 4), c06ExtVal(r)}
	}
	if r.Intn(10) == 0 { // NaN: correspondence only
		nan := c06NaNs[r.Intn(len(c06NaNs))]
		switch r.Intn(4) {
		case 0:
			p[r.Intn(2)] = nan
		case 1:
			b1.Min[r.Intn(2)] = nan
		case 2:
			b2.Max[r.Intn(2)] = nan
		default:
			b3.Min[r.Intn(2)] = nan
			p[r.Intn(2)] = nan
		}
	}
	c.Case("bounds", sbound(b1)+" "+sbound(b2)+" "+sbound(b3)+" "+fb(p[0])+" "+fb(p[1]))
}
