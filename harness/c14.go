package main

import (
	"fmt"
	"math"
	"math/rand"
	"sort"
	"strconv"
	"strings"

	"github.com/paulmach/orb"
	"github.com/paulmach/orb/maptile"
	"github.com/paulmach/orb/maptile/tilecover"
)

func init() { register(&Prop{ID: "C14", Run: runC14, Gen: genC14}) }

// c14Pts lists the vertices of g in the traversal order of Orb.Proto.coords.
func c14Pts(g orb.Geometry, out []orb.Point) []orb.Point {
	switch g := g.(type) {
	case orb.Point:
		out = append(out, g)
	case orb.MultiPoint:
		out = append(out, g...)
	case orb.LineString:
		out = append(out, g...)
	case orb.Ring:
		out = append(out, g...)
	case orb.MultiLineString:
		for _, l := range g {
			out = append(out, l...)
		}
	case orb.Polygon:
		for _, l := range g {
			out = append(out, l...)
		}
	case orb.MultiPolygon:
		for _, p := range g {
			for _, l := range p {
				out = append(out, l...)
			}
		}
	case orb.Bound:
		out = append(out, g.Min, g.Max)
	case orb.Collection:
		for _, m := range g {
			out = c14Pts(m, out)
		}
	}
	return out
}

// c14Fractions ships maptile.Fraction of every vertex (the transcendental part stays in Go).
func c14Fractions(g orb.Geometry, z maptile.Zoom) string {
	ps := c14Pts(g, nil)
	var sb strings.Builder
	sb.WriteString(strconv.Itoa(len(ps)))
	for _, p := range ps {
		f := maptile.Fraction(p, z)
		sb.WriteString(" ")
		sb.WriteString(fb(f[0]))
		sb.WriteString(" ")
		sb.WriteString(fb(f[1]))
	}
	return sb.String()
}

func c14Set(s maptile.Set, z maptile.Zoom) string {
	type xy struct{ x, y uint32 }
	l := make([]xy, 0, len(s))
	for t, v := range s {
		if !v {
			return "falsevalue"
		}
		if t.Z != z {
			return "badzoom"
		}
		l = append(l, xy{t.X, t.Y})
	}
	sort.Slice(l, func(i, j int) bool {
		if l[i].x != l[j].x {
			return l[i].x < l[j].x
		}
		return l[i].y < l[j].y
	})
	var sb strings.Builder
	sb.WriteString("ok ")
	sb.WriteString(strconv.Itoa(len(l)))
	for _, t := range l {
		sb.WriteString(" ")
		sb.WriteString(strconv.FormatUint(uint64(t.x), 10))
		sb.WriteString(" ")
		sb.WriteString(strconv.FormatUint(uint64(t.y), 10))
	}
	return sb.String()
}

func c14Cover(g orb.Geometry, z maptile.Zoom) string {
	return guard(func() string {
		s, err := tilecover.Geometry(g, z)
		if err != nil {
			if err == tilecover.ErrUnevenIntersections {
				return "err uneven"
			}
			return "err other"
		}
		return c14Set(s, z)
	})
}

func c14Tiles(s maptile.Set) string {
	l := make([]maptile.Tile, 0, len(s))
	for t, v := range s {
		if v {
			l = append(l, t)
		}
	}
	sort.Slice(l, func(i, j int) bool {
		a, b := l[i], l[j]
		if a.Z != b.Z {
			return a.Z < b.Z
		}
		if a.X != b.X {
			return a.X < b.X
		}
		return a.Y < b.Y
	})
	var sb strings.Builder
	sb.WriteString(strconv.Itoa(len(l)))
	for _, t := range l {
		fmt.Fprintf(&sb, " %d %d %d", t.X, t.Y, uint32(t.Z))
	}
	return sb.String()
}

func runC14(op string, in []string) string {
	r := &tokReader{t: in}
	switch op {
	case "cover":
		z := maptile.Zoom(pu(r.next()))
		g := r.geom()
		return c14Fractions(g, z) + " ; " + c14Cover(g, z)
	case "coll":
		z := maptile.Zoom(pu(r.next()))
		g := r.geom()
		c, ok := g.(orb.Collection)
		if !ok {
			return "badinput"
		}
		parts := []string{c14Fractions(g, z)}
		for _, m := range c {
			parts = append(parts, c14Cover(m, z))
		}
		parts = append(parts, c14Cover(c, z))
		return strings.Join(parts, " ; ")
	case "merge", "mergep":
		return guard(func() string {
			min := maptile.Zoom(pu(r.next()))
			count := 0
			if op == "mergep" {
				count = r.int()
			}
			reps := r.int()
			k := r.int()
			type kv struct {
				t maptile.Tile
				v bool
			}
			kvs := make([]kv, k)
			for i := range kvs {
				t := rdTile(r)
				kvs[i] = kv{t, r.next() == "1"}
			}
			first := ""
			same := true
			for i := 0; i < reps; i++ {
				// MergeUp mutates the set it is given: rebuild it for every run
				// (insertion order and the map's hash seed vary the iteration order)
				set := make(maptile.Set)
				if i%2 == 0 {
					for _, e := range kvs {
						set[e.t] = e.v
					}
				} else {
					for j := len(kvs) - 1; j >= 0; j-- {
						set[kvs[j].t] = kvs[j].v
					}
				}
				var res maptile.Set
				if op == "merge" {
					res = tilecover.MergeUp(set, min)
				} else {
					res = tilecover.MergeUpPartial(set, min, count)
				}
				s := c14Tiles(res)
				if i == 0 {
					first = s
				} else if s != first {
					same = false
				}
			}
			if same {
				return "same ; " + first
			}
			return "differ ; " + first
		})
	}
	return "badop"
}

// ---------------------------------------------------------------------------------------------
// generators (shapes are drawn in tile space and mapped to lon/lat, so sizes are in tiles)

type c14Gen struct {
	r *rand.Rand
	z int
	n float64 // 2^z
}

// toLL maps a tile-space point to lon/lat (inverse of maptile.Fraction up to rounding).
func (g *c14Gen) toLL(x, y float64) orb.Point {
	lon := 360.0 * (x/g.n - 0.5)
	lat := 2.0*math.Atan(math.Exp(math.Pi-(2*math.Pi)*(y/g.n)))*(180.0/math.Pi) - 90.0
	if lon <= -179.999999 {
		lon = -179.999999
	}
	if lon >= 179.999999 {
		lon = 179.999999
	}
	if y == g.n/2 {
		lat = 0 // exactly on the row boundary n/2 (Fraction gives 0.5*n exactly)
	}
	if lat > 84.9 {
		lat = 84.9
	}
	if lat < -84.9 {
		lat = -84.9
	}
	return orb.Point{lon, lat}
}

// size draws an extent in tiles: sub-tile, a few tiles, tens, hundreds.
func (g *c14Gen) size() float64 {
	var s float64
	switch g.r.Intn(8) {
	case 0:
		s = 0.001 + g.r.Float64()*0.3
	case 1:
		s = 0.3 + g.r.Float64()
	case 2, 3:
		s = 1 + g.r.Float64()*6
	case 4, 5:
		s = 5 + g.r.Float64()*30
	case 6:
		s = 30 + g.r.Float64()*70
	default:
		s = 100 + g.r.Float64()*200
	}
	if s > g.n*0.45 {
		s = g.n * 0.45 * (0.2 + 0.8*g.r.Float64())
	}
	return s
}

// center draws a centre such that a shape of radius s stays inside the square (and inside lat ±84.9).
func (g *c14Gen) center(s float64) (float64, float64) {
	lo, hi := s+0.002*g.n, g.n-s-0.002*g.n
	if hi <= lo {
		return g.n / 2, g.n / 2
	}
	cx := lo + g.r.Float64()*(hi-lo)
	cy := lo + g.r.Float64()*(hi-lo)
	switch g.r.Intn(6) {
	case 0: // centre on a tile corner
		cx, cy = math.Round(cx), math.Round(cy)
	case 1: // on the equator row boundary
		cy = g.n / 2
	}
	return cx, cy
}

// star returns a closed star-shaped ring around (cx, cy); kind: 0 convex-ish, 1 concave, 2 sliver.
// It also returns the radius of a disc around the centre that lies inside the ring.
func (g *c14Gen) star(cx, cy, s float64, kind int) (orb.Ring, float64) {
	k := 3 + g.r.Intn(9)
	if kind == 1 {
		k = 6 + g.r.Intn(14)
	}
	rot := g.r.Float64() * 2 * math.Pi
	ax, ay := 1.0, 1.0
	if kind == 2 {
		ay = 0.0005 + g.r.Float64()*0.05
	}
	rmin := math.Inf(1)
	gap := 2 * math.Pi / float64(k)
	pts := make([][2]float64, k)
	for i := 0; i < k; i++ {
		a := gap * (float64(i) + 0.8*(g.r.Float64()-0.5))
		rad := s
		switch kind {
		case 0:
			rad = s * (0.85 + 0.15*g.r.Float64())
		case 1:
			rad = s * (0.25 + 0.75*g.r.Float64())
		}
		if rad < rmin {
			rmin = rad
		}
		pts[i] = [2]float64{rad * math.Cos(a) * ax, rad * math.Sin(a) * ay}
	}
	ring := make(orb.Ring, 0, k+1)
	cr, sr := math.Cos(rot), math.Sin(rot)
	snap := kind == 0 && s >= 8 && g.r.Intn(4) == 0 // vertices (nearly) on tile corners
	for _, p := range pts {
		x, y := cx+p[0]*cr-p[1]*sr, cy+p[0]*sr+p[1]*cr
		if snap {
			x, y = math.Round(x), math.Round(y)
		}
		ring = append(ring, g.toLL(x, y))
	}
	ring = append(ring, ring[0])
	if g.r.Intn(2) == 0 {
		ring.Reverse()
	}
	// angular gaps are at most 1.8*gap: the inscribed disc
	in := rmin * math.Cos(math.Min(0.9*gap, 1.5)) * math.Min(ax, ay)
	if snap {
		in -= 1.5
	}
	return ring, in
}

func (g *c14Gen) polygon() orb.Polygon {
	s := g.size()
	cx, cy := g.center(s)
	kind := g.r.Intn(3)
	outer, in := g.star(cx, cy, s, kind)
	p := orb.Polygon{outer}
	if kind != 2 && in > 0 {
		switch g.r.Intn(4) {
		case 0:
			h, _ := g.star(cx, cy, in*(0.2+0.7*g.r.Float64()), g.r.Intn(2))
			p = append(p, h)
		case 1:
			h1, _ := g.star(cx-in/2, cy, in/4*(0.3+0.7*g.r.Float64()), g.r.Intn(2))
			h2, _ := g.star(cx+in/2, cy, in/4*(0.3+0.7*g.r.Float64()), g.r.Intn(2))
			p = append(p, h1, h2)
		}
	}
	return p
}

// rect returns an axis-parallel closed ring (edges along constant lon / lat: dx = 0 or dy = 0 exactly).
func (g *c14Gen) rect() orb.Ring {
	s := g.size()
	cx, cy := g.center(s)
	w, h := s*(0.1+0.9*g.r.Float64()), s*(0.1+0.9*g.r.Float64())
	if g.r.Intn(3) == 0 { // corners on tile corners in x
		cx, w = math.Round(cx), math.Max(1, math.Round(w))
	}
	a := g.toLL(cx-w, cy-h)
	b := g.toLL(cx+w, cy+h)
	return orb.Ring{{a[0], a[1]}, {b[0], a[1]}, {b[0], b[1]}, {a[0], b[1]}, {a[0], a[1]}}
}

func (g *c14Gen) lineString() orb.LineString {
	k := 2 + g.r.Intn(7)
	s := g.size()
	cx, cy := g.center(s)
	ls := make(orb.LineString, 0, k)
	x, y := cx+(g.r.Float64()*2-1)*s, cy+(g.r.Float64()*2-1)*s
	ls = append(ls, g.toLL(x, y))
	for i := 1; i < k; i++ {
		switch g.r.Intn(8) {
		case 0: // repeated vertex (zero-length segment)
			ls = append(ls, ls[len(ls)-1])
			continue
		case 1: // same lon: dx == 0
			y = cy + (g.r.Float64()*2-1)*s
			p := g.toLL(x, y)
			p[0] = ls[len(ls)-1][0]
			ls = append(ls, p)
			continue
		case 2: // same lat: dy == 0
			x = cx + (g.r.Float64()*2-1)*s
			p := g.toLL(x, y)
			p[1] = ls[len(ls)-1][1]
			ls = append(ls, p)
			continue
		case 3: // to a tile corner / along a column boundary
			x, y = math.Round(cx+(g.r.Float64()*2-1)*s), math.Round(cy+(g.r.Float64()*2-1)*s)
		case 4: // short hop
			x += (g.r.Float64()*2 - 1) * 0.4
			y += (g.r.Float64()*2 - 1) * 0.4
		case 5: // a segment aimed through a tile corner (passes within rounding of it)
			kx, ky := math.Round(cx+(g.r.Float64()*2-1)*s), math.Round(cy+(g.r.Float64()*2-1)*s)
			if g.r.Intn(3) == 0 && math.Abs(cy-g.n/2) <= s {
				ky = g.n / 2
			}
			a := g.r.Float64() * 2 * math.Pi
			t1, t2 := 0.2+g.r.Float64()*s, 0.2+g.r.Float64()*s
			ls[len(ls)-1] = g.toLL(kx-t1*math.Cos(a), ky-t1*math.Sin(a))
			x, y = kx+t2*math.Cos(a), ky+t2*math.Sin(a)
		default:
			x, y = cx+(g.r.Float64()*2-1)*s, cy+(g.r.Float64()*2-1)*s
		}
		if x < 0.01 {
			x = 0.01
		}
		if x > g.n-0.01 {
			x = g.n - 0.01
		}
		ls = append(ls, g.toLL(x, y))
	}
	// positive length: make sure two vertices differ
	if ls[0] == ls[len(ls)-1] && len(ls) == 2 {
		ls[1] = g.toLL(x+0.37, y+0.21)
	}
	return ls
}

func (g *c14Gen) point() orb.Point {
	x, y := g.r.Float64()*g.n, g.n*(0.01+0.98*g.r.Float64())
	switch g.r.Intn(6) {
	case 0:
		x = math.Floor(x)
	case 1:
		y = g.n / 2
	case 2:
		x = g.n - 1e-9*g.n
	}
	return g.toLL(x, y)
}

func (g *c14Gen) bound() orb.Bound {
	s := g.size()
	if s > 120 {
		s = 120 * g.r.Float64()
	}
	cx, cy := g.center(s)
	a := g.toLL(cx-s*g.r.Float64(), cy+s*g.r.Float64()) // min: west, south (larger y)
	b := g.toLL(cx+s*g.r.Float64(), cy-s*g.r.Float64())
	switch g.r.Intn(10) {
	case 0: // single point
		b = a
	case 1: // zero width
		b[0] = a[0]
	case 2: // inverted in lon: empty
		a[0], b[0] = b[0], a[0]
		if a[0] == b[0] {
			a[0] += 1e-6
		}
	case 3: // inverted in lat: empty
		a[1], b[1] = b[1], a[1]
		if a[1] == b[1] {
			a[1] += 1e-6
		}
	case 4: // both
		a, b = b, a
	}
	return orb.Bound{Min: a, Max: b}
}

// degenerate rings: the class of the (repaired) empty-trace defect, and open rings
func (g *c14Gen) oddRing() orb.Ring {
	p := g.point()
	switch g.r.Intn(7) {
	case 0:
		return orb.Ring{}
	case 1:
		return orb.Ring{p}
	case 2:
		return orb.Ring{p, p, p, p}
	case 3:
		return orb.Ring{p, p}
	case 4: // two distinct vertices
		q := g.lineString()
		return orb.Ring{q[0], q[1]}
	case 5: // there and back
		q := g.lineString()
		return orb.Ring{q[0], q[1], q[0]}
	default: // open ring
		r, _ := g.star(g.n/2, g.n/2, math.Min(g.size(), g.n*0.3), g.r.Intn(2))
		return r[:len(r)-1]
	}
}

func (g *c14Gen) geom(depth int) orb.Geometry {
	k := g.r.Intn(20)
	switch {
	case k < 2:
		return g.point()
	case k < 3:
		n := size(g.r, 5)
		mp := make(orb.MultiPoint, n)
		for i := range mp {
			mp[i] = g.point()
		}
		return mp
	case k < 7:
		return g.lineString()
	case k < 8:
		n := size(g.r, 3)
		m := make(orb.MultiLineString, n)
		for i := range m {
			m[i] = g.lineString()
		}
		return m
	case k < 9:
		switch g.r.Intn(3) {
		case 0:
			return g.rect()
		case 1:
			return g.oddRing()
		default:
			return g.polygon()[0]
		}
	case k < 14:
		p := g.polygon()
		if g.r.Intn(12) == 0 {
			p = append(p, g.oddRing())
		}
		if g.r.Intn(40) == 0 {
			p = orb.Polygon{g.oddRing()}
		}
		if g.r.Intn(60) == 0 {
			p = orb.Polygon{}
		}
		return p
	case k < 15:
		n := size(g.r, 3)
		m := make(orb.MultiPolygon, n)
		for i := range m {
			m[i] = g.polygon()
		}
		return m
	case k < 17:
		return g.bound()
	default:
		if depth >= 2 {
			return g.lineString()
		}
		n := size(g.r, 4)
		c := make(orb.Collection, n)
		for i := range c {
			c[i] = g.geom(depth + 1)
		}
		return c
	}
}

// c14Extent is the larger side (in tiles) of the tile-space bound of the vertices of g.
func c14Extent(g orb.Geometry, z maptile.Zoom) float64 {
	m := 0.0
	switch g := g.(type) {
	case orb.Collection:
		for _, x := range g {
			m = math.Max(m, c14Extent(x, z))
		}
		return m
	case orb.MultiPolygon:
		for _, x := range g {
			m = math.Max(m, c14Extent(x, z))
		}
		return m
	case orb.MultiLineString:
		for _, x := range g {
			m = math.Max(m, c14Extent(x, z))
		}
		return m
	case orb.MultiPoint:
		return 0
	}
	ps := c14Pts(g, nil)
	if len(ps) == 0 {
		return 0
	}
	f0 := maptile.Fraction(ps[0], z)
	minx, maxx, miny, maxy := f0[0], f0[0], f0[1], f0[1]
	for _, p := range ps {
		f := maptile.Fraction(p, z)
		minx, maxx = math.Min(minx, f[0]), math.Max(maxx, f[0])
		miny, maxy = math.Min(miny, f[1]), math.Max(maxy, f[1])
	}
	return math.Max(maxx-minx, maxy-miny)
}

func newC14Gen(r *rand.Rand) *c14Gen {
	z := r.Intn(23)
	return &c14Gen{r: r, z: z, n: float64(uint64(1) << uint(z))}
}

func c14MergeCase(c *Ctx, op string, min int, count int, tiles []maptile.Tile, vals []bool) {
	var sb strings.Builder
	fmt.Fprintf(&sb, "%d ", min)
	if op == "mergep" {
		fmt.Fprintf(&sb, "%d ", count)
	}
	fmt.Fprintf(&sb, "4 %d", len(tiles))
	for i, t := range tiles {
		v := 1
		if vals != nil && !vals[i] {
			v = 0
		}
		fmt.Fprintf(&sb, " %d %d %d %d", t.X, t.Y, uint32(t.Z), v)
	}
	c.Case(op, sb.String())
}

// block returns all descendants of t that are d levels down.
func c14Block(t maptile.Tile, d uint) []maptile.Tile {
	w := uint32(1) << d
	out := make([]maptile.Tile, 0, w*w)
	for i := uint32(0); i < w; i++ {
		for j := uint32(0); j < w; j++ {
			out = append(out, maptile.Tile{X: t.X<<d + i, Y: t.Y<<d + j, Z: t.Z + maptile.Zoom(d)})
		}
	}
	return out
}

func c14Shuffle(r *rand.Rand, l []maptile.Tile) {
	r.Shuffle(len(l), func(i, j int) { l[i], l[j] = l[j], l[i] })
}

func c14Dedup(l []maptile.Tile) []maptile.Tile {
	seen := map[maptile.Tile]bool{}
	out := l[:0]
	for _, t := range l {
		if !seen[t] {
			seen[t] = true
			out = append(out, t)
		}
	}
	return out
}

func genC14Merge(c *Ctx, n int) {
	rng := c.Rng
	for k := 0; k < n && !c.Exhausted(); k++ {
		var tiles []maptile.Tile
		var vals []bool
		zoom := 0
		switch rng.Intn(8) {
		case 0, 1: // a cover of a generated shape at a modest zoom
			g := newC14Gen(rng)
			for g.z > 14 {
				g = newC14Gen(rng)
			}
			var geo orb.Geometry
			switch rng.Intn(3) {
			case 0:
				geo = g.polygon()
			case 1:
				geo = g.bound()
			default:
				geo = g.lineString()
			}
			zoom = g.z
			set, err := tilecover.Geometry(geo, maptile.Zoom(g.z))
			if err != nil || len(set) > 2500 {
				continue
			}
			for t := range set {
				tiles = append(tiles, t)
			}
			sort.Slice(tiles, func(i, j int) bool {
				if tiles[i].X != tiles[j].X {
					return tiles[i].X < tiles[j].X
				}
				return tiles[i].Y < tiles[j].Y
			})
		case 2, 3, 4: // unions of complete blocks with a few tiles knocked out / added
			zoom = 1 + rng.Intn(10)
			nb := 1 + rng.Intn(4)
			for b := 0; b < nb; b++ {
				d := rng.Intn(c14Min(zoom, 5) + 1)
				bz := zoom - d
				w := uint32(1) << uint(bz)
				root := maptile.Tile{X: uint32(rng.Int63()) % w, Y: uint32(rng.Int63()) % w, Z: maptile.Zoom(bz)}
				if b > 0 && rng.Intn(2) == 0 && len(tiles) > 0 { // neighbouring block: siblings may complete a quad
					p := tiles[rng.Intn(len(tiles))]
					root = maptile.Tile{X: (p.X >> uint(d)) ^ 1, Y: p.Y >> uint(d), Z: maptile.Zoom(bz)}
				}
				tiles = append(tiles, c14Block(root, uint(d))...)
			}
			tiles = c14Dedup(tiles)
			c14Shuffle(rng, tiles)
			drop := 0
			switch rng.Intn(3) {
			case 0:
				drop = rng.Intn(3)
			case 1:
				drop = rng.Intn(len(tiles)/4 + 1)
			}
			tiles = tiles[:len(tiles)-c14Min(drop, len(tiles))]
		case 5: // random subset of a small level
			zoom = 1 + rng.Intn(4)
			w := uint32(1) << uint(zoom)
			p := rng.Float64()
			for x := uint32(0); x < w; x++ {
				for y := uint32(0); y < w; y++ {
					if rng.Float64() < p {
						tiles = append(tiles, maptile.Tile{X: x, Y: y, Z: maptile.Zoom(zoom)})
					}
				}
			}
			c14Shuffle(rng, tiles)
		case 6: // a whole level / single tile / empty
			zoom = rng.Intn(6)
			switch rng.Intn(3) {
			case 0:
				tiles = c14Block(maptile.Tile{}, uint(zoom))
			case 1:
				w := uint32(1) << uint(zoom)
				tiles = []maptile.Tile{{X: uint32(rng.Int63()) % w, Y: uint32(rng.Int63()) % w, Z: maptile.Zoom(zoom)}}
			}
		default: // deep zoom, sparse
			zoom = 10 + rng.Intn(13)
			w := uint32(1) << uint(zoom)
			base := maptile.Tile{X: uint32(rng.Int63()) % w, Y: uint32(rng.Int63()) % w, Z: maptile.Zoom(zoom)}
			d := uint(1 + rng.Intn(4))
			root := maptile.Tile{X: base.X >> d, Y: base.Y >> d, Z: base.Z - maptile.Zoom(d)}
			tiles = c14Block(root, d)
			c14Shuffle(rng, tiles)
			tiles = tiles[:len(tiles)-rng.Intn(3)]
		}
		if rng.Intn(6) == 0 && len(tiles) > 0 { // some entries present with value false
			vals = make([]bool, len(tiles))
			for i := range vals {
				vals[i] = rng.Intn(5) != 0
			}
		}
		min := 0
		switch rng.Intn(5) {
		case 0:
			min = zoom
		case 1:
			min = 0
		case 2:
			min = c14Max(0, zoom-1)
		default:
			min = rng.Intn(zoom + 1)
		}
		op, count := "merge", 0
		if rng.Intn(5) == 0 {
			op, count = "mergep", rng.Intn(7)-1
		}
		if rng.Intn(40) == 0 { // target deeper than the cover: outside the quantifier, correspondence only
			min = zoom + 1 + rng.Intn(3)
		}
		c14MergeCase(c, op, min, count, tiles, vals)
	}
}

func c14Min(a, b int) int {
	if a < b {
		return a
	}
	return b
}
func c14Max(a, b int) int {
	if a > b {
		return a
	}
	return b
}

func genC14(c *Ctx) {
	rng := c.Rng
	// exhaustive: every subset of the 2x2 level (zoom 1) and of one quad plus one neighbour at zoom 2,
	// every target; thorough: every subset of the 4x4 level
	i := 0
	for mask := 0; mask < 16; mask++ {
		for min := 0; min <= 1; min++ {
			i++
			if !c.Mine(i) {
				continue
			}
			var tiles []maptile.Tile
			for b := 0; b < 4; b++ {
				if mask>>uint(b)&1 == 1 {
					tiles = append(tiles, maptile.Tile{X: uint32(b & 1), Y: uint32(b >> 1), Z: 1})
				}
			}
			c14MergeCase(c, "merge", min, 0, tiles, nil)
		}
	}
	nmask := 1 << 12
	if c.Tier == "thorough" {
		nmask = 1 << 16
	}
	for mask := 0; mask < nmask; mask++ {
		i++
		if !c.Mine(i) {
			continue
		}
		m := mask
		if c.Tier != "thorough" { // quick: the subsets that contain the quad (0,0)-(1,1) or miss one tile of it are the interesting ones
			m = mask<<4 | 0xf ^ (1 << uint(mask%5) & 0xf)
		}
		var tiles []maptile.Tile
		// bit order: quad-major, so that low bits are sibling quads
		for b := 0; b < 16; b++ {
			if m>>uint(b)&1 == 1 {
				q, s := b>>2, b&3
				tiles = append(tiles, maptile.Tile{X: uint32((q&1)*2 + s&1), Y: uint32((q>>1)*2 + s>>1), Z: 2})
			}
		}
		c14MergeCase(c, "merge", mask%3, 0, tiles, nil)
	}

	nm := c.Budget / 3
	genC14Merge(c, nm)

	for k := 0; k < c.Budget && !c.Exhausted(); k++ {
		g := newC14Gen(rng)
		geo := g.geom(0)
		if c14Extent(geo, maptile.Zoom(g.z)) > 900 { // keep covers below ~10^5 tiles
			continue
		}
		if col, ok := geo.(orb.Collection); ok {
			c.Case("coll", fmt.Sprintf("%d %s", g.z, gs(col)))
		} else {
			c.Case("cover", fmt.Sprintf("%d %s", g.z, gs(geo)))
		}
		if k%50 == 0 {
			// nil interface / typed nil slices at top level
			nils := []orb.Geometry{nil, orb.MultiPoint(nil), orb.LineString(nil), orb.MultiLineString(nil), orb.Ring(nil),
				orb.Polygon(nil), orb.MultiPolygon(nil), orb.Collection(nil)}
			c.Case("cover", fmt.Sprintf("%d %s", g.z, gs(nils[rng.Intn(len(nils))])))
		}
	}
}
