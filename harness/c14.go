package main

import (
	"fmt"
	"math"
	"math/rand"
	"sort"
	"strconv"
	"strings"

	"github.com/paulmach/orb"
	"github.com/paulmach/orb/maptile"
	"github.com/paulmach/orb/maptile/tilecover"
)

func init() { register(&Prop{ID: "C14", Run: runC14, Gen: genC14}) }

// c14Pts lists the vertices of g in the traversal order of Orb.Proto.coords.
func c14Pts(g orb.Geometry, out []orb.Point) []orb.Point {
	switch g := g.(type) {
	case orb.Point:
		out = append(out, g)
	case orb.MultiPoint:
		out = append(out, g...)
	case orb.LineString:
		out = append(out, g...)
	case orb.Ring:
		out = append(out, g...)
	case orb.MultiLineString:
		for _, l := range g {
			out = append(out, l...)
		}
	case orb.Polygon:
		for _, l := range g {
			out = append(out, l...)
		}
	case orb.MultiPolygon:
		for _, p := range g {
			for _, l := range p {
				out = append(out, l...)
			}
		}
	case orb.Bound:
		out = append(out, g.Min, g.Max)
	case orb.Collection:
		for _, m := range g {
			out = c14Pts(m, out)
		}
	}
	return out
}

// c14Fractions ships maptile.Fraction of every vertex (the transcendental part stays in Go), followed by
// the segment "M n (sa sv la lv)*n": per vertex, Go's own libm values on the path of maptile.Fraction —
// sa = lat*Pi/180, sv = math.Sin(sa), la = (1+sv)/(1-sv), lv = math.Log(la) — computed by this mirror of
// its two expressions (only the ARGUMENTS are the mirror's; the values are Go's).  The Lean driver
// redoes Fraction with the model Orb.TileGeo.fraction (C13's) on top of them and must reproduce the
// shipped fraction — the IMPLEMENTATION's — bit for bit; an argument that is not the one the model
// computes is reported as a diff (oracle-miss).  nil members of collections have no vertices.
func c14Fractions(g orb.Geometry, z maptile.Zoom) string {
	ps := c14Pts(g, nil)
	var sb, lm strings.Builder
	sb.WriteString(strconv.Itoa(len(ps)))
	lm.WriteString(" ; M ")
	lm.WriteString(strconv.Itoa(len(ps)))
	for _, p := range ps {
		f := maptile.Fraction(p, z)
		sb.WriteString(" ")
		sb.WriteString(fb(f[0]))
		sb.WriteString(" ")
		sb.WriteString(fb(f[1]))
		sa := p[1] * math.Pi / 180.0
		sv := math.Sin(sa)
		la := (1.0 + sv) / (1.0 - sv)
		lv := math.Log(la)
		lm.WriteString(" " + fb(sa) + " " + fb(sv) + " " + fb(la) + " " + fb(lv))
	}
	return sb.String() + lm.String()
}

func c14Set(s maptile.Set, z maptile.Zoom) string {
	type xy struct{ x, y uint32 }
	l := make([]xy, 0, len(s))
	for t, v := range s {
		if !v {
			return "falsevalue"
		}
		if t.Z != z {
			return "badzoom"
		}
		l = append(l, xy{t.X, t.Y})
	}
	sort.Slice(l, func(i, j int) bool {
		if l[i].x != l[j].x {
			return l[i].x < l[j].x
		}
		return l[i].y < l[j].y
	})
	var sb strings.Builder
	sb.WriteString("ok ")
	sb.WriteString(strconv.Itoa(len(l)))
	for _, t := range l {
		sb.WriteString(" ")
		sb.WriteString(strconv.FormatUint(uint64(t.x), 10))
		sb.WriteString(" ")
		sb.WriteString(strconv.FormatUint(uint64(t.y), 10))
	}
	return sb.String()
}

// c14LongFracs: the fractions of a segment at which op `long` questions the cover (the driver has the
// same list: lean/Driver/C14.lean `longFracs`)
var c14LongFracs = []float64{0.25, 0.5, 0.75, 0.9, 0.99, 0.999}

func c14Cover(g orb.Geometry, z maptile.Zoom) string {
	return guard(func() string {
		s, err := tilecover.Geometry(g, z)
		if err != nil {
			if err == tilecover.ErrUnevenIntersections {
				return "err uneven"
			}
			return "err other"
		}
		return c14Set(s, z)
	})
}

func c14Tiles(s maptile.Set) string {
	l := make([]maptile.Tile, 0, len(s))
	for t, v := range s {
		if v {
			l = append(l, t)
		}
	}
	sort.Slice(l, func(i, j int) bool {
		a, b := l[i], l[j]
		if a.Z != b.Z {
			return a.Z < b.Z
		}
		if a.X != b.X {
			return a.X < b.X
		}
		return a.Y < b.Y
	})
	var sb strings.Builder
	sb.WriteString(strconv.Itoa(len(l)))
	for _, t := range l {
		fmt.Fprintf(&sb, " %d %d %d", t.X, t.Y, uint32(t.Z))
	}
	return sb.String()
}

func runC14(op string, in []string) string {
	r := &tokReader{t: in}
	switch op {
	case "cover":
		z := maptile.Zoom(pu(r.next()))
		g := r.geom()
		return c14Fractions(g, z) + " ; " + c14Cover(g, z)
	case "long":
		// a line string whose cover is too large to ship or to model (up to millions of tiles): the
		// cover is built once and only questioned — its size, and for every vertex and for points at
		// fixed fractions of every segment (interpolated between the vertices' tile fractions) the
		// tile and whether the cover holds it
		z := maptile.Zoom(pu(r.next()))
		g := r.geom()
		ls, ok := g.(orb.LineString)
		if !ok {
			return "badinput"
		}
		return c14Fractions(g, z) + " ; " + guard(func() string {
			set, err := tilecover.Geometry(ls, z)
			if err != nil {
				return "err"
			}
			var sb strings.Builder
			bad := 0
			for t, v := range set {
				if !v || t.Z != z {
					bad++
				}
			}
			fmt.Fprintf(&sb, "n %d %d", len(set), bad)
			ask := func(x, y float64) {
				t := maptile.New(uint32(math.Floor(x)), uint32(math.Floor(y)), z)
				in := 0
				if set[t] {
					in = 1
				}
				fmt.Fprintf(&sb, " %d %d %d", t.X, t.Y, in)
			}
			for i, p := range ls {
				t := maptile.At(p, z)
				in := 0
				if set[t] {
					in = 1
				}
				fmt.Fprintf(&sb, " ; v %d %d %d", t.X, t.Y, in)
				if i+1 < len(ls) {
					a, b := maptile.Fraction(p, z), maptile.Fraction(ls[i+1], z)
					sb.WriteString(" ; s")
					for _, f := range c14LongFracs {
						ask(a[0]+f*(b[0]-a[0]), a[1]+f*(b[1]-a[1]))
					}
				}
			}
			return sb.String()
		})
	case "coll":
		z := maptile.Zoom(pu(r.next()))
		g := r.geom()
		c, ok := g.(orb.Collection)
		if !ok {
			return "badinput"
		}
		parts := []string{c14Fractions(g, z)}
		for _, m := range c {
			parts = append(parts, c14Cover(m, z))
		}
		parts = append(parts, c14Cover(c, z))
		return strings.Join(parts, " ; ")
	case "merge", "mergep":
		return guard(func() string {
			min := maptile.Zoom(pu(r.next()))
			count := 0
			if op == "mergep" {
				count = r.int()
			}
			reps := r.int()
			k := r.int()
			type kv struct {
				t maptile.Tile
				v bool
			}
			kvs := make([]kv, k)
			for i := range kvs {
				t := rdTile(r)
				kvs[i] = kv{t, r.next() == "1"}
			}
			first := ""
			same := true
			for i := 0; i < reps; i++ {
				// MergeUp mutates the set it is given: rebuild it for every run
				// (insertion order and the map's hash seed vary the iteration order)
				set := make(maptile.Set)
				if i%2 == 0 {
					for _, e := range kvs {
						set[e.t] = e.v
					}
				} else {
					for j := len(kvs) - 1; j >= 0; j-- {
						set[kvs[j].t] = kvs[j].v
					}
				}
				var res maptile.Set
				if op == "merge" {
					res = tilecover.MergeUp(set, min)
				} else {
					res = tilecover.MergeUpPartial(set, min, count)
				}
				s := c14Tiles(res)
				if i == 0 {
					first = s
				} else if s != first {
					same = false
				}
			}
			if same {
				return "same ; " + first
			}
			return "differ ; " + first
		})
	}
	return "badop"
}

// ---------------------------------------------------------------------------------------------
// generators (shapes are drawn in tile space and mapped to lon/lat, so sizes are in tiles)

type c14Gen struct {
	r *rand.Rand
	z int
	n float64 // 2^z
}

// toLL maps a tile-space point to lon/lat (inverse of maptile.Fraction up to rounding).
func (g *c14Gen) toLL(x, y float64) orb.Point {
	lon := 360.0 * (x/g.n - 0.5)
	lat := 2.0*math.Atan(math.Exp(math.Pi-(2*math.Pi)*(y/g.n)))*(180.0/math.Pi) - 90.0
	if lon <= -179.999999 {
		lon = -179.999999
	}
	if lon >= 179.999999 {
		lon = 179.999999
	}
	if y == g.n/2 {
		lat = 0 // exactly on the row boundary n/2 (Fraction gives 0.5*n exactly)
	}
	if lat > 84.9 {
		lat = 84.9
	}
	if lat < -84.9 {
		lat = -84.9
	}
	return orb.Point{lon, lat}
}

// size draws an extent in tiles: sub-tile, a few tiles, tens, hundreds.
func (g *c14Gen) size() float64 {
	var s float64
	switch g.r.Intn(8) {
	case 0:
		s = 0.001 + g.r.Float64()*0.3
	case 1:
		s = 0.3 + g.r.Float64()
	case 2, 3:
		s = 1 + g.r.Float64()*6
	case 4, 5:
		s = 5 + g.r.Float64()*30
	case 6:
		s = 30 + g.r.Float64()*70
	default:
		s = 100 + g.r.Float64()*200
	}
	if s > g.n*0.45 {
		s = g.n * 0.45 * (0.2 + 0.8*g.r.Float64())
	}
	return s
}

// center draws a centre such that a shape of radius s stays inside the square (and inside lat ±84.9).
func (g *c14Gen) center(s float64) (float64, float64) {
	lo, hi := s+0.002*g.n, g.n-s-0.002*g.n
	if hi <= lo {
		return g.n / 2, g.n / 2
	}
	cx := lo + g.r.Float64()*(hi-lo)
	cy := lo + g.r.Float64()*(hi-lo)
	switch g.r.Intn(6) {
	case 0: // centre on a tile corner
		cx, cy = math.Round(cx), math.Round(cy)
	case 1: // on the equator row boundary
		cy = g.n / 2
	}
	return cx, cy
}

// star returns a closed star-shaped ring around (cx, cy); kind: 0 convex-ish, 1 concave, 2 sliver.
// It also returns the radius of a disc around the centre that lies inside the ring.
func (g *c14Gen) star(cx, cy, s float64, kind int) (orb.Ring, float64) {
	k := 3 + g.r.Intn(9)
	if kind == 1 {
		k = 6 + g.r.Intn(14)
	}
	rot := g.r.Float64() * 2 * math.Pi
	ax, ay := 1.0, 1.0
	if kind == 2 {
		ay = 0.0005 + g.r.Float64()*0.05
	}
	rmin := math.Inf(1)
	gap := 2 * math.Pi / float64(k)
	pts := make([][2]float64, k)
	angs := make([]float64, k)
	for i := 0; i < k; i++ {
		a := gap * (float64(i) + 0.8*(g.r.Float64()-0.5))
		angs[i] = a
		rad := s
		switch kind {
		case 0:
			rad = s * (0.85 + 0.15*g.r.Float64())
		case 1:
			rad = s * (0.25 + 0.75*g.r.Float64())
		}
		if rad < rmin {
			rmin = rad
		}
		pts[i] = [2]float64{rad * math.Cos(a) * ax, rad * math.Sin(a) * ay}
	}
	// the largest angular gap between consecutive vertices (the angles are increasing: the jitter is
	// +-0.4 gap), including the wrap-around
	maxGap := angs[0] + 2*math.Pi - angs[k-1]
	for i := 1; i < k; i++ {
		if d := angs[i] - angs[i-1]; d > maxGap {
			maxGap = d
		}
	}
	ring := make(orb.Ring, 0, k+1)
	cr, sr := math.Cos(rot), math.Sin(rot)
	snap := kind == 0 && s >= 8 && g.r.Intn(4) == 0 // vertices (nearly) on tile corners
	for _, p := range pts {
		x, y := cx+p[0]*cr-p[1]*sr, cy+p[0]*sr+p[1]*cr
		if snap {
			x, y = math.Round(x), math.Round(y)
		}
		ring = append(ring, g.toLL(x, y))
	}
	ring = append(ring, ring[0])
	if g.r.Intn(2) == 0 {
		ring.Reverse()
	}
	// the inscribed disc: an edge whose end points are at least rmin away and subtend the angle d < pi at
	// the centre stays rmin*cos(d/2) away from it.  With a gap of pi or more (possible for k = 3, where
	// gaps reach 1.8 * 2pi/3) the centre is NOT inside the ring: no disc, hence no holes.
	in := 0.0
	if maxGap < 0.95*math.Pi {
		in = rmin * math.Cos(maxGap/2) * math.Min(ax, ay)
	}
	if snap {
		in -= 1.5
	}
	return ring, in
}

func (g *c14Gen) polygon() orb.Polygon {
	s := g.size()
	cx, cy := g.center(s)
	kind := g.r.Intn(3)
	outer, in := g.star(cx, cy, s, kind)
	p := orb.Polygon{outer}
	if kind != 2 && in > 0 {
		switch g.r.Intn(4) {
		case 0:
			h, _ := g.star(cx, cy, in*(0.2+0.7*g.r.Float64()), g.r.Intn(2))
			p = append(p, h)
		case 1:
			h1, _ := g.star(cx-in/2, cy, in/4*(0.3+0.7*g.r.Float64()), g.r.Intn(2))
			h2, _ := g.star(cx+in/2, cy, in/4*(0.3+0.7*g.r.Float64()), g.r.Intn(2))
			p = append(p, h1, h2)
		}
	}
	return p
}

// c14Thick returns the outline of the polyline c (consecutive segments perpendicular, each longer than
// 1.5 w) thickened to width w with mitred corners: left side forward, right side backward.
func c14Thick(c [][2]float64, w float64) [][2]float64 {
	n := len(c)
	h := w / 2
	norm := func(a, b [2]float64) [2]float64 { // unit left normal of a->b
		dx, dy := b[0]-a[0], b[1]-a[1]
		l := math.Hypot(dx, dy)
		return [2]float64{-dy / l, dx / l}
	}
	left := make([][2]float64, n)
	right := make([][2]float64, n)
	for i := 0; i < n; i++ {
		var nx, ny float64
		if i > 0 {
			m := norm(c[i-1], c[i])
			nx, ny = nx+m[0], ny+m[1]
		}
		if i < n-1 {
			m := norm(c[i], c[i+1])
			nx, ny = nx+m[0], ny+m[1]
		}
		left[i] = [2]float64{c[i][0] + h*nx, c[i][1] + h*ny}
		right[i] = [2]float64{c[i][0] - h*nx, c[i][1] - h*ny}
	}
	out := append([][2]float64{}, left...)
	for i := n - 1; i >= 0; i-- {
		out = append(out, right[i])
	}
	return out
}

// shaped returns a simple closed polygon that is NOT star-shaped: a comb, a rectangular spiral, an
// x-monotone staircase band (pure or zig-zag) or a U.  Rows cross the boundary many times (many same-row
// re-entries of the trace).  The shape is built in its own units, rotated (one third axis-parallel),
// scaled to the drawn extent, optionally snapped to tile corners (only when every feature is >= 3 tiles
// wide), started at a random vertex in a random orientation.  The second result names the family.
func (g *c14Gen) shaped() (orb.Polygon, string) {
	var v [][2]float64
	feat := 1.0 // smallest feature width (same units as v)
	name := ""
	switch g.r.Intn(4) {
	case 0: // comb: k teeth of width a, gaps b, spine height h0, total height H
		name = "comb"
		k := 2 + g.r.Intn(7)
		a, b := 0.5+g.r.Float64(), 0.5+g.r.Float64()
		h0, H := 0.5+g.r.Float64(), 2+4*g.r.Float64()
		W := float64(k)*a + float64(k-1)*b
		v = append(v, [2]float64{0, 0}, [2]float64{W, 0})
		for i := k - 1; i >= 0; i-- {
			xl := float64(i) * (a + b)
			xr := xl + a
			v = append(v, [2]float64{xr, H}, [2]float64{xl, H})
			if i > 0 {
				v = append(v, [2]float64{xl, h0}, [2]float64{xl - b, h0})
			}
		}
		feat = math.Min(math.Min(a, b), h0)
	case 1: // rectangular spiral band
		name = "spiral"
		m := 4 + g.r.Intn(11)
		L := 1.0
		p := L / (float64(m)/2 + 1)
		w := p * (0.3 + 0.3*g.r.Float64())
		dirs := [4][2]float64{{1, 0}, {0, 1}, {-1, 0}, {0, -1}}
		c := [][2]float64{{0, 0}}
		for i := 0; i < m; i++ {
			l := L
			if i >= 3 {
				l = L - float64((i-1)/2)*p
			}
			if l < 1.5*p {
				break
			}
			d := dirs[i%4]
			q := c[len(c)-1]
			c = append(c, [2]float64{q[0] + d[0]*l, q[1] + d[1]*l})
		}
		v = c14Thick(c, w)
		feat = math.Min(w, p-w)
	case 2: // x-monotone staircase band: right, then up (pure) or up / down (zig-zag)
		name = "stair"
		k := 2 + g.r.Intn(7)
		w := 0.3 + 0.3*g.r.Float64()
		zig := g.r.Intn(2) == 0
		c := [][2]float64{{0, 0}}
		for i := 0; i < k; i++ {
			q := c[len(c)-1]
			q[0] += 1 + g.r.Float64()
			c = append(c, q)
			dy := 1 + g.r.Float64()
			if zig && g.r.Intn(2) == 0 {
				dy = -dy
			}
			q[1] += dy
			c = append(c, q)
		}
		v = c14Thick(c, w)
		feat = w
	default: // U
		name = "ushape"
		W, H1, H2 := 1+2*g.r.Float64(), 1+3*g.r.Float64(), 1+3*g.r.Float64()
		w := 0.15 + 0.45*g.r.Float64()
		v = c14Thick([][2]float64{{0, H1}, {0, 0}, {W, 0}, {W, H2}}, w)
		feat = math.Min(w, W-w)
	}
	// normalise: centre of the bounding box at the origin, half diagonal 1
	minx, maxx, miny, maxy := v[0][0], v[0][0], v[0][1], v[0][1]
	for _, q := range v {
		minx, maxx = math.Min(minx, q[0]), math.Max(maxx, q[0])
		miny, maxy = math.Min(miny, q[1]), math.Max(maxy, q[1])
	}
	mx, my := (minx+maxx)/2, (miny+maxy)/2
	hd := math.Hypot(maxx-minx, maxy-miny) / 2
	s := g.size()
	cx, cy := g.center(s)
	sc := s / hd
	rot := g.r.Float64() * 2 * math.Pi
	cr, sr := math.Cos(rot), math.Sin(rot)
	if g.r.Intn(3) == 0 { // exact quarter turns: the edges stay exactly along constant x / y
		q := [4][2]float64{{1, 0}, {0, 1}, {-1, 0}, {0, -1}}[g.r.Intn(4)]
		cr, sr = q[0], q[1]
	}
	snap := feat*sc >= 3 && g.r.Intn(4) == 0
	ring := make(orb.Ring, 0, len(v)+1)
	start := g.r.Intn(len(v))
	for i := range v {
		q := v[(start+i)%len(v)]
		x0, y0 := (q[0]-mx)*sc, (q[1]-my)*sc
		x, y := cx+x0*cr-y0*sr, cy+x0*sr+y0*cr
		if snap {
			x, y = math.Round(x), math.Round(y)
		}
		ring = append(ring, g.toLL(x, y))
	}
	ring = append(ring, ring[0])
	if g.r.Intn(2) == 0 {
		ring.Reverse()
	}
	return orb.Polygon{ring}, name
}

// triangle returns a polygon whose outer ring is a closed triangle (4 points) with the centre inside.
func (g *c14Gen) triangle() orb.Polygon {
	s := g.size()
	cx, cy := g.center(s)
	rot := g.r.Float64() * 2 * math.Pi
	ring := make(orb.Ring, 0, 4)
	for i := 0; i < 3; i++ {
		a := rot + 2*math.Pi/3*(float64(i)+0.5*(g.r.Float64()-0.5))
		rad := s * (0.4 + 0.6*g.r.Float64())
		ring = append(ring, g.toLL(cx+rad*math.Cos(a), cy+rad*math.Sin(a)))
	}
	ring = append(ring, ring[0])
	if g.r.Intn(2) == 0 {
		ring.Reverse()
	}
	return orb.Polygon{ring}
}

// worldLine returns a line string with vertices anywhere in the tile square: single segments span up to
// 2*2^z - 2 tile steps (more than 2^z for one segment in six).
func (g *c14Gen) worldLine() orb.LineString {
	k := 2 + g.r.Intn(4)
	ls := make(orb.LineString, 0, k)
	for i := 0; i < k; i++ {
		x, y := g.n*(0.005+0.99*g.r.Float64()), g.n*(0.01+0.98*g.r.Float64())
		if g.r.Intn(3) == 0 { // towards opposite corners: the longest diagonals
			x, y = g.n*(0.005+0.1*g.r.Float64()), g.n*(0.01+0.1*g.r.Float64())
			if i%2 == 1 {
				x, y = g.n-x, g.n-y
			}
			if g.r.Intn(2) == 0 {
				y = g.n - y
			}
		}
		ls = append(ls, g.toLL(x, y))
	}
	if ls[0] == ls[1] {
		ls[1] = g.toLL(g.n*0.7, g.n*0.3)
	}
	return ls
}

// rect returns an axis-parallel closed ring (edges along constant lon / lat: dx = 0 or dy = 0 exactly).
func (g *c14Gen) rect() orb.Ring {
	s := g.size()
	cx, cy := g.center(s)
	w, h := s*(0.1+0.9*g.r.Float64()), s*(0.1+0.9*g.r.Float64())
	if g.r.Intn(3) == 0 { // corners on tile corners in x
		cx, w = math.Round(cx), math.Max(1, math.Round(w))
	}
	a := g.toLL(cx-w, cy-h)
	b := g.toLL(cx+w, cy+h)
	return orb.Ring{{a[0], a[1]}, {b[0], a[1]}, {b[0], b[1]}, {a[0], b[1]}, {a[0], a[1]}}
}

func (g *c14Gen) lineString() orb.LineString {
	k := 2 + g.r.Intn(7)
	s := g.size()
	cx, cy := g.center(s)
	ls := make(orb.LineString, 0, k)
	x, y := cx+(g.r.Float64()*2-1)*s, cy+(g.r.Float64()*2-1)*s
	ls = append(ls, g.toLL(x, y))
	for i := 1; i < k; i++ {
		switch g.r.Intn(8) {
		case 0: // repeated vertex (zero-length segment)
			ls = append(ls, ls[len(ls)-1])
			continue
		case 1: // same lon: dx == 0
			y = cy + (g.r.Float64()*2-1)*s
			p := g.toLL(x, y)
			p[0] = ls[len(ls)-1][0]
			ls = append(ls, p)
			continue
		case 2: // same lat: dy == 0
			x = cx + (g.r.Float64()*2-1)*s
			p := g.toLL(x, y)
			p[1] = ls[len(ls)-1][1]
			ls = append(ls, p)
			continue
		case 3: // to a tile corner / along a column boundary
			x, y = math.Round(cx+(g.r.Float64()*2-1)*s), math.Round(cy+(g.r.Float64()*2-1)*s)
		case 4: // short hop
			x += (g.r.Float64()*2 - 1) * 0.4
			y += (g.r.Float64()*2 - 1) * 0.4
		case 5: // a segment aimed through a tile corner (passes within rounding of it)
			kx, ky := math.Round(cx+(g.r.Float64()*2-1)*s), math.Round(cy+(g.r.Float64()*2-1)*s)
			if g.r.Intn(3) == 0 && math.Abs(cy-g.n/2) <= s {
				ky = g.n / 2
			}
			a := g.r.Float64() * 2 * math.Pi
			t1, t2 := 0.2+g.r.Float64()*s, 0.2+g.r.Float64()*s
			ls[len(ls)-1] = g.toLL(kx-t1*math.Cos(a), ky-t1*math.Sin(a))
			x, y = kx+t2*math.Cos(a), ky+t2*math.Sin(a)
		default:
			x, y = cx+(g.r.Float64()*2-1)*s, cy+(g.r.Float64()*2-1)*s
		}
		if x < 0.01 {
			x = 0.01
		}
		if x > g.n-0.01 {
			x = g.n - 0.01
		}
		ls = append(ls, g.toLL(x, y))
	}
	// positive length: make sure two vertices differ
	if ls[0] == ls[len(ls)-1] && len(ls) == 2 {
		ls[1] = g.toLL(x+0.37, y+0.21)
	}
	return ls
}

func (g *c14Gen) point() orb.Point {
	x, y := g.r.Float64()*g.n, g.n*(0.01+0.98*g.r.Float64())
	switch g.r.Intn(6) {
	case 0:
		x = math.Floor(x)
	case 1:
		y = g.n / 2
	case 2:
		x = g.n - 1e-9*g.n
	}
	return g.toLL(x, y)
}

func (g *c14Gen) bound() orb.Bound {
	s := g.size()
	if s > 120 {
		s = 120 * g.r.Float64()
	}
	cx, cy := g.center(s)
	a := g.toLL(cx-s*g.r.Float64(), cy+s*g.r.Float64()) // min: west, south (larger y)
	b := g.toLL(cx+s*g.r.Float64(), cy-s*g.r.Float64())
	switch g.r.Intn(10) {
	case 0: // single point
		b = a
	case 1: // zero width
		b[0] = a[0]
	case 2: // inverted in lon: empty
		a[0], b[0] = b[0], a[0]
		if a[0] == b[0] {
			a[0] += 1e-6
		}
	case 3: // inverted in lat: empty
		a[1], b[1] = b[1], a[1]
		if a[1] == b[1] {
			a[1] += 1e-6
		}
	case 4: // both
		a, b = b, a
	}
	return orb.Bound{Min: a, Max: b}
}

// degenerate rings: the class of the (repaired) empty-trace defect, and open rings
func (g *c14Gen) oddRing() orb.Ring {
	p := g.point()
	switch g.r.Intn(7) {
	case 0:
		return orb.Ring{}
	case 1:
		return orb.Ring{p}
	case 2:
		return orb.Ring{p, p, p, p}
	case 3:
		return orb.Ring{p, p}
	case 4: // two distinct vertices
		q := g.lineString()
		return orb.Ring{q[0], q[1]}
	case 5: // there and back
		q := g.lineString()
		return orb.Ring{q[0], q[1], q[0]}
	default: // open ring
		r, _ := g.star(g.n/2, g.n/2, math.Min(g.size(), g.n*0.3), g.r.Intn(2))
		return r[:len(r)-1]
	}
}

func (g *c14Gen) geom(depth int) orb.Geometry {
	k := g.r.Intn(20)
	switch {
	case k < 2:
		return g.point()
	case k < 3:
		n := size(g.r, 5)
		mp := make(orb.MultiPoint, n)
		for i := range mp {
			mp[i] = g.point()
		}
		return mp
	case k < 7:
		if g.z >= 2 && g.z <= 9 && g.r.Intn(5) == 0 {
			return g.worldLine()
		}
		return g.lineString()
	case k < 8:
		n := size(g.r, 3)
		m := make(orb.MultiLineString, n)
		for i := range m {
			m[i] = g.lineString()
		}
		return m
	case k < 9:
		switch g.r.Intn(3) {
		case 0:
			return g.rect()
		case 1:
			return g.oddRing()
		default:
			return g.polygon()[0]
		}
	case k < 14:
		p := g.polygon()
		if g.r.Intn(4) == 0 {
			p, _ = g.shaped()
		}
		if g.r.Intn(12) == 0 {
			p = append(p, g.oddRing())
		}
		if g.r.Intn(40) == 0 {
			p = orb.Polygon{g.oddRing()}
		}
		if g.r.Intn(60) == 0 {
			p = orb.Polygon{}
		}
		return p
	case k < 15:
		n := size(g.r, 3)
		m := make(orb.MultiPolygon, n)
		for i := range m {
			switch g.r.Intn(8) {
			case 0: // a closed triangle: the smallest ring that is a polygon (4 points)
				m[i] = g.triangle()
			case 1:
				m[i], _ = g.shaped()
			default:
				m[i] = g.polygon()
			}
		}
		// a member that MultiPolygon may reject (`return nil, err`): an odd / open ring alone or as an
		// extra ring, at a random position; an empty member
		if n > 0 && g.r.Intn(4) == 0 {
			i := g.r.Intn(n)
			switch g.r.Intn(5) {
			case 0:
				m[i] = append(m[i], g.oddRing())
			case 1:
				m[i] = orb.Polygon{}
			case 2:
				m[i] = orb.Polygon{g.oddRing()}
			default: // an open ring (a closed star without its last vertex): ErrUnevenIntersections for about half
				r, _ := g.star(g.n/2, g.n/2, math.Min(g.size(), g.n*0.3), g.r.Intn(2))
				m[i] = orb.Polygon{r[:len(r)-1]}
			}
		}
		return m
	case k < 17:
		return g.bound()
	default:
		if depth >= 2 {
			return g.lineString()
		}
		n := size(g.r, 4)
		c := make(orb.Collection, n)
		for i := range c {
			// a nil-INTERFACE member (orb.Collection{nil, ls}): tilecover.Geometry(nil) is (nil, nil), so it
			// contributes the empty cover; one member in eight, at every nesting depth
			if g.r.Intn(8) == 0 {
				continue
			}
			c[i] = g.geom(depth + 1)
		}
		return c
	}
}

// c14Extent is the larger side (in tiles) of the tile-space bound of the vertices of g.
func c14Extent(g orb.Geometry, z maptile.Zoom) float64 {
	m := 0.0
	switch g := g.(type) {
	case orb.Collection:
		for _, x := range g {
			m = math.Max(m, c14Extent(x, z))
		}
		return m
	case orb.MultiPolygon:
		for _, x := range g {
			m = math.Max(m, c14Extent(x, z))
		}
		return m
	case orb.MultiLineString:
		for _, x := range g {
			m = math.Max(m, c14Extent(x, z))
		}
		return m
	case orb.MultiPoint:
		return 0
	}
	ps := c14Pts(g, nil)
	if len(ps) == 0 {
		return 0
	}
	f0 := maptile.Fraction(ps[0], z)
	minx, maxx, miny, maxy := f0[0], f0[0], f0[1], f0[1]
	for _, p := range ps {
		f := maptile.Fraction(p, z)
		minx, maxx = math.Min(minx, f[0]), math.Max(maxx, f[0])
		miny, maxy = math.Min(miny, f[1]), math.Max(maxy, f[1])
	}
	return math.Max(maxx-minx, maxy-miny)
}

func newC14Gen(r *rand.Rand) *c14Gen {
	z := r.Intn(23)
	return &c14Gen{r: r, z: z, n: float64(uint64(1) << uint(z))}
}

func c14MergeCase(c *Ctx, op string, min int, count int, tiles []maptile.Tile, vals []bool) {
	var sb strings.Builder
	fmt.Fprintf(&sb, "%d ", min)
	if op == "mergep" {
		fmt.Fprintf(&sb, "%d ", count)
	}
	fmt.Fprintf(&sb, "4 %d", len(tiles))
	for i, t := range tiles {
		v := 1
		if vals != nil && !vals[i] {
			v = 0
		}
		fmt.Fprintf(&sb, " %d %d %d %d", t.X, t.Y, uint32(t.Z), v)
	}
	c.Case(op, sb.String())
}

// block returns all descendants of t that are d levels down.
func c14Block(t maptile.Tile, d uint) []maptile.Tile {
	w := uint32(1) << d
	out := make([]maptile.Tile, 0, w*w)
	for i := uint32(0); i < w; i++ {
		for j := uint32(0); j < w; j++ {
			out = append(out, maptile.Tile{X: t.X<<d + i, Y: t.Y<<d + j, Z: t.Z + maptile.Zoom(d)})
		}
	}
	return out
}

func c14Shuffle(r *rand.Rand, l []maptile.Tile) {
	r.Shuffle(len(l), func(i, j int) { l[i], l[j] = l[j], l[i] })
}

func c14Dedup(l []maptile.Tile) []maptile.Tile {
	seen := map[maptile.Tile]bool{}
	out := l[:0]
	for _, t := range l {
		if !seen[t] {
			seen[t] = true
			out = append(out, t)
		}
	}
	return out
}

func genC14Merge(c *Ctx, n int) {
	rng := c.Rng
	for k := 0; k < n && !c.Exhausted(); k++ {
		var tiles []maptile.Tile
		var vals []bool
		zoom := 0
		forceMin := -1
		switch rng.Intn(9) {
		case 0, 1: // a cover of a generated shape at a modest zoom
			g := newC14Gen(rng)
			for g.z > 14 {
				g = newC14Gen(rng)
			}
			var geo orb.Geometry
			switch rng.Intn(3) {
			case 0:
				geo = g.polygon()
			case 1:
				geo = g.bound()
			default:
				geo = g.lineString()
			}
			zoom = g.z
			set, err := tilecover.Geometry(geo, maptile.Zoom(g.z))
			if err != nil || len(set) > 2500 {
				continue
			}
			for t := range set {
				tiles = append(tiles, t)
			}
			sort.Slice(tiles, func(i, j int) bool {
				if tiles[i].X != tiles[j].X {
					return tiles[i].X < tiles[j].X
				}
				return tiles[i].Y < tiles[j].Y
			})
		case 2, 3, 4: // unions of complete blocks with a few tiles knocked out / added
			zoom = 1 + rng.Intn(10)
			nb := 1 + rng.Intn(4)
			for b := 0; b < nb; b++ {
				d := rng.Intn(c14Min(zoom, 5) + 1)
				bz := zoom - d
				w := uint32(1) << uint(bz)
				root := maptile.Tile{X: uint32(rng.Int63()) % w, Y: uint32(rng.Int63()) % w, Z: maptile.Zoom(bz)}
				if b > 0 && rng.Intn(2) == 0 && len(tiles) > 0 { // neighbouring block: siblings may complete a quad
					p := tiles[rng.Intn(len(tiles))]
					root = maptile.Tile{X: (p.X >> uint(d)) ^ 1, Y: p.Y >> uint(d), Z: maptile.Zoom(bz)}
				}
				tiles = append(tiles, c14Block(root, uint(d))...)
			}
			tiles = c14Dedup(tiles)
			c14Shuffle(rng, tiles)
			drop := 0
			switch rng.Intn(3) {
			case 0:
				drop = rng.Intn(3)
			case 1:
				drop = rng.Intn(len(tiles)/4 + 1)
			}
			tiles = tiles[:len(tiles)-c14Min(drop, len(tiles))]
		case 5: // random subset of a small level
			zoom = 1 + rng.Intn(4)
			w := uint32(1) << uint(zoom)
			p := rng.Float64()
			for x := uint32(0); x < w; x++ {
				for y := uint32(0); y < w; y++ {
					if rng.Float64() < p {
						tiles = append(tiles, maptile.Tile{X: x, Y: y, Z: maptile.Zoom(zoom)})
					}
				}
			}
			c14Shuffle(rng, tiles)
		case 6: // a whole level / single tile / empty
			zoom = rng.Intn(6)
			switch rng.Intn(3) {
			case 0:
				tiles = c14Block(maptile.Tile{}, uint(zoom))
			case 1:
				w := uint32(1) << uint(zoom)
				tiles = []maptile.Tile{{X: uint32(rng.Int63()) % w, Y: uint32(rng.Int63()) % w, Z: maptile.Zoom(zoom)}}
			}
		case 8: // one aligned block of depth d >= 2 (+ a few lone tiles): the merge passes through a level with
			// exactly four parents that are siblings, and goes on for >= 2 levels
			zoom = 2 + rng.Intn(11)
			d := 2 + rng.Intn(c14Min(zoom, 4)-1)
			bz := zoom - d
			w := uint32(1) << uint(bz)
			root := maptile.Tile{X: uint32(rng.Int63()) % w, Y: uint32(rng.Int63()) % w, Z: maptile.Zoom(bz)}
			tiles = c14Block(root, uint(d))
			wz := uint32(1) << uint(zoom)
			for e := rng.Intn(3); e > 0; e-- {
				tiles = append(tiles, maptile.Tile{X: uint32(rng.Int63()) % wz, Y: uint32(rng.Int63()) % wz, Z: maptile.Zoom(zoom)})
			}
			tiles = c14Dedup(tiles)
			c14Shuffle(rng, tiles)
			forceMin = rng.Intn(zoom - 1) // 0 .. zoom-2: at least two levels
		default: // deep zoom, sparse
			zoom = 10 + rng.Intn(13)
			w := uint32(1) << uint(zoom)
			base := maptile.Tile{X: uint32(rng.Int63()) % w, Y: uint32(rng.Int63()) % w, Z: maptile.Zoom(zoom)}
			d := uint(1 + rng.Intn(4))
			root := maptile.Tile{X: base.X >> d, Y: base.Y >> d, Z: base.Z - maptile.Zoom(d)}
			tiles = c14Block(root, d)
			c14Shuffle(rng, tiles)
			tiles = tiles[:len(tiles)-rng.Intn(3)]
		}
		if rng.Intn(6) == 0 && len(tiles) > 0 { // some entries present with value false
			vals = make([]bool, len(tiles))
			for i := range vals {
				vals[i] = rng.Intn(5) != 0
			}
		}
		min := 0
		switch rng.Intn(5) {
		case 0:
			min = zoom
		case 1:
			min = 0
		case 2:
			min = c14Max(0, zoom-1)
		default:
			min = rng.Intn(zoom + 1)
		}
		if forceMin >= 0 {
			min = forceMin
		}
		op, count := "merge", 0
		if rng.Intn(5) == 0 {
			op, count = "mergep", rng.Intn(7)-1
		}
		if rng.Intn(40) == 0 { // target deeper than the cover: outside the quantifier, correspondence only
			min = zoom + 1 + rng.Intn(3)
		}
		c14MergeCase(c, op, min, count, tiles, vals)
	}
}

func c14Min(a, b int) int {
	if a < b {
		return a
	}
	return b
}
func c14Max(a, b int) int {
	if a > b {
		return a
	}
	return b
}

func genC14(c *Ctx) {
	rng := c.Rng
	// exhaustive: every subset of the 2x2 level (zoom 1) and of one quad plus one neighbour at zoom 2,
	// every target; thorough: every subset of the 4x4 level
	i := 0
	for mask := 0; mask < 16; mask++ {
		for min := 0; min <= 1; min++ {
			i++
			if !c.Mine(i) {
				continue
			}
			var tiles []maptile.Tile
			for b := 0; b < 4; b++ {
				if mask>>uint(b)&1 == 1 {
					tiles = append(tiles, maptile.Tile{X: uint32(b & 1), Y: uint32(b >> 1), Z: 1})
				}
			}
			c14MergeCase(c, "merge", min, 0, tiles, nil)
		}
	}
	nmask := 1 << 12
	if c.Tier == "thorough" {
		nmask = 1 << 16
	}
	for mask := 0; mask < nmask; mask++ {
		i++
		if !c.Mine(i) {
			continue
		}
		m := mask
		if c.Tier != "thorough" { // quick: the subsets that contain the quad (0,0)-(1,1) or miss one tile of it are the interesting ones
			m = mask<<4 | 0xf ^ (1 << uint(mask%5) & 0xf)
		}
		var tiles []maptile.Tile
		// bit order: quad-major, so that low bits are sibling quads
		for b := 0; b < 16; b++ {
			if m>>uint(b)&1 == 1 {
				q, s := b>>2, b&3
				tiles = append(tiles, maptile.Tile{X: uint32((q&1)*2 + s&1), Y: uint32((q>>1)*2 + s>>1), Z: 2})
			}
		}
		c14MergeCase(c, "merge", mask%3, 0, tiles, nil)
	}

	// fixed family per zoom: the last-column clamp of maptile.At (lon = 180) and the polar clamp of
	// maptile.Fraction (|lat| > 85.0511) through tilecover.Point / MultiPoint / Bound
	for z := 0; z <= 22; z++ {
		pts := []orb.Point{{180, 0}, {180, 45.5}, {180, -85.0511}, {-180, 0}, {math.Nextafter(180, 0), 10},
			{0, 90}, {0, -90}, {12.5, 85.06}, {-12.5, -85.06}, {180, 90}, {180, -90}, {-180, 90}, {-180, -90},
			// latitudes beyond the poles (a clamp decided on sin(lat) folds back there) and the infinities: the
			// shipped fraction is compared with C13's model of Fraction, the row with the clamp row
			{12.5, math.Nextafter(90, 100)}, {12.5, 100}, {-12.5, -100}, {0, 180}, {0, -180}, {33, 269}, {33, -271}, {-33, 1e6},
			{5, math.Inf(1)}, {5, math.Inf(-1)}}
		var gl []orb.Geometry
		for _, p := range pts {
			gl = append(gl, p)
		}
		gl = append(gl, orb.MultiPoint(pts))
		n := float64(uint64(1) << uint(z))
		wl := 360.0 / n // one tile in degrees of longitude
		gl = append(gl,
			orb.Bound{Min: orb.Point{math.Max(-180, 180-1.5*wl), -1}, Max: orb.Point{180, 1}},     // ends in the last column
			orb.Bound{Min: orb.Point{180, -1}, Max: orb.Point{180, 1}},                            // only lon = 180
			orb.Bound{Min: orb.Point{10, 85.2}, Max: orb.Point{10 + 1.5*wl, 89}},                  // above the clamp
			orb.Bound{Min: orb.Point{10, -89}, Max: orb.Point{10 + 1.5*wl, -85.2}},                // below the clamp
			orb.Bound{Min: orb.Point{math.Max(-180, 180-0.5*wl), 84}, Max: orb.Point{180, 90}},    // corner of the world
			orb.Bound{Min: orb.Point{-180, -90}, Max: orb.Point{math.Min(180, -180+0.5*wl), -84}}) // opposite corner
		if z <= 4 {
			gl = append(gl, orb.Bound{Min: orb.Point{-180, -90}, Max: orb.Point{180, 90}}) // the whole world
		}
		for _, geo := range gl {
			i++
			if !c.Mine(i) {
				continue
			}
			c.Case("cover", fmt.Sprintf("%d %s", z, gs(geo)))
		}
	}

	// fixed family per zoom: longitudes exactly on, one ulp west and one ulp east of column edges (the edge
	// longitudes computed as Tile.Bound() / mercator.ToGeo do: 360*(x/2^z - 0.5)) and tiny negative
	// longitudes, through tilecover.Point / MultiPoint / Bound.  lon/360 + 0.5 rounds a longitude just west
	// of an edge onto the edge: maptile.At's step-back (fix 190fad1) must return the column whose Bound
	// contains the point.
	for z := 0; z <= 22; z++ {
		n := uint64(1) << uint(z)
		cols := []uint64{1, 2, 3, n/2 - 1, n / 2, n/2 + 1, n - 2, n - 1}
		for k := uint64(1); k <= 4; k++ {
			cols = append(cols, (k*2654435761+uint64(z)*40503)%n)
		}
		var edges []uint64
		seen := map[uint64]bool{}
		for _, x := range cols {
			if x >= 1 && x < n && !seen[x] {
				seen[x] = true
				edges = append(edges, x)
			}
		}
		edgeLon := func(x uint64) float64 { return 360.0 * (float64(x)/float64(n) - 0.5) }
		around := func(e float64) []float64 {
			return []float64{math.Nextafter(e, math.Inf(-1)), e, math.Nextafter(e, math.Inf(1))}
		}
		var gl []orb.Geometry
		lats := []float64{0, 45.5, -60.25}
		for j, x := range edges {
			e := edgeLon(x)
			var mp orb.MultiPoint
			for _, lon := range around(e) {
				for _, lat := range lats[:2] {
					gl = append(gl, orb.Point{lon, lat})
				}
				mp = append(mp, orb.Point{lon, lats[j%3]})
			}
			gl = append(gl, mp)
			// bounds whose corners sit on / next to edges: this edge to itself and to the next one
			x2 := edges[(j+1)%len(edges)]
			for _, xb := range []uint64{x, x2} {
				lo, hi := x, xb
				if lo > hi {
					lo, hi = hi, lo
				}
				if hi-lo > 64 {
					continue // keep the rectangle small
				}
				for _, a := range around(edgeLon(lo)) {
					for _, b := range around(edgeLon(hi)) {
						if a > b {
							continue
						}
						gl = append(gl, orb.Bound{Min: orb.Point{a, -1 + float64(j)}, Max: orb.Point{b, -1 + float64(j)}})
					}
				}
			}
		}
		// tiny longitudes around 0 (the edge of column 2^(z-1)): every lon in about (-2e-14, 0) rounds onto it
		tiny := []float64{-5e-324, -1e-15, -1e-300, -1.5e-14, math.Copysign(0, -1), 0, 5e-324, 1e-15}
		var tmp orb.MultiPoint
		for _, lon := range tiny {
			gl = append(gl, orb.Point{lon, 0}, orb.Point{lon, 33.25})
			tmp = append(tmp, orb.Point{lon, -12.5})
		}
		gl = append(gl, tmp,
			orb.Bound{Min: orb.Point{-1e-15, -1}, Max: orb.Point{-5e-324, 1}},
			orb.Bound{Min: orb.Point{-5e-324, -1}, Max: orb.Point{-5e-324, -1}},
			orb.Bound{Min: orb.Point{-5e-324, 0}, Max: orb.Point{5e-324, 0}},
			orb.Bound{Min: orb.Point{-1e-15, 10}, Max: orb.Point{0, 10}},
			orb.Bound{Min: orb.Point{-1e-15, -10}, Max: orb.Point{1e-15, -10}})
		for _, geo := range gl {
			i++
			if !c.Mine(i) {
				continue
			}
			c.Case("cover", fmt.Sprintf("%d %s", z, gs(geo)))
		}
	}

	// fixed family: collections with nil-INTERFACE members — alone, first / middle / last among members of
	// every kind, repeated, nested one and two levels down, next to typed-nil members — at a few zooms
	for _, z := range []int{0, 3, 9, 22} {
		n := float64(uint64(1) << uint(z))
		w := 360.0 / n
		ls := orb.LineString{{10, 10}, {10 + 1.7*w, 10 + 0.4*w}, {10 + 2.2*w, 10 - 0.9*w}}
		ring := orb.Ring{{-20, -5}, {-20 + 2.5*w, -5}, {-20 + 2.5*w, -5 + 1.5*w}, {-20, -5 + 1.5*w}, {-20, -5}}
		pg := orb.Polygon{ring}
		pt := orb.Point{33.3, -44.4}
		bd := orb.Bound{Min: orb.Point{50, 20}, Max: orb.Point{50 + 1.2*w, 20 + 0.7*w}}
		mpt := orb.MultiPoint{pt, {-100, 60}}
		for _, col := range []orb.Collection{
			{nil}, {nil, nil}, {nil, ls}, {ls, nil}, {nil, pg}, {pg, nil, ls}, {nil, pt}, {pt, nil}, {nil, bd}, {mpt, nil, ring},
			{orb.Collection{nil}}, {ls, orb.Collection{nil}}, {orb.Collection{nil, ls}, nil, orb.Collection{pg, orb.Collection{nil, pt, nil}}},
			{orb.LineString(nil), nil, orb.Collection(nil), ls}, {nil, orb.MultiLineString{ls}, nil, orb.MultiPolygon{pg}, nil},
		} {
			i++
			if !c.Mine(i) {
				continue
			}
			c.Case("coll", fmt.Sprintf("%d %s", z, gs(col)))
		}
	}

	nm := c.Budget / 3
	genC14Merge(c, nm)
	genC14Long(c)

	for k := 0; k < c.Budget && !c.Exhausted(); k++ {
		g := newC14Gen(rng)
		geo := g.geom(0)
		if c14Extent(geo, maptile.Zoom(g.z)) > 900 { // keep covers below ~10^5 tiles
			continue
		}
		if col, ok := geo.(orb.Collection); ok {
			c.Case("coll", fmt.Sprintf("%d %s", g.z, gs(col)))
		} else {
			c.Case("cover", fmt.Sprintf("%d %s", g.z, gs(geo)))
		}
		if k%50 == 0 {
			// nil interface / typed nil slices at top level
			nils := []orb.Geometry{nil, orb.MultiPoint(nil), orb.LineString(nil), orb.MultiLineString(nil), orb.Ring(nil),
				orb.Polygon(nil), orb.MultiPolygon(nil), orb.Collection(nil)}
			c.Case("cover", fmt.Sprintf("%d %s", g.z, gs(nils[rng.Intn(len(nils))])))
		}
	}
}

// genC14Long: sparse family of LONG segments — 10^4 .. 2*2^z tile steps per segment, far beyond the
// 900-tile extent of the modelled covers — at zoom 12..21 (op `long`: the cover is questioned, not
// shipped).  Up to zoom 17 the segments run anywhere in the square (diagonals: up to 2*2^z steps,
// 262 000 tiles); above, they are long in x only (at most a few hundred rows), up to the whole width
// at zoom 21 (2.1 million tiles), so that a cover stays below ~2.2 million map entries.
func genC14Long(c *Ctx) {
	r := c.Rng
	cnt := 5
	if c.Tier == "thorough" {
		cnt = 24
	}
	for k := 0; k < cnt && !c.Exhausted(); k++ {
		z := 12 + (c.Shard+3*k)%10 // 12..21, every zoom within a few shards
		if k == 0 {
			z = 21 // every shard: one segment of more than 2^20 steps (2^21 columns)
		}
		g := &c14Gen{r: r, z: z, n: float64(uint64(1) << uint(z))}
		nv := 2
		if r.Intn(3) == 0 {
			nv = 3
		}
		ls := make(orb.LineString, 0, nv)
		x := g.n * (0.003 + 0.1*r.Float64())
		y := g.n * (0.05 + 0.9*r.Float64())
		if r.Intn(2) == 0 {
			x = g.n - x
		}
		for i := 0; i < nv; i++ {
			ls = append(ls, g.toLL(x, y))
			// the next vertex: across the square in x
			frac := []float64{0.3, 0.55, 0.8, 0.99}[r.Intn(4)]
			if k == 0 && i == 0 {
				frac = 0.8 + 0.19*r.Float64()
			}
			if z >= 18 && i >= 1 {
				frac = 0.01 // one very long segment per high-zoom line is enough
			}
			if x < g.n/2 {
				x += frac * (g.n - x - 0.002*g.n)
			} else {
				x -= frac * (x - 0.002*g.n)
			}
			if z <= 17 {
				y = g.n * (0.02 + 0.96*r.Float64())
			} else {
				y += (r.Float64()*2 - 1) * 300
				if y < 0.02*g.n {
					y = 0.02 * g.n
				}
				if y > 0.98*g.n {
					y = 0.98 * g.n
				}
			}
		}
		c.Case("long", fmt.Sprintf("%d %s", z, gs(ls)))
	}
}
