package main

import (
	"math/rand"
	"strconv"
	"strings"

	"github.com/paulmach/orb"
	"github.com/paulmach/orb/planar"
)

func init() { register(&Prop{ID: "C09", Run: runC09, Gen: genC09}) }

// ans maps one call to '1' / '0' / 'p' (panic).
func ans(f func() bool) (c byte) {
	defer func() {
		if recover() != nil {
			c = 'p'
		}
	}()
	if f() {
		return '1'
	}
	return '0'
}

// ringVariants mirrors Driver.C09.variants: every rotation and the reversal, each unclosed and closed.
func ringVariants(r orb.Ring) []orb.Ring {
	n := len(r)
	var bases []orb.Ring
	if n == 0 {
		bases = append(bases, orb.Ring{})
	}
	for k := 0; k < n; k++ {
		b := make(orb.Ring, 0, n)
		b = append(b, r[k:]...)
		b = append(b, r[:k]...)
		bases = append(bases, b)
	}
	rev := make(orb.Ring, n)
	for i := range r {
		rev[n-1-i] = r[i]
	}
	bases = append(bases, rev)
	var out []orb.Ring
	for _, b := range bases {
		out = append(out, b)
		c := make(orb.Ring, len(b), len(b)+1)
		copy(c, b)
		if len(b) > 0 {
			c = append(c, b[0])
		}
		out = append(out, c)
	}
	return out
}

func ringAnswers(r orb.Ring, qs []orb.Point) string {
	vs := ringVariants(r)
	toks := make([]string, len(vs))
	for i, v := range vs {
		b := make([]byte, len(qs))
		for j, q := range qs {
			v, q := v, q
			b[j] = ans(func() bool { return planar.RingContains(v, q) })
		}
		toks[i] = string(b)
	}
	return strings.Join(toks, " ")
}

// gridBox is the explicitly closed axis-parallel square [b0,b1]^2.
func gridBox(b0, b1 float64) orb.Ring {
	return orb.Ring{{b0, b0}, {b1, b0}, {b1, b1}, {b0, b1}, {b0, b0}}
}

// gridPolyForms mirrors Driver.C09.gridPolyForms: the ring v as a polygon's only (outer) ring, as the hole of a
// box, as the second hole after an empty one, and the same inside multi-polygons.  One answer token per form
// and variant (variant-major).
const nGridPolyForms = 6

func gridPolyAnswers(r, box orb.Ring, qs []orb.Point) string {
	vs := ringVariants(r)
	toks := make([]string, 0, nGridPolyForms*len(vs))
	for _, v := range vs {
		v := v
		forms := [nGridPolyForms]func(q orb.Point) bool{
			func(q orb.Point) bool { return planar.PolygonContains(orb.Polygon{v}, q) },
			func(q orb.Point) bool { return planar.PolygonContains(orb.Polygon{box, v}, q) },
			func(q orb.Point) bool { return planar.PolygonContains(orb.Polygon{box, orb.Ring{}, v}, q) },
			func(q orb.Point) bool { return planar.MultiPolygonContains(orb.MultiPolygon{{v}}, q) },
			func(q orb.Point) bool { return planar.MultiPolygonContains(orb.MultiPolygon{{box, v}}, q) },
			func(q orb.Point) bool { return planar.MultiPolygonContains(orb.MultiPolygon{{box, v}, {v}}, q) },
		}
		for _, f := range forms {
			f := f
			b := make([]byte, len(qs))
			for j, q := range qs {
				q := q
				b[j] = ans(func() bool { return f(q) })
			}
			toks = append(toks, string(b))
		}
	}
	return strings.Join(toks, " ")
}

func lattice(lo, hi int) []orb.Point {
	var qs []orb.Point
	for i := lo; i <= hi; i++ {
		for j := lo; j <= hi; j++ {
			qs = append(qs, orb.Point{float64(i) / 2, float64(j) / 2})
		}
	}
	return qs
}

func runC09(op string, in []string) string {
	return guard(func() string {
		r := &tokReader{t: in}
		switch op {
		case "ring":
			rg := orb.Ring(r.pts())
			qs := r.pts()
			return ringAnswers(rg, qs)
		case "grid":
			lo, hi := r.int(), r.int()
			rg := orb.Ring(r.pts())
			return ringAnswers(rg, lattice(lo, hi))
		case "gridp":
			lo, hi := r.int(), r.int()
			b0, b1 := float64(r.int()), float64(r.int())
			rg := orb.Ring(r.pts())
			return gridPolyAnswers(rg, gridBox(b0, b1), lattice(lo, hi))
		case "poly":
			pg := r.geom().(orb.Polygon)
			qs := r.pts()
			b := make([]byte, len(qs))
			for j, q := range qs {
				q := q
				b[j] = ans(func() bool { return planar.PolygonContains(pg, q) })
			}
			return string(b)
		case "mpoly":
			mp := r.geom().(orb.MultiPolygon)
			qs := r.pts()
			b := make([]byte, len(qs))
			for j, q := range qs {
				q := q
				b[j] = ans(func() bool { return planar.MultiPolygonContains(mp, q) })
			}
			return string(b)
		}
		return "badop"
	})
}

// c09Scale is a coordinate pool: multiples of 1/den in [off, off+span].  Half of the pools reach below zero
// (straddling it, touching it from below, or wholly negative), so that math.Nextafter on a negative or zero
// abscissa is judged by the exact spec too; every pool stays within |v| <= 2^16, multiples of 2^-8 after the
// halving / quartering done by the query generator (the driver's `scaled?` domain).
type c09Scale struct {
	span int
	den  int
	off  int
}

var c09Scales = []c09Scale{
	{4, 1, 0}, {4, 1, 0}, {3, 2, 0}, {6, 1, 0}, {5, 2, 0}, {8, 4, 0}, {16, 1, 0}, {1000, 1, 0}, {65000, 1, 0}, {200, 64, 0},
	{4, 1, -2}, {4, 1, -4}, {3, 2, -5}, {6, 1, -3}, {5, 2, -5}, {8, 4, -3}, {16, 1, -16}, {1000, 1, -500}, {65000, 1, -32500}, {200, 64, -137},
}

func (s c09Scale) lo() float64 { return float64(s.off) }
func (s c09Scale) hi() float64 { return float64(s.off + s.span) }
func (s c09Scale) coord(r *rand.Rand) float64 {
	return float64(s.off) + float64(r.Intn(s.span*s.den+1))/float64(s.den)
}
func (s c09Scale) pt(r *rand.Rand) orb.Point { return orb.Point{s.coord(r), s.coord(r)} }

// genRingC09 draws a ring of n vertices with repeated vertices and vertical, horizontal and collinear edges.
func genRingC09(r *rand.Rand, s c09Scale, n int) orb.Ring {
	rg := make(orb.Ring, 0, n+1)
	for i := 0; i < n; i++ {
		p := s.pt(r)
		if i > 0 {
			prev := rg[i-1]
			switch r.Intn(10) {
			case 0:
				p = prev // zero-length edge
			case 1:
				p = rg[r.Intn(i)] // revisit an earlier vertex
			case 2:
				p[0] = prev[0] // vertical edge
			case 3:
				p[1] = prev[1] // horizontal edge
			case 4:
				if i > 1 { // collinear continuation (or fold-back) of the previous edge
					d := orb.Point{prev[0] - rg[i-2][0], prev[1] - rg[i-2][1]}
					k := float64(r.Intn(4) - 1)
					q := orb.Point{prev[0] + k*d[0], prev[1] + k*d[1]}
					if q[0] >= s.lo() && q[1] >= s.lo() && q[0] <= s.hi() && q[1] <= s.hi() {
						p = q
					}
				}
			case 5:
				p[0] = rg[r.Intn(i)][0] // share an abscissa with an earlier vertex (ray through a vertex)
			}
		}
		rg = append(rg, p)
	}
	return rg
}

// genQueriesC09 draws query points aligned with the rings' features.
func genQueriesC09(r *rand.Rand, s c09Scale, rings []orb.Ring, m int) []orb.Point {
	var vs []orb.Point
	for _, rg := range rings {
		vs = append(vs, rg...)
	}
	qs := make([]orb.Point, 0, m)
	for len(qs) < m {
		q := orb.Point{s.lo() + float64(r.Intn(2*s.span*s.den+5)-2)/float64(2*s.den), s.lo() + float64(r.Intn(2*s.span*s.den+5)-2)/float64(2*s.den)}
		if len(vs) > 0 {
			a := vs[r.Intn(len(vs))]
			b := vs[r.Intn(len(vs))]
			rg := rings[r.Intn(len(rings))]
			if len(rg) > 0 {
				i := r.Intn(len(rg))
				a, b = rg[i], rg[(i+1)%len(rg)] // an edge (closing one included)
			}
			switch r.Intn(9) {
			case 0:
				q = a // a vertex
			case 1:
				q = orb.Point{(a[0] + b[0]) / 2, (a[1] + b[1]) / 2} // midpoint of an edge
			case 2:
				q[0] = a[0] // ray through a vertex
			case 3:
				q[1] = a[1] // level with a vertex
			case 4:
				q = orb.Point{2*b[0] - a[0], 2*b[1] - a[1]} // on the edge's line, beyond its end
			case 5:
				q = orb.Point{(a[0] + b[0]) / 2, q[1]} // above/below an edge's midpoint
			}
		}
		qs = append(qs, q)
	}
	return qs
}

// holeBoundaryPts: for every non-empty hole of the polygon, points EXACTLY on its boundary — a vertex, the midpoint
// of an edge and the point a quarter along an edge (the closing edge included); all exact in float64 on the pools.
// PolygonContains must answer false for them (the hole's closed region is removed), whatever the outer ring says.
func holeBoundaryPts(r *rand.Rand, pg orb.Polygon) []orb.Point {
	var qs []orb.Point
	for i := 1; i < len(pg); i++ {
		h := pg[i]
		if len(h) == 0 {
			continue
		}
		k := r.Intn(len(h))
		a, b := h[k], h[(k+1)%len(h)]
		switch r.Intn(3) {
		case 0:
			qs = append(qs, a)
		case 1:
			qs = append(qs, orb.Point{(a[0] + b[0]) / 2, (a[1] + b[1]) / 2})
		default:
			qs = append(qs, orb.Point{a[0] + (b[0]-a[0])/4, a[1] + (b[1]-a[1])/4})
		}
		if r.Intn(2) == 0 {
			qs = append(qs, h[r.Intn(len(h))])
		}
	}
	return qs
}

// outerBoundaryPts: points EXACTLY on the outer ring's boundary (a vertex, an edge's midpoint or quarter point, the
// closing edge included) — for an outer ring of one or two vertices, or one without area, these are the only
// points the polygon can contain.
func outerBoundaryPts(r *rand.Rand, pg orb.Polygon) []orb.Point {
	if len(pg) == 0 || len(pg[0]) == 0 {
		return nil
	}
	o := pg[0]
	m := 1
	if len(o) < 3 || r.Intn(3) == 0 {
		m = 3
	}
	var qs []orb.Point
	for j := 0; j < m; j++ {
		k := r.Intn(len(o))
		a, b := o[k], o[(k+1)%len(o)]
		switch (j + r.Intn(3)) % 3 {
		case 0:
			qs = append(qs, a)
		case 1:
			qs = append(qs, orb.Point{(a[0] + b[0]) / 2, (a[1] + b[1]) / 2})
		default:
			qs = append(qs, orb.Point{a[0] + (b[0]-a[0])/4, a[1] + (b[1]-a[1])/4})
		}
	}
	return qs
}

func c09Line(rg orb.Ring, qs []orb.Point) string { return spts(rg) + " " + spts(qs) }

func genC09(c *Ctx) {
	r := c.Rng
	idx := 0
	// exhaustive: every ring of 1..3 vertices on the 4x4 grid {off..off+3}^2 against the half-step lattice reaching
	// half a step beyond the grid; all rotations, the reversal, closed and unclosed.  off = 0 and off = -2 (the grid
	// straddles zero: Nextafter on negative abscissae and on -0.5, 0) in both tiers, off = -4 (all negative) in
	// thorough.  The 4-vertex rings (local extrema, collinear fold-backs, bow-ties: the alignments 3 vertices cannot
	// form) are ENUMERATED at off = 0 in thorough and SAMPLED otherwise (quick: 4000 of the 3 x 65536 over the three
	// offsets; thorough: 40000 more at the negative offsets).
	gridRing := func(n, code, off int) orb.Ring {
		rg := make(orb.Ring, n)
		k := code
		for i := 0; i < n; i++ {
			rg[i] = orb.Point{float64(off + k%4), float64(off + k/4%4)}
			k /= 16
		}
		return rg
	}
	gridCase := func(rg orb.Ring, off int) {
		c.Case("grid", strconv.Itoa(2*off-1)+" "+strconv.Itoa(2*off+7)+" "+spts(rg))
	}
	offs := []int{0, -2}
	if c.Tier == "thorough" {
		offs = []int{0, -2, -4}
	}
	if c.Shard == 0 {
		for _, off := range offs {
			gridCase(orb.Ring{}, off)
		}
	}
	for _, off := range offs {
		maxN := 3
		if c.Tier == "thorough" && off == 0 {
			maxN = 4
		}
		for n := 1; n <= maxN; n++ {
			total := 1
			for i := 0; i < n; i++ {
				total *= 16
			}
			for code := 0; code < total && !c.Exhausted(); code++ {
				idx++
				if !c.Mine(idx) {
					continue
				}
				gridCase(gridRing(n, code, off), off)
			}
		}
	}
	// the same family THROUGH PolygonContains / MultiPolygonContains (op gridp): every ring of 0..3 vertices of the
	// grid, in every variant, as Polygon{v}, Polygon{box, v}, Polygon{box, {}, v}, MultiPolygon{{v}},
	// MultiPolygon{{box, v}}, MultiPolygon{{box, v}, {v}}; box = the grid's own square [off, off+3]^2, so every
	// lattice point a grid ring can contain is in the box (on its boundary or inside) and the lattice's outermost
	// layer is outside it.  1- and 2-vertex rings are thus exhaustively judged as outer rings and as holes; the
	// 4-vertex rings are sampled.
	gridPCase := func(rg orb.Ring, off int) {
		c.Case("gridp", strconv.Itoa(2*off-1)+" "+strconv.Itoa(2*off+7)+" "+strconv.Itoa(off)+" "+strconv.Itoa(off+3)+" "+spts(rg))
	}
	if c.Shard == 0 {
		for _, off := range offs {
			gridPCase(orb.Ring{}, off)
		}
	}
	for _, off := range offs {
		for n := 1; n <= 3; n++ {
			total := 1
			for i := 0; i < n; i++ {
				total *= 16
			}
			for code := 0; code < total && !c.Exhausted(); code++ {
				idx++
				if !c.Mine(idx) {
					continue
				}
				gridPCase(gridRing(n, code, off), off)
			}
		}
	}
	np4 := 1000
	if c.Tier == "thorough" {
		np4 = 8000
	}
	for k := 0; k < np4/c.Shards+1 && !c.Exhausted(); k++ {
		off := []int{0, -2, -4}[r.Intn(3)]
		gridPCase(gridRing(4, r.Intn(65536), off), off)
	}
	n4 := 4000
	allOffs := []int{0, -2, -4}
	if c.Tier == "thorough" {
		n4 = 40000
		allOffs = []int{-2, -4}
	}
	for k := 0; k < n4/c.Shards+1 && !c.Exhausted(); k++ {
		off := allOffs[r.Intn(len(allOffs))]
		gridCase(gridRing(4, r.Intn(65536), off), off)
	}
	// random
	for k := 0; k < c.Budget && !c.Exhausted(); k++ {
		s := c09Scales[r.Intn(len(c09Scales))]
		switch r.Intn(10) {
		case 0, 1, 2, 3, 4: // rings to 12 vertices
			n := 3 + r.Intn(10)
			if r.Intn(12) == 0 {
				n = r.Intn(3)
			}
			rg := genRingC09(r, s, n)
			qs := genQueriesC09(r, s, []orb.Ring{rg}, 6+r.Intn(12))
			c.Case("ring", c09Line(rg, qs))
		case 5: // general-position floats (Float twin; exact spec only where rounding does not matter)
			mode := CoordFloat
			rg := genRing(r, mode, 9)
			var qs []orb.Point
			for i := 0; i < 6; i++ {
				q := genPoint(r, mode)
				if len(rg) > 0 && r.Intn(2) == 0 {
					a := rg[r.Intn(len(rg))]
					switch r.Intn(3) {
					case 0:
						q = a
					case 1:
						q[0] = a[0]
					default:
						q[1] = a[1]
					}
				}
				qs = append(qs, q)
			}
			c.Case("ring", c09Line(rg, qs))
		case 6, 7, 8: // polygons with holes
			pg := genPolyC09(r, s)
			qs := genQueriesC09(r, s, []orb.Ring(pg), 8+r.Intn(10))
			qs = append(qs, holeBoundaryPts(r, pg)...)
			qs = append(qs, outerBoundaryPts(r, pg)...)
			c.Case("poly", gs(pg)+" "+spts(qs))
		default: // multi-polygons
			np := r.Intn(4)
			mp := make(orb.MultiPolygon, np)
			var all []orb.Ring
			for i := range mp {
				mp[i] = genPolyC09(r, s)
				all = append(all, mp[i]...)
			}
			if len(all) == 0 {
				all = []orb.Ring{{}}
			}
			qs := genQueriesC09(r, s, all, 8+r.Intn(10))
			for _, pg := range mp {
				qs = append(qs, holeBoundaryPts(r, pg)...)
				qs = append(qs, outerBoundaryPts(r, pg)...)
			}
			c.Case("mpoly", gs(mp)+" "+spts(qs))
		}
	}
}

// genDegRingC09: rings WITHOUT AREA — all vertices equal (1..5 copies of one point), 2..6 collinear vertices in any
// order along one line (fold-backs, repeats), or a short ring with every vertex doubled / wound twice / walked
// there and back.  As an outer ring such a ring contains exactly its boundary (or, wound twice, its boundary only:
// the doubly covered interior is outside by the even-odd rule); as a hole it removes exactly that.
func genDegRingC09(r *rand.Rand, s c09Scale) orb.Ring {
	switch r.Intn(3) {
	case 0:
		p := s.pt(r)
		n := 1 + r.Intn(5)
		rg := make(orb.Ring, n)
		for i := range rg {
			rg[i] = p
		}
		return rg
	case 1:
		a := s.pt(r)
		u := 1 / float64(s.den)
		d := orb.Point{u * float64(r.Intn(5)-2), u * float64(r.Intn(5)-2)}
		if s.span*s.den > 40 && r.Intn(2) == 0 {
			d = orb.Point{u * float64(r.Intn(2*s.span*s.den/8+1)-s.span*s.den/8), u * float64(r.Intn(2*s.span*s.den/8+1)-s.span*s.den/8)}
		}
		n := 2 + r.Intn(5)
		rg := make(orb.Ring, 0, n)
		for i := 0; i < n; i++ {
			k := float64(r.Intn(5))
			q := orb.Point{a[0] + k*d[0], a[1] + k*d[1]}
			if q[0] < s.lo() || q[1] < s.lo() || q[0] > s.hi() || q[1] > s.hi() {
				q = a
			}
			rg = append(rg, q)
		}
		return rg
	default:
		base := genRingC09(r, s, 1+r.Intn(3))
		var rg orb.Ring
		switch r.Intn(3) {
		case 0: // every vertex doubled
			for _, p := range base {
				rg = append(rg, p, p)
			}
		case 1: // wound twice
			rg = append(append(rg, base...), base...)
		default: // there and back
			rg = append(rg, base...)
			for i := len(base) - 1; i >= 0; i-- {
				rg = append(rg, base[i])
			}
		}
		return rg
	}
}

// genMemberRingC09: a ring of a polygon — any size 0..9 (a third: uniformly 0..9, so that 0, 1 and 2 vertices are
// as frequent as the others), a ring without area (a sixth), else `usual` (the size range of a well-formed ring).
func genMemberRingC09(r *rand.Rand, s c09Scale, usual func() int) orb.Ring {
	switch r.Intn(6) {
	case 0, 1:
		return genRingC09(r, s, r.Intn(10))
	case 2:
		return genDegRingC09(r, s)
	}
	return genRingC09(r, s, usual())
}

// genPolyC09: an outer ring and 0..3 holes (random rings, so holes may overlap, touch or leave the outer ring —
// the composition law "outer and no hole" is what is checked, not validity); outer rings AND holes of every size
// 0..9 and without area (genMemberRingC09); rarely a zero-ring polygon.
func genPolyC09(r *rand.Rand, s c09Scale) orb.Polygon {
	if r.Intn(40) == 0 {
		return orb.Polygon{}
	}
	pg := orb.Polygon{}
	if r.Intn(3) == 0 { // a box outer ring, so that holes are mostly inside
		a, w := s.lo(), s.hi()
		pg = append(pg, orb.Ring{{a, a}, {w, a}, {w, w}, {a, w}, {a, a}})
	} else {
		rg := genMemberRingC09(r, s, func() int { return 3 + r.Intn(7) })
		if len(rg) > 0 && r.Intn(2) == 0 {
			rg = append(rg, rg[0])
		}
		pg = append(pg, rg)
	}
	nh := r.Intn(4)
	for i := 0; i < nh; i++ {
		h := genMemberRingC09(r, s, func() int { return 3 + r.Intn(4) })
		if r.Intn(4) == 0 && s.span*s.den >= 4 { // an axis-parallel box hole strictly inside the pool's range
			u := 1 / float64(s.den)
			x0 := s.lo() + u*float64(1+r.Intn(s.span*s.den-3))
			y0 := s.lo() + u*float64(1+r.Intn(s.span*s.den-3))
			x1 := x0 + u*float64(1+r.Intn(int((s.hi()-u-x0)/u)))
			y1 := y0 + u*float64(1+r.Intn(int((s.hi()-u-y0)/u)))
			h = orb.Ring{{x0, y0}, {x0, y1}, {x1, y1}, {x1, y0}}
		}
		if len(h) > 0 && r.Intn(2) == 0 {
			h = append(h, h[0])
		}
		if r.Intn(15) == 0 {
			h = orb.Ring{}
		}
		pg = append(pg, h)
	}
	return pg
}
