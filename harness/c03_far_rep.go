package main

// C03 — two generator families added after seeding round 2 (op rt, same line format):
//
//  far-small : small rings (doubled area 1..32, own extent <= 17) translated far from the origin,
//              up to the |v| < 2^28 limit of the quantifier, in all four quadrants and on the axes,
//              as holes and as further outer rings of Polygon / MultiPolygon features.
//              decodePolygon regroups the rings by Ring.Orientation.  That shoelace first moves
//              the ring to its first vertex, so for a ring of small extent it is EXACT whatever the
//              distance from the origin (argument: Driver/C03.lean, `oriExactDomain`); a shoelace
//              on the absolute coordinates loses the area of such a ring in the rounding of
//              products of size 2^53..2^56.  The known finding C03-regroup-rounding is the
//              opposite corner: rings of LARGE extent, where the shifted shoelace itself rounds.
//
//  rep       : highly repetitive tiles (hundreds / thousands of identical or nearly identical
//              features, long runs of one byte in names / keys / values, many equal layers) whose
//              gzip ratio is 30x..1000x, and incompressible ones of the same sizes: the
//              MarshalGzipped / UnmarshalGzipped round trip must return what the plain round trip
//              returns whatever the size of the tile and however well it compresses.
//              (Allocation of UnmarshalGzipped on hostile input is C05's clause — op hostile —
//              and is not looked at here.)

import (
	"fmt"
	"math/rand"
	"strings"

	"github.com/paulmach/orb"
)

// ---------------------------------------------------------------- far-small rings

// c03SmallShapes: counter-clockwise closed rings inside [0,17]^2 with doubled area 1..32.
func c03SmallShapes() []orb.Ring {
	cl := func(ps ...orb.Point) orb.Ring { return append(orb.Ring(ps), ps[0]) }
	rect := func(w, h float64) orb.Ring {
		return cl(orb.Point{0, 0}, orb.Point{w, 0}, orb.Point{w, h}, orb.Point{0, h})
	}
	return []orb.Ring{
		cl(orb.Point{0, 0}, orb.Point{1, 0}, orb.Point{0, 1}),     // 2A = 1
		cl(orb.Point{0, 0}, orb.Point{2, 1}, orb.Point{1, 1}),     // 2A = 1, thin
		cl(orb.Point{15, 14}, orb.Point{16, 15}, orb.Point{0, 0}), // 2A = 1, sliver of extent 16
		cl(orb.Point{0, 0}, orb.Point{17, 1}, orb.Point{16, 1}),   // 2A = 1, sliver along x
		rect(1, 1), // 2A = 2
		cl(orb.Point{0, 0}, orb.Point{2, 0}, orb.Point{1, 1}), // 2A = 2
		rect(2, 1), rect(1, 3), rect(2, 2), rect(3, 3), rect(4, 4), rect(16, 1), rect(1, 16), rect(8, 2), // 2A = 4..32
		cl(orb.Point{0, 0}, orb.Point{16, 1}, orb.Point{17, 2}, orb.Point{1, 1}),                                 // 2A = 30, thin parallelogram
		cl(orb.Point{0, 0}, orb.Point{2, 0}, orb.Point{2, 1}, orb.Point{1, 1}, orb.Point{1, 2}, orb.Point{0, 2}), // 2A = 6, L
		cl(orb.Point{1, 0}, orb.Point{2, 1}, orb.Point{1, 2}, orb.Point{0, 1}),                                   // 2A = 4, diamond
	}
}

// c03Place: the ring rotated to start at vertex `rot`, optionally reversed (clockwise), moved by (tx,ty).
func c03Place(s orb.Ring, rot int, cw bool, tx, ty float64) orb.Ring {
	n := len(s) - 1
	out := make(orb.Ring, 0, n+1)
	for i := 0; i < n; i++ {
		j := (rot + i) % n
		if cw {
			j = ((rot-i)%n + n) % n
		}
		out = append(out, orb.Point{s[j][0] + tx, s[j][1] + ty})
	}
	return append(out, out[0])
}

func c03Box(x0, y0, x1, y1 float64) orb.Ring {
	return orb.Ring{{x0, y0}, {x1, y0}, {x1, y1}, {x0, y1}, {x0, y0}}
}

// c03FarRole builds the feature geometry in which the small ring s, moved to (tx,ty), is a second or
// later ring.  Every coordinate stays within tx-4 .. tx+60 (resp. ty), or is one of 0, 4.
const c03FarRoles = 8

func c03FarRole(role int, s, s2 orb.Ring, rot int, tx, ty float64) orb.Geometry {
	sq := c03Box(0, 0, 4, 4)
	around := c03Box(tx-4, ty-4, tx+60, ty+60)
	switch role {
	case 0: // a hole inside a small outer ring, both far away
		return orb.Polygon{around, c03Place(s, rot, true, tx, ty)}
	case 1: // outer ring at the origin, the hole far away
		return orb.Polygon{sq, c03Place(s, rot, true, tx, ty)}
	case 2: // two holes
		return orb.Polygon{around, c03Place(s, rot, true, tx, ty), c03Place(s2, rot+1, true, tx+30, ty+30)}
	case 3: // a second polygon far away
		return orb.MultiPolygon{{sq}, {c03Place(s, rot, false, tx, ty)}}
	case 4: // two tiny polygons next to each other, far away
		return orb.MultiPolygon{{c03Place(s2, rot+1, false, tx+30, ty+30)}, {c03Place(s, rot, false, tx, ty)}}
	case 5: // outer, hole, outer, hole: the mirror image carries the second pair
		return orb.MultiPolygon{
			{around, c03Place(s, rot, true, tx, ty)},
			{c03Box(-tx-60, -ty-60, -tx+4, -ty+4), c03Place(s2, rot+1, true, -tx-30, -ty-30)}}
	case 6: // three polygons, the far one in the middle, the last with a hole
		return orb.MultiPolygon{{sq}, {c03Place(s, rot, false, tx, ty)}, {around, c03Place(s2, rot, true, tx+30, ty+30)}}
	default: // as the only member of a collection
		return orb.Collection{orb.Polygon{around, c03Place(s, rot, true, tx, ty), c03Place(s2, rot, true, tx+20, ty+40)}}
	}
}

// c03FarMagnitudes: distances from the origin.  2^26.5 ~ 94906266 is where products of two
// coordinates pass 2^53; the last leaves room for the +60 of the surrounding ring below 2^28.
var c03FarMagnitudes = []float64{1 << 20, 1 << 24, 1 << 25, 1 << 26, 94906200, 94906266, 1e8, 1<<27 - 64, 1 << 27, 1<<27 + 1,
	150000001, 2e8, 250000003, 1<<28 - 70}

// c03FarTranslations: all four quadrants, both axes, and unequal magnitudes.
func c03FarTranslations() [][2]float64 {
	var out [][2]float64
	ms := c03FarMagnitudes
	for i, m := range ms {
		m2 := ms[(i*5+3)%len(ms)]
		for _, sg := range [][2]float64{{1, 1}, {-1, 1}, {1, -1}, {-1, -1}} {
			out = append(out, [2]float64{sg[0] * m, sg[1] * m}, [2]float64{sg[0] * m, sg[1] * m2})
		}
		out = append(out, [2]float64{m, 0}, [2]float64{-m, 0}, [2]float64{0, m}, [2]float64{0, -m}, [2]float64{m, 7}, [2]float64{-9, -m})
	}
	return out
}

// c03FarFixed enumerates shape x translation x role; the start vertex (and the second shape)
// rotate with the counter.  Thorough tier: every start vertex as well.
func c03FarFixed(c *Ctx, n *int) {
	shapes := c03SmallShapes()
	trs := c03FarTranslations()
	k := 0
	for si, s := range shapes {
		for _, t := range trs {
			for role := 0; role < c03FarRoles; role++ {
				k++
				rots := []int{k % (len(s) - 1)}
				if c.Tier == "thorough" {
					rots = rots[:0]
					for r := 0; r < len(s)-1; r++ {
						rots = append(rots, r)
					}
				}
				for _, rot := range rots {
					*n++
					if !c.Mine(*n) {
						continue
					}
					g := c03FarRole(role, s, shapes[(si+k)%len(shapes)], rot, t[0], t[1])
					c.Case("rt", c03ShowLayers(c03One("far", g)))
				}
			}
		}
	}
}

// c03FarRandom: a random small ring (3..6 vertices in [0,e]^2, e in {1,2,4,16}) at a random far
// place (log-uniform 2^20..2^28), in a random role, among the features of a random layer list.
func c03FarRandom(r *rand.Rand) []c03Layer {
	small := func() orb.Ring {
		e := []int{1, 2, 4, 16}[r.Intn(4)]
		for {
			n := 3 + r.Intn(4)
			ps := make(orb.Ring, n)
			for i := range ps {
				ps[i] = orb.Point{float64(r.Intn(e + 1)), float64(r.Intn(e + 1))}
			}
			dup := false
			for i := range ps {
				dup = dup || ps[i] == ps[(i+1)%n]
			}
			if dup {
				continue // some rotation would double the closing vertex (known finding ring-reclose)
			}
			ps = append(ps, ps[0])
			switch c03Area2(ps) {
			case 1:
				return ps
			case -1:
				for i, j := 0, len(ps)-1; i < j; i, j = i+1, j-1 {
					ps[i], ps[j] = ps[j], ps[i]
				}
				return ps
			}
		}
	}
	far := func() float64 {
		sh := uint(20 + r.Intn(8))
		m := float64(int64(1)<<sh + r.Int63n(int64(1)<<sh))
		if m > 1<<28-70 {
			m = 1<<28 - 70 - float64(r.Intn(1000))
		}
		switch r.Intn(8) {
		case 0:
			return float64(r.Intn(9) - 4)
		case 1, 2, 3:
			return -m
		}
		return m
	}
	var ls []c03Layer
	if r.Intn(3) == 0 {
		ls = c03GenLayers(r, true)
	}
	if len(ls) == 0 {
		ls = []c03Layer{{name: "far", version: 2, extent: 4096}}
	}
	l := &ls[r.Intn(len(ls))]
	for i := 1 + r.Intn(3); i > 0; i-- {
		s := small()
		g := c03FarRole(r.Intn(c03FarRoles), s, small(), r.Intn(len(s)-1), far(), far())
		l.feats = append(l.feats, c03Feat{id: "-", geom: g})
	}
	return ls
}

// ---------------------------------------------------------------- repetitive tiles

func c03MoveGeom(g orb.Geometry, dx, dy float64) orb.Geometry {
	if p, ok := g.(orb.Point); ok {
		return orb.Point{p[0] + dx, p[1] + dy}
	}
	g = orb.Clone(g)
	forEachVertex(g, func(p *orb.Point) { p[0] += dx; p[1] += dy })
	return g
}

// c03Rep: n copies of f; vary 0 identical, 1 ids count up, 2 one property counts up,
// 3 the geometry moves over a 64-wide grid, 4 a string property takes one of 5 values.
func c03Rep(f c03Feat, n, vary int) []c03Feat {
	out := make([]c03Feat, n)
	for i := range out {
		g := f
		switch vary {
		case 1:
			g.id = fmt.Sprintf("u:uint64:%d", i)
		case 2:
			g.props = append(append([]c03Prop{}, f.props...), c03Prop{"seq", fmt.Sprintf("i:int:%d", i)})
			g.nilProps = false
		case 3:
			g.geom = c03MoveGeom(f.geom, float64(i%64), float64(i/64))
		case 4:
			g.props = append(append([]c03Prop{}, f.props...), c03Prop{"cls", "s:" + c03H([]string{"road", "rail", "river", "path", ""}[i%5])})
			g.nilProps = false
		}
		out[i] = g
	}
	return out
}

func c03RepTemplates() []c03Feat {
	sq := orb.Ring{{0, 0}, {40, 0}, {40, 40}, {0, 40}, {0, 0}}
	hole := orb.Ring{{10, 10}, {10, 20}, {20, 20}, {20, 10}, {10, 10}}
	long := strings.Repeat("x", 200)
	return []c03Feat{
		{id: "-", geom: orb.Point{1, 1}},
		{id: "-", geom: orb.Point{100, 200}, props: []c03Prop{{"name", "s:" + c03H("river")}, {"n", "i:int:7"}}},
		{id: "i:int:5", geom: orb.LineString{{0, 0}, {10, 10}, {20, 0}}, props: []c03Prop{{"class", "s:" + c03H("street")}, {"oneway", "b:1"}, {"w", "f64:4004000000000000"}}},
		{id: "-", geom: orb.Polygon{sq, hole}, props: []c03Prop{{"kind", "s:" + c03H(long)}}},
		{id: "-", geom: orb.MultiPolygon{{sq}, {{{100, 100}, {140, 100}, {100, 140}, {100, 100}}}}, props: []c03Prop{{strings.Repeat("k", 100), "u:uint8:200"}}},
		{id: "-", geom: orb.MultiPoint{{1, 1}, {2, 2}, {3, 3}, {4, 4}, {5, 5}, {6, 6}, {7, 7}, {8, 8}}, nilProps: true},
	}
}

func c03RepCounts(tier string) []int {
	if tier == "thorough" {
		return []int{50, 100, 200, 300, 400, 700, 1000, 3000, 10000, 30000}
	}
	return []int{50, 100, 200, 300, 400, 1000, 3000}
}

func c03RepStringLens(tier string) []int {
	if tier == "thorough" {
		return []int{1000, 10000, 32768, 65536, 200000, 1 << 20}
	}
	return []int{1000, 10000, 32768, 65536, 200000}
}

// c03RepFixed: template x count x variation x arrangement (alone / followed by a small layer /
// after a small layer / split over several equal layers); then long runs in strings.
func c03RepFixed(c *Ctx, n *int) {
	tail := c03Layer{name: "tail", version: 1, extent: 256, feats: []c03Feat{{id: "u:uint:9", geom: orb.Point{3, 4}, props: []c03Prop{{"t", "s:" + c03H("last")}}}}}
	k := 0
	for ti, t := range c03RepTemplates() {
		for _, cnt := range c03RepCounts(c.Tier) {
			for vary := 0; vary < 5; vary++ {
				k++
				arrs := []int{k % 4}
				if c.Tier == "thorough" && cnt <= 3000 {
					arrs = []int{0, 1, 2, 3}
				}
				if cnt > 3000 && (vary == 2 || (ti+vary)%3 != 0) {
					continue // a value table of > 3000 entries is quadratic in the model; a sample of the big ones
				}
				if c.Tier != "thorough" && cnt >= 300 && (k+ti)%2 == 1 {
					continue // quick tier: half of the larger combinations
				}
				if c.Tier != "thorough" && cnt >= 3000 && ti > 2 {
					continue // quick tier: 3000 copies of the point / line templates only (megabyte-long case lines)
				}
				for _, arr := range arrs {
					*n++
					if !c.Mine(*n) {
						continue
					}
					main := c03Layer{name: "rep", version: 2, extent: 4096, feats: c03Rep(t, cnt, vary)}
					var ls []c03Layer
					switch arr {
					case 0:
						ls = []c03Layer{main}
					case 1:
						ls = []c03Layer{main, tail}
					case 2:
						ls = []c03Layer{tail, main}
					default:
						// several layers, each the same feature repeated
						parts := 2 + k%7
						per := cnt / parts
						for p := 0; p < parts; p++ {
							ls = append(ls, c03Layer{name: fmt.Sprintf("rep%d", p), version: 2, extent: 4096, feats: c03Rep(t, per, vary)})
						}
						ls = append(ls, tail)
					}
					c.Case("rt", c03ShowLayers(ls))
				}
			}
		}
	}
	// long runs of one byte / of a short period in a layer name, a key, a string value
	for _, L := range c03RepStringLens(c.Tier) {
		for pi, pat := range []string{"a", "ab", "river ", "é"} {
			for where := 0; where < 4; where++ {
				*n++
				if !c.Mine(*n) || (c.Tier != "thorough" && where == 3 && L > 65536) {
					continue
				}
				s := strings.Repeat(pat, L/len(pat))
				l := c03Layer{name: "long", version: 2, extent: 4096, feats: []c03Feat{{id: "-", geom: orb.Point{1, 1}, props: []c03Prop{{"k", "s:" + c03H("v")}}}}}
				switch where {
				case 0:
					l.feats[0].props[0].tok = "s:" + c03H(s)
				case 1:
					l.feats[0].props[0].key = s
				case 2:
					l.name = s
				default:
					// the same long value under several keys of several features: one table entry
					l.feats = c03Rep(c03Feat{id: "-", geom: orb.Point{1, 1}, props: []c03Prop{{"a", "s:" + c03H(s)}, {"b", "s:" + c03H(s)}, {"c", "s:" + c03H(s+"!")}}}, 3+pi, 3)
				}
				ls := []c03Layer{l}
				if where%2 == 0 {
					ls = append(ls, c03Layer{name: "tail", version: 1, extent: 256, feats: []c03Feat{{id: "-", geom: orb.Point{3, 4}}}})
				}
				c.Case("rt", c03ShowLayers(ls))
			}
		}
	}
}

// c03RepRandom: a random well-formed feature repeated 100..2000 times (sometimes two of them
// alternating), sometimes with incompressible string properties so that tiles of the same size
// and very different gzip ratio are seen.
func c03RepRandom(r *rand.Rand) []c03Layer {
	var t []c03Feat
	for len(t) == 0 {
		for _, l := range c03GenLayers(r, true) {
			for _, f := range l.feats {
				if f.geom != nil {
					if _, isC := f.geom.(orb.Collection); !isC {
						t = append(t, f)
					}
				}
			}
		}
	}
	cnt := 100 + r.Intn(400)
	if r.Intn(4) == 0 {
		cnt = 500 + r.Intn(1500)
	}
	vary := r.Intn(5)
	feats := c03Rep(t[0], cnt, vary)
	if len(t) > 1 && r.Intn(3) == 0 {
		for i := range feats {
			if i%2 == 1 {
				feats[i] = t[1]
			}
		}
	}
	if r.Intn(4) == 0 {
		// incompressible: every feature gets its own random 16-byte hex string
		for i := range feats {
			b := make([]byte, 8)
			r.Read(b)
			feats[i].props = append(append([]c03Prop{}, feats[i].props...), c03Prop{"rnd", "s:" + c03H(fmt.Sprintf("%x", b))})
			feats[i].nilProps = false
		}
	}
	ls := []c03Layer{{name: c03Words[r.Intn(len(c03Words))], version: uint32(1 + r.Intn(2)), extent: uint32(256 << uint(r.Intn(6))), feats: feats}}
	if r.Intn(2) == 0 {
		more := c03GenLayers(r, true)
		if r.Intn(2) == 0 {
			ls = append(ls, more...)
		} else {
			ls = append(more, ls...)
		}
	}
	return ls
}
