package main

// C02, white-box round: three more ops.
//
//   hook   a geom / typed / feat / fc / hand / seq case run FOUR times: without the documented hooks
//          geojson.CustomJSONMarshaler / CustomJSONUnmarshaler, then with a pass-through marshaler only (M),
//          a pass-through unmarshaler only (U), both (MU) — wrappers around encoding/json that count their
//          calls.  "The hooks are transparent": the same outcome line each time, and the number of hook
//          calls per step of the case is what the dispatch in geojson/json.go prescribes (one call per
//          marshalJSON / unmarshalJSON site reached — `Orb.GeoJSON.hookM*` / `hookU*`), none on the side
//          that is not installed, none in the BSON steps.
//            input   <sub-op> <the sub-op's input>
//            outcome <outcome without hooks> || M <same | outcome> ## <step> <m> <u> ## … || U … || MU …
//
//   own    "a returned buffer belongs to the caller; an input buffer belongs to the caller again after the
//          call".  1-3 values (G <gsN> | T <gsN> | F… | FC… | H…), each through EVERY marshal entry point:
//          the methods called directly (MarshalJSON, MarshalBSON, MarshalBSONValue), json.Marshal,
//          bson.Marshal.  Phase 1: all calls, results kept (and each document decoded from a private copy
//          that is overwritten afterwards: the decoded value must not change).  Phase 2: every kept result
//          must still hold its bytes (a later call must not write into an earlier result).  Phase 3: every
//          kept result is overwritten up to its capacity.  Phase 4: all calls again — the same bytes as in
//          phase 1.  (Phase 5: the original bytes are written back, first result last, so that a shared
//          buffer of a broken library does not poison the following cases of this process.)
//            outcome per value (joined by ` || `):
//                    <json tree> ; <bson tree> ; <entry> <t> <kept> <again> … ; in <decoder> <0|1> …
//                    t: `=` the entry's document equals the tree shown for its codec, `n` a BSON null value,
//                       `x` another document, `e` error, `p` panic
//
//   val    one value marshalled in every FORM a program can hold it in: by pointer and BY VALUE, top level,
//          struct field, slice element, map value, interface field — both codecs.  All forms must give
//          the same document (Feature, FeatureCollection and the six typed helpers have value receivers;
//          *Geometry has pointer receivers: its forms that are not addressable fall back to the raw struct
//          — reported, tagged, not judged).
//            forms   p  T*            v  T             (top level)
//                    tp struct{G *T}  tv struct{G T}   tva &struct{G T}
//                    sp []*T          sv []T           mp map[string]*T   mv map[string]T
//                    ip struct{G interface{}}{&x}      iv struct{G interface{}}{x}     av [1]T   ava &[1]T
//            outcome <json top tree> ; <bson top tree> ; <bson member tree (form tp)> ;
//                    (j|b)<form> <=|x|e|p> … [; D <name> <tree of the first differing form>]

import (
	"bytes"
	"encoding/json"
	"reflect"
	"strconv"
	"strings"
	"sync/atomic"

	"github.com/paulmach/orb"
	"github.com/paulmach/orb/geojson"
	"go.mongodb.org/mongo-driver/bson"
	"go.mongodb.org/mongo-driver/bson/bsontype"
	"go.mongodb.org/mongo-driver/x/bsonx/bsoncore"
)

// ---------------------------------------------------------------------------------------------
// hook-call accounting

var c02Cnt struct {
	on     bool
	m, u   int64
	lm, lu int64
	steps  []string
}

// gp = guard + a mark: the hook calls since the previous mark belong to the step `label`
func gp(label string, f func() string) string {
	r := guard(f)
	if c02Cnt.on {
		m, u := atomic.LoadInt64(&c02Cnt.m), atomic.LoadInt64(&c02Cnt.u)
		c02Cnt.steps = append(c02Cnt.steps, label+" "+strconv.FormatInt(m-c02Cnt.lm, 10)+" "+strconv.FormatInt(u-c02Cnt.lu, 10))
		c02Cnt.lm, c02Cnt.lu = m, u
	}
	return r
}

// the pass-through hooks.  Two spellings each (chosen by the parity of the call number): plain
// encoding/json, and a variant that hands out / works on a buffer of its own (a result with spare
// capacity; the input copied first — the copy stays untouched afterwards: geojson keeps sub-slices
// of what its unmarshaler was given, json.go nocopyRawMessage).
type c02CountM struct{}

func (c02CountM) Marshal(v interface{}) ([]byte, error) {
	n := atomic.AddInt64(&c02Cnt.m, 1)
	b, err := json.Marshal(v)
	if n%2 == 0 && err == nil {
		b = append(make([]byte, 0, len(b)+64), b...)
	}
	return b, err
}

type c02CountU struct{}

func (c02CountU) Unmarshal(data []byte, v interface{}) error {
	n := atomic.AddInt64(&c02Cnt.u, 1)
	if n%2 == 0 {
		data = append(make([]byte, 0, len(data)+16), data...)
	}
	return json.Unmarshal(data, v)
}

var c02HookSubOps = map[string]bool{"geom": true, "typed": true, "feat": true, "fc": true, "hand": true, "seq": true}

func c02HookOp(in []string) string {
	if len(in) < 2 || !c02HookSubOps[in[0]] {
		return "badinput"
	}
	sub, rest := in[0], in[1:]
	saveM, saveU := geojson.CustomJSONMarshaler, geojson.CustomJSONUnmarshaler
	defer func() {
		geojson.CustomJSONMarshaler, geojson.CustomJSONUnmarshaler = saveM, saveU
		c02Cnt.on = false
	}()
	geojson.CustomJSONMarshaler, geojson.CustomJSONUnmarshaler = nil, nil
	base := runC02(sub, rest)
	parts := []string{base}
	for _, combo := range []string{"M", "U", "MU"} {
		geojson.CustomJSONMarshaler, geojson.CustomJSONUnmarshaler = nil, nil
		if strings.Contains(combo, "M") {
			geojson.CustomJSONMarshaler = c02CountM{}
		}
		if strings.Contains(combo, "U") {
			geojson.CustomJSONUnmarshaler = c02CountU{}
		}
		atomic.StoreInt64(&c02Cnt.m, 0)
		atomic.StoreInt64(&c02Cnt.u, 0)
		c02Cnt.lm, c02Cnt.lu, c02Cnt.steps, c02Cnt.on = 0, 0, nil, true
		out := guard(func() string { return runC02(sub, rest) })
		c02Cnt.on = false
		geojson.CustomJSONMarshaler, geojson.CustomJSONUnmarshaler = nil, nil
		s := combo + " "
		if out == base {
			s += "same"
		} else {
			s += out
		}
		for _, st := range c02Cnt.steps {
			s += " ## " + st
		}
		s += " ## total " + strconv.FormatInt(atomic.LoadInt64(&c02Cnt.m), 10) + " " + strconv.FormatInt(atomic.LoadInt64(&c02Cnt.u), 10)
		parts = append(parts, s)
	}
	return strings.Join(parts, " || ")
}

// ---------------------------------------------------------------------------------------------
// items: a value of one of the five marshalled kinds

type c02Item struct {
	kind string // G T F C H
	gp   *geojson.Geometry
	tv   interface{} // the typed helper value
	f    *geojson.Feature
	fc   *geojson.FeatureCollection
}

func c02TypedValue(g orb.Geometry) interface{} {
	switch g := g.(type) {
	case orb.Point:
		return geojson.Point(g)
	case orb.MultiPoint:
		return geojson.MultiPoint(g)
	case orb.LineString:
		return geojson.LineString(g)
	case orb.MultiLineString:
		return geojson.MultiLineString(g)
	case orb.Polygon:
		return geojson.Polygon(g)
	case orb.MultiPolygon:
		return geojson.MultiPolygon(g)
	}
	return nil
}

func (r *tokReader) item() (it c02Item, ok bool) {
	switch r.peek() {
	case "G":
		r.next()
		return c02Item{kind: "G", gp: geojson.NewGeometry(r.geom())}, true
	case "T":
		r.next()
		v := c02TypedValue(r.geom())
		return c02Item{kind: "T", tv: v}, v != nil
	case "F":
		f := r.feature()
		return c02Item{kind: "F", f: f}, f != nil
	case "FC":
		return c02Item{kind: "C", fc: r.fc()}, true
	case "H":
		h := r.hand()
		return c02Item{kind: "H", gp: h}, h != nil
	}
	return c02Item{}, false
}

// ptr: the value as the pointer a program would normally pass (typed helpers: a pointer to a copy)
func (it c02Item) ptr() interface{} {
	switch it.kind {
	case "G", "H":
		return it.gp
	case "F":
		return it.f
	case "C":
		return it.fc
	}
	p := reflect.New(reflect.TypeOf(it.tv))
	p.Elem().Set(reflect.ValueOf(it.tv))
	return p.Interface()
}

type c02Result struct {
	b     []byte
	isVal bool
	t     bsontype.Type
	err   error
}

func (x c02Result) tree(codec byte) string {
	if x.err != nil {
		return "merr"
	}
	if codec == 'j' {
		return jsonTreeTok(x.b, nil)
	}
	if x.isVal {
		var s string
		func() {
			defer func() {
				if recover() != nil {
					s = "unparsable"
				}
			}()
			s = bsonValueTree(bsoncore.Value{Type: x.t, Data: x.b}, 0).tokens()
		}()
		return s
	}
	return bsonTreeTok(x.b, nil)
}

type c02Entry struct {
	name  string
	codec byte
	call  func() c02Result
}

func (it c02Item) entries() []c02Entry {
	bytesOf := func(f func() ([]byte, error)) func() c02Result {
		return func() c02Result { b, err := f(); return c02Result{b: b, err: err} }
	}
	p := it.ptr()
	var direct interface{} = p // the value the methods are called on
	if it.kind == "T" {
		direct = it.tv
	}
	es := []c02Entry{
		{"jm", 'j', bytesOf(func() ([]byte, error) { return direct.(json.Marshaler).MarshalJSON() })},
		{"js", 'j', bytesOf(func() ([]byte, error) { return json.Marshal(p) })},
		{"bm", 'b', bytesOf(func() ([]byte, error) { return direct.(bson.Marshaler).MarshalBSON() })},
		{"bs", 'b', bytesOf(func() ([]byte, error) { return bson.Marshal(p) })},
	}
	switch it.kind {
	case "T", "F", "C": // value receivers: by value as well
		v := reflect.ValueOf(p).Elem().Interface()
		es = append(es,
			c02Entry{"jv", 'j', bytesOf(func() ([]byte, error) { return json.Marshal(v) })},
			c02Entry{"bv", 'b', bytesOf(func() ([]byte, error) { return bson.Marshal(v) })})
	case "G", "H":
		g := it.gp
		es = append(es,
			c02Entry{"bV", 'b', func() c02Result {
				t, b, err := g.MarshalBSONValue()
				return c02Result{b: b, isVal: true, t: t, err: err}
			}},
			c02Entry{"bw", 'b', bytesOf(func() ([]byte, error) { return bson.Marshal(handWrapper{G: g}) })})
	}
	return es
}

func scribble(b []byte) {
	b = b[:cap(b)]
	for i := range b {
		b[i] = '#'
	}
}

// decoders of an item's kind on `data`: the printed decoded value before and after the input is overwritten
type c02Decoder struct {
	name  string
	codec byte
	run   func(data []byte) func() string // decodes; the returned func prints the decoded value
}

func (it c02Item) decoders() []c02Decoder {
	um := func(j bool, data []byte, dst interface{}) error {
		if j {
			return json.Unmarshal(data, dst)
		}
		return bson.Unmarshal(data, dst)
	}
	errOr := func(err error, f func() string) func() string {
		if err != nil {
			s := seqErrOutcome(err)
			return func() string { return s }
		}
		return f
	}
	switch it.kind {
	case "G", "H":
		return []c02Decoder{
			{"ug", 'j', func(d []byte) func() string {
				g, err := geojson.UnmarshalGeometry(d)
				return errOr(err, func() string { return geometryOutcome(g, nil) })
			}},
			{"up", 'j', func(d []byte) func() string {
				var g *geojson.Geometry
				err := json.Unmarshal(d, &g)
				return errOr(err, func() string { return geometryOutcome(g, nil) })
			}},
			{"um", 'j', func(d []byte) func() string {
				g := &geojson.Geometry{}
				err := g.UnmarshalJSON(d)
				return errOr(err, func() string { return geometryOutcome(g, nil) })
			}},
			{"ub", 'b', func(d []byte) func() string {
				g := &geojson.Geometry{}
				err := bson.Unmarshal(d, g)
				return errOr(err, func() string { return geometryOutcome(g, nil) })
			}},
			{"uB", 'b', func(d []byte) func() string {
				g := &geojson.Geometry{}
				err := g.UnmarshalBSON(d)
				return errOr(err, func() string { return geometryOutcome(g, nil) })
			}},
		}
	case "F":
		return []c02Decoder{
			{"uf", 'j', func(d []byte) func() string {
				f, err := geojson.UnmarshalFeature(d)
				return errOr(err, func() string { return featureTok(f) })
			}},
			{"up", 'j', func(d []byte) func() string {
				var f *geojson.Feature
				err := json.Unmarshal(d, &f)
				return errOr(err, func() string { return featureTok(f) })
			}},
			{"ub", 'b', func(d []byte) func() string {
				f := &geojson.Feature{}
				err := bson.Unmarshal(d, f)
				return errOr(err, func() string { return featureTok(f) })
			}},
			{"uB", 'b', func(d []byte) func() string {
				f := &geojson.Feature{}
				err := f.UnmarshalBSON(d)
				return errOr(err, func() string { return featureTok(f) })
			}},
		}
	case "C":
		return []c02Decoder{
			{"uf", 'j', func(d []byte) func() string {
				fc, err := geojson.UnmarshalFeatureCollection(d)
				return errOr(err, func() string { return fcTok(fc) })
			}},
			{"up", 'j', func(d []byte) func() string {
				var fc *geojson.FeatureCollection
				err := json.Unmarshal(d, &fc)
				return errOr(err, func() string { return fcTok(fc) })
			}},
			{"ub", 'b', func(d []byte) func() string {
				fc := &geojson.FeatureCollection{}
				err := bson.Unmarshal(d, fc)
				return errOr(err, func() string { return fcTok(fc) })
			}},
			{"uB", 'b', func(d []byte) func() string {
				fc := &geojson.FeatureCollection{}
				err := fc.UnmarshalBSON(d)
				return errOr(err, func() string { return fcTok(fc) })
			}},
		}
	}
	t := reflect.TypeOf(it.tv)
	typed := func(j bool) func(d []byte) func() string {
		return func(d []byte) func() string {
			p := reflect.New(t)
			err := um(j, d, p.Interface())
			return errOr(err, func() string { return seqOutcome(p.Interface()) })
		}
	}
	return []c02Decoder{{"ut", 'j', typed(true)}, {"ub", 'b', typed(false)}}
}

// c02OwnOp: see the head of the file.
func c02OwnOp(in []string) string {
	r := &tokReader{t: in}
	var items []c02Item
	for r.i < len(in) {
		it, ok := r.item()
		if !ok {
			return "badinput"
		}
		items = append(items, it)
	}
	if len(items) == 0 || len(items) > 4 {
		return "badinput"
	}
	type kept struct {
		res   c02Result
		saved []byte
		tree  string
		panic bool
	}
	type itemState struct {
		es    []c02Entry
		kept  []kept
		again []bool
		in    []string
	}
	st := make([]*itemState, len(items))
	call := func(e c02Entry) (res c02Result, panicked bool) {
		defer func() {
			if recover() != nil {
				res, panicked = c02Result{}, true
			}
		}()
		return e.call(), false
	}
	// phase 1
	for i, it := range items {
		s := &itemState{es: it.entries()}
		st[i] = s
		for _, e := range s.es {
			res, p := call(e)
			k := kept{res: res, panic: p}
			if p {
				k.tree = "panic"
			} else {
				k.tree = res.tree(e.codec)
				k.saved = append([]byte(nil), res.b...)
			}
			s.kept = append(s.kept, k)
		}
		// the decoders, each on a private copy of the first document of its codec; the copy is overwritten
		// after the call and the decoded value printed again
		for _, d := range it.decoders() {
			var src []byte
			for j, e := range s.es {
				if e.codec == d.codec && !s.kept[j].panic && s.kept[j].res.err == nil && !s.kept[j].res.isVal {
					src = s.kept[j].saved
					break
				}
			}
			flag := "-"
			if src != nil {
				flag = guard(func() string {
					data := append(make([]byte, 0, len(src)+8), src...)
					show := d.run(data)
					before := show()
					scribble(data)
					if show() == before {
						return "1"
					}
					return "0"
				})
			}
			s.in = append(s.in, d.name+" "+flag)
		}
	}
	// phase 2: nothing written into an earlier result
	keptOK := make([][]bool, len(items))
	for i, s := range st {
		keptOK[i] = make([]bool, len(s.kept))
		for j, k := range s.kept {
			keptOK[i][j] = k.panic || bytes.Equal(k.res.b, k.saved)
		}
	}
	// phase 3: the caller does what it likes with what it was given
	for _, s := range st {
		for _, k := range s.kept {
			if !k.panic {
				scribble(k.res.b)
			}
		}
	}
	// phase 4: all calls again
	var later []kept
	for _, s := range st {
		for j, e := range s.es {
			res, p := call(e)
			k := s.kept[j]
			same := p == k.panic
			if same && !p {
				same = (res.err != nil) == (k.res.err != nil) && res.isVal == k.res.isVal && res.t == k.res.t
				if same && res.err == nil && !bytes.Equal(res.b, k.saved) {
					// bson writes Go maps in iteration order: compare the documents
					same = e.codec == 'b' && !res.isVal && bsonSame(res.b, k.saved, nil) == "same"
				}
			}
			s.again = append(s.again, same)
			if !p {
				later = append(later, kept{res: res, saved: append([]byte(nil), res.b...)})
				scribble(res.b)
			}
		}
	}
	// phase 5: write the bytes back, the first result last
	for i := len(later) - 1; i >= 0; i-- {
		copy(later[i].res.b[:len(later[i].saved)], later[i].saved)
	}
	for i := len(st) - 1; i >= 0; i-- {
		for j := len(st[i].kept) - 1; j >= 0; j-- {
			if k := st[i].kept[j]; !k.panic {
				copy(k.res.b[:len(k.saved)], k.saved)
			}
		}
	}
	// outcome
	outs := make([]string, 0, len(items))
	for i, s := range st {
		ref := map[byte]string{}
		for j, e := range s.es {
			if _, ok := ref[e.codec]; !ok {
				ref[e.codec] = s.kept[j].tree
			}
		}
		flags := make([]string, 0, len(s.es))
		for j, e := range s.es {
			k := s.kept[j]
			t := "x"
			switch {
			case k.panic:
				t = "p"
			case k.res.err != nil:
				t = "e"
			case k.res.isVal && k.res.t == bsontype.Null:
				t = "n"
			case e.name == "bw":
				if k.tree == "o 1 "+xs("g")+" "+ref['b'] || (k.tree == "o 1 "+xs("g")+" n") {
					t = "="
					if k.tree == "o 1 "+xs("g")+" n" && ref['b'] != "n" {
						t = "n"
					}
				}
			case k.tree == ref[e.codec]:
				t = "="
			case e.codec == 'b' && sortedTreeTok(k.tree) == sortedTreeTok(ref['b']):
				t = "="
			}
			flags = append(flags, e.name+" "+t+" "+b2s(keptOK[i][j])+" "+b2s(s.again[j]))
		}
		outs = append(outs, ref['j']+" ; "+ref['b']+" ; "+strings.Join(flags, " ")+" ; in "+strings.Join(s.in, " "))
	}
	return strings.Join(outs, " || ")
}

// sortedTreeTok: the tokens of a tree with every object's members sorted (bson writes Go maps in
// iteration order); the input unchanged when it is not a tree
func sortedTreeTok(tok string) (out string) {
	defer func() {
		if recover() != nil {
			out = tok
		}
	}()
	f := strings.Fields(tok)
	if len(f) == 0 {
		return tok
	}
	r := &tokReader{t: f}
	n := r.tree()
	if r.i != len(f) {
		return tok
	}
	return n.sorted().tokens()
}

// ---------------------------------------------------------------------------------------------
// val: every form a value can be held in

var c02ValForms = []string{"p", "v", "tp", "tv", "tva", "sp", "sv", "mp", "mv", "ip", "iv", "av", "ava"}

// c02FormValue builds the Go value handed to the marshaller for a form, and says how to find the
// item's document in the result: the path ("g", "0", "k" steps)
func c02FormValue(p interface{}, form string, codec byte) (interface{}, []string) {
	pv := reflect.ValueOf(p) // *T
	vv := pv.Elem()          // T (addressable, but handed over by value where the form says so)
	pt, vt := pv.Type(), vv.Type()
	str := reflect.TypeOf("")
	iface := reflect.TypeOf((*interface{})(nil)).Elem()
	structOf := func(t reflect.Type, x reflect.Value) reflect.Value { // an addressable struct{G t}
		s := reflect.New(seqWrapField(t)).Elem()
		s.Field(0).Set(x)
		return s
	}
	var inner reflect.Value
	var path []string
	byPtr := false
	switch form {
	case "p":
		return p, nil
	case "v":
		return vv.Interface(), nil
	case "tp":
		return structOf(pt, pv).Interface(), []string{"g"}
	case "tv":
		return structOf(vt, vv).Interface(), []string{"g"}
	case "tva":
		return structOf(vt, vv).Addr().Interface(), []string{"g"}
	case "ip":
		return structOf(iface, pv).Interface(), []string{"g"}
	case "iv":
		return structOf(iface, reflect.ValueOf(vv.Interface())).Interface(), []string{"g"}
	case "sp":
		inner = reflect.MakeSlice(reflect.SliceOf(pt), 1, 1)
		inner.Index(0).Set(pv)
		path = []string{"0"}
	case "sv":
		inner = reflect.MakeSlice(reflect.SliceOf(vt), 1, 1)
		inner.Index(0).Set(vv)
		path = []string{"0"}
	case "mp":
		inner = reflect.MakeMap(reflect.MapOf(str, pt))
		inner.SetMapIndex(reflect.ValueOf("k"), pv)
		path = []string{"k"}
	case "mv":
		inner = reflect.MakeMap(reflect.MapOf(str, vt))
		inner.SetMapIndex(reflect.ValueOf("k"), vv)
		path = []string{"k"}
	case "av", "ava":
		a := reflect.New(reflect.ArrayOf(1, vt)).Elem()
		a.Index(0).Set(vv)
		inner = a
		path = []string{"0"}
		byPtr = form == "ava"
	default:
		panic("bad form " + form)
	}
	if codec == 'b' { // a bson top level is a document
		s := structOf(inner.Type(), inner)
		if byPtr {
			return s.Addr().Interface(), append([]string{"g"}, path...)
		}
		return s.Interface(), append([]string{"g"}, path...)
	}
	if byPtr {
		ap := reflect.New(inner.Type())
		ap.Elem().Set(inner)
		return ap.Interface(), path
	}
	return inner.Interface(), path
}

func (n *jnode) at(path []string) *jnode {
	for _, s := range path {
		if n == nil {
			return nil
		}
		switch n.k {
		case 'o':
			i, ok := n.member(s)
			if !ok || len(n.keys) != 1 {
				return nil
			}
			n = n.vals[i]
		case 'a':
			if s != "0" || len(n.arr) != 1 {
				return nil
			}
			n = n.arr[0]
		default:
			return nil
		}
	}
	return n
}

func c02ValOp(in []string) string {
	r := &tokReader{t: in}
	it, ok := r.item()
	if !ok || r.i != len(in) {
		return "badinput"
	}
	p := it.ptr()
	type fres struct{ flag, tree string }
	one := func(codec byte, form string) fres {
		var out fres
		out.flag = guard(func() string {
			v, path := c02FormValue(p, form, codec)
			var b []byte
			var err error
			var n *jnode
			var ok bool
			if codec == 'j' {
				b, err = json.Marshal(v)
				if err == nil {
					n, ok = parseJSONTree(b)
				}
			} else {
				b, err = bson.Marshal(v)
				if err == nil {
					n, ok = bsonTree(b)
				}
			}
			if err != nil {
				out.tree = "merr"
				return "e"
			}
			if !ok {
				out.tree = "unparsable"
				return "x"
			}
			if n = n.at(path); n == nil {
				out.tree = "unparsable"
				return "x"
			}
			out.tree = n.tokens()
			return "="
		})
		if out.flag == "panic" {
			out.flag, out.tree = "p", "panic"
		}
		return out
	}
	jtop, btop, bmem := one('j', "p"), one('b', "p"), one('b', "tp")
	parts := []string{jtop.tree, btop.tree, bmem.tree}
	var flags []string
	diff := ""
	for _, codec := range []byte{'j', 'b'} {
		for _, form := range c02ValForms {
			ref := jtop
			if codec == 'b' {
				ref = bmem
				if form == "p" || form == "v" {
					ref = btop
				}
			}
			x := one(codec, form)
			fl := x.flag
			if fl == "=" && x.tree != ref.tree && !(codec == 'b' && sortedTreeTok(x.tree) == sortedTreeTok(ref.tree)) {
				fl = "x"
			}
			if fl != "=" && x.flag == ref.flag && x.tree == ref.tree {
				fl = "=" // the reference form fails the same way
			}
			name := string(codec) + form
			flags = append(flags, name+" "+fl)
			if fl != "=" && diff == "" {
				diff = "D " + name + " " + x.tree
			}
		}
	}
	parts = append(parts, strings.Join(flags, " "))
	if diff != "" {
		parts = append(parts, diff)
	}
	return strings.Join(parts, " ; ")
}

// ---------------------------------------------------------------------------------------------
// generators

func c02GenItem(c *Ctx) string {
	r := c.Rng
	switch r.Intn(10) {
	case 0, 1:
		return "G " + gsN(c02GenGeom(c, true))
	case 2:
		o := c02GeomOpts(c, false)
		o.MaxDepth = 0
		for i := 0; ; i++ {
			g := genGeom(r, o, 0)
			if c02TypedValue(g) != nil {
				return "T " + gsN(g)
			}
			if i > 50 {
				return "T " + gsN(orb.Point{1, 2})
			}
		}
	case 3, 4, 5:
		return c02GenFeature(c)
	case 6, 7, 8:
		return c02GenFC(c)
	default:
		return c02GenHand(c, 0)
	}
}

// the values the fixed families of `own` / `val` / `hook` run over
func c02WBFixedItems() []string {
	pt := gsN(orb.Point{1, 2})
	ls := gsN(orb.LineString{{1, 2}, {3.5, 4.25}})
	return []string{
		"G " + gsN(orb.Collection{}), "G nil", "G " + gsN(orb.Collection(nil)), "G " + pt, "G " + ls,
		"G " + gsN(orb.Collection{orb.Point{1, 2}, orb.Collection{orb.LineString{{1, 2}, {3, 4}}}}),
		"G " + gsN(orb.Ring{{0, 0}, {1, 0}, {1, 1}, {0, 0}}), "G " + gsN(orb.Bound{Min: orb.Point{0, 0}, Max: orb.Point{1, 1}}),
		"G " + gsN(orb.MultiPoint{}), "G " + gsN(orb.Polygon(nil)),
		"T " + pt, "T " + gsN(orb.MultiPoint{{1, 2}, {3, 4}}), "T " + ls, "T " + gsN(orb.MultiLineString{{{1, 2}, {3, 4}}}),
		"T " + gsN(orb.Polygon{{{0, 0}, {1, 0}, {0, 0}}}), "T " + gsN(orb.MultiPolygon{{{{0, 0}, {1, 0}, {0, 0}}}}),
		"T " + gsN(orb.MultiPoint(nil)), "T " + gsN(orb.Polygon{}),
		"F - - nil -", "F - - " + gsN(orb.Collection{}) + " -", "F s " + xs("a") + " b 4 " + fb(0) + " " + fb(0) + " " + fb(3) + " " + fb(3) + " " + ls + " o 1 " + xs("k") + " s " + xs("v"),
		"F i 0 - " + pt + " -", "F s " + xs("") + " - " + pt + " o 0", "F " + xs("X") + " d " + fb(1.5) + " - " + pt + " -",
		"FC - - -", "FC - l 0 -", "FC " + xs("") + " - l 1 F - - " + pt + " - -",
		"FC b 4 " + fb(0) + " " + fb(0) + " " + fb(3) + " " + fb(3) + " l 1 F - - " + pt + " - o 1 " + xs("name") + " s " + xs("demo"),
		"FC - l 3 F - - nil - N F s " + xs("a") + " - " + gsN(orb.Collection{}) + " - o 2 " + xs("a") + " a 1 d " + fb(1) + " " + xs("b") + " o 1 " + xs("c") + " n",
		"H " + xs("Point") + " " + pt + " -", "H " + xs("") + " nil -", "H " + xs("GeometryCollection") + " nil l 0",
		"H " + xs("GeometryCollection") + " nil l 2 H " + xs("Point") + " " + pt + " - H " + xs("") + " nil -",
		"H " + xs("Polygon") + " " + gsN(orb.Ring{{0, 0}, {1, 0}, {0, 0}}) + " -", "H " + xs("X") + " " + gsN(orb.Collection{}) + " -",
	}
}

// c02HookInput: the input of a sub-op for an item (G -> geom, T -> typed, F -> feat, FC -> fc, H -> hand)
func c02HookInput(item string) string {
	switch {
	case strings.HasPrefix(item, "G "):
		return "geom " + item[2:]
	case strings.HasPrefix(item, "T "):
		return "typed " + item[2:]
	case strings.HasPrefix(item, "FC "):
		return "fc " + item
	case strings.HasPrefix(item, "F "):
		return "feat " + item
	}
	return "hand " + item
}

func genC02WBFixed(c *Ctx) {
	items := c02WBFixedItems()
	for _, it := range items {
		c.Case("hook", c02HookInput(it))
		c.Case("val", it)
		c.Case("own", it)
		c.Case("own", it+" "+it) // the same value twice
		// features / collections of the list (ids "" and 0, a Type field that is not written, nil pointers
		// among the features) through the plain ops as well
		if strings.HasPrefix(it, "FC ") {
			c.Case("fc", it)
		} else if strings.HasPrefix(it, "F ") {
			c.Case("feat", it)
		}
	}
	// every ordered pair of a small set: an empty geometry / a bare feature first and second
	small := []string{items[0], items[3], "T " + gsN(orb.Point{1, 2}), "F - - nil -", "FC - l 1 F - - nil - -", "H " + xs("") + " nil -"}
	for _, a := range small {
		for _, b := range small {
			c.Case("own", a+" "+b)
		}
	}
	// the values of the round-1 fixed family under the hooks
	for _, g := range append(append([]orb.Geometry{}, orb.AllGeometries...),
		orb.Collection{orb.Collection{}}, orb.Collection{orb.MultiPoint(nil)}, orb.Polygon{nil}, orb.Collection{nil}) {
		c.Case("hook", "geom "+gsN(g))
		c.Case("hook", "typed "+gsN(g))
		c.Case("hook", "feat F - - "+gsN(g)+" -")
		c.Case("hook", "fc FC - l 1 F - - "+gsN(g)+" - -")
	}
}

// genC02WB: the random share (called once per budget unit with its index)
func genC02WB(c *Ctx, k int) {
	r := c.Rng
	switch k % 8 {
	case 1:
		c.Case("hook", c02HookInput(c02GenItem(c)))
	case 3:
		c.Case("val", c02GenItem(c))
	case 5:
		n := 1 + r.Intn(3)
		its := make([]string, n)
		for i := range its {
			its[i] = c02GenItem(c)
			if i > 0 && r.Intn(4) == 0 {
				its[i] = its[r.Intn(i)]
			}
		}
		c.Case("own", strings.Join(its, " "))
	case 7:
		if r.Intn(2) == 0 {
			s := c02GenSeq(c)
			if strings.HasPrefix(s, "json ") {
				c.Case("hook", "seq "+s)
			}
		}
	}
}
