package main

import (
	"math"
	"math/bits"
	"math/rand"
	"reflect"
	"runtime"
	"strconv"
	"strings"

	"github.com/paulmach/orb"
	"github.com/paulmach/orb/encoding/mvt"
	"github.com/paulmach/orb/geojson"
	"github.com/paulmach/orb/maptile"
	"github.com/paulmach/orb/project"
)

// C15 — project.WGS84/Mercator closed forms, project.Geometry, mvt Layer.ProjectToTile / ProjectToWGS84.
//
// Ops: consts, w2m, m2w, tile (Layer.ProjectToWGS84 then Layer.ProjectToTile; features may be nil or typed
// nil), tiles (Layers.ProjectToWGS84 then Layers.ProjectToTile, each layer with its own extent), totile,
// proj (call-counting affine point function), projh (slices that share backing arrays).
//
// Stateful receivers (white-box round): a trailing input token `w` / `wc` on tile / tiles / totile runs the
// measured calls on a layer VALUE that has already been used for other tiles and another extent (`wc`: on a
// struct copy of that used value); op seq drives three layer values and one Layers value through a
// sequence of (tile, extent) steps, every step measured; op abs compares Layer.ProjectToWGS84 of the tile's
// corners with maptile's Tile.Bound().  Sizes: projd runs the exported per-kind helper instead of
// project.Geometry; projn builds geometries of up to ~70000 vertices / members from a formula and returns a
// digest of the result (the Lean side rebuilds the input and digests model and specification).
//
// As for C18, libm values (sin log atan exp tan) travel with every case in a table "T n (fn arg value)*"
// recorded by mirrors of the closed forms; the implementation's outputs always come from the real orb code.

func init() { register(&Prop{ID: "C15", Run: runC15, Gen: genC15}) }

const c15EarthRadiusPi = orb.EarthRadius * math.Pi

func (t *trigRec) log(x float64) float64  { v := math.Log(x); t.add("l", v, x); return v }
func (t *trigRec) atan(x float64) float64 { v := math.Atan(x); t.add("a", v, x); return v }
func (t *trigRec) exp(x float64) float64  { v := math.Exp(x); t.add("e", v, x); return v }
func (t *trigRec) tan(x float64) float64  { v := math.Tan(x); t.add("t", v, x); return v }

// mirrors (only their libm arguments matter)

func (t *trigRec) toMercator(g orb.Point) orb.Point {
	y := t.log(t.tan((90.0+g[1])*math.Pi/360.0)) * orb.EarthRadius
	return orb.Point{c15EarthRadiusPi / 180.0 * g[0], math.Max(-c15EarthRadiusPi, math.Min(y, c15EarthRadiusPi))}
}

func (t *trigRec) toWGS84(p orb.Point) orb.Point {
	return orb.Point{180.0 * p[0] / c15EarthRadiusPi, 180.0 / math.Pi * (2*t.atan(t.exp(p[1]/orb.EarthRadius)) - math.Pi/2.0)}
}

func (t *trigRec) toPlanar(lng, lat float64, level uint32) (x, y float64) {
	maxtiles := float64(uint64(1 << level))
	x = (lng/360.0 + 0.5) * maxtiles
	siny := t.sin(lat * math.Pi / 180.0)
	if siny < -0.9999 {
		y = 0
	} else if siny > 0.9999 {
		y = maxtiles - 1
	} else {
		lat = 0.5 + 0.5*t.log((1.0+siny)/(1.0-siny))/(-2*math.Pi)
		y = lat * maxtiles
	}
	return
}

func (t *trigRec) toGeo(x, y float64, level uint32) (lng, lat float64) {
	maxtiles := float64(uint64(1 << level))
	lng = 360.0 * (x/maxtiles - 0.5)
	lat = 2.0*t.atan(t.exp(math.Pi-(2*math.Pi)*(y/maxtiles)))*(180.0/math.Pi) - 90.0
	return lng, lat
}

// tileMirror records the libm arguments of newProjection(tile, extent).ToWGS84 / ToTile.
type tileMirror struct {
	t      *trigRec
	pow2   bool
	z      uint32
	minx   float64
	miny   float64
	extent float64
}

func newTileMirror(t *trigRec, tile maptile.Tile, extent uint32) *tileMirror {
	if extent&(extent-1) == 0 {
		n := uint32(bits.TrailingZeros32(extent))
		return &tileMirror{t: t, pow2: true, z: uint32(tile.Z) + n, minx: float64(uint64(tile.X) << n), miny: float64(uint64(tile.Y) << n)}
	}
	return &tileMirror{t: t, z: uint32(tile.Z), minx: float64(tile.X), miny: float64(tile.Y), extent: float64(extent)}
}

func (m *tileMirror) toWGS84(p orb.Point) {
	if m.pow2 {
		m.t.toGeo(p[0]+m.minx+0.5, p[1]+m.miny+0.5, m.z)
	} else {
		m.t.toGeo(((p[0]+0.5)/m.extent)+m.minx, ((p[1]+0.5)/m.extent)+m.miny, m.z)
	}
}
func (m *tileMirror) toTile(p orb.Point) { m.t.toPlanar(p[0], p[1], m.z) }

// eachVertexVal visits every vertex incl. Point and Bound values (Min, then Max).
func eachVertexVal(g orb.Geometry, f func(orb.Point)) {
	switch g := g.(type) {
	case orb.Point:
		f(g)
	case orb.Bound:
		f(g.Min)
		f(g.Max)
	case orb.Collection:
		for _, m := range g {
			eachVertexVal(m, f)
		}
	default:
		forEachVertex(g, func(p *orb.Point) { f(*p) })
	}
}

func isSliceKind(g orb.Geometry) bool {
	switch g.(type) {
	case orb.Point, orb.Bound, nil:
		return false
	}
	return true
}

func runC15(op string, in []string) string {
	return guard(func() string {
		r := &tokReader{t: in}
		t := newRec()
		switch op {
		case "consts":
			var twoPi float64 = 2 * math.Pi
			var piHalf float64 = math.Pi / 2.0
			var d180pi float64 = 180.0 / math.Pi
			var rPi float64 = c15EarthRadiusPi
			var rPi180 float64 = c15EarthRadiusPi / 180.0
			var c9999 float64 = 0.9999
			return strings.Join([]string{fb(math.Pi), fb(twoPi), fb(piHalf), fb(d180pi), fb(orb.EarthRadius), fb(rPi), fb(rPi180), fb(c9999),
				strconv.Itoa(int(mvt.DefaultExtent))}, " ")
		case "shape": // the fields of mvt.Layer: the model's layer is (extent, features); a field the model does not know is state it cannot follow
			ty := reflect.TypeOf(mvt.Layer{})
			var fs []string
			for i := 0; i < ty.NumField(); i++ {
				fs = append(fs, ty.Field(i).Name+":"+strings.ReplaceAll(ty.Field(i).Type.String(), " ", ""))
			}
			return "Layer " + strconv.Itoa(len(fs)) + " " + strings.Join(fs, " ") + " Layers " + strings.ReplaceAll(reflect.TypeOf(mvt.Layers{}).Elem().String(), " ", "")
		case "w2m": // lon/lat -> mercator -> lon/lat
			g := r.pt()
			m := project.WGS84.ToMercator(g)
			g2 := project.Mercator.ToWGS84(m)
			t.toMercator(g)
			t.toWGS84(m)
			return sp(m) + " " + sp(g2) + " " + t.String()
		case "m2w": // mercator -> lon/lat -> mercator
			m := r.pt()
			g := project.Mercator.ToWGS84(m)
			m2 := project.WGS84.ToMercator(g)
			t.toWGS84(m)
			t.toMercator(g)
			return sp(g) + " " + sp(m2) + " " + t.String()
		case "tile": // X Y Z extent k geom* : Layer.ProjectToWGS84 then Layer.ProjectToTile
			x, y, z, extent := uint32(r.int()), uint32(r.int()), r.int(), uint32(r.int())
			k := r.int()
			tile := maptile.New(x, y, maptile.Zoom(z))
			layer := &mvt.Layer{Name: "l", Version: 2, Extent: extent}
			for i := 0; i < k; i++ {
				layer.Features = append(layer.Features, geojson.NewFeature(r.geom()))
			}
			mir := newTileMirror(t, tile, extent)
			for _, f := range layer.Features {
				eachVertexVal(f.Geometry, mir.toWGS84)
			}
			layer = c15Warm(layer, r, x, y, z)
			layer.ProjectToWGS84(tile)
			var sb strings.Builder
			for _, f := range layer.Features {
				sb.WriteString(gs(f.Geometry) + " ")
				eachVertexVal(f.Geometry, mir.toTile)
			}
			layer.ProjectToTile(tile)
			for _, f := range layer.Features {
				sb.WriteString(gs(f.Geometry) + " ")
			}
			return sb.String() + t.String()
		case "totile": // X Y Z extent geom : Layer.ProjectToTile of a lon/lat geometry
			x, y, z, extent := uint32(r.int()), uint32(r.int()), r.int(), uint32(r.int())
			tile := maptile.New(x, y, maptile.Zoom(z))
			layer := &mvt.Layer{Name: "l", Version: 2, Extent: extent, Features: []*geojson.Feature{geojson.NewFeature(r.geom())}}
			mir := newTileMirror(t, tile, extent)
			eachVertexVal(layer.Features[0].Geometry, mir.toTile)
			layer = c15Warm(layer, r, x, y, z)
			layer.ProjectToTile(tile)
			return gs(layer.Features[0].Geometry) + " " + t.String()
		case "tiles": // X Y Z n (extent k geom*)^n : Layers.ProjectToWGS84 then Layers.ProjectToTile
			x, y, z := uint32(r.int()), uint32(r.int()), r.int()
			tile := maptile.New(x, y, maptile.Zoom(z))
			n := r.int()
			var layers mvt.Layers
			var mirs []*tileMirror
			for j := 0; j < n; j++ {
				extent := uint32(r.int())
				k := r.int()
				layer := &mvt.Layer{Name: "l" + strconv.Itoa(j), Version: 2, Extent: extent}
				for i := 0; i < k; i++ {
					layer.Features = append(layer.Features, geojson.NewFeature(r.geom()))
				}
				layers = append(layers, layer)
				mirs = append(mirs, newTileMirror(t, tile, extent))
			}
			for j, l := range layers {
				for _, f := range l.Features {
					eachVertexVal(f.Geometry, mirs[j].toWGS84)
				}
			}
			if w := r.rest(); len(w) > 0 && (w[0] == "w" || w[0] == "wc" || w[0] == "wn" || w[0] == "n") {
				for j := range layers {
					layers[j] = c15WarmTok(layers[j], w[0], x, y, z)
				}
			}
			if w := r.rest(); len(w) > 0 && (w[0] == "w" || w[0] == "wc" || w[0] == "wn") {
				// every layer value and the Layers value itself have been used for other tiles before
				saved := make([][]*geojson.Feature, len(layers))
				for j, l := range layers {
					saved[j], l.Features = l.Features, []*geojson.Feature{geojson.NewFeature(orb.Point{3, 4})}
				}
				layers.ProjectToWGS84(maptile.New(x+1, y^1, maptile.Zoom(z)))
				layers.ProjectToTile(maptile.New(x^2, y+1, maptile.Zoom(z)))
				for j, l := range layers {
					l.Features = saved[j]
				}
				if w[0] == "wc" {
					layers = append(mvt.Layers{}, layers...)
				}
			}
			layers.ProjectToWGS84(tile)
			var sb strings.Builder
			for j, l := range layers {
				for _, f := range l.Features {
					sb.WriteString(gs(f.Geometry) + " ")
					eachVertexVal(f.Geometry, mirs[j].toTile)
				}
			}
			layers.ProjectToTile(tile)
			for _, l := range layers {
				for _, f := range l.Features {
					sb.WriteString(gs(f.Geometry) + " ")
				}
			}
			return sb.String() + t.String()
		case "proj", "projd": // a b c d e f g h geom : project.Geometry (projd: the exported helper of the kind) with the k-th call computing an affine map shifted by k
			var co [8]float64
			for i := range co {
				co[i] = r.f()
			}
			g := r.geom()
			calls := 0
			fn := func(p orb.Point) orb.Point {
				k := float64(calls)
				calls++
				return orb.Point{co[0]*p[0] + co[1]*p[1] + co[2] + k*co[3], co[4]*p[0] + co[5]*p[1] + co[6] + k*co[7]}
			}
			var res orb.Geometry
			if op == "projd" {
				res = c15ProjectDirect(g, fn)
			} else {
				res = project.Geometry(g, fn)
			}
			alias := "v"
			if isSliceKind(g) {
				// in place: the argument now holds the projected values AND the result is the very same slice
				// (same first element, same length) - an identity map cannot pass by value equality alone;
				// cell-level aliasing, spare capacity and nested headers are judged by the op projh
				va, vr := reflect.ValueOf(g), reflect.ValueOf(res)
				alias = b2s(gs(g) == gs(res) && va.Type() == vr.Type() && va.Pointer() == vr.Pointer() && va.Len() == vr.Len())
			}
			return gs(res) + " " + strconv.Itoa(calls) + " " + alias
		case "projh": // a b c d e f <heap> <sgeom> : project.Geometry on slices that share backing arrays (lean/Orb/HeapOps.lean)
			var co [6]float64
			for i := range co {
				co[i] = r.f()
			}
			arrays := rdHeap(r)
			g := rdSGeom(r, arrays)
			fn := func(p orb.Point) orb.Point {
				return orb.Point{co[0]*p[0] + co[1]*p[1] + co[2], co[3]*p[0] + co[4]*p[1] + co[5]}
			}
			res := project.Geometry(g, fn)
			// every backing array afterwards, the returned value and the argument, each slice located by pointer
			return heapString(arrays) + " " + locString(res, arrays) + " " + locString(g, arrays)
		case "projn": // via kind n bigAt bigN bigKind procs a..h : a geometry built by formula (c15BigGeom), digest of the result
			via, kind := r.next(), r.next()
			n, bigAt, bigN, bigKind, procs := r.int(), r.int(), r.int(), r.int(), r.int()
			var co [8]float64
			for i := range co {
				co[i] = r.f()
			}
			g := c15BigGeom(kind, n, bigAt, bigN, bigKind)
			calls := 0
			fn := func(p orb.Point) orb.Point {
				k := float64(calls)
				calls++
				return orb.Point{co[0]*p[0] + co[1]*p[1] + co[2] + k*co[3], co[4]*p[0] + co[5]*p[1] + co[6] + k*co[7]}
			}
			if procs > 0 {
				defer runtime.GOMAXPROCS(runtime.GOMAXPROCS(procs))
			}
			var res orb.Geometry
			if via == "D" {
				res = c15ProjectDirect(g, fn)
			} else {
				res = project.Geometry(g, fn)
			}
			alias := "v"
			if isSliceKind(g) {
				va, vr := reflect.ValueOf(g), reflect.ValueOf(res)
				alias = b2s(va.Type() == vr.Type() && va.Pointer() == vr.Pointer() && va.Len() == vr.Len() && c15Digest(g) == c15Digest(res))
			}
			return strconv.FormatUint(c15Digest(res), 16) + " " + strconv.Itoa(calls) + " " + alias
		case "abs": // X Y Z extent MP 4 corners/pixels : Layer.ProjectToWGS84 of the tile's corners next to maptile's Tile.Bound()
			x, y, z, extent := uint32(r.int()), uint32(r.int()), r.int(), uint32(r.int())
			tile := maptile.New(x, y, maptile.Zoom(z))
			layer := &mvt.Layer{Name: "l", Version: 2, Extent: extent, Features: []*geojson.Feature{geojson.NewFeature(r.geom())}}
			mir := newTileMirror(t, tile, extent)
			eachVertexVal(layer.Features[0].Geometry, mir.toWGS84)
			layer = c15Warm(layer, r, x, y, z)
			layer.ProjectToWGS84(tile)
			return gs(layer.Features[0].Geometry) + " " + gs(tile.Bound()) + " " + t.String()
		case "seq": // n (X Y Z extent a b flags k geom*)^n : three layer values and one Layers value driven through a sequence of steps
			n := r.int()
			slots := []*mvt.Layer{{Name: "a", Version: 2}, {Name: "b", Version: 2}, mvt.NewLayer("c", &geojson.FeatureCollection{})}
			all := mvt.Layers{slots[0], slots[1], slots[2]}
			var sb strings.Builder
			for s := 0; s < n; s++ {
				x, y, z, extent := uint32(r.int()), uint32(r.int()), r.int(), uint32(r.int())
				a, b, flags, k := r.int()%3, r.int()%3, r.int(), r.int()
				tile := maptile.New(x, y, maptile.Zoom(z))
				if flags&1 != 0 { // a struct copy of the used layer value takes its place
					cp := *slots[a]
					slots[a], all[a] = &cp, &cp
				}
				if flags&4 != 0 { // a copy of the used Layers value
					all = append(mvt.Layers{}, all...)
				}
				la, lb := slots[a], slots[b]
				la.Extent, la.Features = extent, nil
				for i := 0; i < k; i++ {
					la.Features = append(la.Features, geojson.NewFeature(r.geom()))
				}
				mir := newTileMirror(t, tile, extent)
				for _, f := range la.Features {
					eachVertexVal(f.Geometry, mir.toWGS84)
				}
				if flags&2 != 0 {
					all.ProjectToWGS84(tile)
				} else {
					la.ProjectToWGS84(tile)
				}
				for _, f := range la.Features {
					sb.WriteString(gs(f.Geometry) + " ")
					eachVertexVal(f.Geometry, mir.toTile)
				}
				if b != a { // the way back on ANOTHER layer value (as after Marshal / Unmarshal)
					lb.Extent, lb.Features, la.Features = extent, la.Features, nil
				}
				if flags&2 != 0 {
					all.ProjectToTile(tile)
				} else {
					lb.ProjectToTile(tile)
				}
				for _, f := range lb.Features {
					sb.WriteString(gs(f.Geometry) + " ")
				}
				lb.Features = nil
			}
			return sb.String() + t.String()
		}
		return "badop"
	})
}

// c15ProjectDirect calls the exported helper of the geometry's kind (project.Geometry for the nil interface).
func c15ProjectDirect(g orb.Geometry, fn orb.Projection) orb.Geometry {
	switch g := g.(type) {
	case orb.Point:
		return project.Point(g, fn)
	case orb.MultiPoint:
		return project.MultiPoint(g, fn)
	case orb.LineString:
		return project.LineString(g, fn)
	case orb.MultiLineString:
		return project.MultiLineString(g, fn)
	case orb.Ring:
		return project.Ring(g, fn)
	case orb.Polygon:
		return project.Polygon(g, fn)
	case orb.MultiPolygon:
		return project.MultiPolygon(g, fn)
	case orb.Collection:
		return project.Collection(g, fn)
	case orb.Bound:
		return project.Bound(g, fn)
	}
	return project.Geometry(g, fn)
}

// c15WarmUp uses the layer value for other tiles and another extent (without and with features) before
// the measured calls: nothing of that may survive in the receiver.  With cp the measured calls run on a
// struct copy of the used value.
func c15WarmUp(l *mvt.Layer, x, y uint32, z int, cp bool) *mvt.Layer {
	fs, e := l.Features, l.Extent
	mk := func() []*geojson.Feature {
		return []*geojson.Feature{geojson.NewFeature(orb.Point{1, 2}), geojson.NewFeature(orb.LineString{{0, 0}, {3, 5}})}
	}
	l.Features = nil
	l.ProjectToWGS84(maptile.New(x^1, y, maptile.Zoom(z)))
	l.Features, l.Extent = mk(), e^7
	l.ProjectToTile(maptile.New(x, y^1, maptile.Zoom(z)))
	l.Features, l.Extent = mk(), e
	l.ProjectToWGS84(maptile.New(x+1, y+2, maptile.Zoom(z+1)))
	l.Features, l.Extent = mk(), 2*e+1
	l.ProjectToTile(maptile.New(x/2, y/2, maptile.Zoom(z/2)))
	l.ProjectToWGS84(maptile.New(x/2, y/2, maptile.Zoom(z/2)))
	l.Features, l.Extent = mk(), e
	l.ProjectToWGS84(maptile.New(x, y, maptile.Zoom(z+1))) // the same x, y at another zoom; x and y swapped
	l.ProjectToTile(maptile.New(y, x, maptile.Zoom(z)))
	l.Features, l.Extent = fs, e
	if cp {
		c := *l
		return &c
	}
	return l
}

// c15Warm: the trailing input token `w` (warm-up on the same value), `wc` (then a struct copy), `n` (the
// layer is built by mvt.NewLayer instead of a struct literal), `wn` (built by NewLayer, then warmed up).
func c15Warm(l *mvt.Layer, r *tokReader, x, y uint32, z int) *mvt.Layer {
	w := r.rest()
	if len(w) == 0 {
		return l
	}
	return c15WarmTok(l, w[0], x, y, z)
}

func c15WarmTok(l *mvt.Layer, tok string, x, y uint32, z int) *mvt.Layer {
	if tok == "n" || tok == "wn" {
		nl := mvt.NewLayer(l.Name, &geojson.FeatureCollection{Features: l.Features})
		nl.Version, nl.Extent = l.Version, l.Extent
		l = nl
	}
	if tok == "w" || tok == "wc" || tok == "wn" {
		return c15WarmUp(l, x, y, z, tok == "wc")
	}
	return l
}

// ---------- formula-built big geometries and their digest ----------

func c15BigPt(j int) orb.Point { return orb.Point{float64(j % 97), float64(j % 89)} }

// c15BigGeom: flat kinds (MP LS R) hold n points; MLS / PG hold n members of 1 + i%3 points; MPG holds n
// polygons of 1 + i%2 rings of 1 + (i+r)%3 points; C holds n members cycling P, LS(2), MP(1), B, R(3),
// PG(1 ring of 2).  Member bigAt (when bigN > 0) holds bigN points instead: a line / ring (first ring of
// the polygon) or, in a collection, a geometry of kind bigKind (0 MP, 1 LS, 2 R, 3 PG, 4 MLS, 5 MPG).
// The vertices are c15BigPt(0), c15BigPt(1), ... in storage order.
func c15BigGeom(kind string, n, bigAt, bigN, bigKind int) orb.Geometry {
	j := 0
	pts := func(k int) []orb.Point {
		ps := make([]orb.Point, k)
		for i := range ps {
			ps[i] = c15BigPt(j)
			j++
		}
		return ps
	}
	sz := func(i, d int) int {
		if i == bigAt && bigN > 0 {
			return bigN
		}
		return 1 + d%3
	}
	switch kind {
	case "MP":
		return orb.MultiPoint(pts(n))
	case "LS":
		return orb.LineString(pts(n))
	case "R":
		return orb.Ring(pts(n))
	case "MLS":
		m := make(orb.MultiLineString, n)
		for i := range m {
			m[i] = orb.LineString(pts(sz(i, i)))
		}
		return m
	case "PG":
		m := make(orb.Polygon, n)
		for i := range m {
			m[i] = orb.Ring(pts(sz(i, i)))
		}
		return m
	case "MPG":
		m := make(orb.MultiPolygon, n)
		for i := range m {
			pg := make(orb.Polygon, 1+i%2)
			for q := range pg {
				if q == 0 {
					pg[q] = orb.Ring(pts(sz(i, i)))
				} else {
					pg[q] = orb.Ring(pts(1 + (i+q)%3))
				}
			}
			m[i] = pg
		}
		return m
	case "C":
		c := make(orb.Collection, n)
		for i := range c {
			if i == bigAt && bigN > 0 {
				switch bigKind {
				case 0:
					c[i] = orb.MultiPoint(pts(bigN))
				case 1:
					c[i] = orb.LineString(pts(bigN))
				case 2:
					c[i] = orb.Ring(pts(bigN))
				case 3:
					c[i] = orb.Polygon{orb.Ring(pts(bigN))}
				case 4:
					c[i] = orb.MultiLineString{orb.LineString(pts(bigN))}
				default:
					c[i] = orb.MultiPolygon{orb.Polygon{orb.Ring(pts(bigN))}}
				}
				continue
			}
			switch i % 6 {
			case 0:
				c[i] = pts(1)[0]
			case 1:
				c[i] = orb.LineString(pts(2))
			case 2:
				c[i] = orb.MultiPoint(pts(1))
			case 3:
				ps := pts(2)
				c[i] = orb.Bound{Min: ps[0], Max: ps[1]}
			case 4:
				c[i] = orb.Ring(pts(3))
			default:
				c[i] = orb.Polygon{orb.Ring(pts(2))}
			}
		}
		return c
	}
	panic("bigGeom: kind")
}

// c15Digest: word-wise FNV-1a over kind codes, member counts and coordinate bit patterns (Driver.C15.digGeom).
func c15Digest(g orb.Geometry) uint64 {
	h := uint64(14695981039346656037)
	w := func(x uint64) { h = (h ^ x) * 1099511628211 }
	wp := func(p orb.Point) { w(math.Float64bits(p[0])); w(math.Float64bits(p[1])) }
	wps := func(ps []orb.Point) {
		w(uint64(len(ps)))
		for _, p := range ps {
			wp(p)
		}
	}
	var rec func(g orb.Geometry)
	rec = func(g orb.Geometry) {
		switch g := g.(type) {
		case orb.Point:
			w(1)
			wp(g)
		case orb.MultiPoint:
			w(2)
			wps(g)
		case orb.LineString:
			w(3)
			wps(g)
		case orb.MultiLineString:
			w(4)
			w(uint64(len(g)))
			for _, l := range g {
				wps(l)
			}
		case orb.Ring:
			w(5)
			wps(g)
		case orb.Polygon:
			w(6)
			w(uint64(len(g)))
			for _, l := range g {
				wps(l)
			}
		case orb.MultiPolygon:
			w(7)
			w(uint64(len(g)))
			for _, pg := range g {
				w(uint64(len(pg)))
				for _, l := range pg {
					wps(l)
				}
			}
		case orb.Bound:
			w(8)
			wp(g.Min)
			wp(g.Max)
		case orb.Collection:
			w(9)
			w(uint64(len(g)))
			for _, m := range g {
				rec(m)
			}
		default:
			w(0)
		}
	}
	rec(g)
	return h
}

// ---------- generators ----------

// tileGeom draws a geometry of any kind with integer coordinates in [-extent, 2*extent).
func tileGeom(r *rand.Rand, extent int, depth int) orb.Geometry {
	if extent == 0 {
		extent = 2 // extent 0 has no pixel range; it runs at zoom+32, where pixels of [-2, 4) are 2^-32 tiles wide
	}
	pt := func() orb.Point {
		c := func() float64 {
			switch r.Intn(8) {
			case 0:
				return float64([]int{-extent, 2*extent - 1, 0, extent - 1, extent, -1}[r.Intn(6)])
			case 1:
				return float64(r.Intn(extent))
			}
			return float64(r.Intn(3*extent) - extent)
		}
		return orb.Point{c(), c()}
	}
	pts := func(max int) []orb.Point {
		n := size(r, max)
		ps := make([]orb.Point, n)
		for i := range ps {
			ps[i] = pt()
		}
		return ps
	}
	rings := func() orb.Polygon {
		n := size(r, 3)
		p := make(orb.Polygon, n)
		for i := range p {
			p[i] = orb.Ring(pts(5))
		}
		return p
	}
	k := r.Intn(9)
	if k == 8 && depth >= 2 {
		k = r.Intn(8)
	}
	switch k {
	case 0:
		return pt()
	case 1:
		return orb.MultiPoint(pts(6))
	case 2:
		return orb.LineString(pts(6))
	case 3:
		n := size(r, 3)
		m := make(orb.MultiLineString, n)
		for i := range m {
			m[i] = orb.LineString(pts(4))
		}
		return m
	case 4:
		return orb.Ring(pts(6))
	case 5:
		return rings()
	case 6:
		n := size(r, 3)
		m := make(orb.MultiPolygon, n)
		for i := range m {
			m[i] = rings()
		}
		return m
	case 7:
		a, b := pt(), pt()
		if a[0] > b[0] {
			a[0], b[0] = b[0], a[0]
		}
		if a[1] > b[1] {
			a[1], b[1] = b[1], a[1]
		}
		return orb.Bound{Min: a, Max: b}
	default:
		n := size(r, 3)
		c := make(orb.Collection, n)
		for i := range c {
			c[i] = tileGeom(r, extent, depth+1)
		}
		return c
	}
}

var pow2Extents = []int{256, 512, 1024, 2048, 4096, 8192}
var otherExtents = []int{1000, 100, 4095, 4097, 3000, 10, 777, 5000, 6, 3}

// extents outside the quantifier's list, for the lines of newProjection that the listed ones never
// reach: isPowerOfTwo(0) (n = 32), small powers of two, powers of two from 16384 up to 2^31, and
// non-powers of two up to MaxUint32 (beyond zoom + log2(extent) = 44 the round trip is twin-only)
var edgeExtents = []int{0, 1, 2, 4, 8, 16, 32, 64, 128, 16384, 32768, 65536, 1 << 20, 1 << 24, 1 << 31,
	5, 7, 9, 255, 257, 8191, 16383, 20000, 65535, 1000003, 1<<31 + 1, 1<<32 - 1}

// featTok draws one feature geometry token string; now and then the nil interface or a typed nil slice
func featTok(r *rand.Rand, extent int) string {
	if r.Intn(12) == 0 {
		return []string{"nil", "nMP", "nLS", "nMLS", "nR", "nPG", "nMPG", "nC"}[r.Intn(8)]
	}
	return gs(tileGeom(r, extent, 0))
}

// edgePixels: the corners of the pixel range [-extent, 2*extent) and two interior pixels
func edgePixels(e int) orb.MultiPoint {
	if e == 0 {
		return orb.MultiPoint{{-1, -1}, {0, 0}, {1, 2}, {3, 3}}
	}
	if e == 1 {
		return orb.MultiPoint{{-1, -1}, {0, 0}, {1, 1}, {0, 1}, {1, -1}}
	}
	f := float64(e)
	return orb.MultiPoint{{-f, -f}, {0, 0}, {f - 1, f - 1}, {2*f - 1, 2*f - 1}, {math.Floor(f / 2), math.Floor(f / 3)}, {-1, f}}
}

func randTile(r *rand.Rand) (x, y uint32, z int) {
	z = r.Intn(23)
	n := uint32(1) << uint(z)
	pick := func() uint32 {
		switch r.Intn(5) {
		case 0:
			return 0
		case 1:
			return n - 1
		case 2:
			return n / 2
		}
		return uint32(r.Int63n(int64(n)))
	}
	return pick(), pick(), z
}

func tileHdr(x, y uint32, z, extent int) string {
	return strconv.Itoa(int(x)) + " " + strconv.Itoa(int(y)) + " " + strconv.Itoa(z) + " " + strconv.Itoa(extent)
}

// diagScan emits the diagonal pixels (i, i), i in [-extent, 2*extent), in chunks: every value of each axis once.
func diagScan(c *Ctx, x, y uint32, z, extent, chunk int) {
	for lo := -extent; lo < 2*extent; lo += chunk {
		mp := orb.MultiPoint{}
		for i := lo; i < lo+chunk && i < 2*extent; i++ {
			mp = append(mp, orb.Point{float64(i), float64(i)})
		}
		c.Case("tile", tileHdr(x, y, z, extent)+" 1 "+gs(mp)+c15WarmSuffix[(lo/chunk+3*extent)%5])
	}
}

// c15WarmSuffix: measured calls on a fresh layer value / on a used one / on a struct copy of a used one
var c15WarmSuffix = []string{"", " w", " wc", " n", " wn"}

// c15AbsCase: the tile's corners (pixel -0.5 and extent-0.5: exactly the corners of Tile.Bound()) and the
// pixels (0,0) and (extent, extent) through Layer.ProjectToWGS84
func c15AbsCase(c *Ctx, x, y uint32, z, extent int, suffix string) {
	e := float64(extent)
	if extent == 0 {
		e = 4294967296
	}
	c.Case("abs", tileHdr(x, y, z, extent)+" "+gs(orb.MultiPoint{{-0.5, -0.5}, {e - 0.5, e - 0.5}, {0, 0}, {e, e}})+suffix)
}

// bigSizes: the lengths around every power of two from 64 to 65536 and a few primes
func c15BigSizes(tier string) []int {
	var out []int
	for k := 6; k <= 16; k++ {
		if tier == "thorough" || k < 14 {
			out = append(out, 1<<uint(k)-1, 1<<uint(k))
		}
		out = append(out, 1<<uint(k)+1)
	}
	out = append(out, 1000, 5003, 10007, 70001)
	if tier == "thorough" {
		out = append(out, 50021, 100003, 131071)
	}
	return out
}

var c15BigCoeffs = [][8]float64{{2, 0, 1, 1, 0, 3, -1, 2}, {1, 0, 0, 1, 0, 1, 0, 100}, {0, -1, 5, -3, 1, 0, 0, 7}}

func c15CoeffTok(co [8]float64) string {
	t := make([]string, 8)
	for i, v := range co {
		t[i] = fb(v)
	}
	return strings.Join(t, " ")
}

// genBig: every exported helper of project/helpers.go on slices whose OWN length sweeps bigSizes (points of a
// MultiPoint / LineString / Ring; rings of a Polygon; lines of a MultiLineString; polygons of a
// MultiPolygon; members of a Collection) and on containers one of whose members is that long, through
// project.Geometry (G) and called directly (D), with the call-counting point function.
func c15GenBig(c *Ctx) {
	idx := 5000
	emit := func(op, in string) {
		idx++
		if c.Mine(idx) && !c.Exhausted() {
			c.Case(op, in)
		}
	}
	// explicit geometries (the whole result travels): small part of the family
	for i, n := range []int{63, 64, 65, 1023, 1025, 4095, 4096, 4097, 5003} {
		ps := make([]orb.Point, n)
		for j := range ps {
			ps[j] = orb.Point{float64(j % 97), float64(j % 89)}
		}
		cl := func() []orb.Point { return append([]orb.Point{}, ps...) }
		co := c15CoeffTok(c15BigCoeffs[i%len(c15BigCoeffs)])
		for _, g := range []orb.Geometry{orb.MultiPoint(cl()), orb.LineString(cl()), orb.Ring(cl()), orb.Polygon{orb.Ring(append(cl(), ps[0]))},
			orb.MultiLineString{{{1, 2}}, orb.LineString(cl())}, orb.MultiPolygon{{orb.Ring(cl()), {{3, 4}}}}, orb.Collection{orb.Point{5, 6}, orb.LineString(cl())}} {
			emit("proj", co+" "+gs(g))
			emit("projd", co+" "+gs(g))
		}
	}
	// formula-built geometries (digest of the result)
	sizes := c15BigSizes(c.Tier)
	for i, n := range sizes {
		co := c15CoeffTok(c15BigCoeffs[i%len(c15BigCoeffs)])
		for _, via := range []string{"G", "D"} {
			hdr := func(kind string, n, bigAt, bigN, bigKind, procs int) string {
				return via + " " + kind + " " + strconv.Itoa(n) + " " + strconv.Itoa(bigAt) + " " + strconv.Itoa(bigN) + " " + strconv.Itoa(bigKind) + " " + strconv.Itoa(procs) + " " + co
			}
			for _, kind := range []string{"MP", "LS", "R"} {
				emit("projn", hdr(kind, n, 0, 0, 0, 0))
				if n >= 4095 { // a parallel path would depend on GOMAXPROCS
					emit("projn", hdr(kind, n, 0, 0, 0, 3+i%2))
				}
			}
			// the container's own slice is that long
			if c.Tier == "thorough" || n <= 8193 || n == 65537 || n == 70001 {
				for _, kind := range []string{"MLS", "PG", "MPG", "C"} {
					emit("projn", hdr(kind, n, 0, 0, 0, 0))
				}
			}
			// one member of a small container is that long (first, middle or last member)
			for _, kind := range []string{"MLS", "PG", "MPG"} {
				emit("projn", hdr(kind, 3, i%3, n, 0, 0))
			}
			emit("projn", hdr("C", 4+i%5, i%4, n, i%6, 0))
			if n >= 4095 {
				emit("projn", hdr("C", 4+i%5, (i+1)%4, n, (i+3)%6, 4-i%2))
			}
		}
	}
}

// c15GenLayerSizes: layers of many features, features of many vertices, Layers of many layers
func c15GenLayerSizes(c *Ctx) {
	idx := 9000
	mine := func() bool { idx++; return c.Mine(idx) && !c.Exhausted() }
	tiles := [][4]int{{1, 1, 2, 4096}, {300, 700, 10, 1000}, {2097157, 1048653, 22, 512}}
	ks := []int{63, 64, 65, 257, 1025, 4097}
	ns := []int{1023, 1025, 4095, 4096, 4097, 5003}
	nl := []int{17, 65, 257, 1025}
	if c.Tier == "thorough" {
		ks, ns, nl = append(ks, 16385), append(ns, 16385, 65537), append(nl, 4097)
	}
	for ti, tl := range tiles {
		e := tl[3]
		px := func(i int) orb.Point { return orb.Point{float64(i%(3*e) - e), float64((7*i)%(3*e) - e)} }
		for i, k := range ks {
			if !mine() {
				continue
			}
			var sb strings.Builder
			for j := 0; j < k; j++ {
				sb.WriteString(" " + gs(px(j)))
			}
			c.Case("tile", tileHdr(uint32(tl[0]), uint32(tl[1]), tl[2], e)+" "+strconv.Itoa(k)+sb.String()+c15WarmSuffix[(i+ti)%5])
		}
		for i, n := range ns {
			if !mine() {
				continue
			}
			ps := make([]orb.Point, n)
			for j := range ps {
				ps[j] = px(j)
			}
			var g orb.Geometry = orb.LineString(ps)
			switch (i + ti) % 3 {
			case 1:
				g = orb.Polygon{orb.Ring(ps)}
			case 2:
				g = orb.Collection{orb.MultiPoint(ps), orb.Point{1, 2}}
			}
			c.Case("tile", tileHdr(uint32(tl[0]), uint32(tl[1]), tl[2], e)+" 1 "+gs(g)+c15WarmSuffix[(i+ti+1)%5])
		}
		for i, n := range nl {
			if !mine() {
				continue
			}
			var sb strings.Builder
			exts := []int{4096, 512, 1000, 256, 4096, 777, 8192}
			for j := 0; j < n; j++ {
				ee := exts[j%len(exts)]
				sb.WriteString(" " + strconv.Itoa(ee) + " 1 " + gs(orb.Point{float64(j % ee), float64((3 * j) % ee)}))
			}
			c.Case("tiles", strconv.Itoa(tl[0])+" "+strconv.Itoa(tl[1])+" "+strconv.Itoa(tl[2])+" "+strconv.Itoa(n)+sb.String()+c15WarmSuffix[(i+ti)%5])
		}
	}
}

// c15SeqStep: one step of op seq
func c15SeqStep(x, y uint32, z, extent, a, b, flags int, feats ...orb.Geometry) string {
	var sb strings.Builder
	sb.WriteString(" " + tileHdr(x, y, z, extent) + " " + strconv.Itoa(a) + " " + strconv.Itoa(b) + " " + strconv.Itoa(flags) + " " + strconv.Itoa(len(feats)))
	for _, f := range feats {
		sb.WriteString(" " + gs(f))
	}
	return sb.String()
}

// c15InTileGeom: pixels inside the tile only (no buffer): op seq stays clear of the polar clamp of zoom 0 and 1
func c15InTileGeom(r *rand.Rand, extent int) orb.Geometry {
	if extent == 0 {
		extent = 2
	}
	n := 1 + r.Intn(4)
	ps := make([]orb.Point, n)
	for i := range ps {
		ps[i] = orb.Point{float64(r.Intn(extent)), float64(r.Intn(extent))}
	}
	if r.Intn(2) == 0 {
		return orb.LineString(ps)
	}
	return orb.MultiPoint(ps)
}

func c15AnyExtent(r *rand.Rand) int {
	switch r.Intn(8) {
	case 0, 1:
		return otherExtents[r.Intn(len(otherExtents))]
	case 2:
		return edgeExtents[r.Intn(len(edgeExtents))]
	}
	return pow2Extents[r.Intn(len(pow2Extents))]
}

// c15GenSeq: 2-6 steps over a pool of 1-3 tiles and 1-3 extents (so that tiles repeat with other extents and
// extents with other tiles, A B A), each step on one of three layer values, the way back on the same or on
// another value, now and then through the Layers value or on struct copies; steps without features are
// pure warm-ups.
func c15GenSeq(c *Ctx) {
	r := c.Rng
	type tl struct {
		x, y uint32
		z    int
	}
	var pool []tl
	x, y, z := randTile(r)
	pool = append(pool, tl{x, y, z})
	for len(pool) < 1+r.Intn(3) {
		nb := r.Intn(6)
		if z == 0 {
			nb = 5 // zoom 0 has one tile
		}
		switch nb {
		case 0: // a neighbour
			pool = append(pool, tl{x ^ 1, y, z})
		case 1:
			pool = append(pool, tl{x, y ^ 1, z})
		case 2: // x and y swapped
			pool = append(pool, tl{y, x, z})
		case 3: // the same x, y one zoom deeper (or the parent)
			if z < 22 {
				pool = append(pool, tl{x, y, z + 1})
			} else {
				pool = append(pool, tl{x / 2, y / 2, z - 1})
			}
		case 4: // a child
			if z < 22 {
				pool = append(pool, tl{2*x + 1, 2 * y, z + 1})
			} else {
				pool = append(pool, tl{x / 2, y / 2, z - 1})
			}
		default:
			x2, y2, z2 := randTile(r)
			pool = append(pool, tl{x2, y2, z2})
		}
	}
	exts := []int{c15AnyExtent(r)}
	for len(exts) < 1+r.Intn(3) {
		exts = append(exts, c15AnyExtent(r))
	}
	n := 2 + r.Intn(5)
	var sb strings.Builder
	for s := 0; s < n; s++ {
		t := pool[r.Intn(len(pool))]
		e := exts[r.Intn(len(exts))]
		a := r.Intn(3)
		b := a
		if r.Intn(3) == 0 {
			b = r.Intn(3)
		}
		flags := 0
		if r.Intn(5) == 0 {
			flags |= 1
		}
		if r.Intn(4) == 0 {
			flags |= 2
		}
		if r.Intn(8) == 0 {
			flags |= 4
		}
		var feats []orb.Geometry
		for i := r.Intn(3); i > 0; i-- {
			if t.z <= 1 {
				feats = append(feats, c15InTileGeom(r, e))
			} else {
				feats = append(feats, tileGeom(r, e, 1))
			}
		}
		sb.WriteString(c15SeqStep(t.x, t.y, t.z, e, a, b, flags, feats...))
	}
	c.Case("seq", strconv.Itoa(n)+sb.String())
}

func genC15(c *Ctx) {
	r := c.Rng
	if c.Shard == 0 {
		c.Case("consts", "")
		c.Case("shape", "")
		// a small pixel grid in both storage orders: equal x with different y and the reverse, back to back
		for i, e := range []int{4096, 256, 1000, 777, 0, 1, 8192} {
			for j, tl := range [][3]int{{1, 1, 2}, {300, 700, 10}, {2097157, 1048653, 22}} {
				vs := []float64{0, 1, -2, 3, 2} // extent 0: see tileGeom
				if e > 0 {
					vs = []float64{0, float64(e - 1), float64(-e), float64(2*e - 1), float64(7 % e)}
				}
				var g1, g2 orb.MultiPoint
				for _, a := range vs {
					for _, b := range vs {
						g1 = append(g1, orb.Point{a, b})
						g2 = append(g2, orb.Point{b, a})
					}
				}
				c.Case("tile", tileHdr(uint32(tl[0]), uint32(tl[1]), tl[2], e)+" 2 "+gs(g1)+" "+gs(orb.LineString(g2))+c15WarmSuffix[(i+j)%5])
			}
		}
		// the package's own test: tile centre
		c.Case("tile", "1 1 2 4096 1 P "+fb(2048)+" "+fb(2048))
		for _, g := range orb.AllGeometries {
			c.Case("proj", strings.Join([]string{fb(2), fb(0), fb(1), fb(0), fb(0), fb(3), fb(-1), fb(0)}, " ")+" "+gs(g))
			c.Case("proj", strings.Join([]string{fb(1), fb(0), fb(0), fb(1), fb(0), fb(1), fb(0), fb(100)}, " ")+" "+gs(g))
		}
		// heap level: the same ring twice in a polygon; a line and its own sub-slice in a collection;
		// two lines whose ranges overlap in the middle of one buffer
		aff := strings.Join([]string{fb(2), fb(0), fb(1), fb(0), fb(3), fb(-1)}, " ")
		sq := "5 " + spts([]orb.Point{{0, 0}, {1, 0}, {1, 1}, {0, 1}, {0, 0}})[2:]
		c.Case("projh", aff+" 1 "+sq+" PG 2 0 0 5 5 0 0 5 5")
		c.Case("projh", aff+" 1 "+sq+" C 2 LS 0 0 5 5 LS 0 1 2 4")
		c.Case("projh", aff+" 1 "+sq+" C 3 LS 0 0 3 5 P "+fb(1)+" "+fb(2)+" LS 0 2 3 3")
		c.Case("projh", aff+" 2 "+sq+" 0 MPG 2 1 0 0 5 5 2 0 0 5 5 1 0 0 0")
		for _, s := range []string{"nil", "nMP", "nLS", "nMLS", "nR", "nPG", "nMPG", "nC"} {
			c.Case("proj", strings.Join([]string{fb(1), fb(0), fb(0), fb(1), fb(0), fb(1), fb(0), fb(1)}, " ")+" "+s)
		}
		for _, p := range []orb.Point{{0, 0}, {180, 85.05}, {-180, -85.05}, {180, 0}, {0, 85.05}, {0, -85.05}, {-122.4, 37.8}} {
			c.Case("w2m", sp(p))
			c.Case("m2w", sp(project.WGS84.ToMercator(p)))
		}
		// WGS84.ToMercator's clamp to +-earthRadiusPi (projections.go:29): active from 85.0511288 on; log(tan(0)) = -Inf
		// at -90; NaN beyond +-90 (twin only: outside the quantifier)
		for _, lat := range []float64{90, -90, 85.06, -85.06, 89.9, -89.9, 85.0511, 85.0512, -85.0511, -85.0512, 91, -91, 180, -180} {
			for _, lon := range []float64{0, 180, -122.4} {
				c.Case("w2m", sp(orb.Point{lon, lat}))
			}
		}
		// Mercator.ToWGS84 outside the square |x|, |y| <= R*pi (the way back clamps y): twin only
		for _, m := range []orb.Point{{0, 21000000}, {0, -21000000}, {c15EarthRadiusPi, c15EarthRadiusPi}, {-c15EarthRadiusPi, -c15EarthRadiusPi},
			{2.1e7, 0}, {-2.1e7, 5}, {0, 1e9}, {0, -1e9}, {0, math.Nextafter(c15EarthRadiusPi, 1e9)}} {
			c.Case("m2w", sp(m))
		}
		// newProjection on every edge extent x four tiles (zoom 0, 2, 10, 22)
		for _, e := range edgeExtents {
			for _, tl := range [][3]int{{0, 0, 0}, {1, 1, 2}, {300, 700, 10}, {2097157, 1048653, 22}} {
				c.Case("tile", tileHdr(uint32(tl[0]), uint32(tl[1]), tl[2], e)+" 1 "+gs(edgePixels(e)))
			}
		}
		// level = zoom + log2(extent) >= 64: `1 << level` wraps to 0, maxtiles = 0 (twin only: zoom > 22)
		for _, h := range []string{"0 0 40 16777216", "5 7 63 2", "0 0 33 2147483648", "3 1 64 1000", "0 0 100 256", "1 2 32 0", "1 2 31 0", "9 9 62 1"} {
			c.Case("tile", h+" 1 "+gs(orb.MultiPoint{{0, 0}, {1, 2}, {-1, 5}}))
		}
		// nil and typed-nil feature geometries; Layers of several extents
		c.Case("tile", "1 1 2 4096 3 nil P "+fb(2048)+" "+fb(2048)+" nLS")
		c.Case("tile", "1 1 2 1000 2 nC nil")
		c.Case("tiles", "1 1 2 0")
		c.Case("tiles", "1 1 2 1 4096 0")
		c.Case("tiles", "1 1 2 3 4096 1 P "+fb(2048)+" "+fb(2048)+" 1000 2 "+gs(orb.LineString{{0, 0}, {999, 999}, {-1000, 1999}})+" nil 0 1 "+gs(orb.MultiPoint{{0, 0}, {1, 2}}))
		c.Case("tiles", "300 700 10 2 512 1 "+gs(orb.Bound{Min: orb.Point{-512, 0}, Max: orb.Point{1023, 511}})+" 777 1 "+gs(orb.Polygon{{{0, 0}, {776, 0}, {776, 776}, {0, 0}}}))
		// project.Bound with an overflowing point function: math.Min / math.Max propagate the NaN
		c.Case("proj", strings.Join([]string{fb(2), fb(-2), fb(0), fb(0), fb(0), fb(1), fb(0), fb(0)}, " ")+" "+gs(orb.Bound{Min: orb.Point{1.7e308, 1.7e308}, Max: orb.Point{1, 5}}))
		c.Case("proj", strings.Join([]string{fb(2), fb(-2), fb(0), fb(0), fb(0), fb(1), fb(0), fb(0)}, " ")+" "+gs(orb.Bound{Min: orb.Point{1, 5}, Max: orb.Point{1.7e308, 1.7e308}}))
		c.Case("proj", strings.Join([]string{fb(2), fb(-2), fb(0), fb(0), fb(2), fb(-2), fb(0), fb(0)}, " ")+" "+gs(orb.Collection{orb.Bound{Min: orb.Point{-1.7e308, 1.7e308}, Max: orb.Point{1.7e308, -1.7e308}}, orb.Bound{Min: orb.Point{0, 0}, Max: orb.Point{math.Copysign(0, -1), math.Copysign(0, -1)}}}))
	}
	if c.Shard == c.Shards-1 {
		// absolute position: the corners of the tile on every listed extent x tiles of zoom 0 .. 22 (among them
		// x, y >= 2^20 at zoom 22, where (x << n) leaves 32 bits)
		for i, e := range append(append(append([]int{}, pow2Extents...), otherExtents...), edgeExtents...) {
			for j, tl := range [][3]int{{0, 0, 0}, {1, 0, 1}, {1, 1, 2}, {300, 700, 10}, {2097157, 1048653, 22}, {4194303, 4194303, 22}, {0, 2097152, 22}, {1048576, 1048575, 21}, {40000, 25000, 16}} {
				c15AbsCase(c, uint32(tl[0]), uint32(tl[1]), tl[2], e, c15WarmSuffix[(i+j)%5])
			}
		}
		// one layer value, two tiles: the way out on the used value, the way back on another value (and on the same)
		p00 := orb.Point{0, 0}
		ls := orb.LineString{{0, 0}, {4095, 4095}, {-4096, 8191}}
		c.Case("seq", "2"+c15SeqStep(1, 1, 2, 4096, 0, 0, 0, p00)+c15SeqStep(2, 1, 2, 4096, 0, 1, 0, p00))
		c.Case("seq", "2"+c15SeqStep(1, 1, 2, 4096, 0, 0, 0, p00)+c15SeqStep(2, 1, 2, 4096, 0, 0, 0, p00))
		c.Case("seq", "3"+c15SeqStep(1, 1, 2, 4096, 0, 0, 0)+c15SeqStep(300, 700, 10, 4096, 0, 1, 0, ls)+c15SeqStep(1, 1, 2, 4096, 1, 0, 0, ls))
		c.Case("seq", "3"+c15SeqStep(300, 700, 10, 4096, 1, 1, 0, ls)+c15SeqStep(300, 700, 10, 512, 1, 2, 0, p00)+c15SeqStep(300, 700, 10, 1000, 1, 0, 0, ls))
		c.Case("seq", "3"+c15SeqStep(5, 9, 4, 256, 2, 2, 2, p00)+c15SeqStep(6, 9, 4, 256, 2, 0, 2, p00)+c15SeqStep(5, 9, 4, 1000, 0, 2, 6, p00))
		c.Case("seq", "3"+c15SeqStep(5, 9, 4, 256, 2, 2, 0, p00)+c15SeqStep(6, 9, 4, 256, 2, 2, 1, p00)+c15SeqStep(7, 9, 4, 100, 2, 1, 1, p00))
		c.Case("seq", "4"+c15SeqStep(0, 0, 0, 4096, 0, 0, 0, p00)+c15SeqStep(1, 0, 1, 4096, 0, 1, 0, p00)+c15SeqStep(0, 1, 1, 1000, 1, 0, 0, p00)+c15SeqStep(0, 0, 0, 1000, 0, 0, 3, p00))
	}
	c15GenBig(c)
	c15GenLayerSizes(c)
	// exhaustive per-axis scans of sampled tiles: every pixel coordinate in [-extent, 2*extent) on both axes
	idx := 0
	scanTiles := [][3]int{{1, 1, 2}, {300, 700, 10}, {2097157, 1048653, 22}}
	scanExt := []int{256, 1000}
	if c.Tier == "thorough" {
		scanTiles = append(scanTiles, [3]int{0, 0, 0}, [3]int{1, 0, 1}, [3]int{17, 9, 5}, [3]int{40000, 25000, 16}, [3]int{(1 << 22) - 1, (1 << 22) - 1, 22}, [3]int{0, 1 << 21, 22})
		scanExt = append(append([]int{}, pow2Extents...), otherExtents...)
	}
	for _, st := range scanTiles {
		for _, e := range scanExt {
			idx++
			if c.Mine(idx) {
				diagScan(c, uint32(st[0]), uint32(st[1]), st[2], e, 128)
			}
		}
	}
	for k := 0; k < c.Budget && !c.Exhausted(); k++ {
		// mercator closed forms
		g := orb.Point{r.Float64()*360 - 180, r.Float64()*170.1 - 85.05}
		switch r.Intn(8) {
		case 0:
			g = orb.Point{float64(r.Intn(361) - 180), float64(r.Intn(171) - 85)}
		case 1:
			g = orb.Point{[]float64{180, -180, 0}[r.Intn(3)], []float64{85.05, -85.05, 0, 85, -85}[r.Intn(5)]}
		case 2:
			g[1] = (r.Float64()*2 - 1) * 1e-6
		}
		if r.Intn(16) == 0 { // beyond the mercator range: the clamp (twin only)
			g[1] = []float64{85.0511, 85.0512, 85.06, 86, 89, 89.9, 90}[r.Intn(7)] + r.Float64()*1e-3*float64(r.Intn(2))
			if r.Intn(2) == 0 {
				g[1] = -g[1]
			}
		}
		c.Case("w2m", sp(g))
		m := orb.Point{(r.Float64()*2 - 1) * c15EarthRadiusPi, (r.Float64()*2 - 1) * 19971868.0} // |y| up to lat 85.05
		if r.Intn(6) == 0 {
			m = project.WGS84.ToMercator(g)
		}
		c.Case("m2w", sp(m))

		// tile round trips
		x, y, z := randTile(r)
		extent := pow2Extents[r.Intn(len(pow2Extents))]
		if r.Intn(3) == 0 {
			extent = otherExtents[r.Intn(len(otherExtents))]
		}
		if r.Intn(16) == 0 {
			extent = edgeExtents[r.Intn(len(edgeExtents))]
		}
		nf := 1 + r.Intn(2)
		var sb strings.Builder
		for i := 0; i < nf; i++ {
			sb.WriteString(" " + featTok(r, extent))
		}
		c.Case("tile", tileHdr(x, y, z, extent)+" "+strconv.Itoa(nf)+sb.String()+c15WarmSuffix[r.Intn(5)])
		if k%4 == 1 {
			c15AbsCase(c, x, y, z, extent, c15WarmSuffix[r.Intn(5)])
		}
		if k%2 == 0 {
			c15GenSeq(c)
		}
		// Layers.ProjectToWGS84 / ProjectToTile: 0-3 layers, each with its own extent
		if k%8 == 0 {
			nl := r.Intn(4)
			var lb strings.Builder
			for j := 0; j < nl; j++ {
				e := pow2Extents[r.Intn(len(pow2Extents))]
				switch r.Intn(6) {
				case 0, 1:
					e = otherExtents[r.Intn(len(otherExtents))]
				case 2:
					e = edgeExtents[r.Intn(len(edgeExtents))]
				}
				nfj := r.Intn(3)
				lb.WriteString(" " + strconv.Itoa(e) + " " + strconv.Itoa(nfj))
				for i := 0; i < nfj; i++ {
					lb.WriteString(" " + featTok(r, e))
				}
			}
			c.Case("tiles", strconv.Itoa(int(x))+" "+strconv.Itoa(int(y))+" "+strconv.Itoa(z)+" "+strconv.Itoa(nl)+lb.String()+c15WarmSuffix[r.Intn(5)])
		}
		// lon/lat geometry to tile coordinates (twin only)
		if k%3 == 0 {
			c.Case("totile", tileHdr(x, y, z, extent)+" "+gs(geoGeomMerc(r))+c15WarmSuffix[r.Intn(5)])
		}

		// project.Geometry with a call-counting affine point function
		var co [8]string
		for i := range co {
			v := float64(r.Intn(7) - 3)
			if r.Intn(4) == 0 {
				v = float64(r.Intn(2001)-1000) / 8
			}
			co[i] = fb(v)
		}
		mode := []CoordMode{CoordSmallInt, CoordInt, CoordHalf, CoordFloat}[r.Intn(4)]
		pg := genGeom(r, GenOpts{Mode: mode, MaxPts: 5, MaxDepth: 3, TopNil: true}, 0)
		c.Case("proj", strings.Join(co[:], " ")+" "+gs(pg))
		c.Case("projd", strings.Join(co[:], " ")+" "+gs(pg)) // the exported helper of the kind, called directly
		if k%16 == 0 { // overflow: Inf - Inf = NaN inside the point function, then math.Min / math.Max of project.Bound
			h := func() float64 { return []float64{1.7e308, -1.7e308, 1, -3, 0, 9e307}[r.Intn(6)] }
			var og orb.Geometry = orb.Bound{Min: orb.Point{h(), h()}, Max: orb.Point{h(), h()}}
			if r.Intn(3) == 0 {
				og = orb.Collection{og, orb.MultiPoint{{h(), h()}, {h(), h()}}}
			}
			c.Case("proj", strings.Join(co[:], " ")+" "+gs(og))
			c.Case("projd", strings.Join(co[:], " ")+" "+gs(og))
		}

		// project.Geometry on geometries whose slices share backing arrays
		genProjH(c)
	}
}

var projHKinds = []string{"P", "B", "MP", "LS", "R", "MLS", "PG", "MPG", "C", "C", "C"}

// genProjH: heaps of small-integer / half-integer points, geometries of every kind whose slices are
// separate, packed sub-slices of one buffer, the same slice twice (the same ring twice in a polygon,
// a line and its own sub-slice in a collection), or arbitrary overlapping headers.
func genProjH(c *Ctx) {
	r := c.Rng
	mode := []CoordMode{CoordSmallInt, CoordHalf, CoordSmallInt, CoordModest}[r.Intn(4)]
	b := &heapBuilder{r: r,
		content: func(string) []orb.Point { return genPoints(r, mode, 5) },
		filler:  func() orb.Point { return genPoint(r, mode) }}
	var co [6]string
	for i := range co {
		v := float64(r.Intn(5) - 2)
		if r.Intn(4) == 0 {
			v = float64(r.Intn(33)-16) / 4
		}
		co[i] = fb(v)
	}
	c.Case("projh", strings.Join(co[:], " ")+" "+b.build(projHKinds, r.Intn(4)))
}

// geoGeomMerc draws a lon/lat geometry inside the mercator range.
func geoGeomMerc(r *rand.Rand) orb.Geometry {
	n := 1 + r.Intn(5)
	ps := make([]orb.Point, n)
	for i := range ps {
		ps[i] = orb.Point{r.Float64()*360 - 180, r.Float64()*170.1 - 85.05}
		if r.Intn(10) == 0 {
			ps[i][1] = []float64{89.5, -89.5, 89.1, -89.1, 90, -90}[r.Intn(6)] // beyond the clamp
		}
	}
	switch r.Intn(3) {
	case 0:
		return ps[0]
	case 1:
		return orb.LineString(ps)
	}
	return orb.MultiPoint(ps)
}
