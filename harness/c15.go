package main

import (
	"math"
	"math/bits"
	"math/rand"
	"reflect"
	"strconv"
	"strings"

	"github.com/paulmach/orb"
	"github.com/paulmach/orb/encoding/mvt"
	"github.com/paulmach/orb/geojson"
	"github.com/paulmach/orb/maptile"
	"github.com/paulmach/orb/project"
)

// C15 — project.WGS84/Mercator closed forms, project.Geometry, mvt Layer.ProjectToTile / ProjectToWGS84.
//
// Ops: consts, w2m, m2w, tile (Layer.ProjectToWGS84 then Layer.ProjectToTile; features may be nil or typed
// nil), tiles (Layers.ProjectToWGS84 then Layers.ProjectToTile, each layer with its own extent), totile,
// proj (call-counting affine point function), projh (slices that share backing arrays).
//
// As for C18, libm values (sin log atan exp tan) travel with every case in a table "T n (fn arg value)*"
// recorded by mirrors of the closed forms; the implementation's outputs always come from the real orb code.

func init() { register(&Prop{ID: "C15", Run: runC15, Gen: genC15}) }

const c15EarthRadiusPi = orb.EarthRadius * math.Pi

func (t *trigRec) log(x float64) float64  { v := math.Log(x); t.add("l", v, x); return v }
func (t *trigRec) atan(x float64) float64 { v := math.Atan(x); t.add("a", v, x); return v }
func (t *trigRec) exp(x float64) float64  { v := math.Exp(x); t.add("e", v, x); return v }
func (t *trigRec) tan(x float64) float64  { v := math.Tan(x); t.add("t", v, x); return v }

// mirrors (only their libm arguments matter)

func (t *trigRec) toMercator(g orb.Point) orb.Point {
	y := t.log(t.tan((90.0+g[1])*math.Pi/360.0)) * orb.EarthRadius
	return orb.Point{c15EarthRadiusPi / 180.0 * g[0], math.Max(-c15EarthRadiusPi, math.Min(y, c15EarthRadiusPi))}
}

func (t *trigRec) toWGS84(p orb.Point) orb.Point {
	return orb.Point{180.0 * p[0] / c15EarthRadiusPi, 180.0 / math.Pi * (2*t.atan(t.exp(p[1]/orb.EarthRadius)) - math.Pi/2.0)}
}

func (t *trigRec) toPlanar(lng, lat float64, level uint32) (x, y float64) {
	maxtiles := float64(uint64(1 << level))
	x = (lng/360.0 + 0.5) * maxtiles
	siny := t.sin(lat * math.Pi / 180.0)
	if siny < -0.9999 {
		y = 0
	} else if siny > 0.9999 {
		y = maxtiles - 1
	} else {
		lat = 0.5 + 0.5*t.log((1.0+siny)/(1.0-siny))/(-2*math.Pi)
		y = lat * maxtiles
	}
	return
}

func (t *trigRec) toGeo(x, y float64, level uint32) (lng, lat float64) {
	maxtiles := float64(uint64(1 << level))
	lng = 360.0 * (x/maxtiles - 0.5)
	lat = 2.0*t.atan(t.exp(math.Pi-(2*math.Pi)*(y/maxtiles)))*(180.0/math.Pi) - 90.0
	return lng, lat
}

// tileMirror records the libm arguments of newProjection(tile, extent).ToWGS84 / ToTile.
type tileMirror struct {
	t      *trigRec
	pow2   bool
	z      uint32
	minx   float64
	miny   float64
	extent float64
}

func newTileMirror(t *trigRec, tile maptile.Tile, extent uint32) *tileMirror {
	if extent&(extent-1) == 0 {
		n := uint32(bits.TrailingZeros32(extent))
		return &tileMirror{t: t, pow2: true, z: uint32(tile.Z) + n, minx: float64(uint64(tile.X) << n), miny: float64(uint64(tile.Y) << n)}
	}
	return &tileMirror{t: t, z: uint32(tile.Z), minx: float64(tile.X), miny: float64(tile.Y), extent: float64(extent)}
}

func (m *tileMirror) toWGS84(p orb.Point) {
	if m.pow2 {
		m.t.toGeo(p[0]+m.minx+0.5, p[1]+m.miny+0.5, m.z)
	} else {
		m.t.toGeo(((p[0]+0.5)/m.extent)+m.minx, ((p[1]+0.5)/m.extent)+m.miny, m.z)
	}
}
func (m *tileMirror) toTile(p orb.Point) { m.t.toPlanar(p[0], p[1], m.z) }

// eachVertexVal visits every vertex incl. Point and Bound values (Min, then Max).
func eachVertexVal(g orb.Geometry, f func(orb.Point)) {
	switch g := g.(type) {
	case orb.Point:
		f(g)
	case orb.Bound:
		f(g.Min)
		f(g.Max)
	case orb.Collection:
		for _, m := range g {
			eachVertexVal(m, f)
		}
	default:
		forEachVertex(g, func(p *orb.Point) { f(*p) })
	}
}

func isSliceKind(g orb.Geometry) bool {
	switch g.(type) {
	case orb.Point, orb.Bound, nil:
		return false
	}
	return true
}

func runC15(op string, in []string) string {
	return guard(func() string {
		r := &tokReader{t: in}
		t := newRec()
		switch op {
		case "consts":
			var twoPi float64 = 2 * math.Pi
			var piHalf float64 = math.Pi / 2.0
			var d180pi float64 = 180.0 / math.Pi
			var rPi float64 = c15EarthRadiusPi
			var rPi180 float64 = c15EarthRadiusPi / 180.0
			var c9999 float64 = 0.9999
			return strings.Join([]string{fb(math.Pi), fb(twoPi), fb(piHalf), fb(d180pi), fb(orb.EarthRadius), fb(rPi), fb(rPi180), fb(c9999),
				strconv.Itoa(int(mvt.DefaultExtent))}, " ")
		case "w2m": // lon/lat -> mercator -> lon/lat
			g := r.pt()
			m := project.WGS84.ToMercator(g)
			g2 := project.Mercator.ToWGS84(m)
			t.toMercator(g)
			t.toWGS84(m)
			return sp(m) + " " + sp(g2) + " " + t.String()
		case "m2w": // mercator -> lon/lat -> mercator
			m := r.pt()
			g := project.Mercator.ToWGS84(m)
			m2 := project.WGS84.ToMercator(g)
			t.toWGS84(m)
			t.toMercator(g)
			return sp(g) + " " + sp(m2) + " " + t.String()
		case "tile": // X Y Z extent k geom* : Layer.ProjectToWGS84 then Layer.ProjectToTile
			x, y, z, extent := uint32(r.int()), uint32(r.int()), r.int(), uint32(r.int())
			k := r.int()
			tile := maptile.New(x, y, maptile.Zoom(z))
			layer := &mvt.Layer{Name: "l", Version: 2, Extent: extent}
			for i := 0; i < k; i++ {
				layer.Features = append(layer.Features, geojson.NewFeature(r.geom()))
			}
			mir := newTileMirror(t, tile, extent)
			for _, f := range layer.Features {
				eachVertexVal(f.Geometry, mir.toWGS84)
			}
			layer.ProjectToWGS84(tile)
			var sb strings.Builder
			for _, f := range layer.Features {
				sb.WriteString(gs(f.Geometry) + " ")
				eachVertexVal(f.Geometry, mir.toTile)
			}
			layer.ProjectToTile(tile)
			for _, f := range layer.Features {
				sb.WriteString(gs(f.Geometry) + " ")
			}
			return sb.String() + t.String()
		case "totile": // X Y Z extent geom : Layer.ProjectToTile of a lon/lat geometry
			x, y, z, extent := uint32(r.int()), uint32(r.int()), r.int(), uint32(r.int())
			tile := maptile.New(x, y, maptile.Zoom(z))
			layer := &mvt.Layer{Name: "l", Version: 2, Extent: extent, Features: []*geojson.Feature{geojson.NewFeature(r.geom())}}
			mir := newTileMirror(t, tile, extent)
			eachVertexVal(layer.Features[0].Geometry, mir.toTile)
			layer.ProjectToTile(tile)
			return gs(layer.Features[0].Geometry) + " " + t.String()
		case "tiles": // X Y Z n (extent k geom*)^n : Layers.ProjectToWGS84 then Layers.ProjectToTile
			x, y, z := uint32(r.int()), uint32(r.int()), r.int()
			tile := maptile.New(x, y, maptile.Zoom(z))
			n := r.int()
			var layers mvt.Layers
			var mirs []*tileMirror
			for j := 0; j < n; j++ {
				extent := uint32(r.int())
				k := r.int()
				layer := &mvt.Layer{Name: "l" + strconv.Itoa(j), Version: 2, Extent: extent}
				for i := 0; i < k; i++ {
					layer.Features = append(layer.Features, geojson.NewFeature(r.geom()))
				}
				layers = append(layers, layer)
				mirs = append(mirs, newTileMirror(t, tile, extent))
			}
			for j, l := range layers {
				for _, f := range l.Features {
					eachVertexVal(f.Geometry, mirs[j].toWGS84)
				}
			}
			layers.ProjectToWGS84(tile)
			var sb strings.Builder
			for j, l := range layers {
				for _, f := range l.Features {
					sb.WriteString(gs(f.Geometry) + " ")
					eachVertexVal(f.Geometry, mirs[j].toTile)
				}
			}
			layers.ProjectToTile(tile)
			for _, l := range layers {
				for _, f := range l.Features {
					sb.WriteString(gs(f.Geometry) + " ")
				}
			}
			return sb.String() + t.String()
		case "proj": // a b c d e f g h geom : project.Geometry with the k-th call computing an affine map shifted by k
			var co [8]float64
			for i := range co {
				co[i] = r.f()
			}
			g := r.geom()
			calls := 0
			fn := func(p orb.Point) orb.Point {
				k := float64(calls)
				calls++
				return orb.Point{co[0]*p[0] + co[1]*p[1] + co[2] + k*co[3], co[4]*p[0] + co[5]*p[1] + co[6] + k*co[7]}
			}
			res := project.Geometry(g, fn)
			alias := "v"
			if isSliceKind(g) {
				// in place: the argument now holds the projected values AND the result is the very same slice
				// (same first element, same length) - an identity map cannot pass by value equality alone;
				// cell-level aliasing, spare capacity and nested headers are judged by the op projh
				va, vr := reflect.ValueOf(g), reflect.ValueOf(res)
				alias = b2s(gs(g) == gs(res) && va.Type() == vr.Type() && va.Pointer() == vr.Pointer() && va.Len() == vr.Len())
			}
			return gs(res) + " " + strconv.Itoa(calls) + " " + alias
		case "projh": // a b c d e f <heap> <sgeom> : project.Geometry on slices that share backing arrays (lean/Orb/HeapOps.lean)
			var co [6]float64
			for i := range co {
				co[i] = r.f()
			}
			arrays := rdHeap(r)
			g := rdSGeom(r, arrays)
			fn := func(p orb.Point) orb.Point {
				return orb.Point{co[0]*p[0] + co[1]*p[1] + co[2], co[3]*p[0] + co[4]*p[1] + co[5]}
			}
			res := project.Geometry(g, fn)
			// every backing array afterwards, the returned value and the argument, each slice located by pointer
			return heapString(arrays) + " " + locString(res, arrays) + " " + locString(g, arrays)
		}
		return "badop"
	})
}

// ---------- generators ----------

// tileGeom draws a geometry of any kind with integer coordinates in [-extent, 2*extent).
func tileGeom(r *rand.Rand, extent int, depth int) orb.Geometry {
	if extent == 0 {
		extent = 2 // extent 0 has no pixel range; it runs at zoom+32, where pixels of [-2, 4) are 2^-32 tiles wide
	}
	pt := func() orb.Point {
		c := func() float64 {
			switch r.Intn(8) {
			case 0:
				return float64([]int{-extent, 2*extent - 1, 0, extent - 1, extent, -1}[r.Intn(6)])
			case 1:
				return float64(r.Intn(extent))
			}
			return float64(r.Intn(3*extent) - extent)
		}
		return orb.Point{c(), c()}
	}
	pts := func(max int) []orb.Point {
		n := size(r, max)
		ps := make([]orb.Point, n)
		for i := range ps {
			ps[i] = pt()
		}
		return ps
	}
	rings := func() orb.Polygon {
		n := size(r, 3)
		p := make(orb.Polygon, n)
		for i := range p {
			p[i] = orb.Ring(pts(5))
		}
		return p
	}
	k := r.Intn(9)
	if k == 8 && depth >= 2 {
		k = r.Intn(8)
	}
	switch k {
	case 0:
		return pt()
	case 1:
		return orb.MultiPoint(pts(6))
	case 2:
		return orb.LineString(pts(6))
	case 3:
		n := size(r, 3)
		m := make(orb.MultiLineString, n)
		for i := range m {
			m[i] = orb.LineString(pts(4))
		}
		return m
	case 4:
		return orb.Ring(pts(6))
	case 5:
		return rings()
	case 6:
		n := size(r, 3)
		m := make(orb.MultiPolygon, n)
		for i := range m {
			m[i] = rings()
		}
		return m
	case 7:
		a, b := pt(), pt()
		if a[0] > b[0] {
			a[0], b[0] = b[0], a[0]
		}
		if a[1] > b[1] {
			a[1], b[1] = b[1], a[1]
		}
		return orb.Bound{Min: a, Max: b}
	default:
		n := size(r, 3)
		c := make(orb.Collection, n)
		for i := range c {
			c[i] = tileGeom(r, extent, depth+1)
		}
		return c
	}
}

var pow2Extents = []int{256, 512, 1024, 2048, 4096, 8192}
var otherExtents = []int{1000, 100, 4095, 4097, 3000, 10, 777, 5000, 6, 3}

// extents outside the quantifier's list, for the lines of newProjection that the listed ones never
// reach: isPowerOfTwo(0) (n = 32), small powers of two, powers of two from 16384 up to 2^31, and
// non-powers of two up to MaxUint32 (beyond zoom + log2(extent) = 44 the round trip is twin-only)
var edgeExtents = []int{0, 1, 2, 4, 8, 16, 32, 64, 128, 16384, 32768, 65536, 1 << 20, 1 << 24, 1 << 31,
	5, 7, 9, 255, 257, 8191, 16383, 20000, 65535, 1000003, 1<<31 + 1, 1<<32 - 1}

// featTok draws one feature geometry token string; now and then the nil interface or a typed nil slice
func featTok(r *rand.Rand, extent int) string {
	if r.Intn(12) == 0 {
		return []string{"nil", "nMP", "nLS", "nMLS", "nR", "nPG", "nMPG", "nC"}[r.Intn(8)]
	}
	return gs(tileGeom(r, extent, 0))
}

// edgePixels: the corners of the pixel range [-extent, 2*extent) and two interior pixels
func edgePixels(e int) orb.MultiPoint {
	if e == 0 {
		return orb.MultiPoint{{-1, -1}, {0, 0}, {1, 2}, {3, 3}}
	}
	if e == 1 {
		return orb.MultiPoint{{-1, -1}, {0, 0}, {1, 1}, {0, 1}, {1, -1}}
	}
	f := float64(e)
	return orb.MultiPoint{{-f, -f}, {0, 0}, {f - 1, f - 1}, {2*f - 1, 2*f - 1}, {math.Floor(f / 2), math.Floor(f / 3)}, {-1, f}}
}

func randTile(r *rand.Rand) (x, y uint32, z int) {
	z = r.Intn(23)
	n := uint32(1) << uint(z)
	pick := func() uint32 {
		switch r.Intn(5) {
		case 0:
			return 0
		case 1:
			return n - 1
		case 2:
			return n / 2
		}
		return uint32(r.Int63n(int64(n)))
	}
	return pick(), pick(), z
}

func tileHdr(x, y uint32, z, extent int) string {
	return strconv.Itoa(int(x)) + " " + strconv.Itoa(int(y)) + " " + strconv.Itoa(z) + " " + strconv.Itoa(extent)
}

// diagScan emits the diagonal pixels (i, i), i in [-extent, 2*extent), in chunks: every value of each axis once.
func diagScan(c *Ctx, x, y uint32, z, extent, chunk int) {
	for lo := -extent; lo < 2*extent; lo += chunk {
		mp := orb.MultiPoint{}
		for i := lo; i < lo+chunk && i < 2*extent; i++ {
			mp = append(mp, orb.Point{float64(i), float64(i)})
		}
		c.Case("tile", tileHdr(x, y, z, extent)+" 1 "+gs(mp))
	}
}

func genC15(c *Ctx) {
	r := c.Rng
	if c.Shard == 0 {
		c.Case("consts", "")
		// the package's own test: tile centre
		c.Case("tile", "1 1 2 4096 1 P "+fb(2048)+" "+fb(2048))
		for _, g := range orb.AllGeometries {
			c.Case("proj", strings.Join([]string{fb(2), fb(0), fb(1), fb(0), fb(0), fb(3), fb(-1), fb(0)}, " ")+" "+gs(g))
			c.Case("proj", strings.Join([]string{fb(1), fb(0), fb(0), fb(1), fb(0), fb(1), fb(0), fb(100)}, " ")+" "+gs(g))
		}
		// heap level: the same ring twice in a polygon; a line and its own sub-slice in a collection;
		// two lines whose ranges overlap in the middle of one buffer
		aff := strings.Join([]string{fb(2), fb(0), fb(1), fb(0), fb(3), fb(-1)}, " ")
		sq := "5 " + spts([]orb.Point{{0, 0}, {1, 0}, {1, 1}, {0, 1}, {0, 0}})[2:]
		c.Case("projh", aff+" 1 "+sq+" PG 2 0 0 5 5 0 0 5 5")
		c.Case("projh", aff+" 1 "+sq+" C 2 LS 0 0 5 5 LS 0 1 2 4")
		c.Case("projh", aff+" 1 "+sq+" C 3 LS 0 0 3 5 P "+fb(1)+" "+fb(2)+" LS 0 2 3 3")
		c.Case("projh", aff+" 2 "+sq+" 0 MPG 2 1 0 0 5 5 2 0 0 5 5 1 0 0 0")
		for _, s := range []string{"nil", "nMP", "nLS", "nMLS", "nR", "nPG", "nMPG", "nC"} {
			c.Case("proj", strings.Join([]string{fb(1), fb(0), fb(0), fb(1), fb(0), fb(1), fb(0), fb(1)}, " ")+" "+s)
		}
		for _, p := range []orb.Point{{0, 0}, {180, 85.05}, {-180, -85.05}, {180, 0}, {0, 85.05}, {0, -85.05}, {-122.4, 37.8}} {
			c.Case("w2m", sp(p))
			c.Case("m2w", sp(project.WGS84.ToMercator(p)))
		}
		// WGS84.ToMercator's clamp to +-earthRadiusPi (projections.go:29): active from 85.0511288 on; log(tan(0)) = -Inf
		// at -90; NaN beyond +-90 (twin only: outside the quantifier)
		for _, lat := range []float64{90, -90, 85.06, -85.06, 89.9, -89.9, 85.0511, 85.0512, -85.0511, -85.0512, 91, -91, 180, -180} {
			for _, lon := range []float64{0, 180, -122.4} {
				c.Case("w2m", sp(orb.Point{lon, lat}))
			}
		}
		// Mercator.ToWGS84 outside the square |x|, |y| <= R*pi (the way back clamps y): twin only
		for _, m := range []orb.Point{{0, 21000000}, {0, -21000000}, {c15EarthRadiusPi, c15EarthRadiusPi}, {-c15EarthRadiusPi, -c15EarthRadiusPi},
			{2.1e7, 0}, {-2.1e7, 5}, {0, 1e9}, {0, -1e9}, {0, math.Nextafter(c15EarthRadiusPi, 1e9)}} {
			c.Case("m2w", sp(m))
		}
		// newProjection on every edge extent x four tiles (zoom 0, 2, 10, 22)
		for _, e := range edgeExtents {
			for _, tl := range [][3]int{{0, 0, 0}, {1, 1, 2}, {300, 700, 10}, {2097157, 1048653, 22}} {
				c.Case("tile", tileHdr(uint32(tl[0]), uint32(tl[1]), tl[2], e)+" 1 "+gs(edgePixels(e)))
			}
		}
		// level = zoom + log2(extent) >= 64: `1 << level` wraps to 0, maxtiles = 0 (twin only: zoom > 22)
		for _, h := range []string{"0 0 40 16777216", "5 7 63 2", "0 0 33 2147483648", "3 1 64 1000", "0 0 100 256", "1 2 32 0", "1 2 31 0", "9 9 62 1"} {
			c.Case("tile", h+" 1 "+gs(orb.MultiPoint{{0, 0}, {1, 2}, {-1, 5}}))
		}
		// nil and typed-nil feature geometries; Layers of several extents
		c.Case("tile", "1 1 2 4096 3 nil P "+fb(2048)+" "+fb(2048)+" nLS")
		c.Case("tile", "1 1 2 1000 2 nC nil")
		c.Case("tiles", "1 1 2 0")
		c.Case("tiles", "1 1 2 1 4096 0")
		c.Case("tiles", "1 1 2 3 4096 1 P "+fb(2048)+" "+fb(2048)+" 1000 2 "+gs(orb.LineString{{0, 0}, {999, 999}, {-1000, 1999}})+" nil 0 1 "+gs(orb.MultiPoint{{0, 0}, {1, 2}}))
		c.Case("tiles", "300 700 10 2 512 1 "+gs(orb.Bound{Min: orb.Point{-512, 0}, Max: orb.Point{1023, 511}})+" 777 1 "+gs(orb.Polygon{{{0, 0}, {776, 0}, {776, 776}, {0, 0}}}))
		// project.Bound with an overflowing point function: math.Min / math.Max propagate the NaN
		c.Case("proj", strings.Join([]string{fb(2), fb(-2), fb(0), fb(0), fb(0), fb(1), fb(0), fb(0)}, " ")+" "+gs(orb.Bound{Min: orb.Point{1.7e308, 1.7e308}, Max: orb.Point{1, 5}}))
		c.Case("proj", strings.Join([]string{fb(2), fb(-2), fb(0), fb(0), fb(0), fb(1), fb(0), fb(0)}, " ")+" "+gs(orb.Bound{Min: orb.Point{1, 5}, Max: orb.Point{1.7e308, 1.7e308}}))
		c.Case("proj", strings.Join([]string{fb(2), fb(-2), fb(0), fb(0), fb(2), fb(-2), fb(0), fb(0)}, " ")+" "+gs(orb.Collection{orb.Bound{Min: orb.Point{-1.7e308, 1.7e308}, Max: orb.Point{1.7e308, -1.7e308}}, orb.Bound{Min: orb.Point{0, 0}, Max: orb.Point{math.Copysign(0, -1), math.Copysign(0, -1)}}}))
	}
	// exhaustive per-axis scans of sampled tiles: every pixel coordinate in [-extent, 2*extent) on both axes
	idx := 0
	scanTiles := [][3]int{{1, 1, 2}, {300, 700, 10}, {2097157, 1048653, 22}}
	scanExt := []int{256, 1000}
	if c.Tier == "thorough" {
		scanTiles = append(scanTiles, [3]int{0, 0, 0}, [3]int{1, 0, 1}, [3]int{17, 9, 5}, [3]int{40000, 25000, 16}, [3]int{(1 << 22) - 1, (1 << 22) - 1, 22}, [3]int{0, 1 << 21, 22})
		scanExt = append(append([]int{}, pow2Extents...), otherExtents...)
	}
	for _, st := range scanTiles {
		for _, e := range scanExt {
			idx++
			if c.Mine(idx) {
				diagScan(c, uint32(st[0]), uint32(st[1]), st[2], e, 128)
			}
		}
	}
	for k := 0; k < c.Budget && !c.Exhausted(); k++ {
		// mercator closed forms
		g := orb.Point{r.Float64()*360 - 180, r.Float64()*170.1 - 85.05}
		switch r.Intn(8) {
		case 0:
			g = orb.Point{float64(r.Intn(361) - 180), float64(r.Intn(171) - 85)}
		case 1:
			g = orb.Point{[]float64{180, -180, 0}[r.Intn(3)], []float64{85.05, -85.05, 0, 85, -85}[r.Intn(5)]}
		case 2:
			g[1] = (r.Float64()*2 - 1) * 1e-6
		}
		if r.Intn(16) == 0 { // beyond the mercator range: the clamp (twin only)
			g[1] = []float64{85.0511, 85.0512, 85.06, 86, 89, 89.9, 90}[r.Intn(7)] + r.Float64()*1e-3*float64(r.Intn(2))
			if r.Intn(2) == 0 {
				g[1] = -g[1]
			}
		}
		c.Case("w2m", sp(g))
		m := orb.Point{(r.Float64()*2 - 1) * c15EarthRadiusPi, (r.Float64()*2 - 1) * 19971868.0} // |y| up to lat 85.05
		if r.Intn(6) == 0 {
			m = project.WGS84.ToMercator(g)
		}
		c.Case("m2w", sp(m))

		// tile round trips
		x, y, z := randTile(r)
		extent := pow2Extents[r.Intn(len(pow2Extents))]
		if r.Intn(3) == 0 {
			extent = otherExtents[r.Intn(len(otherExtents))]
		}
		if r.Intn(16) == 0 {
			extent = edgeExtents[r.Intn(len(edgeExtents))]
		}
		nf := 1 + r.Intn(2)
		var sb strings.Builder
		for i := 0; i < nf; i++ {
			sb.WriteString(" " + featTok(r, extent))
		}
		c.Case("tile", tileHdr(x, y, z, extent)+" "+strconv.Itoa(nf)+sb.String())
		// Layers.ProjectToWGS84 / ProjectToTile: 0-3 layers, each with its own extent
		if k%8 == 0 {
			nl := r.Intn(4)
			var lb strings.Builder
			for j := 0; j < nl; j++ {
				e := pow2Extents[r.Intn(len(pow2Extents))]
				switch r.Intn(6) {
				case 0, 1:
					e = otherExtents[r.Intn(len(otherExtents))]
				case 2:
					e = edgeExtents[r.Intn(len(edgeExtents))]
				}
				nfj := r.Intn(3)
				lb.WriteString(" " + strconv.Itoa(e) + " " + strconv.Itoa(nfj))
				for i := 0; i < nfj; i++ {
					lb.WriteString(" " + featTok(r, e))
				}
			}
			c.Case("tiles", strconv.Itoa(int(x))+" "+strconv.Itoa(int(y))+" "+strconv.Itoa(z)+" "+strconv.Itoa(nl)+lb.String())
		}
		// lon/lat geometry to tile coordinates (twin only)
		if k%3 == 0 {
			c.Case("totile", tileHdr(x, y, z, extent)+" "+gs(geoGeomMerc(r)))
		}

		// project.Geometry with a call-counting affine point function
		var co [8]string
		for i := range co {
			v := float64(r.Intn(7) - 3)
			if r.Intn(4) == 0 {
				v = float64(r.Intn(2001)-1000) / 8
			}
			co[i] = fb(v)
		}
		mode := []CoordMode{CoordSmallInt, CoordInt, CoordHalf, CoordFloat}[r.Intn(4)]
		pg := genGeom(r, GenOpts{Mode: mode, MaxPts: 5, MaxDepth: 3, TopNil: true}, 0)
		c.Case("proj", strings.Join(co[:], " ")+" "+gs(pg))
		if k%16 == 0 { // overflow: Inf - Inf = NaN inside the point function, then math.Min / math.Max of project.Bound
			h := func() float64 { return []float64{1.7e308, -1.7e308, 1, -3, 0, 9e307}[r.Intn(6)] }
			var og orb.Geometry = orb.Bound{Min: orb.Point{h(), h()}, Max: orb.Point{h(), h()}}
			if r.Intn(3) == 0 {
				og = orb.Collection{og, orb.MultiPoint{{h(), h()}, {h(), h()}}}
			}
			c.Case("proj", strings.Join(co[:], " ")+" "+gs(og))
		}

		// project.Geometry on geometries whose slices share backing arrays
		genProjH(c)
	}
}

var projHKinds = []string{"P", "B", "MP", "LS", "R", "MLS", "PG", "MPG", "C", "C", "C"}

// genProjH: heaps of small-integer / half-integer points, geometries of every kind whose slices are
// separate, packed sub-slices of one buffer, the same slice twice (the same ring twice in a polygon,
// a line and its own sub-slice in a collection), or arbitrary overlapping headers.
func genProjH(c *Ctx) {
	r := c.Rng
	mode := []CoordMode{CoordSmallInt, CoordHalf, CoordSmallInt, CoordModest}[r.Intn(4)]
	b := &heapBuilder{r: r,
		content: func(string) []orb.Point { return genPoints(r, mode, 5) },
		filler:  func() orb.Point { return genPoint(r, mode) }}
	var co [6]string
	for i := range co {
		v := float64(r.Intn(5) - 2)
		if r.Intn(4) == 0 {
			v = float64(r.Intn(33)-16) / 4
		}
		co[i] = fb(v)
	}
	c.Case("projh", strings.Join(co[:], " ")+" "+b.build(projHKinds, r.Intn(4)))
}

// geoGeomMerc draws a lon/lat geometry inside the mercator range.
func geoGeomMerc(r *rand.Rand) orb.Geometry {
	n := 1 + r.Intn(5)
	ps := make([]orb.Point, n)
	for i := range ps {
		ps[i] = orb.Point{r.Float64()*360 - 180, r.Float64()*170.1 - 85.05}
		if r.Intn(10) == 0 {
			ps[i][1] = []float64{89.5, -89.5, 89.1, -89.1, 90, -90}[r.Intn(6)] // beyond the clamp
		}
	}
	switch r.Intn(3) {
	case 0:
		return ps[0]
	case 1:
		return orb.LineString(ps)
	}
	return orb.MultiPoint(ps)
}
