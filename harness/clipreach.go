package main

import (
	"math"

	"github.com/paulmach/orb"
)

// clipReachClamp is a replica of the segment loop of clip.line (same float arithmetic, same guard: an end
// point is clipped at most twice, then snapped by clampToBound): it reports how many segments of ls take
// the `clipsA == 2` / `clipsB == 2` arm, i.e. enter clampToBound.  It does not judge anything: the
// generators of C08 and C16 use it as a REACH self-test (tag `reach-clamp`), because that arm is taken
// only by a segment that passes within rounding of a corner of a general-position box, with both end
// points away from the corner, and no family reached it before the corner-shot family was added.
func clipReachClamp(box orb.Bound, ls []orb.Point, open bool) (armA, armB int) {
	if len(ls) == 0 {
		return
	}
	codeA := c07Code(box, ls[0], open)
	for i := 1; i < len(ls); i++ {
		a, b := ls[i-1], ls[i]
		codeB := c07Code(box, b, open)
		endCode := codeB
		clipsA, clipsB := 0, 0
		for {
			if codeA|codeB == 0 || codeA&codeB != 0 {
				break
			} else if codeA != 0 {
				if clipsA == 2 {
					armA++
					codeA = 0
					continue
				}
				clipsA++
				a = clipReachIntersect(box, codeA, a, b)
				codeA = c07Code(box, a, false)
			} else {
				if open && clipsB == 0 && c07Code(box, b, false) == 0 {
					codeB = 0
					continue
				}
				if clipsB == 2 {
					armB++
					codeB = 0
					continue
				}
				clipsB++
				b = clipReachIntersect(box, codeB, a, b)
				codeB = c07Code(box, b, false)
			}
		}
		codeA = endCode
	}
	return
}

func clipReachIntersect(box orb.Bound, edge int, a, b orb.Point) orb.Point {
	switch {
	case edge&8 != 0:
		return orb.Point{a[0] + (b[0]-a[0])*(box.Max[1]-a[1])/(b[1]-a[1]), box.Max[1]}
	case edge&4 != 0:
		return orb.Point{a[0] + (b[0]-a[0])*(box.Min[1]-a[1])/(b[1]-a[1]), box.Min[1]}
	case edge&2 != 0:
		return orb.Point{box.Max[0], a[1] + (b[1]-a[1])*(box.Max[0]-a[0])/(b[0]-a[0])}
	}
	return orb.Point{box.Min[0], a[1] + (b[1]-a[1])*(box.Min[0]-a[0])/(b[0]-a[0])}
}

// clipCornerShot draws a segment (start, far) whose supporting line passes within rounding of a corner of
// the box: start is a point strictly inside the box (inside == true) or beside it (beyond the opposite
// side on at least one axis), far = corner + t*(corner - start) computed in float64, so the exact line
// misses the corner by an ulp or so in either direction; nudge moves far by 0..3 ulps on one coordinate.
// The corner is returned as well.
func clipCornerShot(r clipRng, box orb.Bound, inside bool) (start, far, corner orb.Point) {
	w, h := box.Max[0]-box.Min[0], box.Max[1]-box.Min[1]
	corner = orb.Point{box.Min[0], box.Min[1]}
	sx, sy := 1.0, 1.0 // direction from the corner into the box
	if r.Intn(2) == 0 {
		corner[0], sx = box.Max[0], -1
	}
	if r.Intn(2) == 0 {
		corner[1], sy = box.Max[1], -1
	}
	if inside {
		start = orb.Point{corner[0] + sx*(0.02+0.96*r.Float64())*w, corner[1] + sy*(0.02+0.96*r.Float64())*h}
	} else {
		// beyond the far sides: the segment enters through one side (or the far corner region) and leaves through the corner
		start = orb.Point{corner[0] + sx*(0.1+2.4*r.Float64())*w, corner[1] + sy*(0.1+2.4*r.Float64())*h}
	}
	t := 0.1 + r.Float64()*3
	far = orb.Point{corner[0] + t*(corner[0]-start[0]), corner[1] + t*(corner[1]-start[1])}
	if r.Intn(4) == 0 {
		k := r.Intn(2)
		far[k] = clipUlps(far[k], r.Intn(7)-3)
	}
	return
}

// clipUlps moves v by n units in the last place (n < 0: down).
func clipUlps(v float64, n int) float64 {
	for ; n > 0; n-- {
		v = math.Nextafter(v, math.Inf(1))
	}
	for ; n < 0; n++ {
		v = math.Nextafter(v, math.Inf(-1))
	}
	return v
}
