//go:build race

package main

// raceCount: under the race detector the process is run with GORACE=halt_on_error=1, so reaching
// this point means no race has been reported so far.
func raceCount() int { return 0 }

const raceEnabled = true
