package main

// C20, white-box round: (1) every case runs in a child process under a CPU-time watchdog and an
// address-space limit, (2) the read-only clause looks at the argument INCLUDING the spare capacity
// of every slice at every level, (3) entry points without exported kind-specific functions are tied
// to their value on the equivalent value of a neighbouring kind (`alts`), (4) values with
// non-finite / huge / tiny / signed-zero coordinates.

import (
	"bufio"
	"fmt"
	"io"
	"math"
	"os"
	"os/exec"
	"reflect"
	"strconv"
	"strings"
	"syscall"
	"time"

	"github.com/paulmach/orb"
	"github.com/paulmach/orb/maptile"
)

/* ---------- worker process + watchdog ---------- */

// Every call of the real code runs in a persistent child process of this binary (environment
// variable ORBVERIF_C20_WORKER): the parent writes `<op> <tokens>` to its stdin and waits for one
// outcome line.  The worker has an address-space limit (a runaway allocation is a fatal error of the
// worker, not of the machine).  No answer after c20CPULimit of the WORKER'S CPU time (not wall time:
// the machine may be loaded) => the worker is killed and a fresh one repeats the case once with a
// doubled limit; no answer again => `hang`.  A worker that dies twice on the same case (fatal error:
// out of memory, stack overflow — not a recoverable panic) => `crash`.  The case is then run once
// more with the GENERIC call only (`G` prefix): if that alone answers, the outcome is `hang-aux` /
// `crash-aux` (the kind-specific function or a member call is at fault, not the generic one).
const c20WorkerEnv = "ORBVERIF_C20_WORKER"

const c20CPULimit = 750 * time.Millisecond

const c20WallCap = 5 * time.Minute

const c20AddrSpace = 6 << 30

func c20ProcCPU(pid int) (time.Duration, bool) {
	data, err := os.ReadFile(fmt.Sprintf("/proc/%d/stat", pid))
	if err != nil {
		return 0, false
	}
	str := string(data)
	i := strings.LastIndexByte(str, ')')
	if i < 0 {
		return 0, false
	}
	f := strings.Fields(str[i+1:])
	if len(f) < 13 {
		return 0, false
	}
	var ut, st int64
	if _, err := fmt.Sscan(f[11], &ut); err != nil {
		return 0, false
	}
	if _, err := fmt.Sscan(f[12], &st); err != nil {
		return 0, false
	}
	return time.Duration(ut+st) * (time.Second / 100), true // USER_HZ = 100
}

// c20GenericOnly (worker side): stop after the generic call
var c20GenericOnly bool

func c20WorkerMain() {
	var lim syscall.Rlimit
	lim.Cur, lim.Max = c20AddrSpace, c20AddrSpace
	_ = syscall.Setrlimit(syscall.RLIMIT_AS, &lim)
	in := bufio.NewReaderSize(os.Stdin, 1<<20)
	out := bufio.NewWriterSize(os.Stdout, 1<<20)
	for {
		line, err := in.ReadString('\n')
		if f := strings.Fields(line); len(f) > 0 {
			c20GenericOnly = false
			if f[0] == "G" {
				c20GenericOnly = true
				f = f[1:]
			}
			res := "badop"
			if len(f) > 0 {
				res = guard(func() string { return c20Call(f[0], f[1:]) })
			}
			out.WriteString(res)
			out.WriteByte('\n')
			out.Flush()
		}
		if err != nil {
			return
		}
	}
}

type c20Worker struct {
	cmd   *exec.Cmd
	stdin io.WriteCloser
	w     *bufio.Writer
	out   chan string
}

var c20W *c20Worker
var c20NoWorker bool // the worker could not be started: in-process calls (no watchdog)

func c20Start() *c20Worker {
	exe, err := os.Executable()
	if err != nil {
		return nil
	}
	cmd := exec.Command(exe)
	cmd.Env = append(os.Environ(), c20WorkerEnv+"=1")
	cmd.Stderr = io.Discard
	stdin, err1 := cmd.StdinPipe()
	stdout, err2 := cmd.StdoutPipe()
	if err1 != nil || err2 != nil || cmd.Start() != nil {
		return nil
	}
	w := &c20Worker{cmd: cmd, stdin: stdin, w: bufio.NewWriterSize(stdin, 1<<20), out: make(chan string, 1)}
	go func() {
		rd := bufio.NewReaderSize(stdout, 1<<20)
		for {
			line, err := rd.ReadString('\n')
			if strings.HasSuffix(line, "\n") {
				w.out <- strings.TrimRight(line, "\n")
			}
			if err != nil {
				close(w.out)
				return
			}
		}
	}()
	return w
}

func (w *c20Worker) kill() {
	w.stdin.Close()
	w.cmd.Process.Kill()
	w.cmd.Wait()
}

// c20Ask: one request to the worker; "hang" / "crash" when it does not answer (after one repetition)
func c20Ask(prefix, op string, in []string, limit time.Duration, attempts int) string {
	res := "hang"
	for attempt := 0; attempt < attempts; attempt++ {
		if c20W == nil {
			if c20W = c20Start(); c20W == nil {
				return "noworker"
			}
		}
		w := c20W
		if prefix != "" {
			w.w.WriteString(prefix)
			w.w.WriteByte(' ')
		}
		w.w.WriteString(op)
		for _, t := range in {
			w.w.WriteByte(' ')
			w.w.WriteString(t)
		}
		w.w.WriteByte('\n')
		w.w.Flush()
		pid := w.cmd.Process.Pid
		cpu0, haveCPU := c20ProcCPU(pid)
		t0 := time.Now()
		tick := time.NewTicker(100 * time.Millisecond)
		for waiting := true; waiting; {
			select {
			case s, ok := <-w.out:
				if ok {
					tick.Stop()
					return s
				}
				res, waiting = "crash", false
			case <-tick.C:
				if haveCPU {
					if cpu, ok := c20ProcCPU(pid); ok && cpu-cpu0 >= limit {
						res, waiting = "hang", false
					}
					if time.Since(t0) > c20WallCap {
						res, waiting = "hang", false
					}
				} else if time.Since(t0) > 10*limit {
					res, waiting = "hang", false
				}
			}
		}
		tick.Stop()
		w.kill()
		c20W = nil
		limit *= 2
	}
	return res
}

func runC20(op string, in []string) string {
	if c20NoWorker {
		return c20Call(op, in)
	}
	res := c20Ask("", op, in, c20CPULimit, 2)
	switch res {
	case "noworker":
		c20NoWorker = true
		return c20Call(op, in)
	case "hang", "crash":
		// is it the generic call itself?
		if g := c20Ask("G", op, in, c20CPULimit, 1); g != "hang" && g != "crash" {
			return res + "-aux"
		}
	}
	return res
}

/* ---------- the argument with spare capacity at every level ---------- */

func c20SentPt(i int) orb.Point {
	return orb.Point{123456789.25 + float64(i), -987654321.5 - float64(i)}
}

const c20SpareN = 3

func sparePts(ps []orb.Point) []orb.Point {
	if ps == nil {
		return nil
	}
	buf := make([]orb.Point, len(ps)+c20SpareN)
	copy(buf, ps)
	for i := len(ps); i < len(buf); i++ {
		buf[i] = c20SentPt(i)
	}
	return buf[:len(ps)]
}

// c20Spare rebuilds g so that EVERY slice in it — the vertex lists, and the lists of lines, rings,
// polygons and members above them — is the front part of a larger buffer whose tail holds sentinel
// values (as a sub-slice of a caller's bigger array has): `append` on any of them writes into
// memory the caller can see.  (tokReader.pts gives the vertex lists such a tail; the lists above
// them come with cap == len.)
func c20Spare(g orb.Geometry) orb.Geometry {
	switch v := g.(type) {
	case orb.MultiPoint:
		return orb.MultiPoint(sparePts(v))
	case orb.LineString:
		return orb.LineString(sparePts(v))
	case orb.Ring:
		return orb.Ring(sparePts(v))
	case orb.MultiLineString:
		if v == nil {
			return v
		}
		buf := make(orb.MultiLineString, len(v)+c20SpareN)
		for i := range v {
			buf[i] = orb.LineString(sparePts(v[i]))
		}
		for i := len(v); i < len(buf); i++ {
			buf[i] = orb.LineString(sparePts([]orb.Point{c20SentPt(10 + i), c20SentPt(20 + i)}))
		}
		return buf[:len(v)]
	case orb.Polygon:
		return sparePolygon(v)
	case orb.MultiPolygon:
		if v == nil {
			return v
		}
		buf := make(orb.MultiPolygon, len(v)+c20SpareN)
		for i := range v {
			buf[i] = sparePolygon(v[i])
		}
		for i := len(v); i < len(buf); i++ {
			buf[i] = sparePolygon(orb.Polygon{{c20SentPt(30 + i), c20SentPt(31 + i), c20SentPt(32 + i), c20SentPt(30 + i)}})
		}
		return buf[:len(v)]
	case orb.Collection:
		if v == nil {
			return v
		}
		buf := make(orb.Collection, len(v)+c20SpareN)
		for i := range v {
			buf[i] = c20Spare(v[i])
		}
		for i := len(v); i < len(buf); i++ {
			buf[i] = c20SentPt(40 + i)
		}
		return buf[:len(v)]
	}
	return g
}

func sparePolygon(v orb.Polygon) orb.Polygon {
	if v == nil {
		return v
	}
	buf := make(orb.Polygon, len(v)+c20SpareN)
	for i := range v {
		buf[i] = orb.Ring(sparePts(v[i]))
	}
	for i := len(v); i < len(buf); i++ {
		buf[i] = orb.Ring(sparePts([]orb.Point{c20SentPt(50 + i), c20SentPt(51 + i), c20SentPt(52 + i), c20SentPt(50 + i)}))
	}
	return buf[:len(v)]
}

// c20Snap: everything reachable from the argument through its own slice headers, bit for bit: for
// every slice its data pointer, length and capacity and ALL cap(s) elements (the spare slots behind
// len included), recursively; coordinates as bit patterns.
func c20Snap(g orb.Geometry) []uint64 {
	var out []uint64
	pts := func(ps []orb.Point) {
		out = append(out, uint64(reflect.ValueOf(ps).Pointer()), uint64(len(ps)), uint64(cap(ps)))
		for _, p := range ps[:cap(ps)] {
			out = append(out, math.Float64bits(p[0]), math.Float64bits(p[1]))
		}
	}
	var poly func(pg orb.Polygon)
	poly = func(pg orb.Polygon) {
		out = append(out, uint64(reflect.ValueOf(pg).Pointer()), uint64(len(pg)), uint64(cap(pg)))
		for _, r := range pg[:cap(pg)] {
			pts(r)
		}
	}
	var walk func(g orb.Geometry)
	walk = func(g orb.Geometry) {
		switch v := g.(type) {
		case nil:
			out = append(out, 0)
		case orb.Point:
			out = append(out, 1, math.Float64bits(v[0]), math.Float64bits(v[1]))
		case orb.MultiPoint:
			out = append(out, 2)
			pts(v)
		case orb.LineString:
			out = append(out, 3)
			pts(v)
		case orb.Ring:
			out = append(out, 4)
			pts(v)
		case orb.MultiLineString:
			out = append(out, 5, uint64(reflect.ValueOf(v).Pointer()), uint64(len(v)), uint64(cap(v)))
			for _, l := range v[:cap(v)] {
				pts(l)
			}
		case orb.Polygon:
			out = append(out, 6)
			poly(v)
		case orb.MultiPolygon:
			out = append(out, 7, uint64(reflect.ValueOf(v).Pointer()), uint64(len(v)), uint64(cap(v)))
			for _, pg := range v[:cap(v)] {
				poly(pg)
			}
		case orb.Bound:
			out = append(out, 8, math.Float64bits(v.Min[0]), math.Float64bits(v.Min[1]), math.Float64bits(v.Max[0]), math.Float64bits(v.Max[1]))
		case orb.Collection:
			out = append(out, 9, uint64(reflect.ValueOf(v).Pointer()), uint64(len(v)), uint64(cap(v)))
			for _, m := range v[:cap(v)] {
				walk(m)
			}
		}
	}
	walk(g)
	return out
}

func sameSnap(a, b []uint64) bool {
	if len(a) != len(b) {
		return false
	}
	for i := range a {
		if a[i] != b[i] {
			return false
		}
	}
	return true
}

/* ---------- counterparts on a neighbouring kind ---------- */

type c20Alt struct {
	rel string
	g   orb.Geometry
}

// c20Alts: the values of a neighbouring kind that stand for the same thing as g (non-nil,
// non-collection): a bound as its ring and its polygon; a ring as its one-ring polygon, and its
// vertex list as a line and as a multi-point; a line as the only line of a multi-line, as a ring and
// as a multi-point; a polygon as the only polygon of a multi-polygon; a point as the only point of a
// multi-point.  WHICH relation an entry point's outcomes must satisfy for each of them is the
// driver's table (`altRule`); the harness only reports the outcomes.
func c20Alts(g orb.Geometry) []c20Alt {
	switch v := g.(type) {
	case orb.Bound:
		return []c20Alt{{"ring", v.ToRing()}, {"poly", v.ToPolygon()}}
	case orb.Ring:
		if v == nil {
			return nil
		}
		return []c20Alt{{"poly", orb.Polygon{v.Clone()}}, {"line", orb.LineString(v.Clone())}, {"mpt", orb.MultiPoint(v.Clone())}}
	case orb.LineString:
		if v == nil {
			return nil
		}
		return []c20Alt{{"mls", orb.MultiLineString{v.Clone()}}, {"ring", orb.Ring(v.Clone())}, {"mpt", orb.MultiPoint(v.Clone())}}
	case orb.Polygon:
		if v == nil {
			return nil
		}
		return []c20Alt{{"mpoly", orb.MultiPolygon{v.Clone()}}}
	case orb.Point:
		return []c20Alt{{"mpt", orb.MultiPoint{v}}}
	}
	return nil
}

/* ---------- values with special coordinates ---------- */

var c20SpecialCoords = []float64{
	math.NaN(), math.Inf(1), math.Inf(-1), math.Copysign(0, -1),
	1e300, -1e300, math.MaxFloat64, 1e19, 1e6, -4e5,
	5e-324, 1e-300, 180, -180, 90, -90, 85.0511, 360,
}

// c20SpecialLeaves: every kind with ONE special vertex (special in x, in y, in both) among ordinary
// ones; bounds with the special value in Min or in Max.
func c20SpecialLeaves() []orb.Geometry {
	p, q, r := orb.Point{1, 1}, orb.Point{3, 1}, orb.Point{3, 3}
	var out []orb.Geometry
	for _, s := range c20SpecialCoords {
		for pos := 0; pos < 3; pos++ {
			sp := orb.Point{s, 2}
			switch pos {
			case 1:
				sp = orb.Point{2, s}
			case 2:
				sp = orb.Point{s, s}
			}
			ring := orb.Ring{p, q, sp, p}
			out = append(out,
				sp,
				orb.MultiPoint{p, sp},
				orb.LineString{p, sp, r},
				orb.MultiLineString{{p, q}, {q, sp}},
				ring,
				orb.Ring{p, q, sp}, // open
				orb.Polygon{ring},
				orb.Polygon{{{-1, -1}, {6, -1}, {6, 6}, {-1, 6}, {-1, -1}}, ring},
				orb.MultiPolygon{{ring}, {{p, q, r, p}}},
				orb.Bound{Min: p, Max: sp},
				orb.Bound{Min: sp, Max: r},
			)
		}
	}
	return out
}

// c20TileRisk: tile cover does work proportional to the number of tiles between the vertices'
// columns (a line) or in the value's tile-space box (a bound, a polygon), and nothing in it bounds a
// longitude: values with a non-finite coordinate or more than ~2e5 tiles at zoom z are generated
// only as the explicit witnesses of c20TileWitnesses (findings C20-tilecover-bound-oom, C20-tilecover-unbounded-longitude-hang), so that the run
// stays short.  (A choice of the GENERATOR: no outcome is screened.)
func c20TileRisk(g orb.Geometry, z maptile.Zoom) bool {
	risk, any := false, false
	lo, hi := orb.Point{math.Inf(1), math.Inf(1)}, orb.Point{math.Inf(-1), math.Inf(-1)}
	chk := func(p orb.Point) {
		if math.IsNaN(p[0]) || math.IsInf(p[0], 0) || math.IsNaN(p[1]) || math.IsInf(p[1], 0) {
			risk = true
			return
		}
		any = true
		f := maptile.Fraction(p, z)
		for i := 0; i < 2; i++ {
			lo[i], hi[i] = math.Min(lo[i], f[i]), math.Max(hi[i], f[i])
		}
	}
	var walk func(g orb.Geometry)
	walk = func(g orb.Geometry) {
		switch v := g.(type) {
		case orb.Point:
			chk(v)
		case orb.Bound:
			chk(v.Min)
			chk(v.Max)
			// a corner west of -180 has a negative column, which maptile.At converts to uint32
			// (finding C20-tilecover-bound-oom)
			if v.Min[0] < -180 || v.Max[0] < -180 {
				risk = true
			}
		case orb.Collection:
			for _, m := range v {
				walk(m)
			}
		case nil:
		default:
			forEachVertex(v, func(p *orb.Point) { chk(*p) })
		}
	}
	walk(g)
	if risk || !any {
		return risk
	}
	cols, rows := hi[0]-lo[0]+1, hi[1]-lo[1]+1
	return !(cols*rows <= 2e5)
}

// zoom of a tile cover entry from its parameter token ("" for the default entry: zoom 6)
func c20TileZoom(tok string) maptile.Zoom {
	if tok == "" {
		return 6
	}
	z, _ := strconv.Atoi(pfields(tok)[0])
	return maptile.Zoom(z)
}

func c20TileEntry(name string) bool { return strings.HasPrefix(name, "tilecover") }

// c20TileWitnesses: the non-finite / far-out values tile cover is run on (a handful: each costs the
// watchdog's full CPU limit while the findings C20-tilecover-bound-oom, C20-tilecover-unbounded-longitude-hang are open; the quick tier runs the
// first of each class only)
func c20TileWitnesses(tier string) []orb.Geometry {
	nan, inf := math.NaN(), math.Inf(1)
	slow := []orb.Geometry{
		orb.Bound{Min: orb.Point{-186, 0}, Max: orb.Point{0, 1}}, // finite, six degrees west of -180
		orb.Bound{Min: orb.Point{1, 1}, Max: orb.Point{nan, 2}},
		orb.LineString{{1, 1}, {inf, 2}, {3, 2}},
		orb.Collection{orb.Point{2, 2}, orb.MultiLineString{{{1, 1}, {-1e300, 2}}}},
	}
	if tier == "thorough" {
		slow = append(slow,
			orb.Bound{Min: orb.Point{-400, -10}, Max: orb.Point{-300, 10}},
			orb.Collection{orb.Point{2, 2}, orb.Bound{Min: orb.Point{-190, 0}, Max: orb.Point{190, 1}}},
			orb.Bound{Min: orb.Point{1, 1}, Max: orb.Point{inf, 2}},
			orb.Bound{Min: orb.Point{nan, nan}, Max: orb.Point{3, 3}},
			orb.Bound{Min: orb.Point{1, 1}, Max: orb.Point{2, nan}},
			orb.Collection{orb.Bound{Min: orb.Point{1, 1}, Max: orb.Point{nan, nan}}, orb.Point{2, 2}},
			orb.LineString{{1, 1}, {1e300, 2}},
			orb.Ring{{1, 1}, {3, 1}, {-inf, 2}, {1, 1}},
			orb.Polygon{{{1, 1}, {3, 1}, {1e300, 2}, {1, 1}}},
			orb.MultiPolygon{{{{1, 1}, {3, 1}, {3, 3}, {1, 1}}}, {{{1, 1}, {inf, 1}, {3, 3}, {1, 1}}}},
		)
	}
	// answered: NaN / infinite latitudes, points anywhere, a NaN longitude inside a line
	return append(slow,
		orb.LineString{{1, 1}, {nan, 2}, {3, 2}},
		orb.LineString{{1, 1}, {2, inf}, {3, 2}},
		orb.Point{nan, nan}, orb.Point{inf, -inf}, orb.MultiPoint{{1e300, 1e300}, {nan, 1}},
		orb.Polygon{{{1, 1}, {3, 1}, {2, nan}, {1, 1}}},
		orb.Collection{orb.Point{nan, 2}, orb.LineString{{1, 1}, {2, -inf}}},
	)
}
