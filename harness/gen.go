package main

import (
	"math"
	"math/rand"

	"github.com/paulmach/orb"
)

// Shared geometry generators.

// CoordMode selects the coordinate pool.
type CoordMode int

const (
	CoordSmallInt CoordMode = iota // integers in [-8, 8]: many coincidences
	CoordInt                       // integers |v| <= 2^20
	CoordHalf                      // multiples of 0.5 in [-8, 8]
	CoordFloat                     // finite floats, full precision, mixed magnitudes
	CoordBits                      // arbitrary bit patterns incl. NaN payloads, infinities, -0, subnormals
	CoordModest                    // general-position floats in (-8, 8)
)

var specialBits = []uint64{
	0x0000000000000000, 0x8000000000000000, // +0, -0
	0x7ff0000000000000, 0xfff0000000000000, // +-Inf
	0x7ff8000000000000, 0x7ff8000000000001, 0xfff8000000000000, 0x7ff0000000000001, 0x7ff4000000000000, 0xffffffffffffffff, // NaNs (quiet, signalling, payloads)
	0x0000000000000001, 0x000fffffffffffff, 0x8000000000000001, // subnormals
	0x0010000000000000, 0x7fefffffffffffff, 0xffefffffffffffff, // min normal, +-max
	0x3ff0000000000000, 0xbff0000000000000, 0x4000000000000000,
}

func coord(r *rand.Rand, m CoordMode) float64 {
	switch m {
	case CoordSmallInt:
		return float64(r.Intn(17) - 8)
	case CoordInt:
		switch r.Intn(4) {
		case 0:
			return float64(r.Intn(17) - 8)
		case 1:
			return float64(r.Intn(2001) - 1000)
		default:
			return float64(r.Intn(1<<21+1) - 1<<20)
		}
	case CoordHalf:
		return float64(r.Intn(33)-16) / 2
	case CoordModest:
		return (r.Float64()*2 - 1) * 8
	case CoordFloat:
		switch r.Intn(6) {
		case 0:
			return float64(r.Intn(17) - 8)
		case 1:
			return (r.Float64()*2 - 1) * 180
		case 2:
			return (r.Float64()*2 - 1) * 1e-7
		case 3:
			return (r.Float64()*2 - 1) * 1e22
		case 4:
			return math.Float64frombits(r.Uint64()&0x7fefffffffffffff | uint64(r.Intn(2))<<63) // any finite
		default:
			return math.Round((r.Float64()*2-1)*1e4) / 100
		}
	default:
		if r.Intn(3) == 0 {
			return math.Float64frombits(specialBits[r.Intn(len(specialBits))])
		}
		return math.Float64frombits(r.Uint64())
	}
}

func genPoint(r *rand.Rand, m CoordMode) orb.Point { return orb.Point{coord(r, m), coord(r, m)} }

// size draws a member count with emphasis on 0, 1, 2.
func size(r *rand.Rand, max int) int {
	switch r.Intn(6) {
	case 0:
		return 0
	case 1:
		return 1
	case 2:
		return 2
	default:
		return r.Intn(max + 1)
	}
}

func genPoints(r *rand.Rand, m CoordMode, max int) []orb.Point {
	n := size(r, max)
	ps := make([]orb.Point, n)
	for i := range ps {
		if i > 0 && r.Intn(6) == 0 {
			ps[i] = ps[r.Intn(i)] // repeated vertex
		} else {
			ps[i] = genPoint(r, m)
		}
	}
	return ps
}

// genRing makes a (usually closed) vertex list.
func genRing(r *rand.Rand, m CoordMode, max int) orb.Ring {
	ps := genPoints(r, m, max)
	if len(ps) >= 3 && r.Intn(4) != 0 {
		ps = append(ps, ps[0])
	}
	return orb.Ring(ps)
}

func genPolygon(r *rand.Rand, m CoordMode, max int) orb.Polygon {
	n := size(r, 3)
	p := make(orb.Polygon, n)
	for i := range p {
		p[i] = genRing(r, m, max)
	}
	return p
}

// GenOpts controls genGeom.
type GenOpts struct {
	Mode     CoordMode
	MaxPts   int
	MaxDepth int  // nesting depth of collections
	TopNil   bool // allow nil interface / typed nil slices at top level
	InnerNil bool // nil slices as MEMBERS (nil ring / line / polygon, typed-nil collection members); serialise with gsN
}

// innerNilify replaces some empty-able members of g by nil slices (in place for slices of slices).
func innerNilify(r *rand.Rand, g orb.Geometry) orb.Geometry {
	hit := func() bool { return r.Intn(6) == 0 }
	switch g := g.(type) {
	case orb.MultiLineString:
		for i := range g {
			if hit() {
				g[i] = nil
			}
		}
	case orb.Polygon:
		for i := range g {
			if hit() {
				g[i] = nil
			}
		}
	case orb.MultiPolygon:
		for i := range g {
			if hit() {
				g[i] = nil
			} else {
				for j := range g[i] {
					if hit() {
						g[i][j] = nil
					}
				}
			}
		}
	case orb.Collection:
		for i := range g {
			if hit() {
				switch r.Intn(7) {
				case 0:
					g[i] = orb.MultiPoint(nil)
				case 1:
					g[i] = orb.LineString(nil)
				case 2:
					g[i] = orb.MultiLineString(nil)
				case 3:
					g[i] = orb.Ring(nil)
				case 4:
					g[i] = orb.Polygon(nil)
				case 5:
					g[i] = orb.MultiPolygon(nil)
				default:
					g[i] = orb.Collection(nil)
				}
			} else {
				g[i] = innerNilify(r, g[i])
			}
		}
	}
	return g
}

// genGeom draws a geometry of any of the nine kinds (no nil members below the top level).
func genGeom(r *rand.Rand, o GenOpts, depth int) orb.Geometry {
	if depth == 0 && o.InnerNil && r.Intn(4) == 0 {
		o2 := o
		o2.InnerNil = false
		return innerNilify(r, genGeom(r, o2, 0))
	}
	if depth == 0 && o.TopNil && r.Intn(12) == 0 {
		switch r.Intn(8) {
		case 0:
			return nil
		case 1:
			return orb.MultiPoint(nil)
		case 2:
			return orb.LineString(nil)
		case 3:
			return orb.MultiLineString(nil)
		case 4:
			return orb.Ring(nil)
		case 5:
			return orb.Polygon(nil)
		case 6:
			return orb.MultiPolygon(nil)
		default:
			return orb.Collection(nil)
		}
	}
	k := r.Intn(9)
	if k == 8 && depth >= o.MaxDepth {
		k = r.Intn(8)
	}
	switch k {
	case 0:
		return genPoint(r, o.Mode)
	case 1:
		return orb.MultiPoint(genPoints(r, o.Mode, o.MaxPts))
	case 2:
		return orb.LineString(genPoints(r, o.Mode, o.MaxPts))
	case 3:
		n := size(r, 3)
		m := make(orb.MultiLineString, n)
		for i := range m {
			m[i] = orb.LineString(genPoints(r, o.Mode, o.MaxPts))
		}
		return m
	case 4:
		return genRing(r, o.Mode, o.MaxPts)
	case 5:
		return genPolygon(r, o.Mode, o.MaxPts)
	case 6:
		n := size(r, 3)
		m := make(orb.MultiPolygon, n)
		for i := range m {
			m[i] = genPolygon(r, o.Mode, o.MaxPts)
		}
		return m
	case 7:
		a, b := genPoint(r, o.Mode), genPoint(r, o.Mode)
		if r.Intn(5) != 0 { // mostly well-formed
			if a[0] > b[0] {
				a[0], b[0] = b[0], a[0]
			}
			if a[1] > b[1] {
				a[1], b[1] = b[1], a[1]
			}
		}
		return orb.Bound{Min: a, Max: b}
	default:
		n := size(r, 3)
		c := make(orb.Collection, n)
		for i := range c {
			c[i] = genGeom(r, o, depth+1)
		}
		return c
	}
}

// forEachVertex calls f with a pointer to every vertex reachable from g (slices only;
// Point and Bound values are not addressable through the interface).
func forEachVertex(g orb.Geometry, f func(p *orb.Point)) {
	switch g := g.(type) {
	case orb.MultiPoint:
		for i := range g {
			f(&g[i])
		}
	case orb.LineString:
		for i := range g {
			f(&g[i])
		}
	case orb.Ring:
		for i := range g {
			f(&g[i])
		}
	case orb.MultiLineString:
		for _, l := range g {
			forEachVertex(l, f)
		}
	case orb.Polygon:
		for _, l := range g {
			forEachVertex(l, f)
		}
	case orb.MultiPolygon:
		for _, l := range g {
			forEachVertex(l, f)
		}
	case orb.Collection:
		for _, l := range g {
			forEachVertex(l, f)
		}
	}
}
