module orbverif

go 1.15

require github.com/paulmach/orb v0.0.0

replace github.com/paulmach/orb => /repo
