module orbverif

go 1.15

require (
	github.com/paulmach/orb v0.0.0
	go.mongodb.org/mongo-driver v1.11.4
)

replace github.com/paulmach/orb => /repo
