package main

import (
	"math"

	"github.com/paulmach/orb"
)

// Near-miss coordinates for the clip properties (C07 lines, C08 rings / points / bounds / everything).
//
// The clip functions decide by comparing input coordinates with the box edges (bitCode, Bound.Contains,
// Bound.Intersects, math.Max / math.Min): exact comparisons, no rounding.  A generator that only places
// coordinates ON an edge or comfortably away from it (>= 0.001 of the box width) cannot tell `<=` from
// `<= + 1e-9`: a padded test, a "within the box up to rounding" fast path, a tolerance in a membership
// test all pass.  The classes below sit next to an edge value e, on either side of it:
//
//	one ulp, two ulps, 3..8 ulps, and a log-uniform distance in [1e-15, 1e-7], absolute or scaled by max(1,|e|)
//
// A drawn distance that e absorbs (e +- d == e) becomes one ulp, so a near miss is never e itself (the
// class "exactly on the edge" exists separately in every generator).

type clipRng interface {
	Intn(int) int
	Float64() float64
}

// clipNearMiss returns a value next to e, above it (dir = +1) or below it (dir = -1).
func clipNearMiss(r clipRng, e float64, dir int) float64 {
	inf := math.Inf(dir)
	v := e
	switch r.Intn(7) {
	case 0:
		v = math.Nextafter(e, inf)
	case 1:
		v = math.Nextafter(math.Nextafter(e, inf), inf)
	case 2:
		for k := 3 + r.Intn(6); k > 0; k-- {
			v = math.Nextafter(v, inf)
		}
	default:
		d := math.Pow(10, -15+8*r.Float64())
		if r.Intn(2) == 0 {
			d *= math.Max(1, math.Abs(e))
		}
		v = e + float64(dir)*d
	}
	if v == e || math.IsInf(v, 0) || math.IsNaN(v) {
		v = math.Nextafter(e, inf)
	}
	return v
}

// clipNearCoord returns a near miss of lo or of hi, inside the interval [lo, hi] or (unless insideOnly)
// outside it.  lo < hi is assumed; an inside value that would leave the interval on the other side
// (an interval narrower than the distance drawn) becomes one ulp.
func clipNearCoord(r clipRng, lo, hi float64, insideOnly bool) float64 {
	outside := !insideOnly && r.Intn(2) == 0
	if r.Intn(2) == 0 {
		if outside {
			return clipNearMiss(r, lo, -1)
		}
		if v := clipNearMiss(r, lo, +1); v < hi {
			return v
		}
		return math.Nextafter(lo, math.Inf(1))
	}
	if outside {
		return clipNearMiss(r, hi, +1)
	}
	if v := clipNearMiss(r, hi, -1); v > lo {
		return v
	}
	return math.Nextafter(hi, math.Inf(-1))
}

// clipNearOffsets is the deterministic sweep of the same classes around e: 1 and 2 ulps, 5 ulps, and the decades
// 1e-15 .. 1e-7 (absolute), below and above e; values e absorbs are left out.
func clipNearOffsets(e float64) []float64 {
	var out []float64
	add := func(v float64) {
		if v == e {
			return
		}
		for _, o := range out {
			if o == v {
				return
			}
		}
		out = append(out, v)
	}
	for _, dir := range []int{-1, 1} {
		inf := math.Inf(dir)
		v := e
		for k := 1; k <= 5; k++ {
			v = math.Nextafter(v, inf)
			if k == 1 || k == 2 || k == 5 {
				add(v)
			}
		}
		for ex := -15; ex <= -7; ex++ {
			add(e + float64(dir)*math.Pow(10, float64(ex)))
		}
	}
	return out
}

// clipNudgePoint moves one or both coordinates of p to a near miss of the box (one time in four both: next to a corner).
func clipNudgePoint(r clipRng, b orb.Bound, p orb.Point, insideOnly bool) orb.Point {
	k := r.Intn(4)
	if k != 1 {
		p[0] = clipNearCoord(r, b.Min[0], b.Max[0], insideOnly)
	}
	if k != 0 && k != 2 {
		p[1] = clipNearCoord(r, b.Min[1], b.Max[1], insideOnly)
	}
	return p
}

// clipNudgeGeom returns a copy of g in which every vertex (every Point value, vertex of a slice, corner of a Bound)
// has been moved, with probability 1/every, to a near miss of the box.
func clipNudgeGeom(r clipRng, b orb.Bound, g orb.Geometry, every int) orb.Geometry {
	nd := func(p orb.Point) orb.Point {
		if r.Intn(every) == 0 {
			return clipNudgePoint(r, b, p, false)
		}
		return p
	}
	nds := func(ps []orb.Point) []orb.Point {
		if ps == nil {
			return nil
		}
		out := make([]orb.Point, len(ps))
		for i, p := range ps {
			out[i] = nd(p)
		}
		return out
	}
	switch g := g.(type) {
	case orb.Point:
		return nd(g)
	case orb.MultiPoint:
		return orb.MultiPoint(nds(g))
	case orb.LineString:
		return orb.LineString(nds(g))
	case orb.Ring:
		closed := len(g) > 1 && g[0] == g[len(g)-1]
		out := orb.Ring(nds(g))
		if closed { // a closed ring stays closed
			out[len(out)-1] = out[0]
		}
		return out
	case orb.MultiLineString:
		if g == nil {
			return g
		}
		out := make(orb.MultiLineString, len(g))
		for i, l := range g {
			out[i] = clipNudgeGeom(r, b, l, every).(orb.LineString)
		}
		return out
	case orb.Polygon:
		if g == nil {
			return g
		}
		out := make(orb.Polygon, len(g))
		for i, l := range g {
			out[i] = clipNudgeGeom(r, b, l, every).(orb.Ring)
		}
		return out
	case orb.MultiPolygon:
		if g == nil {
			return g
		}
		out := make(orb.MultiPolygon, len(g))
		for i, l := range g {
			out[i] = clipNudgeGeom(r, b, l, every).(orb.Polygon)
		}
		return out
	case orb.Collection:
		if g == nil {
			return g
		}
		out := make(orb.Collection, len(g))
		for i, l := range g {
			if l != nil {
				out[i] = clipNudgeGeom(r, b, l, every)
			}
		}
		return out
	case orb.Bound:
		return orb.Bound{Min: nd(g.Min), Max: nd(g.Max)}
	}
	return g
}
