package main

// C03 — "a returned value must stay what it was" (strengthening after the white-box round).
//
// Every result of mvt.Marshal / MarshalGzipped / Unmarshal / UnmarshalGzipped that an op of C03
// obtains is KEPT (the slice / the Layers value itself, plus a copy resp. a fingerprint taken at
// return time) while the library is called again on DIFFERENT data, and re-examined afterwards:
//
//   stage decoy<i>  four rounds of Marshal, MarshalGzipped, Unmarshal, UnmarshalGzipped on decoy
//                   tiles: C = the case's own layers perturbed (same shape and size, every
//                   coordinate / string / number different), A = one point feature (smaller than
//                   any case), B = 42 features of every kind with 3..44 vertices and a dozen
//                   properties in two layers (larger than the random cases), C again;
//   stage input     the byte slices that were HANDED to Unmarshal / UnmarshalGzipped are overwritten
//                   (a decoded value must not alias its input);
//   stage sibling   a second result of the same call on the same bytes is scribbled over
//                   (two results must not share memory);
//   stage append    every kept slice (bytes, layers, features, lines, rings, polygons …) with
//                   spare capacity gets a sentinel written just behind its end, as an append by
//                   the caller would do (results must not overlap each other).
//
// The outcome section  K <kept> <decoy calls> ok | changed <name>@<stage> …  is judged by the
// driver (`propfail kept-result`); the U / G sections are the values at return time, so a kept
// value that survives all stages is also the value the model was compared with.

import (
	"bytes"
	"fmt"
	"math"
	"runtime"
	"runtime/debug"
	"sort"
	"strconv"
	"strings"
	"sync"

	"github.com/paulmach/orb"
	"github.com/paulmach/orb/encoding/mvt"
	"github.com/paulmach/orb/geojson"
)

// ---------------------------------------------------------------- fingerprint of decoded layers

type c03Hash uint64

const c03HashInit c03Hash = 14695981039346656037

func (h *c03Hash) word(v uint64) {
	x := uint64(*h)
	for i := 0; i < 8; i++ {
		x ^= v & 0xff
		x *= 1099511628211
		v >>= 8
	}
	*h = c03Hash(x)
}

func (h *c03Hash) str(s string) {
	x := uint64(*h)
	for i := 0; i < len(s); i++ {
		x ^= uint64(s[i])
		x *= 1099511628211
	}
	*h = c03Hash(x)
	h.word(uint64(len(s)))
}

func (h *c03Hash) pts(tag uint64, ps []orb.Point) {
	h.word(tag)
	if ps == nil {
		h.word(0xffffffff)
		return
	}
	h.word(uint64(len(ps)))
	for _, p := range ps {
		h.word(math.Float64bits(p[0]))
		h.word(math.Float64bits(p[1]))
	}
}

func (h *c03Hash) geom(g orb.Geometry) {
	switch t := g.(type) {
	case nil:
		h.word(100)
	case orb.Point:
		h.word(101)
		h.word(math.Float64bits(t[0]))
		h.word(math.Float64bits(t[1]))
	case orb.MultiPoint:
		h.pts(102, t)
	case orb.LineString:
		h.pts(103, t)
	case orb.Ring:
		h.pts(104, t)
	case orb.MultiLineString:
		h.word(105)
		h.word(uint64(len(t)))
		for _, l := range t {
			h.pts(103, l)
		}
	case orb.Polygon:
		h.word(106)
		h.word(uint64(len(t)))
		for _, r := range t {
			h.pts(104, r)
		}
	case orb.MultiPolygon:
		h.word(107)
		h.word(uint64(len(t)))
		for _, p := range t {
			h.word(uint64(len(p)))
			for _, r := range p {
				h.pts(104, r)
			}
		}
	case orb.Collection:
		h.word(108)
		h.word(uint64(len(t)))
		for _, m := range t {
			h.geom(m)
		}
	case orb.Bound:
		h.word(109)
		h.word(math.Float64bits(t.Min[0]))
		h.word(math.Float64bits(t.Min[1]))
		h.word(math.Float64bits(t.Max[0]))
		h.word(math.Float64bits(t.Max[1]))
	default:
		h.str(fmt.Sprintf("%T", g))
	}
}

func (h *c03Hash) val(v interface{}) {
	switch t := v.(type) {
	case nil:
		h.word(200)
	case string:
		h.word(201)
		h.str(t)
	case float64:
		h.word(202)
		h.word(math.Float64bits(t))
	case bool:
		h.word(203)
		if t {
			h.word(1)
		}
	default:
		h.str(fmt.Sprintf("%T:%v", v, v))
	}
}

// c03Fingerprint walks everything c03ShowDecoded prints (and the nil-ness it does not).
func c03Fingerprint(ls mvt.Layers, err error) uint64 {
	h := c03HashInit
	if err != nil {
		h.str("err:" + err.Error())
		return uint64(h)
	}
	if ls == nil {
		h.word(1)
	}
	h.word(uint64(len(ls)))
	for _, l := range ls {
		if l == nil {
			h.word(2)
			continue
		}
		h.str(l.Name)
		h.word(uint64(l.Version))
		h.word(uint64(l.Extent))
		h.word(uint64(len(l.Features)))
		for _, f := range l.Features {
			if f == nil {
				h.word(3)
				continue
			}
			h.val(f.ID)
			h.str(f.Type)
			h.geom(f.Geometry)
			if f.BBox != nil {
				h.word(uint64(len(f.BBox)))
			}
			h.word(uint64(len(f.Properties)))
			var sum uint64 // order independent
			for k, v := range f.Properties {
				e := c03HashInit
				e.str(k)
				e.val(v)
				sum += uint64(e)
			}
			h.word(sum)
		}
	}
	return uint64(h)
}

// ---------------------------------------------------------------- the keeper

type c03KeptBytes struct {
	name string
	b    []byte // the slice the library returned
	copy []byte // its content at return time
}

type c03KeptLayers struct {
	name string
	ls   mvt.Layers
	err  error
	fp   uint64
}

type c03Keeper struct {
	bs      []*c03KeptBytes
	ls      []*c03KeptLayers
	inputs  [][]byte // private copies handed to the decoders
	changed []string
	seen    map[string]bool
	calls   int
	redo    []c03Redo // the decoder calls of the op, repeated in stage `twin` (c03_wb2.go)
	argChanged bool   // a Marshal call changed its argument (c03_wb2.go)
	salt    int // which of the fixed decoys also goes through MarshalGzipped (alternates with the case)
}

// The gzip writers of the decoy calls allocate 1.4 MB each; with the default GC percentage and the
// small live heap of this process the collector would run after every third one.
var c03GCOnce sync.Once

func (k *c03Keeper) flag(name, stage string) {
	if k.seen == nil {
		k.seen = map[string]bool{}
	}
	if k.seen[name] { // the first stage at which a value is seen changed
		return
	}
	k.seen[name] = true
	k.changed = append(k.changed, name+"@"+stage)
}

// keepBytes records a byte slice returned by the library.
func (k *c03Keeper) keepBytes(name string, b []byte) []byte {
	k.bs = append(k.bs, &c03KeptBytes{name, b, append([]byte(nil), b...)})
	return b
}

// keepLayers records a decoded value.
func (k *c03Keeper) keepLayers(name string, ls mvt.Layers, err error) {
	k.ls = append(k.ls, &c03KeptLayers{name, ls, err, c03Fingerprint(ls, err)})
}

// input returns a private copy of b to hand to a decoder; it is overwritten in stage `input`.
func (k *c03Keeper) input(b []byte) []byte {
	c := append(make([]byte, 0, len(b)+8), b...)
	k.inputs = append(k.inputs, c)
	return c
}

func (k *c03Keeper) verify(stage string) {
	for _, e := range k.bs {
		if !bytes.Equal(e.b, e.copy) {
			k.flag(e.name, stage)
		}
	}
	for _, e := range k.ls {
		fp := uint64(0)
		if guard(func() string { fp = c03Fingerprint(e.ls, e.err); return "" }) != "" || fp != e.fp {
			k.flag(e.name, stage)
		}
	}
}

// decode unmarshals a private copy of data twice and keeps both values; the decoder must leave
// its input alone and give the same value both times.  Returns the first result.
func (k *c03Keeper) decode(name string, data []byte, f func([]byte) (mvt.Layers, error)) (mvt.Layers, error) {
	in := k.input(data)
	k.redo = append(k.redo, c03Redo{name, append([]byte(nil), data...), f})
	l, err := f(in)
	k.keepLayers(name, l, err)
	if !bytes.Equal(in, data) {
		k.flag(name+"-input", "modified")
	}
	l2, err2 := f(k.input(data))
	k.keepLayers(name+"2", l2, err2)
	if k.ls[len(k.ls)-1].fp != k.ls[len(k.ls)-2].fp {
		k.flag(name+"2", "differs")
	}
	return l, err
}

// disturb runs all stages; ls is the case (nil when the op has no layer list: fixed decoys only).
func (k *c03Keeper) disturb(ls []c03Layer) {
	if k.seen == nil {
		k.seen = map[string]bool{}
	}
	c03GCOnce.Do(func() {
		debug.SetGCPercent(400)
		// One P: a sync.Pool hands an object back to the goroutine that put it there only on the same
		// P; with many Ps on a loaded machine the goroutine migrates and a pooled-buffer defect shows
		// on some runs of a case and not on others (seen with C03-wb2: replays must reproduce).
		runtime.GOMAXPROCS(1)
	})
	for _, e := range k.bs {
		k.salt += len(e.b)
	}
	k.verify("return") // nothing has happened yet except the op's own calls
	k.twins()           // the parts of one decoded value are independent of each other
	var own *c03Decoy
	if ls != nil {
		own = c03DecoyOf(c03Perturb(ls))
	}
	a, b := c03FixedDecoys()
	for i, d := range []*c03Decoy{own, a, b, own} {
		if d == nil {
			continue
		}
		// MarshalGzipped: the perturbed case (first time) and one of the two fixed decoys
		k.calls += d.run(i == 0 || (i < 3 && (k.salt+i)%2 == 0))
		k.verify("decoy" + strconv.Itoa(i))
	}
	// the decoders' inputs are reused by the caller
	for _, in := range k.inputs {
		in = in[:cap(in)]
		for i := range in {
			in[i] = 0xa5
		}
	}
	k.verify("input")
	// every second result of one call is scribbled over
	for _, e := range k.ls {
		if strings.HasSuffix(e.name, "2") {
			guard(func() string { c03Scribble(e.ls); return "" })
			e.fp = c03Fingerprint(e.ls, e.err)
		}
	}
	k.verify("sibling")
	// appends by the caller
	for _, e := range k.bs {
		if cap(e.b) > len(e.b) {
			e.b[:len(e.b)+1][len(e.b)] ^= 0xff
		}
	}
	for _, e := range k.ls {
		guard(func() string { c03AppendProbe(e.ls); return "" })
	}
	k.verify("append")
}

// section renders the K section.
func (k *c03Keeper) section() string {
	s := fmt.Sprintf("K %d %d", len(k.bs)+len(k.ls), k.calls)
	if len(k.changed) == 0 {
		return s + " ok"
	}
	sort.Strings(k.changed)
	if len(k.changed) > 12 {
		k.changed = append(k.changed[:12], "more")
	}
	return s + " changed " + strings.Join(k.changed, " ")
}

// ---------------------------------------------------------------- scribbling and the append probe

var c03Sentinel = orb.Point{-71234.5, 61234.25}

func c03ScribbleGeom(g orb.Geometry) orb.Geometry {
	switch t := g.(type) {
	case orb.Point:
		return c03Sentinel
	case orb.Bound:
		return orb.Bound{Min: c03Sentinel, Max: c03Sentinel}
	case orb.Collection:
		for i := range t {
			t[i] = c03ScribbleGeom(t[i])
		}
		return t
	default:
		forEachVertex(g, func(p *orb.Point) { *p = c03Sentinel })
		return g
	}
}

// c03Scribble overwrites everything reachable from a decoded value.
func c03Scribble(ls mvt.Layers) {
	for i, l := range ls {
		if l == nil {
			continue
		}
		l.Name = "scribbled" + strconv.Itoa(i)
		l.Version, l.Extent = 77, 77
		for j, f := range l.Features {
			if f == nil {
				continue
			}
			f.ID = "scribbled"
			f.Geometry = c03ScribbleGeom(f.Geometry)
			for key := range f.Properties {
				f.Properties[key] = "scribbled"
			}
			if f.Properties != nil {
				f.Properties["scribbled"] = j
			}
		}
		for j := range l.Features {
			l.Features[j] = nil
		}
	}
	for i := range ls {
		ls[i] = nil
	}
}

func c03ProbePts(ps []orb.Point) {
	if cap(ps) > len(ps) {
		ps[:len(ps)+1][len(ps)] = c03Sentinel
	}
}

func c03ProbeGeom(g orb.Geometry) {
	switch t := g.(type) {
	case orb.MultiPoint:
		c03ProbePts(t)
	case orb.LineString:
		c03ProbePts(t)
	case orb.Ring:
		c03ProbePts(t)
	case orb.MultiLineString:
		for _, l := range t {
			c03ProbePts(l)
		}
		if cap(t) > len(t) {
			t[:len(t)+1][len(t)] = orb.LineString{c03Sentinel}
		}
	case orb.Polygon:
		for _, r := range t {
			c03ProbePts(r)
		}
		if cap(t) > len(t) {
			t[:len(t)+1][len(t)] = orb.Ring{c03Sentinel}
		}
	case orb.MultiPolygon:
		for _, p := range t {
			c03ProbeGeom(p)
		}
		if cap(t) > len(t) {
			t[:len(t)+1][len(t)] = orb.Polygon{{c03Sentinel}}
		}
	case orb.Collection:
		for _, m := range t {
			c03ProbeGeom(m)
		}
		if cap(t) > len(t) {
			t[:len(t)+1][len(t)] = c03Sentinel
		}
	}
}

// c03AppendProbe writes one element behind the end of every slice with spare capacity.
func c03AppendProbe(ls mvt.Layers) {
	for _, l := range ls {
		if l == nil {
			continue
		}
		for _, f := range l.Features {
			if f != nil {
				c03ProbeGeom(f.Geometry)
			}
		}
		if cap(l.Features) > len(l.Features) {
			l.Features[:len(l.Features)+1][len(l.Features)] = geojson.NewFeature(c03Sentinel)
		}
	}
	if cap(ls) > len(ls) {
		ls[:len(ls)+1][len(ls)] = &mvt.Layer{Name: "probe"}
	}
}

// ---------------------------------------------------------------- decoys

type c03Decoy struct {
	layers mvt.Layers
	m, g   []byte // private copies of its tile, plain and gzipped: the decoders' inputs
}

func c03DecoyOf(ls []c03Layer) *c03Decoy {
	d := &c03Decoy{}
	if guard(func() string { d.layers = c03Build(ls, 0); return "" }) != "" {
		return nil
	}
	return d
}

// run: one call of each entry point on this decoy (MarshalGzipped only when asked: its writer
// costs 1.4 MB; the gzipped decoder then reads the bytes of an earlier call or of compress/gzip);
// returns the number of calls made.
func (d *c03Decoy) run(gzToo bool) (calls int) {
	guard(func() string {
		m, err := mvt.Marshal(d.layers)
		calls++
		if err == nil && d.m == nil {
			d.m = append([]byte{}, m...)
		}
		return ""
	})
	if gzToo {
		guard(func() string {
			g, err := mvt.MarshalGzipped(d.layers)
			calls++
			if err == nil && d.g == nil {
				d.g = append([]byte{}, g...)
			}
			return ""
		})
	}
	if d.m != nil {
		if d.g == nil {
			d.g = mvtGzip(d.m)
		}
		guard(func() string { mvt.Unmarshal(append([]byte(nil), d.m...)); calls++; return "" })
		guard(func() string { mvt.UnmarshalGzipped(append([]byte(nil), d.g...)); calls++; return "" })
	}
	return
}

var c03DecoyA, c03DecoyB *c03Decoy

func c03FixedDecoys() (*c03Decoy, *c03Decoy) {
	if c03DecoyA == nil {
		c03DecoyA = c03DecoyOf([]c03Layer{{name: "a", version: 1, extent: 256, feats: []c03Feat{{id: "-", geom: orb.Point{7, 7}}}}})
		var l1, l2 c03Layer
		l1 = c03Layer{name: "decoy-one", version: 2, extent: 512}
		l2 = c03Layer{name: "decoy-two", version: 1, extent: 8192}
		for i := 0; i < 42; i++ {
			pts := make([]orb.Point, 3+i)
			for j := range pts {
				pts[j] = orb.Point{float64(1000 + 13*i + j), float64(2000 - 7*j + i)}
			}
			sq := func(o, s float64) orb.Ring { return orb.Ring{{o, o}, {o + s, o}, {o + s, o + s}, {o, o + s}, {o, o}} }
			hole := func(o, s float64) orb.Ring { return orb.Ring{{o, o}, {o, o + s}, {o + s, o + s}, {o + s, o}, {o, o}} }
			var g orb.Geometry
			switch i % 7 {
			case 0:
				g = orb.LineString(pts)
			case 1:
				g = orb.Polygon{sq(900+float64(i), 90), hole(910+float64(i), 10), hole(930+float64(i), 5)}
			case 2:
				g = orb.MultiPoint(pts)
			case 3:
				g = orb.MultiLineString{orb.LineString(pts[:2]), orb.LineString(pts[1:])}
			case 4:
				g = orb.MultiPolygon{{sq(float64(i), 50)}, {sq(500+float64(i), 40), hole(510+float64(i), 7)}}
			case 5:
				g = orb.Point{float64(i), float64(-i)}
			default:
				g = sq(3000+float64(i), 3)
			}
			f := c03Feat{id: fmt.Sprintf("u:uint64:%d", 7000+i), geom: g, props: []c03Prop{
				{"decoy", "s:" + c03H("yes")}, {"n", fmt.Sprintf("i:int:%d", -i)}, {"w", "f64:" + fb(float64(i)+0.5)},
				{"flag", "b:" + strconv.Itoa(i%2)}, {fmt.Sprintf("own%d", i), "s:" + c03H(strings.Repeat("v", i))},
				{"tags", "j:strs:" + c03H(`["d","e"]`)}, {"u8", fmt.Sprintf("u:uint8:%d", i)}, {"f", "f32:3fc00000"}, {"nothing", "nil"},
			}}
			if i%2 == 0 {
				l1.feats = append(l1.feats, f)
			} else {
				l2.feats = append(l2.feats, f)
			}
		}
		c03DecoyB = c03DecoyOf([]c03Layer{l1, l2})
	}
	return c03DecoyA, c03DecoyB
}

func c03ShiftPts(ps []orb.Point) []orb.Point {
	if ps == nil {
		return nil
	}
	out := make([]orb.Point, len(ps))
	for i, p := range ps {
		out[i] = orb.Point{p[0] + 37, p[1] - 41}
	}
	return out
}

// c03ShiftGeom: a deep copy with every vertex moved (typed nils and empty parts are kept as they are).
func c03ShiftGeom(g orb.Geometry) orb.Geometry {
	switch t := g.(type) {
	case orb.Point:
		return orb.Point{t[0] + 37, t[1] - 41}
	case orb.Bound:
		return orb.Bound{Min: orb.Point{t.Min[0] + 37, t.Min[1] - 41}, Max: orb.Point{t.Max[0] + 37, t.Max[1] - 41}}
	case orb.MultiPoint:
		return orb.MultiPoint(c03ShiftPts(t))
	case orb.LineString:
		return orb.LineString(c03ShiftPts(t))
	case orb.Ring:
		return orb.Ring(c03ShiftPts(t))
	case orb.MultiLineString:
		if t == nil {
			return t
		}
		out := make(orb.MultiLineString, len(t))
		for i := range t {
			out[i] = orb.LineString(c03ShiftPts(t[i]))
		}
		return out
	case orb.Polygon:
		if t == nil {
			return t
		}
		out := make(orb.Polygon, len(t))
		for i := range t {
			out[i] = orb.Ring(c03ShiftPts(t[i]))
		}
		return out
	case orb.MultiPolygon:
		if t == nil {
			return t
		}
		out := make(orb.MultiPolygon, len(t))
		for i := range t {
			out[i], _ = c03ShiftGeom(t[i]).(orb.Polygon)
		}
		return out
	case orb.Collection:
		if t == nil {
			return t
		}
		out := make(orb.Collection, len(t))
		for i := range t {
			out[i] = c03ShiftGeom(t[i])
		}
		return out
	}
	return g
}

func c03PerturbTok(tok string) string {
	p := strings.Split(tok, ":")
	switch p[0] {
	case "s":
		return "s:" + c03H(c03UnH(p[1])+"~")
	case "b":
		if p[1] == "1" {
			return "b:0"
		}
		return "b:1"
	case "i", "u":
		if p[2] == "1" {
			return p[0] + ":" + p[1] + ":2"
		}
		return p[0] + ":" + p[1] + ":1"
	case "f32":
		if p[1] == "3f000000" {
			return "f32:3e800000"
		}
		return "f32:3f000000"
	case "f64":
		if p[1] == "3fe0000000000000" {
			return "f64:3fd0000000000000"
		}
		return "f64:3fe0000000000000"
	case "j":
		if len(p) > 2 {
			return "s:" + c03H(c03UnH(p[2])+"~")
		}
	}
	return "s:" + c03H("~"+p[0]) // nil, failing and unsupported values: a decoy must marshal
}

func c03PerturbID(tok string) string {
	p := strings.Split(tok, ":")
	switch p[0] {
	case "i", "u":
		if v, err := strconv.ParseUint(p[2], 10, 62); err == nil {
			return "u:uint64:" + strconv.FormatUint(v+1, 10)
		}
	case "-":
		return "-"
	}
	return "u:uint64:5"
}

// c03Perturb: the case's own layers with every name, key, value, id and coordinate changed and the
// features of every layer in reverse order — a tile of the same shape and (almost) the same size.
func c03Perturb(ls []c03Layer) []c03Layer {
	out := make([]c03Layer, len(ls))
	for i, l := range ls {
		nl := c03Layer{name: l.name + "~", version: l.version, extent: l.extent, feats: make([]c03Feat, 0, len(l.feats))}
		for j := len(l.feats) - 1; j >= 0; j-- {
			f := l.feats[j]
			nf := c03Feat{id: c03PerturbID(f.id), nilProps: f.nilProps}
			if guard(func() string { nf.geom = c03ShiftGeom(f.geom); return "" }) != "" {
				nf.geom = orb.Point{1, 1}
			}
			if _, isColl := nf.geom.(orb.Collection); isColl {
				nf.geom = orb.LineString{{1, 2}, {3, 4}} // only the first member would be written: a plain line instead
			}
			for _, p := range f.props {
				nf.props = append(nf.props, c03Prop{p.key + "~", c03PerturbTok(p.tok)})
			}
			nl.feats = append(nl.feats, nf)
		}
		out[i] = nl
	}
	return out
}
