package main

import (
	"fmt"
	"math"
	"strings"

	"github.com/paulmach/orb"
)

func init() { register(&Prop{ID: "C06", Run: runC06, Gen: genC06}) }

// independent reports whether mutating any vertex of a leaves b's value unchanged and vice versa.
func independent(a, b orb.Geometry) bool {
	sa, sb := gs(a), gs(b)
	ok := true
	sentinel := orb.Point{math.Float64frombits(0x4197d78400000000), math.Float64frombits(0xc197d78400000000)}
	forEachVertex(a, func(p *orb.Point) {
		old := *p
		*p = sentinel
		if gs(b) != sb {
			ok = false
		}
		*p = old
	})
	forEachVertex(b, func(p *orb.Point) {
		old := *p
		*p = sentinel
		if gs(a) != sa {
			ok = false
		}
		*p = old
	})
	return ok
}

func sbound(b orb.Bound) string {
	return fb(b.Min[0]) + " " + fb(b.Min[1]) + " " + fb(b.Max[0]) + " " + fb(b.Max[1])
}

func rdBound(r *tokReader) orb.Bound { a := r.pt(); b := r.pt(); return orb.Bound{Min: a, Max: b} }

func spts(ps []orb.Point) string {
	var sb strings.Builder
	wPts(&sb, ps)
	return strings.TrimSpace(sb.String())
}

func runC06(op string, in []string) string {
	return guard(func() string {
		r := &tokReader{t: in}
		switch op {
		case "geom":
			g := r.geom()
			before := gs(g)
			c := orb.Clone(g)
			eq := orb.Equal(g, c)
			ind := independent(g, c)
			bs := "nobound"
			if g != nil {
				bs = sbound(g.Bound())
			}
			if gs(g) != before {
				return "mutated-argument"
			}
			return gs(c) + " " + b2s(eq) + " " + b2s(ind) + " " + bs
		case "pair":
			g := r.geom()
			h := r.geom()
			return b2s(orb.Equal(g, h)) + " " + b2s(orb.Equal(h, g))
		case "bounds":
			b1, b2, b3 := rdBound(r), rdBound(r), rdBound(r)
			p := r.pt()
			return strings.Join([]string{
				sbound(b1.Union(b2)), sbound(b2.Union(b1)), sbound(b1.Union(b2).Union(b3)), sbound(b1.Union(b2.Union(b3))),
				sbound(b1.Extend(p)), b2s(b1.Contains(p)), b2s(b1.Intersects(b2)), b2s(b2.Intersects(b1)), sbound(b1.Union(b1)),
			}, " ")
		case "rev":
			ls := orb.LineString(r.pts())
			ls.Reverse()
			s1 := spts(ls)
			ls.Reverse()
			return s1 + " " + spts(ls)
		case "orient":
			rg := orb.Ring(r.pts())
			o := rg.Orientation()
			rg.Reverse()
			return fmt.Sprintf("%d %d", o, rg.Orientation())
		}
		return "badop"
	})
}

func genBoundVal(c *Ctx, m CoordMode) orb.Bound {
	r := c.Rng
	switch r.Intn(8) {
	case 0:
		return orb.Bound{Min: orb.Point{1, 1}, Max: orb.Point{-1, -1}} // the package's empty sentinel
	case 1: // some other empty box
		a, b := genPoint(r, m), genPoint(r, m)
		if a[0] <= b[0] {
			a[0], b[0] = b[0]+1, a[0]
		}
		return orb.Bound{Min: a, Max: b}
	case 2: // degenerate: a point
		a := genPoint(r, m)
		return orb.Bound{Min: a, Max: a}
	}
	a, b := genPoint(r, m), genPoint(r, m)
	if a[0] > b[0] {
		a[0], b[0] = b[0], a[0]
	}
	if a[1] > b[1] {
		a[1], b[1] = b[1], a[1]
	}
	return orb.Bound{Min: a, Max: b}
}

// mutate returns a structurally close variant of g (for Equal's negative cases).
func mutateGeom(c *Ctx, g orb.Geometry) orb.Geometry {
	r := c.Rng
	h := orb.Clone(g)
	switch r.Intn(4) {
	case 0: // change one coordinate
		n := 0
		forEachVertex(h, func(*orb.Point) { n++ })
		if n == 0 {
			return h
		}
		k := r.Intn(n)
		i := 0
		forEachVertex(h, func(p *orb.Point) {
			if i == k {
				p[r.Intn(2)] += 1
			}
			i++
		})
		return h
	case 1: // same points, other kind
		switch v := h.(type) {
		case orb.LineString:
			return orb.Ring(v)
		case orb.Ring:
			if r.Intn(2) == 0 {
				return orb.Polygon{v}
			}
			return orb.LineString(v)
		case orb.MultiPoint:
			return orb.LineString(v)
		case orb.Polygon:
			return orb.MultiLineString(polyToMLS(v))
		case orb.Bound:
			return v.ToPolygon()
		case orb.MultiLineString:
			p := make(orb.Polygon, len(v))
			for i := range v {
				p[i] = orb.Ring(v[i])
			}
			return p
		}
		return h
	case 2: // drop / add a trailing member or vertex
		switch v := h.(type) {
		case orb.LineString:
			if len(v) > 0 {
				return v[:len(v)-1]
			}
			return append(v, orb.Point{1, 2})
		case orb.MultiPoint:
			return append(v, orb.Point{1, 2})
		case orb.Collection:
			if len(v) > 0 {
				return v[:len(v)-1]
			}
			return append(v, orb.Point{})
		case orb.Polygon:
			return append(v, orb.Ring{})
		case orb.MultiPolygon:
			return append(v, orb.Polygon{})
		}
		return h
	}
	return h // identical copy
}

func polyToMLS(p orb.Polygon) orb.MultiLineString {
	m := make(orb.MultiLineString, len(p))
	for i := range p {
		m[i] = orb.LineString(p[i])
	}
	return m
}

func genC06(c *Ctx) {
	r := c.Rng
	// fixed family: every AllGeometries value and the empty-member-first shapes
	if c.Shard == 0 {
		for _, g := range orb.AllGeometries {
			c.Case("geom", gs(g))
			for _, h := range orb.AllGeometries {
				c.Case("pair", gs(g)+" "+gs(h))
			}
		}
		e := orb.LineString{}
		l := orb.LineString{{5, 5}, {6, 6}}
		for _, g := range []orb.Geometry{
			orb.MultiLineString{e, l}, orb.MultiLineString{l, e}, orb.MultiLineString{e, e, l},
			orb.MultiPolygon{{}, {orb.Ring(l)}}, orb.MultiPolygon{{orb.Ring{}}, {orb.Ring(l)}},
			orb.Collection{orb.MultiPoint{}, l}, orb.Collection{orb.Collection{}, orb.Point{7, 8}},
			orb.Collection{orb.Polygon{}, orb.Collection{orb.LineString{}, orb.Point{-3, -4}}},
		} {
			c.Case("geom", gs(g))
		}
		for n := 0; n <= 7; n++ {
			ps := make([]orb.Point, n)
			for i := range ps {
				ps[i] = orb.Point{float64(i), float64(i * i)}
			}
			c.Case("rev", spts(ps))
			c.Case("orient", spts(ps))
		}
	}
	for k := 0; k < c.Budget && !c.Exhausted(); k++ {
		mode := []CoordMode{CoordSmallInt, CoordSmallInt, CoordInt, CoordHalf, CoordFloat}[r.Intn(5)]
		o := GenOpts{Mode: mode, MaxPts: 5, MaxDepth: 3, TopNil: true}
		g := genGeom(r, o, 0)
		c.Case("geom", gs(g))
		h := mutateGeom(c, g)
		if r.Intn(4) == 0 {
			h = genGeom(r, o, 0)
		}
		c.Case("pair", gs(g)+" "+gs(h))
		b1, b2, b3 := genBoundVal(c, mode), genBoundVal(c, mode), genBoundVal(c, mode)
		p := genPoint(r, mode)
		if r.Intn(3) == 0 { // a point on the boundary / corner of b1
			p = orb.Point{[]float64{b1.Min[0], b1.Max[0]}[r.Intn(2)], []float64{b1.Min[1], b1.Max[1]}[r.Intn(2)]}
		}
		c.Case("bounds", sbound(b1)+" "+sbound(b2)+" "+sbound(b3)+" "+fb(p[0])+" "+fb(p[1]))
		ps := genPoints(r, mode, 9)
		c.Case("rev", spts(ps))
		rg := genRing(r, []CoordMode{CoordSmallInt, CoordInt}[r.Intn(2)], 8)
		c.Case("orient", spts(rg))
	}
}
