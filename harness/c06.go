package main

import (
	"fmt"
	"math"
	"math/rand"
	"strconv"
	"strings"
	"unsafe"

	"github.com/paulmach/orb"
)

func init() { register(&Prop{ID: "C06", Run: runC06, Gen: genC06}) }

// independent reports whether mutating any vertex of a leaves b's value unchanged and vice versa.
func independent(a, b orb.Geometry) bool {
	sa, sb := gs(a), gs(b)
	ok := true
	sentinel := orb.Point{math.Float64frombits(0x4197d78400000000), math.Float64frombits(0xc197d78400000000)}
	forEachVertex(a, func(p *orb.Point) {
		old := *p
		*p = sentinel
		if gs(b) != sb {
			ok = false
		}
		*p = old
	})
	forEachVertex(b, func(p *orb.Point) {
		old := *p
		*p = sentinel
		if gs(a) != sa {
			ok = false
		}
		*p = old
	})
	return ok
}

// ---- alias structure (heap model lean/Orb/Heap.lean) ----

var c06Sentinel = orb.Point{math.Float64frombits(0x4197d78400000000), math.Float64frombits(0xc197d78400000000)}

// pointSlices appends every point slice reachable from g, in traversal order
// (the order of Orb.Heap.footprint).
func pointSlices(g orb.Geometry, out *[][]orb.Point) {
	switch g := g.(type) {
	case orb.MultiPoint:
		*out = append(*out, []orb.Point(g))
	case orb.LineString:
		*out = append(*out, []orb.Point(g))
	case orb.Ring:
		*out = append(*out, []orb.Point(g))
	case orb.MultiLineString:
		for _, l := range g {
			*out = append(*out, []orb.Point(l))
		}
	case orb.Polygon:
		for _, l := range g {
			*out = append(*out, []orb.Point(l))
		}
	case orb.MultiPolygon:
		for _, pg := range g {
			for _, l := range pg {
				*out = append(*out, []orb.Point(l))
			}
		}
	case orb.Collection:
		for _, m := range g {
			pointSlices(m, out)
		}
	}
}

// shareGeom rebuilds g so that the j-th point slice (traversal order) IS the slice of slot slots[j]
// (the same header: same backing array, same length); slot j keeps its own slice when slots[j] == j.
func shareGeom(g orb.Geometry, slots []int, tab *[][]orb.Point) orb.Geometry {
	take := func(own []orb.Point) []orb.Point {
		j := len(*tab)
		s := own
		if j < len(slots) && slots[j] < j {
			s = (*tab)[slots[j]]
		}
		*tab = append(*tab, s)
		return s
	}
	switch g := g.(type) {
	case orb.MultiPoint:
		return orb.MultiPoint(take(g))
	case orb.LineString:
		return orb.LineString(take(g))
	case orb.Ring:
		return orb.Ring(take(g))
	case orb.MultiLineString:
		m := make(orb.MultiLineString, len(g))
		for i := range g {
			m[i] = orb.LineString(take(g[i]))
		}
		return m
	case orb.Polygon:
		m := make(orb.Polygon, len(g))
		for i := range g {
			m[i] = orb.Ring(take(g[i]))
		}
		return m
	case orb.MultiPolygon:
		m := make(orb.MultiPolygon, len(g))
		for i := range g {
			pg := make(orb.Polygon, len(g[i]))
			for k := range g[i] {
				pg[k] = orb.Ring(take(g[i][k]))
			}
			m[i] = pg
		}
		return m
	case orb.Collection:
		m := make(orb.Collection, len(g))
		for i := range g {
			m[i] = shareGeom(g[i], slots, tab)
		}
		return m
	}
	return g
}

// span is the address range of the backing array visible through a header (up to its capacity).
func span(s []orb.Point) (lo, hi uintptr) {
	if cap(s) == 0 {
		return 0, 0
	}
	lo = uintptr(unsafe.Pointer(&s[:1][0])) // base of the backing array (go.mod pins go1.15: no unsafe.SliceData)
	return lo, lo + uintptr(cap(s))*unsafe.Sizeof(orb.Point{})
}

func spansOverlap(a, b []orb.Point) bool {
	al, ah := span(a)
	bl, bh := span(b)
	return al < ah && bl < bh && al < bh && bl < ah
}

// aliasReport: "<n> <class…>" for the non-empty point slices of a, then of b; equal small integers name
// equal backing-array pointers (numbered by first occurrence over both traversals); then two bits: does any
// slice of b overlap (address ranges up to capacity) a slice of a / another slot of b held in a different array.
func aliasReport(a, b orb.Geometry) string {
	var sa, sb [][]orb.Point
	pointSlices(a, &sa)
	pointSlices(b, &sb)
	names := map[unsafe.Pointer]int{}
	cls := func(ss [][]orb.Point) string {
		var out []string
		for _, s := range ss {
			if len(s) == 0 {
				continue
			}
			p := unsafe.Pointer(&s[0])
			n, ok := names[p]
			if !ok {
				n = len(names)
				names[p] = n
			}
			out = append(out, strconv.Itoa(n))
		}
		return strings.TrimSpace(strconv.Itoa(len(out)) + " " + strings.Join(out, " "))
	}
	ca := cls(sa)
	cb := cls(sb)
	ab, bb := false, false
	for i, x := range sb {
		for _, y := range sa {
			if spansOverlap(x, y) {
				ab = true
			}
		}
		for k, y := range sb {
			if k != i && spansOverlap(x, y) {
				bb = true
			}
		}
	}
	return ca + " " + cb + " " + b2s(ab) + " " + b2s(bb)
}

// writeProbe overwrites vertex i of the j-th point slice of `target` and serialises both values.
func writeProbe(target, g, c orb.Geometry, j, i int) string {
	var ss [][]orb.Point
	pointSlices(target, &ss)
	if j >= len(ss) || i >= len(ss[j]) {
		return "nowrite"
	}
	old := ss[j][i]
	ss[j][i] = c06Sentinel
	out := gs(g) + " " + gs(c)
	ss[j][i] = old
	return out
}

func slotsString(slots []int) string {
	var sb strings.Builder
	sb.WriteString(strconv.Itoa(len(slots)))
	for _, s := range slots {
		sb.WriteString(" ")
		sb.WriteString(strconv.Itoa(s))
	}
	return sb.String()
}

// genSlots draws an alias pattern for k point slices: slot j is its own array or the array of an earlier slot.
func genSlots(c *Ctx, k int) []int {
	r := c.Rng
	slots := make([]int, k)
	mode := r.Intn(4) // 0: no sharing, 1: sparse, 2: dense, 3: everything is slot 0
	for j := range slots {
		slots[j] = j
		if j == 0 {
			continue
		}
		switch mode {
		case 1:
			if r.Intn(4) == 0 {
				slots[j] = slots[r.Intn(j)]
			}
		case 2:
			if r.Intn(3) != 0 {
				slots[j] = slots[r.Intn(j)]
			}
		case 3:
			slots[j] = 0
		}
	}
	return slots
}

func aliasCase(c *Ctx, g orb.Geometry, slots []int, j, i int) {
	c.Case("alias", gs(g)+" "+slotsString(slots)+" "+strconv.Itoa(j)+" "+strconv.Itoa(i))
}

// sameMemory: the non-empty point slices of a and of b (traversal order) are pairwise the same
// slice (same first element address, same length).
func sameMemory(a, b orb.Geometry) bool {
	var sa, sb [][]orb.Point
	pointSlices(a, &sa)
	pointSlices(b, &sb)
	ne := func(ss [][]orb.Point) [][]orb.Point {
		var out [][]orb.Point
		for _, s := range ss {
			if len(s) > 0 {
				out = append(out, s)
			}
		}
		return out
	}
	sa, sb = ne(sa), ne(sb)
	if len(sa) != len(sb) {
		return false
	}
	for i := range sa {
		if &sa[i][0] != &sb[i][0] || len(sa[i]) != len(sb[i]) {
			return false
		}
	}
	return true
}

// nilIfaceMembers replaces members of collections (at any depth) by the nil interface.
func nilIfaceMembers(r *rand.Rand, g orb.Geometry, p int) orb.Geometry {
	if c, ok := g.(orb.Collection); ok {
		for i := range c {
			if r.Intn(p) == 0 {
				c[i] = nil
			} else {
				c[i] = nilIfaceMembers(r, c[i], p)
			}
		}
	}
	return g
}

// genNilColl: a collection (possibly nested) with nil-interface members in front of, between and
// behind real members, next to typed nil and empty members.
func genNilColl(r *rand.Rand, o GenOpts) orb.Geometry {
	n := 1 + r.Intn(4)
	c := make(orb.Collection, n)
	o1 := o
	o1.TopNil = false
	for i := range c {
		switch r.Intn(5) {
		case 0:
			c[i] = nil
		case 1: // a typed nil or an empty member
			c[i] = []orb.Geometry{orb.MultiPoint(nil), orb.LineString(nil), orb.Ring(nil), orb.MultiLineString(nil),
				orb.Polygon(nil), orb.MultiPolygon(nil), orb.Collection(nil), orb.MultiPoint{}, orb.Polygon{}, orb.Collection{},
				orb.Polygon{nil}, orb.MultiPolygon{nil}, orb.MultiLineString{nil}, orb.Collection{nil}}[r.Intn(14)]
		default:
			c[i] = genGeom(r, o1, 1)
		}
	}
	return nilIfaceMembers(r, c, 5)
}

// flipNil returns g with nil-ness flipped somewhere: nil slices <-> empty slices (Equal must not see
// it) or, when iface is set, nil interface members <-> empty collections (Equal must see it).
func flipNil(r *rand.Rand, g orb.Geometry, iface bool) orb.Geometry {
	fp := func(ps []orb.Point) []orb.Point {
		if len(ps) != 0 {
			return ps
		}
		if ps == nil {
			return []orb.Point{}
		}
		return nil
	}
	switch v := g.(type) {
	case nil:
		if iface {
			return orb.Collection{}
		}
		return nil
	case orb.MultiPoint:
		return orb.MultiPoint(fp(v))
	case orb.LineString:
		return orb.LineString(fp(v))
	case orb.Ring:
		return orb.Ring(fp(v))
	case orb.MultiLineString:
		if len(v) == 0 {
			if v == nil {
				return orb.MultiLineString{}
			}
			return orb.MultiLineString(nil)
		}
		for i := range v {
			v[i] = fp(v[i])
		}
		return v
	case orb.Polygon:
		if len(v) == 0 {
			if v == nil {
				return orb.Polygon{}
			}
			return orb.Polygon(nil)
		}
		for i := range v {
			v[i] = fp(v[i])
		}
		return v
	case orb.MultiPolygon:
		if len(v) == 0 {
			if v == nil {
				return orb.MultiPolygon{}
			}
			return orb.MultiPolygon(nil)
		}
		for i := range v {
			v[i] = flipNil(r, v[i], iface).(orb.Polygon)
		}
		return v
	case orb.Collection:
		if len(v) == 0 {
			if iface && r.Intn(2) == 0 {
				return nil
			}
			if v == nil {
				return orb.Collection{}
			}
			return orb.Collection(nil)
		}
		for i := range v {
			v[i] = flipNil(r, v[i], iface)
		}
		return v
	}
	return g
}

func sbound(b orb.Bound) string {
	return fb(b.Min[0]) + " " + fb(b.Min[1]) + " " + fb(b.Max[0]) + " " + fb(b.Max[1])
}

func rdBound(r *tokReader) orb.Bound { a := r.pt(); b := r.pt(); return orb.Bound{Min: a, Max: b} }

func spts(ps []orb.Point) string {
	var sb strings.Builder
	wPts(&sb, ps)
	return strings.TrimSpace(sb.String())
}

func runC06(op string, in []string) string {
	return guard(func() string {
		r := &tokReader{t: in}
		switch op {
		case "geom":
			// values travel with their nil-ness (gsN): nil slices at every level, typed nil and
			// nil-interface members of collections; the clone is reported the same way
			g := r.geom()
			before := gsN(g)
			c := orb.Clone(g)
			eq := orb.Equal(g, c)
			ind := independent(g, c)
			bs := "nobound"
			if g != nil {
				bs = sbound(g.Bound())
			}
			if gsN(g) != before {
				return "mutated-argument"
			}
			return gsN(c) + " " + b2s(eq) + " " + b2s(ind) + " " + bs
		case "alias":
			// <geom> k s_0..s_{k-1} j i: the original is <geom> with its j-th point slice replaced by the
			// slice of slot s_j (internal sharing); report values, backing-array identities, the mutation
			// test, and the effect of one write through the original / through the clone.
			g0 := r.geom()
			k := r.int()
			slots := make([]int, k)
			for x := range slots {
				slots[x] = r.int()
			}
			j, i := r.int(), r.int()
			var tab [][]orb.Point
			g := shareGeom(g0, slots, &tab)
			if len(tab) != k {
				return "badslots"
			}
			before := gs(g)
			c := orb.Clone(g)
			if gs(g) != before {
				return "mutated-argument"
			}
			return before + " " + gs(c) + " " + aliasReport(g, c) + " " + b2s(independent(g, c)) + " " +
				writeProbe(g, g, c, j, i) + " " + writeProbe(c, g, c, j, i)
		case "pair":
			g := r.geom()
			h := r.geom()
			return b2s(orb.Equal(g, h)) + " " + b2s(orb.Equal(h, g))
		case "bounds":
			b1, b2, b3 := rdBound(r), rdBound(r), rdBound(r)
			p := r.pt()
			return strings.Join([]string{
				sbound(b1.Union(b2)), sbound(b2.Union(b1)), sbound(b1.Union(b2).Union(b3)), sbound(b1.Union(b2.Union(b3))),
				sbound(b1.Extend(p)), b2s(b1.Contains(p)), b2s(b1.Intersects(b2)), b2s(b2.Intersects(b1)), sbound(b1.Union(b1)),
			}, " ")
		case "rev":
			ls := orb.LineString(r.pts())
			ls.Reverse()
			s1 := spts(ls)
			ls.Reverse()
			return s1 + " " + spts(ls)
		case "orient":
			rg := orb.Ring(r.pts())
			o := rg.Orientation()
			rg.Reverse()
			return fmt.Sprintf("%d %d", o, rg.Orientation())
		case "round", "roundd":
			// round k <factor…> <geom>  : orb.Round(g, factor...)
			// roundd <bits> <geom>      : orb.Round(g) with orb.DefaultRoundingFactor set to <bits>
			// => <result> <the ARGUMENT after the call> <result is the argument's memory> <Round(result, …)>
			var factors []int
			if op == "round" {
				k := r.int()
				for i := 0; i < k; i++ {
					factors = append(factors, r.int())
				}
			} else {
				old := orb.DefaultRoundingFactor
				orb.DefaultRoundingFactor = r.f()
				defer func() { orb.DefaultRoundingFactor = old }()
			}
			g := r.geom()
			res := orb.Round(g, factors...)
			s1, s2 := gsN(res), gsN(g)
			same := sameMemory(res, g)
			res2 := orb.Round(res, factors...)
			return s1 + " " + s2 + " " + b2s(same) + " " + gsN(res2)
		}
		return "badop"
	})
}

func genBoundVal(c *Ctx, m CoordMode) orb.Bound {
	r := c.Rng
	switch r.Intn(8) {
	case 0:
		return orb.Bound{Min: orb.Point{1, 1}, Max: orb.Point{-1, -1}} // the package's empty sentinel
	case 1: // some other empty box
		a, b := genPoint(r, m), genPoint(r, m)
		if a[0] <= b[0] {
			a[0], b[0] = b[0]+1, a[0]
		}
		return orb.Bound{Min: a, Max: b}
	case 2: // degenerate: a point
		a := genPoint(r, m)
		return orb.Bound{Min: a, Max: a}
	}
	a, b := genPoint(r, m), genPoint(r, m)
	if a[0] > b[0] {
		a[0], b[0] = b[0], a[0]
	}
	if a[1] > b[1] {
		a[1], b[1] = b[1], a[1]
	}
	return orb.Bound{Min: a, Max: b}
}

// copyGeom is the harness's own deep copy (nil-ness kept at every level).
func copyGeom(g orb.Geometry) orb.Geometry {
	cp := func(ps []orb.Point) []orb.Point {
		if ps == nil {
			return nil
		}
		return append([]orb.Point{}, ps...)
	}
	switch v := g.(type) {
	case orb.MultiPoint:
		return orb.MultiPoint(cp(v))
	case orb.LineString:
		return orb.LineString(cp(v))
	case orb.Ring:
		return orb.Ring(cp(v))
	case orb.MultiLineString:
		if v == nil {
			return v
		}
		m := make(orb.MultiLineString, len(v))
		for i := range v {
			m[i] = cp(v[i])
		}
		return m
	case orb.Polygon:
		if v == nil {
			return v
		}
		m := make(orb.Polygon, len(v))
		for i := range v {
			m[i] = cp(v[i])
		}
		return m
	case orb.MultiPolygon:
		if v == nil {
			return v
		}
		m := make(orb.MultiPolygon, len(v))
		for i := range v {
			if v[i] != nil {
				m[i] = copyGeom(v[i]).(orb.Polygon)
			}
		}
		return m
	case orb.Collection:
		if v == nil {
			return v
		}
		m := make(orb.Collection, len(v))
		for i := range v {
			m[i] = copyGeom(v[i])
		}
		return m
	}
	return g // nil, Point, Bound
}

// mutate returns a structurally close variant of g (for Equal's negative cases).
func mutateGeom(c *Ctx, g orb.Geometry) orb.Geometry {
	r := c.Rng
	h := copyGeom(g) // not orb.Clone: the generator must not depend on the code under test
	switch r.Intn(6) {
	case 4: // nil slices <-> empty slices: still equal
		return flipNil(r, h, false)
	case 5: // … and nil interface members <-> empty collections: not equal any more
		return flipNil(r, h, true)
	case 0: // change one coordinate
		n := 0
		forEachVertex(h, func(*orb.Point) { n++ })
		if n == 0 {
			return h
		}
		k := r.Intn(n)
		i := 0
		forEachVertex(h, func(p *orb.Point) {
			if i == k {
				p[r.Intn(2)] += 1
			}
			i++
		})
		return h
	case 1: // same points, other kind
		switch v := h.(type) {
		case orb.LineString:
			return orb.Ring(v)
		case orb.Ring:
			if r.Intn(2) == 0 {
				return orb.Polygon{v}
			}
			return orb.LineString(v)
		case orb.MultiPoint:
			return orb.LineString(v)
		case orb.Polygon:
			return orb.MultiLineString(polyToMLS(v))
		case orb.Bound:
			return v.ToPolygon()
		case orb.MultiLineString:
			p := make(orb.Polygon, len(v))
			for i := range v {
				p[i] = orb.Ring(v[i])
			}
			return p
		}
		return h
	case 2: // drop / add a trailing member or vertex
		switch v := h.(type) {
		case orb.LineString:
			if len(v) > 0 {
				return v[:len(v)-1]
			}
			return append(v, orb.Point{1, 2})
		case orb.MultiPoint:
			return append(v, orb.Point{1, 2})
		case orb.Collection:
			if len(v) > 0 {
				return v[:len(v)-1]
			}
			return append(v, orb.Point{})
		case orb.Polygon:
			return append(v, orb.Ring{})
		case orb.MultiPolygon:
			return append(v, orb.Polygon{})
		}
		return h
	}
	return h // identical copy
}

func polyToMLS(p orb.Polygon) orb.MultiLineString {
	m := make(orb.MultiLineString, len(p))
	for i := range p {
		m[i] = orb.LineString(p[i])
	}
	return m
}

// factor arguments of orb.Round: none (the default 1e6), the usual powers of ten, 0 (everything
// becomes NaN), negative, non powers of ten, beyond 2^53 (float64(int) rounds), the extremes
// (float64(MaxInt64) = 2^63, whose int() is out of range), and a second argument (ignored by the code)
var c06Factors = [][]int{nil, nil, {1000000}, {1}, {10}, {100}, {100000}, {0}, {-1}, {-1000}, {3}, {7},
	{1<<53 + 1}, {1 << 40}, {math.MaxInt64}, {math.MinInt64}, {math.MaxInt64 - 512}, {10, 0}}

// values of orb.DefaultRoundingFactor (a float64 package variable): integers, non-integers (int(f)
// truncates them for the members of a collection), out of int range, NaN, infinite, zero, negative
var c06Defaults = []float64{1e6, 1e7, 100, 1, 0.5, 0.1, 2.5, 1e-3, 1e30, math.NaN(), math.Inf(1), -3, 0, 9223372036854775808}

func factorString(fs []int) string {
	s := strconv.Itoa(len(fs))
	for _, f := range fs {
		s += " " + strconv.Itoa(f)
	}
	return s
}

// tieCoords overwrites coordinates of the slices of g by values at and next to the rounding ties of
// factor f: (n+0.5)/f and its two float neighbours.
func tieCoords(r *rand.Rand, g orb.Geometry, f float64) orb.Geometry {
	tie := func() float64 {
		n := float64(r.Intn(4001) - 2000)
		if r.Intn(4) == 0 {
			n = float64(r.Int63n(1<<53)) * []float64{1, -1}[r.Intn(2)]
		}
		x := (n + 0.5) / f
		switch r.Intn(3) {
		case 0:
			return math.Nextafter(x, math.Inf(1))
		case 1:
			return math.Nextafter(x, math.Inf(-1))
		}
		return x
	}
	forEachVertex(g, func(p *orb.Point) {
		if r.Intn(2) == 0 {
			p[r.Intn(2)] = tie()
		}
	})
	switch v := g.(type) {
	case orb.Point:
		return orb.Point{tie(), v[1]}
	case orb.Bound:
		return orb.Bound{Min: orb.Point{tie(), v.Min[1]}, Max: v.Max}
	}
	return g
}

func genC06(c *Ctx) {
	r := c.Rng
	// fixed family: every AllGeometries value and the empty-member-first shapes
	if c.Shard == 0 {
		for _, g := range orb.AllGeometries {
			c.Case("geom", gs(g))
			for _, h := range orb.AllGeometries {
				c.Case("pair", gs(g)+" "+gs(h))
			}
		}
		e := orb.LineString{}
		l := orb.LineString{{5, 5}, {6, 6}}
		for _, g := range []orb.Geometry{
			orb.MultiLineString{e, l}, orb.MultiLineString{l, e}, orb.MultiLineString{e, e, l},
			orb.MultiPolygon{{}, {orb.Ring(l)}}, orb.MultiPolygon{{orb.Ring{}}, {orb.Ring(l)}},
			orb.Collection{orb.MultiPoint{}, l}, orb.Collection{orb.Collection{}, orb.Point{7, 8}},
			orb.Collection{orb.Polygon{}, orb.Collection{orb.LineString{}, orb.Point{-3, -4}}},
		} {
			c.Case("geom", gs(g))
		}
		// nil members at every level: nil rings / lines / polygons, typed nil and nil-INTERFACE members
		// of collections (the nil branches of Ring.Clone, Polygon.Clone, orb.Clone, orb.Equal and the
		// two nil tests of Collection.Bound, geometry.go:91-108), in front of / between / behind real members
		pt := orb.Point{7, 8}
		rg0 := orb.Ring{{0, 0}, {4, 0}, {4, 4}, {0, 0}}
		nilFam := []func() orb.Geometry{
			func() orb.Geometry { return orb.Collection{nil} },
			func() orb.Geometry { return orb.Collection{nil, nil} },
			func() orb.Geometry { return orb.Collection{nil, pt} },
			func() orb.Geometry { return orb.Collection{pt, nil} },
			func() orb.Geometry {
				return orb.Collection{nil, orb.MultiPoint{}, nil, copyGeom(l).(orb.LineString), nil}
			},
			func() orb.Geometry { return orb.Collection{nil, orb.Collection{nil}} },
			func() orb.Geometry { return orb.Collection{orb.Collection{nil, copyGeom(l).(orb.LineString)}, nil, pt} },
			func() orb.Geometry { return orb.Collection{orb.MultiPoint(nil)} },
			func() orb.Geometry { return orb.Collection{orb.MultiPoint{}} },
			func() orb.Geometry { return orb.Collection{orb.Collection(nil)} },
			func() orb.Geometry { return orb.Collection{orb.Collection{}} },
			func() orb.Geometry { return orb.Collection{} },
			func() orb.Geometry { return orb.Collection{nil, orb.LineString(nil), copyGeom(l).(orb.LineString)} },
			func() orb.Geometry {
				return orb.Collection{orb.Polygon(nil), orb.Ring(nil), orb.MultiPolygon(nil), orb.MultiLineString(nil)}
			},
			func() orb.Geometry { return orb.Polygon{nil} },
			func() orb.Geometry { return orb.Polygon{{}} },
			func() orb.Geometry { return orb.Polygon{nil, copyGeom(rg0).(orb.Ring)} },
			func() orb.Geometry { return orb.Polygon{copyGeom(rg0).(orb.Ring), nil} },
			func() orb.Geometry { return orb.MultiLineString{nil} },
			func() orb.Geometry { return orb.MultiLineString{nil, copyGeom(l).(orb.LineString)} },
			func() orb.Geometry { return orb.MultiLineString{copyGeom(l).(orb.LineString), nil} },
			func() orb.Geometry { return orb.MultiPolygon{nil} },
			func() orb.Geometry { return orb.MultiPolygon{{}} },
			func() orb.Geometry { return orb.MultiPolygon{{nil}} },
			func() orb.Geometry { return orb.MultiPolygon{nil, {copyGeom(rg0).(orb.Ring)}} },
			func() orb.Geometry { return orb.MultiPolygon{{nil, copyGeom(rg0).(orb.Ring)}, nil} },
		}
		for _, f := range nilFam {
			c.Case("geom", gsN(f()))
			for _, h := range nilFam {
				c.Case("pair", gsN(f())+" "+gsN(h()))
			}
			c.Case("pair", gsN(f())+" nil")
			c.Case("pair", "nil "+gsN(f()))
			for _, fs := range c06Factors {
				c.Case("round", factorString(fs)+" "+gsN(f()))
			}
		}
		// orb.Round: every AllGeometries value under every factor variant and default-factor variant
		for _, g := range orb.AllGeometries {
			for _, fs := range c06Factors {
				c.Case("round", factorString(fs)+" "+gsN(g))
			}
			for _, d := range c06Defaults {
				c.Case("roundd", fb(d)+" "+gsN(g))
			}
		}
		// ties (half away from zero), the largest value below a tie, |x*f| around 2^52 / 2^53, overflow of
		// x*f, NaN, infinities, signed zeros, subnormals
		special := orb.MultiPoint{}
		for _, x := range []float64{0.5, -0.5, 1.5, 2.5, -2.5, 0.49999999999999994, -0.49999999999999994, 1e-7, 5e-7, -5e-7,
			4.9999999999999996e-7, 0.0000015, 1.0000005, 4503599627.3704955, 4503599627.370496, 9007199254.740992, 1e15, 1e16, 1e300,
			-1e303, 1.7976931348623157e308, 5e-324, -5e-324, math.Inf(1), math.Inf(-1), math.NaN(), math.Copysign(0, -1), 0,
			123.4567895, 123.45678949999999, -77.0000005} {
			special = append(special, orb.Point{x, -x}, orb.Point{x + 1, x / 3})
		}
		for _, fs := range c06Factors {
			c.Case("round", factorString(fs)+" "+gsN(copyGeom(special).(orb.MultiPoint)))
			c.Case("round", factorString(fs)+" "+gsN(orb.Collection{copyGeom(special).(orb.MultiPoint), orb.Collection{orb.LineString(copyGeom(special).(orb.MultiPoint)), special[0]}, orb.Bound{Min: orb.Point{-1e303, -0.5}, Max: orb.Point{0.49999999999999994, 1.7976931348623157e308}}}))
		}
		for _, d := range c06Defaults {
			c.Case("roundd", fb(d)+" "+gsN(copyGeom(special).(orb.MultiPoint)))
			c.Case("roundd", fb(d)+" "+gsN(orb.Collection{copyGeom(special).(orb.MultiPoint), orb.Collection{orb.LineString(copyGeom(special).(orb.MultiPoint)), special[0]}, orb.Bound{Min: orb.Point{-1e303, -0.5}, Max: orb.Point{0.49999999999999994, 1.7976931348623157e308}}}))
		}
		// Orientation in float arithmetic: the reviewer's ring (float sign 0, reversed -1, exact area +1)
		c.Case("orient", spts([]orb.Point{{0, 0}, {1, 0}, {1, 1}, {0, 1e16}, {1, 0}, {0, 0}}))
		c.Case("orient", spts([]orb.Point{{0.5, 0.5}, {2.5, 0.5}, {2.5, 3.25}, {0.5, 0.5}}))
		c.Case("orient", spts([]orb.Point{{0.1, 0.2}, {0.3, 0.2}, {0.3, 0.7}, {0.1, 0.2}}))
		// alias structure: no sharing on every AllGeometries value; originals that share memory internally
		for _, g := range orb.AllGeometries {
			if g == nil || strings.HasPrefix(gs(g), "n") { // nil interface / typed nil slices own no memory
				continue
			}
			var ss [][]orb.Point
			pointSlices(g, &ss)
			id := make([]int, len(ss))
			for x := range id {
				id[x] = x
			}
			aliasCase(c, g, id, 0, 0)
		}
		rg := orb.Ring{{0, 0}, {4, 0}, {4, 4}, {0, 0}}
		r2 := orb.Ring{{1, 1}, {2, 1}, {2, 2}, {1, 1}}
		for _, sc := range []struct {
			g     orb.Geometry
			slots []int
		}{
			{orb.Polygon{rg, rg}, []int{0, 0}}, // both rings are the same slice
			{orb.Polygon{rg, r2, rg, r2}, []int{0, 1, 0, 1}},
			{orb.MultiLineString{l, l, e, l}, []int{0, 0, 2, 0}},
			{orb.Collection{l, l}, []int{0, 0}},                                 // the same LineString twice
			{orb.Collection{l, orb.Ring(l), orb.MultiPoint(l)}, []int{0, 0, 0}}, // one array under three types
			{orb.MultiPolygon{{rg, r2}, {rg}, {r2, rg}}, []int{0, 1, 0, 1, 0}},  // shared across polygons
			{orb.Collection{orb.Polygon{rg, r2}, orb.Collection{orb.LineString(rg), orb.MultiPolygon{{r2}, {rg, rg}}}, orb.Point{9, 9}},
				[]int{0, 1, 0, 1, 0, 0}}, // shared across nesting levels
			{orb.Collection{orb.Collection{orb.Collection{l}}, l, orb.Bound{Min: orb.Point{0, 0}, Max: orb.Point{1, 1}}}, []int{0, 0}},
			{orb.Polygon{rg, orb.Ring{}, rg}, []int{0, 1, 0}},
		} {
			for j := 0; j < len(sc.slots); j++ {
				for i := 0; i < 5; i++ {
					aliasCase(c, sc.g, sc.slots, j, i)
				}
			}
		}
		for n := 0; n <= 7; n++ {
			ps := make([]orb.Point, n)
			for i := range ps {
				ps[i] = orb.Point{float64(i), float64(i * i)}
			}
			c.Case("rev", spts(ps))
			c.Case("orient", spts(ps))
		}
		// extended coordinate values (c06_ext.go): ±0, ±Inf, ±MaxFloat64, subnormals, float neighbours, NaN
		genC06ExtFixed(c)
	}
	for k := 0; k < c.Budget && !c.Exhausted(); k++ {
		mode := []CoordMode{CoordSmallInt, CoordSmallInt, CoordInt, CoordHalf, CoordFloat}[r.Intn(5)]
		o := GenOpts{Mode: mode, MaxPts: 5, MaxDepth: 3, TopNil: true, InnerNil: true}
		g := genGeom(r, o, 0)
		if r.Intn(5) == 0 { // collections with nil-interface members
			g = genNilColl(r, o)
		}
		c.Case("geom", gsN(g))
		h := mutateGeom(c, g)
		if r.Intn(4) == 0 {
			h = genGeom(r, o, 0)
		}
		c.Case("pair", gsN(g)+" "+gsN(h))
		genC06ExtRandom(c)
		// orb.Round: all kinds incl. nil members, every coordinate pool incl. arbitrary bit patterns, ties
		{
			fs := c06Factors[r.Intn(len(c06Factors))]
			rm := []CoordMode{CoordSmallInt, CoordHalf, CoordModest, CoordFloat, CoordFloat, CoordBits}[r.Intn(6)]
			ro := GenOpts{Mode: rm, MaxPts: 5, MaxDepth: 3, TopNil: true, InnerNil: true}
			rgm := genGeom(r, ro, 0)
			if r.Intn(5) == 0 {
				rgm = genNilColl(r, ro)
			}
			f := orb.DefaultRoundingFactor
			if len(fs) > 0 {
				f = float64(fs[0])
			}
			if r.Intn(3) == 0 {
				rgm = tieCoords(r, rgm, f)
			}
			c.Case("round", factorString(fs)+" "+gsN(rgm))
			if k%4 == 0 {
				d := c06Defaults[r.Intn(len(c06Defaults))]
				rg2 := genGeom(r, ro, 0)
				if r.Intn(3) == 0 {
					rg2 = genNilColl(r, ro)
				}
				c.Case("roundd", fb(d)+" "+gsN(rg2))
			}
		}
		b1, b2, b3 := genBoundVal(c, mode), genBoundVal(c, mode), genBoundVal(c, mode)
		p := genPoint(r, mode)
		if r.Intn(3) == 0 { // a point on the boundary / corner of b1
			p = orb.Point{[]float64{b1.Min[0], b1.Max[0]}[r.Intn(2)], []float64{b1.Min[1], b1.Max[1]}[r.Intn(2)]}
		}
		c.Case("bounds", sbound(b1)+" "+sbound(b2)+" "+sbound(b3)+" "+fb(p[0])+" "+fb(p[1]))
		ps := genPoints(r, mode, 9)
		c.Case("rev", spts(ps))
		rg := genRing(r, []CoordMode{CoordSmallInt, CoordInt}[r.Intn(2)], 8)
		c.Case("orient", spts(rg))
		// … and in float arithmetic (twin on every ring; the reversal clause where the float signs are exact)
		rgf := genRing(r, []CoordMode{CoordHalf, CoordHalf, CoordModest, CoordFloat, CoordBits}[r.Intn(5)], 8)
		c.Case("orient", spts(rgf))
		// alias structure of (original with internal sharing, clone)
		oa := GenOpts{Mode: mode, MaxPts: 4, MaxDepth: 3}
		ga := genGeom(r, oa, 0)
		var ss [][]orb.Point
		pointSlices(ga, &ss)
		nonEmpty := 0
		for _, s := range ss {
			if len(s) > 0 {
				nonEmpty++
			}
		}
		if nonEmpty < 2 && r.Intn(6) != 0 { // prefer values with several non-empty point slices
			l1 := orb.LineString{genPoint(r, mode), genPoint(r, mode)}
			ga = orb.Collection{ga, l1, genGeom(r, oa, 1), orb.Polygon{genRing(r, mode, 4), orb.Ring{genPoint(r, mode)}}}
			ss = nil
			pointSlices(ga, &ss)
		}
		slots := genSlots(c, len(ss))
		j, i := 0, r.Intn(5)
		if len(ss) > 0 {
			j = r.Intn(len(ss))
		}
		aliasCase(c, ga, slots, j, i)
	}
}
