package main

// C02 — GeoJSON (JSON and BSON) round trips — and the GeoJSON share of C05 (hostile documents).
//
// The reflection-driven serialisers are trusted: the harness parses the bytes Go produced into a
// document tree (order preserving, numbers through strconv.ParseFloat as float64 bits) and ships
// the tree; the Lean driver compares trees with the model's documents (lean/Orb/GeoJSON.lean).
//
// Ops:  geom / typed / feat / fc   a value through both codecs and every decoder (documents, decode
//                                   outcomes incl. the decoded Type fields, re-marshal; fc: ExtraMembers untouched)
//       hand / seq                  hand-built *geojson.Geometry values; sequences of documents decoded into
//                                   one receiver ("receiver history must not matter") — c02_seq.go
//       bbox                        geojson/bbox.go: NewBBox, Valid, Bound
//       hook / own / val            the documented JSON hooks installed; returned / input buffers belong to the
//                                   caller; every form of holding a value (pointer, value, containers) — c02_wb.go
//       hostile                     arbitrary bytes through every decoder incl. the six typed helper types
//
// Tree tokens (prefix form):   n | t | f | d <16hex> | s x<hex utf8> | a <n> tree* | o <n> (x<hex> tree)*
//                              B   (bson only: a boolean whose payload byte is neither 0 nor 1 — the
//                                   element can be skipped and copied raw, every typed read of it fails)
// input only:                  i <decimal>   (a Go int)
// Feature tokens:              F [x<hex Type>] <id: - | tree> <bbox: - | b n hex*> <gval> <props: - | o …>
// FeatureCollection tokens:    FC [x<hex Type>] <bbox> <features: - | l n (N | F…)*> <extra: - | o …>
//                              (the Type token is always present in OUTCOMES — the decoded Type field is
//                              observed; in inputs it is optional: absent = "Feature" / "FeatureCollection")
// Geometries in INPUTS are written with gsN (nil rings / lines / polygons, typed-nil collection members).

import (
	"bytes"
	"encoding/hex"
	"encoding/json"
	"fmt"
	"math"
	"runtime"
	"sort"
	"strconv"
	"strings"
	"time"
	"unicode/utf8"

	"github.com/paulmach/orb"
	"github.com/paulmach/orb/geojson"
	"go.mongodb.org/mongo-driver/bson"
	"go.mongodb.org/mongo-driver/bson/bsontype"
	"go.mongodb.org/mongo-driver/bson/primitive"
	"go.mongodb.org/mongo-driver/x/bsonx/bsoncore"
)

func init() { register(&Prop{ID: "C02", Run: runC02, Gen: genC02}) }

// ---------------------------------------------------------------------------------------------
// document trees

type jnode struct {
	k    byte // n t f d s a o X(exotic) B(bad boolean byte, in i) i(int, input only);
	//          generator only: 3 (int32 i), 6 (int64 i), E (i-th exotic bson value)
	f    float64
	i    int
	s    string
	arr  []*jnode
	keys []string
	vals []*jnode
}

func jnull() *jnode             { return &jnode{k: 'n'} }
func jbool(b bool) *jnode       { if b { return &jnode{k: 't'} }; return &jnode{k: 'f'} }
func jnum(f float64) *jnode     { return &jnode{k: 'd', f: f} }
func jint(i int) *jnode         { return &jnode{k: 'i', i: i} }
func jstr(s string) *jnode      { return &jnode{k: 's', s: s} }
func jarr(l ...*jnode) *jnode   { return &jnode{k: 'a', arr: l} }
func jobj() *jnode              { return &jnode{k: 'o'} }
func (n *jnode) set(k string, v *jnode) *jnode {
	n.keys = append(n.keys, k)
	n.vals = append(n.vals, v)
	return n
}

func xs(s string) string { return "x" + hex.EncodeToString([]byte(s)) }

func (n *jnode) write(sb *strings.Builder) {
	switch n.k {
	case 'n', 't', 'f', 'X', 'B':
		sb.WriteByte(' ')
		sb.WriteByte(n.k)
	case 'E':
		sb.WriteString(" X")
	case '3', '6':
		sb.WriteString(" i ")
		sb.WriteString(strconv.Itoa(n.i))
	case 'd':
		sb.WriteString(" d ")
		sb.WriteString(fb(n.f))
	case 'i':
		sb.WriteString(" i ")
		sb.WriteString(strconv.Itoa(n.i))
	case 's':
		sb.WriteString(" s ")
		sb.WriteString(xs(n.s))
	case 'a':
		sb.WriteString(" a ")
		sb.WriteString(strconv.Itoa(len(n.arr)))
		for _, e := range n.arr {
			e.write(sb)
		}
	case 'o':
		sb.WriteString(" o ")
		sb.WriteString(strconv.Itoa(len(n.keys)))
		for i, k := range n.keys {
			sb.WriteByte(' ')
			sb.WriteString(xs(k))
			n.vals[i].write(sb)
		}
	}
}

func (n *jnode) tokens() string {
	var sb strings.Builder
	n.write(&sb)
	return strings.TrimSpace(sb.String())
}

func (n *jnode) exotic() bool {
	switch n.k {
	case 'X':
		return true
	case 's':
		return !utf8.ValidString(n.s)
	case 'a':
		for _, e := range n.arr {
			if e.exotic() {
				return true
			}
		}
	case 'o':
		for i, k := range n.keys {
			if !utf8.ValidString(k) || n.vals[i].exotic() {
				return true
			}
		}
	}
	return false
}

// sorted returns a copy with all object keys sorted (stable).
func (n *jnode) sorted() *jnode {
	switch n.k {
	case 'a':
		c := &jnode{k: 'a', arr: make([]*jnode, len(n.arr))}
		for i, e := range n.arr {
			c.arr[i] = e.sorted()
		}
		return c
	case 'o':
		idx := make([]int, len(n.keys))
		for i := range idx {
			idx[i] = i
		}
		sort.SliceStable(idx, func(a, b int) bool { return n.keys[idx[a]] < n.keys[idx[b]] })
		c := &jnode{k: 'o'}
		for _, i := range idx {
			c.set(n.keys[i], n.vals[i].sorted())
		}
		return c
	}
	return n
}

// parseJSONTree parses JSON text that encoding/json accepts into an order-preserving tree.
func parseJSONTree(data []byte) (*jnode, bool) {
	if !json.Valid(data) {
		return nil, false
	}
	dec := json.NewDecoder(bytes.NewReader(data))
	dec.UseNumber()
	var rec func() (*jnode, bool)
	rec = func() (*jnode, bool) {
		t, err := dec.Token()
		if err != nil {
			return nil, false
		}
		switch v := t.(type) {
		case nil:
			return jnull(), true
		case bool:
			return jbool(v), true
		case string:
			return jstr(v), true
		case json.Number:
			f, _ := strconv.ParseFloat(string(v), 64) // overflow: ±Inf (and an error, as in encoding/json)
			return jnum(f), true
		case json.Delim:
			switch v {
			case '[':
				n := &jnode{k: 'a'}
				for dec.More() {
					e, ok := rec()
					if !ok {
						return nil, false
					}
					n.arr = append(n.arr, e)
				}
				if _, err := dec.Token(); err != nil {
					return nil, false
				}
				return n, true
			case '{':
				n := &jnode{k: 'o'}
				for dec.More() {
					kt, err := dec.Token()
					if err != nil {
						return nil, false
					}
					ks, ok := kt.(string)
					if !ok {
						return nil, false
					}
					e, ok := rec()
					if !ok {
						return nil, false
					}
					n.set(ks, e)
				}
				if _, err := dec.Token(); err != nil {
					return nil, false
				}
				return n, true
			}
		}
		return nil, false
	}
	n, ok := rec()
	return n, ok
}

// bsonValueTree converts a BSON value; int32/int64 become the float64 the decoders convert them to.
// docLike8: the 8 payload bytes of a double / int64 form a well-formed BSON document of length 8
// (`08 00 00 00 <type> <1-char key> 00 00` with a zero-length value, or `08 00 00 00 08 00 <bool> 00`).
// bson's UnmarshalerDecodeValue hands the raw bytes of a value of ANY type to UnmarshalBSON, which
// decodes them as a document: such a number in a "geometry" / "geometries" / "features" position is
// read as a (type-less) document instead of being rejected.  The tree alphabet cannot say that, so
// the value is marked exotic (only panics / allocation are judged for the document).
func docLike8(b []byte) bool {
	if len(b) != 8 || b[0] != 8 || b[1] != 0 || b[2] != 0 || b[3] != 0 || b[7] != 0 {
		return false
	}
	defer func() { recover() }()
	return bsoncore.Document(b).Validate() == nil
}

// bsonMaxDepth: deeper documents are shipped as exotic (X).  encoding/json stops at 10000 levels;
// BSON has no cap of its own, the deepest generated document (genGeoJSONHostileFixed) has 2*4000.
const bsonMaxDepth = 12000

func bsonValueTree(v bsoncore.Value, depth int) *jnode {
	if depth > bsonMaxDepth {
		return &jnode{k: 'X'}
	}
	switch v.Type {
	case bsontype.Double:
		f, ok := v.DoubleOK()
		if !ok || docLike8(v.Data) {
			return &jnode{k: 'X'}
		}
		return jnum(f)
	case bsontype.String:
		s, ok := v.StringValueOK()
		if !ok || len(v.Data) < 5 || v.Data[len(v.Data)-1] != 0 { // bsoncore does not check the terminator; the decoder does
			return &jnode{k: 'X'}
		}
		return jstr(s)
	case bsontype.EmbeddedDocument:
		d, ok := v.DocumentOK()
		if !ok {
			return &jnode{k: 'X'}
		}
		return bsonDocTree(d, false, depth+1)
	case bsontype.Array:
		d, ok := v.ArrayOK()
		if !ok {
			return &jnode{k: 'X'}
		}
		return bsonDocTree(bsoncore.Document(d), true, depth+1)
	case bsontype.Boolean:
		b, ok := v.BooleanOK()
		if !ok {
			return &jnode{k: 'X'}
		}
		if v.Data[0] > 1 { // bsoncore reads any non-1 byte as false; the value reader rejects it when it is READ
			return &jnode{k: 'B', i: int(v.Data[0])}
		}
		return jbool(b)
	case bsontype.Null:
		return jnull()
	case bsontype.Int32:
		i, ok := v.Int32OK()
		if !ok {
			return &jnode{k: 'X'}
		}
		return jnum(float64(i))
	case bsontype.Int64:
		i, ok := v.Int64OK()
		if !ok || i > 1<<53 || i < -(1<<53) || docLike8(v.Data) {
			return &jnode{k: 'X'}
		}
		return jnum(float64(i))
	}
	return &jnode{k: 'X'}
}

func bsonDocTree(d bsoncore.Document, isArr bool, depth int) *jnode {
	if d.Validate() != nil {
		return &jnode{k: 'X'}
	}
	elems, err := d.Elements()
	if err != nil {
		return &jnode{k: 'X'}
	}
	n := &jnode{k: 'o'}
	if isArr {
		n.k = 'a'
	}
	for i, e := range elems {
		v := bsonValueTree(e.Value(), depth)
		if isArr {
			if e.Key() != strconv.Itoa(i) { // an "array" with document keys: the decoders see the keys
				v = &jnode{k: 'X'}
			}
			n.arr = append(n.arr, v)
		} else {
			n.set(e.Key(), v)
		}
	}
	return n
}

func bsonTree(data []byte) (n *jnode, ok bool) {
	// bsoncore itself panics on some corrupt lengths (Document.Validate on a length field of 0: d[-1])
	defer func() {
		if recover() != nil {
			n, ok = nil, false
		}
	}()
	d := bsoncore.Document(data)
	if len(data) < 5 || d.Validate() != nil {
		return nil, false
	}
	l, _, ok := bsoncore.ReadLength(data)
	if !ok || int(l) != len(data) {
		return nil, false
	}
	return bsonDocTree(d, false, 0), true
}

// treeOfValue views a decoded Go value (interface{}) as a document with sorted keys.
func treeOfValue(v interface{}) *jnode {
	switch v := v.(type) {
	case nil:
		return jnull()
	case bool:
		return jbool(v)
	case float64:
		return jnum(v)
	case float32:
		return jnum(float64(v))
	case int:
		return jnum(float64(v))
	case int32:
		return jnum(float64(v))
	case int64:
		return jnum(float64(v))
	case string:
		return jstr(v)
	case []interface{}:
		n := &jnode{k: 'a'}
		for _, e := range v {
			n.arr = append(n.arr, treeOfValue(e))
		}
		return n
	case primitive.A:
		return treeOfValue([]interface{}(v))
	case map[string]interface{}:
		keys := make([]string, 0, len(v))
		for k := range v {
			keys = append(keys, k)
		}
		sort.Strings(keys)
		n := &jnode{k: 'o'}
		for _, k := range keys {
			n.set(k, treeOfValue(v[k]))
		}
		return n
	case geojson.Properties:
		return treeOfValue(map[string]interface{}(v))
	case primitive.M:
		return treeOfValue(map[string]interface{}(v))
	case primitive.D:
		n := &jnode{k: 'o'}
		for _, e := range v {
			n.set(e.Key, treeOfValue(e.Value))
		}
		return n.sorted()
	}
	return &jnode{k: 'X'}
}

// readTree reads a tree from protocol tokens.
func (r *tokReader) tree() *jnode {
	switch k := r.next(); k {
	case "n":
		return jnull()
	case "t":
		return jbool(true)
	case "f":
		return jbool(false)
	case "B":
		return &jnode{k: 'B', i: 2}
	case "d":
		return jnum(r.f())
	case "i":
		return jint(r.int())
	case "s":
		return jstr(r.xstr())
	case "a":
		n := &jnode{k: 'a'}
		c := r.int()
		for i := 0; i < c; i++ {
			n.arr = append(n.arr, r.tree())
		}
		return n
	case "o":
		n := &jnode{k: 'o'}
		c := r.int()
		for i := 0; i < c; i++ {
			key := r.xstr()
			n.set(key, r.tree())
		}
		return n
	default:
		panic("bad tree token " + k)
	}
}

func (r *tokReader) xstr() string {
	t := r.next()
	if !strings.HasPrefix(t, "x") {
		panic("bad string token " + t)
	}
	b, err := hex.DecodeString(t[1:])
	if err != nil {
		panic("bad string token " + t)
	}
	return string(b)
}

// goValue builds the Go value (as a program would hold it) of a tree.
func (n *jnode) goValue() interface{} {
	switch n.k {
	case 'n':
		return nil
	case 't':
		return true
	case 'f', 'B':
		return false
	case 'd':
		return n.f
	case 'i':
		return n.i
	case '3':
		return int32(n.i)
	case '6':
		return int64(n.i)
	case 'E':
		return nil
	case 's':
		return n.s
	case 'a':
		l := make([]interface{}, len(n.arr))
		for i, e := range n.arr {
			l[i] = e.goValue()
		}
		return l
	case 'o':
		m := make(map[string]interface{}, len(n.keys))
		for i, k := range n.keys {
			m[k] = n.vals[i].goValue()
		}
		return m
	}
	panic("goValue")
}

// jsonText serialises a tree as JSON text (duplicate keys and any member order are kept).
func (n *jnode) jsonText(sb *strings.Builder) {
	switch n.k {
	case 'n', 'X', 'E':
		sb.WriteString("null")
	case 't':
		sb.WriteString("true")
	case 'f', 'B':
		sb.WriteString("false")
	case '3', '6':
		sb.WriteString(strconv.Itoa(n.i))
	case 'd':
		if math.IsInf(n.f, 1) || math.IsNaN(n.f) {
			sb.WriteString("1e999")
		} else if math.IsInf(n.f, -1) {
			sb.WriteString("-1e999")
		} else {
			sb.WriteString(strconv.FormatFloat(n.f, 'g', -1, 64))
		}
	case 'i':
		sb.WriteString(strconv.Itoa(n.i))
	case 's':
		b, _ := json.Marshal(n.s)
		sb.Write(b)
	case 'a':
		sb.WriteByte('[')
		for i, e := range n.arr {
			if i > 0 {
				sb.WriteByte(',')
			}
			e.jsonText(sb)
		}
		sb.WriteByte(']')
	case 'o':
		sb.WriteByte('{')
		for i, k := range n.keys {
			if i > 0 {
				sb.WriteByte(',')
			}
			b, _ := json.Marshal(k)
			sb.Write(b)
			sb.WriteByte(':')
			n.vals[i].jsonText(sb)
		}
		sb.WriteByte('}')
	}
}

// bsonValue builds a bson value (documents keep member order and duplicates); whole numbers are
// written as int32 / int64 when `ints` says so.
func (n *jnode) bsonValue(ints func() int) interface{} {
	switch n.k {
	case 'n', 'X':
		return nil
	case 't':
		return true
	case 'f':
		return false
	case 'B':
		b := byte(n.i)
		if b < 2 {
			b = 2
		}
		return badBool(b)
	case '3':
		return int32(n.i)
	case '6':
		return int64(n.i)
	case 'E':
		return c02Exotics[((n.i%len(c02Exotics))+len(c02Exotics))%len(c02Exotics)]
	case 'd':
		if n.f == math.Trunc(n.f) && math.Abs(n.f) < 1<<31 && !(n.f == 0 && math.Signbit(n.f)) {
			switch ints() {
			case 1:
				return int32(n.f)
			case 2:
				return int64(n.f)
			}
		}
		return n.f
	case 'i':
		return n.i
	case 's':
		return n.s
	case 'a':
		l := make(bson.A, len(n.arr))
		for i, e := range n.arr {
			l[i] = e.bsonValue(ints)
		}
		return l
	case 'o':
		d := make(bson.D, len(n.keys))
		for i, k := range n.keys {
			d[i] = bson.E{Key: k, Value: n.vals[i].bsonValue(ints)}
		}
		return d
	}
	return nil
}

// badBool marshals as a BSON boolean element whose payload byte is neither 0 nor 1.
type badBool byte

func (b badBool) MarshalBSONValue() (bsontype.Type, []byte, error) {
	return bsontype.Boolean, []byte{byte(b)}, nil
}

// BSON values outside the tree alphabet (the tree shows X: only panics / time / allocation are judged)
var c02Exotics = []interface{}{
	primitive.ObjectID{1, 2, 3, 4, 5, 6, 7, 8, 9, 10, 11, 12}, primitive.DateTime(1), primitive.Binary{Subtype: 0, Data: []byte{1, 2}},
	primitive.Binary{Subtype: 0x80, Data: nil}, primitive.NewDecimal128(1, 2), primitive.Regex{Pattern: "a", Options: "i"},
	primitive.Timestamp{T: 1, I: 2}, primitive.MinKey{}, primitive.MaxKey{}, primitive.Undefined{}, primitive.JavaScript("x"),
	primitive.Symbol("Point"), primitive.DBPointer{DB: "d", Pointer: primitive.ObjectID{1}},
	primitive.CodeWithScope{Code: "c", Scope: bson.D{{Key: "a", Value: int32(1)}}}, int64(1) << 60, int64(-1<<63),
}

// ---------------------------------------------------------------------------------------------
// values <-> tokens

func bboxTok(bb geojson.BBox) string {
	if bb == nil {
		return "-"
	}
	s := "b " + strconv.Itoa(len(bb))
	for _, f := range bb {
		s += " " + fb(f)
	}
	return s
}

func propsTok(p geojson.Properties) string {
	if p == nil {
		return "-"
	}
	return treeOfValue(map[string]interface{}(p)).tokens()
}

func featureTok(f *geojson.Feature) string {
	if f == nil {
		return "N"
	}
	id := "-"
	if f.ID != nil {
		id = treeOfValue(f.ID).tokens()
	}
	return "F " + xs(f.Type) + " " + id + " " + bboxTok(f.BBox) + " " + gs(f.Geometry) + " " + propsTok(f.Properties)
}

func fcTok(fc *geojson.FeatureCollection) string {
	if fc == nil {
		return "N"
	}
	fs := "-"
	if fc.Features != nil {
		fs = "l " + strconv.Itoa(len(fc.Features))
		for _, f := range fc.Features {
			fs += " " + featureTok(f)
		}
	}
	return "FC " + xs(fc.Type) + " " + bboxTok(fc.BBox) + " " + fs + " " + propsTok(fc.ExtraMembers)
}

func (r *tokReader) bbox() geojson.BBox {
	switch t := r.next(); t {
	case "-":
		return nil
	case "b":
		n := r.int()
		bb := make(geojson.BBox, n)
		for i := range bb {
			bb[i] = r.f()
		}
		return bb
	default:
		panic("bad bbox token " + t)
	}
}

func (r *tokReader) peek() string {
	if r.i >= len(r.t) {
		panic("token underflow")
	}
	return r.t[r.i]
}

func (r *tokReader) props() geojson.Properties {
	if r.peek() == "-" {
		r.next()
		return nil
	}
	return geojson.Properties(r.tree().goValue().(map[string]interface{}))
}

func (r *tokReader) feature() *geojson.Feature {
	switch t := r.next(); t {
	case "N":
		return nil
	case "F":
	default:
		panic("bad feature token " + t)
	}
	f := &geojson.Feature{Type: "Feature"}
	if strings.HasPrefix(r.peek(), "x") {
		f.Type = r.xstr()
	}
	if r.peek() == "-" {
		r.next()
	} else {
		f.ID = r.tree().goValue()
	}
	f.BBox = r.bbox()
	f.Geometry = r.geom()
	f.Properties = r.props()
	return f
}

func (r *tokReader) fc() *geojson.FeatureCollection {
	if t := r.next(); t != "FC" {
		panic("bad fc token " + t)
	}
	fc := &geojson.FeatureCollection{Type: "FeatureCollection"}
	if strings.HasPrefix(r.peek(), "x") {
		fc.Type = r.xstr()
	}
	fc.BBox = r.bbox()
	switch t := r.next(); t {
	case "-":
	case "l":
		n := r.int()
		fc.Features = make([]*geojson.Feature, n)
		for i := range fc.Features {
			fc.Features[i] = r.feature()
		}
	default:
		panic("bad features token " + t)
	}
	fc.ExtraMembers = r.props()
	return fc
}

// ---------------------------------------------------------------------------------------------
// outcomes

func gjErrClass(err error) string {
	s := err.Error()
	switch {
	case strings.Contains(s, "geojson: invalid geometry"):
		return "invalid"
	case strings.Contains(s, "geojson: not a feature"):
		return "nottype"
	}
	return "json"
}

func geometryOutcome(g *geojson.Geometry, err error) string {
	if err != nil {
		return "err " + gjErrClass(err)
	}
	if g == nil {
		return "ok nil"
	}
	return "ok " + xs(g.Type) + " " + gs(g.Geometry()) // the decoded Type field is observed
}

func featureOutcome(f *geojson.Feature, err error) string {
	if err != nil {
		return "err " + gjErrClass(err)
	}
	return "ok " + featureTok(f)
}

func fcOutcome(fc *geojson.FeatureCollection, err error) string {
	if err != nil {
		return "err " + gjErrClass(err)
	}
	return "ok " + fcTok(fc)
}

func sameFlag(a, b []byte, err error) string {
	if err != nil {
		return "merr"
	}
	if bytes.Equal(a, b) {
		return "same"
	}
	return "differs"
}

func jsonTreeTok(b []byte, err error) string {
	if err != nil {
		return "merr"
	}
	n, ok := parseJSONTree(b)
	if !ok {
		return "unparsable"
	}
	return n.tokens()
}

func bsonTreeTok(b []byte, err error) string {
	if err != nil {
		return "merr"
	}
	n, ok := bsonTree(b)
	if !ok {
		return "unparsable"
	}
	return n.tokens()
}

func bsonSame(a, b []byte, err error) string {
	if err != nil {
		return "merr"
	}
	if bytes.Equal(a, b) {
		return "same"
	}
	ta, ok1 := bsonTree(a)
	tb, ok2 := bsonTree(b)
	if ok1 && ok2 && ta.sorted().tokens() == tb.sorted().tokens() {
		return "same" // Go map iteration order
	}
	return "differs"
}

func c02Geom(g orb.Geometry) string {
	var jb, bb []byte
	var jerr, berr error
	parts := make([]string, 0, 7)
	parts = append(parts, gp("mj", func() string {
		jb, jerr = geojson.NewGeometry(g).MarshalJSON()
		return jsonTreeTok(jb, jerr)
	}))
	if jerr == nil && jb != nil {
		var g1 *geojson.Geometry
		ug := gp("ug", func() string {
			var err error
			g1, err = geojson.UnmarshalGeometry(jb)
			return geometryOutcome(g1, err)
		})
		var g2 *geojson.Geometry
		ok2 := false
		ugp := gp("ugp", func() string {
			err := json.Unmarshal(jb, &g2)
			ok2 = err == nil
			return geometryOutcome(g2, err)
		})
		rm := "na"
		if strings.HasPrefix(ug, "ok") {
			rm = gp("rm", func() string { b, err := json.Marshal(g1); return sameFlag(jb, b, err) })
		} else if ok2 {
			rm = gp("rm", func() string { b, err := json.Marshal(g2); return sameFlag(jb, b, err) })
		}
		parts = append(parts, ug, ugp, rm)
	} else {
		parts = append(parts, "na", "na", "na")
	}
	parts = append(parts, gp("b", func() string {
		bb, berr = bson.Marshal(geojson.NewGeometry(g))
		return bsonTreeTok(bb, berr)
	}))
	if berr == nil && bb != nil {
		g3 := &geojson.Geometry{}
		ub := gp("ub", func() string {
			err := bson.Unmarshal(bb, g3)
			return geometryOutcome(g3, err)
		})
		rm := "na"
		if strings.HasPrefix(ub, "ok") {
			rm = gp("brm", func() string { b, err := bson.Marshal(g3); return bsonSame(bb, b, err) })
		}
		parts = append(parts, ub, rm)
	} else {
		parts = append(parts, "na", "na")
	}
	return strings.Join(parts, " ; ")
}

// c02Typed: the helper types geojson.Point … geojson.MultiPolygon.
func c02Typed(g orb.Geometry) string {
	var v interface{}
	var back func(j bool, data []byte) (orb.Geometry, error)
	um := func(j bool, data []byte, dst interface{}) error {
		if j {
			return json.Unmarshal(data, dst)
		}
		return bson.Unmarshal(data, dst)
	}
	switch g := g.(type) {
	case orb.Point:
		v = geojson.Point(g)
		back = func(j bool, d []byte) (orb.Geometry, error) { var x geojson.Point; err := um(j, d, &x); return x.Geometry(), err }
	case orb.MultiPoint:
		v = geojson.MultiPoint(g)
		back = func(j bool, d []byte) (orb.Geometry, error) { var x geojson.MultiPoint; err := um(j, d, &x); return x.Geometry(), err }
	case orb.LineString:
		v = geojson.LineString(g)
		back = func(j bool, d []byte) (orb.Geometry, error) { var x geojson.LineString; err := um(j, d, &x); return x.Geometry(), err }
	case orb.MultiLineString:
		v = geojson.MultiLineString(g)
		back = func(j bool, d []byte) (orb.Geometry, error) { var x geojson.MultiLineString; err := um(j, d, &x); return x.Geometry(), err }
	case orb.Polygon:
		v = geojson.Polygon(g)
		back = func(j bool, d []byte) (orb.Geometry, error) { var x geojson.Polygon; err := um(j, d, &x); return x.Geometry(), err }
	case orb.MultiPolygon:
		v = geojson.MultiPolygon(g)
		back = func(j bool, d []byte) (orb.Geometry, error) { var x geojson.MultiPolygon; err := um(j, d, &x); return x.Geometry(), err }
	default:
		return "na"
	}
	out := func(g orb.Geometry, err error) string {
		if err != nil {
			if strings.Contains(err.Error(), "geojson: not a ") {
				return "err nottype"
			}
			return "err " + gjErrClass(err)
		}
		return "ok " + gs(g)
	}
	var jb, bb []byte
	var jerr, berr error
	parts := []string{}
	parts = append(parts, gp("mj", func() string { jb, jerr = json.Marshal(v); return jsonTreeTok(jb, jerr) }))
	if jerr == nil && jb != nil {
		parts = append(parts, gp("uj", func() string { return out(back(true, jb)) }))
	} else {
		parts = append(parts, "na")
	}
	parts = append(parts, gp("b", func() string { bb, berr = bson.Marshal(v); return bsonTreeTok(bb, berr) }))
	if berr == nil && bb != nil {
		parts = append(parts, gp("ub", func() string { return out(back(false, bb)) }))
	} else {
		parts = append(parts, "na")
	}
	return strings.Join(parts, " ; ")
}

func c02Feature(f *geojson.Feature) string {
	var jb, bb []byte
	var jerr, berr error
	parts := make([]string, 0, 7)
	parts = append(parts, gp("mj", func() string { jb, jerr = json.Marshal(f); return jsonTreeTok(jb, jerr) }))
	if jerr == nil && jb != nil {
		var f1 *geojson.Feature
		uf := gp("uf", func() string {
			var err error
			f1, err = geojson.UnmarshalFeature(jb)
			return featureOutcome(f1, err)
		})
		var f2 *geojson.Feature
		ufp := gp("ufp", func() string { err := json.Unmarshal(jb, &f2); return featureOutcome(f2, err) })
		rm := "na"
		if strings.HasPrefix(uf, "ok") {
			rm = gp("rm", func() string { b, err := json.Marshal(f1); return sameFlag(jb, b, err) })
		}
		parts = append(parts, uf, ufp, rm)
	} else {
		parts = append(parts, "na", "na", "na")
	}
	parts = append(parts, gp("b", func() string { bb, berr = bson.Marshal(f); return bsonTreeTok(bb, berr) }))
	if berr == nil && bb != nil {
		f3 := &geojson.Feature{}
		ub := gp("ub", func() string { err := bson.Unmarshal(bb, f3); return featureOutcome(f3, err) })
		rm := "na"
		if strings.HasPrefix(ub, "ok") {
			rm = gp("brm", func() string { b, err := bson.Marshal(f3); return bsonSame(bb, b, err) })
		}
		parts = append(parts, ub, rm)
	} else {
		parts = append(parts, "na", "na")
	}
	return strings.Join(parts, " ; ")
}

func c02FC(fc *geojson.FeatureCollection) string {
	var jb, bb []byte
	var jerr, berr error
	parts := make([]string, 0, 8)
	// newFeatureCollectionDoc works on a CLONE of ExtraMembers: marshalling must leave the caller's map alone
	emBefore := propsTok(fc.ExtraMembers)
	parts = append(parts, gp("mj", func() string { jb, jerr = json.Marshal(fc); return jsonTreeTok(jb, jerr) }))
	emAfterJSON := propsTok(fc.ExtraMembers)
	if jerr == nil && jb != nil {
		var f1 *geojson.FeatureCollection
		uf := gp("uf", func() string {
			var err error
			f1, err = geojson.UnmarshalFeatureCollection(jb)
			return fcOutcome(f1, err)
		})
		var f2 *geojson.FeatureCollection
		ufp := gp("ufp", func() string { err := json.Unmarshal(jb, &f2); return fcOutcome(f2, err) })
		rm := "na"
		if strings.HasPrefix(uf, "ok") {
			rm = gp("rm", func() string { b, err := json.Marshal(f1); return sameFlag(jb, b, err) })
		}
		parts = append(parts, uf, ufp, rm)
	} else {
		parts = append(parts, "na", "na", "na")
	}
	parts = append(parts, gp("b", func() string { bb, berr = bson.Marshal(fc); return bsonTreeTok(bb, berr) }))
	if berr == nil && bb != nil {
		f3 := &geojson.FeatureCollection{}
		ub := gp("ub", func() string { err := bson.Unmarshal(bb, f3); return fcOutcome(f3, err) })
		rm := "na"
		if strings.HasPrefix(ub, "ok") {
			rm = gp("brm", func() string { b, err := bson.Marshal(f3); return bsonSame(bb, b, err) })
		}
		parts = append(parts, ub, rm)
	} else {
		parts = append(parts, "na", "na")
	}
	if em := propsTok(fc.ExtraMembers); em == emBefore && emAfterJSON == emBefore {
		parts = append(parts, "em same")
	} else {
		parts = append(parts, "em mutated")
	}
	return strings.Join(parts, " ; ")
}

// c02BBoxOp: geojson/bbox.go.  Input `<bbox: - | b n hex*> <4 hex: a bound>`; outcome
// `valid <0|1> ; bound <4 hex> ; new <bbox tokens> ; newbound <4 hex>`
// (BBox.Valid, BBox.Bound, NewBBox(bound), NewBBox(bound).Bound()).
func c02BBoxOp(r *tokReader) string {
	bb := r.bbox()
	b := orb.Bound{Min: r.pt(), Max: r.pt()}
	bt := func(b orb.Bound) string { return fb(b.Min[0]) + " " + fb(b.Min[1]) + " " + fb(b.Max[0]) + " " + fb(b.Max[1]) }
	return strings.Join([]string{
		guard(func() string { return "valid " + b2s(bb.Valid()) }),
		guard(func() string { return "bound " + bt(bb.Bound()) }),
		guard(func() string { return "new " + bboxTok(geojson.NewBBox(b)) }),
		guard(func() string { return "newbound " + bt(geojson.NewBBox(b).Bound()) }),
	}, " ; ")
}

func runC02(op string, in []string) string {
	r := &tokReader{t: in}
	switch op {
	case "geom":
		return c02Geom(r.geom())
	case "typed":
		return c02Typed(r.geom())
	case "feat":
		return c02Feature(r.feature())
	case "fc":
		return c02FC(r.fc())
	case "bbox":
		return c02BBoxOp(r)
	case "hostile":
		return runGeoJSONHostile(in)
	case "hand":
		return c02Hand(r.hand())
	case "seq":
		return runC02Seq(in)
	case "hook":
		return c02HookOp(in)
	case "own":
		return c02OwnOp(in)
	case "val":
		return c02ValOp(in)
	}
	return "badop"
}

// ---------------------------------------------------------------------------------------------
// C05 share: hostile documents

func classOf(err error, isNil bool) string {
	if err != nil {
		return "err:" + gjErrClass(err)
	}
	if isNil {
		return "nil"
	}
	return "ok"
}

// typedClass: outcome class of a typed helper decode ("geojson: not a Point type" is its own class)
func typedClass(err error) string {
	if err == nil {
		return "ok"
	}
	if strings.Contains(err.Error(), "geojson: not a ") && strings.HasSuffix(err.Error(), " type") {
		return "err:nottype"
	}
	return "err:" + gjErrClass(err)
}

// hostileWatchdog: a decoder that has not returned after THREE consecutive periods of this length is
// reported as "timeout" (the quadratic nesting cases take several seconds for all decoders together).
// Three periods, not one long one: a stall of the whole process (VM pause, swap storm, SIGSTOP — seen
// once in a thorough run under load: a microsecond decode "timed out") makes a wall-clock timer
// expire while the decoder's goroutine has not run at all; after the stall the goroutine finishes
// within the next period, whereas a decoder that really loops outlasts all three.
const hostileWatchdog = 40 * time.Second

func guardW(f func() string) string {
	ch := make(chan string, 1)
	go func() { ch <- guard(f) }()
	for i := 0; i < 3; i++ {
		select {
		case s := <-ch:
			return s
		case <-time.After(hostileWatchdog):
		}
	}
	return "timeout"
}

// the six typed helper decoders (geojson.Point … geojson.MultiPolygon) on the same bytes
func typedDecoders(kind string, cp func() []byte) [6]func() string {
	um := func(dst interface{}) error {
		if kind == "json" {
			return json.Unmarshal(cp(), dst)
		}
		return bson.Unmarshal(cp(), dst)
	}
	return [6]func() string{
		func() string { return typedClass(um(&geojson.Point{})) },
		func() string { return typedClass(um(&geojson.MultiPoint{})) },
		func() string { return typedClass(um(&geojson.LineString{})) },
		func() string { return typedClass(um(&geojson.MultiLineString{})) },
		func() string { return typedClass(um(&geojson.Polygon{})) },
		func() string { return typedClass(um(&geojson.MultiPolygon{})) },
	}
}

// runGeoJSONHostile: input `json|bson <hex bytes | empty>`.  Runs every GeoJSON decoder on the bytes
// under guard + watchdog and reports
//   <tree tokens | nojson | exotic> ; rawnull <0|1> ; ug C ; ugp C ; uf C ; ufp C ; ufc C ; ufcp C ;
//   ty C C C C C C ; alloc <bytes> <len> <bytes of the typed helpers>
// with C ∈ ok | nil | err:json | err:invalid | err:nottype | panic | timeout | -   (bson has no pointer
// variants); `ty`: json.Unmarshal / bson.Unmarshal into geojson.Point, MultiPoint, LineString,
// MultiLineString, Polygon, MultiPolygon.
func runGeoJSONHostile(in []string) string {
	if len(in) < 2 {
		return "badinput"
	}
	kind := in[0]
	var data []byte
	if in[1] != "empty" {
		var err error
		data, err = hex.DecodeString(in[1])
		if err != nil {
			return "badinput"
		}
	}
	cp := func() []byte { return append([]byte(nil), data...) }
	var tree string
	var res [6]string
	var ty [6]string
	var ms0, ms1 runtime.MemStats
	var main []func() string
	if kind == "json" {
		main = []func() string{
			func() string { g, err := geojson.UnmarshalGeometry(cp()); return classOf(err, err == nil && g == nil) },
			func() string { var g *geojson.Geometry; err := json.Unmarshal(cp(), &g); return classOf(err, g == nil) },
			func() string { f, err := geojson.UnmarshalFeature(cp()); return classOf(err, err == nil && f == nil) },
			func() string { var f *geojson.Feature; err := json.Unmarshal(cp(), &f); return classOf(err, f == nil) },
			func() string {
				fc, err := geojson.UnmarshalFeatureCollection(cp())
				return classOf(err, err == nil && fc == nil)
			},
			func() string { var fc *geojson.FeatureCollection; err := json.Unmarshal(cp(), &fc); return classOf(err, fc == nil) },
		}
	} else {
		main = []func() string{
			func() string { g := &geojson.Geometry{}; err := bson.Unmarshal(cp(), g); return classOf(err, false) },
			nil,
			func() string { f := &geojson.Feature{}; err := bson.Unmarshal(cp(), f); return classOf(err, false) },
			nil,
			func() string { fc := &geojson.FeatureCollection{}; err := bson.Unmarshal(cp(), fc); return classOf(err, false) },
			nil,
		}
	}
	typed := typedDecoders(kind, cp)
	runMain := func(keep bool) {
		for i, f := range main {
			r := "-"
			if f != nil {
				r = guardW(f)
			}
			if keep {
				res[i] = r
			}
		}
	}
	runTyped := func(keep bool) {
		for i, f := range typed {
			r := guardW(f)
			if keep {
				ty[i] = r
			}
		}
	}
	var n *jnode
	var ok bool
	if kind == "json" {
		n, ok = parseJSONTree(data)
	} else {
		n, ok = bsonTree(data)
	}
	if !ok {
		tree = "nojson"
	} else if n.exotic() {
		tree = "exotic"
	} else {
		tree = n.tokens()
	}
	// TotalAlloc is process-wide and the harness has other goroutines (driver pipe, bookkeeping maps):
	// a suspicious delta is measured again (up to three more times) and the smallest one kept — the
	// decoders are deterministic in what they allocate.  (Not for the huge quadratic-nesting cases.)
	lin := uint64(1024 * len(data))
	measure := func(run func(keep bool)) uint64 {
		runtime.ReadMemStats(&ms0)
		run(true)
		runtime.ReadMemStats(&ms1)
		alloc := ms1.TotalAlloc - ms0.TotalAlloc
		for try := 0; try < 3 && alloc > lin+(256<<10) && alloc < lin+(256<<20); try++ {
			runtime.ReadMemStats(&ms0)
			run(false)
			runtime.ReadMemStats(&ms1)
			if a := ms1.TotalAlloc - ms0.TotalAlloc; a < alloc {
				alloc = a
			}
		}
		return alloc
	}
	alloc := measure(runMain)
	talloc := measure(runTyped)
	rawnull := "0"
	if bytes.Equal(data, []byte("null")) {
		rawnull = "1"
	}
	return fmt.Sprintf("%s ; rawnull %s ; ug %s ; ugp %s ; uf %s ; ufp %s ; ufc %s ; ufcp %s ; ty %s ; alloc %d %d %d",
		tree, rawnull, res[0], res[1], res[2], res[3], res[4], res[5], strings.Join(ty[:], " "), alloc, len(data), talloc)
}

// ---------------------------------------------------------------------------------------------
// generators

var c02Strings = []string{
	"", "a", "name", "Type", "TYPE", "coordinates", "geometry", "ünï", "日本語", "<tag>&amp;", "q\"uote", "back\\slash",
	"line\nbreak\ttab", "  ", "😀", "null", "0", "a b", "é", "\u007f", "ſ", "K", "zz", "A", "B", "b", "aa", "ab",
}

func c02String(c *Ctx) string {
	r := c.Rng
	if r.Intn(3) != 0 {
		return c02Strings[r.Intn(len(c02Strings))]
	}
	n := r.Intn(6)
	b := make([]rune, n)
	for i := range b {
		switch r.Intn(8) {
		case 0:
			b[i] = rune(0x80 + r.Intn(0x700))
		case 1:
			b[i] = rune(1 + r.Intn(31)) // control characters (no NUL: bson keys)
		default:
			b[i] = rune(32 + r.Intn(95))
		}
	}
	return string(b)
}

func c02Num(c *Ctx) *jnode {
	r := c.Rng
	switch r.Intn(6) {
	case 0:
		return jint(r.Intn(21) - 10)
	case 1:
		return jint(r.Intn(1<<31) - 1<<30)
	case 2:
		return jint((r.Intn(2)*2 - 1) * (1<<53 - r.Intn(1000)))
	default:
		return jnum(coord(r, CoordFloat))
	}
}

// c02Value draws a JSON-representable Go value (as a tree; objects have distinct keys).
func c02Value(c *Ctx, depth int) *jnode {
	r := c.Rng
	k := r.Intn(8)
	if depth >= 3 && k >= 6 {
		k = r.Intn(6)
	}
	switch k {
	case 0:
		return jnull()
	case 1:
		return jbool(r.Intn(2) == 0)
	case 2, 3:
		return c02Num(c)
	case 4, 5:
		return jstr(c02String(c))
	case 6:
		n := &jnode{k: 'a'}
		for i, m := 0, size(r, 3); i < m; i++ {
			n.arr = append(n.arr, c02Value(c, depth+1))
		}
		return n
	default:
		return c02Map(c, depth+1, false)
	}
}

func c02Map(c *Ctx, depth int, noReserved bool) *jnode {
	r := c.Rng
	n := &jnode{k: 'o'}
	seen := map[string]bool{}
	for i, m := 0, size(r, 4); i < m; i++ {
		k := c02String(c)
		if seen[k] || (noReserved && (k == "type" || k == "bbox" || k == "features")) {
			continue
		}
		seen[k] = true
		n.set(k, c02Value(c, depth))
	}
	return n.sorted()
}

func c02BBox(c *Ctx) string {
	r := c.Rng
	switch r.Intn(5) {
	case 0, 1:
		return "-"
	case 2:
		n := []int{0, 1, 2, 6}[r.Intn(4)]
		s := "b " + strconv.Itoa(n)
		for i := 0; i < n; i++ {
			s += " " + fb(coord(r, CoordFloat))
		}
		return s
	default:
		s := "b 4"
		for i := 0; i < 4; i++ {
			s += " " + fb(coord(r, CoordFloat))
		}
		return s
	}
}

func c02GeomOpts(c *Ctx, topNil bool) GenOpts {
	mode := []CoordMode{CoordFloat, CoordFloat, CoordSmallInt, CoordHalf}[c.Rng.Intn(4)]
	// InnerNil: nil rings / lines / polygons and typed-nil collection members (inputs travel as gsN)
	return GenOpts{Mode: mode, MaxPts: 5, MaxDepth: 3, TopNil: topNil, InnerNil: true}
}

// hasEmptyMember reports whether a collection (at any depth) has an empty collection as a member.
func hasEmptyMember(g orb.Geometry) bool {
	c, ok := g.(orb.Collection)
	if !ok {
		return false
	}
	for _, m := range c {
		if mc, ok := m.(orb.Collection); ok && len(mc) == 0 {
			return true
		}
		if hasEmptyMember(m) {
			return true
		}
	}
	return false
}

// c02GenGeom: mostly values inside the round-trip predicate (no empty collection nested in a
// collection), the defect class at a lower rate.
func c02GenGeom(c *Ctx, topNil bool) orb.Geometry {
	o := c02GeomOpts(c, topNil)
	for i := 0; ; i++ {
		g := genGeom(c.Rng, o, 0)
		if !hasEmptyMember(g) || c.Rng.Intn(8) == 0 || i > 20 {
			return g
		}
	}
}

func c02GenFeature(c *Ctx) string {
	r := c.Rng
	id := "-"
	switch r.Intn(4) {
	case 0:
		id = jstr(c02String(c)).tokens()
	case 1:
		id = c02Num(c).tokens()
	case 2:
		if r.Intn(2) == 0 {
			id = jint(r.Intn(100000)).tokens()
		}
	}
	props := "-"
	switch r.Intn(6) {
	case 0:
	case 1:
		props = "o 0"
	default:
		props = c02Map(c, 0, false).tokens()
	}
	var g orb.Geometry
	if r.Intn(10) != 0 {
		g = c02GenGeom(c, r.Intn(6) == 0)
	}
	ty := ""
	if r.Intn(8) == 0 { // the Type field of the VALUE is not what is written ("Feature" always is)
		ty = xs([]string{"", "Feature", "feature", "Point", "X"}[r.Intn(5)]) + " "
	}
	return "F " + ty + id + " " + c02BBox(c) + " " + gsN(g) + " " + props
}

func c02GenFC(c *Ctx) string {
	r := c.Rng
	fs := "-"
	if r.Intn(8) != 0 {
		n := size(r, 4)
		fs = "l " + strconv.Itoa(n)
		for i := 0; i < n; i++ {
			fs += " " + c02GenFeature(c)
		}
	}
	extra := "-"
	switch r.Intn(4) {
	case 0:
	case 1:
		extra = "o 0"
	default:
		extra = c02Map(c, 0, true).tokens()
	}
	ty := ""
	if r.Intn(8) == 0 {
		ty = xs([]string{"", "FeatureCollection", "Feature", "X"}[r.Intn(4)]) + " "
	}
	return "FC " + ty + c02BBox(c) + " " + fs + " " + extra
}

func genC02(c *Ctx) {
	r := c.Rng
	if c.Shard == 0 {
		fixed := append([]orb.Geometry{}, orb.AllGeometries...)
		fixed = append(fixed,
			nil, orb.MultiPoint(nil), orb.LineString(nil), orb.MultiLineString(nil), orb.Ring(nil), orb.Polygon(nil),
			orb.MultiPolygon(nil), orb.Collection(nil),
			orb.MultiPoint{}, orb.LineString{}, orb.MultiLineString{}, orb.Ring{}, orb.Polygon{}, orb.MultiPolygon{}, orb.Collection{},
			orb.MultiLineString{{}}, orb.Polygon{{}}, orb.MultiPolygon{{}}, orb.MultiPolygon{{{}}},
			orb.Collection{orb.Collection{}}, orb.Collection{orb.Point{1, 2}, orb.Collection{}},
			orb.Collection{orb.Collection{orb.Collection{}}}, orb.Collection{orb.MultiPoint{}},
			orb.Collection{orb.Collection{orb.Point{1, 2}}, orb.Ring{{0, 0}, {1, 0}, {1, 1}, {0, 0}}, orb.Bound{Min: orb.Point{0, 0}, Max: orb.Point{1, 1}}},
			orb.Point{math.Copysign(0, -1), 5e-324}, orb.Point{math.MaxFloat64, -math.MaxFloat64},
			orb.Point{0.1, 0.30000000000000004}, orb.Point{1e21, 1e-7}, orb.Point{123456789012345680000, 1e20},
			// nil MEMBERS: nil ring / line / polygon, typed-nil and nil-interface collection members
			orb.Polygon{nil}, orb.Polygon{nil, {{0, 0}, {1, 0}, {0, 0}}}, orb.Polygon{{{0, 0}, {1, 0}, {0, 0}}, nil},
			orb.MultiLineString{nil}, orb.MultiLineString{nil, {{1, 2}}}, orb.MultiPolygon{nil}, orb.MultiPolygon{{nil}},
			orb.MultiPolygon{{{{0, 0}, {1, 0}, {0, 0}}}, nil, {nil, {}}},
			orb.Collection{orb.MultiPoint(nil)}, orb.Collection{orb.LineString(nil)}, orb.Collection{orb.MultiLineString(nil)},
			orb.Collection{orb.Ring(nil)}, orb.Collection{orb.Polygon(nil), orb.Point{1, 2}}, orb.Collection{orb.MultiPolygon(nil)},
			orb.Collection{orb.Collection(nil)}, orb.Collection{orb.Point{1, 2}, orb.Collection(nil)},
			orb.Collection{orb.Polygon{nil}}, orb.Collection{orb.Collection{orb.MultiLineString{nil}}},
			orb.Collection{nil}, orb.Collection{orb.Point{1, 2}, nil},
		)
		for _, g := range fixed {
			c.Case("geom", gsN(g))
			c.Case("typed", gsN(g))
			c.Case("feat", "F - - "+gsN(g)+" -")
			c.Case("fc", "FC - l 1 F - - "+gsN(g)+" - -")
		}
		c.Case("fc", "FC - - -")
		c.Case("fc", "FC b 0 l 0 o 0")
		c.Case("fc", "FC "+xs("X")+" - l 2 N F "+xs("")+" - - P "+fb(1)+" "+fb(2)+" - o 1 "+xs("k")+" n")
		// bbox.go: every length 0..9 (Valid: >= 4 and even; Bound: mid = len/2), nil
		for n := -1; n <= 9; n++ {
			bb := "-"
			if n >= 0 {
				bb = "b " + strconv.Itoa(n)
				for i := 0; i < n; i++ {
					bb += " " + fb(float64(i+1)*1.5)
				}
			}
			c.Case("bbox", bb+" "+fb(-1)+" "+fb(-2.5)+" "+fb(3)+" "+fb(4))
		}
		// round 2: hand-built geometries, decode sequences into one receiver (c02_seq.go)
		genC02Round2Fixed(c)
		// white-box round: hooks installed, buffer ownership, every form of holding a value (c02_wb.go)
		genC02WBFixed(c)
	}
	hostile := func(input string) { c.Case("hostile", input) }
	genGeoJSONHostileCorpus(c, hostile)
	// the exhaustive family of tiny documents: on EVERY shard (it is sharded by Mine), before the
	// random stream so that a deadline cannot cut it off
	genGeoJSONHostileFixed(c, hostile)
	genGeoJSONHostileTyped(c, true, hostile)
	for k := 0; k < c.Budget && !c.Exhausted(); k++ {
		g := c02GenGeom(c, true)
		c.Case("geom", gsN(g))
		if k%4 == 0 {
			o := c02GeomOpts(c, true)
			o.MaxDepth = 0
			c.Case("typed", gsN(genGeom(r, o, 0)))
		}
		c.Case("feat", c02GenFeature(c))
		if k%2 == 0 {
			c.Case("fc", c02GenFC(c))
		}
		if k%2 == 1 {
			genGeoJSONHostileN(c, 2, hostile)
			c.Case("hand", c02GenHand(c, 0))
		}
		c.Case("seq", c02GenSeq(c))
		genC02WB(c, k)
		if k%16 == 0 {
			b := orb.Bound{Min: orb.Point{coord(r, CoordFloat), coord(r, CoordFloat)}, Max: orb.Point{coord(r, CoordFloat), coord(r, CoordFloat)}}
			c.Case("bbox", c02BBox(c)+" "+fb(b.Min[0])+" "+fb(b.Min[1])+" "+fb(b.Max[0])+" "+fb(b.Max[1]))
		}
	}
}

// ---------------------------------------------------------------------------------------------
// hostile generator

func (n *jnode) clone() *jnode {
	c := *n
	if n.arr != nil {
		c.arr = make([]*jnode, len(n.arr))
		for i, e := range n.arr {
			c.arr[i] = e.clone()
		}
	}
	if n.keys != nil {
		c.keys = append([]string(nil), n.keys...)
		c.vals = make([]*jnode, len(n.vals))
		for i, e := range n.vals {
			c.vals[i] = e.clone()
		}
	}
	return &c
}

// nodes lists every node of the tree (pointers into it).
func (n *jnode) nodes(acc *[]*jnode) {
	*acc = append(*acc, n)
	for _, e := range n.arr {
		e.nodes(acc)
	}
	for _, e := range n.vals {
		e.nodes(acc)
	}
}

var c02Types = []string{"Point", "MultiPoint", "LineString", "MultiLineString", "Polygon", "MultiPolygon",
	"GeometryCollection", "Feature", "FeatureCollection", "point", "", "Circle"}

func c02Junk(c *Ctx) *jnode {
	r := c.Rng
	switch r.Intn(12) {
	case 0, 1, 2:
		return jnull()
	case 3:
		return jnum(float64(r.Intn(5)))
	case 4:
		return jstr(c02Types[r.Intn(len(c02Types))])
	case 5:
		return jbool(r.Intn(2) == 0)
	case 6:
		return jarr()
	case 7:
		return jobj()
	case 8:
		return jarr(jnull())
	case 9:
		return jnum(math.Inf(1)) // written as 1e999
	case 10:
		return jarr(jnum(1), jnum(2))
	default:
		return jobj().set("type", jstr(c02Types[r.Intn(len(c02Types))]))
	}
}

// mutate applies one structure-aware mutation somewhere in the tree.
func c02Mutate(c *Ctx, root *jnode) *jnode {
	r := c.Rng
	root = root.clone()
	var all []*jnode
	root.nodes(&all)
	n := all[r.Intn(len(all))]
	switch r.Intn(15) {
	case 12, 13: // typed-value substitution: any node (mostly coordinates) becomes a value of another BSON kind
		*n = *c02TypedKind(r.Intn(c02TypedKinds))
	case 14: // … or such a value is added as an element / member
		v := c02TypedKind(r.Intn(c02TypedKinds))
		if n.k == 'a' {
			i := r.Intn(len(n.arr) + 1)
			n.arr = append(n.arr[:i], append([]*jnode{v}, n.arr[i:]...)...)
		} else if n.k == 'o' {
			k := []string{"type", "coordinates", "geometries", "geometry", "properties", "id", "bbox", "features", "Type", "x"}[r.Intn(10)]
			n.set(k, v)
		} else {
			*n = *v
		}
	case 0, 1: // replace the node
		*n = *c02Junk(c)
	case 2: // delete a member / element
		if n.k == 'o' && len(n.keys) > 0 {
			i := r.Intn(len(n.keys))
			n.keys = append(n.keys[:i], n.keys[i+1:]...)
			n.vals = append(n.vals[:i], n.vals[i+1:]...)
		} else if n.k == 'a' && len(n.arr) > 0 {
			i := r.Intn(len(n.arr))
			n.arr = append(n.arr[:i], n.arr[i+1:]...)
		} else {
			*n = *jnull()
		}
	case 3: // duplicate a member (possibly with another value) / element
		if n.k == 'o' && len(n.keys) > 0 {
			i := r.Intn(len(n.keys))
			v := n.vals[i].clone()
			if r.Intn(2) == 0 {
				v = c02Junk(c)
			}
			n.set(n.keys[i], v)
		} else if n.k == 'a' {
			n.arr = append(n.arr, c02Junk(c))
		} else {
			*n = *jarr(n.clone())
		}
	case 4: // null member value / null element at every position
		if n.k == 'o' && len(n.keys) > 0 {
			n.vals[r.Intn(len(n.keys))] = jnull()
		} else if n.k == 'a' {
			i := r.Intn(len(n.arr) + 1)
			n.arr = append(n.arr[:i], append([]*jnode{jnull()}, n.arr[i:]...)...)
		} else {
			*n = *jnull()
		}
	case 5: // wrong-typed member
		if n.k == 'o' && len(n.keys) > 0 {
			n.vals[r.Intn(len(n.keys))] = c02Junk(c)
		} else {
			*n = *c02Junk(c)
		}
	case 6: // arity: drop / add coordinates, wrap deeper, unwrap
		if n.k == 'a' {
			switch r.Intn(4) {
			case 0:
				n.arr = append(n.arr, jnum(float64(r.Intn(9))))
			case 1:
				if len(n.arr) > 0 {
					n.arr = n.arr[:len(n.arr)-1]
				}
			case 2:
				*n = *jarr(n.clone())
			default:
				if len(n.arr) > 0 {
					*n = *n.arr[0].clone()
				}
			}
		} else {
			*n = *jarr(n.clone())
		}
	case 7: // change a type string / key case
		if n.k == 'o' && len(n.keys) > 0 {
			i := r.Intn(len(n.keys))
			if n.keys[i] == "type" && r.Intn(2) == 0 {
				n.vals[i] = jstr(c02Types[r.Intn(len(c02Types))])
			} else {
				switch r.Intn(3) {
				case 0:
					n.keys[i] = strings.ToUpper(n.keys[i])
				case 1:
					n.keys[i] = strings.Title(n.keys[i])
				default:
					n.keys[i] = strings.NewReplacer("s", "ſ", "k", "K").Replace(n.keys[i])
				}
			}
		} else if n.k == 's' {
			n.s = c02Types[r.Intn(len(c02Types))]
		} else {
			*n = *jstr("Point")
		}
	case 8: // new member with a reserved name
		if n.k == 'o' {
			k := []string{"type", "coordinates", "geometries", "geometry", "properties", "id", "bbox", "features"}[r.Intn(8)]
			n.set(k, c02Junk(c))
		} else {
			*n = *jobj().set("type", jstr("GeometryCollection")).set("geometries", jarr(n.clone()))
		}
	case 9: // move a member to the front (member order)
		if n.k == 'o' && len(n.keys) > 1 {
			i := 1 + r.Intn(len(n.keys)-1)
			n.keys[0], n.keys[i] = n.keys[i], n.keys[0]
			n.vals[0], n.vals[i] = n.vals[i], n.vals[0]
		} else {
			*n = *c02Junk(c)
		}
	case 10: // wrap a geometry in a collection (nesting)
		if n.k == 'o' {
			*n = *jobj().set("type", jstr("GeometryCollection")).set("geometries", jarr(n.clone(), jnull()))
		} else {
			*n = *jnull()
		}
	default: // number games
		if n.k == 'd' {
			n.f = []float64{math.Inf(1), 0, -1, 1e300, 5e-324}[r.Intn(5)]
		} else {
			*n = *jnum(math.Inf(-1))
		}
	}
	return root
}

func hostileJSON(n *jnode) string {
	var sb strings.Builder
	n.jsonText(&sb)
	return "json " + hexOrEmpty([]byte(sb.String()))
}

func hostileBSON(c *Ctx, n *jnode) (string, bool) {
	if n.k != 'o' {
		return "", false
	}
	mode := c.Rng.Intn(3)
	v := n.bsonValue(func() int {
		if mode == 0 {
			return 0
		}
		return c.Rng.Intn(3)
	})
	b, err := bson.Marshal(v)
	if err != nil {
		return "", false
	}
	return "bson " + hexOrEmpty(b), true
}

// seed documents: what the library itself writes for generated values
func c02SeedTree(c *Ctx) *jnode {
	r := c.Rng
	var b []byte
	var err error
	switch r.Intn(4) {
	case 0, 1:
		b, err = geojson.NewGeometry(c02GenGeom(c, false)).MarshalJSON()
	case 2:
		rd := &tokReader{t: strings.Fields(c02GenFeature(c))}
		b, err = json.Marshal(rd.feature())
	default:
		rd := &tokReader{t: strings.Fields(c02GenFC(c))}
		b, err = json.Marshal(rd.fc())
	}
	if err != nil {
		return jnull()
	}
	n, ok := parseJSONTree(b)
	if !ok {
		return jnull()
	}
	return n
}

// genGeoJSONHostile emits hostile inputs for runGeoJSONHostile: structure-aware mutations of valid
// documents (null / wrong-typed / missing / duplicated members at every position, wrong coordinate
// arity and depth, unknown types, key case, member order), text-level damage (truncation, padding,
// deep nesting) and, once per run (spread over the shards), an exhaustive family of tiny documents.
// Order: corpus, exhaustive family, typed-substitution family, random mutations.
func genGeoJSONHostile(c *Ctx, emit func(input string)) {
	genGeoJSONHostileCorpus(c, emit)
	genGeoJSONHostileFixed(c, emit) // on every shard: the family is sharded by Mine
	genGeoJSONHostileTyped(c, c.Tier == "thorough", emit)
	for k := 0; k < c.Budget && !c.Exhausted(); k++ {
		genGeoJSONHostileN(c, 1, emit)
	}
}

func genGeoJSONHostileN(c *Ctx, n int, emit func(input string)) {
	r := c.Rng
	for i := 0; i < n; i++ {
		t := c02SeedTree(c)
		for m, k := 0, 1+r.Intn(3); m < k; m++ {
			t = c02Mutate(c, t)
		}
		switch r.Intn(8) {
		case 0, 1, 2:
			if s, ok := hostileBSON(c, t); ok {
				emit(s)
				if r.Intn(6) == 0 { // byte-level damage of the bson encoding
					b, _ := hex.DecodeString(strings.Fields(s)[1])
					if len(b) > 0 {
						switch r.Intn(3) {
						case 0:
							b = b[:r.Intn(len(b))]
						case 1:
							b[r.Intn(len(b))] ^= 1 << uint(r.Intn(8))
						default:
							b[r.Intn(len(b))] = byte(r.Intn(256))
						}
						emit("bson " + hexOrEmpty(b))
					}
				}
				continue
			}
			emit(hostileJSON(t))
		case 3: // truncated / padded text
			var sb strings.Builder
			t.jsonText(&sb)
			s := sb.String()
			switch r.Intn(4) {
			case 0:
				s = s[:r.Intn(len(s)+1)]
			case 1:
				s = " " + s + "\n"
			case 2:
				s = s + s
			default:
				if len(s) > 0 {
					bs := []byte(s)
					bs[r.Intn(len(bs))] = byte(r.Intn(256))
					s = string(bs)
				}
			}
			emit("json " + hexOrEmpty([]byte(s)))
		default:
			emit(hostileJSON(t))
		}
	}
}

// corpus of past disagreements (c02_corpus.go: one `json|bson <hex>` per line, `#` comments): emitted first.

func genGeoJSONHostileCorpus(c *Ctx, emit func(input string)) {
	if c.Shard != 0 {
		return
	}
	for _, line := range strings.Split(c02HostileCorpus, "\n") {
		line = strings.TrimSpace(line)
		if line == "" || strings.HasPrefix(line, "#") {
			continue
		}
		f := strings.Fields(line)
		if len(f) == 2 && (f[0] == "json" || f[0] == "bson") {
			emit(f[0] + " " + f[1])
		}
	}
}

// typed-value substitution: the values a node is replaced by — every BSON scalar kind the harness can
// emit (null, booleans, a boolean with a bad payload byte, int32, int64, doubles incl. NaN / Inf / -0,
// strings), container shapes, and the BSON kinds outside the tree alphabet (ObjectID, DateTime, Binary,
// Decimal128, Regex, Timestamp, Min/MaxKey, Undefined, JavaScript, Symbol, DBPointer, CodeWithScope,
// int64 beyond 2^53).
const c02ModelKinds = 23

var c02TypedKinds = c02ModelKinds + len(c02Exotics)

func c02TypedKind(i int) *jnode {
	switch i {
	case 0:
		return jnull()
	case 1:
		return jbool(true)
	case 2:
		return jbool(false)
	case 3:
		return &jnode{k: 'B', i: 2}
	case 4:
		return &jnode{k: 'B', i: 0xff}
	case 5:
		return &jnode{k: '3', i: 1}
	case 6:
		return &jnode{k: '3', i: -7}
	case 7:
		return &jnode{k: '6', i: 3}
	case 8:
		return &jnode{k: '6', i: 1 << 53}
	case 9:
		return jnum(1.5)
	case 10:
		return jnum(math.NaN())
	case 11:
		return jnum(math.Inf(1))
	case 12:
		return jnum(math.Copysign(0, -1))
	case 13:
		return jstr("x")
	case 14:
		return jstr("")
	case 15:
		return jstr("Point")
	case 16:
		return jarr()
	case 17:
		return jarr(jnum(1), jnum(2))
	case 18:
		return jarr(jarr(jnum(1), jnum(2)))
	case 19:
		return jobj()
	case 20:
		return jobj().set("type", jstr("Point")).set("coordinates", jarr(jnum(1), jnum(2)))
	case 21:
		return jobj().set("0", jnum(1)).set("1", jnum(2))
	case 22:
		return jarr(jnum(1), &jnode{k: 'B', i: 3})
	}
	return &jnode{k: 'E', i: i - c02ModelKinds}
}

// the documents the substitution runs over: every geometry type with two elements at some nesting
// level and one at the others, a collection, a feature with every member, a feature collection
func c02TypedBases() []*jnode {
	p := func(x, y float64) *jnode { return jarr(jnum(x), jnum(y)) }
	g := func(ty string, co *jnode) *jnode { return jobj().set("type", jstr(ty)).set("coordinates", co) }
	point := func() *jnode { return g("Point", p(1.5, 2)) }
	ls := func() *jnode { return g("LineString", jarr(p(1, 2), p(3, 4.5))) }
	feat := func() *jnode {
		return jobj().set("id", jstr("a")).set("type", jstr("Feature")).set("bbox", jarr(jnum(1), jnum(2), jnum(3), jnum(4.5))).
			set("geometry", ls()).
			set("properties", jobj().set("a", jnum(1)).set("b", jobj().set("c", jarr(jnum(1), jstr("x")))))
	}
	return []*jnode{
		point(),
		g("MultiPoint", jarr(p(1, 2), p(3, 4.5))),
		ls(),
		g("MultiLineString", jarr(jarr(p(1, 2), p(3, 4.5)), jarr(p(5, 6)))),
		g("Polygon", jarr(jarr(p(0, 0), p(1, 0.5), p(0, 0)), jarr(p(5, 6)))),
		g("MultiPolygon", jarr(jarr(jarr(p(1, 2), p(3, 4.5))), jarr(jarr(p(5, 6))))),
		jobj().set("type", jstr("GeometryCollection")).set("geometries", jarr(point(),
			jobj().set("type", jstr("GeometryCollection")).set("geometries", jarr(ls())))),
		feat(),
		jobj().set("type", jstr("FeatureCollection")).set("bbox", jarr(jnum(1), jnum(2), jnum(3), jnum(4.5))).
			set("features", jarr(feat(), jobj().set("type", jstr("Feature")).set("geometry", point()).set("properties", jnull()))).
			set("extra", jobj().set("k", jarr(jnum(1)))),
	}
}

// genGeoJSONHostileTyped: at EVERY node of every base document (so: the coordinates value and each of
// its nesting levels down to the numbers, bbox and its elements, features and its elements, id, type,
// geometry, geometries, properties and the values inside) substitute every kind; as BSON (all kinds)
// and as JSON text (the kinds JSON can spell).  Sharded.  `full` = the whole family (C02 always, C05
// thorough); otherwise (C05 quick, whose GeoJSON stream is capped at a quarter of the budget) every
// node still gets every modelled BSON kind except three near-duplicates, and a rotating quarter of
// the JSON spellings and of the kinds outside the alphabet.
func genGeoJSONHostileTyped(c *Ctx, full bool, emit func(input string)) {
	idx := 0
	for _, base := range c02TypedBases() {
		var all []*jnode
		base.nodes(&all)
		for j := range all {
			for k := 0; k < c02TypedKinds; k++ {
				idx++
				if !c.Mine(idx) {
					continue
				}
				if !full && ((k >= c02ModelKinds && (k+j)%4 != 0) || k == 4 || k == 6 || k == 14) {
					continue
				}
				t := base.clone()
				var nodes []*jnode
				t.nodes(&nodes)
				*nodes[j] = *c02TypedKind(k)
				if s, ok := hostileBSON(c, t); ok {
					emit(s)
				}
				if k < c02ModelKinds && k != 4 && k != 22 && (full || (k+j)%4 == 1) {
					emit(hostileJSON(t))
				}
			}
		}
	}
}

// genGeoJSONHostileFixed: the exhaustive family of tiny documents + text-level specials.
func genGeoJSONHostileFixed(c *Ctx, emit func(input string)) {
	idx := 0
	both := func(n *jnode) {
		idx++
		if !c.Mine(idx) {
			return
		}
		emit(hostileJSON(n))
		if s, ok := hostileBSON(c, n); ok {
			emit(s)
		}
	}
	text := func(s string) {
		idx++
		if !c.Mine(idx) {
			return
		}
		emit("json " + hexOrEmpty([]byte(s)))
	}
	pt := func() *jnode { return jobj().set("type", jstr("Point")).set("coordinates", jarr(jnum(1), jnum(2))) }
	types := []*jnode{jstr("Point"), jstr("MultiPoint"), jstr("LineString"), jstr("MultiLineString"), jstr("Polygon"),
		jstr("MultiPolygon"), jstr("GeometryCollection"), jstr("Feature"), jstr("FeatureCollection"), jstr("X"), jnull(), jnum(5)}
	coords := []*jnode{jnull(), jnum(1), jarr(), jarr(jnum(1)), jarr(jnum(1), jnum(2)), jarr(jnum(1), jnum(2), jnum(3)),
		jarr(jnum(1), jnum(2), jstr("x")), jarr(jnull()), jarr(jnull(), jnum(2)), jarr(jstr("x"), jnum(2)),
		jarr(jarr(jnum(1), jnum(2))), jarr(jarr()), jarr(jarr(jnull())), jarr(jarr(jarr(jnum(1), jnum(2)))),
		jarr(jarr(jarr(jarr(jnum(1), jnum(2))))), jarr(jarr(jarr(jarr(jarr(jnum(1), jnum(2)))))),
		jstr("s"), jobj(), jbool(true), jarr(jnum(math.Inf(1)), jnum(2)), jarr(jobj()), jarr(jarr(jnum(1), jnum(2)), jnull())}
	geoms := []*jnode{jnull(), jarr(), jarr(jnull()), jarr(jobj()), jarr(pt()), jarr(pt(), jnull()), jarr(jnull(), pt()),
		jnum(5), jarr(jnum(5)), jobj(), jarr(jobj().set("type", jstr("X")), jnull()),
		jarr(jobj().set("type", jstr("GeometryCollection")).set("geometries", jarr(jnull()))),
		jarr(jobj().set("type", jstr("GeometryCollection")).set("geometries", jarr())),
		jarr(jobj().set("type", jstr("GeometryCollection")))}
	for _, n := range []*jnode{jnull(), jnum(0), jstr(""), jstr("Point"), jbool(true), jarr(), jobj(), jarr(jnull()), jarr(pt())} {
		both(n)
	}
	for _, t := range types {
		both(jobj().set("type", t.clone()))
		for _, co := range coords {
			both(jobj().set("type", t.clone()).set("coordinates", co.clone()))
		}
		for _, gm := range geoms {
			both(jobj().set("type", t.clone()).set("geometries", gm.clone()))
			both(jobj().set("geometries", gm.clone()).set("type", t.clone()))
		}
	}
	// features: geometry × properties × id × bbox
	fgeoms := append([]*jnode{jnull(), jnum(5), jstr("x"), jarr(), jobj(), pt(),
		jobj().set("type", jstr("Point")), jobj().set("type", jstr("Point")).set("coordinates", jnull()),
		jobj().set("type", jstr("MultiPoint")).set("coordinates", jnull())}, func() []*jnode {
		var l []*jnode
		for _, gm := range geoms {
			l = append(l, jobj().set("type", jstr("GeometryCollection")).set("geometries", gm.clone()))
		}
		return l
	}()...)
	propsL := []*jnode{nil, jnull(), jobj(), jobj().set("a", jnum(1)), jnum(5), jarr(), jstr("x"), jobj().set("a", jnum(math.Inf(1)))}
	for _, fg := range fgeoms {
		for _, p := range propsL {
			for _, ty := range []*jnode{jstr("Feature"), jstr("feature"), jnull(), nil} {
				f := jobj()
				if ty != nil {
					f.set("type", ty.clone())
				}
				f.set("geometry", fg.clone())
				if p != nil {
					f.set("properties", p.clone())
				}
				both(f)
			}
		}
		for _, id := range []*jnode{jnull(), jnum(1), jstr("a"), jarr(jnum(math.Inf(1))), jobj().set("b", jnull()).set("a", jnull())} {
			both(jobj().set("id", id.clone()).set("type", jstr("Feature")).set("geometry", fg.clone()))
		}
		for _, bb := range []*jnode{jnull(), jarr(), jarr(jnum(1), jnull()), jarr(jstr("x")), jnum(1), jobj()} {
			both(jobj().set("bbox", bb.clone()).set("type", jstr("Feature")).set("geometry", fg.clone()))
		}
	}
	// feature collections
	feat := func(g *jnode) *jnode { return jobj().set("type", jstr("Feature")).set("geometry", g) }
	featsL := []*jnode{nil, jnull(), jarr(), jarr(jnull()), jarr(feat(pt())), jarr(feat(pt()), jnull()), jnum(5), jarr(jnum(5)), jobj(),
		jarr(jobj()), jarr(feat(jnull())), jarr(feat(jobj().set("type", jstr("GeometryCollection")).set("geometries", jarr(jnull())))),
		jarr(feat(jobj().set("type", jstr("GeometryCollection"))))}
	for _, fs := range featsL {
		for _, ty := range []*jnode{jstr("FeatureCollection"), jstr("Feature"), jnull(), jnum(5), nil} {
			for _, bb := range []*jnode{nil, jnull(), jarr(jnum(1), jnum(2)), jstr("x")} {
				for _, ex := range []*jnode{nil, jnull(), jobj().set("b", jnum(1)).set("a", jnum(2)), jnum(math.Inf(1))} {
					f := jobj()
					if ty != nil {
						f.set("type", ty.clone())
					}
					if bb != nil {
						f.set("bbox", bb.clone())
					}
					if fs != nil {
						f.set("features", fs.clone())
					}
					if ex != nil {
						f.set("extra", ex.clone())
						f.set("Type", ex.clone())
					}
					both(f)
				}
			}
		}
	}
	// text-level specials
	for _, s := range []string{"", " ", "null", " null", "null\n", "\tnull ", "nul", "nulll", "{", "}", "[", "{}", "[]", "{\"type\"", "{\"type\":}",
		"{\"type\":\"Point\",\"coordinates\":[1,2]}x", "\xff", "\xef\xbb\xbfnull", "{\"type\":\"Point\",\"coordinates\":[1,2],}",
		"{\"type\":\"Feature\",\"geometry\":null,\"properties\":null}\n", "{\"type\":\"Po\\u0069nt\",\"coordinates\":[1,2]}",
		"{\"ty\\u0070e\":\"Point\",\"coordinates\":[1e400,2]}", "{\"type\":\"Point\",\"coordinates\":[-0,1E+2]}",
		"{\"type\":\"Point\",\"coordinates\":[0.1e-400,2]}", "{\"type\":\"Point\",\"coordinates\":[01,2]}",
		"{\"type\":\"Point\",\"type\":\"MultiPoint\",\"coordinates\":[1,2]}",
		"{\"type\":\"FeatureCollection\",\"features\":[{\"type\":\"Feature\",\"geometry\":{\"type\":\"GeometryCollection\",\"geometries\":[null]}}],\"bbox\":\"x\"}",
	} {
		text(s)
	}
	for _, depth := range []int{10, 200, 1000, 5000, 9990, 10001, 20000} {
		text(strings.Repeat("[", depth) + strings.Repeat("]", depth))
		text("{\"type\":\"Polygon\",\"coordinates\":" + strings.Repeat("[", depth) + strings.Repeat("]", depth) + "}")
		if depth <= 1000 {
			text(strings.Repeat("{\"type\":\"GeometryCollection\",\"geometries\":[", depth) + "null" + strings.Repeat("]}", depth))
			text(strings.Repeat("{\"type\":\"GeometryCollection\",\"geometries\":[", depth) + strings.Repeat("]}", depth))
			text("{\"type\":\"Feature\",\"properties\":" + strings.Repeat("{\"a\":", depth) + "1" + strings.Repeat("}", depth) + "}")
		}
		text(strings.Repeat("[", depth))
	}
	// BSON has no nesting limit of its own (encoding/json: 10000) and every nested UnmarshalBSON copies
	// its whole sub-document (bson's UnmarshalerDecodeValue): deep documents, built byte by byte
	raw := func(b []byte) {
		idx++
		if !c.Mine(idx) {
			return
		}
		emit("bson " + hexOrEmpty(b))
	}
	depths := []int{10, 200, 1000}
	if c.Tier == "thorough" {
		depths = append(depths, 2000)
	}
	for _, depth := range depths {
		gc := func(inner []byte, innerType byte) []byte { // {type: "GeometryCollection", geometries: [inner]}
			return bsonDocBytes(
				bsonElem(0x02, "type", bsonStr("GeometryCollection")),
				bsonElem(0x04, "geometries", bsonDocBytes(bsonElem(innerType, "0", inner))))
		}
		point := bsonDocBytes(bsonElem(0x02, "type", bsonStr("Point")),
			bsonElem(0x04, "coordinates", bsonDocBytes(bsonElem(0x01, "0", bsonF64(1)), bsonElem(0x01, "1", bsonF64(2)))))
		for _, leaf := range []struct {
			b []byte
			t byte
		}{{point, 0x03}, {nil, 0x0A}} { // a point / a null member at the bottom
			d := gc(leaf.b, leaf.t)
			for i := 1; i < depth; i++ {
				d = gc(d, 0x03)
			}
			raw(d)
			raw(bsonDocBytes(bsonElem(0x02, "type", bsonStr("Feature")), bsonElem(0x03, "geometry", d), bsonElem(0x0A, "properties", nil)))
		}
		arr := bsonDocBytes()
		props := bsonDocBytes(bsonElem(0x10, "a", []byte{1, 0, 0, 0}))
		for i := 0; i < depth; i++ {
			arr = bsonDocBytes(bsonElem(0x04, "0", arr))
			props = bsonDocBytes(bsonElem(0x03, "a", props))
		}
		raw(bsonDocBytes(bsonElem(0x02, "type", bsonStr("Polygon")), bsonElem(0x04, "coordinates", arr)))
		raw(bsonDocBytes(bsonElem(0x02, "type", bsonStr("Feature")), bsonElem(0x0A, "geometry", nil), bsonElem(0x03, "properties", props)))
		raw(bsonDocBytes(bsonElem(0x02, "type", bsonStr("FeatureCollection")), bsonElem(0x04, "features", bsonDocBytes()), bsonElem(0x03, "x", props)))
	}
	// numbers whose 8 payload bytes are a well-formed 8-byte document, where an Unmarshaler gets them
	// (see docLike8): `{x: null}`, `{"": true}`, `{k: MinKey}` as int64 and as double; and near misses
	for _, w := range []uint64{0x0000780A00000008, 0x0001000800000008, 0x00006bff00000008, 0x0100780A00000008, 0x0000780A00000009, 5, 8} {
		for _, num := range [][]byte{bsonU64(w)} {
			for _, t := range []byte{0x12, 0x01} { // int64, double
				raw(bsonDocBytes(bsonElem(0x02, "type", bsonStr("Feature")), bsonElem(t, "geometry", num)))
				raw(bsonDocBytes(bsonElem(0x02, "type", bsonStr("GeometryCollection")),
					bsonElem(0x04, "geometries", bsonDocBytes(bsonElem(t, "0", num)))))
				raw(bsonDocBytes(bsonElem(0x02, "type", bsonStr("FeatureCollection")),
					bsonElem(0x04, "features", bsonDocBytes(bsonElem(t, "0", num)))))
				raw(bsonDocBytes(bsonElem(0x02, "type", bsonStr("Point")), bsonElem(0x04, "coordinates",
					bsonDocBytes(bsonElem(t, "0", num), bsonElem(t, "1", num)))))
			}
		}
	}
}

// raw BSON building blocks (no reflection, no quadratic re-marshalling of nested values)
func bsonElem(t byte, key string, val []byte) []byte {
	b := append([]byte{t}, key...)
	b = append(b, 0)
	return append(b, val...)
}

func bsonDocBytes(elems ...[]byte) []byte {
	n := 5
	for _, e := range elems {
		n += len(e)
	}
	b := make([]byte, 4, n)
	b[0], b[1], b[2], b[3] = byte(n), byte(n>>8), byte(n>>16), byte(n>>24)
	for _, e := range elems {
		b = append(b, e...)
	}
	return append(b, 0)
}

func bsonStr(s string) []byte {
	n := len(s) + 1
	b := []byte{byte(n), byte(n >> 8), byte(n >> 16), byte(n >> 24)}
	return append(append(b, s...), 0)
}

func bsonU64(u uint64) []byte {
	b := make([]byte, 8)
	for i := range b {
		b[i] = byte(u >> (8 * uint(i)))
	}
	return b
}

func bsonF64(f float64) []byte { return bsonU64(math.Float64bits(f)) }
