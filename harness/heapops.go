package main

import (
	"math/rand"
	"strconv"
	"strings"
	"unsafe"

	"github.com/paulmach/orb"
)

// Heap descriptions for the ops `projh` (C15) and `cliph` (C08): the correspondence side of
// lean/Orb/HeapOps.lean.
//
//	heap  := A (n (x y)*)*                      A backing arrays with their full contents
//	hdr   := arr off len cap                     the slice  arrays[arr][off : off+len : off+cap]
//	sgeom := P x y | B x y x y | MP hdr | LS hdr | R hdr
//	       | MLS k hdr* | PG k hdr* | MPG j (k hdr*)* | C k sgeom*
//
// After the call every backing array is reported in full (cells beyond len and beyond cap included)
// and every slice of the result is LOCATED by pointer comparison:
//
//	E                    capacity 0 (no array to point into)
//	H arr off len cap    &s[0] lies in input array `arr` at element `off`
//	F n (x y)*           a slice of an array that is none of the input arrays (fresh), with contents

func rdHeap(r *tokReader) [][]orb.Point {
	n := r.int()
	arrays := make([][]orb.Point, n)
	for i := range arrays {
		k := r.int()
		a := make([]orb.Point, k)
		for j := range a {
			a[j] = r.pt()
		}
		arrays[i] = a
	}
	return arrays
}

func rdHdr(r *tokReader, arrays [][]orb.Point) []orb.Point {
	a, off, ln, cp := r.int(), r.int(), r.int(), r.int()
	return arrays[a][off : off+ln : off+cp]
}

func rdSGeom(r *tokReader, arrays [][]orb.Point) orb.Geometry {
	switch k := r.next(); k {
	case "P":
		return r.pt()
	case "B":
		a := r.pt()
		b := r.pt()
		return orb.Bound{Min: a, Max: b}
	case "MP":
		return orb.MultiPoint(rdHdr(r, arrays))
	case "LS":
		return orb.LineString(rdHdr(r, arrays))
	case "R":
		return orb.Ring(rdHdr(r, arrays))
	case "MLS":
		m := make(orb.MultiLineString, r.int())
		for i := range m {
			m[i] = orb.LineString(rdHdr(r, arrays))
		}
		return m
	case "PG":
		m := make(orb.Polygon, r.int())
		for i := range m {
			m[i] = orb.Ring(rdHdr(r, arrays))
		}
		return m
	case "MPG":
		m := make(orb.MultiPolygon, r.int())
		for i := range m {
			pg := make(orb.Polygon, r.int())
			for j := range pg {
				pg[j] = orb.Ring(rdHdr(r, arrays))
			}
			m[i] = pg
		}
		return m
	case "C":
		m := make(orb.Collection, r.int())
		for i := range m {
			m[i] = rdSGeom(r, arrays)
		}
		return m
	default:
		panic("bad sgeom token " + k)
	}
}

func heapString(arrays [][]orb.Point) string {
	var sb strings.Builder
	sb.WriteString(strconv.Itoa(len(arrays)))
	for _, a := range arrays {
		wPts(&sb, a)
	}
	return sb.String()
}

// locate names the array a slice points into (go.mod pins go1.15: no SliceData; &s[:1][0] is the
// address of the slice's first element even when len == 0).
func locate(sb *strings.Builder, s []orb.Point, arrays [][]orb.Point) {
	if cap(s) == 0 {
		sb.WriteString(" E")
		return
	}
	p := uintptr(unsafe.Pointer(&s[:1][0]))
	sz := unsafe.Sizeof(orb.Point{})
	for i, a := range arrays {
		if len(a) == 0 {
			continue
		}
		base := uintptr(unsafe.Pointer(&a[0]))
		if p >= base && p < base+uintptr(len(a))*sz {
			sb.WriteString(" H " + strconv.Itoa(i) + " " + strconv.Itoa(int((p-base)/sz)) + " " +
				strconv.Itoa(len(s)) + " " + strconv.Itoa(cap(s)))
			return
		}
	}
	sb.WriteString(" F")
	wPts(sb, s)
}

func wLocGeom(sb *strings.Builder, g orb.Geometry, arrays [][]orb.Point) {
	switch g := g.(type) {
	case nil:
		sb.WriteString(" nil")
	case orb.Point:
		sb.WriteString(" P")
		wPt(sb, g)
	case orb.Bound:
		sb.WriteString(" B")
		wPt(sb, g.Min)
		wPt(sb, g.Max)
	case orb.MultiPoint:
		sb.WriteString(" MP")
		locate(sb, g, arrays)
	case orb.LineString:
		sb.WriteString(" LS")
		locate(sb, g, arrays)
	case orb.Ring:
		sb.WriteString(" R")
		locate(sb, g, arrays)
	case orb.MultiLineString:
		sb.WriteString(" MLS " + strconv.Itoa(len(g)))
		for _, l := range g {
			locate(sb, l, arrays)
		}
	case orb.Polygon:
		sb.WriteString(" PG " + strconv.Itoa(len(g)))
		for _, l := range g {
			locate(sb, l, arrays)
		}
	case orb.MultiPolygon:
		sb.WriteString(" MPG " + strconv.Itoa(len(g)))
		for _, pg := range g {
			sb.WriteString(" " + strconv.Itoa(len(pg)))
			for _, l := range pg {
				locate(sb, l, arrays)
			}
		}
	case orb.Collection:
		sb.WriteString(" C " + strconv.Itoa(len(g)))
		for _, m := range g {
			wLocGeom(sb, m, arrays)
		}
	}
}

func locString(g orb.Geometry, arrays [][]orb.Point) string {
	var sb strings.Builder
	wLocGeom(&sb, g, arrays)
	return strings.TrimSpace(sb.String())
}

// ---------- generator of heaps whose slices deliberately share backing arrays ----------

type hdrDesc struct{ arr, off, ln, cp int }

func (h hdrDesc) String() string {
	return strconv.Itoa(h.arr) + " " + strconv.Itoa(h.off) + " " + strconv.Itoa(h.ln) + " " + strconv.Itoa(h.cp)
}

// heapBuilder collects the slots (point slices) of a geometry skeleton; layout() then decides where
// every slot lives.
type heapBuilder struct {
	r       *rand.Rand
	content func(kind string) []orb.Point
	slots   [][]orb.Point
	kinds   []string
	filler  func() orb.Point
}

func (b *heapBuilder) slot(kind string) string {
	b.slots = append(b.slots, b.content(kind))
	b.kinds = append(b.kinds, kind)
	return "@" + strconv.Itoa(len(b.slots)-1)
}

// skeleton draws a geometry description with placeholders @j for the slice headers.
// kinds is the pool of top-level/member kinds to draw from.
func (b *heapBuilder) skeleton(kinds []string, depth int) string {
	r := b.r
	k := kinds[r.Intn(len(kinds))]
	if k == "C" && depth >= 2 {
		k = "R"
	}
	switch k {
	case "P":
		p := b.filler()
		return "P " + fb(p[0]) + " " + fb(p[1])
	case "B":
		p, q := b.filler(), b.filler()
		if p[0] > q[0] {
			p[0], q[0] = q[0], p[0]
		}
		if p[1] > q[1] {
			p[1], q[1] = q[1], p[1]
		}
		if r.Intn(8) == 0 { // inverted (empty) bound
			p, q = q, p
		}
		return "B " + fb(p[0]) + " " + fb(p[1]) + " " + fb(q[0]) + " " + fb(q[1])
	case "MP", "LS", "R":
		return k + " " + b.slot(k)
	case "MLS", "PG":
		n := 1 + r.Intn(3)
		if r.Intn(10) == 0 {
			n = 0
		}
		parts := []string{k, strconv.Itoa(n)}
		for i := 0; i < n; i++ {
			parts = append(parts, b.slot(k))
		}
		return strings.Join(parts, " ")
	case "MPG":
		n := 1 + r.Intn(3)
		parts := []string{k, strconv.Itoa(n)}
		for i := 0; i < n; i++ {
			m := 1 + r.Intn(2)
			if r.Intn(10) == 0 {
				m = 0
			}
			parts = append(parts, strconv.Itoa(m))
			for j := 0; j < m; j++ {
				parts = append(parts, b.slot(k))
			}
		}
		return strings.Join(parts, " ")
	default: // "C"
		n := 1 + r.Intn(3)
		if r.Intn(10) == 0 {
			n = 0
		}
		parts := []string{"C", strconv.Itoa(n)}
		for i := 0; i < n; i++ {
			parts = append(parts, b.skeleton(kinds, depth+1))
		}
		return strings.Join(parts, " ")
	}
}

// layout places the slots into backing arrays.
//
//	mode 0  every slot in its own array, with 0..3 spare cells of capacity and 0..2 cells beyond the capacity
//	mode 1  all slots packed back to back into one buffer, as buf[a:b] (capacity runs to the end of the
//	        buffer, i.e. over the following slots) or buf[a:b:b] (tight)
//	mode 2  as mode 0/1, but a slot may be THE SAME slice as an earlier slot, or a sub-slice of it
//	mode 3  arbitrary headers over one or two arrays (overlaps of every kind)
func (b *heapBuilder) layout(mode int) ([][]orb.Point, []hdrDesc) {
	r := b.r
	hs := make([]hdrDesc, len(b.slots))
	var arrays [][]orb.Point
	own := func(j int) {
		spare, tail := r.Intn(4), r.Intn(3)
		if r.Intn(3) == 0 {
			spare = 0
		}
		ps := b.slots[j]
		a := make([]orb.Point, 0, len(ps)+spare+tail)
		a = append(a, ps...)
		for len(a) < cap(a) {
			a = append(a, b.filler())
		}
		arrays = append(arrays, a)
		hs[j] = hdrDesc{len(arrays) - 1, 0, len(ps), len(ps) + spare}
	}
	switch mode {
	case 0:
		for j := range b.slots {
			own(j)
		}
	case 1, 2:
		packed := mode == 1 || r.Intn(2) == 0
		// phase A: which slots are shared with an earlier one (mode 2)
		share := make([]int, len(b.slots))
		for j := range share {
			share[j] = -1
			if mode == 2 && j > 0 && r.Intn(2) == 0 {
				share[j] = r.Intn(j)
			}
		}
		// phase B: the slots that own memory
		var buf []orb.Point
		bufID := -1
		if packed {
			for k := r.Intn(2); k > 0; k-- {
				buf = append(buf, b.filler())
			}
		}
		for j := range b.slots {
			if share[j] >= 0 {
				continue
			}
			if !packed {
				own(j)
				continue
			}
			if bufID < 0 {
				bufID = len(arrays)
				arrays = append(arrays, nil)
			}
			hs[j] = hdrDesc{bufID, len(buf), len(b.slots[j]), -1} // capacity fixed below
			buf = append(buf, b.slots[j]...)
			for k := r.Intn(3); k > 1; k-- { // an occasional gap cell
				buf = append(buf, b.filler())
			}
		}
		if bufID >= 0 {
			for k := r.Intn(3); k > 0; k-- {
				buf = append(buf, b.filler())
			}
			arrays[bufID] = buf
			for j := range hs {
				if share[j] < 0 && hs[j].arr == bufID && hs[j].cp < 0 {
					if r.Intn(3) == 0 {
						hs[j].cp = hs[j].ln // buf[a:b:b]
					} else {
						hs[j].cp = len(buf) - hs[j].off // buf[a:b]
					}
				}
			}
		}
		// phase C: shared slots are THE SAME slice as an earlier slot, or a sub-slice of it
		for j := range hs {
			if share[j] < 0 {
				continue
			}
			e := hs[share[j]]
			if e.ln > 0 && r.Intn(2) == 0 {
				lo := r.Intn(e.ln)
				hi := lo + r.Intn(e.ln-lo+1)
				cp := e.cp - lo // s[lo:hi]
				if r.Intn(2) == 0 {
					cp = hi - lo // s[lo:hi:hi]
				}
				hs[j] = hdrDesc{e.arr, e.off + lo, hi - lo, cp}
			} else {
				hs[j] = e
			}
		}
	default:
		na := 1 + r.Intn(2)
		for i := 0; i < na; i++ {
			var a []orb.Point
			for _, s := range b.slots {
				if r.Intn(na) == 0 {
					a = append(a, s...)
				}
			}
			for k := r.Intn(4); k > 0; k-- {
				a = append(a, b.filler())
			}
			arrays = append(arrays, a)
		}
		for j := range hs {
			ai := r.Intn(na)
			n := len(arrays[ai])
			off := r.Intn(n + 1)
			ln := r.Intn(n - off + 1)
			cp := ln + r.Intn(n-off-ln+1)
			hs[j] = hdrDesc{ai, off, ln, cp}
		}
	}
	// safety net: every header must be a legal slice of its array
	for j := range hs {
		n := len(arrays[hs[j].arr])
		if hs[j].cp < hs[j].ln {
			hs[j].cp = hs[j].ln
		}
		if hs[j].off+hs[j].cp > n {
			hs[j].cp = n - hs[j].off
		}
	}
	return arrays, hs
}

// build draws one heap + geometry description.
func (b *heapBuilder) build(kinds []string, mode int) string {
	b.slots, b.kinds = nil, nil
	sk := b.skeleton(kinds, 0)
	arrays, hs := b.layout(mode)
	toks := strings.Split(sk, " ")
	for i, t := range toks {
		if strings.HasPrefix(t, "@") {
			j, _ := strconv.Atoi(t[1:])
			toks[i] = hs[j].String()
		}
	}
	return heapString(arrays) + " " + strings.Join(toks, " ")
}
