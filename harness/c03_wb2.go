package main

// C03 — second white-box round: what one call may do to ITS OWN argument and result.
//
//   arg@marshal / arg@marshalgz   Marshal / MarshalGzipped only READ their argument: a deep fingerprint of the
//                   Layers value (reflect: every field, exported or not, maps order-independent) is the same
//                   before and after the call;
//   m0@concurrent   several goroutines Marshal / MarshalGzipped the SAME Layers value at once (a tile server
//                   holding prepared layers): every result equals the sequential bytes (a crash of the
//                   runtime, `fatal error: concurrent map writes`, kills the shard: ./check reports the case);
//   <name>3@twin    the parts of ONE decoded value are independent: every layer / feature / vertex / property
//                   of a third result of the call is overwritten with a value of its own, then all of them are
//                   read again (two features sharing a map or a point slice hold the later writer's values).

import (
	"bytes"
	"math"
	"reflect"
	"runtime"
	"strconv"
	"sync"
	"sync/atomic"

	"github.com/paulmach/orb"
	"github.com/paulmach/orb/encoding/mvt"
)

// c03DeepFP: fingerprint of everything reachable from v, unexported fields included.
func c03DeepFP(v interface{}) uint64 {
	h := c03HashInit
	seen := map[uintptr]bool{}
	var walk func(h *c03Hash, v reflect.Value)
	walk = func(h *c03Hash, v reflect.Value) {
		if !v.IsValid() {
			h.word(0x6e696c)
			return
		}
		h.word(uint64(v.Kind()))
		switch v.Kind() {
		case reflect.Bool:
			if v.Bool() {
				h.word(1)
			} else {
				h.word(0)
			}
		case reflect.Int, reflect.Int8, reflect.Int16, reflect.Int32, reflect.Int64:
			h.word(uint64(v.Int()))
		case reflect.Uint, reflect.Uint8, reflect.Uint16, reflect.Uint32, reflect.Uint64, reflect.Uintptr:
			h.word(v.Uint())
		case reflect.Float32, reflect.Float64:
			h.word(math.Float64bits(v.Float()))
		case reflect.String:
			h.str(v.String())
		case reflect.Ptr:
			if v.IsNil() {
				h.word(0)
				return
			}
			if seen[v.Pointer()] {
				h.word(2)
				return
			}
			seen[v.Pointer()] = true
			h.word(1)
			walk(h, v.Elem())
		case reflect.Interface:
			if v.IsNil() {
				h.word(0)
				return
			}
			h.str(v.Elem().Type().String())
			walk(h, v.Elem())
		case reflect.Slice:
			if v.IsNil() {
				h.word(0)
				return
			}
			h.word(uint64(v.Len()) + 1)
			for i := 0; i < v.Len(); i++ {
				walk(h, v.Index(i))
			}
		case reflect.Array:
			for i := 0; i < v.Len(); i++ {
				walk(h, v.Index(i))
			}
		case reflect.Map:
			if v.IsNil() {
				h.word(0)
				return
			}
			h.word(uint64(v.Len()) + 1)
			var sum uint64
			it := v.MapRange()
			for it.Next() {
				e := c03HashInit
				walk(&e, it.Key())
				walk(&e, it.Value())
				sum += uint64(e)
			}
			h.word(sum)
		case reflect.Struct:
			for i := 0; i < v.NumField(); i++ {
				walk(h, v.Field(i))
			}
		default: // chan, func, unsafe pointer: nil or not
			if v.IsNil() {
				h.word(0)
			} else {
				h.word(1)
			}
		}
	}
	walk(&h, reflect.ValueOf(v))
	return uint64(h)
}

// argUntouched runs call (which hands arg to the library) and flags name@stage if arg reads differently afterwards.
func (k *c03Keeper) argUntouched(name, stage string, arg mvt.Layers, call func()) {
	before := guard(func() string { return strconv.FormatUint(c03DeepFP(arg), 16) })
	call()
	if after := guard(func() string { return strconv.FormatUint(c03DeepFP(arg), 16) }); after != before {
		k.flag(name, stage)
		k.argChanged = true
	}
}

// concurrent: goroutines marshalling ONE value at the same time get the bytes of the sequential calls.
func (k *c03Keeper) concurrent(m0 mvt.Layers, data, gz []byte) {
	if k.argChanged { // a Marshal that writes to its argument is already reported; racing it would only kill the process
		return
	}
	const workers = 4
	rounds := 60000 / (len(data) + 500) // at most 40 calls on small tiles, 3 on large ones
	if rounds < 3 {
		rounds = 3
	}
	if rounds > 10 {
		rounds = 10
	}
	old := runtime.GOMAXPROCS(workers)
	defer runtime.GOMAXPROCS(old)
	var bad int32
	var wg sync.WaitGroup
	start := make(chan struct{})
	for w := 0; w < workers; w++ {
		wg.Add(1)
		go func(w int) {
			defer wg.Done()
			defer func() {
				if recover() != nil {
					atomic.AddInt32(&bad, 1)
				}
			}()
			<-start
			for r := 0; r < rounds; r++ {
				if gz != nil && (w+r)%4 == 3 {
					if d, err := mvt.MarshalGzipped(m0); err != nil || !bytes.Equal(d, gz) {
						atomic.AddInt32(&bad, 1)
					}
				} else if d, err := mvt.Marshal(m0); err != nil || !bytes.Equal(d, data) {
					atomic.AddInt32(&bad, 1)
				}
			}
		}(w)
	}
	close(start)
	wg.Wait()
	k.calls += workers * rounds
	if bad != 0 {
		k.flag("m0", "concurrent")
	}
}

type c03Redo struct {
	name string
	data []byte
	f    func([]byte) (mvt.Layers, error)
}

func c03TwinPoint(n *int) orb.Point {
	*n++
	return orb.Point{float64(*n) + 0.5, -float64(*n)}
}

// c03TwinWalk: write == true gives every part of ls a value of its own; write == false reads them back and
// reports whether each part still holds its value.
func c03TwinWalk(ls mvt.Layers, write bool) bool {
	good := true
	n := 0
	for i, l := range ls {
		if l == nil {
			continue
		}
		name := "twin" + strconv.Itoa(i)
		if write {
			l.Name, l.Version, l.Extent = name, uint32(1000+i), uint32(2000+i)
		} else if l.Name != name || l.Version != uint32(1000+i) || l.Extent != uint32(2000+i) {
			good = false
		}
		for j, f := range l.Features {
			if f == nil {
				continue
			}
			tag := name + "/" + strconv.Itoa(j)
			switch f.Geometry.(type) {
			case orb.Point:
				p := c03TwinPoint(&n)
				if write {
					f.Geometry = p
				} else if f.Geometry != orb.Geometry(p) {
					good = false
				}
			default:
				forEachVertex(f.Geometry, func(q *orb.Point) {
					p := c03TwinPoint(&n)
					if write {
						*q = p
					} else if *q != p {
						good = false
					}
				})
			}
			if write {
				f.ID = tag
				f.Type = tag
				for key := range f.Properties {
					f.Properties[key] = tag + ":" + key
				}
				if f.Properties != nil {
					f.Properties["\x00twin:"+tag] = len(f.Properties)
				}
			} else {
				if f.ID != interface{}(tag) || f.Type != tag {
					good = false
				}
				if f.Properties != nil {
					if cnt, ok := f.Properties["\x00twin:"+tag].(int); !ok || cnt+1 != len(f.Properties) {
						good = false
					}
					for key, v := range f.Properties {
						if key != "\x00twin:"+tag && v != interface{}(tag+":"+key) {
							good = false
						}
					}
				}
			}
		}
	}
	return good
}

// twins decodes every input of the op once more and checks that the parts of that one value are independent
// of each other and of the results kept before.
func (k *c03Keeper) twins() {
	for _, rd := range k.redo {
		var l mvt.Layers
		var err error
		if guard(func() string { l, err = rd.f(append([]byte(nil), rd.data...)); return "" }) != "" || err != nil {
			continue
		}
		if c03Fingerprint(l, err) != k.fpOf(rd.name) {
			k.flag(rd.name+"3", "differs")
		}
		good := false
		guard(func() string { c03TwinWalk(l, true); good = c03TwinWalk(l, false); return "" })
		if !good {
			k.flag(rd.name+"3", "twin")
		}
	}
	k.verify("twin")
}

func (k *c03Keeper) fpOf(name string) uint64 {
	for _, e := range k.ls {
		if e.name == name {
			return e.fp
		}
	}
	return 0
}
