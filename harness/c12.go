package main

import (
	"math"
	"math/rand"
	"strconv"
	"strings"

	"github.com/paulmach/orb"
	"github.com/paulmach/orb/encoding/mvt"
	"github.com/paulmach/orb/geojson"
	"github.com/paulmach/orb/planar"
	"github.com/paulmach/orb/simplify"
)

// C12 — simplifiers (Douglas-Peucker, Radial, Visvalingam) and the per-kind wrappers of helpers.go.
//
// Case lines:
//
//	line <kind> <t1> <k1> <t2> <k2> <L|R> <n pts>  =>  <A> | <B> | <C>
//	     A = simplifier(kind,t1,k1) on the line (L: .LineString, R: .Ring)
//	     B = the same simplifier run again on a copy of A        (idempotence)
//	     C = simplifier(kind,t2,k2) on a fresh copy of the input (nesting partner, t1 <= t2, k2 <= k1)
//	long  — same format and runs as line (vertex lists of 32/64/128 vertices; the driver judges them by the
//	        Float twin and the structural clauses only)
//	seq <kind> <t> <k> <m> (<L|R> <n pts>)*m  =>  <r1> | … | <rm>
//	     ONE simplifier value, built once, run on the m vertex lists in order (L: .LineString, R: .Ring):
//	     anything a simplifier remembers from one call to the next is visible here
//	geom <kind> <t> <k> <gval>  =>  <Simplify(g)> | <typed method on g, or "none"> | <Simplify(result) again>
//	     the third part reuses the simplifier VALUE of the first on its own result;
//	     <gval> may hold nil members (gsN: nil rings / lines / polygons, typed-nil and nil-interface
//	     collection members)
//	alias — same as geom, but the vertex lists of the value are windows of ONE backing array, each
//	        followed directly by the next (spare capacity of a ring IS the next ring); a guard window
//	        at the end is checked after every call (outcome "clobber" if it was written)
//	mvt <kind> <t> <k> <nl> (<nf> <gval>*nf)*nl  =>  <nl> (<kept> (<feature index> <geometry>)*kept)*nl
//	     mvt.Layers.Simplify with one simplifier value over all features of all layers
//
// kind: dp (Douglas-Peucker), rs (Radial with planar.DistanceSquared), rd (Radial with planar.Distance),
// vs (Visvalingam(t, k); VisvalingamThreshold / VisvalingamKeep when k = 0 / t = MaxFloat64).
// Every part is "panic" if the call panicked.  The simplifiers work IN PLACE and return a sub-slice of
// their argument: the input tokens of the line are the geometry before the call, every call gets a
// freshly parsed copy, and results are serialised after the call.
func init() { register(&Prop{ID: "C12", Run: runC12, Gen: genC12}) }

func mkSimplifier(kind string, t float64, k int) orb.Simplifier {
	switch kind {
	case "dp":
		return simplify.DouglasPeucker(t)
	case "rs":
		return simplify.Radial(planar.DistanceSquared, t)
	case "rd":
		return simplify.Radial(planar.Distance, t)
	case "vs":
		if t == math.MaxFloat64 {
			return simplify.VisvalingamKeep(k)
		}
		if k == 0 {
			return simplify.VisvalingamThreshold(t)
		}
		return simplify.Visvalingam(t, k)
	}
	panic("bad simplifier kind " + kind)
}

func clonePts(ps []orb.Point) []orb.Point {
	c := make([]orb.Point, len(ps))
	copy(c, ps)
	return c
}

func runLineOn(s orb.Simplifier, lr string, ps []orb.Point) []orb.Point {
	if lr == "R" {
		return s.Ring(orb.Ring(ps))
	}
	return s.LineString(orb.LineString(ps))
}

func runC12(op string, in []string) string {
	return guard(func() string {
		switch op {
		case "line", "long":
			r := &tokReader{t: in}
			kind := r.next()
			t1 := r.f()
			k1 := r.int()
			t2 := r.f()
			k2 := r.int()
			lr := r.next()
			ps := r.pts()
			var a []orb.Point
			pa := guard(func() string {
				a = runLineOn(mkSimplifier(kind, t1, k1), lr, clonePts(ps))
				return spts(a)
			})
			pb := "panic"
			if pa != "panic" {
				keep := clonePts(a)
				pb = guard(func() string { return spts(runLineOn(mkSimplifier(kind, t1, k1), lr, clonePts(keep))) })
			}
			pc := guard(func() string { return spts(runLineOn(mkSimplifier(kind, t2, k2), lr, clonePts(ps))) })
			return pa + " | " + pb + " | " + pc
		case "seq":
			r := &tokReader{t: in}
			kind := r.next()
			t := r.f()
			k := r.int()
			m := r.int()
			s := mkSimplifier(kind, t, k) // ONE value for all m calls
			parts := make([]string, m)
			for i := 0; i < m; i++ {
				lr := r.next()
				ps := r.pts()
				parts[i] = guard(func() string { return spts(runLineOn(s, lr, ps)) })
			}
			return strings.Join(parts, " | ")
		case "geom", "alias":
			kind := in[0]
			t := pf(in[1])
			k := pi(in[2])
			rest := in[3:]
			build := func() (orb.Geometry, func() bool) {
				g, _ := parseGeom(rest)
				if op == "alias" {
					return c12Alias(g)
				}
				return g, func() bool { return true }
			}
			var s1 orb.Simplifier
			var r1 orb.Geometry
			p1 := guard(func() string {
				g, intact := build()
				s1 = mkSimplifier(kind, t, k)
				r1 = s1.Simplify(g)
				if !intact() {
					return "clobber"
				}
				return gs(r1)
			})
			p2 := guard(func() string {
				g, intact := build()
				s := mkSimplifier(kind, t, k)
				out := "none"
				switch v := g.(type) {
				case orb.LineString:
					if v != nil {
						out = gs(s.LineString(v))
					}
				case orb.MultiLineString:
					if v != nil {
						out = gs(s.MultiLineString(v))
					}
				case orb.Ring:
					if v != nil {
						out = gs(s.Ring(v))
					}
				case orb.Polygon:
					if v != nil {
						out = gs(s.Polygon(v))
					}
				case orb.MultiPolygon:
					if v != nil {
						out = gs(s.MultiPolygon(v))
					}
				case orb.Collection:
					if v != nil {
						out = gs(s.Collection(v))
					}
				}
				if !intact() {
					return "clobber"
				}
				return out
			})
			p3 := "panic"
			if p1 != "panic" && p1 != "clobber" {
				p3 = guard(func() string { return gs(s1.Simplify(r1)) }) // same simplifier value, its own result
			}
			return p1 + " | " + p2 + " | " + p3
		case "mvt":
			r := &tokReader{t: in}
			kind := r.next()
			t := r.f()
			k := r.int()
			nl := r.int()
			layers := make(mvt.Layers, nl)
			for i := range layers {
				nf := r.int()
				fs := make([]*geojson.Feature, nf)
				for j := range fs {
					f := geojson.NewFeature(r.geom())
					f.ID = j
					f.Properties["i"] = j
					fs[j] = f
				}
				layers[i] = &mvt.Layer{Name: "l" + strconv.Itoa(i), Version: 2, Extent: 4096, Features: fs}
			}
			layers.Simplify(mkSimplifier(kind, t, k))
			var sb strings.Builder
			sb.WriteString(strconv.Itoa(len(layers)))
			for _, l := range layers {
				sb.WriteString(" " + strconv.Itoa(len(l.Features)))
				for _, f := range l.Features {
					id, ok := f.ID.(int)
					if !ok || f.Properties["i"] != id {
						id = -1 // the feature lost its identity
					}
					sb.WriteString(" " + strconv.Itoa(id) + " " + gs(f.Geometry))
				}
			}
			return sb.String()
		}
		return "badop"
	})
}

// ---- generators ----

// c12Line draws a vertex list of 0..max vertices with repeated vertices, collinear runs,
// spikes and (often) coincident endpoints.
func c12Line(r *rand.Rand, m CoordMode, max int, closed bool) []orb.Point {
	n := r.Intn(max + 1)
	if r.Intn(8) == 0 {
		n = size(r, max)
	}
	ps := make([]orb.Point, 0, n+1)
	allCollinear := r.Intn(12) == 0
	var dir orb.Point
	if allCollinear {
		dir = genPoint(r, CoordSmallInt)
	}
	for i := 0; i < n; i++ {
		var p orb.Point
		c := r.Intn(12)
		switch {
		case allCollinear && i > 0:
			k := float64(r.Intn(9) - 4)
			p = orb.Point{ps[0][0] + k*dir[0], ps[0][1] + k*dir[1]}
		case c == 0 && i > 0: // repeat the previous vertex
			p = ps[i-1]
		case c == 1 && i > 0: // repeat an earlier vertex
			p = ps[r.Intn(i)]
		case (c == 2 || c == 3) && i > 1: // continue straight on (collinear)
			p = orb.Point{2*ps[i-1][0] - ps[i-2][0], 2*ps[i-1][1] - ps[i-2][1]}
		case c == 4 && i > 1: // spike: go back
			p = ps[i-2]
		case c == 5 && i > 1: // midpoint of the previous two (collinear, between)
			p = orb.Point{(ps[i-1][0] + ps[i-2][0]) / 2, (ps[i-1][1] + ps[i-2][1]) / 2}
		default:
			p = genPoint(r, m)
		}
		if math.IsNaN(p[0]+p[1]) || math.IsInf(p[0]+p[1], 0) || math.IsInf(p[0], 0) || math.IsInf(p[1], 0) {
			p = genPoint(r, CoordSmallInt) // a derived vertex overflowed: coordinates stay finite
		}
		ps = append(ps, p)
	}
	if len(ps) >= 2 {
		if closed && r.Intn(4) != 0 || !closed && r.Intn(5) == 0 {
			if r.Intn(3) == 0 || len(ps) < 3 {
				ps = append(ps, ps[0])
			} else {
				ps[len(ps)-1] = ps[0]
			}
		}
	}
	return ps
}

func diameter(ps []orb.Point) float64 {
	d := 0.0
	for i := range ps {
		for j := i + 1; j < len(ps); j++ {
			if x := planar.Distance(ps[i], ps[j]); x > d {
				d = x
			}
		}
	}
	return d
}

// halfRound rounds to a multiple of 0.5 (keeps thresholds exact and tie-prone on integer grids).
func halfRound(x float64) float64 { return math.Round(x*2) / 2 }

// c12Threshold: {0, small, a value hitting an actual distance of the configuration, mid, above the diameter}.
func c12Threshold(r *rand.Rand, kind string, ps []orb.Point, m CoordMode) float64 {
	t := c12Threshold0(r, kind, ps, m)
	if math.IsNaN(t) || math.IsInf(t, 0) {
		if kind == "vs" {
			return math.MaxFloat64
		}
		return 1e300
	}
	return t
}

func c12Threshold0(r *rand.Rand, kind string, ps []orb.Point, m CoordMode) float64 {
	d := diameter(ps)
	if kind == "rs" || kind == "vs" {
		d = d * d
	}
	exact := m == CoordSmallInt || m == CoordInt || m == CoordHalf
	switch r.Intn(8) {
	case 0:
		return 0
	case 1:
		if exact {
			return []float64{0.5, 1, 0.25}[r.Intn(3)]
		}
		return []float64{1e-12, 1e-9, 1e-300, 5e-324}[r.Intn(4)] * (1 + d)
	case 2: // tie: the threshold equals a quantity the algorithm compares against
		if len(ps) >= 3 {
			i := r.Intn(len(ps))
			j := r.Intn(len(ps))
			k := r.Intn(len(ps))
			switch kind {
			case "dp":
				return math.Sqrt(planar.DistanceFromSegmentSquared(ps[i], ps[j], ps[k]))
			case "rs":
				return planar.DistanceSquared(ps[i], ps[j])
			case "rd":
				return planar.Distance(ps[i], ps[j])
			default:
				return math.Abs((ps[j][0]-ps[i][0])*(ps[k][1]-ps[i][1])-(ps[j][1]-ps[i][1])*(ps[k][0]-ps[i][0])) / 2
			}
		}
		return 1
	case 3:
		return float64(1 + r.Intn(4))
	case 4:
		return d*2 + 1
	case 5:
		if kind == "vs" {
			return math.MaxFloat64
		}
		return d * 4
	default:
		t := d * r.Float64()
		if kind == "vs" {
			t = d * r.Float64() * r.Float64() / 2
		}
		if exact {
			return halfRound(t)
		}
		return t
	}
}

func c12Keep(r *rand.Rand, n int) int {
	switch r.Intn(10) {
	case 0, 1, 2:
		return 0
	case 3:
		return 2
	case 4:
		return 3
	case 5:
		return 4
	case 6:
		if n > 2 {
			return n - 1
		}
		return 2
	case 7:
		if n >= 2 {
			return n
		}
		return 2
	case 8:
		return n + 1 + r.Intn(2)
	default:
		return 2 + r.Intn(9)
	}
}

func c12Kind(r *rand.Rand) string {
	return []string{"dp", "dp", "dp", "rs", "rs", "rd", "vs", "vs", "vs", "vs"}[r.Intn(10)]
}

func lineCase(c *Ctx, kind string, t1 float64, k1 int, t2 float64, k2 int, lr string, ps []orb.Point) {
	c.Case("line", kind+" "+fb(t1)+" "+strconv.Itoa(k1)+" "+fb(t2)+" "+strconv.Itoa(k2)+" "+lr+" "+spts(ps))
}

// exhaustive family: every vertex list of n vertices on a g x g grid.
func c12Grid(c *Ctx, g, n int, ctr *int) {
	total := 1
	for i := 0; i < n; i++ {
		total *= g * g
	}
	type sp struct {
		kind   string
		t1     float64
		k1     int
		t2     float64
		k2     int
	}
	specs := []sp{
		{"dp", 0, 0, 1, 0}, {"dp", 0.5, 0, 1.5, 0}, {"dp", 1, 0, 2, 0},
		{"rs", 0, 0, 1, 0}, {"rs", 2, 0, 4, 0}, {"rd", 1, 0, 2, 0},
		{"vs", 0, 0, 0.5, 0}, {"vs", 1, 0, math.MaxFloat64, 0}, {"vs", math.MaxFloat64, 3, math.MaxFloat64, 2},
		{"vs", 0.5, 4, 2, 2}, {"vs", 0.25, 0, 1, 0},
	}
	for idx := 0; idx < total && !c.Exhausted(); idx++ {
		*ctr++
		if !c.Mine(*ctr) {
			continue
		}
		ps := make([]orb.Point, n)
		v := idx
		for i := 0; i < n; i++ {
			cell := v % (g * g)
			v /= g * g
			ps[i] = orb.Point{float64(cell % g), float64(cell / g)}
		}
		for _, s := range specs {
			lineCase(c, s.kind, s.t1, s.k1, s.t2, s.k2, "L", ps)
			if s.kind == "vs" || n >= 3 && ps[0] == ps[n-1] {
				lineCase(c, s.kind, s.t1, s.k1, s.t2, s.k2, "R", ps)
			}
		}
	}
}


// c12MapLists rebuilds g with every (non-nil) vertex list of a line string, ring, multi line string,
// polygon or multi polygon replaced by f(list); collections recursively; multi points untouched.
func c12MapLists(g orb.Geometry, f func([]orb.Point) []orb.Point) orb.Geometry {
	switch v := g.(type) {
	case orb.LineString:
		if v == nil {
			return v
		}
		return orb.LineString(f(v))
	case orb.Ring:
		if v == nil {
			return v
		}
		return orb.Ring(f(v))
	case orb.MultiLineString:
		for i := range v {
			if v[i] != nil {
				v[i] = orb.LineString(f(v[i]))
			}
		}
		return v
	case orb.Polygon:
		for i := range v {
			if v[i] != nil {
				v[i] = orb.Ring(f(v[i]))
			}
		}
		return v
	case orb.MultiPolygon:
		for i := range v {
			for j := range v[i] {
				if v[i][j] != nil {
					v[i][j] = orb.Ring(f(v[i][j]))
				}
			}
		}
		return v
	case orb.Collection:
		for i := range v {
			v[i] = c12MapLists(v[i], f)
		}
		return v
	}
	return g
}

// c12Alias lays all vertex lists of g out as consecutive windows of ONE backing array (the spare
// capacity of every list is the next list), followed by a guard window.  The returned function
// reports whether the guard is still intact.
func c12Alias(g orb.Geometry) (orb.Geometry, func() bool) {
	total := 0
	c12MapLists(g, func(l []orb.Point) []orb.Point { total += len(l); return l })
	const guardN = 4
	buf := make([]orb.Point, total+guardN)
	guardAt := func(i int) orb.Point { return orb.Point{-7.5e8 - float64(i), 6.25e8 + float64(i)} }
	for i := 0; i < guardN; i++ {
		buf[total+i] = guardAt(i)
	}
	off := 0
	g = c12MapLists(g, func(l []orb.Point) []orb.Point {
		w := buf[off : off+len(l)]
		copy(w, l)
		off += len(l)
		return w
	})
	return g, func() bool {
		for i := 0; i < guardN; i++ {
			if buf[total+i] != guardAt(i) {
				return false
			}
		}
		return true
	}
}

// c12NilMembers puts nil interfaces in place of some collection members (to depth 2).
func c12NilMembers(r *rand.Rand, g orb.Geometry) orb.Geometry {
	if c, ok := g.(orb.Collection); ok {
		for i := range c {
			if r.Intn(5) == 0 {
				c[i] = nil
			} else {
				c[i] = c12NilMembers(r, c[i])
			}
		}
	}
	return g
}

// c12HolePolygon: an outer ring and 2..4 holes of very different sizes, so that under one threshold
// some holes collapse (and are dropped) while later ones survive, in every order; some holes are
// degenerate (0..2 points) from the start.
func c12HolePolygon(r *rand.Rand) orb.Polygon {
	nh := 2 + r.Intn(3)
	pg := make(orb.Polygon, 0, nh+1)
	pg = append(pg, orb.Ring{{0, 0}, {20, 0}, {40, 0}, {40, 40}, {20, 41}, {0, 40}, {0, 0}})
	shapes := [][]orb.Point{
		{{0, 0}, {1, 0}, {1, 1}, {0, 1}, {0, 0}},
		{{0, 0}, {2, 0}, {1, 2}, {0, 0}},
		{{0, 0}, {1, 0}, {2, 1}, {2, 2}, {0, 2}, {0, 0}},
		{{0, 0}, {2, 0}, {2, 1}, {2, 2}, {0, 2}},
		{{0, 0}, {1, 1}, {0, 0}},
	}
	for h := 0; h < nh; h++ {
		if r.Intn(6) == 0 { // degenerate from the start
			pg = append(pg, orb.Ring(c12Line(r, CoordSmallInt, 2, false)))
			continue
		}
		sh := shapes[r.Intn(len(shapes))]
		sc := []float64{0.125, 0.5, 1, 4, 8}[r.Intn(5)]
		cx, cy := float64(2+r.Intn(20)), float64(2+r.Intn(20))
		ring := make(orb.Ring, len(sh))
		for i, p := range sh {
			ring[i] = orb.Point{cx + sc*p[0], cy + sc*p[1]}
		}
		pg = append(pg, ring)
	}
	return pg
}

// c12LongLine: n vertices on the 3x3 grid (ties everywhere: a deep heap, a deep Douglas-Peucker stack)
// or a +-1 random walk on small integers.
func c12LongLine(r *rand.Rand, n int, closed bool) []orb.Point {
	ps := make([]orb.Point, n)
	walk := r.Intn(3) == 0
	for i := range ps {
		if walk && i > 0 {
			ps[i] = orb.Point{ps[i-1][0] + float64(r.Intn(3)-1), ps[i-1][1] + float64(r.Intn(3)-1)}
		} else {
			ps[i] = orb.Point{float64(r.Intn(3)), float64(r.Intn(3))}
		}
	}
	if closed {
		ps[n-1] = ps[0]
	}
	return ps
}

func c12Long(c *Ctx) {
	r := c.Rng
	per := 10
	if c.Tier == "thorough" {
		per = 60
	}
	type sp struct {
		kind   string
		t1, t2 float64
	}
	specs := []sp{{"dp", 0, 0.5}, {"dp", 0.5, 1}, {"dp", 1, 1.5}, {"dp", 1.5, 2}, {"rs", 0, 1}, {"rs", 2, 4}, {"rd", 1, 2},
		{"vs", 0, 0.25}, {"vs", 0.25, 0.5}, {"vs", 0.5, 1}, {"vs", 1, 2}, {"vs", 2, math.MaxFloat64}, {"vs", math.MaxFloat64, math.MaxFloat64}}
	for _, n := range []int{32, 64, 128} {
		for i := 0; i < per && !c.Exhausted(); i++ {
			lr := []string{"L", "R"}[r.Intn(2)]
			ps := c12LongLine(r, n, lr == "R" && r.Intn(4) != 0 || lr == "L" && r.Intn(5) == 0)
			s := specs[r.Intn(len(specs))]
			k1, k2 := 0, 0
			if s.kind == "vs" {
				k1 = []int{0, 0, 2, 3, 4, n / 2, n - 1, 2 + r.Intn(n)}[r.Intn(8)]
				k2 = k1
				if k1 > 2 && r.Intn(2) == 0 {
					k2 = 2 + r.Intn(k1-1)
				}
			}
			c.Case("long", s.kind+" "+fb(s.t1)+" "+strconv.Itoa(k1)+" "+fb(s.t2)+" "+strconv.Itoa(k2)+" "+lr+" "+spts(ps))
		}
	}
}

func genC12(c *Ctx) {
	r := c.Rng
	ctr := 0
	// fixed family
	if c.Shard == 0 {
		// the simplify package's own test literals, and the degenerate members
		sq := []orb.Point{{0, 0}, {1, 0}, {1, 1}, {0, 1}, {0, 0}}
		for _, kind := range []string{"dp", "rs", "rd", "vs"} {
			for _, ps := range [][]orb.Point{{}, {{1, 2}}, {{1, 2}, {1, 2}}, {{0, 0}, {1, 1}, {2, 2}}, sq,
				{{0, 0}, {0, 0}, {0, 0}, {0, 0}}, {{0, 0}, {1, 0}, {2, 0}, {3, 0}, {0, 0}}} {
				for _, lr := range []string{"L", "R"} {
					lineCase(c, kind, 0, 0, 1, 0, lr, ps)
					lineCase(c, kind, 0.5, 0, 100, 0, lr, ps)
					if kind == "vs" {
						for k := 2; k <= 6; k++ {
							lineCase(c, kind, math.MaxFloat64, k, math.MaxFloat64, 2, lr, ps)
						}
					}
				}
			}
			e := orb.LineString{}
			l := orb.LineString{{0, 0}, {1, 1}, {2, 0}, {3, 3}}
			for _, g := range append(append([]orb.Geometry{}, orb.AllGeometries...),
				orb.MultiPolygon{{}}, orb.MultiPolygon{{}, {orb.Ring(sq)}}, orb.MultiPolygon{{orb.Ring(sq)}, {}},
				orb.MultiPolygon{{orb.Ring{}}}, orb.MultiPolygon{{orb.Ring(sq), orb.Ring{}}},
				orb.Polygon{}, orb.Polygon{orb.Ring{}}, orb.Polygon{orb.Ring{{0, 0}, {1, 1}}, orb.Ring{{0, 0}, {1, 1}}, orb.Ring(sq)},
				orb.MultiLineString{e, l}, orb.MultiLineString{l, e}, orb.MultiLineString{},
				orb.Collection{}, orb.Collection{orb.Collection{}}, orb.Collection{e, l, orb.MultiPoint{}},
				orb.Collection{orb.MultiPolygon{{}}}, orb.MultiPoint{}, nil, orb.MultiPoint(nil), orb.LineString(nil),
				orb.Ring(nil), orb.Polygon(nil), orb.MultiPolygon(nil), orb.MultiLineString(nil), orb.Collection(nil),
			) {
				for _, t := range []float64{0, 0.5, 10} {
					c.Case("geom", kind+" "+fb(t)+" 0 "+gs(g))
				}
			}
		}
		// the overflow witness of known finding C12-vis-inf-area-sentinel and its neighbours
		// (finite coordinates, triangle areas that overflow float64)
		big := []orb.Point{{0, 0}, {1e200, 0}, {0, 1e200}}
		big5 := []orb.Point{{0, 0}, {1e200, 0}, {1e200, 1e200}, {0, 1e200}, {0, 0}}
		for _, ps := range [][]orb.Point{big, big5} {
			for _, lr := range []string{"L", "R"} {
				for k := 0; k <= 4; k++ {
					if k == 1 {
						continue
					}
					lineCase(c, "vs", math.MaxFloat64, k, math.MaxFloat64, k, lr, ps)
					lineCase(c, "vs", 1, k, math.MaxFloat64, k, lr, ps)
				}
			}
		}
		// one simplifier value over a line, then rings (default keep counts must be resolved per call)
		ring8 := []orb.Point{{0, 0}, {2, 0}, {4, 1}, {5, 3}, {4, 5}, {2, 6}, {0, 4}, {0, 0}}
		open7 := ring8[:7]
		for _, t := range []float64{0, 1, 100, math.MaxFloat64} {
			for _, k := range []int{0, 2, 3} {
				c.Case("seq", "vs "+fb(t)+" "+strconv.Itoa(k)+" 4 L "+spts(open7)+" R "+spts(ring8)+" R "+spts(open7)+" L "+spts(ring8))
				c.Case("seq", "vs "+fb(t)+" "+strconv.Itoa(k)+" 3 R "+spts(open7)+" R "+spts(ring8)+" L "+spts(open7))
				c.Case("geom", "vs "+fb(t)+" "+strconv.Itoa(k)+" "+gs(orb.Polygon{orb.Ring(clonePts(open7)), orb.Ring(clonePts(ring8)), orb.Ring(clonePts(ring8))}))
				c.Case("geom", "vs "+fb(t)+" "+strconv.Itoa(k)+" "+gs(orb.Collection{orb.LineString(clonePts(ring8)), orb.Ring(clonePts(open7)), orb.Ring(clonePts(ring8))}))
			}
		}
		for _, kind := range []string{"dp", "rs", "rd"} {
			for _, t := range []float64{0, 1, 3} {
				c.Case("seq", kind+" "+fb(t)+" 0 3 L "+spts(open7)+" R "+spts(ring8)+" R "+spts(open7))
			}
		}
		// nil members of a collection: nil interface, nil multi point (both come back nil), typed nil slices
		for _, kind := range []string{"dp", "rs", "rd", "vs"} {
			c.Case("geom", kind+" "+fb(1)+" 0 C 3 nil nMP nLS")
			c.Case("geom", kind+" "+fb(1)+" 0 C 2 nil C 2 nil MP 0")
			c.Case("geom", kind+" "+fb(1)+" 0 C 4 nR nPG nMPG nC")
			c.Case("geom", kind+" "+fb(1)+" 0 C 3 nMLS LS "+spts(ring8)+" nil")
			c.Case("geom", kind+" "+fb(1)+" 0 PG 3 "+spts(ring8)+" n "+spts(ring8))
			c.Case("geom", kind+" "+fb(1)+" 0 MPG 3 n 1 "+spts(ring8)+" 2 n "+spts(ring8))
			c.Case("mvt", kind+" "+fb(1)+" 0 2 3 nil LS "+spts(ring8)+" nLS 2 P "+fb(1)+" "+fb(2)+" PG 1 "+spts(ring8))
			c.Case("mvt", kind+" "+fb(1)+" 0 0")
			c.Case("mvt", kind+" "+fb(1)+" 0 1 0")
		}
	}
	// exhaustive short lines on small grids
	c12Grid(c, 3, 1, &ctr)
	c12Grid(c, 3, 2, &ctr)
	c12Grid(c, 3, 3, &ctr)
	c12Grid(c, 3, 4, &ctr)
	if c.Tier == "thorough" {
		c12Grid(c, 3, 5, &ctr)
		c12Grid(c, 4, 4, &ctr)
	}
	// long lines (32 / 64 / 128 vertices)
	c12Long(c)
	// random family
	modes := []CoordMode{CoordSmallInt, CoordSmallInt, CoordInt, CoordHalf, CoordFloat, CoordFloat}
	for k := 0; k < c.Budget && !c.Exhausted(); k++ {
		mode := modes[r.Intn(len(modes))]
		for rep := 0; rep < 3; rep++ {
			lr := []string{"L", "R"}[r.Intn(2)]
			ps := c12Line(r, mode, 10, lr == "R")
			kind := c12Kind(r)
			t1 := c12Threshold(r, kind, ps, mode)
			t2 := t1
			switch r.Intn(4) {
			case 0:
				t2 = t1
			case 1:
				t2 = t1 * 2
			case 2:
				t2 = c12Threshold(r, kind, ps, mode)
			default:
				t2 = t1 + 0.5
			}
			if t2 < t1 {
				t1, t2 = t2, t1
			}
			k1, k2 := 0, 0
			if kind == "vs" {
				k1 = c12Keep(r, len(ps))
				if len(ps) > 3 && r.Intn(3) == 0 { // keep-N cutting in the middle of the removal order
					t1, t2 = math.MaxFloat64, math.MaxFloat64
					k1 = 2 + r.Intn(len(ps)-2)
				}
				k2 = k1
				if k1 > 2 && r.Intn(2) == 0 {
					k2 = 2 + r.Intn(k1-1)
				}
			}
			lineCase(c, kind, t1, k1, t2, k2, lr, ps)
		}
		// every geometry kind through the generic entry point
		o := GenOpts{Mode: mode, MaxPts: 7, MaxDepth: 2, TopNil: true, InnerNil: true}
		g := genGeom(r, o, 0)
		if r.Intn(3) == 0 {
			g = c12NilMembers(r, g)
		}
		kind := c12Kind(r)
		var all []orb.Point
		forEachVertex(g, func(p *orb.Point) { all = append(all, *p) })
		if len(all) > 12 {
			all = all[:12]
		}
		t := c12Threshold(r, kind, all, mode)
		kk := 0
		if kind == "vs" {
			kk = c12Keep(r, 5)
		}
		c.Case("geom", kind+" "+fb(t)+" "+strconv.Itoa(kk)+" "+gsN(g))
		if r.Intn(8) == 0 {
			c.Case("alias", kind+" "+fb(t)+" "+strconv.Itoa(kk)+" "+gsN(g))
		}
		if r.Intn(3) == 0 { // a polygon / multipolygon built from c12 rings (more vertices, closed rings)
			np := 1 + r.Intn(2)
			mp := make(orb.MultiPolygon, np)
			for i := range mp {
				nr := 1 + r.Intn(3)
				pg := make(orb.Polygon, nr)
				for j := range pg {
					pg[j] = orb.Ring(c12Line(r, mode, 8, true))
				}
				mp[i] = pg
			}
			var gg orb.Geometry = mp
			if r.Intn(2) == 0 {
				gg = mp[0]
			}
			c.Case("geom", kind+" "+fb(t)+" "+strconv.Itoa(kk)+" "+gs(gg))
			if r.Intn(2) == 0 {
				c.Case("alias", kind+" "+fb(t)+" "+strconv.Itoa(kk)+" "+gs(gg))
			}
		}
		if r.Intn(3) == 0 { // holes of very different sizes: some collapse and are dropped, later ones survive
			hk := c12Kind(r)
			ht := []float64{0, 0.25, 0.5, 1, 2, 3, 5, 10, 100}[r.Intn(9)]
			hkk := 0
			if hk == "vs" {
				hkk = []int{0, 2, 2, 3, 4}[r.Intn(5)]
				if r.Intn(3) == 0 {
					ht = math.MaxFloat64
				}
			}
			var hg orb.Geometry = c12HolePolygon(r)
			switch r.Intn(4) {
			case 0:
				hg = orb.MultiPolygon{c12HolePolygon(r), hg.(orb.Polygon)}
			case 1:
				hg = orb.Collection{hg, orb.MultiPolygon{c12HolePolygon(r)}}
			}
			op := "geom"
			if r.Intn(4) == 0 {
				op = "alias"
			}
			c.Case(op, hk+" "+fb(ht)+" "+strconv.Itoa(hkk)+" "+gs(hg))
		}
		if r.Intn(2) == 0 { // one simplifier value over several vertex lists
			m := 2 + r.Intn(3)
			var all []orb.Point
			items := ""
			for i := 0; i < m; i++ {
				lr := []string{"L", "R"}[r.Intn(2)]
				ps := c12Line(r, mode, 10, lr == "R")
				all = append(all, ps...)
				items += " " + lr + " " + spts(ps)
			}
			if len(all) > 14 {
				all = all[:14]
			}
			sk := c12Kind(r)
			st := c12Threshold(r, sk, all, mode)
			skk := 0
			if sk == "vs" {
				skk = c12Keep(r, 6)
			}
			c.Case("seq", sk+" "+fb(st)+" "+strconv.Itoa(skk)+" "+strconv.Itoa(m)+items)
		}
		if r.Intn(6) == 0 { // mvt.Layers.Simplify
			nl := r.Intn(3)
			var sb strings.Builder
			var all []orb.Point
			for i := 0; i < nl; i++ {
				nf := r.Intn(5)
				sb.WriteString(" " + strconv.Itoa(nf))
				for j := 0; j < nf; j++ {
					fg := genGeom(r, GenOpts{Mode: mode, MaxPts: 7, MaxDepth: 1, TopNil: true, InnerNil: true}, 0)
					forEachVertex(fg, func(p *orb.Point) { all = append(all, *p) })
					sb.WriteString(" " + gsN(fg))
				}
			}
			if len(all) > 12 {
				all = all[:12]
			}
			mk := c12Kind(r)
			mt := c12Threshold(r, mk, all, mode)
			mkk := 0
			if mk == "vs" {
				mkk = c12Keep(r, 5)
			}
			c.Case("mvt", mk+" "+fb(mt)+" "+strconv.Itoa(mkk)+" "+strconv.Itoa(nl)+sb.String())
		}
	}
}

var _ = strings.TrimSpace
