package main

import (
	"math"
	"math/rand"
	"strconv"
	"strings"

	"github.com/paulmach/orb"
	"github.com/paulmach/orb/encoding/mvt"
	"github.com/paulmach/orb/geojson"
	"github.com/paulmach/orb/planar"
	"github.com/paulmach/orb/simplify"
)

// C12 — simplifiers (Douglas-Peucker, Radial, Visvalingam) and the per-kind wrappers of helpers.go.
//
// Case lines:
//
//	line <kind> <t1> <k1> <t2> <k2> <L|R> <n pts>  =>  <A> | <B> | <C>
//	     A = simplifier(kind,t1,k1) on the line (L: .LineString, R: .Ring)
//	     B = the same simplifier run again on a copy of A        (idempotence)
//	     C = simplifier(kind,t2,k2) on a fresh copy of the input (nesting partner, t1 <= t2, k2 <= k1)
//	long  — same format and runs as line (vertex lists of 12..200 vertices on the 3x3 grid or a +-1 walk)
//	deep  — same format and runs as line: shapes that force the deepest Douglas-Peucker nesting, the most
//	        heap traffic and the longest kept / dropped runs (spirals, zig-zags, sawteeth, collinear and
//	        all-equal lists, both directions, open and closed), 12 .. a few thousand vertices.
//	        Lists above 24 vertices are judged by the Float twin, the structural / count / idempotence /
//	        nesting clauses and the quantitative clause in float64 (+ exact rationals within a work budget)
//	seq <kind> <t> <k> <m> (<L|R> <n pts>)*m  =>  <r1> | … | <rm>
//	     ONE simplifier value, built once, run on the m vertex lists in order (L: .LineString, R: .Ring):
//	     anything a simplifier remembers from one call to the next is visible here
//	geom <kind> <t> <k> <gval>  =>  <Simplify(g)> | <typed method on g, or "none"> | <Simplify(result) again>
//	     the third part reuses the simplifier VALUE of the first on its own result;
//	     <gval> may hold nil members (gsN: nil rings / lines / polygons, typed-nil and nil-interface
//	     collection members)
//	alias — same as geom, but the vertex lists of the value are windows of ONE backing array, each
//	        followed directly by the next (spare capacity of a ring IS the next ring); a guard window
//	        at the end is checked after every call (outcome "clobber" if it was written)
//	mvt <kind> <t> <k> <nl> (<nf> <gval>*nf)*nl  =>  <nl> (<kept> (<feature index> <geometry>)*kept)*nl
//	     mvt.Layers.Simplify with one simplifier value over all features of all layers
//
// kind: dp (Douglas-Peucker), rs (Radial with planar.DistanceSquared), rd (Radial with planar.Distance),
// vs (Visvalingam(t, k); VisvalingamThreshold / VisvalingamKeep when k = 0 / t = MaxFloat64).
// Every part is "panic" if the call panicked.  The simplifiers work IN PLACE and return a sub-slice of
// their argument: the input tokens of the line are the geometry before the call, every call gets a
// freshly parsed copy, and results are serialised after the call.
func init() { register(&Prop{ID: "C12", Run: runC12, Gen: genC12}) }

func mkSimplifier(kind string, t float64, k int) orb.Simplifier {
	switch kind {
	case "dp":
		return simplify.DouglasPeucker(t)
	case "rs":
		return simplify.Radial(planar.DistanceSquared, t)
	case "rd":
		return simplify.Radial(planar.Distance, t)
	case "vs":
		if t == math.MaxFloat64 {
			return simplify.VisvalingamKeep(k)
		}
		if k == 0 {
			return simplify.VisvalingamThreshold(t)
		}
		return simplify.Visvalingam(t, k)
	}
	panic("bad simplifier kind " + kind)
}

func clonePts(ps []orb.Point) []orb.Point {
	c := make([]orb.Point, len(ps))
	copy(c, ps)
	return c
}

func runLineOn(s orb.Simplifier, lr string, ps []orb.Point) []orb.Point {
	if lr == "R" {
		return s.Ring(orb.Ring(ps))
	}
	return s.LineString(orb.LineString(ps))
}

func runC12(op string, in []string) string {
	return guard(func() string {
		switch op {
		case "line", "long", "deep":
			r := &tokReader{t: in}
			kind := r.next()
			t1 := r.f()
			k1 := r.int()
			t2 := r.f()
			k2 := r.int()
			lr := r.next()
			ps := r.pts()
			var a []orb.Point
			pa := guard(func() string {
				a = runLineOn(mkSimplifier(kind, t1, k1), lr, clonePts(ps))
				return spts(a)
			})
			pb := "panic"
			if pa != "panic" {
				keep := clonePts(a)
				pb = guard(func() string { return spts(runLineOn(mkSimplifier(kind, t1, k1), lr, clonePts(keep))) })
			}
			pc := guard(func() string { return spts(runLineOn(mkSimplifier(kind, t2, k2), lr, clonePts(ps))) })
			return pa + " | " + pb + " | " + pc
		case "seq":
			r := &tokReader{t: in}
			kind := r.next()
			t := r.f()
			k := r.int()
			m := r.int()
			s := mkSimplifier(kind, t, k) // ONE value for all m calls
			parts := make([]string, m)
			for i := 0; i < m; i++ {
				lr := r.next()
				ps := r.pts()
				parts[i] = guard(func() string { return spts(runLineOn(s, lr, ps)) })
			}
			return strings.Join(parts, " | ")
		case "geom", "alias":
			kind := in[0]
			t := pf(in[1])
			k := pi(in[2])
			rest := in[3:]
			build := func() (orb.Geometry, func() bool) {
				g, _ := parseGeom(rest)
				if op == "alias" {
					return c12Alias(g)
				}
				return g, func() bool { return true }
			}
			var s1 orb.Simplifier
			var r1 orb.Geometry
			p1 := guard(func() string {
				g, intact := build()
				s1 = mkSimplifier(kind, t, k)
				r1 = s1.Simplify(g)
				if !intact() {
					return "clobber"
				}
				return gs(r1)
			})
			p2 := guard(func() string {
				g, intact := build()
				s := mkSimplifier(kind, t, k)
				out := "none"
				switch v := g.(type) {
				case orb.LineString:
					if v != nil {
						out = gs(s.LineString(v))
					}
				case orb.MultiLineString:
					if v != nil {
						out = gs(s.MultiLineString(v))
					}
				case orb.Ring:
					if v != nil {
						out = gs(s.Ring(v))
					}
				case orb.Polygon:
					if v != nil {
						out = gs(s.Polygon(v))
					}
				case orb.MultiPolygon:
					if v != nil {
						out = gs(s.MultiPolygon(v))
					}
				case orb.Collection:
					if v != nil {
						out = gs(s.Collection(v))
					}
				}
				if !intact() {
					return "clobber"
				}
				return out
			})
			p3 := "panic"
			if p1 != "panic" && p1 != "clobber" {
				p3 = guard(func() string { return gs(s1.Simplify(r1)) }) // same simplifier value, its own result
			}
			return p1 + " | " + p2 + " | " + p3
		case "mvt":
			r := &tokReader{t: in}
			kind := r.next()
			t := r.f()
			k := r.int()
			nl := r.int()
			layers := make(mvt.Layers, nl)
			for i := range layers {
				nf := r.int()
				fs := make([]*geojson.Feature, nf)
				for j := range fs {
					f := geojson.NewFeature(r.geom())
					f.ID = j
					f.Properties["i"] = j
					fs[j] = f
				}
				layers[i] = &mvt.Layer{Name: "l" + strconv.Itoa(i), Version: 2, Extent: 4096, Features: fs}
			}
			layers.Simplify(mkSimplifier(kind, t, k))
			var sb strings.Builder
			sb.WriteString(strconv.Itoa(len(layers)))
			for _, l := range layers {
				sb.WriteString(" " + strconv.Itoa(len(l.Features)))
				for _, f := range l.Features {
					id, ok := f.ID.(int)
					if !ok || f.Properties["i"] != id {
						id = -1 // the feature lost its identity
					}
					sb.WriteString(" " + strconv.Itoa(id) + " " + gs(f.Geometry))
				}
			}
			return sb.String()
		}
		return "badop"
	})
}

// ---- generators ----

// c12Line draws a vertex list of 0..max vertices with repeated vertices, collinear runs,
// spikes and (often) coincident endpoints.
func c12Line(r *rand.Rand, m CoordMode, max int, closed bool) []orb.Point {
	n := r.Intn(max + 1)
	if r.Intn(8) == 0 {
		n = size(r, max)
	}
	ps := make([]orb.Point, 0, n+1)
	allCollinear := r.Intn(12) == 0
	var dir orb.Point
	if allCollinear {
		dir = genPoint(r, CoordSmallInt)
	}
	for i := 0; i < n; i++ {
		var p orb.Point
		c := r.Intn(12)
		switch {
		case allCollinear && i > 0:
			k := float64(r.Intn(9) - 4)
			p = orb.Point{ps[0][0] + k*dir[0], ps[0][1] + k*dir[1]}
		case c == 0 && i > 0: // repeat the previous vertex
			p = ps[i-1]
		case c == 1 && i > 0: // repeat an earlier vertex
			p = ps[r.Intn(i)]
		case (c == 2 || c == 3) && i > 1: // continue straight on (collinear)
			p = orb.Point{2*ps[i-1][0] - ps[i-2][0], 2*ps[i-1][1] - ps[i-2][1]}
		case c == 4 && i > 1: // spike: go back
			p = ps[i-2]
		case c == 5 && i > 1: // midpoint of the previous two (collinear, between)
			p = orb.Point{(ps[i-1][0] + ps[i-2][0]) / 2, (ps[i-1][1] + ps[i-2][1]) / 2}
		default:
			p = genPoint(r, m)
		}
		if math.IsNaN(p[0]+p[1]) || math.IsInf(p[0]+p[1], 0) || math.IsInf(p[0], 0) || math.IsInf(p[1], 0) {
			p = genPoint(r, CoordSmallInt) // a derived vertex overflowed: coordinates stay finite
		}
		ps = append(ps, p)
	}
	if len(ps) >= 2 {
		if closed && r.Intn(4) != 0 || !closed && r.Intn(5) == 0 {
			if r.Intn(3) == 0 || len(ps) < 3 {
				ps = append(ps, ps[0])
			} else {
				ps[len(ps)-1] = ps[0]
			}
		}
	}
	return ps
}

func diameter(ps []orb.Point) float64 {
	d := 0.0
	for i := range ps {
		for j := i + 1; j < len(ps); j++ {
			if x := planar.Distance(ps[i], ps[j]); x > d {
				d = x
			}
		}
	}
	return d
}

// halfRound rounds to a multiple of 0.5 (keeps thresholds exact and tie-prone on integer grids).
func halfRound(x float64) float64 { return math.Round(x*2) / 2 }

// c12Threshold: {0, small, a value hitting an actual distance of the configuration, mid, above the diameter}.
func c12Threshold(r *rand.Rand, kind string, ps []orb.Point, m CoordMode) float64 {
	t := c12Threshold0(r, kind, ps, m)
	if math.IsNaN(t) || math.IsInf(t, 0) {
		if kind == "vs" {
			return math.MaxFloat64
		}
		return 1e300
	}
	return t
}

func c12Threshold0(r *rand.Rand, kind string, ps []orb.Point, m CoordMode) float64 {
	d := diameter(ps)
	if kind == "rs" || kind == "vs" {
		d = d * d
	}
	exact := m == CoordSmallInt || m == CoordInt || m == CoordHalf
	switch r.Intn(8) {
	case 0:
		return 0
	case 1:
		if exact {
			return []float64{0.5, 1, 0.25}[r.Intn(3)]
		}
		return []float64{1e-12, 1e-9, 1e-300, 5e-324}[r.Intn(4)] * (1 + d)
	case 2: // tie: the threshold equals a quantity the algorithm compares against
		if len(ps) >= 3 {
			i := r.Intn(len(ps))
			j := r.Intn(len(ps))
			k := r.Intn(len(ps))
			switch kind {
			case "dp":
				return math.Sqrt(planar.DistanceFromSegmentSquared(ps[i], ps[j], ps[k]))
			case "rs":
				return planar.DistanceSquared(ps[i], ps[j])
			case "rd":
				return planar.Distance(ps[i], ps[j])
			default:
				return math.Abs((ps[j][0]-ps[i][0])*(ps[k][1]-ps[i][1])-(ps[j][1]-ps[i][1])*(ps[k][0]-ps[i][0])) / 2
			}
		}
		return 1
	case 3:
		return float64(1 + r.Intn(4))
	case 4:
		return d*2 + 1
	case 5:
		if kind == "vs" {
			return math.MaxFloat64
		}
		return d * 4
	default:
		t := d * r.Float64()
		if kind == "vs" {
			t = d * r.Float64() * r.Float64() / 2
		}
		if exact {
			return halfRound(t)
		}
		return t
	}
}

func c12Keep(r *rand.Rand, n int) int {
	switch r.Intn(10) {
	case 0, 1, 2:
		return 0
	case 3:
		return 2
	case 4:
		return 3
	case 5:
		return 4
	case 6:
		if n > 2 {
			return n - 1
		}
		return 2
	case 7:
		if n >= 2 {
			return n
		}
		return 2
	case 8:
		return n + 1 + r.Intn(2)
	default:
		return 2 + r.Intn(9)
	}
}

func c12Kind(r *rand.Rand) string {
	return []string{"dp", "dp", "dp", "rs", "rs", "rd", "vs", "vs", "vs", "vs"}[r.Intn(10)]
}

func lineCase(c *Ctx, kind string, t1 float64, k1 int, t2 float64, k2 int, lr string, ps []orb.Point) {
	c.Case("line", kind+" "+fb(t1)+" "+strconv.Itoa(k1)+" "+fb(t2)+" "+strconv.Itoa(k2)+" "+lr+" "+spts(ps))
}

// exhaustive family: every vertex list of n vertices on a g x g grid.
func c12Grid(c *Ctx, g, n int, ctr *int) {
	total := 1
	for i := 0; i < n; i++ {
		total *= g * g
	}
	type sp struct {
		kind   string
		t1     float64
		k1     int
		t2     float64
		k2     int
	}
	specs := []sp{
		{"dp", 0, 0, 1, 0}, {"dp", 0.5, 0, 1.5, 0}, {"dp", 1, 0, 2, 0},
		{"rs", 0, 0, 1, 0}, {"rs", 2, 0, 4, 0}, {"rd", 1, 0, 2, 0},
		{"vs", 0, 0, 0.5, 0}, {"vs", 1, 0, math.MaxFloat64, 0}, {"vs", math.MaxFloat64, 3, math.MaxFloat64, 2},
		{"vs", 0.5, 4, 2, 2}, {"vs", 0.25, 0, 1, 0},
	}
	for idx := 0; idx < total && !c.Exhausted(); idx++ {
		*ctr++
		if !c.Mine(*ctr) {
			continue
		}
		ps := make([]orb.Point, n)
		v := idx
		for i := 0; i < n; i++ {
			cell := v % (g * g)
			v /= g * g
			ps[i] = orb.Point{float64(cell % g), float64(cell / g)}
		}
		for _, s := range specs {
			lineCase(c, s.kind, s.t1, s.k1, s.t2, s.k2, "L", ps)
			if s.kind == "vs" || n >= 3 && ps[0] == ps[n-1] {
				lineCase(c, s.kind, s.t1, s.k1, s.t2, s.k2, "R", ps)
			}
		}
	}
}


// c12MapLists rebuilds g with every (non-nil) vertex list of a line string, ring, multi line string,
// polygon or multi polygon replaced by f(list); collections recursively; multi points untouched.
func c12MapLists(g orb.Geometry, f func([]orb.Point) []orb.Point) orb.Geometry {
	switch v := g.(type) {
	case orb.LineString:
		if v == nil {
			return v
		}
		return orb.LineString(f(v))
	case orb.Ring:
		if v == nil {
			return v
		}
		return orb.Ring(f(v))
	case orb.MultiLineString:
		for i := range v {
			if v[i] != nil {
				v[i] = orb.LineString(f(v[i]))
			}
		}
		return v
	case orb.Polygon:
		for i := range v {
			if v[i] != nil {
				v[i] = orb.Ring(f(v[i]))
			}
		}
		return v
	case orb.MultiPolygon:
		for i := range v {
			for j := range v[i] {
				if v[i][j] != nil {
					v[i][j] = orb.Ring(f(v[i][j]))
				}
			}
		}
		return v
	case orb.Collection:
		for i := range v {
			v[i] = c12MapLists(v[i], f)
		}
		return v
	}
	return g
}

// c12Alias lays all vertex lists of g out as consecutive windows of ONE backing array (the spare
// capacity of every list is the next list), followed by a guard window.  The returned function
// reports whether the guard is still intact.
func c12Alias(g orb.Geometry) (orb.Geometry, func() bool) {
	total := 0
	c12MapLists(g, func(l []orb.Point) []orb.Point { total += len(l); return l })
	const guardN = 4
	buf := make([]orb.Point, total+guardN)
	guardAt := func(i int) orb.Point { return orb.Point{-7.5e8 - float64(i), 6.25e8 + float64(i)} }
	for i := 0; i < guardN; i++ {
		buf[total+i] = guardAt(i)
	}
	off := 0
	g = c12MapLists(g, func(l []orb.Point) []orb.Point {
		w := buf[off : off+len(l)]
		copy(w, l)
		off += len(l)
		return w
	})
	return g, func() bool {
		for i := 0; i < guardN; i++ {
			if buf[total+i] != guardAt(i) {
				return false
			}
		}
		return true
	}
}

// c12NilMembers puts nil interfaces in place of some collection members (to depth 2).
func c12NilMembers(r *rand.Rand, g orb.Geometry) orb.Geometry {
	if c, ok := g.(orb.Collection); ok {
		for i := range c {
			if r.Intn(5) == 0 {
				c[i] = nil
			} else {
				c[i] = c12NilMembers(r, c[i])
			}
		}
	}
	return g
}

// c12HolePolygon: an outer ring and 2..4 holes of very different sizes, so that under one threshold
// some holes collapse (and are dropped) while later ones survive, in every order; some holes are
// degenerate (0..2 points) from the start.
func c12HolePolygon(r *rand.Rand) orb.Polygon {
	nh := 2 + r.Intn(3)
	pg := make(orb.Polygon, 0, nh+1)
	pg = append(pg, orb.Ring{{0, 0}, {20, 0}, {40, 0}, {40, 40}, {20, 41}, {0, 40}, {0, 0}})
	shapes := [][]orb.Point{
		{{0, 0}, {1, 0}, {1, 1}, {0, 1}, {0, 0}},
		{{0, 0}, {2, 0}, {1, 2}, {0, 0}},
		{{0, 0}, {1, 0}, {2, 1}, {2, 2}, {0, 2}, {0, 0}},
		{{0, 0}, {2, 0}, {2, 1}, {2, 2}, {0, 2}},
		{{0, 0}, {1, 1}, {0, 0}},
	}
	for h := 0; h < nh; h++ {
		if r.Intn(6) == 0 { // degenerate from the start
			pg = append(pg, orb.Ring(c12Line(r, CoordSmallInt, 2, false)))
			continue
		}
		sh := shapes[r.Intn(len(shapes))]
		sc := []float64{0.125, 0.5, 1, 4, 8}[r.Intn(5)]
		cx, cy := float64(2+r.Intn(20)), float64(2+r.Intn(20))
		ring := make(orb.Ring, len(sh))
		for i, p := range sh {
			ring[i] = orb.Point{cx + sc*p[0], cy + sc*p[1]}
		}
		pg = append(pg, ring)
	}
	return pg
}

// c12LongLine: n vertices on the 3x3 grid (ties everywhere: a deep heap, a deep Douglas-Peucker stack)
// or a +-1 random walk on small integers.
func c12LongLine(r *rand.Rand, n int, closed bool) []orb.Point {
	ps := make([]orb.Point, n)
	walk := r.Intn(3) == 0
	for i := range ps {
		if walk && i > 0 {
			ps[i] = orb.Point{ps[i-1][0] + float64(r.Intn(3)-1), ps[i-1][1] + float64(r.Intn(3)-1)}
		} else {
			ps[i] = orb.Point{float64(r.Intn(3)), float64(r.Intn(3))}
		}
	}
	if closed {
		ps[n-1] = ps[0]
	}
	return ps
}

func c12Long(c *Ctx) {
	r := c.Rng
	per := 10
	if c.Tier == "thorough" {
		per = 60
	}
	type sp struct {
		kind   string
		t1, t2 float64
	}
	specs := []sp{{"dp", 0, 0.5}, {"dp", 0.5, 1}, {"dp", 1, 1.5}, {"dp", 1.5, 2}, {"rs", 0, 1}, {"rs", 2, 4}, {"rd", 1, 2},
		{"vs", 0, 0.25}, {"vs", 0.25, 0.5}, {"vs", 0.5, 1}, {"vs", 1, 2}, {"vs", 2, math.MaxFloat64}, {"vs", math.MaxFloat64, math.MaxFloat64}}
	sizes := []int{32, 64, 128}
	for i := 0; i < 3; i++ { // and sizes drawn from the whole range (not only powers of two)
		sizes = append(sizes, 12+r.Intn(189))
	}
	for _, n := range sizes {
		for i := 0; i < per && !c.Exhausted(); i++ {
			lr := []string{"L", "R"}[r.Intn(2)]
			ps := c12LongLine(r, n, lr == "R" && r.Intn(4) != 0 || lr == "L" && r.Intn(5) == 0)
			s := specs[r.Intn(len(specs))]
			k1, k2 := 0, 0
			if s.kind == "vs" {
				k1 = []int{0, 0, 2, 3, 4, n / 2, n - 1, 2 + r.Intn(n)}[r.Intn(8)]
				k2 = k1
				if k1 > 2 && r.Intn(2) == 0 {
					k2 = 2 + r.Intn(k1-1)
				}
			}
			c.Case("long", s.kind+" "+fb(s.t1)+" "+strconv.Itoa(k1)+" "+fb(s.t2)+" "+strconv.Itoa(k2)+" "+lr+" "+spts(ps))
		}
	}
}

// ---- the deep family ----

const c12DeepShapes = 12

// c12DeepLine: n vertices of a shape that drives one of the simplifiers to an extreme.
//
//	0 inward square spiral, radius x q per vertex (Douglas-Peucker: vertex i+1 is farthest from the chord
//	  (i, last), one stack pair per vertex; Visvalingam: areas shrink, every push climbs to the root)
//	1 inward square spiral on integers (radius n-i): the same, exact arithmetic
//	2 zig-zag (i, +-i): amplitude grows with i      3 zig-zag with geometric amplitude q^i
//	4 sawtooth (i, i mod k) of equal teeth (ties: the first maximum wins)
//	5 all collinear, monotone                        6 all collinear, back and forth with shrinking reach
//	7 all equal / two or three alternating points    8 parabola (i, i^2): convex, everything kept at 0
//	9 staircase (collinear pairs)                    10 +-1 lattice walk    11 3x3 grid points
//
// rev reverses the list (growing instead of shrinking: left-nested instead of right-nested splits).
func c12DeepLine(r *rand.Rand, n, shape int, rev, closed bool) []orb.Point {
	ps := make([]orb.Point, n)
	dirs := []orb.Point{{1, 0}, {0, 1}, {-1, 0}, {0, -1}}
	switch shape {
	case 0:
		q := []float64{0.99, 0.95, 0.999, 0.9, 0.75}[r.Intn(5)]
		rad := []float64{1, 1, 1000, 1e6}[r.Intn(4)]
		cx, cy := 0.0, 0.0
		if r.Intn(3) == 0 {
			cx, cy = float64(r.Intn(9)-4), float64(r.Intn(9)-4)
		}
		for i := range ps {
			d := dirs[i%4]
			ps[i] = orb.Point{cx + d[0]*rad, cy + d[1]*rad}
			rad *= q
		}
	case 1:
		for i := range ps {
			d := dirs[i%4]
			ps[i] = orb.Point{d[0] * float64(n-i), d[1] * float64(n-i)}
		}
	case 2:
		for i := range ps {
			y := float64(i)
			if i%2 == 1 {
				y = -y
			}
			ps[i] = orb.Point{float64(i), y}
		}
	case 3:
		q := []float64{1.01, 1.05, 1.001, 1.5}[r.Intn(4)]
		a := 1.0
		for i := range ps {
			y := a
			if i%2 == 1 {
				y = -y
			}
			ps[i] = orb.Point{float64(i), y}
			if a*q < 1e100 {
				a *= q
			}
		}
	case 4:
		k := []int{2, 2, 3, 5, 17}[r.Intn(5)]
		amp := []float64{1, 1, 0.5, 7}[r.Intn(4)]
		for i := range ps {
			ps[i] = orb.Point{float64(i), amp * float64(i%k)}
		}
	case 5:
		dx, dy := float64(r.Intn(5)-2), float64(r.Intn(5)-2)
		if dx == 0 && dy == 0 {
			dx = 1
		}
		for i := range ps {
			ps[i] = orb.Point{dx * float64(i), dy * float64(i)}
		}
	case 6:
		dx, dy := float64(r.Intn(3)), float64(r.Intn(3))
		if dx == 0 && dy == 0 {
			dx = 1
		}
		for i := range ps {
			k := float64(n - i)
			if i%2 == 1 {
				k = -k
			}
			ps[i] = orb.Point{dx * k, dy * k}
		}
	case 7:
		pool := []orb.Point{{float64(r.Intn(5) - 2), float64(r.Intn(5) - 2)}, {3, 4}, {-1, 2.5}}
		m := 1 + r.Intn(3)
		for i := range ps {
			ps[i] = pool[i%m]
		}
	case 8:
		for i := range ps {
			ps[i] = orb.Point{float64(i), float64(i) * float64(i)}
		}
	case 9:
		for i := range ps {
			ps[i] = orb.Point{float64(i / 2), float64((i + 1) / 2)}
		}
	case 10:
		for i := range ps {
			if i > 0 {
				ps[i] = orb.Point{ps[i-1][0] + float64(r.Intn(3)-1), ps[i-1][1] + float64(r.Intn(3)-1)}
			}
		}
	default:
		for i := range ps {
			ps[i] = orb.Point{float64(r.Intn(3)), float64(r.Intn(3))}
		}
	}
	if rev {
		for i, j := 0, n-1; i < j; i, j = i+1, j-1 {
			ps[i], ps[j] = ps[j], ps[i]
		}
	}
	if r.Intn(4) == 0 && n > 4 { // a few repeated vertices
		for k := 0; k < 3; k++ {
			i := 1 + r.Intn(n-1)
			ps[i] = ps[i-1]
		}
	}
	if closed && n >= 2 {
		ps[n-1] = ps[0]
	}
	return ps
}

// c12DeepThresholds: a pair t1 <= t2 out of {0, tiny, quantities the algorithm compares against at several
// places of the list (so that a prefix / a suffix / every other vertex survives), above everything}.
func c12DeepThresholds(r *rand.Rand, kind string, ps []orb.Point) (float64, float64) {
	n := len(ps)
	cand := []float64{0, 0}
	at := func(f float64) int {
		i := int(f * float64(n-1))
		if i < 0 {
			i = 0
		}
		if i > n-1 {
			i = n - 1
		}
		return i
	}
	for _, f := range []float64{0.1, 0.25, 0.5, 0.75, 0.9, r.Float64()} {
		i := at(f)
		var v float64
		switch kind {
		case "dp":
			j := i + 1
			if j > n-1 {
				j = n - 1
			}
			v = math.Sqrt(planar.DistanceFromSegmentSquared(ps[i], ps[n-1], ps[j]))
			if r.Intn(2) == 0 {
				v = math.Sqrt(planar.DistanceFromSegmentSquared(ps[0], ps[n-1], ps[i]))
			}
		case "rs":
			v = planar.DistanceSquared(ps[i], ps[at(f+0.01)])
			if r.Intn(2) == 0 {
				v = planar.DistanceSquared(ps[0], ps[i])
			}
		case "rd":
			v = planar.Distance(ps[i], ps[at(f+0.01)])
			if r.Intn(2) == 0 {
				v = planar.Distance(ps[0], ps[i])
			}
		default:
			a, b, c := ps[at(f-0.001)], ps[i], ps[at(f+0.001)]
			if i > 0 && i < n-1 {
				a, c = ps[i-1], ps[i+1]
			}
			v = math.Abs((b[0]-a[0])*(c[1]-a[1])-(b[1]-a[1])*(c[0]-a[0])) / 2
		}
		if !math.IsNaN(v) && !math.IsInf(v, 0) {
			cand = append(cand, v, v)
			if r.Intn(3) == 0 {
				cand = append(cand, v/2, v*1.5)
			}
		}
	}
	cand = append(cand, 1e-9, 0.5, 1, 2)
	big := 1e300
	if kind == "vs" {
		big = math.MaxFloat64
	}
	cand = append(cand, big)
	t1 := cand[r.Intn(len(cand))]
	t2 := cand[r.Intn(len(cand))]
	if r.Intn(6) == 0 {
		t2 = t1
	}
	if t2 < t1 {
		t1, t2 = t2, t1
	}
	return t1, t2
}

func c12DeepCase(c *Ctx, kind string, n, shape int) {
	r := c.Rng
	lr := []string{"L", "R"}[r.Intn(2)]
	closed := lr == "R" && r.Intn(3) != 0 || lr == "L" && r.Intn(6) == 0
	ps := c12DeepLine(r, n, shape, r.Intn(3) == 0, closed)
	t1, t2 := c12DeepThresholds(r, kind, ps)
	k1, k2 := 0, 0
	if kind == "vs" {
		k1 = []int{0, 0, 0, 2, 3, 4, n / 2, n - 1, n, 2 + r.Intn(n)}[r.Intn(10)]
		if r.Intn(4) == 0 { // keep-N cutting the removal order
			t1, t2 = math.MaxFloat64, math.MaxFloat64
			if k1 == 0 {
				k1 = 2 + r.Intn(n)
			}
		}
		k2 = k1
		if k1 > 2 && r.Intn(2) == 0 {
			k2 = 2 + r.Intn(k1-1)
		}
	}
	c.Case("deep", kind+" "+fb(t1)+" "+strconv.Itoa(k1)+" "+fb(t2)+" "+strconv.Itoa(k2)+" "+lr+" "+spts(ps))
}

// c12DeepSize: a size out of the whole range (log-uniform: small sizes are cheap, large ones rare)
func c12DeepSize(r *rand.Rand, max int) int {
	return int(12 * math.Pow(float64(max)/12, r.Float64()))
}

// c12Deep: (a) every shape x every simplifier kind at the fixed sizes (sharded), (b) sizes drawn from the
// whole range 12..max with random shapes, (c) the deepest Douglas-Peucker shapes at the sizes just
// around every power of two (a stack / heap / scratch buffer of fixed capacity 2^k overflows at
// 2^(k-1)+2 vertices, or 2^k+1, depending on what it counts), (d) the same shapes through seq (ONE
// simplifier value over a short, a long and a short list: scratch space kept between calls), through
// the generic entry point (polygon / multi line string / collection members) and through mvt.
func c12Deep(c *Ctx, ctr *int) {
	r := c.Rng
	kinds := []string{"dp", "rs", "rd", "vs"}
	fixed := []int{257, 300, 513, 1000}
	max, extra := 2200, 60
	if c.Tier == "thorough" {
		fixed = []int{130, 257, 300, 513, 700, 1000, 1025, 1500, 2049, 3000}
		max, extra = 4500, 400
	}
	for _, n := range fixed {
		for shape := 0; shape < c12DeepShapes; shape++ {
			for _, kind := range kinds {
				*ctr++
				if !c.Mine(*ctr) || c.Exhausted() {
					continue
				}
				c12DeepCase(c, kind, n, shape)
			}
		}
	}
	for i := 0; i < extra && !c.Exhausted(); i++ {
		c12DeepCase(c, kinds[r.Intn(4)], c12DeepSize(r, max), r.Intn(c12DeepShapes))
	}
	// around the powers of two, Douglas-Peucker at threshold 0 and a tiny one on the deepest shapes,
	// Visvalingam keeping everything / nothing
	for p := 16; p <= max; p *= 2 {
		for _, n := range []int{p/2 + 1, p/2 + 2, p, p + 1, p + 2} {
			*ctr++
			if n < 12 || n > max || !c.Mine(*ctr) || c.Exhausted() {
				continue
			}
			shape := []int{0, 1, 6, 3}[r.Intn(4)]
			ps := c12DeepLine(r, n, shape, false, false)
			tiny := []float64{1e-300, 1e-12, 5e-324}[r.Intn(3)]
			c.Case("deep", "dp "+fb(0)+" 0 "+fb(tiny)+" 0 L "+spts(ps))
			k := []int{0, 2, n - 1}[r.Intn(3)]
			c.Case("deep", "vs "+fb(0)+" "+strconv.Itoa(k)+" "+fb(math.MaxFloat64)+" "+strconv.Itoa(k)+" L "+spts(ps))
		}
	}
	// other entry points
	reps := 2
	if c.Tier == "thorough" {
		reps = 12
	}
	for i := 0; i < reps && !c.Exhausted(); i++ {
		kind := kinds[r.Intn(4)]
		n := 130 + r.Intn(500)
		if i%2 == 1 {
			n = c12DeepSize(r, max/2)
		}
		shape := []int{0, 1, 2, 3, 4, 6, 8}[r.Intn(7)]
		long := c12DeepLine(r, n, shape, r.Intn(3) == 0, false)
		short := c12DeepLine(r, 3+r.Intn(8), shape, false, false)
		t, _ := c12DeepThresholds(r, kind, long)
		if r.Intn(2) == 0 {
			t = 0
		}
		k := 0
		if kind == "vs" {
			k = []int{0, 0, 2, 3, n / 2}[r.Intn(5)]
		}
		spec := kind + " " + fb(t) + " " + strconv.Itoa(k)
		// ONE simplifier value: short, long, short, long again (and the long one first)
		c.Case("seq", spec+" 4 L "+spts(short)+" L "+spts(long)+" R "+spts(short)+" R "+spts(long))
		c.Case("seq", spec+" 2 R "+spts(long)+" L "+spts(short))
		// members of every kind that holds vertex lists
		ring := clonePts(long)
		ring[len(ring)-1] = ring[0]
		hole := []orb.Point{{0, 0}, {0.25, 0}, {0.25, 0.25}, {0, 0}}
		var g orb.Geometry
		switch r.Intn(4) {
		case 0:
			g = orb.Polygon{orb.Ring(ring), orb.Ring(hole), orb.Ring(clonePts(ring))}
		case 1:
			g = orb.MultiLineString{orb.LineString(short), orb.LineString(long), orb.LineString(ring)}
		case 2:
			g = orb.MultiPolygon{{orb.Ring(hole)}, {orb.Ring(ring), orb.Ring(clonePts(ring))}}
		default:
			g = orb.Collection{orb.LineString(long), orb.Ring(ring), orb.Point{1, 2}, orb.Collection{orb.LineString(clonePts(long))}}
		}
		c.Case("geom", spec+" "+gs(g))
		if r.Intn(2) == 0 {
			c.Case("alias", spec+" "+gs(g))
		}
		c.Case("mvt", spec+" 1 2 LS "+spts(long)+" "+gs(g))
	}
}

func genC12(c *Ctx) {
	r := c.Rng
	ctr := 0
	// fixed family
	if c.Shard == 0 {
		// the simplify package's own test literals, and the degenerate members
		sq := []orb.Point{{0, 0}, {1, 0}, {1, 1}, {0, 1}, {0, 0}}
		for _, kind := range []string{"dp", "rs", "rd", "vs"} {
			for _, ps := range [][]orb.Point{{}, {{1, 2}}, {{1, 2}, {1, 2}}, {{0, 0}, {1, 1}, {2, 2}}, sq,
				{{0, 0}, {0, 0}, {0, 0}, {0, 0}}, {{0, 0}, {1, 0}, {2, 0}, {3, 0}, {0, 0}}} {
				for _, lr := range []string{"L", "R"} {
					lineCase(c, kind, 0, 0, 1, 0, lr, ps)
					lineCase(c, kind, 0.5, 0, 100, 0, lr, ps)
					if kind == "vs" {
						for k := 2; k <= 6; k++ {
							lineCase(c, kind, math.MaxFloat64, k, math.MaxFloat64, 2, lr, ps)
						}
					}
				}
			}
			e := orb.LineString{}
			l := orb.LineString{{0, 0}, {1, 1}, {2, 0}, {3, 3}}
			for _, g := range append(append([]orb.Geometry{}, orb.AllGeometries...),
				orb.MultiPolygon{{}}, orb.MultiPolygon{{}, {orb.Ring(sq)}}, orb.MultiPolygon{{orb.Ring(sq)}, {}},
				orb.MultiPolygon{{orb.Ring{}}}, orb.MultiPolygon{{orb.Ring(sq), orb.Ring{}}},
				orb.Polygon{}, orb.Polygon{orb.Ring{}}, orb.Polygon{orb.Ring{{0, 0}, {1, 1}}, orb.Ring{{0, 0}, {1, 1}}, orb.Ring(sq)},
				orb.MultiLineString{e, l}, orb.MultiLineString{l, e}, orb.MultiLineString{},
				orb.Collection{}, orb.Collection{orb.Collection{}}, orb.Collection{e, l, orb.MultiPoint{}},
				orb.Collection{orb.MultiPolygon{{}}}, orb.MultiPoint{}, nil, orb.MultiPoint(nil), orb.LineString(nil),
				orb.Ring(nil), orb.Polygon(nil), orb.MultiPolygon(nil), orb.MultiLineString(nil), orb.Collection(nil),
			) {
				for _, t := range []float64{0, 0.5, 10} {
					c.Case("geom", kind+" "+fb(t)+" 0 "+gs(g))
				}
			}
		}
		// the overflow witness of known finding C12-vis-inf-area-sentinel and its neighbours
		// (finite coordinates, triangle areas that overflow float64)
		big := []orb.Point{{0, 0}, {1e200, 0}, {0, 1e200}}
		big5 := []orb.Point{{0, 0}, {1e200, 0}, {1e200, 1e200}, {0, 1e200}, {0, 0}}
		for _, ps := range [][]orb.Point{big, big5} {
			for _, lr := range []string{"L", "R"} {
				for k := 0; k <= 4; k++ {
					if k == 1 {
						continue
					}
					lineCase(c, "vs", math.MaxFloat64, k, math.MaxFloat64, k, lr, ps)
					lineCase(c, "vs", 1, k, math.MaxFloat64, k, lr, ps)
				}
			}
		}
		// one simplifier value over a line, then rings (default keep counts must be resolved per call)
		ring8 := []orb.Point{{0, 0}, {2, 0}, {4, 1}, {5, 3}, {4, 5}, {2, 6}, {0, 4}, {0, 0}}
		open7 := ring8[:7]
		for _, t := range []float64{0, 1, 100, math.MaxFloat64} {
			for _, k := range []int{0, 2, 3} {
				c.Case("seq", "vs "+fb(t)+" "+strconv.Itoa(k)+" 4 L "+spts(open7)+" R "+spts(ring8)+" R "+spts(open7)+" L "+spts(ring8))
				c.Case("seq", "vs "+fb(t)+" "+strconv.Itoa(k)+" 3 R "+spts(open7)+" R "+spts(ring8)+" L "+spts(open7))
				c.Case("geom", "vs "+fb(t)+" "+strconv.Itoa(k)+" "+gs(orb.Polygon{orb.Ring(clonePts(open7)), orb.Ring(clonePts(ring8)), orb.Ring(clonePts(ring8))}))
				c.Case("geom", "vs "+fb(t)+" "+strconv.Itoa(k)+" "+gs(orb.Collection{orb.LineString(clonePts(ring8)), orb.Ring(clonePts(open7)), orb.Ring(clonePts(ring8))}))
			}
		}
		for _, kind := range []string{"dp", "rs", "rd"} {
			for _, t := range []float64{0, 1, 3} {
				c.Case("seq", kind+" "+fb(t)+" 0 3 L "+spts(open7)+" R "+spts(ring8)+" R "+spts(open7))
			}
		}
		// nil members of a collection: nil interface, nil multi point (both come back nil), typed nil slices
		for _, kind := range []string{"dp", "rs", "rd", "vs"} {
			c.Case("geom", kind+" "+fb(1)+" 0 C 3 nil nMP nLS")
			c.Case("geom", kind+" "+fb(1)+" 0 C 2 nil C 2 nil MP 0")
			c.Case("geom", kind+" "+fb(1)+" 0 C 4 nR nPG nMPG nC")
			c.Case("geom", kind+" "+fb(1)+" 0 C 3 nMLS LS "+spts(ring8)+" nil")
			c.Case("geom", kind+" "+fb(1)+" 0 PG 3 "+spts(ring8)+" n "+spts(ring8))
			c.Case("geom", kind+" "+fb(1)+" 0 MPG 3 n 1 "+spts(ring8)+" 2 n "+spts(ring8))
			c.Case("mvt", kind+" "+fb(1)+" 0 2 3 nil LS "+spts(ring8)+" nLS 2 P "+fb(1)+" "+fb(2)+" PG 1 "+spts(ring8))
			c.Case("mvt", kind+" "+fb(1)+" 0 0")
			c.Case("mvt", kind+" "+fb(1)+" 0 1 0")
		}
	}
	// exhaustive short lines on small grids
	c12Grid(c, 3, 1, &ctr)
	c12Grid(c, 3, 2, &ctr)
	c12Grid(c, 3, 3, &ctr)
	c12Grid(c, 3, 4, &ctr)
	if c.Tier == "thorough" {
		c12Grid(c, 3, 5, &ctr)
		c12Grid(c, 4, 4, &ctr)
	}
	// long lines (12 .. 200 vertices)
	c12Long(c)
	// deep family (12 .. a few thousand vertices)
	c12Deep(c, &ctr)
	// random family
	modes := []CoordMode{CoordSmallInt, CoordSmallInt, CoordInt, CoordHalf, CoordFloat, CoordFloat}
	for k := 0; k < c.Budget && !c.Exhausted(); k++ {
		mode := modes[r.Intn(len(modes))]
		for rep := 0; rep < 3; rep++ {
			lr := []string{"L", "R"}[r.Intn(2)]
			ps := c12Line(r, mode, 10, lr == "R")
			kind := c12Kind(r)
			t1 := c12Threshold(r, kind, ps, mode)
			t2 := t1
			switch r.Intn(4) {
			case 0:
				t2 = t1
			case 1:
				t2 = t1 * 2
			case 2:
				t2 = c12Threshold(r, kind, ps, mode)
			default:
				t2 = t1 + 0.5
			}
			if t2 < t1 {
				t1, t2 = t2, t1
			}
			k1, k2 := 0, 0
			if kind == "vs" {
				k1 = c12Keep(r, len(ps))
				if len(ps) > 3 && r.Intn(3) == 0 { // keep-N cutting in the middle of the removal order
					t1, t2 = math.MaxFloat64, math.MaxFloat64
					k1 = 2 + r.Intn(len(ps)-2)
				}
				k2 = k1
				if k1 > 2 && r.Intn(2) == 0 {
					k2 = 2 + r.Intn(k1-1)
				}
			}
			lineCase(c, kind, t1, k1, t2, k2, lr, ps)
		}
		// every geometry kind through the generic entry point
		o := GenOpts{Mode: mode, MaxPts: 7, MaxDepth: 2, TopNil: true, InnerNil: true}
		g := genGeom(r, o, 0)
		if r.Intn(3) == 0 {
			g = c12NilMembers(r, g)
		}
		kind := c12Kind(r)
		var all []orb.Point
		forEachVertex(g, func(p *orb.Point) { all = append(all, *p) })
		if len(all) > 12 {
			all = all[:12]
		}
		t := c12Threshold(r, kind, all, mode)
		kk := 0
		if kind == "vs" {
			kk = c12Keep(r, 5)
		}
		c.Case("geom", kind+" "+fb(t)+" "+strconv.Itoa(kk)+" "+gsN(g))
		if r.Intn(8) == 0 {
			c.Case("alias", kind+" "+fb(t)+" "+strconv.Itoa(kk)+" "+gsN(g))
		}
		if r.Intn(3) == 0 { // a polygon / multipolygon built from c12 rings (more vertices, closed rings)
			np := 1 + r.Intn(2)
			mp := make(orb.MultiPolygon, np)
			for i := range mp {
				nr := 1 + r.Intn(3)
				pg := make(orb.Polygon, nr)
				for j := range pg {
					pg[j] = orb.Ring(c12Line(r, mode, 8, true))
				}
				mp[i] = pg
			}
			var gg orb.Geometry = mp
			if r.Intn(2) == 0 {
				gg = mp[0]
			}
			c.Case("geom", kind+" "+fb(t)+" "+strconv.Itoa(kk)+" "+gs(gg))
			if r.Intn(2) == 0 {
				c.Case("alias", kind+" "+fb(t)+" "+strconv.Itoa(kk)+" "+gs(gg))
			}
		}
		if r.Intn(3) == 0 { // holes of very different sizes: some collapse and are dropped, later ones survive
			hk := c12Kind(r)
			ht := []float64{0, 0.25, 0.5, 1, 2, 3, 5, 10, 100}[r.Intn(9)]
			hkk := 0
			if hk == "vs" {
				hkk = []int{0, 2, 2, 3, 4}[r.Intn(5)]
				if r.Intn(3) == 0 {
					ht = math.MaxFloat64
				}
			}
			var hg orb.Geometry = c12HolePolygon(r)
			switch r.Intn(4) {
			case 0:
				hg = orb.MultiPolygon{c12HolePolygon(r), hg.(orb.Polygon)}
			case 1:
				hg = orb.Collection{hg, orb.MultiPolygon{c12HolePolygon(r)}}
			}
			op := "geom"
			if r.Intn(4) == 0 {
				op = "alias"
			}
			c.Case(op, hk+" "+fb(ht)+" "+strconv.Itoa(hkk)+" "+gs(hg))
		}
		if r.Intn(2) == 0 { // one simplifier value over several vertex lists
			m := 2 + r.Intn(3)
			var all []orb.Point
			items := ""
			for i := 0; i < m; i++ {
				lr := []string{"L", "R"}[r.Intn(2)]
				ps := c12Line(r, mode, 10, lr == "R")
				all = append(all, ps...)
				items += " " + lr + " " + spts(ps)
			}
			if len(all) > 14 {
				all = all[:14]
			}
			sk := c12Kind(r)
			st := c12Threshold(r, sk, all, mode)
			skk := 0
			if sk == "vs" {
				skk = c12Keep(r, 6)
			}
			c.Case("seq", sk+" "+fb(st)+" "+strconv.Itoa(skk)+" "+strconv.Itoa(m)+items)
		}
		if r.Intn(6) == 0 { // mvt.Layers.Simplify
			nl := r.Intn(3)
			var sb strings.Builder
			var all []orb.Point
			for i := 0; i < nl; i++ {
				nf := r.Intn(5)
				sb.WriteString(" " + strconv.Itoa(nf))
				for j := 0; j < nf; j++ {
					fg := genGeom(r, GenOpts{Mode: mode, MaxPts: 7, MaxDepth: 1, TopNil: true, InnerNil: true}, 0)
					forEachVertex(fg, func(p *orb.Point) { all = append(all, *p) })
					sb.WriteString(" " + gsN(fg))
				}
			}
			if len(all) > 12 {
				all = all[:12]
			}
			mk := c12Kind(r)
			mt := c12Threshold(r, mk, all, mode)
			mkk := 0
			if mk == "vs" {
				mkk = c12Keep(r, 5)
			}
			c.Case("mvt", mk+" "+fb(mt)+" "+strconv.Itoa(mkk)+" "+strconv.Itoa(nl)+sb.String())
		}
	}
}

var _ = strings.TrimSpace
