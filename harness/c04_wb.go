package main

// C04, white-box round: three ops that reach what the generators of c04.go could not.
//
//   par   a concurrent PARSE phase.  The texts of 2..8 values of different kinds (plain or re-spelt:
//         lower case, blanks at both ends) are parsed alone with all eight entry points, then by G
//         goroutines started together — every goroutine parses every text with every entry point,
//         `rounds` times, in its own order, optionally while one more goroutine runs the two
//         encoders on the same values — then alone once more.  Every concurrent / late outcome must
//         be the solo outcome (value compared bit for bit); the solo outcomes are judged by the
//         driver exactly as in op rt (model agreement + round trip + typed accept/reject).
//   bseq  op seq at sizes the case line cannot carry as tokens: values given by a DESCRIPTOR
//         (kind, text length wanted, salt) whose text has exactly (or as nearly as the kind
//         allows) the wanted number of bytes — 2^k-1, 2^k, 2^k+1 and 3*2^(k-1) for k = 6..20, the
//         places where buffers / pools change class (4 KiB, 64 KiB, 1 MiB among them).  Same
//         protocol as seq (every result kept, compared with its call-time copy when all calls are
//         done, parsed back, overwritten up to its capacity, encoded afresh); the output carries
//         flags, not texts.
//   brt   implementation-only round trips of values given by a descriptor (kind, members, parts,
//         points, salt): member counts around 2^8, 2^12, 2^15, 2^16 and 2^17 (and beyond on the
//         thorough tier) for every multi kind, for collections of every shape, for a big multi inside
//         nested collections, and nesting depths up to 4097 (thorough: 65537).  Marshal (both entry
//         points must agree) -> Unmarshal and the seven typed functions -> bit-for-bit comparison with
//         the value (ring / bound as the one-ring polygon).
//
// The Lean model's parsers are quadratic in the member count, so bseq and brt are judged on the
// implementation's answers alone (the round trip needs neither the model's text nor its parse).

import (
	"math"
	"math/rand"
	"runtime"
	"strconv"
	"strings"
	"sync"
	"sync/atomic"

	"github.com/paulmach/orb"
	"github.com/paulmach/orb/encoding/wkt"
)

// --- bit-exact comparison of decoded values ---

func wktWBSamePts(a, b []orb.Point) bool {
	if len(a) != len(b) {
		return false
	}
	for i := range a {
		if math.Float64bits(a[i][0]) != math.Float64bits(b[i][0]) || math.Float64bits(a[i][1]) != math.Float64bits(b[i][1]) {
			return false
		}
	}
	return true
}

// wktWBSame: same dynamic type, same shape, same coordinate bits (nil and empty slices are the same
// value here, as they are in the protocol's outcome tokens).
func wktWBSame(a, b orb.Geometry) bool {
	switch x := a.(type) {
	case nil:
		return b == nil
	case orb.Point:
		y, ok := b.(orb.Point)
		return ok && wktWBSamePts([]orb.Point{x}, []orb.Point{y})
	case orb.MultiPoint:
		y, ok := b.(orb.MultiPoint)
		return ok && wktWBSamePts(x, y)
	case orb.LineString:
		y, ok := b.(orb.LineString)
		return ok && wktWBSamePts(x, y)
	case orb.Ring:
		y, ok := b.(orb.Ring)
		return ok && wktWBSamePts(x, y)
	case orb.Bound:
		y, ok := b.(orb.Bound)
		return ok && wktWBSamePts([]orb.Point{x.Min, x.Max}, []orb.Point{y.Min, y.Max})
	case orb.MultiLineString:
		y, ok := b.(orb.MultiLineString)
		if !ok || len(x) != len(y) {
			return false
		}
		for i := range x {
			if !wktWBSamePts(x[i], y[i]) {
				return false
			}
		}
		return true
	case orb.Polygon:
		y, ok := b.(orb.Polygon)
		if !ok || len(x) != len(y) {
			return false
		}
		for i := range x {
			if !wktWBSamePts(x[i], y[i]) {
				return false
			}
		}
		return true
	case orb.MultiPolygon:
		y, ok := b.(orb.MultiPolygon)
		if !ok || len(x) != len(y) {
			return false
		}
		for i := range x {
			if !wktWBSame(x[i], y[i]) {
				return false
			}
		}
		return true
	case orb.Collection:
		y, ok := b.(orb.Collection)
		if !ok || len(x) != len(y) {
			return false
		}
		for i := range x {
			if !wktWBSame(x[i], y[i]) {
				return false
			}
		}
		return true
	}
	return false
}

// wktWBCanon: what the text of a value denotes (ring and bound are written as the one-ring polygon).
func wktWBCanon(g orb.Geometry) orb.Geometry {
	switch x := g.(type) {
	case orb.Ring:
		return orb.Polygon{x}
	case orb.Bound:
		return orb.Polygon{x.ToRing()}
	case orb.Collection:
		c := make(orb.Collection, len(x))
		for i := range x {
			c[i] = wktWBCanon(x[i])
		}
		return c
	}
	return g
}

type wktParsed struct {
	g        orb.Geometry
	err      error
	panicked bool
}

// wktParseOne: entry point fn (0 = Unmarshal, 1..7 the typed functions in the order of wktEight).
func wktParseOne(fn int, s string) (p wktParsed) {
	defer func() {
		if recover() != nil {
			p = wktParsed{panicked: true}
		}
	}()
	switch fn {
	case 0:
		g, err := wkt.Unmarshal(s)
		return wktParsed{g: g, err: err}
	case 1:
		g, err := wkt.UnmarshalPoint(s)
		return wktParsed{g: g, err: err}
	case 2:
		g, err := wkt.UnmarshalMultiPoint(s)
		return wktParsed{g: g, err: err}
	case 3:
		g, err := wkt.UnmarshalLineString(s)
		return wktParsed{g: g, err: err}
	case 4:
		g, err := wkt.UnmarshalMultiLineString(s)
		return wktParsed{g: g, err: err}
	case 5:
		g, err := wkt.UnmarshalPolygon(s)
		return wktParsed{g: g, err: err}
	case 6:
		g, err := wkt.UnmarshalMultiPolygon(s)
		return wktParsed{g: g, err: err}
	}
	g, err := wkt.UnmarshalCollection(s)
	return wktParsed{g: g, err: err}
}

func (p wktParsed) outcome() string {
	if p.panicked {
		return "panic"
	}
	return wktOutcome(p.g, p.err)
}

func (p wktParsed) same(q wktParsed) bool {
	if p.panicked != q.panicked || p.err != q.err {
		return false
	}
	if p.panicked || p.err != nil {
		return true
	}
	return wktWBSame(p.g, q.g)
}

// --- op par ---

// wktWBSpell: 0 plain, 1 lower case, 2 lower case with blanks at both ends, 3 blanks at both ends
// (%g never prints an upper-case letter for a finite value, so lower-casing changes keywords only);
// BROKEN texts, so that the error paths run concurrently too (judged by model agreement, not by the
// round trip): 4 last byte dropped, 5 first byte replaced by X, 6 an x appended.
func wktWBSpell(sp int, s string) string {
	switch sp {
	case 4:
		if len(s) == 0 {
			return s
		}
		return s[:len(s)-1]
	case 5:
		if len(s) == 0 {
			return "X"
		}
		return "X" + s[1:]
	case 6:
		return s + "x"
	case 1:
		return strings.ToLower(s)
	case 2:
		return " \t" + strings.ToLower(s) + "\n"
	case 3:
		return "\n" + s + " "
	}
	return s
}

// runWKTPar: input = <G> <rounds> <enc 0|1> <n> (<spelling> <value>)*n | F… T…
// output = for every text: <texthex> ; its eight SOLO outcomes ; then `conc <calls> <mismatches>` and up
// to four sections `m <c|a> <text index> <fn> <outcome…>` (c = during the concurrent phase, a = alone
// afterwards; fn 0..7 as in wktEight, 8 = MarshalString, 9 = Marshal, outcome = the text as hex).
func runWKTPar(in []string) string {
	r := &tokReader{t: in}
	G := r.int()
	rounds := r.int()
	enc := r.int()
	n := r.int()
	vals := make([]orb.Geometry, n)
	texts := make([]string, n)
	plain := make([]string, n)
	for i := range vals {
		sp := r.int()
		vals[i] = r.geom()
		t, ok := wktMarshalGuarded(vals[i])
		if !ok {
			return "panic"
		}
		plain[i] = t
		texts[i] = wktWBSpell(sp, t)
	}
	solo := make([][8]wktParsed, n)
	var sb strings.Builder
	for i := range texts {
		sb.WriteString(wktHex(texts[i]))
		for fn := 0; fn < 8; fn++ {
			solo[i][fn] = wktParseOne(fn, texts[i])
			sb.WriteString(" ; " + solo[i][fn].outcome())
		}
		sb.WriteString(" ; ")
	}
	var calls, mism int64
	var mu sync.Mutex
	var recs []string
	record := func(phase string, i, fn int, out string) {
		atomic.AddInt64(&mism, 1)
		mu.Lock()
		if len(recs) < 4 {
			recs = append(recs, "m "+phase+" "+strconv.Itoa(i)+" "+strconv.Itoa(fn)+" "+out)
		}
		mu.Unlock()
	}
	var wg sync.WaitGroup
	start := make(chan struct{})
	for j := 0; j < G; j++ {
		wg.Add(1)
		go func(j int) {
			defer wg.Done()
			<-start
			var my int64
			for rd := 0; rd < rounds; rd++ {
				for t := 0; t < n; t++ {
					i := (t + j) % n
					for f := 0; f < 8; f++ {
						fn := (f + j + rd) % 8
						p := wktParseOne(fn, texts[i])
						my++
						if !p.same(solo[i][fn]) {
							record("c", i, fn, p.outcome())
						}
					}
				}
			}
			atomic.AddInt64(&calls, my)
		}(j)
	}
	if enc == 1 {
		wg.Add(1)
		go func() {
			defer wg.Done()
			<-start
			var my int64
			for rd := 0; rd < rounds; rd++ {
				for i := range vals {
					g := vals[i]
					s := guard(func() string { return "t" + wkt.MarshalString(g) })
					b := guard(func() string { return "t" + string(wkt.Marshal(g)) })
					my += 2
					if s != "t"+plain[i] {
						record("c", i, 8, wktHex(s))
					}
					if b != "t"+plain[i] {
						record("c", i, 9, wktHex(b))
					}
				}
			}
			atomic.AddInt64(&calls, my)
		}()
	}
	close(start)
	wg.Wait()
	for i := range texts {
		for fn := 0; fn < 8; fn++ {
			if p := wktParseOne(fn, texts[i]); !p.same(solo[i][fn]) {
				record("a", i, fn, p.outcome())
			}
		}
	}
	sb.WriteString("conc " + strconv.FormatInt(calls, 10) + " " + strconv.FormatInt(mism, 10))
	for _, m := range recs {
		sb.WriteString(" ; " + m)
	}
	return sb.String()
}

func wktParInput(G, rounds, enc int, sps []int, vals []orb.Geometry) string {
	var sb strings.Builder
	sb.WriteString(strconv.Itoa(G) + " " + strconv.Itoa(rounds) + " " + strconv.Itoa(enc) + " " + strconv.Itoa(len(vals)))
	texts := make([]string, len(vals))
	for i, g := range vals {
		sb.WriteString(" " + strconv.Itoa(sps[i]) + " " + gs(g))
		t, _ := wktMarshalGuarded(g)
		texts[i] = wktWBSpell(sps[i], t)
	}
	return sb.String() + " | " + wktFTable(orb.Collection(vals)) + " " + wktPFTable(texts...)
}

// wktParRounds: about `calls` parse calls in the concurrent phase, at least 25 rounds.
func wktParRounds(calls, G, n int) int {
	rd := calls / (G * n * 8)
	if rd < 25 {
		rd = 25
	}
	return rd
}

// wktParSmall: the shortest texts of every kind (the parse is over almost as soon as it is dispatched).
var wktParSmall = []orb.Geometry{
	orb.Point{1, 2},
	orb.MultiPoint{{1, 2}},
	orb.LineString{{1, 2}, {3, 4}},
	orb.MultiLineString{{{1, 2}, {3, 4}}},
	orb.Polygon{{{0, 0}, {1, 0}, {0, 0}}},
	orb.MultiPolygon{{{{0, 0}, {1, 0}, {0, 0}}}},
	orb.Collection{orb.Point{1, 2}, orb.LineString{{3, 4}, {5, 6}}},
	orb.Collection{},
	orb.LineString{},
	orb.MultiPolygon{},
	orb.Ring{{0, 0}, {1, 0}, {0, 0}},
	orb.Bound{Min: orb.Point{1, 2}, Max: orb.Point{3, 4}},
	orb.Collection{orb.Collection{orb.Point{1, 2}}, orb.MultiPoint{{1e21, 2e-7}}},
}

func genWKTPar(c *Ctx, calls int) {
	idx := 0
	emit := func(G, enc int, sps []int, vals []orb.Geometry) {
		if wktSpread(c, idx) {
			c.Case("par", wktParInput(G, wktParRounds(calls, G, len(vals)), enc, sps, vals))
		}
		idx++
	}
	zeros := func(n int) []int { return make([]int, n) }
	cyc := func(n, first int) []int {
		s := make([]int, n)
		for i := range s {
			s[i] = (first + i) % 4
		}
		return s
	}
	all := append([]orb.Geometry{}, orb.AllGeometries...)
	for _, G := range []int{2, 4, 8} {
		emit(G, 0, zeros(len(all)), all)
		emit(G, 1, cyc(len(all), G), all)
		emit(G, G/4, cyc(len(wktParSmall), 0), wktParSmall)
	}
	// every pair of kinds (the adversary's demo is POINT against GEOMETRYCOLLECTION), two goroutines …
	k := 0
	for i := 0; i < 9; i++ {
		for j := i + 1; j < 9; j++ {
			pair := []orb.Geometry{wktParSmall[i], wktParSmall[j]}
			emit(2+k%2, k%3%2, []int{k % 4, (k / 4) % 4}, pair)
			k++
		}
	}
	// valid and broken texts side by side (error paths and success paths at once)
	for i := 0; i < 7; i++ {
		emit(3, i%2, []int{4 + i%3, 0, 4 + (i+1)%3, 1}, []orb.Geometry{wktParSmall[i], wktParSmall[(i+3)%9], wktParSmall[(i+5)%9], wktParSmall[(i+1)%9]})
	}
	// … and the same text from every goroutine (no interference possible between equal dispatches:
	// a failure here means shared state that is corrupted, not merely swapped)
	for i := 0; i < 9; i++ {
		emit(4, 0, []int{0, 0}, []orb.Geometry{wktParSmall[i], wktParSmall[i]})
	}
}

// wktParDraw: a random par case: 2..6 values of the rt generator (re-drawn a few times to stay clear
// of `()` members), at least two different kinds among them.
func wktParDraw(r *rand.Rand, calls int) string {
	n := 2 + r.Intn(5)
	vals := make([]orb.Geometry, n)
	sps := make([]int, n)
	style := r.Intn(3)
	for i := range vals {
		for try := 0; ; try++ {
			if r.Intn(6) == 0 {
				vals[i] = wktParSmall[r.Intn(len(wktParSmall))]
			} else if r.Intn(8) == 0 {
				vals[i] = wktDeepChain(r, style, 3+r.Intn(4))
			} else {
				vals[i] = wktGenGeom(r, style, 0)
			}
			if s, _ := wktMarshalGuarded(vals[i]); !strings.Contains(s, "()") || try >= 8 {
				break
			}
		}
		if r.Intn(3) == 0 {
			sps[i] = r.Intn(4)
		} else if r.Intn(8) == 0 {
			sps[i] = 4 + r.Intn(3)
		}
	}
	G := []int{2, 2, 3, 4, 8}[r.Intn(5)]
	enc := 0
	if r.Intn(3) == 0 {
		enc = 1
	}
	return wktParInput(G, wktParRounds(calls, G, n), enc, sps, vals)
}

// --- values by descriptor ---

var wktBigPools = [][]float64{
	{0, 1, 2, 3, 4, 5, 6, 7, 8, 9},
	{0, 1, 2, -3, 4.5, 10, 7, 100000, -0.25, 33},
	nil, // the running index itself: every coordinate of the value is different
	{1e21, -2.5e-7, 3, 0.0001, 123456.789, math.Copysign(0, -1), -1e-5, 5e-324, 1.7976931348623157e308, 12},
}

// wktBigBuilder hands out the coordinates of a described value: coordinate number i comes from the
// pool salt%4 (or is i itself); the last two coordinates handed out can be made 1..16 bytes longer
// than a digit (wktPadCoord) so that a text gets an exact length.
type wktBigBuilder struct {
	salt       int
	i          int
	total      int // number of coordinates (0 = first pass, no padding)
	padX, padY int
}

func (b *wktBigBuilder) coord() float64 {
	i := b.i
	b.i++
	if b.total > 0 && i == b.total-2 && b.padX > 0 {
		return wktPadCoord(b.padX)
	}
	if b.total > 0 && i == b.total-1 && b.padY > 0 {
		return wktPadCoord(b.padY)
	}
	pool := wktBigPools[b.salt%4]
	if pool == nil {
		return float64(i + b.salt/4)
	}
	return pool[(i+i/len(pool)+b.salt/4)%len(pool)]
}

// wktPadCoord: a coordinate whose %g text is e bytes longer than one digit (e = 1..16): "10", then
// 1 + 2^-(e-1) = "1.5", "1.25", "1.125", … (exact decimals of e-1 places; %g prints integers from
// 10^6 on with an exponent, so digits cannot be added on the left).
func wktPadCoord(e int) float64 {
	if e == 1 {
		return 10
	}
	return 1 + math.Ldexp(1, -(e-1))
}

func (b *wktBigBuilder) pt() orb.Point { x := b.coord(); y := b.coord(); return orb.Point{x, y} }

func (b *wktBigBuilder) pts(n int) []orb.Point {
	ps := make([]orb.Point, n)
	for i := range ps {
		ps[i] = b.pt()
	}
	return ps
}

func (b *wktBigBuilder) poly(rings, pts int) orb.Polygon {
	p := make(orb.Polygon, rings)
	for i := range p {
		p[i] = orb.Ring(b.pts(pts))
	}
	return p
}

func wktMax1(n int) int {
	if n < 1 {
		return 1
	}
	return n
}

// build: kind, a = members (points for LS / R / MP; nesting depth for NEST), per = parts per member,
// pts = points per part.  Every member is non-empty (no `()` / EMPTY members: inside the class where
// the round trip holds).
func (b *wktBigBuilder) build(kind string, a, per, pts int) orb.Geometry {
	per, pts = wktMax1(per), wktMax1(pts)
	switch kind {
	case "P":
		return b.pt()
	case "MP":
		return orb.MultiPoint(b.pts(a))
	case "LS":
		return orb.LineString(b.pts(a))
	case "R":
		return orb.Ring(b.pts(a))
	case "MLS":
		m := make(orb.MultiLineString, a)
		for i := range m {
			m[i] = orb.LineString(b.pts(pts))
		}
		return m
	case "PG":
		return b.poly(a, pts)
	case "MPG":
		m := make(orb.MultiPolygon, a)
		for i := range m {
			m[i] = b.poly(per, pts)
		}
		return m
	case "CP":
		c := make(orb.Collection, a)
		for i := range c {
			c[i] = b.pt()
		}
		return c
	case "CL":
		c := make(orb.Collection, a)
		for i := range c {
			c[i] = orb.LineString(b.pts(pts + 1))
		}
		return c
	case "CM": // members of every kind in turn
		c := make(orb.Collection, a)
		for i := range c {
			switch i % 9 {
			case 0:
				c[i] = b.pt()
			case 1:
				c[i] = orb.LineString(b.pts(pts + 1))
			case 2:
				c[i] = b.build("MLS", per, 1, pts)
			case 3:
				c[i] = b.poly(per, pts)
			case 4:
				c[i] = b.build("MPG", per, per, pts)
			case 5:
				c[i] = orb.MultiPoint(b.pts(per))
			case 6:
				c[i] = orb.Collection{b.pt(), orb.LineString(b.pts(2))}
			case 7:
				c[i] = orb.Ring(b.pts(pts + 2))
			default:
				c[i] = orb.Bound{Min: b.pt(), Max: b.pt()}
			}
		}
		return c
	case "CC": // the long member list one collection down, with siblings
		return orb.Collection{b.pt(), b.build("CP", a, per, pts), orb.LineString(b.pts(2))}
	case "CCC": // a collections of two points each
		c := make(orb.Collection, a)
		for i := range c {
			c[i] = orb.Collection{b.pt(), b.pt()}
		}
		return c
	case "CMP", "CLS", "CMLS", "CPG", "CMPG": // one long multi two collections down, with siblings
		in := b.build(kind[1:], a, per, pts)
		return orb.Collection{b.pt(), orb.Collection{in, b.pt()}, orb.LineString(b.pts(2))}
	case "NEST": // a levels (per = mode of wktNestSib) around a two-member collection
		return wktNestSib(orb.Collection{b.pt(), b.pt()}, a, per%3)
	}
	panic("unknown big kind " + kind)
}

// wktBigValue: the value of a brt descriptor.
func wktBigValue(kind string, a, per, pts, salt int) orb.Geometry {
	return (&wktBigBuilder{salt: salt}).build(kind, a, per, pts)
}

// wktSizedKinds: the kinds a text of a wanted length is built from, with (per, pts).
var wktSizedKinds = map[string][2]int{
	"LS": {1, 1}, "MP": {1, 1}, "R": {1, 1}, "MLS": {1, 2}, "PG": {1, 2}, "MPG": {1, 2}, "CP": {1, 1}, "CL": {1, 1},
}

// wktSized: a value of the given kind whose text is L bytes long (exactly, unless L is smaller than
// the shortest text of the kind or the kind's step is too coarse).  One-digit coordinates give every
// member the same length; the last point is padded with digits.
func wktSized(kind string, L, salt int) orb.Geometry {
	pp, ok := wktSizedKinds[kind]
	if !ok {
		panic("unknown sized kind " + kind)
	}
	salt = salt / 4 * 4                 // pool 0
	measure := func(a int) (int, int) { // text length and number of coordinates of the unpadded value
		b := &wktBigBuilder{salt: salt}
		g := b.build(kind, a, pp[0], pp[1])
		return len(wkt.MarshalString(g)), b.i
	}
	l1, t1 := measure(1)
	l2, t2 := measure(2)
	unit := l2 - l1
	a := 1
	if L > l1 {
		a = 1 + (L-l1)/unit
	}
	rem := L - (l1 + (a-1)*unit)
	padX, padY := 0, 0
	if rem > 0 {
		padX = rem
		if padX > 16 {
			padX = 16
		}
		padY = rem - padX
		if padY > 16 {
			padY = 16
		}
	}
	b := &wktBigBuilder{salt: salt, total: t1 + (a-1)*(t2-t1), padX: padX, padY: padY}
	return b.build(kind, a, pp[0], pp[1])
}

// wktRtVerdict: one parse outcome against the value the text denotes.
func wktRtVerdict(p wktParsed, want orb.Geometry) string {
	switch {
	case p.panicked:
		return "panic"
	case p.err != nil:
		return "err " + wktErrClass(p.err)
	case wktWBSame(p.g, want):
		return "same"
	}
	k := "nil"
	if p.g != nil {
		k = p.g.GeoJSONType()
	}
	return "other " + k
}

func wktFirstDiff(a, b string) int {
	n := len(a)
	if len(b) < n {
		n = len(b)
	}
	for i := 0; i < n; i++ {
		if a[i] != b[i] {
			return i
		}
	}
	return n
}

// --- op bseq ---

// runWKTBigSeq: input = <mode s|p> <n> (<entry 0=Marshal 1=MarshalString> <kind> <L> <salt>)*n
// output = for every item: len <bytes of the text at call> ; kept <=|chg <first offset> <len now>> ;
// rt <same|err class|other kind|panic> (wkt.Unmarshal of the KEPT result against the value) ;
// fresh <=|chg <first offset> <len>> (a fresh call after every kept []byte was overwritten).
func runWKTBigSeq(in []string) string {
	r := &tokReader{t: in}
	mode := r.next()
	n := r.int()
	type item struct {
		entry  int
		g      orb.Geometry
		b      []byte
		s      string
		atCall string
	}
	items := make([]item, n)
	for i := range items {
		items[i].entry = r.int()
		kind := r.next()
		L := r.int()
		salt := r.int()
		items[i].g = wktSized(kind, L, salt)
	}
	call := func(it *item) {
		if it.entry == 0 {
			it.b = wkt.Marshal(it.g)
			it.atCall = string(it.b)
		} else {
			it.s = wkt.MarshalString(it.g)
			it.atCall = string([]byte(it.s))
		}
	}
	var panicked int32
	run := func(k, step int) {
		defer func() {
			if recover() != nil {
				atomic.StoreInt32(&panicked, 1)
			}
		}()
		for i := k; i < n; i += step {
			call(&items[i])
			if step > 1 {
				runtime.Gosched()
			}
		}
	}
	if mode == "p" {
		var wg sync.WaitGroup
		start := make(chan struct{})
		for k := 0; k < 2; k++ {
			wg.Add(1)
			go func(k int) { defer wg.Done(); <-start; run(k, 2) }(k)
		}
		close(start)
		wg.Wait()
	} else {
		run(0, 1)
	}
	if panicked != 0 {
		return "panic"
	}
	cmp := func(now, ref string) string {
		if now == ref {
			return "="
		}
		return "chg " + strconv.Itoa(wktFirstDiff(now, ref)) + " " + strconv.Itoa(len(now))
	}
	kept := make([]string, n)
	rts := make([]string, n)
	for i := range items {
		e := string(items[i].b)
		if items[i].entry != 0 {
			e = items[i].s
		}
		kept[i] = cmp(e, items[i].atCall)
		want := wktWBCanon(items[i].g)
		rts[i] = wktRtVerdict(wktParseOne(0, e), want)
	}
	for i := range items {
		if b := items[i].b; b != nil {
			b = b[:cap(b)]
			for j := range b {
				b[j] = '#'
			}
		}
	}
	var sb strings.Builder
	for i := range items {
		it := items[i]
		fresh := guard(func() string {
			if it.entry == 0 {
				return "t" + string(wkt.Marshal(it.g))
			}
			return "t" + wkt.MarshalString(it.g)
		})
		if fresh == "panic" {
			return "panic"
		}
		if i > 0 {
			sb.WriteString(" ; ")
		}
		sb.WriteString("len " + strconv.Itoa(len(it.atCall)) + " ; kept " + kept[i] + " ; rt " + rts[i] + " ; fresh " + cmp(fresh[1:], it.atCall))
	}
	return sb.String()
}

type wktSizedItem struct {
	entry int
	kind  string
	L     int
	salt  int
}

func wktBigSeqInput(mode string, items []wktSizedItem) string {
	var sb strings.Builder
	sb.WriteString(mode + " " + strconv.Itoa(len(items)))
	for _, it := range items {
		sb.WriteString(" " + strconv.Itoa(it.entry) + " " + it.kind + " " + strconv.Itoa(it.L) + " " + strconv.Itoa(it.salt))
	}
	return sb.String()
}

var wktSizedKindList = []string{"LS", "MP", "MLS", "PG", "MPG", "CP", "CL", "R"}

// genWKTBigSeq: for every k in 6..maxK and every length in {2^k-1, 2^k, 2^k+1, 3*2^(k-1)}: the
// call patterns big-small, small-big, big-big' (another value of the same length), big-big (the
// same value), big-small-big'-small-big; entry points cycled through all four pairs; kinds cycled;
// both modes.  Spread over the shards.
func genWKTBigSeq(c *Ctx, maxK int) {
	idx := 0
	emit := func(mode string, items []wktSizedItem) {
		if wktSpread(c, idx) {
			c.Case("bseq", wktBigSeqInput(mode, items))
		}
		idx++
	}
	n := 0
	for k := 6; k <= maxK; k++ {
		for _, L := range []int{1<<uint(k) - 1, 1 << uint(k), 1<<uint(k) + 1, 3 << uint(k-1)} {
			for pat := 0; pat < 5; pat++ {
				n++
				kind := wktSizedKindList[n%len(wktSizedKindList)]
				kind2 := wktSizedKindList[(n/3)%len(wktSizedKindList)]
				e0, e1 := n%2, (n/2)%2
				mode := "s"
				if n%5 == 0 {
					mode = "p"
				}
				small := 40 + n%50
				var items []wktSizedItem
				switch pat {
				case 0:
					items = []wktSizedItem{{e0, kind, L, 0}, {e1, kind2, small, 4}}
				case 1:
					items = []wktSizedItem{{e0, kind2, small, 4}, {e1, kind, L, 0}}
				case 2:
					items = []wktSizedItem{{e0, kind, L, 0}, {e1, kind, L, 4}}
				case 3:
					items = []wktSizedItem{{e0, kind, L, 0}, {e1, kind, L, 0}, {e0, kind2, L / 2, 8}}
				default:
					items = []wktSizedItem{{e0, kind, L, 0}, {e1, kind2, small, 4}, {e0, kind2, L, 8}, {e1, kind, small + 7, 12}, {e0, kind, L + 1, 16}}
				}
				emit(mode, items)
			}
		}
	}
}

// --- op brt ---

// wktBigSpell: 0 plain; 1 lower case; 2 a blank before and a tab after every comma; 3 blanks inside
// every parenthesis and at both ends, lower case.
func wktBigSpell(sp int, s string) string {
	switch sp {
	case 1:
		return strings.ToLower(s)
	case 2:
		return strings.Replace(s, ",", " ,\t", -1)
	case 3:
		return " " + strings.NewReplacer("(", "( ", ")", "\n)").Replace(strings.ToLower(s)) + "\t"
	}
	return s
}

// runWKTBigRt: input = <spelling> <kind> <a> <per> <pts> <salt>
// output = len <bytes> ; enc <same|differ> (wkt.Marshal against wkt.MarshalString) ; eight verdicts
// (same | err class | other kind | panic) of Unmarshal and the seven typed functions on the text.
func runWKTBigRt(in []string) string {
	r := &tokReader{t: in}
	sp := r.int()
	kind := r.next()
	a, per, pts, salt := r.int(), r.int(), r.int(), r.int()
	g := wktBigValue(kind, a, per, pts, salt)
	text, ok := wktMarshalGuarded(g)
	if !ok {
		return "panic"
	}
	enc := guard(func() string {
		if string(wkt.Marshal(g)) == text {
			return "same"
		}
		return "differ"
	})
	text = wktBigSpell(sp, text)
	want := wktWBCanon(g)
	var sb strings.Builder
	sb.WriteString("len " + strconv.Itoa(len(text)) + " ; enc " + enc)
	for fn := 0; fn < 8; fn++ {
		sb.WriteString(" ; " + wktRtVerdict(wktParseOne(fn, text), want))
	}
	return sb.String()
}

func wktBigRtInput(sp int, kind string, a, per, pts, salt int) string {
	return strconv.Itoa(sp) + " " + kind + " " + strconv.Itoa(a) + " " + strconv.Itoa(per) + " " + strconv.Itoa(pts) + " " + strconv.Itoa(salt)
}

// wktBigCounts: member counts around the powers of two where a narrow counter or a fixed table ends.
func wktBigCounts(thorough bool) []int {
	var out []int
	for _, k := range []uint{8, 12, 15} {
		if k == 15 && !thorough {
			out = append(out, 1<<k, 1<<k+2)
			continue
		}
		out = append(out, 1<<k-1, 1<<k, 1<<k+1, 1<<k+2)
	}
	out = append(out, 1<<16, 1<<16+1, 1<<16+2, 1<<17+1)
	if thorough {
		out = append(out, 1<<14+1, 1<<16-1, 70000, 1<<17-1, 1<<17, 1<<17+2, 140000, 1<<18+1, 1<<20+1)
	}
	return out
}

// genWKTBigRt: every shape of member list x every count of wktBigCounts (coordinate pool and
// spelling cycled), then the nesting depths.  Spread over the shards.
func genWKTBigRt(c *Ctx) {
	thorough := c.Tier == "thorough"
	idx := 0
	emit := func(in string) {
		if wktSpread(c, idx) {
			c.Case("brt", in)
		}
		idx++
	}
	// a shape = kind + (members, parts per member, points per part); -1 marks the dimension that takes
	// the count
	type shape struct {
		kind        string
		a, per, pts int
	}
	shapes := []shape{
		{"MP", -1, 1, 1}, {"LS", -1, 1, 1}, {"R", -1, 1, 1}, {"MLS", -1, 1, 2}, {"MLS", -1, 1, 1}, {"PG", -1, 1, 2}, {"PG", -1, 1, 1},
		{"MPG", -1, 1, 2}, {"MPG", -1, 2, 1}, {"MPG", 1, -1, 1}, {"MPG", 3, -1, 1}, // rings of one polygon: the inner splitter
		{"MLS", 2, 1, -1}, {"PG", 2, 1, -1}, {"MPG", 2, 2, -1}, // points of one member
		{"CP", -1, 1, 1}, {"CL", -1, 1, 1}, {"CM", -1, 2, 2}, {"CC", -1, 1, 1}, {"CCC", -1, 1, 1},
		{"CMP", -1, 1, 1}, {"CLS", -1, 1, 1}, {"CMLS", -1, 1, 2}, {"CPG", -1, 1, 1}, {"CMPG", -1, 1, 1}, {"CMPG", 2, -1, 1}, {"CL", 2, 1, -1},
	}
	// quick tier: beyond 2^16 every shape at 2^16+2 (above a counter that wraps at 2^16, above a limit
	// of 2^16 and of 2^16+1 alike); the other big counts for the plain multi kinds and the two plain
	// collections, count on the members, only
	basic := map[string]bool{"MP": true, "LS": true, "MLS": true, "PG": true, "MPG": true, "CP": true, "CL": true}
	n := 0
	for _, cnt := range wktBigCounts(thorough) {
		for _, sh := range shapes {
			n++
			if !thorough && cnt > 1<<15+2 && cnt != 1<<16+2 && !(basic[sh.kind] && sh.a == -1) {
				continue
			}
			sp := 0
			if n%3 == 0 {
				sp = 1 + (n/3)%3
			}
			dim := func(d int) int {
				if d == -1 {
					return cnt
				}
				return d
			}
			a, per, pts := dim(sh.a), dim(sh.per), dim(sh.pts)
			if sh.kind == "CM" && thorough && cnt > 1<<18 { // keep the mixed collection below 100 MB of text
				continue
			}
			emit(wktBigRtInput(sp, sh.kind, a, per, pts, n%16))
		}
	}
	// nesting: the parser's time is quadratic in the depth (4097 levels 0.7 s, 16385 levels 6 s,
	// 65537 levels 90 s): the quick tier stops at 4097
	depths := []int{1500, 2048, 2049, 4097}
	if thorough {
		depths = append(depths, 2047, 4096, 8191, 8193, 16385, 32769, 65535, 65536, 65537)
	}
	for _, d := range depths {
		emit(wktBigRtInput(0, "NEST", d, 0, 1, 0))
		if d == 2048 || (thorough && d <= 8193) {
			emit(wktBigRtInput((d%3)+1, "NEST", d, 2, 1, 5))
		}
	}
}
