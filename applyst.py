#!/usr/bin/env python3
"""applyst.py Cxx … — folds work/props_Cxx_st.json (rule_addition, partial_add, partial_remove, merge_notes) into props.json"""
import json, sys
P = json.load(open('props.json'))
for pid in sys.argv[1:]:
    try: x = json.load(open(f'work/props_{pid}_st.json'))
    except FileNotFoundError: print(pid, 'no st file'); continue
    c = P[pid]
    if x.get('rule_addition') and x['rule_addition'] not in c.get('rule', ''): c['rule'] = c.get('rule', '') + ' ' + x['rule_addition']
    for s in x.get('partial_remove', []): c['partial'] = [i for i in c.get('partial', []) if s[:60] not in i]
    for a in x.get('partial_add', []):
        if a not in c['partial']: c['partial'].append(a)
    if x.get('level_text_addition') and x['level_text_addition'] not in c.get('level_text', ''): c['level_text'] += ' ' + x['level_text_addition']
    if x.get('merge_notes'): print(pid, 'merge_notes:', x['merge_notes'])
json.dump(P, open('props.json', 'w'), indent=1)
