#!/usr/bin/env python3
"""mkskeleton.py OrbProofs/Cxx.lean header.lean > OrbProofs/CxxLemmas.lean
Builds a lemma skeleton (statements with `sorry`) for every theorem of the property file
whose proof is a call to its primed twin.  Used once per property to hand proofs out."""
import re, sys
src = open(sys.argv[1]).read()
header = open(sys.argv[2]).read()
out = [header]
# split into top-level chunks at blank lines
lines = src.split("\n")
cur_sections = []   # stack of (name, variable line or None)
opened = []         # sections opened in the output
i = 0
def sync():
    global opened
    want = [s for s in cur_sections]
    # close sections not wanted
    while opened and (len(opened) > len(want) or opened != want[:len(opened)]):
        n, _ = opened.pop()
        out.append(f"end {n}\n")
    for s in want[len(opened):]:
        out.append(f"section {s[0]}")
        if s[1]:
            out.append(s[1])
        out.append("")
        opened.append(s)
while i < len(lines):
    l = lines[i]
    m = re.match(r"section (\w+)", l)
    if m:
        var = lines[i+1] if i+1 < len(lines) and lines[i+1].startswith("variable") else None
        cur_sections.append((m.group(1), var)); i += 1; continue
    m = re.match(r"end (\w+)", l)
    if m and cur_sections and cur_sections[-1][0] == m.group(1):
        cur_sections.pop(); i += 1; continue
    m = re.match(r"theorem (\w+)", l)
    if m:
        j = i; chunk = []
        while j < len(lines) and lines[j].strip() != "" and not (j > i and re.match(r"(theorem|/--|example|end |section )", lines[j])):
            chunk.append(lines[j]); j += 1
        text = "\n".join(chunk)
        name = m.group(1)
        mm = re.match(r"theorem \w+ (.*?) :=\s*" + re.escape(name) + r"'", text, flags=re.S)
        if mm:
            sync()
            out.append(f"theorem {name}' {mm.group(1)} := by\n  sorry\n")
        i = j; continue
    i += 1
while opened:
    n, _ = opened.pop(); out.append(f"end {n}\n")
m = re.search(r"^namespace (\S+)", src, flags=re.M)
out.append(f"end {m.group(1)}")
print("\n".join(out))
