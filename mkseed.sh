#!/bin/bash
# mkseed.sh C07 ...: worktree + prompt for each property
for P in "$@"; do
  lp=$(echo $P | tr 'A-Z' 'a-z')
  git -C /repo worktree add --detach /tmp/seed-$lp HEAD -q
  python3 - "$P" "$lp" <<'PY'
import sys, json
P, lp = sys.argv[1], sys.argv[2]
for l in open('/verif/properties.jsonl'):
    p = json.loads(l)
    if p['id'] == P:
        prop = f"{p['title']}\n\nSTATEMENT: {p['statement']}\n\nQUANTIFIER: {p['quantifier']['text']}\n\nCODE ANCHORS: {', '.join(p['anchors']['files'])}\n"
t = open('/verif/seed_prompt.txt').read().replace('WORKTREE', f'/tmp/seed-{lp}').replace('PROPERTY', prop)
open(f'/tmp/seed_prompt_{P}.txt', 'w').write(t)
PY
done
