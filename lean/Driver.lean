import Driver.Main
