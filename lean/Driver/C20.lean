import Orb.Proto
import Orb.Core
import Orb.SmartClip
import Generated.Params

/-! Driver for C20 (generic entry points: total, agree with typed functions, collections combine,
    read-only arguments unchanged).

    The judgement is the executable property on the implementation's outcomes.  Everything that
    DECIDES lives here, not in the harness: which entry points are read-only (`readOnly`), how the
    generic function wraps the kind-specific function's raw result (`relate`: bound pre-test, nil for
    an empty result, single-member unwrapping — the statements of `clip_geometry_agrees_typed`,
    `smartclip_geometry_agrees_typed`, `simplify_agrees_typed` in OrbProofs/C20Models.lean), and how
    a collection's result is rebuilt from its members' results (`combineOf` and the clauses below —
    `clip_geometry_collection`, `smartclip_geometry_collection`, `simplify_collection`,
    `planar_*_collection`, `bound_collection_union`, `wkb_collection`, `wkt_collection`,
    `geojson_collection`).  The bound pre-test and the dimension of a value are computed HERE from
    the case's input (Float twin of `Core.bound`, `SmartClip.dimensions`), never taken from the
    harness.  No clause answers `skip`. -/
namespace Driver.C20
open Orb Orb.Proto Orb.Core

def splitBar (ts : Toks) : List Toks :=
  let rec go (ts : Toks) (cur : Toks) (acc : List Toks) : List Toks :=
    match ts with
    | [] => (cur.reverse :: acc).reverse
    | "|" :: rest => go rest [] (cur.reverse :: acc)
    | t :: rest => go rest (t :: cur) acc
  go ts [] []

/-- entry points documented (or evidently meant) to leave their argument alone -/
def readOnly : List String :=
  ["clone", "equal", "bound", "planar.area", "planar.centroid", "planar.length", "planar.distfrom",
   "planar.distfromidx", "geo.area", "geo.length", "geo.lengthhav", "geo.lengthhaversign", "tilecover", "tilecover.mergeup",
   "wkb", "ewkb", "wkt", "geojson", "wkb.hex", "wkb.must", "wkb.musthex", "wkb.value", "ewkb.hex",
   "ewkb.must", "ewkb.musthex", "ewkb.value", "ewkb.prefix", "wkt.bytes", "geojson.feature",
   "geojson.bson", "geojson.featurebson", "mvt"]

/-- how a collection's outcome is rebuilt from its members' outcomes.
    `none`: entry points whose collection clause is decided elsewhere, each with its reason:
    * `equal` here is `Equal(g, Clone g)`; collections of pairs are judged by the `eq` op;
    * the convenience wrappers (`wkb.hex` … `wkt.bytes`, `geojson.feature`) must return exactly what
      the encoder returns (typed clause), and the encoder carries the collection clause;
    * `geojson.bson`, `geojson.featurebson`: the BSON document layout is C02's (round trip) — here
      totality, ring/bound agreement and read-only;
    * `clip.degbox`, `smartclip.degbox`: point / flat / inverted boxes, which the models' totality
      theorems exclude (`BoxOK`) — totality only;
    * `mvt`: a collection is NOT the combination of its members (only the first member is written,
      finding C03-collection-members) — here totality, ring/bound agreement and read-only. -/
def combineOf (e : String) : Option String :=
  if e == "planar.area" || e == "planar.length" || e == "geo.area" || e == "geo.length" || e == "geo.lengthhav"
     || e == "geo.lengthhaversign" then some "sum"
  else if e == "planar.distfrom" then some "min"
  else if e == "planar.distfromidx" then some "minidx"
  else if e == "clone" || e == "round" || e == "project" || e.startsWith "simplify." then some "map"
  else if e == "clip" then some "clip"
  else if e == "smartclip" then some "smartclip"
  else if e == "tilecover" then some "union"
  else if e == "tilecover.mergeup" then some "cover"
  else if e == "bound" then some "bound"
  else if e == "planar.centroid" then some "centroid"
  else if e == "wkb" || e == "ewkb" || e == "wkt" || e == "geojson" then some e
  else none

def undecidedHere : List String :=
  ["equal", "wkb.hex", "wkb.must", "wkb.musthex", "wkb.value", "ewkb.hex", "ewkb.must", "ewkb.musthex",
   "ewkb.value", "ewkb.prefix", "wkt.bytes", "geojson.feature", "geojson.bson", "geojson.featurebson", "mvt",
   "clip.degbox", "smartclip.degbox"]

def hexF (s : String) : Option Float := (hexToNat? s).map fun n => Float.ofBits (UInt64.ofNat n)

/-- The float comparisons below are between two evaluations of the SAME Go expression tree up to the
    order of at most a handful of additions (the generic function sums the members' values; the
    driver re-sums the values the members returned): relative 1e-9 is many orders above the
    reassociation error of ≤ 8 terms of like magnitude and far below any wrong combination. -/
def closeF (a b : Float) : Bool :=
  (a.isNaN && b.isNaN) || a == b || (a - b).abs ≤ 1e-9 * (a.abs + b.abs + 1)

def toF (g : Geom UInt64) : Geom Float := mapGeom Float.ofBits g
def toFV (g : GVal UInt64) : GVal Float := mapGVal Float.ofBits g

def ebF : Bound Float :=
  ⟨⟨Float.ofInt Generated.Params.emptyBoundMinX, Float.ofInt Generated.Params.emptyBoundMinY⟩,
   ⟨Float.ofInt Generated.Params.emptyBoundMaxX, Float.ofInt Generated.Params.emptyBoundMaxY⟩⟩

/-- the harness's clip box `c20Box` -/
def boxF : Bound Float := ⟨⟨0, 0⟩, ⟨4, 4⟩⟩

/-- the value a top-level input behaves as (a typed nil: the empty value of its kind) -/
def asGeom (v : GVal Float) : Option (Geom Float) := normV v

/-- `g.Dimensions()` -/
def dimOf (g : Geom Float) : Int := SmartClip.dimensions g

/-- the bound pre-test of `clip.Geometry`: `b.Intersects(g.Bound())` -/
def preOfB (box : Bound Float) (g : Geom Float) : Bool := box.intersects (Core.bound ebF g)
def preOf (g : Geom Float) : Bool := preOfB boxF g

partial def anyGeom (p : Geom Float → Bool) (g : Geom Float) : Bool :=
  p g || (match g with | .collection gs => gs.any (anyGeom p) | _ => false)

partial def geomHasNaN : Geom Float → Bool
  | .point p => p.x.isNaN || p.y.isNaN
  | .bound a b => a.x.isNaN || a.y.isNaN || b.x.isNaN || b.y.isNaN
  | .multiPoint p | .lineString p | .ring p => p.any fun q => q.x.isNaN || q.y.isNaN
  | .multiLineString l | .polygon l => l.any (·.any fun q => q.x.isNaN || q.y.isNaN)
  | .multiPolygon l => l.any (·.any (·.any fun q => q.x.isNaN || q.y.isNaN))
  | .collection gs => gs.any geomHasNaN

/-- an `orb.Bound` value with Min > Max in a coordinate ("malformed negative state", bound.go) -/
def malformedBound (g : Geom Float) : Bool :=
  anyGeom (fun h => match h with | .bound a b => a.x > b.x || a.y > b.y | _ => false) g

partial def hasVertex : Geom Float → Bool
  | .point _ | .bound _ _ => true
  | .multiPoint p | .lineString p | .ring p => !p.isEmpty
  | .multiLineString l | .polygon l => l.any (!·.isEmpty)
  | .multiPolygon l => l.any (·.any (!·.isEmpty))
  | .collection gs => gs.any hasVertex

/-! ### wrapping rules: generic result from the kind-specific function's raw result -/

/-- `X_1_<rest>` ↦ `single ++ <rest>` (a multi-geometry with one member is returned as that member) -/
def unwrapOne (multi single t : String) : String :=
  let pfx := multi ++ "_1_"
  if t.startsWith pfx then single ++ (t.drop pfx.length).toString else t

def boundTokEmpty (t : String) : Bool :=
  match t.splitOn "_" with
  | ["B", a, b, c, d] =>
    (match hexF a, hexF b, hexF c, hexF d with
     | some x0, some y0, some x1, some y1 => x0 > x1 || y0 > y1
     | _, _, _, _ => false)
  | _ => false

/-- kind token of the input with the typed-nil marker removed (`nMP` ↦ `MP`) -/
def kindTok (t : String) : String :=
  if t == "nil" then "nil" else if t.startsWith "n" then (t.drop 1).toString else t

/-- `clip.Geometry` after the pre-test, by kind (clip/helpers.go:24-102) -/
def clipWrap (k t : String) (argEmpty : Bool := false) : String :=
  match k with
  | "P" => t
  | "MP" => if t == "nMP" then "nil" else unwrapOne "MP" "P_" t
  | "LS" => if t == "nMLS" || t == "MLS_0" then "nil" else unwrapOne "MLS" "LS_" t
  | "MLS" => if t == "nMLS" then "nil" else unwrapOne "MLS" "LS_" t
  | "R" => if t == "nR" then "nil" else t
  | "PG" => if t == "nPG" then "nil" else t
  | "MPG" => if t == "nMPG" then "nil" else unwrapOne "MPG" "PG_" t
  | "C" => if t == "nC" then "nil" else unwrapOne "C" "" t
  -- an EMPTY Bound argument ↦ nil before `clip.Bound` is asked (which would answer the box for it);
  -- otherwise the intersection, nil when it is empty
  | "B" => if argEmpty || boundTokEmpty t then "nil" else t
  | _ => t

def emptyTok (k t : String) : Bool := t == "n" ++ k || t == k ++ "_0"

/-- what the generic function must return, given the kind-specific function's raw result `t`;
    `none`: no typed clause for this entry / kind -/
def relate (e k : String) (pre : Bool) (dim : Int) (t : String) (argEmpty : Bool := false) : Option String :=
  if e == "clip" then some (if !pre then "nil" else clipWrap k t argEmpty)
  else if e == "smartclip" then
    if k == "R" || k == "PG" || k == "MPG" then
      -- smart.go:26-58: the multi-polygon that comes back is nil / its single polygon / itself; no pre-test
      some (if t == "nMPG" then "nil" else unwrapOne "MPG" "PG_" t)
    else if k == "C" && dim == 2 then none   -- member by member: the collection clause
    else some (if !pre then "nil" else clipWrap k t argEmpty)   -- Dimensions() != 2, or a bound: plain clip.Geometry
  else if e.startsWith "simplify." then
    -- simplify/helpers.go:14-61: points / bounds as they are, a nil multi-point ↦ nil, every other
    -- kind ↦ nil when the typed result has no members
    if k == "P" || k == "B" then some t
    else if k == "MP" then some (if t == "nMP" then "nil" else t)
    else some (if emptyTok k t then "nil" else t)
  else some t

/-! ### collections -/

def collTok (ms : List String) : String :=
  ms.foldl (fun s m => s ++ "_" ++ m) ("C_" ++ toString ms.length)

/-- nil results dropped; none left ↦ `none0`, one left ↦ that member itself, several ↦ a collection -/
def dropWrap (none0 : String) (ms : List String) : String :=
  match ms.filter (· != "nil") with
  | [] => none0
  | [m] => m
  | l => collTok l

/-- `clip.Geometry` of a collection (`clip_geometry_collection`): nil when the pre-test on the UNION
    bound fails; otherwise the members clipped one by one, nil results dropped, a single survivor
    returned itself, no survivor ↦ nil interface.
    "Combination of its members" also demands that a failed pre-test loses nothing, i.e. that every
    member then clips to nil.  [Until the orb fix "clip.Geometry returns nil for an empty Bound argument"
    this was false for a malformed `orb.Bound` member (Min > Max: `Bound.Union` ignores it,
    `Bound.Intersects` does not, and `clip.Bound` answered the box for it) and that one situation was
    `skip`; such a member clips to nil now, so the clause has no exception any more.] -/
def clipColl (e generic : String) (pre malformed : Bool) (ms : List String) : String :=
  let comb := dropWrap "nil" ms
  let expected := if pre then comb else "nil"
  if generic != expected then s!"propfail collection-clip {e}"
  else if !pre && comb != "nil" then
    s!"propfail collection-pretest-loses-members {e}" ++ (if malformed then " malformed-bound-member" else "")
  else if comb == "nil" then s!"ok coll-clip-none {e}"
  else if (ms.filter (· != "nil")).length == 1 then s!"ok coll-clip-single {e}"
  else s!"ok coll-clip {e}"

/-- `smartclip.Geometry` of a collection (`smartclip_geometry_collection`): without a
    two-dimensional member the whole collection goes to `clip.Geometry`; otherwise member by member
    (no pre-test), nil INTERFACE results dropped (a typed nil collection is kept), a single survivor
    returned itself, and no survivor ↦ a typed nil `orb.Collection` (not a nil interface). -/
def smartColl (e generic : String) (dim : Int) (pre malformed : Bool) (ms : List String) : String :=
  if dim != 2 then clipColl e generic pre malformed ms
  else
    let expected := dropWrap "nC" ms
    if generic != expected then s!"propfail collection-smartclip {e}"
    else if expected == "nC" then s!"ok coll-smart-none {e}"
    else if (ms.filter (· != "nil")).length == 1 then s!"ok coll-smart-single {e}"
    else s!"ok coll-smart {e}"

def parseSet (s : String) : List String :=
  match s.splitOn ":" with
  | [_, body] => if body.isEmpty then [] else body.splitOn ","
  | _ => []

def le32hex (n : Nat) : String :=
  natToHex (n % 256) 2 ++ natToHex (n / 256 % 256) 2 ++ natToHex (n / 65536 % 256) 2 ++ natToHex (n / 16777216 % 256) 2

/-- a stand-alone EWKB encoding with SRID ↦ the form it has as a collection member (no SRID) -/
def stripSrid (m : String) : String :=
  -- 01 | tt tt tt 20 | ss ss ss ss | body
  if m.length ≥ 18 && ((m.drop 8).take 2).toString == "20" then
    (m.take 8).toString ++ "00" ++ (m.drop 18).toString
  else m

def parse3 (s : String) : Option (Float × Float × Float) :=
  match s.splitOn "_" with
  | [a, b, c] => do pure (← hexF a, ← hexF b, ← hexF c)
  | _ => none

def parse4 (s : String) : Option (Float × Float × Float × Float) :=
  match s.splitOn "_" with
  | [a, b, c, d] => do pure (← hexF a, ← hexF b, ← hexF c, ← hexF d)
  | _ => none

def inf : Float := Float.ofBits 0x7ff0000000000000

/-- `planar.CentroidArea` of a collection (`planar_centroid_collection`): the area is the sum of the
    members' areas; with a non-zero total the centroid is the area-weighted mean of the members'
    centroids (members of lower dimension have area 0 and drop out).  With total area 0 the code
    answers the origin; for a collection of points / lines only that is the documented defect
    C10-collection-lowerdim-centroid, reported here ONLY when the answer is the origin and the
    origin lies outside the coordinate hull of the top-dimensional, non-empty members' centroids
    (any weighted mean with non-negative weights lies inside it). -/
def centroidColl (e generic : String) (members : List (Geom Float)) (ms : List String) : String :=
  match parse3 generic, ms.mapM parse3 with
  | some (gx, gy, ga), some cs =>
    let total := cs.foldl (fun s c => s + c.2.2) 0
    if !closeF ga total then s!"propfail collection-centroid-area {e}" else
    if total != 0 then
      -- members below the top dimension have weight 0 and drop out (the code skips them: over
      -- non-finite centroids 0 · NaN would not be 0)
      let topD := (members.map dimOf).foldl (fun m d => if d > m then d else m) (-1)
      let csTop := ((members.zip cs).filter fun (g, _) => dimOf g == topD).map (·.2)
      let sx := csTop.foldl (fun s c => s + c.1 * c.2.2) 0
      let sy := csTop.foldl (fun s c => s + c.2.1 * c.2.2) 0
      if closeF gx (sx / total) && closeF gy (sy / total) then s!"ok coll-centroid {e}"
      else s!"propfail collection-centroid {e}"
    else
      let dims := members.map dimOf
      let top := dims.foldl (fun m d => if d > m then d else m) (-1)
      if top ≥ 2 || top < 0 then s!"ok coll-centroid-zero-weight {e}" else
      let cands := ((members.zip cs).filter fun (g, _) => dimOf g == top && hasVertex g).map (·.2)
      match cands with
      | [] => s!"ok coll-centroid-zero-weight {e}"
      | c0 :: _ =>
        let lox := cands.foldl (fun m c => if c.1 < m then c.1 else m) c0.1
        let hix := cands.foldl (fun m c => if c.1 > m then c.1 else m) c0.1
        let loy := cands.foldl (fun m c => if c.2.1 < m then c.2.1 else m) c0.2.1
        let hiy := cands.foldl (fun m c => if c.2.1 > m then c.2.1 else m) c0.2.1
        let slack := 1e-9 * (lox.abs + hix.abs + loy.abs + hiy.abs + 1)
        if lox - slack ≤ gx && gx ≤ hix + slack && loy - slack ≤ gy && gy ≤ hiy + slack then
          s!"ok coll-centroid-lowerdim-inhull {e}"
        else if gx == 0 && gy == 0 then s!"propfail collection-centroid-lowerdim {e}"
        else s!"propfail collection-centroid {e}"
  | _, _ => "bad centroid"

/-- `Collection.Bound` (`bound_collection_union`): the least box containing the members' non-empty
    bounds; when no member has a non-empty bound, the first member's bound (the empty sentinel for
    a collection without members). -/
def boundColl (e generic : String) (ms : List String) : String :=
  match parse4 generic, ms.mapM parse4 with
  | some (a, b, c, d), some bs =>
    let isE (q : Float × Float × Float × Float) : Bool := q.1 > q.2.2.1 || q.2.1 > q.2.2.2
    let nanQ (q : Float × Float × Float × Float) : Bool := q.1.isNaN || q.2.1.isNaN || q.2.2.1.isNaN || q.2.2.2.isNaN
    -- "the least box containing" has no meaning over NaN (no order): not judged
    if nanQ (a, b, c, d) || bs.any nanQ then s!"ok coll-bound-nan {e}" else
    (match bs.filter (!isE ·) with
     | [] =>
       (match bs with
        | [] => if isE (a, b, c, d) then s!"ok coll-bound-empty {e}" else s!"propfail collection-bound {e}"
        | f :: _ => if a == f.1 && b == f.2.1 && c == f.2.2.1 && d == f.2.2.2 then s!"ok coll-bound-empty {e}"
                    else s!"propfail collection-bound {e}")
     | f :: rest =>
       let lo0 := rest.foldl (fun m q => if q.1 < m then q.1 else m) f.1
       let lo1 := rest.foldl (fun m q => if q.2.1 < m then q.2.1 else m) f.2.1
       let hi0 := rest.foldl (fun m q => if q.2.2.1 > m then q.2.2.1 else m) f.2.2.1
       let hi1 := rest.foldl (fun m q => if q.2.2.2 > m then q.2.2.2 else m) f.2.2.2
       if a == lo0 && b == lo1 && c == hi0 && d == hi1 then s!"ok coll-bound {e}" else s!"propfail collection-bound {e}")
  | _, _ => "bad bound"

/-- does the geometry-valued outcome hold a nil INTERFACE as a member (at any depth)?  Such a value
    is outside the set of values every generic entry point accepts (`Collection.Dimensions`,
    `planar.Area`, … dereference it; WKT prints `GEOMETRYCOLLECTION(,…)`). -/
def hasNilMember (generic : String) : Bool :=
  generic != "nil" && (generic.splitOn "_").contains "nil"

/-- mvt: the value handed to `encodeGeometry` (the feature's geometry, or the FIRST member of a
    collection) has a line / ring without vertices — `g[0]`, `ls[0]`, `r[0]` in mvt/geometry.go -/
def mvtEmptyLine (v : GVal Float) : Bool :=
  let one (g : Geom Float) : Bool :=
    match g with
    | .lineString p | .ring p => p.isEmpty
    | .multiLineString l | .polygon l => l.any (·.isEmpty)
    | .multiPolygon l => l.any (·.any (·.isEmpty))
    | _ => false
  match asGeom v with
  | some (.collection (g :: _)) => one g
  | some g => one g
  | none => false


/-! ### counterparts on a neighbouring kind (`alts`)

    Entry points without exported kind-specific functions (bound, round, planar area / centroid /
    length / distance-from, geo area / length) are tied to their own value on the value of a
    NEIGHBOURING KIND that stands for the same thing: a bound as its ring (`ring`) and its polygon
    (`poly`); a ring as its one-ring polygon (`poly`) and its vertex list as a line (`line`) and a
    multi-point (`mpt`); a line as the only line of a multi-line (`mls`), as a ring (`ring`), as a
    multi-point (`mpt`); a polygon as the only polygon of a multi-polygon (`mpoly`); a point as the
    only point of a multi-point (`mpt`).  The harness reports the entry point's outcome on each of
    them; the relation that must hold is decided HERE, by entry, kind and relation, and is the one
    the code has (internal/length/length.go, planar/area.go, planar/distance_from.go, geo/area.go,
    bound.go, round.go: `case orb.Bound: return F(g.ToRing())`, a ring measured as the line of its
    vertices, a polygon's area the absolute value of its ring's, a single member's value plus 0). -/
inductive AltRule where
  /-- the same outcome, bit for bit (NaN = NaN) -/
  | same
  /-- the first `_`-field (the distance of distance-from-with-index; the index counts something else) -/
  | first
  /-- a point's distance may be NaN, a multi-point's minimum skips NaN and stays +Inf; otherwise the same (first field) -/
  | pointMP
  /-- the polygon's area is the absolute value of the ring's -/
  | absArea
  /-- centroid_area of a ring vs its polygon: area absolute; the same centroid unless the area is 0 -/
  | centroidRP
  /-- centroid_area of a polygon vs the multi-polygon of it: the same area; centroid·a/a unless the area is 0 -/
  | centroidPM
  /-- geometry-valued: the outcome on the neighbouring kind is the outcome re-wrapped as that kind -/
  | rewrap
  /-- `Bound()` of a bound's ring / polygon is the bound itself when it is well formed (Min ≤ Max) -/
  | boundWF

def lengthEntries : List String := ["planar.length", "geo.length", "geo.lengthhav", "geo.lengthhaversign"]

/-- the relation entry `e` must satisfy between its outcome on a value of kind `k` and on that
    value's neighbour `rel`; `none`: the code relates them in no simple way (a line has no area, a
    multi-point no length, a projected bound is the bound of two projected corners …) -/
def altRule (e k rel : String) : Option AltRule :=
  let std : Bool := (k == "B" && (rel == "ring" || rel == "poly")) || (k == "R" && (rel == "poly" || rel == "line"))
    || (k == "LS" && (rel == "mls" || rel == "ring")) || (k == "PG" && rel == "mpoly") || (k == "P" && rel == "mpt")
  if lengthEntries.contains e then (if std then some .same else none)
  else if e == "geo.area" then
    (if std && !(k == "R" && rel == "line") && !(k == "LS" && rel == "ring") then some .same else none)
  else if e == "planar.area" then
    (if (k == "B" || k == "R") && rel == "poly" then some .absArea
     else if std && !(k == "R" && rel == "line") && !(k == "LS" && rel == "ring") then some .same else none)
  else if e == "planar.centroid" then
    (if (k == "B" || k == "R") && rel == "poly" then some .centroidRP
     else if k == "PG" && rel == "mpoly" then some .centroidPM
     else if (k == "B" && rel == "ring") || (k == "LS" && rel == "mls") || (k == "P" && rel == "mpt") then some .same else none)
  else if e == "planar.distfrom" || e == "planar.distfromidx" then
    (if k == "P" && rel == "mpt" then some .pointMP
     else if (k == "LS" && rel == "mls") || (k == "PG" && rel == "mpoly") then some .first
     else if std then some .same else none)
  else if e == "bound" then
    (if k == "B" then some .boundWF else some .same)
  else if e == "round" || e == "clone" then some .rewrap
  else if e == "project" then (if k == "B" then none else some .rewrap)
  else none

def sameField (a b : String) : Bool :=
  a == b || (match hexF a, hexF b with | some x, some y => a.length == 16 && b.length == 16 && x.isNaN && y.isNaN | _, _ => false)

/-- the same `_`-separated fields, bit for bit, any NaN equal to any NaN -/
def sameTok (a b : String) : Bool :=
  let fa := a.splitOn "_"
  let fb := b.splitOn "_"
  fa.length == fb.length && (fa.zip fb).all fun (x, y) => sameField x y

def sameF (a b : Float) : Bool := a.toBits == b.toBits || (a.isNaN && b.isNaN)

/-- the outcome token of a geometry-valued entry point re-wrapped as the neighbouring kind -/
def rewrapTok (k rel t : String) : Option String :=
  let j (l : List String) : String := "_".intercalate l
  match k, rel, t.splitOn "_" with
  | "B", "ring", ["B", x0, y0, x1, y1] => some (j ["R", "5", x0, y0, x1, y0, x1, y1, x0, y1, x0, y0])
  | "B", "poly", ["B", x0, y0, x1, y1] => some (j ["PG", "1", "5", x0, y0, x1, y0, x1, y1, x0, y1, x0, y0])
  | "R", "poly", "R" :: rest => some (j ("PG" :: "1" :: rest))
  | "R", "line", "R" :: rest => some (j ("LS" :: rest))
  | "R", "mpt", "R" :: rest => some (j ("MP" :: rest))
  | "LS", "mls", "LS" :: rest => some (j ("MLS" :: "1" :: rest))
  | "LS", "ring", "LS" :: rest => some (j ("R" :: rest))
  | "LS", "mpt", "LS" :: rest => some (j ("MP" :: rest))
  | "PG", "mpoly", "PG" :: rest => some (j ("MPG" :: "1" :: rest))
  | "P", "mpt", "P" :: rest => some (j ("MP" :: "1" :: rest))
  | _, _, _ => none

def finiteModest (x : Float) : Bool := x.isFinite && x.abs < 1e150

/-- does the outcome `alt` on the neighbour `rel` stand in the demanded relation to `generic`? -/
def altHolds (r : AltRule) (k rel generic alt : String) (wellFormed : Bool) : Bool :=
  match r with
  | .same => sameTok generic alt
  | .first => sameField ((generic.splitOn "_").headD "") ((alt.splitOn "_").headD "?")
  | .pointMP =>
    (match hexF ((generic.splitOn "_").headD ""), hexF ((alt.splitOn "_").headD "") with
     | some g, some a => if g.isNaN then a == inf else sameF g a
     | _, _ => false)
  | .absArea =>
    (match hexF generic, hexF alt with
     | some g, some a => sameF g.abs a
     | _, _ => false)
  | .centroidRP =>
    (match parse3 generic, parse3 alt with
     | some (gx, gy, ga), some (ax, ay, aa) => sameF ga.abs aa && (ga == 0 || (sameF gx ax && sameF gy ay))
     | _, _ => false)
  | .centroidPM =>
    (match parse3 generic, parse3 alt with
     | some (gx, gy, ga), some (ax, ay, aa) =>
       sameF ga aa && (ga == 0 || !(finiteModest gx && finiteModest gy && finiteModest ga) || (closeF gx ax && closeF gy ay))
     | _, _ => false)
  | .rewrap =>
    (match rewrapTok k rel generic with
     | some w => w == alt
     | none => false)
  | .boundWF => !wellFormed || sameTok generic alt

/-- first failing counterpart of the list `rel outcome rel outcome …`; `none`: all hold -/
def altCheck (e k generic : String) (wellFormed : Bool) : List String → Option String
  | rel :: alt :: rest =>
    if alt == "panic" then some ("panic-counterpart " ++ k ++ "->" ++ rel) else
    match altRule e k rel with
    | some r => if altHolds r k rel generic alt wellFormed then altCheck e k generic wellFormed rest
                else some ("counterpart-disagrees " ++ k ++ "->" ++ rel)
    | none => altCheck e k generic wellFormed rest
  | _ => none

def altCount (e k : String) : List String → Nat
  | rel :: _ :: rest => (if (altRule e k rel).isSome then 1 else 0) + altCount e k rest
  | _ => 0

/-! ### parameters (op `callp`)

    `callp <entry> <params> <gval>`: the entry point was called with the parameter values written on
    the case line (harness/c20p.go).  The clauses are those of `call`; what the DRIVER needs of the
    parameters is read here from the line: the clip box (bound pre-test), byte order and SRID
    (header of an encoded collection, member form), the zoom (area covered after MergeUp).  Every
    other parameter (orientation, threshold, keep count, distance function, rounding factor, point
    function, query point) enters through the outcomes only: the generic outcome, the kind-specific
    outcome and the members' outcomes were all produced with the value on the line, so the clauses
    demand that the generic function hands exactly that value on. -/
structure Params where
  box : Bound Float := boxF
  /-- big-endian WKB / EWKB -/
  be : Bool := false
  srid : Nat := 4326
  /-- zoom of `tilecover.mergeup` -/
  zoom : Nat := 6
  /-- suffix of the entry name in verdicts and tags (`@cw`, `@p` …; empty for `call`) -/
  sfx : String := ""

def parseBox (fs : List String) : Option (Bound Float) :=
  match fs.mapM hexF with
  | some [a, b, c, d] => some ⟨⟨a, b⟩, ⟨c, d⟩⟩
  | _ => none

def defaultBoxTok : List String := ["0000000000000000", "0000000000000000", "4010000000000000", "4010000000000000"]

/-- the parameters of entry `e` from its token; `none`: not a parameter token of that entry -/
def parseParams (e tok : String) : Option Params :=
  let fs := tok.splitOn "_"
  let bx (fs : List String) : String := if fs == defaultBoxTok then "" else "+box"
  if e == "smartclip" then
    match fs with
    | o :: rest =>
      (match o.toInt?, parseBox rest with
       | some oi, some b =>
         let on := if oi == 1 then "ccw" else if oi == -1 then "cw" else "o" ++ o
         some { box := b, sfx := "@" ++ on ++ bx rest }
       | _, _ => none)
    | _ => none
  else if e == "clip" then (parseBox fs).map fun b => { box := b, sfx := "@p" ++ bx fs }
  else if e == "wkb" || e == "wkb.hex" || e == "wkb.must" || e == "wkb.musthex" then
    (if tok == "be" then some { be := true, sfx := "@be" } else if tok == "le" then some { sfx := "@le" } else none)
  else if e == "ewkb" || e == "ewkb.hex" || e == "ewkb.must" || e == "ewkb.musthex" then
    match fs with
    | [s, o] =>
      (match s.toNat? with
       | some n => if o == "be" then some { be := true, srid := n, sfx := "@be" ++ (if n == 0 then "0" else "") }
                   else if o == "le" then some { srid := n, sfx := "@le" ++ (if n == 0 then "0" else "") } else none
       | none => none)
    | _ => none
  else if e == "ewkb.value" then tok.toNat?.map fun n => { srid := n, sfx := "@p" }
  else if e == "tilecover.mergeup" then
    match fs with
    | [z, t] => (match z.toNat?, t.toNat? with
                 | some zn, some tn => if tn ≤ zn && zn ≤ 12 then some { zoom := zn, sfx := "@p" } else none
                 | _, _ => none)
    | _ => none
  else if e == "tilecover" then tok.toNat?.map fun z => { zoom := z, sfx := "@p" }
  else if e == "simplify.vis" then
    match fs with
    | "t" :: _ => some { sfx := "@thr" }
    | "k" :: _ => some { sfx := "@keep" }
    | "b" :: _ => some { sfx := "@both" }
    | _ => none
  else if e == "simplify.radial" then
    match fs with
    | [d, _] => if ["planar", "sq", "geo", "hav"].contains d then some { sfx := "@" ++ d } else none
    | _ => none
  else if e == "simplify.dp" || e == "round" || e == "project" || e == "planar.distfrom" || e == "planar.distfromidx" then
    some { sfx := "@p" }
  else none

def be32hex (n : Nat) : String :=
  natToHex (n / 16777216 % 256) 2 ++ natToHex (n / 65536 % 256) 2 ++ natToHex (n / 256 % 256) 2 ++ natToHex (n % 256) 2

def u32hex (be : Bool) (n : Nat) : String := if be then be32hex n else le32hex n

/-- header of an encoded collection of `n` members: byte order, type 7 (with the SRID flag and the
    SRID when there is one), member count -/
def collHeader (be : Bool) (srid : Option Nat) (n : Nat) : String :=
  let ty := match srid with | some _ => 7 + 0x20000000 | none => 7
  (if be then "00" else "01") ++ u32hex be ty ++ (match srid with | some s => u32hex be s | none => "") ++ u32hex be n

/-- a stand-alone EWKB encoding with SRID ↦ the form it has as a collection member (no SRID), either byte order -/
def stripSridO (be : Bool) (m : String) : String :=
  if !be then stripSrid m
  else if m.length ≥ 18 && ((m.drop 2).take 2).toString == "20" then
    "0000" ++ ((m.drop 4).take 6).toString ++ (m.drop 18).toString
  else m

/-- the tiles of `s` expanded to zoom `Z` (`none`: a tile deeper than `Z`, or unparsable) -/
def expandTiles (Z : Nat) (s : String) : Option (List String) :=
  (parseSet s).foldlM (fun acc t =>
    match (t.splitOn "/").mapM String.toNat? with
    | some [z, x, y] =>
      if z > Z then none else
      let n := 2 ^ (Z - z)
      some (acc ++ (List.range n).flatMap fun i => (List.range n).map fun j => s!"{Z}/{x * n + i}/{y * n + j}")
    | _ => none) []

def geomEntry (e : String) : Bool :=
  e == "clone" || e == "round" || e == "project" || e.startsWith "simplify." || e == "clip" || e == "smartclip"

def handleCall (inp out : Toks) (P : Params := {}) : String :=
  match inp with
  | [] => "bad input"
  | e :: gtoks =>
    match gval gtoks with
    | none => "bad geometry"
    | some (vU, _) =>
    let v := toFV vU
    let k := kindTok (gtoks.headD "nil")
    let g? := asGeom v
    let pre := (g?.map (preOfB P.box)).getD false
    -- the entry's name in verdicts: with the class of its parameters when they are not the defaults
    let en := e ++ P.sfx
    let dim := (g?.map dimOf).getD (-1)
    let malformed := (g?.map malformedBound).getD false
    match splitBar out with
    | [[generic], [typed], [unch], kparts, alts] =>
      if generic == "panic" then
        (if e == "mvt" && mvtEmptyLine v then s!"propfail panic-empty-line {en}" else s!"propfail panic {en}") else
      if typed == "panic" then s!"propfail panic-typed {en}" else
      -- The bound pre-test of clip / smart clip is computed here from the input.  Over NaN coordinates
      -- `Bound.Extend` / `Union` (math.Min / math.Max, order of the vertices) is not what the comparison
      -- twin computes, so for an input holding a NaN the pre-test is taken as UNKNOWN: the outcome must
      -- be right for one of its two values.
      -- A NaN has no order: what the box test says about a member alone and about the union bound of
      -- the collection (which a NaN member may or may not have poisoned, depending on its position)
      -- need not agree; for such inputs the collection clause of clip / smart clip is judged only as far
      -- as one of the two pre-test values explains the outcome (tag coll-clip-nan-unordered otherwise).
      let preUnknown : Bool := (e == "clip" || e == "smartclip") && (g?.map geomHasNaN).getD false
      let measure : Bool := e.startsWith "planar." || e.startsWith "geo."
      let typedOkWith (pr : Bool) : Bool :=
        if typed == "-" then true else
        match relate e k pr dim typed (k == "B" && malformed) with
        | some want => generic == want || (measure && sameTok generic want)   -- a NaN is any NaN
        | none => true
      let typedOk : Bool := typedOkWith pre || (preUnknown && typedOkWith (!pre))
      if !typedOk then s!"propfail typed-disagrees {en}" else
      -- the value on the neighbouring kinds (a bound as its ring / polygon, a ring as its polygon …)
      let wellFormed : Bool := match g? with | some (.bound a b) => a.x ≤ b.x && a.y ≤ b.y | _ => true
      let altToks : List String := if alts == ["-"] then [] else alts
      if altToks.length % 2 != 0 then "bad alts" else
      match altCheck e k generic wellFormed altToks with
      | some why => s!"propfail {why} {en}"
      | none =>
      let nAlt := altCount e k altToks
      -- read-only: the harness compares the serialised argument AND every slice header and every slot up
      -- to the CAPACITY of every slice in it (sentinel slots behind len) before / after the call
      if readOnly.contains e && unch != "1" then s!"propfail argument-modified {en}" else
      let verdict : String :=
        match kparts with
        | ["-1"] => (if k == "nil" || (gtoks.headD "").startsWith "n" then "ok nilval " ++ en
                     else if nAlt > 0 then "ok alt " ++ en else "ok " ++ en)
        | kt :: ms =>
          if kt.toNat? != some ms.length then "bad member-count" else
          if ms.any (· == "panic") then
            (if e == "mvt" then s!"ok coll-member-panics-alone {en}" else s!"propfail panic-member {en}") else
          (match combineOf e with
           | some "sum" =>
             (match hexF generic, ms.mapM hexF with
              | some g, some fs => if closeF g (fs.foldl (· + ·) 0) then "ok coll-sum " ++ en else s!"propfail collection-sum {en}"
              | _, _ => "bad sum")
           | some "min" =>
             (match hexF generic, ms.mapM hexF with
              | some g, some fs =>
                let m := fs.foldl (fun a b => if b < a then b else a) inf
                if g == m then "ok coll-min " ++ en else s!"propfail collection-min {en}"
              | _, _ => "bad min")
           | some "minidx" =>
             -- the loop of planar/distance_from.go:87-96: strictly closer members replace the answer
             (match generic.splitOn "_", ms.mapM (fun m => (m.splitOn "_").head?.bind hexF) with
              | [gd, gi], some fs =>
                let (m, i, _) := fs.foldl (fun (acc : Float × Int × Int) d =>
                  if d < acc.1 then (d, acc.2.2, acc.2.2 + 1) else (acc.1, acc.2.1, acc.2.2 + 1)) (inf, -1, 0)
                (match hexF gd, gi.toInt? with
                 | some g, some gi => if g == m && gi == i then "ok coll-minidx " ++ en else s!"propfail collection-minidx {en}"
                 | _, _ => "bad minidx")
              | _, _ => "bad minidx")
           | some "map" =>
             if e.startsWith "simplify." then
               -- a member that simplifies to nothing (nil) leaves no geometry behind: the combination
               -- of the members is the collection of those that are left, in order, and a nil
               -- interface when none is left (`simplify_collection`; simplify/helpers.go `collection`
               -- drops nil results like `polygon` / `multiPolygon` drop theirs).  Demanded exactly: a
               -- nil entry kept in the result is a `collection-map` failure like any other deviation.
               let surv := ms.filter (· != "nil")
               let want := if surv.isEmpty then "nil" else collTok surv
               if generic == want then (if surv.length == ms.length then "ok coll-map " ++ en else "ok coll-map-dropped " ++ en)
               else s!"propfail collection-map {en}"
             else if generic == collTok ms then "ok coll-map " ++ en
             else s!"propfail collection-map {en}"
           | some "clip" =>
             let v1 := clipColl en generic pre malformed ms
             if preUnknown && !v1.startsWith "ok" then
               (let v2 := clipColl en generic (!pre) malformed ms
                if v2.startsWith "ok" then v2 else s!"ok coll-clip-nan-unordered {en}") else v1
           | some "smartclip" =>
             let v1 := smartColl en generic dim pre malformed ms
             if preUnknown && !v1.startsWith "ok" then
               (let v2 := smartColl en generic dim (!pre) malformed ms
                if v2.startsWith "ok" then v2 else s!"ok coll-clip-nan-unordered {en}") else v1
           | some "union" =>
             -- tilecover.Collection returns the first member's error
             if ms.any (· == "err") then (if generic == "err" then "ok coll-union-err " ++ en else s!"propfail collection-union {en}") else
             let u := (ms.flatMap parseSet).eraseDups.mergeSort (· ≤ ·)
             if (parseSet generic).mergeSort (· ≤ ·) == u then "ok coll-union " ++ en else s!"propfail collection-union {en}"
           | some "cover" =>
             -- tilecover.MergeUp of tilecover.Geometry: the area covered by the result (its tiles
             -- expanded to the zoom of the cover) is the union of the areas the members' results cover
             if ms.any (· == "err") then (if generic == "err" then "ok coll-cover-err " ++ en else s!"propfail collection-cover {en}") else
             (match expandTiles P.zoom generic, ms.mapM (expandTiles P.zoom) with
              | some gt, some mts =>
                if gt.mergeSort (· ≤ ·) == (mts.flatten.eraseDups).mergeSort (· ≤ ·) then
                  (if (parseSet generic).any (fun t => !t.startsWith (toString P.zoom ++ "/")) then "ok coll-cover-merged " ++ en else "ok coll-cover " ++ en)
                else s!"propfail collection-cover {en}"
              | _, _ => s!"propfail collection-cover-zoom {en}")
           | some "bound" => boundColl en generic ms
           | some "centroid" =>
             (match g? with
              | some (.collection gs) => centroidColl en generic gs ms
              | _ => "bad centroid input")
           | some enc =>
             if (enc == "wkb" || enc == "ewkb" || enc == "wkt" || enc == "geojson") && ms.any (· == "err") then
               -- a member that cannot be encoded (JSON has no NaN / ±Inf): the collection cannot either
               (if generic == "err" then "ok coll-concat-err " ++ en else s!"propfail collection-concat {en}") else
             (match some enc with
           | some "wkb" =>
             if generic == collHeader P.be none ms.length ++ String.join ms then "ok coll-concat " ++ en
             else s!"propfail collection-concat {en}"
           | some "ewkb" =>
             -- SRID 0: no SRID is written and the encoding is the plain WKB one (ewkb.Marshal's documentation)
             if generic == collHeader P.be (if P.srid == 0 then none else some P.srid) ms.length
                 ++ String.join (ms.map (stripSridO P.be)) then "ok coll-concat " ++ en
             else s!"propfail collection-concat {en}"
           | some "wkt" =>
             let want := if ms.isEmpty then "GEOMETRYCOLLECTION_EMPTY" else "GEOMETRYCOLLECTION(" ++ ",".intercalate ms ++ ")"
             if generic == want then "ok coll-concat " ++ en else s!"propfail collection-concat {en}"
           | some "geojson" =>
             -- a collection without members is written `null` (C02-empty-collection-…, C02-nested-empty-collection)
             let want := if ms.isEmpty then "null"
               else "{\"type\":\"GeometryCollection\",\"geometries\":[" ++ ",".intercalate ms ++ "]}"
             if generic == want then "ok coll-concat " ++ en else s!"propfail collection-concat {en}"
           | some c => "bad combine " ++ c
           | none => "bad combine")
           | none => if undecidedHere.contains e then "ok coll-elsewhere " ++ en else "bad entry " ++ en)
        | _ => "bad members"
      -- a result holding a nil interface member: reported only when every other clause holds, so the
      -- label never absorbs a different failure
      if verdict.startsWith "ok" && geomEntry e && hasNilMember generic && !(gtoks.contains "nil") then
        s!"propfail result-nil-member {en}"
      else verdict
    | _ =>
      -- watchdog outcomes (harness/c20w.go): the worker process did not answer within its CPU-time
      -- limit (`hang`) or died of a fatal error — out of memory, stack overflow — (`crash`), twice;
      -- `-aux`: not the generic call itself but the kind-specific function or a member call
      if out == ["hang"] then s!"propfail hang {en}"
      else if out == ["crash"] then s!"propfail crash {en}"
      else if out == ["hang-aux"] then s!"propfail hang-aux {en}"
      else if out == ["crash-aux"] then s!"propfail crash-aux {en}"
      else if out == ["panic"] then "propfail panic harness" else "bad output"

def kindOfV : GVal Float → Option Kind
  | .nilIface => none
  | .nilSlice k => some k
  | .val g => some g.kind

/-- `eq <g1> <g2> => Equal(g1,g2) Equal(g2,g1) typed unchanged` -/
def handleEq (inp out : Toks) : String :=
  match gval inp with
  | none => "bad input"
  | some (aU, rest) =>
    match gval rest with
    | none => "bad input2"
    | some (bU, _) =>
      let a := toFV aU
      let b := toFV bU
      match out with
      | [g1, g2, ty, unch] =>
        if g1 == "panic" || g2 == "panic" then "propfail panic equal" else
        if ty == "panic" then "propfail panic-typed equal" else
        let ka := kindOfV a
        let kb := kindOfV b
        let model := if equalV a b then "1" else "0"
        let fin (s : String) : String := if s.startsWith "propfail" || model == g1 then s else "diff " ++ model
        fin <|
        if g1 != g2 then "propfail equal-asymmetric" else
        if ka != kb && g1 != "0" then "propfail equal-cross-kind" else
        if ka == none && kb == none && g1 != "1" then "propfail equal-nil-nil" else
        if ka == kb && ka != none && ty == "-" then "bad typed-arm-missing" else
        if ty != "-" && ty != g1 then "propfail typed-disagrees equal" else
        if unch != "1" then "propfail argument-modified equal" else
        if ka == none || kb == none then s!"ok eq-nil {g1}"
        else if ka != kb then "ok eq-cross-kind 0"
        else s!"ok eq-same-kind {g1}"
      | _ =>
        if out == ["hang"] || out == ["hang-aux"] then "propfail hang equal"
        else if out == ["crash"] || out == ["crash-aux"] then "propfail crash equal"
        else if out == ["panic"] then "propfail panic harness" else "bad output"

def handle (ts : Toks) : String :=
  match ts with
  | op :: rest =>
    let (inp, out) := splitArrow rest
    match op with
    | "call" => handleCall inp out
    | "callp" =>
      (match inp with
       | e :: tok :: gtoks =>
         (match parseParams e tok with
          | some P => handleCall (e :: gtoks) out P
          | none => "bad params " ++ e)
       | _ => "bad input")
    | "eq" => handleEq inp out
    | _ => "bad op " ++ op
  | [] => "bad empty"

end Driver.C20
