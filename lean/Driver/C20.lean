import Orb.Proto

/-! Driver for C20 (generic entry points: total, agree with typed functions, collections combine,
    read-only arguments unchanged).  The judgement is the executable property on the
    implementation's outcomes; the per-package models are exercised by their own properties. -/
namespace Driver.C20
open Orb Orb.Proto

def splitBar (ts : Toks) : List Toks :=
  let rec go (ts : Toks) (cur : Toks) (acc : List Toks) : List Toks :=
    match ts with
    | [] => (cur.reverse :: acc).reverse
    | "|" :: rest => go rest [] (cur.reverse :: acc)
    | t :: rest => go rest (t :: cur) acc
  go ts [] []

def readOnly : List String :=
  ["clone", "equal", "bound", "planar.area", "planar.centroid", "planar.length", "planar.distfrom",
   "geo.area", "geo.length", "geo.lengthhav", "tilecover", "wkb", "ewkb", "wkt", "geojson"]

def combineOf (e : String) : String :=
  if e == "planar.length" || e == "geo.area" || e == "geo.length" || e == "geo.lengthhav" then "sum"
  else if e == "planar.distfrom" then "min"
  else if e == "clone" || e == "round" || e == "project" || e.startsWith "simplify." then "map"
  else if e == "clip" || e == "smartclip" then "mapdrop"
  else if e == "tilecover" then "union"
  else ""

def hexF (s : String) : Option Float := (hexToNat? s).map fun n => Float.ofBits (UInt64.ofNat n)

def closeF (a b : Float) : Bool :=
  (a.isNaN && b.isNaN) || a == b || (a - b).abs ≤ 1e-9 * (a.abs + b.abs + 1)

/-- the generic outcome of a collection, rebuilt from the member outcomes -/
def collOutcome (ms : List String) (dropNil : Bool) : String :=
  let ms := if dropNil then ms.filter (· != "nil") else ms
  if dropNil && ms.isEmpty then "nil"
  else if dropNil && ms.length == 1 then ms.head!
  else ms.foldl (fun s m => s ++ "_" ++ m) ("C_" ++ toString ms.length)

def parseSet (s : String) : List String :=
  match s.splitOn ":" with
  | [_, body] => if body.isEmpty then [] else body.splitOn ","
  | _ => []

def handleCall (inp out : Toks) : String :=
  match inp with
  | [] => "bad input"
  | e :: gtoks =>
    match splitBar out with
    | [[generic], [typed], [unch], kparts] =>
      if generic == "panic" then s!"propfail panic {e}" else
      if typed == "panic" then s!"propfail panic-typed {e}" else
      -- generic entry points that drop empty results return a nil interface where the typed
      -- function returns an empty / typed-nil slice of its kind: the same (empty) value
      let emptyish (t : String) : Bool :=
        ["nil", "nMP", "nLS", "nMLS", "nR", "nPG", "nMPG", "nC", "MP_0", "LS_0", "MLS_0", "R_0", "PG_0", "MPG_0", "C_0"].contains t
      let dropsEmpty := e.startsWith "simplify." || e == "clip" || e == "smartclip"
      if typed != "-" && typed != generic && !(dropsEmpty && generic == "nil" && emptyish typed) then s!"propfail typed-disagrees {e}" else
      if readOnly.contains e && unch != "1" then s!"propfail argument-modified {e}" else
      (match kparts with
       | ["-1"] => (if gtoks.head? == some "nil" || (gtoks.head?.map (·.startsWith "n")).getD false then "ok nilval " ++ e else "ok " ++ e)
       | _ :: ms =>
         if ms.any (· == "panic") then s!"propfail panic-member {e}" else
         (match combineOf e with
          | "sum" =>
            (match hexF generic, ms.mapM hexF with
             | some g, some fs => if closeF g (fs.foldl (· + ·) 0) then "ok coll-sum " ++ e else s!"propfail collection-sum {e}"
             | _, _ => "bad sum")
          | "min" =>
            (match hexF generic, ms.mapM hexF with
             | some g, some fs =>
               let m := fs.foldl (fun a b => if b < a then b else a) (Float.ofBits 0x7ff0000000000000)
               if closeF g m then "ok coll-min " ++ e else s!"propfail collection-min {e}"
             | _, _ => "bad min")
          | "map" =>
            if generic == collOutcome ms false then "ok coll-map " ++ e
            else if (e.startsWith "simplify.") && ms.isEmpty && generic == "nil" then "ok coll-map-empty " ++ e
            else s!"propfail collection-map {e}"
          | "mapdrop" => if generic == collOutcome ms true then "ok coll-mapdrop " ++ e else s!"skip collection-mapdrop {e}"
          | "union" =>
            -- tilecover.Collection returns the first member's error
            if ms.any (· == "err") then (if generic == "err" then "ok coll-union-err " ++ e else s!"propfail collection-union {e}") else
            let u := (ms.flatMap parseSet).eraseDups.mergeSort (· ≤ ·)
            if (parseSet generic).mergeSort (· ≤ ·) == u then "ok coll-union " ++ e else s!"propfail collection-union {e}"
          | _ => "ok coll " ++ e)
       | _ => "bad members")
    | _ => if out == ["panic"] then "propfail panic harness" else "bad output"

def handle (ts : Toks) : String :=
  match ts with
  | op :: rest =>
    let (inp, out) := splitArrow rest
    match op with
    | "call" => handleCall inp out
    | _ => "bad op " ++ op
  | [] => "bad empty"

end Driver.C20
