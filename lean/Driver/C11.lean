import Orb.Proto
import Orb.Quadtree

/-! Driver for C11 (quadtree vs. plain list) — also used by C19 (sequential oracle).

  For every history the driver
  (1) runs the Float twin of the model (`matchingFrom` / `removeFrom` / `kNearestFrom` started from
      `some math.MaxFloat64`, exactly as the Go code does) and compares every answer and the final node
      tree with the implementation, and
  (2) judges the implementation's answers against the plain-list specification.  Distances are
      compared EXACTLY: every finite float64 is an integer multiple of 2^-1074, so a squared
      distance is an integer multiple of 2^-2148 (`zOf`, `d2Z`); no float rounding enters the judge.
      The same specification evaluated with float64 distances is used only to classify a failure
      of the exact judge as rounding-sensitive (see `handleHist`).
  (3) demands that the ARGUMENTS of the caller other than the result buffer come back unchanged: the
      harness keeps one limits array per history, passes sub-slices of it with `lims...` and reports
      behind a k-nearest answer `L! <index> <stored bits> <bits now>` when the array does not read
      what was stored (clause `argument-mutated limit`; the model's side is
      `Orb.Quadtree.kNearestCall_limits_unchanged`: the limit is a value).
  Op `histP <mode> …` is `hist` over another kind of orb.Pointer (a family of 11 implementations in
  harness/c11.go: value structs, uncomparable ones, wrappers, slice / map / func kinds, mixed): the
  model identifies a pointer by its id, so nothing here depends on the mode but the verdict tag.
-/
namespace Driver.C11
open Orb Orb.Proto Orb.Core Orb.Quadtree

abbrev F := Float

inductive Op where
  | add (id : Nat) (p : Pt F)
  | remId (id : Nat) (p : Pt F)          -- Remove(p, eq = same id)
  | remPt (p : Pt F)                      -- Remove(p, nil)
  | find (p : Pt F)
  | matching (p : Pt F) (m r : Nat)       -- filter: id % m == r
  | knear (p : Pt F) (k : Int) (m r : Nat) (maxd : Option F)   -- m = 1, r = 0 : no filter (the wrapper KNearest)
  | inb (b : Bound F) (m r : Nat)         -- m = 1 : the wrapper InBound
  | addNil                                -- Add(nil)
  | remMod (p : Pt F) (m r : Nat)         -- Remove(p, eq = id % m == r)
deriving Inhabited

def fP : P F := fun ts => (bits ts).map fun (b, ts) => (Float.ofBits b, ts)
def ptF : P (Pt F) := fun ts => do
  let (x, ts) ← fP ts
  let (y, ts) ← fP ts
  pure (⟨x, y⟩, ts)

def optF : P (Option F) := fun ts =>
  match ts with
  | "-" :: ts => some (none, ts)
  | ts => (fP ts).map fun (f, ts) => (some f, ts)

def opP : P Op := fun ts =>
  match ts with
  | "a" :: ts => do let (id, ts) ← nat ts; let (p, ts) ← ptF ts; pure (.add id p, ts)
  | "an" :: ts => pure (.addNil, ts)
  | "ri" :: ts => do let (id, ts) ← nat ts; let (p, ts) ← ptF ts; pure (.remId id p, ts)
  | "rp" :: ts => do let (p, ts) ← ptF ts; pure (.remPt p, ts)
  -- Remove(the pointer object with this id itself, nil): the default match looks at the POINT only, so
  -- this is removal by point from that pointer's point (the id names the Go object, nothing else)
  | "rs" :: ts => do let (_, ts) ← nat ts; let (p, ts) ← ptF ts; pure (.remPt p, ts)
  | "rm" :: ts => do
    let (p, ts) ← ptF ts; let (m, ts) ← nat ts; let (r, ts) ← nat ts; pure (.remMod p m r, ts)
  | "f" :: ts => do let (p, ts) ← ptF ts; pure (.find p, ts)
  | "m" :: ts => do
    let (p, ts) ← ptF ts; let (m, ts) ← nat ts; let (r, ts) ← nat ts; pure (.matching p m r, ts)
  | "k" :: ts => do
    let (p, ts) ← ptF ts; let (k, ts) ← int ts; let (m, ts) ← nat ts; let (r, ts) ← nat ts
    let (md, ts) ← optF ts; pure (.knear p k m r md, ts)
  | "kB" :: ts => do   -- with a caller-supplied dirty buffer (length, capacity): the answer must not depend on it
    let (p, ts) ← ptF ts; let (k, ts) ← int ts; let (m, ts) ← nat ts; let (r, ts) ← nat ts
    let (md, ts) ← optF ts; let (_, ts) ← nat ts; let (_, ts) ← nat ts; pure (.knear p k m r md, ts)
  | "b" :: ts => do
    let (a, ts) ← ptF ts; let (c, ts) ← ptF ts; let (m, ts) ← nat ts; let (r, ts) ← nat ts
    pure (.inb ⟨a, c⟩ m r, ts)
  | "bB" :: ts => do
    let (a, ts) ← ptF ts; let (c, ts) ← ptF ts; let (m, ts) ← nat ts; let (r, ts) ← nat ts
    let (_, ts) ← nat ts; let (_, ts) ← nat ts
    pure (.inb ⟨a, c⟩ m r, ts)
  | _ => none

def showIds (l : List (Ptr F)) : String :=
  l.foldl (fun s p => s ++ " " ++ toString p.id) (toString l.length)

def showTree : Tree F → String
  | .nil => "N"
  | .node v c0 c1 c2 c3 =>
    "( " ++ (match v with | some p => toString p.id | none => "_") ++ " " ++
      showTree c0 ++ " " ++ showTree c1 ++ " " ++ showTree c2 ++ " " ++ showTree c3 ++ " )"

def filt (m r : Nat) (p : Ptr F) : Bool := p.id % m == r

/-- `math.MaxFloat64` -/
def maxF : F := Float.ofBits 0x7FEFFFFFFFFFFFFF

/-- multiset difference `before − after` of id lists -/
def idsDiff (before after : List Nat) : List Nat := after.foldl (fun acc i => acc.erase i) before

/-- the printed result of a removal: `0`, or `1 <id of the one pointer that left the multiset>` -/
def remOut (q q' : QT F) (ok : Bool) : String :=
  if !ok then "0" else
  let b := (contents q.root).map (·.id)
  let a := (contents q'.root).map (·.id)
  match idsDiff b a, idsDiff a b with
  | [x], [] => "1 " ++ toString x
  | _, _ => "1 ?"

/-- one model step: new tree and the printed result (`panic` when the Go code panics) -/
def stepModel (q : QT F) (op : Op) : QT F × String :=
  match op with
  | .add id p =>
    if p.x.isNaN || p.y.isNaN then (q, "0") else   -- Add rejects a NaN point before Bound.Contains
    let (q', ok) := add q ⟨id, p⟩; (q', if ok then "1" else "0")
  | .addNil => (q, "1")
  | .remId id p =>
    let (q', ok) := removeFrom (some maxF) Float.sqrt q p (fun x => x.id == id)
    (q', remOut q q' ok)
  | .remPt p =>
    let (q', ok) := removeFrom (some maxF) Float.sqrt q p (fun x => x.p.x == p.x && x.p.y == p.y)
    (q', remOut q q' ok)
  | .remMod p m r =>
    let (q', ok) := removeFrom (some maxF) Float.sqrt q p (filt m r)
    (q', remOut q q' ok)
  | .find p => (q, match matchingFrom (some maxF) Float.sqrt q p (fun _ => true) with | some x => toString x.id | none => "-")
  | .matching p m r => (q, match matchingFrom (some maxF) Float.sqrt q p (filt m r) with | some x => toString x.id | none => "-")
  | .knear p k m r md =>
    if q.root.isNil || k ≤ 0 then (q, "0")
    else (q, showIds (kNearestFrom (some maxF) Float.sqrt q p k.toNat (filt m r) md))
  | .inb b m r => (q, showIds (inBound q b (filt m r)))

/-! ### exact arithmetic on float64 values -/

def finite (f : F) : Bool := f.isFinite

/-- a finite float64 as an integer number of units 2^-1074 (0 for NaN / ±Inf: callers check `finite`) -/
def zOf (f : F) : Int :=
  let n := f.toBits.toNat
  let e := (n / 2^52) % 2048
  let m := n % 2^52
  if e == 2047 then 0 else
  let mag : Nat := if e == 0 then m else (2^52 + m) <<< (e - 1)
  if n / 2^63 == 1 then -(Int.ofNat mag) else Int.ofNat mag

/-- a stored pointer of the specification list: the float point and its exact coordinates -/
structure SP where
  id : Nat
  p : Pt F
  zx : Int
  zy : Int
deriving Inhabited

def SP.mk' (id : Nat) (p : Pt F) : SP := ⟨id, p, zOf p.x, zOf p.y⟩

def d2 (a b : Pt F) : F := distSq a b

/-- how distances are measured: `prep` the query point once, `d` = squared distance of a stored
    pointer, `sq` = the squared limit -/
structure Metric (γ β : Type) where
  prep : Pt F → γ
  d : γ → SP → β
  sq : F → β
  lt : β → β → Bool
  le : β → β → Bool

/-- exact: units of 2^-2148 -/
def exactMetric : Metric (Int × Int) Int where
  prep := fun q => (zOf q.x, zOf q.y)
  d := fun q s => (s.zx - q.1) * (s.zx - q.1) + (s.zy - q.2) * (s.zy - q.2)
  sq := fun m => zOf m * zOf m
  lt := fun a b => decide (a < b)
  le := fun a b => decide (a ≤ b)

/-- float64, as the Go code computes them -/
def floatMetric : Metric (Pt F) F where
  prep := id
  d := fun q s => d2 s.p q
  sq := fun m => m * m
  lt := fun a b => a < b
  le := fun a b => a ≤ b

/-- exact distances compared UP TO THE ROUNDING OF THE PRUNING BOX.  The searches prune a cell when it
    misses the box `p ± fl(sqrt(fl(d)))` whose edges are rounded once more.  With u = 2^-53:
    `fl(d) ≥ d(1-4u)`, `fl(sqrt(fl d)) ≥ sqrt(d)(1-3u)`, `fl(p + w) ≥ p + w - u(|p| + w)`; so a pointer in a
    pruned cell is farther than `sqrt(d) - 5u·S`, `S = max(|p.x|, |p.y|, sqrt d)`.  The window used is
    `8u·S = 2^-50·S`: `a` counts as smaller than `b` only if `sqrt b - sqrt a > 2^-50·S`, tested without
    roots as `(b - a)·2^50 > S·(⌊sqrt a⌋ + ⌊sqrt b⌋)` (the floor makes the window narrower, never wider).
    A value carries the scale `max(|p.x|, |p.y|)` of its query point. -/
def tolLt (a b : Int × Int) : Bool :=
  decide (a.1 < b.1) &&
    (let sb := Int.ofNat (Nat.sqrt b.1.toNat)
     let sa := Int.ofNat (Nat.sqrt a.1.toNat)
     let S := max (max a.2 b.2) (sb + 1)
     decide ((b.1 - a.1) * (2 : Int) ^ 50 > S * (sa + sb)))

def tolMetric : Metric (Int × Int) (Int × Int) where
  prep := fun q => (zOf q.x, zOf q.y)
  d := fun q s => ((s.zx - q.1) * (s.zx - q.1) + (s.zy - q.2) * (s.zy - q.2), max q.1.natAbs q.2.natAbs)
  sq := fun m => (zOf m * zOf m, 0)
  lt := tolLt
  le := fun a b => !tolLt b a

/-! ### the plain-list specification, evaluated on the implementation's answers -/

def parseIds (ts : Toks) : Option (List Nat) := do
  let (n, ts) ← nat ts
  let (ids, _) ← many nat n ts
  pure ids

/-- remove the first element with this id -/
def eraseId (l : List SP) (id : Nat) : List SP :=
  match l with
  | [] => []
  | x :: xs => if x.id == id then xs else x :: eraseId xs id

/-- the closed box, with explicit inequalities -/
def inBox (b : Bound F) (p : Pt F) : Bool := b.lo.x ≤ p.x && p.x ≤ b.hi.x && b.lo.y ≤ p.y && p.y ≤ b.hi.y

def filtS (m r : Nat) (p : SP) : Bool := p.id % m == r

/-- returned ids are distinct stored candidates: pick them one by one out of the pool -/
def pick (ids : List Nat) (pool : List SP) (acc : List SP) : Option (List SP × List SP) :=
  match ids with
  | [] => some (acc.reverse, pool)
  | i :: rest =>
    match pool.find? (·.id == i) with
    | none => none
    | some x => pick rest (eraseId pool i) (x :: acc)

/-- check one implementation answer against the list `cs`; returns the new list or the failed clause.
    `remMulti` reports (through the Bool) that a removal had to choose between candidates. -/
def stepSpec {γ β : Type} (M : Metric γ β) (qb : Bound F) (cs : List SP) (op : Op) (res : Toks) :
    Except String (List SP × Bool) :=
  match op with
  | .add id p =>
    let inside := inBox qb p
    if res == ["1"] then (if inside then .ok (cs ++ [SP.mk' id p], false) else .error "add-accepted-outside")
    else if res == ["0"] then (if inside then .error "add-rejected-inside" else .ok (cs, false))
    else .error "add-result"
  | .addNil => if res == ["1"] then .ok (cs, false) else .error "add-nil-result"
  | .remId _ _ | .remPt _ | .remMod _ _ _ =>
    let (p, f) : Pt F × (SP → Bool) := match op with
      | .remId id p => (p, fun x => x.id == id)
      | .remPt p => (p, fun x => x.p.x == p.x && x.p.y == p.y)
      | .remMod p m r => (p, filtS m r)
      | _ => (⟨0, 0⟩, fun _ => false)
    let cand := cs.filter f
    let q := M.prep p
    match res with
    | ["0"] => if cand.isEmpty then .ok (cs, false) else .error "remove-missed-match"
    | ["1", ids] =>
      (match ids.toNat? with
       | none => .error "remove-not-exactly-one"
       | some id =>
         match cand.find? (·.id == id) with
         | none => .error "remove-wrong-pointer"
         | some x =>
           let dx := M.d q x
           if cand.any fun y => M.lt (M.d q y) dx then .error "remove-not-closest"
           else .ok (eraseId cs id, cand.any fun y => M.lt dx (M.d q y)))
    | _ => .error "remove-result"
  | .find _ | .matching _ _ _ =>
    let (p, f) : Pt F × (SP → Bool) := match op with
      | .find p => (p, fun _ => true)
      | .matching p m r => (p, filtS m r)
      | _ => (⟨0, 0⟩, fun _ => false)
    let cand := cs.filter f
    let q := M.prep p
    match res with
    | ["-"] => if cand.isEmpty then .ok (cs, false) else .error "find-missed"
    | [ids] =>
      (match ids.toNat? with
       | none => .error "find-result"
       | some id =>
         match cand.find? (·.id == id) with
         | none => .error "find-not-stored-or-filtered"
         | some x =>
           let dx := M.d q x
           if cand.any fun y => M.lt (M.d q y) dx then .error "find-not-nearest" else .ok (cs, false))
    | _ => .error "find-result"
  | .knear p k m r md =>
    match parseIds res with
    | none => .error "knearest-result"
    | some ids =>
      let q := M.prep p
      -- "strictly within the limit": the code squares the limit, so a negative limit acts as |limit|
      let lim : SP → Bool := fun x => match md with | none => true | some d => M.lt (M.d q x) (M.sq d)
      let cand := (cs.filter (filtS m r)).filter lim
      let want := min k.toNat cand.length
      if ids.length != want then .error "knearest-count" else
      (match pick ids cand [] with
       | none => .error "knearest-not-stored-or-repeated"
       | some (got, rest) =>
         let ds := got.map fun x => M.d q x
         let sorted := (ds.zip (ds.drop 1)).all fun (a, b) => M.le a b
         if !sorted then .error "knearest-not-sorted" else
         match ds.getLast? with
         | none => .ok (cs, false)
         | some worst =>
           if rest.any (fun y => M.lt (M.d q y) worst) then .error "knearest-omitted-closer"
           else .ok (cs, false))
  | .inb b m r =>
    match parseIds res with
    | none => .error "inbound-result"
    | some ids =>
      let want := ((cs.filter (filtS m r)).filter fun x => inBox b x.p).map (·.id)
      let srt (l : List Nat) : List Nat := l.mergeSort (· ≤ ·)
      if srt ids != srt want then .error "inbound-set" else .ok (cs, false)

/-- structural invariant on a dumped implementation tree: every value lies in its node's cell -/
partial def treeP : P (Tree F) := fun ts =>
  match ts with
  | "N" :: ts => some (.nil, ts)
  | "(" :: v :: ts => do
    let (c0, ts) ← treeP ts
    let (c1, ts) ← treeP ts
    let (c2, ts) ← treeP ts
    let (c3, ts) ← treeP ts
    match ts with
    | ")" :: ts =>
      let val : Option (Ptr F) := if v == "_" then none else some ⟨v.toNat?.getD 0, ⟨0, 0⟩⟩
      some (.node val c0 c1 c2 c3, ts)
    | _ => none
  | _ => none

def invTree (pts : Nat → Option (Pt F)) : Tree F → Cell F → Bool
  | .nil, _ => true
  | .node v c0 c1 c2 c3, c =>
    (match v with
     | none => true
     | some x => match pts x.id with
       | some p => c.l ≤ p.x && p.x ≤ c.r && c.b ≤ p.y && p.y ≤ c.t
       | none => false) &&
    invTree pts c0 (c.sub 0) && invTree pts c1 (c.sub 1) && invTree pts c2 (c.sub 2) && invTree pts c3 (c.sub 3)

def treeIds : Tree F → List Nat
  | .nil => []
  | .node v c0 c1 c2 c3 => (v.map (·.id)).toList ++ treeIds c0 ++ treeIds c1 ++ treeIds c2 ++ treeIds c3

def splitSemi (ts : Toks) : List Toks :=
  let rec go (ts : Toks) (cur : Toks) (acc : List Toks) : List Toks :=
    match ts with
    | [] => (cur.reverse :: acc).reverse
    | ";" :: rest => go rest [] (cur.reverse :: acc)
    | t :: rest => go rest (t :: cur) acc
  go ts [] []

/-! ### classification of the inputs -/

def ptFinite (p : Pt F) : Bool := finite p.x && finite p.y
def ptNaN (p : Pt F) : Bool := p.x.isNaN || p.y.isNaN

/-- every coordinate / limit that enters a distance or box comparison of the judge is finite
    (points offered to `Add` are judged by the add clause alone and need not be) -/
def opFinite : Op → Bool
  | .add _ _ | .addNil => true
  | .remId _ p | .remPt p | .remMod p _ _ | .find p | .matching p _ _ => ptFinite p
  | .knear p _ _ _ md => ptFinite p && (match md with | none => true | some d => finite d)
  | .inb b _ _ => ptFinite b.lo && ptFinite b.hi

/-- the query point and the accepted-pointer filter of a distance query -/
def opQuery : Op → Option (Pt F × (SP → Bool))
  | .remId id p => some (p, fun x => x.id == id)
  | .remPt p => some (p, fun x => x.p.x == p.x && x.p.y == p.y)
  | .remMod p m r => some (p, filtS m r)
  | .find p => some (p, fun _ => true)
  | .matching p m r => some (p, filtS m r)
  | .knear p _ m r _ => some (p, filtS m r)
  | _ => none

/-- some accepted stored pointer has a float64 squared distance that is not `< MaxFloat64`
    (overflow): the situation excluded from the exact model -/
def overflowAt (cs : List SP) (op : Op) : Bool :=
  match opQuery op with
  | none => false
  | some (p, f) => (cs.filter f).any fun x => !(d2 x.p p < maxF)

/-- some float64 quantity compared by the code at this op differs from its exact value -/
def inexactAt (cs : List SP) (op : Op) : Bool :=
  match opQuery op with
  | none => false
  | some (p, f) =>
    let q := exactMetric.prep p
    let unit : Int := (2 : Int) ^ 1074
    ((cs.filter f).any fun x => let d := d2 x.p p; !(finite d) || zOf d * unit != exactMetric.d q x) ||
    (match op with
     | .knear _ _ _ _ (some m) => let s := m * m; !(finite s) || zOf s * unit != exactMetric.sq m
     | _ => false)

/-- outcome of judging a whole history -/
structure Verdict where
  cs : List SP := []
  idx : Nat := 0
  err : Option (String × Nat) := none    -- first failed clause and its op index
  nanAdd : Bool := false                 -- … and it is an accepted `Add` of a NaN point
  overflow : Bool := false               -- some op could only be judged as "outside the exact model"
  rounding : Bool := false               -- some op was right for float64 distances only
  boxRounding : Bool := false            -- some op was right only up to the rounding of the pruning box
  remMulti : Bool := false

/-- the list after an op whose distance clause could not be judged exactly: only removals change it,
    and the pointer that left is named by the implementation's answer -/
def nextCs (cs : List SP) (op : Op) (res : Toks) : List SP :=
  match op, res with
  | .remId _ _, ["1", ids] | .remPt _, ["1", ids] | .remMod _ _ _, ["1", ids] => eraseId cs (ids.toNat?.getD 0)
  | _, _ => cs

/-- Judge every answer with EXACT distances.  An op that fails the exact judge is set aside (and the
    history is then answered `skip …`, never `ok`) in exactly two situations:
    * some accepted pointer's float64 squared distance is not `< MaxFloat64` (overflow — outside the
      exact model, see `partial`);
    * the answer satisfies the same clause evaluated with the float64 distances the code computes,
      and one of those float64 quantities is not exact (float rounding of the distances);
    * the answer satisfies the same clause with exact distances compared up to the rounding of the
      pruning box (`tolMetric`: a relative window of 2^-50, derived there).
    Every other failure is the verdict. -/
def judge (qb : Bound F) (ops : List Op) (results : List Toks) : Verdict :=
  (ops.zip results).foldl (fun (acc : Verdict) (op, res) =>
    if acc.err.isSome then acc else
    match stepSpec exactMetric qb acc.cs op res with
    | .ok (cs', multi) => { acc with cs := cs', idx := acc.idx + 1, remMulti := acc.remMulti || multi }
    | .error e =>
      if e == "add-accepted-outside" && (match op with | .add _ p => ptNaN p | _ => false) then
        { acc with err := some (e, acc.idx), nanAdd := true }
      else if overflowAt acc.cs op then
        { acc with cs := nextCs acc.cs op res, idx := acc.idx + 1, overflow := true }
      else
        match (if inexactAt acc.cs op then stepSpec floatMetric qb acc.cs op res else .error "") with
        | .ok (cs', _) => { acc with cs := cs', idx := acc.idx + 1, rounding := true }
        | .error _ =>
          match stepSpec tolMetric qb acc.cs op res with
          | .ok (cs', _) => { acc with cs := cs', idx := acc.idx + 1, boxRounding := true }
          | .error _ => { acc with err := some (e, acc.idx) }) {}

/-- `res … L! <index> <stored bits> <bits now>`: the harness found the caller's limits array changed
    after this call.  Returns the answer without the marker, and the marker's arguments. -/
def splitLimMark (res : Toks) : Toks × Option Toks :=
  match res.span (· != "L!") with
  | (a, _ :: m) => (a, some m)
  | (a, []) => (a, none)

/-- `res … EA! <op> <element> <id then> <id now>`: the harness keeps the last slices the library
    returned alive and reads them again after every later op; this marker says that the answer of
    op `<op>` no longer reads what it read when it was returned (an answer is a VALUE of the model:
    a later call cannot change it).  The marker is the last thing of a result. -/
def splitEAMark (res : Toks) : Toks × Option Toks :=
  match res.span (· != "EA!") with
  | (a, _ :: m) => (a, some m)
  | (a, []) => (a, none)

def halfGrid (f : F) : Bool := let g := f * 2; g.floor == g && g.abs ≤ 64

/-- the one feature of a history that the verdict tag names (rotating, so that every feature is counted) -/
def featureTag (inp : Toks) (qb : Bound F) (ops : List Op) (remMulti : Bool) (extra : List (String × Bool) := []) : String :=
  let addIds := ops.filterMap fun | .add id _ => some id | _ => none
  let limits := ops.filterMap fun | .knear _ _ _ _ (some d) => some d.toBits | _ => none
  let feats : List (String × Bool) := [
    ("limit-slice-passed-again", (limits.zip (limits.drop 1)).any fun (a, b) => a == b),
    ("remove-stored-object", inp.any (· == "rs")),
    ("rm-among-several", remMulti),
    ("zero-extent-bound", qb.lo.x == qb.hi.x || qb.lo.y == qb.hi.y),
    ("nondyadic-bound", !(halfGrid qb.lo.x && halfGrid qb.lo.y && halfGrid qb.hi.x && halfGrid qb.hi.y)),
    ("inverted-box", ops.any fun | .inb b _ _ => b.lo.x > b.hi.x || b.lo.y > b.hi.y | _ => false),
    ("add-nil", ops.any fun | .addNil => true | _ => false),
    ("neg-k", ops.any fun | .knear _ k _ _ _ => k < 0 | _ => false),
    ("neg-limit", ops.any fun | .knear _ _ _ _ (some d) => d < 0 | _ => false),
    ("same-pointer-again", addIds.length != addIds.eraseDups.length),
    ("dirty-buffer", inp.any fun t => t == "kB" || t == "bB"),
    ("wrapper", ops.any fun | .knear _ _ 1 _ _ | .inb _ 1 _ => true | _ => false)]
  let n := feats.length
  let start := ops.length % n
  let rot := feats.drop start ++ feats.take start
  -- the `extra` features (size classes) are always named, the others take turns
  (extra.filter (·.2)).foldl (fun s f => s ++ " " ++ f.1) "" ++
  match rot.find? (·.2) with
  | some (s, _) => " " ++ s
  | none => ""

/-- `hist <bound> <n> op… => res ; res ; … ; T <tree>`   (or `… ; panic` when the library panicked) -/
def handleHist (inp out : Toks) (ptrTag : String := "") : String :=
  match (do
    let (a, i) ← ptF inp
    let (b, i) ← ptF i
    let (n, i) ← nat i
    let (ops, _) ← many opP n i
    pure ((⟨a, b⟩ : Bound F), ops)) with
  | none => "bad input"
  | some (qb, ops) =>
    if out.head? == some "badcase" then "bad " ++ " ".intercalate out else
    -- model run
    let (qm, mres) := ops.foldl (fun (acc : QT F × List String) op =>
      let (q', s) := stepModel acc.1 op; (q', acc.2 ++ [s])) (⟨qb, .nil⟩, [])
    let partsE := (splitSemi out).map splitEAMark
    let parts0 := partsE.map (·.1)
    match (partsE.zipIdx.filterMap fun ((_, m), i) => m.map fun m => (i, m)).head? with
    | some (i, m) =>
      s!"propfail earlier-answer-rewritten op#{i} answer-of-op#{m.getD 0 "?"} element {m.getD 1 "?"} held {m.getD 2 "?"} reads {m.getD 3 "?"}"
    | none =>
    -- the caller's limits array must read after every call what the caller stored in it (the limit is
    -- a VALUE of the model: `Orb.Quadtree.kNearestCall_limits_unchanged`)
    let marks := parts0.map splitLimMark
    let parts := marks.map (·.1)
    let argMut : Option (Nat × Toks) := (marks.zipIdx.filterMap fun ((_, m), i) => m.map fun m => (i, m)).head?
    let argMsg : Nat → Toks → String := fun i m =>
      s!"propfail argument-mutated limit op#{i} element {m.getD 0 "?"} stored {m.getD 1 "?"} reads {m.getD 2 "?"}"
    -- a library panic ends the history: `res … ; panic`
    if parts.getLast? == some ["panic"] then
      let i := parts.length - 1
      let before := (parts.take i).map (" ".intercalate ·)
      -- the answers before the panic are judged like any others
      let opsB := ops.take i
      let vB := if ptFinite qb.lo && ptFinite qb.hi && opsB.all opFinite then judge qb opsB (parts.take i) else {}
      match vB.err, argMut with
      | some (e, j), some (a, m) => if a ≤ j then argMsg a m else s!"propfail {e} op#{j}"
      | some (e, j), none => s!"propfail {e} op#{j}"
      | none, some (a, m) => argMsg a m
      | none, none =>
        if i < ops.length && before == mres.take i && mres[i]? == some "panic" then
          -- implementation and model agree up to and including the panic, and the model attributes it to
          -- make(maxHeap, 0, k+1) for an unallocatable k
          s!"propfail knearest-huge-k-panic op#{i}"
        else s!"propfail panic op#{i}"
    else
    if parts.length != ops.length + 1 then "bad output-arity" else
    let results := parts.take ops.length
    let treeToks := parts.getLast!
    let mtree := "T " ++ showTree qm.root
    let agree := (results.map (" ".intercalate ·)) == mres && " ".intercalate treeToks == mtree
    let diffMsg : String :=
      let firstBad := ((results.map (" ".intercalate ·)).zip mres).findIdx? fun (a, b) => a != b
      s!"diff op#{firstBad.getD ops.length} model: {" ; ".intercalate mres} ; {mtree}"
    -- `propfail` outranks `diff`; everything else (ok, skip, and the labels of recorded situations)
    -- is given only when implementation and model agree on the whole history
    let fin (s : String) : String := if s.startsWith "propfail" || agree then s else diffMsg
    if !(ptFinite qb.lo && ptFinite qb.hi && ops.all opFinite) then fin "skip nonfinite-query-input" else
    -- spec run on the implementation's answers, exact distances
    let v := judge qb ops results
    match (match v.err, argMut with
      | some (_, i), some (a, m) => if a ≤ i then some (a, m) else none
      | none, some (a, m) => some (a, m)
      | _, none => none) with
    | some (a, m) => argMsg a m
    | none =>
    match v.err with
    | some (e, i) =>
      -- Add accepted a point with a NaN coordinate (Bound.Contains has only negated comparisons):
      -- the specific label is given only when implementation and model agree on the history
      if v.nanAdd && agree then s!"propfail add-accepted-nan op#{i}" else s!"propfail {e} op#{i}"
    | none =>
      fin <|
      match treeToks with
      | "T" :: tt =>
        (match treeP tt with
         | some (t, _) =>
           let srt (l : List Nat) : List Nat := l.mergeSort (· ≤ ·)
           if srt (treeIds t) != srt (v.cs.map (·.id)) then "propfail contents-multiset"
           else
             let pts : Nat → Option (Pt F) := fun id => (v.cs.find? (·.id == id)).map (·.p)
             if !invTree pts t (rootCell qb) then "propfail cell-invariant"
             else if v.overflow then "skip dist-overflow"
             else if v.boxRounding then "skip rounding-sensitive pruning-box"
             else if v.rounding then "skip rounding-sensitive"
             else
               let hasRem := ops.any fun | .remId _ _ | .remPt _ | .remMod _ _ _ => true | _ => false
               if ops.length ≤ 1 then "ok triv"
               else
                 -- a k-nearest answer longer than the heap's first allocation (min(k,63)+1 items), and one
                 -- longer than 256; a tree of more than 300 pointers
                 let kLens := (ops.zip results).filterMap fun (op, res) =>
                   match op with | .knear _ _ _ _ _ => res.head?.bind String.toNat? | _ => none
                 let extra : List (String × Bool) := [
                   ("heap-grown", kLens.any (· ≥ 65)),
                   ("knearest-over-256", kLens.any (· ≥ 257)),
                   ("tree-over-300", v.cs.length > 300)]
                 (if hasRem then "ok hist-with-removal" else "ok hist") ++ ptrTag ++ featureTag inp qb ops v.remMulti extra
         | none => "bad tree")
      | _ => "bad tree-token"

def handle (ts : Toks) : String :=
  match ts with
  | op :: rest =>
    let (inp, out) := splitArrow rest
    match op with
    | "hist" => handleHist inp out
    -- `histP <mode> …`: the same history over another kind of orb.Pointer (harness/c11.go `mkPtr`);
    -- the model identifies a pointer by its id, so the verdict may not depend on the kind
    | "histP" => handleHist (inp.drop 1) out (" ptr-" ++ (inp.headD "?"))
    | "trunc" => "skip exhaustive-truncated " ++ " ".intercalate (inp.take 2)
    | _ => "bad op " ++ op
  | [] => "bad empty"

end Driver.C11
