import Orb.Proto
import Orb.Quadtree

/-! Driver for C11 (quadtree vs. plain list) — also used by C19 (sequential oracle). -/
namespace Driver.C11
open Orb Orb.Proto Orb.Core Orb.Quadtree

abbrev F := Float

inductive Op where
  | add (id : Nat) (p : Pt F)
  | remId (id : Nat) (p : Pt F)          -- Remove(p, eq = same id)
  | remPt (p : Pt F)                      -- Remove(p, nil)
  | find (p : Pt F)
  | matching (p : Pt F) (m r : Nat)       -- filter: id % m == r
  | knear (p : Pt F) (k : Nat) (m r : Nat) (maxd : Option F)   -- m = 1, r = 0 : no filter
  | inb (b : Bound F) (m r : Nat)
deriving Inhabited

def fP : P F := fun ts => (bits ts).map fun (b, ts) => (Float.ofBits b, ts)
def ptF : P (Pt F) := fun ts => do
  let (x, ts) ← fP ts
  let (y, ts) ← fP ts
  pure (⟨x, y⟩, ts)

def optF : P (Option F) := fun ts =>
  match ts with
  | "-" :: ts => some (none, ts)
  | ts => (fP ts).map fun (f, ts) => (some f, ts)

def opP : P Op := fun ts =>
  match ts with
  | "a" :: ts => do let (id, ts) ← nat ts; let (p, ts) ← ptF ts; pure (.add id p, ts)
  | "ri" :: ts => do let (id, ts) ← nat ts; let (p, ts) ← ptF ts; pure (.remId id p, ts)
  | "rp" :: ts => do let (p, ts) ← ptF ts; pure (.remPt p, ts)
  | "f" :: ts => do let (p, ts) ← ptF ts; pure (.find p, ts)
  | "m" :: ts => do
    let (p, ts) ← ptF ts; let (m, ts) ← nat ts; let (r, ts) ← nat ts; pure (.matching p m r, ts)
  | "k" :: ts => do
    let (p, ts) ← ptF ts; let (k, ts) ← nat ts; let (m, ts) ← nat ts; let (r, ts) ← nat ts
    let (md, ts) ← optF ts; pure (.knear p k m r md, ts)
  | "b" :: ts => do
    let (a, ts) ← ptF ts; let (c, ts) ← ptF ts; let (m, ts) ← nat ts; let (r, ts) ← nat ts
    pure (.inb ⟨a, c⟩ m r, ts)
  | _ => none

def showIds (l : List (Ptr F)) : String :=
  l.foldl (fun s p => s ++ " " ++ toString p.id) (toString l.length)

def showTree : Tree F → String
  | .nil => "N"
  | .node v c0 c1 c2 c3 =>
    "( " ++ (match v with | some p => toString p.id | none => "_") ++ " " ++
      showTree c0 ++ " " ++ showTree c1 ++ " " ++ showTree c2 ++ " " ++ showTree c3 ++ " )"

def filt (m r : Nat) (p : Ptr F) : Bool := p.id % m == r

/-- one model step: new tree and the printed result -/
def stepModel (q : QT F) (op : Op) : QT F × String :=
  match op with
  | .add id p => let (q', ok) := add q ⟨id, p⟩; (q', if ok then "1" else "0")
  | .remId id p =>
    let before := contents q.root
    let (q', ok) := remove Float.sqrt q p (fun x => x.id == id)
    let after := contents q'.root
    let gone := before.filter fun x => !(after.any (·.id == x.id))
    (q', if ok then "1 " ++ (match gone with | [x] => toString x.id | _ => "?") else "0")
  | .remPt p =>
    let before := contents q.root
    let (q', ok) := remove Float.sqrt q p (fun x => x.p.x == p.x && x.p.y == p.y)
    let after := contents q'.root
    let gone := before.filter fun x => !(after.any (·.id == x.id))
    (q', if ok then "1 " ++ (match gone with | [x] => toString x.id | _ => "?") else "0")
  | .find p => (q, match matching Float.sqrt q p (fun _ => true) with | some x => toString x.id | none => "-")
  | .matching p m r => (q, match matching Float.sqrt q p (filt m r) with | some x => toString x.id | none => "-")
  | .knear p k m r md => (q, showIds (kNearest Float.sqrt q p k (filt m r) md))
  | .inb b m r => (q, showIds (inBound q b (filt m r)))

/-! ### the plain-list specification, evaluated on the implementation's answers -/

def d2 (a b : Pt F) : F := distSq a b

def parseIds (ts : Toks) : Option (List Nat) := do
  let (n, ts) ← nat ts
  let (ids, _) ← many nat n ts
  pure ids

/-- remove the first element with this id -/
def eraseId (l : List (Ptr F)) (id : Nat) : List (Ptr F) :=
  match l with
  | [] => []
  | x :: xs => if x.id == id then xs else x :: eraseId xs id

def inBox (b : Bound F) (p : Pt F) : Bool := b.lo.x ≤ p.x && p.x ≤ b.hi.x && b.lo.y ≤ p.y && p.y ≤ b.hi.y

/-- check one implementation answer against the list `cs`; returns the new list or the failed clause -/
def stepSpec (qb : Bound F) (cs : List (Ptr F)) (op : Op) (res : Toks) : Except String (List (Ptr F)) :=
  match op with
  | .add id p =>
    let inside := inBox qb p
    if res == ["1"] then (if inside then .ok (cs ++ [⟨id, p⟩]) else .error "add-accepted-outside")
    else if res == ["0"] then (if inside then .error "add-rejected-inside" else .ok cs)
    else .error "add-result"
  | .remId _ _ | .remPt _ =>
    let (p, f) : Pt F × (Ptr F → Bool) := match op with
      | .remId id p => (p, fun x => x.id == id)
      | .remPt p => (p, fun x => x.p.x == p.x && x.p.y == p.y)
      | _ => (⟨0, 0⟩, fun _ => false)
    let cand := cs.filter f
    match res with
    | ["0"] => if cand.isEmpty then .ok cs else .error "remove-missed-match"
    | ["1", ids] =>
      (match ids.toNat? with
       | none => .error "remove-not-exactly-one"
       | some id =>
         match cand.find? (·.id == id) with
         | none => .error "remove-wrong-pointer"
         | some x =>
           if cand.any fun y => d2 y.p p < d2 x.p p then .error "remove-not-closest"
           else .ok (eraseId cs id))
    | _ => .error "remove-result"
  | .find _ | .matching _ _ _ =>
    let (p, f) : Pt F × (Ptr F → Bool) := match op with
      | .find p => (p, fun _ => true)
      | .matching p m r => (p, filt m r)
      | _ => (⟨0, 0⟩, fun _ => false)
    let cand := cs.filter f
    match res with
    | ["-"] => if cand.isEmpty then .ok cs else .error "find-missed"
    | [ids] =>
      (match ids.toNat? with
       | none => .error "find-result"
       | some id =>
         match cand.find? (·.id == id) with
         | none => .error "find-not-stored-or-filtered"
         | some x => if cand.any fun y => d2 y.p p < d2 x.p p then .error "find-not-nearest" else .ok cs)
    | _ => .error "find-result"
  | .knear p k m r md =>
    match parseIds res with
    | none => .error "knearest-result"
    | some ids =>
      let lim : Ptr F → Bool := fun x => match md with | none => true | some d => d2 x.p p < d * d
      let cand := (cs.filter (filt m r)).filter lim
      let want := min k cand.length
      if ids.length != want then .error "knearest-count" else
      -- returned pointers are distinct stored candidates
      let rec pick (ids : List Nat) (pool : List (Ptr F)) (acc : List (Ptr F)) : Option (List (Ptr F) × List (Ptr F)) :=
        match ids with
        | [] => some (acc.reverse, pool)
        | i :: rest =>
          match pool.find? (·.id == i) with
          | none => none
          | some x => pick rest (eraseId pool i) (x :: acc)
      (match pick ids cand [] with
       | none => .error "knearest-not-stored-or-repeated"
       | some (got, rest) =>
         let ds := got.map fun x => d2 x.p p
         let sorted := (ds.zip (ds.drop 1)).all fun (a, b) => a ≤ b
         if !sorted then .error "knearest-not-sorted" else
         let worst := ds.getLast?.getD 0
         if !got.isEmpty && rest.any (fun y => d2 y.p p < worst) then .error "knearest-omitted-closer"
         else .ok cs)
  | .inb b m r =>
    match parseIds res with
    | none => .error "inbound-result"
    | some ids =>
      let want := ((cs.filter (filt m r)).filter fun x => inBox b x.p).map (·.id)
      let srt (l : List Nat) : List Nat := l.mergeSort (· ≤ ·)
      if srt ids != srt want then .error "inbound-set" else .ok cs

/-- structural invariant on a dumped implementation tree: every value lies in its node's cell -/
partial def treeP : P (Tree F) := fun ts =>
  match ts with
  | "N" :: ts => some (.nil, ts)
  | "(" :: v :: ts => do
    let (c0, ts) ← treeP ts
    let (c1, ts) ← treeP ts
    let (c2, ts) ← treeP ts
    let (c3, ts) ← treeP ts
    match ts with
    | ")" :: ts =>
      let val : Option (Ptr F) := if v == "_" then none else some ⟨v.toNat?.getD 0, ⟨0, 0⟩⟩
      some (.node val c0 c1 c2 c3, ts)
    | _ => none
  | _ => none

def invTree (pts : Nat → Option (Pt F)) : Tree F → Cell F → Bool
  | .nil, _ => true
  | .node v c0 c1 c2 c3, c =>
    (match v with
     | none => true
     | some x => match pts x.id with
       | some p => c.l ≤ p.x && p.x ≤ c.r && c.b ≤ p.y && p.y ≤ c.t
       | none => false) &&
    invTree pts c0 (c.sub 0) && invTree pts c1 (c.sub 1) && invTree pts c2 (c.sub 2) && invTree pts c3 (c.sub 3)

def treeIds : Tree F → List Nat
  | .nil => []
  | .node v c0 c1 c2 c3 => (v.map (·.id)).toList ++ treeIds c0 ++ treeIds c1 ++ treeIds c2 ++ treeIds c3

def splitSemi (ts : Toks) : List Toks :=
  let rec go (ts : Toks) (cur : Toks) (acc : List Toks) : List Toks :=
    match ts with
    | [] => (cur.reverse :: acc).reverse
    | ";" :: rest => go rest [] (cur.reverse :: acc)
    | t :: rest => go rest (t :: cur) acc
  go ts [] []

/-- `hist <bound> <n> op… => res ; res ; … ; T <tree>` -/
def handleHist (inp out : Toks) : String :=
  match (do
    let (a, i) ← ptF inp
    let (b, i) ← ptF i
    let (n, i) ← nat i
    let (ops, _) ← many opP n i
    pure ((⟨a, b⟩ : Bound F), ops)) with
  | none => "bad input"
  | some (qb, ops) =>
    if out == ["panic"] then "propfail panic" else
    let parts := splitSemi out
    if parts.length != ops.length + 1 then "bad output-arity" else
    let results := parts.take ops.length
    let treeToks := parts.getLast!
    -- model run
    let (qm, mres) := ops.foldl (fun (acc : QT F × List String) op =>
      let (q', s) := stepModel acc.1 op; (q', acc.2 ++ [s])) (⟨qb, .nil⟩, [])
    let mtree := "T " ++ showTree qm.root
    let agree := (results.map (" ".intercalate ·)) == mres && " ".intercalate treeToks == mtree
    let fin (s : String) : String :=
      if s.startsWith "propfail" || agree then s
      else
        let firstBad := ((results.map (" ".intercalate ·)).zip mres).findIdx? fun (a, b) => a != b
        s!"diff op#{firstBad.getD ops.length} model: {" ; ".intercalate mres} ; {mtree}"
    fin <|
    -- spec run on the implementation's answers
    let r := (ops.zip results).foldl (fun (acc : Except String (List (Ptr F)) × Nat) (op, res) =>
      match acc.1 with
      | .error e => (.error e, acc.2)
      | .ok cs => (match stepSpec qb cs op res with
                   | .error e => (.error s!"{e} op#{acc.2}", acc.2)
                   | .ok cs' => (.ok cs', acc.2 + 1))) (.ok [], 0)
    match r.1 with
    | .error e => "propfail " ++ e
    | .ok cs =>
      match treeToks with
      | "T" :: tt =>
        (match treeP tt with
         | some (t, _) =>
           let srt (l : List Nat) : List Nat := l.mergeSort (· ≤ ·)
           if srt (treeIds t) != srt (cs.map (·.id)) then "propfail contents-multiset"
           else
             let pts : Nat → Option (Pt F) := fun id => (cs.find? (·.id == id)).map (·.p)
             if !invTree pts t (rootCell qb) then "propfail cell-invariant"
             else
               let hasRem := ops.any fun | .remId _ _ | .remPt _ => true | _ => false
               if ops.length ≤ 1 then "ok triv" else if hasRem then "ok hist-with-removal" else "ok hist"
         | none => "bad tree")
      | _ => "bad tree-token"

def handle (ts : Toks) : String :=
  match ts with
  | op :: rest =>
    let (inp, out) := splitArrow rest
    match op with
    | "hist" => handleHist inp out
    | _ => "bad op " ++ op
  | [] => "bad empty"

end Driver.C11
