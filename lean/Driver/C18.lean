import Orb.Proto
import Orb.Geo

/-!
  Driver for C18 (package geo: distances, bearing, midpoint, destination, areas, lengths, bounds).

  Go's `math.Sin/Cos/Asin/Atan2` are not bit-compatible with any libm Lean can call, so every case
  line carries, after the implementation's outcome, the table `T n (fn arg… value)*` of the libm
  calls the Go code makes on this input (recorded by a mirror in the harness, values from Go's
  `math`).  The model `Orb.Geo` is instantiated at `OF` (a `Float` plus an "oracle hit" flag) with
  its `sin/cos/asin/atan2` fields reading that table: it redoes *all the arithmetic* of the Go code
  on top of Go's own libm values, and must reproduce the implementation's result bit for bit.  An
  argument the table does not contain (`oracle-miss`) means model and code no longer compute the
  same intermediate values and is reported as `diff`.

  The clauses of the property are then evaluated on the implementation's outputs:
  exact where the statement is exact (symmetry, outer−holes, sums), with the stated tolerances
  where it is a float-accuracy statement — those verdicts are MEASURED, not proved.
-/
namespace Driver.C18
open Orb Orb.Proto Orb.Geo

/-- A `Float` together with "every libm value it depends on was found in the table". -/
structure OF where
  v : Float
  ok : Bool := true
deriving Inhabited

instance : Add OF := ⟨fun a b => ⟨a.v + b.v, a.ok && b.ok⟩⟩
instance : Sub OF := ⟨fun a b => ⟨a.v - b.v, a.ok && b.ok⟩⟩
instance : Mul OF := ⟨fun a b => ⟨a.v * b.v, a.ok && b.ok⟩⟩
instance : Div OF := ⟨fun a b => ⟨a.v / b.v, a.ok && b.ok⟩⟩
instance : Neg OF := ⟨fun a => ⟨-a.v, a.ok⟩⟩
instance : LT OF := ⟨fun a b => a.v < b.v⟩
instance : DecidableLT OF := fun a b => inferInstanceAs (Decidable (a.v < b.v))
instance : BEq OF := ⟨fun a b => a.v == b.v⟩
instance {n : Nat} : OfNat OF n := ⟨⟨Float.ofNat n, true⟩⟩

def ofF (f : Float) : OF := ⟨f, true⟩
def ofB (b : UInt64) : OF := ⟨Float.ofBits b, true⟩

/-- one recorded libm call -/
structure Ent where
  fn : String
  a : UInt64
  b : UInt64
  v : UInt64

def nanF : Float := Float.ofBits 0x7FF8000000000001

def look1 (t : Array Ent) (fn : String) (x : OF) : OF :=
  if x.v.isNaN then ⟨nanF, x.ok⟩ else
  match t.find? (fun e => e.fn == fn && e.a == x.v.toBits) with
  | some e => ⟨Float.ofBits e.v, x.ok⟩
  | none => ⟨nanF, false⟩

def look2 (t : Array Ent) (fn : String) (y x : OF) : OF :=
  if y.v.isNaN || x.v.isNaN then ⟨nanF, x.ok && y.ok⟩ else
  match t.find? (fun e => e.fn == fn && e.a == y.v.toBits && e.b == x.v.toBits) with
  | some e => ⟨Float.ofBits e.v, x.ok && y.ok⟩
  | none => ⟨nanF, false⟩

def signbit (f : Float) : Bool := f.toBits >>> 63 == 1
def posInf : Float := Float.ofBits 0x7FF0000000000000
def negInf : Float := Float.ofBits 0xFFF0000000000000

/-- Go's `math.Max` (special cases: +Inf wins, NaN propagates, `Max(+0, -0) = +0`). -/
def goMax (x y : Float) : Float :=
  if x == posInf || y == posInf then posInf
  else if x.isNaN || y.isNaN then nanF
  else if x == 0 && x == y then (if signbit x then y else x)
  else if x > y then x else y

/-- Go's `math.Min`. -/
def goMin (x y : Float) : Float :=
  if x == negInf || y == negInf then negInf
  else if x.isNaN || y.isNaN then nanF
  else if x == 0 && x == y then (if signbit x then x else y)
  else if x < y then x else y

/-- `math.Pi` and `orb.EarthRadius` as float64 (checked against the Go side by the `consts` case). -/
def piBits : UInt64 := 0x400921FB54442D18
def piF : Float := Float.ofBits piBits
def earthR : Float := 6378137
/-- the literal `111131.75` of bound.go -/
def mPerDeg : Float := Float.ofBits 0x40FB21BC00000000

def mkFn (t : Array Ent) : Fn OF where
  sin := look1 t "s"
  cos := look1 t "c"
  asin := look1 t "as"
  atan2 := look2 t "at"
  sqrt := fun x => ⟨x.v.sqrt, x.ok⟩
  abs := fun x => ⟨x.v.abs, x.ok⟩
  max := fun a b => ⟨goMax a.v b.v, a.ok && b.ok⟩
  min := fun a b => ⟨goMin a.v b.v, a.ok && b.ok⟩
  pi := ofF piF
  R := ofF earthR

/-! ### parsing -/

def entP : P Ent := fun ts =>
  match ts with
  | "at" :: ts => do
    let (a, ts) ← bits ts
    let (b, ts) ← bits ts
    let (v, ts) ← bits ts
    pure (⟨"at", a, b, v⟩, ts)
  | fn :: ts => do
    let (a, ts) ← bits ts
    let (v, ts) ← bits ts
    pure (⟨fn, a, 0, v⟩, ts)
  | [] => none

def tableP : P (Array Ent) := fun ts =>
  match ts with
  | "T" :: ts => (counted entP ts).map fun (l, ts) => (l.toArray, ts)
  | _ => none

def toO (p : Pt UInt64) : Pt OF := ⟨ofB p.x, ofB p.y⟩
def toOs (ps : List (Pt UInt64)) : List (Pt OF) := ps.map toO
def toOG (g : Geom UInt64) : Geom OF := mapGeom ofB g
def toOV (g : GVal UInt64) : GVal OF := mapGVal ofB g
def fl (b : UInt64) : Float := Float.ofBits b

/-- bit equality, all NaNs identified -/
def sameF (m : Float) (b : UInt64) : Bool := m.toBits == b || (m.isNaN && (fl b).isNaN)

def hx (f : Float) : String := floatToHex f

/-- Compare model values with implementation values.  `none` = agree. -/
def cmpAll (ms : List OF) (bs : List UInt64) : Option String :=
  if ms.any (fun m => !m.ok) then some "diff oracle-miss"
  else if ms.length != bs.length then some "diff arity"
  else if (ms.zip bs).all (fun (m, b) => sameF m.v b) then none
  else some ("diff" ++ ms.foldl (fun s m => s ++ " " ++ hx m.v) "")

def fin (agree : Option String) (s : String) : String :=
  if s.startsWith "propfail" then s else
  match agree with
  | none => s
  | some d => d

def finite (f : Float) : Bool := !f.isNaN && !f.isInf

/-- decimal bucket of an absolute error, for the evidence histogram -/
def bucket (e : Float) : String :=
  if e == 0 then "e=0" else
  if e < 1e-9 then "e<1e-9" else if e < 1e-7 then "e<1e-7" else if e < 1e-5 then "e<1e-5"
  else if e < 1e-3 then "e<1e-3" else "e>=1e-3"

def halfCirc : Float := piF * earthR

/-! ### cases -/

/-- `consts => pi R mPerDeg` -/
def handleConsts (out : Toks) : String :=
  match (do
    let (a, o) ← bits out
    let (b, o) ← bits o
    let (c, _) ← bits o
    pure (a, b, c)) with
  | none => "bad consts"
  | some (a, b, c) =>
    if a == piBits && b == earthR.toBits && c == mPerDeg.toBits then "ok consts"
    else s!"diff {natToHex piBits.toNat 16} {hx earthR} {hx mPerDeg}"

/-- `dist p1 p2 => D12 D21 H12 H21 T…` -/
def handleDist (inp out : Toks) : String :=
  match (do
    let (p, i) ← pt inp
    let (q, _) ← pt i
    let (d12, o) ← bits out
    let (d21, o) ← bits o
    let (h12, o) ← bits o
    let (h21, o) ← bits o
    let (t, _) ← tableP o
    pure (p, q, d12, d21, h12, h21, t)) with
  | none => if out == ["panic"] then "propfail panic" else "bad dist"
  | some (p, q, d12, d21, h12, h21, t) =>
    let F := mkFn t
    let P := toO p
    let Q := toO q
    let agree := cmpAll [distance F P Q, distance F Q P, distanceHaversine F P Q, distanceHaversine F Q P]
      [d12, d21, h12, h21]
    fin agree <|
    let d := fl d12
    let h := fl h12
    let lon1 := fl p.x; let lat1 := fl p.y; let lon2 := fl q.x; let lat2 := fl q.y
    if !(finite lon1 && finite lat1 && finite lon2 && finite lat2) then "skip non-finite-input" else
    if h.isNaN || (fl h21).isNaN then "propfail haversine-half-circumference nan-near-antipodal" else
    if d.isNaN || (fl d21).isNaN then "propfail distance-nan" else
    if h12 != h21 then "propfail haversine-symmetric" else
    if d12 != d21 then "propfail distance-symmetric" else
    if !(0 ≤ h && h ≤ halfCirc) then "propfail haversine-half-circumference" else
    if !(0 ≤ d) then "propfail distance-nonneg" else
    let straddle := (lon1 - lon2).abs > 180
    if lat1.abs < 80 && lat2.abs < 80 && h < 10000 then
      if h == 0 then (if d == 0 then "ok triv-zero-distance" else "propfail equirect-agreement zero")
      else
        let rel := (d - h).abs / h
        -- measured; 1 µm absolute floor: `sin π ≠ 0` in floats makes h ≈ 1e-9 m for lon 180 vs −180
        if (d - h).abs ≤ 1e-6 && h < 1e-3 then "ok near rounding-level-distance" else
        if rel ≤ 1e-5 then
          (if straddle then "ok near antimeridian" else if rel ≤ 1e-7 then "ok near rel<=1e-7" else "ok near rel<=1e-5")
        else "propfail equirect-agreement"
    else if straddle then "ok far antimeridian"
    else if halfCirc - h < 1000 then "ok far near-antipodal"
    else "ok far"

/-- `2^-53`, the unit roundoff of float64. -/
def uRound : Float := Float.ofBits 0x3CA0000000000000

/-- Near-pole allowance of the destination clause, in metres, from the error analysis of
    `bLat = asin(s)`, `s = sin φ₁·cos δ + cos φ₁·sin δ·cos β` (geo/distance.go:84):

    * every libm value is within 1 ulp (relative error ≤ 2u, `u = 2^-53`), every `*` and `+` adds a
      relative u: the first product carries ≤ 5u, the second ≤ 8u, the sum one more u, and
      `|sin φ₁ cos δ| + |cos φ₁ sin δ| = sin(|φ₁| + δ) ≤ 1`; hence `|s − s*| ≤ ε = 9u`;
    * with θ the colatitude of the result (`s = cos θ`): `|cos θ_q − cos θ*| ≤ ε` gives
      `|θ_q − θ*|·(θ_q + θ*)/2 ≲ ε`, i.e. `|Δθ| ≤ 2ε / sin θ_q` and (as `θ_q + θ* ≥ |Δθ|`)
      `|Δθ| ≤ √(2ε)`;
    * a latitude error Δθ moves the landing point by at most `R·|Δθ|`.

    So the haversine distance from the start may be off by `R · min(18u / cos φ_q, √(18u))`
    (at most 0.285 m, and above 1 mm only within 81 m of a pole) on top of the flat measured 1 mm.
    All other roundings (argument conversion, `asin` itself, the longitude, the haversine) are not
    amplified and stay inside the flat part.  `cos φ_q` is taken as `sin` of the colatitude
    `(90 − |φ_q|)·π/180`, whose subtraction is exact near a pole. -/
def destPoleAllowance (latq : Float) : Float :=
  let colat := (90 - latq.abs) * piF / 180
  let c := (Float.sin colat).abs
  let eps2 := 18 * uRound
  let capv := earthR * Float.sqrt eps2
  if c * capv ≤ earthR * eps2 then capv else earthR * eps2 / c

/-- `dest p brg d => q H(p,q) T…` -/
def handleDest (inp out : Toks) : String :=
  match (do
    let (p, i) ← pt inp
    let (b, i) ← bits i
    let (d, _) ← bits i
    let (q, o) ← pt out
    let (h, o) ← bits o
    let (t, _) ← tableP o
    pure (p, b, d, q, h, t)) with
  | none => if out == ["panic"] then "propfail panic" else "bad dest"
  | some (p, b, d, q, h, t) =>
    let F := mkFn t
    let mq := pointAtBearingAndDistance F (toO p) (ofB b) (ofB d)
    -- the implementation's own q is what H was computed from
    let mh := distanceHaversine F (toO p) (toO q)
    let agree := cmpAll [mq.x, mq.y, mh] [q.x, q.y, h]
    fin agree <|
    let hh := fl h
    let dd := fl d
    if hh.isNaN then
      -- The one documented situation (finding C18-dest-nan-asin-above-one): the argument of
      -- `math.Asin` rounded to ±(1 + 2^-52) (a landing point within metres of a pole), so the
      -- implementation returns (NaN, NaN) — and the model, fed the same libm values, does too.
      -- Any other NaN, or a case on which the twin disagrees, keeps the generic label.
      let asinAbove := t.any fun en => en.fn == "as" && (fl en.a).abs > 1 && (fl en.a).abs ≤ 1 + 8 * uRound
      if agree.isNone && asinAbove && (fl q.x).isNaN && (fl q.y).isNaN && finite (fl p.x) && finite (fl p.y)
          && finite (fl b) && finite dd
      then "propfail dest-distance nan-asin-arg-above-one"
      else "propfail dest-distance nan" else
    let e := (hh - dd).abs
    -- measured: 1 mm
    -- no clause constrains the output longitude (H is 2π-periodic in it): the code does not
    -- normalise `aLon + atan2(…)` to [-180, 180]; recorded as a tag only (props.json `partial`)
    let un := if (fl q.x).abs > 180 then " lon-unnormalised" else ""
    if e ≤ 1e-3 then
      (if destPoleAllowance (fl q.y) > 1e-3 then s!"ok dest near-pole {bucket e}{un}" else s!"ok dest {bucket e}{un}")
    else
    -- Beyond 1 mm.  The one documented situation (finding C18-dest-near-pole-asin): the excess is
    -- explained by the conditioning of `asin` at ±90°, AND model and implementation agree bit for
    -- bit on this case.  Anything else — a larger loss, a loss away from the poles, or a case on
    -- which the twin disagrees — keeps the generic label, which no known finding matches.
    if agree.isNone && e ≤ 1e-3 + destPoleAllowance (fl q.y) then "propfail dest-distance near-pole-asin"
    else "propfail dest-distance"

/-- `mid p1 p2 => m H(p1,m) H(m,p2) H(p1,p2) T…` -/
def handleMid (inp out : Toks) : String :=
  match (do
    let (p, i) ← pt inp
    let (q, _) ← pt i
    let (m, o) ← pt out
    let (h1, o) ← bits o
    let (h2, o) ← bits o
    let (h12, o) ← bits o
    let (t, _) ← tableP o
    pure (p, q, m, h1, h2, h12, t)) with
  | none => if out == ["panic"] then "propfail panic" else "bad mid"
  | some (p, q, m, h1, h2, h12, t) =>
    let F := mkFn t
    let mm := midpoint F (toO p) (toO q)
    let agree := cmpAll [mm.x, mm.y, distanceHaversine F (toO p) (toO m), distanceHaversine F (toO m) (toO q),
      distanceHaversine F (toO p) (toO q)] [m.x, m.y, h1, h2, h12]
    fin agree <|
    let a := fl h1; let b := fl h2; let c := fl h12
    if c.isNaN || halfCirc - c < 1000 then "skip midpoint ill-conditioned-near-antipodal" else
    if a.isNaN || b.isNaN then "propfail midpoint-equidistant nan" else
    let e := (a - b).abs
    if !(e ≤ 1e-3) then "propfail midpoint-equidistant" else
    if !((a - c / 2).abs ≤ 1e-3) then "propfail midpoint-halfway" else
    if c == 0 then "ok triv-mid-same-point" else
    s!"ok mid {bucket e}{if (fl m.x).abs > 180 then " lon-unnormalised" else ""}"

/-- Absolute rounding allowance for comparing two float evaluations of the ring sum that differ in
    summation order / in which vertex has its term split (MEASURED clauses only), from this analysis:

    * every evaluation starts from the SAME floats `λ_i = deg2rad(lon_i)` and `s_i = sin φ_i` (they do
      not depend on the rotation or direction), so cancellation inside `λ_hi − λ_lo` magnifies nothing
      that differs between the two evaluations: a float subtraction of given operands has relative
      error ≤ u (`u = 2^-53`), and is exact for neighbouring longitudes (Sterbenz);
    * one summand `fl(fl(λ_hi − λ_lo)·s)` has relative error ≤ 2u; the loop adds `l` summands with
      `l − 1` rounded additions (error ≤ (l−1)·u·Σ|t|);
    * the loop splits one vertex's term `(λ_{k+1} − λ_{k−1})·s_k` into `(λ_k − λ_{k−1})·s_k` and
      `(λ_{k+1} − λ_k)·s_k`; which vertex depends on the rotation, so the magnitudes are bounded with
      every term split:  `S = Σ_k (|λ_k − λ_{k−1}| + |λ_{k+1} − λ_k|)·|s_k|`.

    Each evaluation is within `(l+1)·u·S` of the exact sum of the same real numbers, two evaluations
    within `2(l+1)·u·S`; with `l ≤ m + 1` loop terms over `m` distinct vertices the allowance is
    `(2m + 6)·u·S · R²/2` (the three roundings of `·R·R/2` are relative to the area and covered by the
    relative part of `closeTo`).  It is proportional to the longitude DIFFERENCES, not to |λ|: for a
    narrow ring at large |lon| it stays many orders of magnitude below the area. -/
def ringScale (F : Fn OF) (v : List (Pt OF)) : Float :=
  let m := v.length
  let get := fun (i : Nat) => v.getD (i % m) ⟨0, 0⟩
  let lam := fun (p : Pt OF) => (deg2rad F p.x).v
  let S := (List.range m).foldl (fun acc k =>
    let l0 := lam (get (k + m - 1)); let l1 := lam (get k); let l2 := lam (get (k + 1))
    acc + ((l1 - l0).abs + (l2 - l1).abs) * (F.sin (deg2rad F (get k).y)).v.abs) 0
  (2 * m.toFloat + 6) * uRound * S * earthR * earthR / 2

/-- `|a − b| ≤ 8u·|b| + allowance`: the relative part covers the roundings of `−sum·R·R/2` in the two
    evaluations (2u each, relative to the area; 8u leaves room for second-order terms).
    Dividing both parts by 8 makes about 4 in 10⁴ generated rings fail: the bound is not slack. -/
def closeTo (a b allowance : Float) : Bool := (a - b).abs ≤ 8 * uRound * b.abs + allowance

/-- `ring <n pts> => SignedArea Area T…` -/
def handleRing (inp out : Toks) : String :=
  match (do
    let (r, _) ← pts inp
    let (sa, o) ← bits out
    let (a, o) ← bits o
    let (t, _) ← tableP o
    pure (r, sa, a, t)) with
  | none => if out == ["panic"] then "propfail panic" else "bad ring"
  | some (r, sa, a, t) =>
    let F := mkFn t
    let R := toOs r
    let agree := cmpAll [ringArea F R, area F (.ring R)] [sa, a]
    fin agree <|
    let s := fl sa
    if (fl a).toBits != s.abs.toBits && !(s.isNaN) then "propfail area-abs-of-signed" else
    if r.length < 3 then (if s == 0 then "ok triv-short-ring" else "propfail short-ring-nonzero") else
    -- the closed form the property singles out, summed in cyclic order over the distinct vertices
    let v := openVerts R
    let spec := -(cyclicSum F v) * F.R * F.R / 2
    if !spec.ok then "diff oracle-miss" else
    if s.isNaN then "skip nan" else
    let sc := ringScale F v
    if !closeTo s spec.v sc then "propfail ring-cyclic-sum" else
    let closed := v.length != R.length
    -- the comparison says nothing when the allowance is of the area's own magnitude
    if !(sc < 0.1 * s.abs) then "ok triv-ring rounding-level-area" else
    s!"ok ring {if closed then "closed" else "open"} n={if v.length ≤ 4 then toString v.length else if v.length ≤ 8 then "5-8" else "9+"}"

/-- the rotations the harness applies: distinct vertices rotated and re-closed for a closed ring -/
def rotations (r : List (Pt OF)) : List (List (Pt OF)) :=
  let v := openVerts r
  let closed := v.length != r.length
  (List.range v.length).map fun k =>
    let w := v.drop k ++ v.take k
    if closed then closeRing w else w

/-- `ringinv <n pts> => a0 k a_1 … a_k arev T…`: signed area of every rotation and of the reversal -/
def handleRingInv (inp out : Toks) : String :=
  match (do
    let (r, _) ← pts inp
    let (a0, o) ← bits out
    let (as, o) ← counted bits o
    let (ar, o) ← bits o
    let (t, _) ← tableP o
    pure (r, a0, as, ar, t)) with
  | none => if out == ["panic"] then "propfail panic" else "bad ringinv"
  | some (r, a0, as, ar, t) =>
    let F := mkFn t
    let R := toOs r
    let rots := rotations R
    let agree := cmpAll ([ringArea F R] ++ rots.map (ringArea F) ++ [ringArea F R.reverse]) ([a0] ++ as ++ [ar])
    fin agree <|
    let b := fl a0
    if b.isNaN then "skip nan" else
    let sc := ringScale F (openVerts R)
    -- within the derived rounding bound (`closeTo`, `ringScale`)
    if !(as.all fun a => closeTo (fl a) b sc) then "propfail ring-rotate" else
    if !(closeTo (-(fl ar)) b sc) then "propfail ring-reverse" else
    if r.length < 3 then "ok triv-short-ring" else
    if b == 0 then "ok ringinv zero-area" else
    -- the comparison says nothing when the allowance is of the area's own magnitude
    if !(sc < 0.1 * b.abs) then "ok triv-ringinv rounding-level-area" else
    s!"ok ringinv {if (openVerts R).length != R.length then "closed" else "open"} n={if as.length ≤ 4 then toString as.length else if as.length ≤ 8 then "5-8" else "9+"}"

/-- `box lo hi => Area T…` -/
def handleBox (inp out : Toks) : String :=
  match (do
    let (lo, i) ← pt inp
    let (hi, _) ← pt i
    let (a, o) ← bits out
    let (t, _) ← tableP o
    pure (lo, hi, a, t)) with
  | none => if out == ["panic"] then "propfail panic" else "bad box"
  | some (lo, hi, a, t) =>
    let F := mkFn t
    let L := toO lo; let H := toO hi
    let agree := cmpAll [area F (.bound L H)] [a]
    fin agree <|
    -- closed form R²·Δλ·(sin φ₂ − sin φ₁), Δλ in radians, with Go's own sin values
    let s1 := F.sin (deg2rad F L.y); let s2 := F.sin (deg2rad F H.y)
    let dl := deg2rad F (H.x - L.x)
    let cf := F.R * F.R * dl * (s2 - s1)
    if !cf.ok then "diff oracle-miss" else
    -- measured: 1e-9 relative, plus the cancellation floor of λ₂−λ₁ (the code subtracts radians,
    -- the closed form converts the width) and of sin φ₂ − sin φ₁: 16 ulp of R²(|λ₁|+|λ₂|)(|s₁|+|s₂|)
    let sc := earthR * earthR * ((deg2rad F L.x).v.abs + (deg2rad F H.x).v.abs) * (s1.v.abs + s2.v.abs)
    let av := fl a
    if av.isNaN then "skip nan" else
    if !((av - cf.v.abs).abs ≤ 1e-9 * cf.v.abs + 4e-15 * sc) then "propfail box-closed-form" else
    if cf.v == 0 then "ok triv-degenerate-box" else "ok box"

/-- Recompute `geo.Area` of a geometry from the implementation's own per-ring signed areas
    (consumed in traversal order): polygon = |outer| − Σ|holes|, multi = Σ, collection = Σ. -/
partial def areaFrom (g : Geom UInt64) (as : List Float) : Float × List Float :=
  let ring (as : List Float) : Float × List Float :=
    match as with | a :: as => (a.abs, as) | [] => (nanF, [])
  let poly (p : List (List (Pt UInt64))) (as : List Float) : Float × List Float :=
    match p with
    | [] => (0, as)
    | _ :: hs =>
      let (o, as) := ring as
      hs.foldl (fun (acc : Float × List Float) _ => let (h, as) := ring acc.2; (acc.1 - h, as)) (o, as)
  match g with
  | .point _ | .multiPoint _ | .lineString _ | .multiLineString _ => (0, as)
  | .ring _ => ring as
  | .bound _ _ => ring as
  | .polygon p => poly p as
  | .multiPolygon mp => mp.foldl (fun (acc : Float × List Float) p => let (a, as) := poly p acc.2; (acc.1 + a, as)) (0, as)
  | .collection gs => gs.foldl (fun (acc : Float × List Float) g => let (a, as) := areaFrom g acc.2; (acc.1 + a, as)) (0, as)

partial def hasRings : Geom UInt64 → Bool
  | .ring _ | .bound _ _ => true
  | .polygon p => !p.isEmpty
  | .multiPolygon mp => mp.any (!·.isEmpty)
  | .collection gs => gs.any hasRings
  | _ => false

/-! ### nil-INTERFACE members of collections (local reader)

  `orb.Collection{nil, ring}` travels as `C 2 nil R …` (harness/proto.go writes and reads the token `nil`
  for a nil member), which the shared parser `Orb.Proto.geom` cannot express (`Geom` has no nil
  constructor).  The reader below accepts `nil` as a member of a collection at any nesting depth and
  DROPS it before the value reaches the model.  The model-level statement is therefore
  "a nil member contributes nothing":  `Area(C{…, nil, …}) = Area(C{… …})`, the same for the three
  lengths, bit for bit.  That is what the unchanged Go code does:
   * geo/area.go:13 `if g == nil { return 0 }`, and `collectionArea` (area.go:105) recurses through
     the guarded entry point `Area(g)`, adding `0`;
   * internal/length/length.go:12 `if g == nil { return 0 }`, and the `orb.Collection` case
     (length.go:41) recurses through the guarded `Length(c, df)` — this is the one function behind
     geo.Length / geo.LengthHaversine / geo.LengthHaversign (and planar.Length);
  and adding `+0.0` never changes the bits of the running sum (the partial sums are `+0`, positive or
  NaN: every summand is an absolute value, a sum of distances, or outer − holes of absolute values,
  which is never `-0`).  The harness's per-ring / per-segment listings (`forEachRing`,
  `forEachLine`) skip nil members as well, so the composition clauses see the same traversal.
  A panic on such an input is `propfail panic`. -/

/-- a wire value in which nil-interface members of collections are still visible -/
inductive NG where
  | nil
  | leaf (g : Geom UInt64)
  | coll (ms : List NG)
deriving Inhabited

partial def ngeom : P NG := fun ts =>
  match ts with
  | "nil" :: ts => some (.nil, ts)
  | "C" :: ts => do
    let (n, ts) ← nat ts
    let rec go : Nat → Toks → Option (List NG × Toks)
      | 0, ts => some ([], ts)
      | n+1, ts => do
        let (g, ts) ← ngeom ts
        let (gs, ts) ← go n ts
        pure (g :: gs, ts)
    let (gs, ts) ← go n ts
    pure (.coll gs, ts)
  | ts => (geom ts).map fun (g, ts) => (.leaf g, ts)

/-- the value handed to the model: nil members dropped (`none` = the value itself is nil) -/
partial def NG.drop : NG → Option (Geom UInt64)
  | .nil => none
  | .leaf g => some g
  | .coll ms => some (.collection (ms.filterMap NG.drop))

partial def NG.hasNil : NG → Bool
  | .nil => true
  | .leaf _ => false
  | .coll ms => ms.any NG.hasNil

/-- `gval` that also accepts collections with nil-interface members; the flag says one was dropped -/
def gvalN : P (GVal UInt64 × Bool) := fun ts =>
  match ts with
  | "C" :: _ =>
    match ngeom ts with
    | some (n, rest) => (n.drop).map fun g => ((.val g, n.hasNil), rest)
    | none => none
  | _ => (gval ts).map fun (v, ts) => ((v, false), ts)

def kindTag : Geom UInt64 → String
  | .point _ => "point" | .multiPoint _ => "multipoint" | .lineString _ => "linestring"
  | .multiLineString _ => "multilinestring" | .ring _ => "ring" | .polygon _ => "polygon"
  | .multiPolygon _ => "multipolygon" | .bound _ _ => "bound" | .collection _ => "collection"

/-- `area <gval> => Area k sa_1 … sa_k T…` -/
def handleArea (inp out : Toks) : String :=
  match (do
    let ((g, nm), _) ← gvalN inp
    let (a, o) ← bits out
    let (as, o) ← counted bits o
    let (t, _) ← tableP o
    pure (g, nm, a, as, t)) with
  | none => if out == ["panic"] then "propfail panic" else "bad area"
  | some (g, nm, a, as, t) =>
    -- `nm`: a nil-interface member of a collection was dropped (it contributes nothing)
    let nmTag := if nm then " nil-member" else ""
    let F := mkFn t
    let agree := cmpAll [areaV F (toOV g)] [a]
    fin agree <|
    match g with
    | .nilIface | .nilSlice _ => if fl a == 0 then "ok triv-nil" else "propfail nil-area-nonzero"
    | .val g =>
      let (spec, rest) := areaFrom g (as.map fl)
      if !rest.isEmpty then "bad ring-count" else
      if !(sameF spec a) then "propfail area-composition" else
      if hasRings g then s!"ok area {kindTag g}{nmTag}" else s!"ok triv-no-rings {kindTag g}{nmTag}"

/-- Recompute the length from the implementation's own per-segment distances. -/
partial def lengthFrom (g : Geom UInt64) (ds : List Float) : Float × List Float :=
  let line (n : Nat) (ds : List Float) : Float × List Float :=
    (List.range (n - 1)).foldl (fun (acc : Float × List Float) _ =>
      match acc.2 with | d :: ds => (acc.1 + d, ds) | [] => (nanF, [])) (0, ds)
  let poly (p : List (List (Pt UInt64))) (ds : List Float) : Float × List Float :=
    p.foldl (fun (acc : Float × List Float) r => let (a, ds) := line r.length acc.2; (acc.1 + a, ds)) (0, ds)
  match g with
  | .point _ | .multiPoint _ => (0, ds)
  | .lineString l | .ring l => line l.length ds
  | .bound _ _ => line 5 ds
  | .multiLineString ls => poly ls ds
  | .polygon p => poly p ds
  | .multiPolygon mp => mp.foldl (fun (acc : Float × List Float) p => let (a, ds) := poly p acc.2; (acc.1 + a, ds)) (0, ds)
  | .collection gs => gs.foldl (fun (acc : Float × List Float) g => let (a, ds) := lengthFrom g acc.2; (acc.1 + a, ds)) (0, ds)

/-- `len <gval> => Length LengthHaversine LengthHaversign k (d_i h_i)* T…`
    (`LengthHaversign` is the deprecated misspelt entry point; it must return what `LengthHaversine` does) -/
def handleLen (inp out : Toks) : String :=
  match (do
    let ((g, nm), _) ← gvalN inp
    let (l, o) ← bits out
    let (lh, o) ← bits o
    let (lhs, o) ← bits o
    let (segs, o) ← counted (fun ts => do
      let (a, ts) ← bits ts
      let (b, ts) ← bits ts
      pure ((a, b), ts)) o
    let (t, _) ← tableP o
    pure (g, nm, l, lh, lhs, segs, t)) with
  | none => if out == ["panic"] then "propfail panic" else "bad len"
  | some (g, nm, l, lh, lhs, segs, t) =>
    let nmTag := if nm then " nil-member" else ""
    let F := mkFn t
    let (ml, mlh) : OF × OF := match toOV g with
      | .val g => (geoLength F g, geoLengthHaversine F g)
      | _ => (0, 0)
    let agree := cmpAll [ml, mlh, mlh] [l, lh, lhs]
    fin agree <|
    if !(sameF (fl lhs) lh) then "propfail length-haversign-differs" else
    match g with
    | .nilIface | .nilSlice _ => if fl l == 0 && fl lh == 0 then "ok triv-nil" else "propfail nil-length-nonzero"
    | .val g =>
      let (s1, r1) := lengthFrom g (segs.map fun s => fl s.1)
      let (s2, r2) := lengthFrom g (segs.map fun s => fl s.2)
      if !r1.isEmpty || !r2.isEmpty then "bad segment-count" else
      if !(sameF s1 l) then "propfail length-sum" else
      if !(sameF s2 lh) then "propfail length-haversine-sum" else
      if segs.isEmpty then s!"ok triv-no-segments {kindTag g}{nmTag}" else s!"ok len {kindTag g}{nmTag}"

/-- Which way `PointAtDistanceAlongLine` leaves its loop on this input (for the evidence tags):
    `at-zero` (distance 0), `at-vertex` (the distance equals a running prefix sum exactly, the
    equality case of `expected < actual`), `at-total` / `past-end` (the loop falls through), `inside`. -/
def alongTag (F : Fn OF) (ls : List (Pt OF)) (d : Float) : String :=
  let rec go (prev : Pt OF) (rest : List (Pt OF)) (travelled : Float) (first : Bool) : String :=
    match rest with
    | [] => if d == travelled then "at-total" else "past-end"
    | p :: rest =>
      let actual := (distanceHaversine F prev p).v
      if d - travelled < actual then
        (if d == 0 then "at-zero" else if !first && d == travelled then "at-vertex" else "inside")
      else go p rest (travelled + actual) false
  match ls with
  | [] => "empty"
  | p :: rest => go p rest 0 true

/-- `along <n pts> dist => x y brg T… | panic` (twin only) -/
def handleAlong (inp out : Toks) : String :=
  match (do
    let (ls, i) ← pts inp
    let (d, _) ← bits i
    pure (ls, d)) with
  | none => "bad along"
  | some (ls, d) =>
    if out == ["panic"] then
      (if ls.isEmpty then "ok along panic-empty-documented" else "diff no-panic")
    else
    match (do
      let (q, o) ← pt out
      let (b, o) ← bits o
      let (t, _) ← tableP o
      pure (q, b, t)) with
    | none => "bad along-out"
    | some (q, b, t) =>
      let F := mkFn t
      match pointAtDistanceAlongLine F (toOs ls) (ofB d) with
      | .ok (mq, mb) =>
        fin (cmpAll [mq.x, mq.y, mb] [q.x, q.y, b]) <|
          if ls.length == 1 || fl d < 0 then "ok triv-along-first"
          else s!"ok along twin-only {alongTag F (toOs ls) (fl d)}"
      | _ => "diff panic"

def boundOut : P (Pt UInt64 × Pt UInt64) := fun ts => do
  let (a, ts) ← pt ts
  let (b, ts) ← pt ts
  pure ((a, b), ts)

/-- `bap center dist => B T…` (twin only) -/
def handleBap (inp out : Toks) : String :=
  match (do
    let (c, i) ← pt inp
    let (d, _) ← bits i
    let (b, o) ← boundOut out
    let (t, _) ← tableP o
    pure (c, d, b, t)) with
  | none => if out == ["panic"] then "propfail panic" else "bad bap"
  | some (c, d, b, t) =>
    let F := mkFn t
    let (lo, hi) := newBoundAroundPoint F (toO c) (ofB d)
    fin (cmpAll [lo.x, lo.y, hi.x, hi.y] [b.1.x, b.1.y, b.2.x, b.2.y]) "ok bound-around-point twin-only"

/-- `pad B meters => B' height width T…` (twin only) -/
def handlePad (inp out : Toks) : String :=
  match (do
    let (b0, i) ← boundOut inp
    let (m, _) ← bits i
    let (b, o) ← boundOut out
    let (h, o) ← bits o
    let (w, o) ← bits o
    let (t, _) ← tableP o
    pure (b0, m, b, h, w, t)) with
  | none => if out == ["panic"] then "propfail panic" else "bad pad"
  | some (b0, m, b, h, w, t) =>
    let F := mkFn t
    let (lo, hi) := boundPad F (ofF mPerDeg) (toO b0.1) (toO b0.2) (ofB m)
    let mh := boundHeight (ofF mPerDeg) (toO b0.1) (toO b0.2)
    let mw := boundWidth F (toO b0.1) (toO b0.2)
    -- which of the four clamps of bound.go:54-58 changed a coordinate on this input
    let dy := fl m / mPerDeg
    let cl := (if fl b.1.x == -180 && fl b0.1.x > -180 then "W" else "") ++
      (if fl b.1.y == -90 && fl b0.1.y - dy < -90 then "S" else "") ++
      (if fl b.2.x == 180 && fl b0.2.x < 180 then "E" else "") ++
      (if fl b.2.y == 90 && fl b0.2.y + dy > 90 then "N" else "")
    fin (cmpAll [lo.x, lo.y, hi.x, hi.y, mh, mw] [b.1.x, b.1.y, b.2.x, b.2.y, h, w])
      s!"ok bound-pad twin-only clamp={if cl == "" then "none" else cl}"

def handle (ts : Toks) : String :=
  match ts with
  | op :: rest =>
    let (inp, out) := splitArrow rest
    match op with
    | "consts" => handleConsts out
    | "dist" => handleDist inp out
    | "dest" => handleDest inp out
    | "mid" => handleMid inp out
    | "ring" => handleRing inp out
    | "ringinv" => handleRingInv inp out
    | "box" => handleBox inp out
    | "area" => handleArea inp out
    | "len" => handleLen inp out
    | "along" => handleAlong inp out
    | "bap" => handleBap inp out
    | "pad" => handlePad inp out
    | _ => "bad op " ++ op
  | [] => "bad empty"

end Driver.C18
