import Orb.Proto
import Orb.MVT
import Orb.MVTOri
import Orb.ProtoWire

/-! Driver for C03 (Mapbox Vector Tiles) and the MVT share of C05 (`handleHostile`).
    Line formats: see the head of harness/c03.go. -/
namespace Driver.C03
open Orb Orb.Proto Orb.MVT

/-! ### strings as "h"+hex -/

def hexBytes : List Char → Option (List UInt8)
  | [] => some []
  | a :: b :: r => do
    let x ← hexDigit? a
    let y ← hexDigit? b
    let rest ← hexBytes r
    pure (UInt8.ofNat (x * 16 + y) :: rest)
  | _ => none

def unH (t : String) : Option String :=
  match t.toList with
  | 'h' :: cs => do
    let bs ← hexBytes cs
    String.fromUTF8? (ByteArray.mk bs.toArray)
  | _ => none

def toH (s : String) : String :=
  "h" ++ String.join (s.toUTF8.toList.map fun b => natToHex b.toNat 2)

def b2s (b : Bool) : String := if b then "1" else "0"

/-! ### the JSON text of string / integer slices, recomputed

    For slice and map values the expected string is the text `encoding/json` gives, supplied by the
    harness.  For the shapes made of strings or integers only the driver derives that text itself
    from the raw elements on the case line — `encoding/json`'s `appendString` with HTML escaping as
    written (Go 1.23): `"` `\` and the control characters get a backslash escape (`\b \f \n \r \t`,
    `\u00XX` otherwise), `<` `>` `&` become `\u003c` `\u003e` `\u0026`, DEL is copied, a byte that does not
    start a valid UTF-8 sequence becomes `\ufffd` (one byte consumed), U+2028 / U+2029 are escaped,
    every other rune is copied — so that the expectation does not rest on one computation. -/

def hexLow (n : Nat) : UInt8 := (if n < 10 then 48 + n else 87 + n).toUInt8

def isCont (b : UInt8) : Bool := 0x80 ≤ b && b ≤ 0xbf

/-- length (2..4) of the valid UTF-8 sequence at the head of `bs` (first byte ≥ 0x80), or 0:
    `utf8.DecodeRune`'s acceptance table (no overlong forms, no surrogates, nothing above U+10FFFF) -/
def utf8Len : List UInt8 → Nat
  | b0 :: b1 :: rest =>
    if 0xc2 ≤ b0 && b0 ≤ 0xdf then (if isCont b1 then 2 else 0)
    else if 0xe0 ≤ b0 && b0 ≤ 0xef then
      let lo : UInt8 := if b0 == 0xe0 then 0xa0 else 0x80
      let hi : UInt8 := if b0 == 0xed then 0x9f else 0xbf
      match rest with
      | b2 :: _ => if lo ≤ b1 && b1 ≤ hi && isCont b2 then 3 else 0
      | [] => 0
    else if 0xf0 ≤ b0 && b0 ≤ 0xf4 then
      let lo : UInt8 := if b0 == 0xf0 then 0x90 else 0x80
      let hi : UInt8 := if b0 == 0xf4 then 0x8f else 0xbf
      match rest with
      | b2 :: b3 :: _ => if lo ≤ b1 && b1 ≤ hi && isCont b2 && isCont b3 then 4 else 0
      | _ => 0
    else 0
  | _ => 0

def jsonQuoteBody : Nat → List UInt8 → List UInt8
  | 0, _ => []
  | _, [] => []
  | fuel + 1, b :: rest =>
    if b < 0x80 then
      let esc (c : UInt8) : List UInt8 := [0x5c, c]
      let out : List UInt8 :=
        if b == 0x22 || b == 0x5c then esc b
        else if b == 0x08 then esc 0x62
        else if b == 0x0c then esc 0x66
        else if b == 0x0a then esc 0x6e
        else if b == 0x0d then esc 0x72
        else if b == 0x09 then esc 0x74
        else if b < 0x20 || b == 0x3c || b == 0x3e || b == 0x26 then
          [0x5c, 0x75, 0x30, 0x30, hexLow (b.toNat / 16), hexLow (b.toNat % 16)]
        else [b]
      out ++ jsonQuoteBody fuel rest
    else
      match utf8Len (b :: rest) with
      | 0 => "\\ufffd".toUTF8.toList ++ jsonQuoteBody fuel rest
      | n =>
        let run := (b :: rest).take n
        let out := if run == [0xe2, 0x80, 0xa8] then "\\u2028".toUTF8.toList
                   else if run == [0xe2, 0x80, 0xa9] then "\\u2029".toUTF8.toList else run
        out ++ jsonQuoteBody fuel (rest.drop (n - 1))

def jsonQuote (bs : List UInt8) : List UInt8 := [0x22] ++ jsonQuoteBody (bs.length + 1) bs ++ [0x22]

def hBytes (t : String) : Option (List UInt8) :=
  match t.toList with
  | 'h' :: cs => hexBytes cs
  | _ => none

def jsonArray (elems : List (List UInt8)) : List UInt8 :=
  [0x5b] ++ (match elems with
    | [] => []
    | e :: es => es.foldl (fun acc x => acc ++ [0x2c] ++ x) e) ++ [0x5d]

/-- a property-value token whose JSON text the driver can derive: is the text on the line that one? -/
def jsonTokOK (t : String) : Bool :=
  match t.splitOn ":" with
  | "j" :: shape :: h :: args =>
    let given := hBytes h
    if shape == "xstrs" || shape == "xnamed" || shape == "xany" then
      (args.mapM hBytes).map (fun es => jsonArray (es.map jsonQuote)) == given
    else if shape == "xptrs" then
      (args.mapM hBytes).map (fun es => jsonArray ((es.zipIdx).map fun (e, i) =>
        if i % 3 == 2 then "null".toUTF8.toList else jsonQuote e)) == given
    else if shape == "xints" || shape == "xi64s" || shape == "xiany" || shape == "xuints" || shape == "xu64s" then
      -- canonical decimals (the harness rebuilds the numbers from them): the text is their list
      if args.all fun a => (a.toInt?.map toString) == some a then
        some (jsonArray (args.map fun a => a.toUTF8.toList)) == given
      else false
    else true
  | _ => true

/-! ### input: layers -/

def parseSKind : String → Option SKind
  | "int" => some .int | "int8" => some .int8 | "int16" => some .int16
  | "int32" => some .int32 | "int64" => some .int64 | _ => none

def parseUKind : String → Option UKind
  | "uint" => some .uint | "uint8" => some .uint8 | "uint16" => some .uint16
  | "uint32" => some .uint32 | "uint64" => some .uint64 | _ => none

def parsePVal (t : String) : Option PVal :=
  match t.splitOn ":" with
  | ["s", h] => (unH h).map .str
  | ["b", b] => some (.bool (b == "1"))
  | ["i", k, v] => do pure (.sint (← parseSKind k) (← v.toInt?))
  | ["u", k, v] => do pure (.uint (← parseUKind k) (← v.toNat?))
  | ["f32", h] => (hexToNat? h).map fun n => .f32 (UInt32.ofNat n)
  | ["f64", h] => (hexToNat? h).map fun n => .f64 (UInt64.ofNat n)
  | ["nil"] => some .nil
  | "j" :: _ :: h :: _ => (unH h).map .json     -- x-shapes carry the raw elements behind the text
  | "jbad" :: _ => some .jsonFail
  | ["x", n] => n.toNat?.map .unsupported
  | ["str", n, h] => do pure (.stringer (← n.toNat?) (← unH h))
  | _ => none

def parseId (t : String) : Option IdVal :=
  match t.splitOn ":" with
  | ["-"] => some .none
  | ["i", _, v] => v.toInt?.map .int
  | ["u", _, v] => v.toNat?.map .uint
  | ["f64", h] => (hexToNat? h).map fun n => .flt (UInt64.ofNat n)
  | ["f32", h] => (hexToNat? h).map fun n => .flt (f32to64 (UInt32.ofNat n))
  | ["s", h] => (unH h).map .str
  | ["o"] => some .other
  | _ => none

/-- `int32(f)` for a float inside the int32 range (truncation toward zero); `none` otherwise
    (NaN, ±Inf and out-of-range conversions are implementation-specific in Go). -/
def coordI (b : UInt64) : Option Int :=
  match bitsToRat? b with
  | some r =>
    let t := r.num.tdiv r.den
    if -(2^31 : Int) ≤ t ∧ t < (2^31 : Int) then some t else none
  | none => none

/-- the float64 is an integer (no truncation happens in `int32(f)`) -/
def isIntBits (b : UInt64) : Bool :=
  match bitsToRat? b with
  | some r => r.den == 1
  | none => false

def truncPt (p : Pt UInt64) : Pt Int := ⟨(coordI p.x).getD 0, (coordI p.y).getD 0⟩

/-- Go `==` on two finite `orb.Point`s (−0 = +0) -/
def ptEqF (a b : Pt UInt64) : Bool := bitsToRat? a.x == bitsToRat? b.x && bitsToRat? a.y == bitsToRat? b.y

/-- `Ring.Closed()` as Go evaluates it: on the float64 points, before any truncation -/
def closedF (r : List (Pt UInt64)) : Bool :=
  decide (r.length ≥ 4) &&
  match r.head?, r.getLast? with
  | some a, some b => ptEqF a b
  | _, _ => false

/-- A ring for the integer model.  Go decides `Closed()` on the floats and encodes the
    truncations (`encRingG (closedF r)`); the model decides it on the truncations.  They differ
    only for a ring with fractional coordinates that is open but closes by truncation, and that one
    is written like the truncated ring with its first vertex appended once more
    (`encRingG_false_eq_reopen`). -/
def ringI (r : List (Pt UInt64)) : List (Pt Int) :=
  let t := r.map truncPt
  if closed t && !closedF r then reopen t else t

partial def geomI : Geom UInt64 → Geom Int
  | .ring r => .ring (ringI r)
  | .polygon p => .polygon (p.map ringI)
  | .multiPolygon ps => .multiPolygon (ps.map (·.map ringI))
  | .collection gs => .collection (gs.map geomI)
  | g => mapGeom (fun c => (coordI c).getD 0) g

/-- the geometry over `Int`, and whether some coordinate was fractional (then the input is
    outside the quantifier: judged against the model only) -/
def gvalI (v : GVal UInt64) : Option (GVal Int × Bool) :=
  let cs := match v with | .val g => coords g | _ => []
  if cs.all fun c => (coordI c).isSome then
    let gi : GVal Int := match v with
      | .nilIface => .nilIface
      | .nilSlice k => .nilSlice k
      | .val g => .val (geomI g)
    some (gi, cs.any fun c => !isIntBits c)
  else none

def strP : P String := fun ts =>
  match ts with
  | [] => none
  | t :: ts => (unH t).map (·, ts)

def propP : P (String × PVal) := fun ts => do
  let (k, ts) ← strP ts
  let (v, ts) ← tok ts
  let pv ← parsePVal v
  pure ((k, pv), ts)

/-- a feature; the geometry stays in bit form until all coordinates are known to be in range -/
def featureP : P (IdVal × GVal UInt64 × List (String × PVal)) := fun ts => do
  let (idt, ts) ← tok ts
  let id ← parseId idt
  let (g, ts) ← gval ts
  let (ps, ts) ← counted propP ts
  pure ((id, g, ps), ts)

def layerP : P (String × Nat × Nat × List (IdVal × GVal UInt64 × List (String × PVal))) := fun ts => do
  let (name, ts) ← strP ts
  let (v, ts) ← nat ts
  let (e, ts) ← nat ts
  let (fs, ts) ← counted featureP ts
  pure ((name, v, e, fs), ts)

/-- the layers over `Int`, and whether some coordinate was fractional -/
def toLayers (raw : List (String × Nat × Nat × List (IdVal × GVal UInt64 × List (String × PVal)))) :
    Option (List Layer × Bool) := do
  let ls ← raw.mapM fun (name, v, e, fs) => do
    let fs ← fs.mapM fun (id, g, ps) => do
      let (gi, fr) ← gvalI g
      pure (({ id := id, geom := gi, props := ps } : Feature), fr)
    pure (({ name := name, version := v, extent := e, features := fs.map (·.1) } : Layer), fs.any (·.2))
  pure (ls.map (·.1), ls.any (·.2))

/-! ### printing -/

def errClass : Err → String
  | .collection => "collection" | .noMoreData => "nomore" | .cutShort => "cutshort"
  | .notMoveTo => "notmoveto" | .notLineTo => "notlineto" | .short => "short"
  | .unknownType => "unknowntype" | .ueof => "ueof" | .valEnc => "valenc"
  | .uncomparable => "uncomparable" | .gzipped => "gzipped" | .wire => "wire"

def classOf {α} : R α → String
  | .ok _ => "ok"
  | .err e => "err:" ++ errClass e
  | .panic _ => "panic"

def showTVal : TVal → String
  | .str s => "s:" ++ toH s
  | .float b => "f:" ++ natToHex b.toNat 8
  | .double b => "d:" ++ natToHex b.toNat 16
  | .int v => s!"i:{v}"
  | .uint v => s!"u:{v}"
  | .sint v => s!"z:{v}"
  | .bool b => "b:" ++ b2s b
  | .empty => "e"

def join (l : List String) : String := " ".intercalate l

def showVTFeature (f : VTFeature) : String :=
  join ([match f.id with | some n => toString n | none => "-", toString f.gtype, toString f.tags.length]
    ++ f.tags.map (fun w => toString w.toNat) ++ [toString f.geometry.length] ++ f.geometry.map fun w => toString w.toNat)

def showVTLayer (l : VTLayer) : String :=
  join ([toH l.name, toString l.version, toString l.extent, toString l.keys.length] ++ l.keys.map toH
    ++ [toString l.values.length] ++ l.values.map showTVal ++ [toString l.features.length]
    ++ l.features.map showVTFeature)

def showVT (t : VTTile) : String := join (toString t.length :: t.map showVTLayer)

def showDVal : DVal → String
  | .str s => "s:" ++ toH s
  | .num b => "d:" ++ natToHex b.toNat 16
  | .bool b => "b:" ++ b2s b
  | .nil => "nil"

def geomBits (g : Geom Int) : Geom UInt64 := mapGeom (fun v => (Float.ofInt v).toBits) g

/-- insertion sort of a decoded property map by key (the harness prints Go maps sorted) -/
def sortProps (m : List (String × DVal)) : List (String × DVal) :=
  m.foldr (fun p acc =>
    let rec ins : List (String × DVal) → List (String × DVal)
      | [] => [p]
      | q :: qs => if p.1 < q.1 then p :: q :: qs else q :: ins qs
    ins acc) []

def showDFeature (f : DFeature) : String :=
  join ([match f.id with | some n => natToHex (idFloat n).toNat 16 | none => "-", showGeom (geomBits f.geom),
    toString f.props.length] ++ (sortProps f.props).map fun p => toH p.1 ++ " " ++ showDVal p.2)

def showDLayer (l : DLayer) : String :=
  join ([toH l.name, toString l.version, toString l.extent, toString l.features.length] ++ l.features.map showDFeature)

def showDLayers (ls : List DLayer) : String := join (("ok " ++ toString ls.length) :: ls.map showDLayer)

def showOutcome : R (List DLayer) → String
  | .ok ls => showDLayers ls
  | .err e => "err:" ++ errClass e
  | .panic _ => "panic"

/-- Float twin of `Ring.Orientation` on decoded (integer valued) float coordinates. -/
def oriFloat (r : List (Pt Int)) : Int :=
  Core.orientation (r.map fun p => (⟨Float.ofInt p.x, Float.ofInt p.y⟩ : Pt Float))

/-- split a token list at `;` tokens -/
def splitSemi (ts : Toks) : List Toks :=
  let rec go (ts : Toks) (cur : Toks) (acc : List Toks) : List Toks :=
    match ts with
    | [] => (cur.reverse :: acc).reverse
    | ";" :: rest => go rest [] (cur.reverse :: acc)
    | t :: rest => go rest (t :: cur) acc
  go ts [] []

/-! ### kept results

    Section `K <kept> <decoy calls> ok | changed <name>@<stage> …` (harness/c03_keep.go): every byte
    slice and every decoded value the op obtained was kept alive while Marshal / MarshalGzipped /
    Unmarshal / UnmarshalGzipped ran on other tiles, its input buffer was overwritten, a sibling
    result was scribbled over and its spare capacity was written to.  "A returned value stays
    what it was": any change is a failure of the property, whatever the other sections say. -/

/-- `none`: fine; `some verdict` otherwise.  `need`: the op obtained results, the section must be there. -/
def keptVerdict (k : Option Toks) (need : Bool) : Option String :=
  match k with
  | some (_ :: _ :: "ok" :: []) => none
  | some (_ :: _ :: "changed" :: names) =>
    -- second white-box round (harness/c03_wb2.go): the stages that look at ONE call's argument / result
    if names.any (·.endsWith "@twin") then some ("propfail features-share-memory " ++ " ".intercalate names)
    else if names.any (fun n => n.endsWith "@marshal" || n.endsWith "@marshalgz") then
      some ("propfail marshal-writes-argument " ++ " ".intercalate names)
    else if names.any (·.endsWith "@concurrent") then some ("propfail concurrent-marshal-differs " ++ " ".intercalate names)
    else some ("propfail kept-result " ++ " ".intercalate names)
  | some _ => some "bad output K section"
  | none => if need then some "bad output no K section" else none

/-! ### round trip -/

/-- the members of a collection with nested collections flattened -/
partial def leaves : Geom Int → List (Geom Int)
  | .collection gs => gs.flatMap leaves
  | g => [g]

def isColl : Geom Int → Bool
  | .collection _ => true
  | _ => false

/-- The specification side of a collection: "every member becomes its own feature" — a member
    that is itself a collection stands for its members (MVT has no collection type). -/
def flatGVal : GVal Int → GVal Int
  | .val (.collection gs) => .val (.collection (gs.flatMap leaves))
  | v => v

def specLayers (ls : List Layer) : List Layer :=
  ls.map fun l => { l with features := l.features.map fun f => { f with geom := flatGVal f.geom } }

def geomsOf (ls : List Layer) : List (Geom Int) :=
  ls.flatMap fun l => l.features.flatMap fun f =>
    match gvalGeom f.geom with
    | some (.collection gs) => gs
    | some g => [g]
    | none => []

/-- a collection that is not exactly one non-collection member (the class of the known finding
    collection-members: 0 members, ≥ 2 members, or a nested collection) -/
def hasMultiColl (ls : List Layer) : Bool :=
  ls.any fun l => l.features.any fun f =>
    match gvalGeom f.geom with
    | some (.collection gs) => gs.length != 1 || gs.any isColl
    | _ => false

def hasSingleColl (ls : List Layer) : Bool :=
  ls.any fun l => l.features.any fun f =>
    match gvalGeom f.geom with
    | some (.collection gs) => gs.length == 1
    | _ => false

/-- `oriAgree oriFloat`, decided: the float64 shoelace gives the exact sign on every ring of the input -/
def oriAgreeB (ls : List Layer) : Bool :=
  ls.all fun l => l.features.all fun f => (gvalRings f.geom).all fun r => oriFloat r == oriInt r

/-! `ringExtent`, `oriExactDomain` (where the float64 shoelace of `Ring.Orientation` is exact: rings of
    small own extent at ANY distance from the origin; argument and proved bounds there): Orb/MVTOri.lean -/

/-- every ring of the input inside `oriExactDomain` gets the exact sign from the Float twin -/
def oriExactHolds (ls : List Layer) : Bool :=
  ls.all fun l => l.features.all fun f => (gvalRings f.geom).all fun r =>
    !oriExactDomain r || oriFloat r == oriInt r

/-- some ring OUTSIDE `oriExactDomain` on which the float64 shoelace gives the wrong sign (the
    class of the known finding regroup-rounding) -/
def oriRoundsOnBigRing (ls : List Layer) : Bool :=
  ls.any fun l => l.features.any fun f => (gvalRings f.geom).any fun r =>
    !oriExactDomain r && oriFloat r != oriInt r

/-- a second-or-later ring of a feature that is small (extent ≤ 64) and far from the origin
    (some |coordinate| ≥ 2^26): regrouped correctly only by a shoelace that shifts first -/
def hasFarSmallRing (ls : List Layer) : Bool :=
  ls.any fun l => l.features.any fun f => ((gvalRings f.geom).drop 1).any fun r =>
    decide (ringExtent r ≤ 64) && r.any fun p => decide (p.x.natAbs ≥ 2^26 ∨ p.y.natAbs ≥ 2^26)

/-- failure texts carry the model outcome; cut what would be megabytes for a big tile -/
def cut (s : String) : String :=
  if s.length > 6000 then (s.take 6000).toString ++ s!" …(cut, {s.length} chars)" else s

/-- an id of the quantifier ("non-negative integer") that `idWF` excludes: ≥ 2^53, where
    `float64(id)` may round -/
def hasBigId (ls : List Layer) : Bool :=
  ls.any fun l => l.features.any fun f =>
    match f.id with
    | .int v => decide (v ≥ (2^53 : Int))
    | .uint v => decide (v ≥ 2^53)
    | _ => false

/-- exact value of a finite float32 given by its bit pattern -/
def f32ToRat? (b : UInt32) : Option Rat :=
  let n := b.toNat
  let e := (n / 2^23) % 256
  let m : Nat := n % 2^23
  if e == 255 then none
  else
    let mag : Rat :=
      if e == 0 then (Int.ofNat m : Rat) / ((2:Rat)^149)
      else if e ≥ 150 then (Int.ofNat (2^23 + m) : Rat) * ((2:Rat)^(e - 150))
      else (Int.ofNat (2^23 + m) : Rat) / ((2:Rat)^(150 - e))
    some (if n / 2^31 == 1 then -mag else mag)

/-- The conversions `widen` / `decodeTVal` / `convertID` share (`f32to64`, `i2f`: Lean's
    `Float32.toFloat`, `Float.ofInt`) against their exact meaning, per value: widening a float32
    keeps the rational value, ±Inf, the sign of zero, and (NaN) sign + payload; `float64(int)` is
    exact up to 2^53.  A failure is a defect of the twin, reported as `diff`. -/
def twinOK (v : PVal) : Bool :=
  match v with
  | .f32 b =>
    let w := f32to64 b
    let sgn : UInt64 := (b >>> 31).toUInt64
    if f32IsNaN b then f64IsNaN w && (w >>> 63 == sgn) &&
      (w &&& (0x0007ffffffffffff : UInt64) == (b &&& 0x003fffff).toUInt64 <<< (29 : UInt64)) &&
      (w &&& (0x0008000000000000 : UInt64) != 0)
    else match f32ToRat? b with
      | none => w == (if sgn == 1 then (0xfff0000000000000 : UInt64) else 0x7ff0000000000000)
      | some r => bitsToRat? w == some r && (w >>> 63 == sgn)
  | .sint _ i => if i.natAbs ≤ 2^53 then bitsToInt? (i2f i) == some i else true
  | .uint _ n => if n ≤ 2^53 then bitsToInt? (i2f n) == some (n : Int) else true
  | _ => true

def handleRT (inp out : Toks) : String :=
  match (do
    let (raw, rest) ← counted layerP inp
    if !rest.isEmpty then none else pure raw) with
  | none => "bad input"
  | some raw =>
  match toLayers raw with
  | none => "skip coord-out-of-int32"
  | some (layers, frac) =>
  let secs := splitSemi out
  let sec (k : String) : Option Toks := (secs.find? fun s => s.head? == some k).map (·.drop 1)
  match sec "M", sec "D" with
  | some [mcls], some [d] =>
    let implVT := (sec "VT").map join
    let implU := (sec "U").map join
    let implG := match (sec "G").map join with
      | some "same" => implU
      | g => g
    -- the model
    let mvt := marshalVT layers
    let modelM := classOf mvt
    let modelVT := match mvt with | .ok t => some (showVT t) | _ => none
    let modelU := match mvt with | .ok t => some (showOutcome (unmarshalVTWith oriFloat t).1) | _ => none
    let agree := modelM == mcls && modelVT == implVT && modelU == implU && modelU == implG
    let modelStr := cut s!"M {modelM} ; VT {modelVT.getD "-"} ; U {modelU.getD "-"}"
    -- compression ratio of the tile (section Z: plain length, gzipped length), for the tags
    let gzTag := match sec "Z" with
      | some [a, b] =>
        (match a.toNat?, b.toNat? with
         | some a, some b =>
           let q := if b == 0 then 0 else a / b
           if q ≥ 512 then " gz512" else if q ≥ 128 then " gz128" else if q ≥ 32 then " gz32" else ""
         | _, _ => "")
      | _ => ""
    if let some v := keptVerdict (sec "K") (mcls == "ok" && implU.isSome) then v else
    if let some t := inp.find? (fun t => t.startsWith "j:x" && !jsonTokOK t) then s!"bad json-text of {(t.take 60).toString} is not what the driver derives" else
    if d != "1" then (if d == "g" then "propfail deterministic gzipped" else "propfail deterministic") else
    if !(layers.all fun l => (layerVals l).all twinOK) then "diff twin f32to64/i2f is not the exact conversion" else
    if !oriExactHolds layers then "diff twin float shoelace inexact on a ring of small extent (oriExactDomain)" else
    -- the specification: nested collections stand for their members
    let spec := specLayers layers
    if !frac && mvtWF spec then
      -- Bit-exact where the theorems are (`exactDomainZ`: a lone −0.0 comes back as −0.0); where a
      -- layer holds +0 and −0 of one float type the value table (keyed by Go `==`) keeps the first,
      -- and the values are compared with float `==`: −0 = +0 (stated in "partial").
      let clash := !(spec.all fun l => noZeroClash (layerVals l))
      let normZ (s : String) : String := if clash then s.replace "d:8000000000000000" "d:0000000000000000" else s
      let want := normZ (showDLayers (expectLayers spec))
      let good := mcls == "ok" && implU.map normZ == some want && implG.map normZ == some want
      if good then
        if !agree then "diff " ++ modelStr else
        (if layers.all (fun l => l.features.isEmpty) then "ok triv-empty"
         else if clash then "ok wf negzero"
         else if (layerVals <$> layers).any (fun vs => vs.any isNegZero) then "ok wf lone-negzero"
         else if hasFarSmallRing layers then "ok wf far-small-ring" ++ gzTag
         else if hasSingleColl layers then "ok wf coll1" ++ gzTag
         else if inp.any (fun t => t.startsWith "j:x") then "ok wf jsonx" else "ok wf" ++ gzTag)
      else
        let why := if mcls != "ok" then "marshal-" ++ mcls else if implU.map normZ != some want then "unmarshal" else "gzipped"
        -- A known class is named ONLY when the implementation does exactly what the model (which
        -- has the three recorded defects built in) predicts; a failure the model does not
        -- reproduce is never absorbed by a known label.
        if !agree then s!"propfail roundtrip-unexplained {why} ; diff {modelStr}"
        else if hasMultiColl layers then "propfail collection-members " ++ why
        else if (geomsOf layers).any (fun g => !geomNoDupClose g) then "propfail ring-reclose " ++ why
        else if oriRoundsOnBigRing layers then "propfail regroup-rounding " ++ why
        else "propfail roundtrip " ++ why
    else
      if !agree then "diff " ++ modelStr else
      let cls := if frac then "nonwf-frac"
        else if hasBigId layers && mvtWF (spec.map fun l => { l with features := l.features.map fun f => { f with id := .none } }) then "nonwf-bigid"
        else "nonwf"
      s!"ok {cls} {mcls} {match implU with | some u => (u.splitOn " ").headD "-" | none => "-"}"
  | _, _ => "bad output"

/-! ### hostile tiles (C05) -/

def parseTVal (t : String) : Option TVal :=
  match t.splitOn ":" with
  | ["s", h] => (unH h).map .str
  | ["f", h] => (hexToNat? h).map fun n => .float (UInt32.ofNat n)
  | ["d", h] => (hexToNat? h).map fun n => .double (UInt64.ofNat n)
  | ["i", v] => v.toInt?.map .int
  | ["u", v] => v.toNat?.map .uint
  | ["z", v] => v.toInt?.map .sint
  | ["b", b] => some (.bool (b == "1"))
  | ["e"] => some .empty
  | _ => none

def wordP : P W := fun ts => (nat ts).map fun (n, ts) => (BitVec.ofNat 32 n, ts)

def vtFeatureP : P VTFeature := fun ts => do
  let (idt, ts) ← tok ts
  let id ← if idt == "-" then some none else idt.toNat?.map some
  let (ty, ts) ← int ts
  let (tags, ts) ← counted wordP ts
  let (geom, ts) ← counted wordP ts
  pure ({ id := id, tags := tags, gtype := ty, geometry := geom }, ts)

def tvalP : P TVal := fun ts =>
  match ts with
  | [] => none
  | t :: ts => (parseTVal t).map (·, ts)

def vtLayerP : P VTLayer := fun ts => do
  let (name, ts) ← strP ts
  let (v, ts) ← nat ts
  let (e, ts) ← nat ts
  let (keys, ts) ← counted strP ts
  let (vals, ts) ← counted tvalP ts
  let (fs, ts) ← counted vtFeatureP ts
  pure ({ name := name, version := v, extent := e, keys := keys, values := vals, features := fs }, ts)

/-- Bytes allowed per input byte, and the fixed allowance, for `Unmarshal`.
    Per byte of a tile the decoder may legitimately keep: a 16-byte point per two 1-byte words
    (8 B/B) and as much again while `append` grows a multi-geometry; a `geojson.Feature`
    (≈ 150 B incl. its map header) per ≥ 8-byte feature message (≈ 19 B/B); a map bucket share
    of ≈ 42 B per 2-byte tag pair (21 B/B); a boxed 16-byte interface plus the slice growth of
    `d.values` per 2-byte value message (≈ 24 B/B).  These do not add up on the same bytes;
    64 B/B covers each with a factor ≥ 2.  The fixed part covers the decoder, iterators and
    first map/slice allocations, plus what the harness's other goroutines allocate meanwhile. -/
def allocPerByte : Nat := 64
def allocFixed : Nat := 65536
/-- `UnmarshalGzipped` additionally holds the inflate state (≈ 45 KiB window and tables) and
    `ReadAll`'s doubling buffer (< 4 × the unzipped length); its bound is stated against the
    unzipped length. -/
def allocFixedGz : Nat := 131072

def handleHostile (inp out : List String) : String :=
  match inp with
  | [hx] =>
    let cs := if hx == "empty" then [] else hx.toList
    match hexBytes cs with
    | none => "bad hex"
    | some data =>
    let len := data.length
    let secs := splitSemi out
    let sec (k : String) : Option Toks := (secs.find? fun s => s.head? == some k).map (·.drop 1)
    match sec "U", sec "G" with
    | some [ucls, ua], some [gcls, ga, dl] =>
      match ua.toNat?, ga.toNat?, dl.toNat? with
      | some ua, some ga, some dl =>
        -- the model, when the bytes are the canonical encoding of a tile structure
        let vt := (sec "VT").bind fun ts => (counted vtLayerP ts).bind fun (t, rest) => if rest.isEmpty then some t else none
        let model := vt.map fun t =>
          let r := unmarshalVTWith oriFloat t
          (classOf (unmarshalTop data r.1), r.2, vtSize t)
        let ucls' := if ucls == "err:wire" then "err:wire" else ucls
        let agree := match model with
          | some (mc, ma, _) => mc == ucls' && 8 * ma ≤ ua
          | none => true
        let fin (s : String) : String :=
          if s.startsWith "propfail" || agree then s
          else match model with
            | some (mc, ma, _) => s!"diff U {mc} alloc>={8 * ma}"
            | none => s
        fin <|
        if ucls.startsWith "panic" then "propfail panic unmarshal" else
        if gcls.startsWith "panic" then "propfail panic gzipped" else
        (match model with
         | some (_, ma, sz) => if ma > sz + 1 then some s!"propfail alloc model capacity={ma} words={sz}" else none
         | none => none).getD <|
        if ua > allocPerByte * len + allocFixed then s!"propfail alloc unmarshal bytes={ua} len={len}" else
        if ga > allocPerByte * (len + dl) + allocFixedGz then s!"propfail alloc gzipped bytes={ga} len={len} unzipped={dl}" else
        let tag := if len ≤ 2 then "triv-short" else if vt.isSome then "canonical" else "wire"
        s!"ok {tag} {ucls}"
      | _, _, _ => "bad output"
    | _, _ => "bad output"
  | _ => "bad input"

/-! ### the wire encoding: Go's bytes against `ProtoWire.encodeTile` / `decodeTile` -/

def toHex (bs : List UInt8) : String :=
  if bs.isEmpty then "empty" else String.join (bs.map fun b => natToHex b.toNat 2)

def firstDiff : List UInt8 → List UInt8 → Nat → Nat
  | a :: as, b :: bs, i => if a == b then firstDiff as bs (i + 1) else i
  | _, _, i => i

def werrClass : ProtoWire.WErr → String
  | .wire => "wire" | .geomTail => "geomtail" | .nonUtf8 => "nonutf8"

/-- `wire`: the harness ships the bytes `mvt.Marshal` wrote.  (1) `encodeTile (marshalVT layers)`
    must be those bytes; (2) `decodeTile` of Go's bytes must be the structure the generated
    package reads from them (and the model's own structure); (3) `unmarshalBytes` of Go's bytes
    must be what `mvt.Unmarshal` returned.  Property: the four marshals are byte-identical, and
    on the exact domain the bytes unmarshal to the expected layers. -/
def handleWire (inp out : Toks) : String :=
  match (do
    let (raw, rest) ← counted layerP inp
    if !rest.isEmpty then none else pure raw) with
  | none => "bad input"
  | some raw =>
  match toLayers raw with
  | none => "skip coord-out-of-int32"
  | some (layers, frac) =>
  let secs := splitSemi out
  let sec (k : String) : Option Toks := (secs.find? fun s => s.head? == some k).map (·.drop 1)
  match sec "M", sec "D" with
  | some [mcls], some [d] =>
    if let some v := keptVerdict (sec "K") (mcls == "ok" && (sec "U").isSome) then v else
    if let some t := inp.find? (fun t => t.startsWith "j:x" && !jsonTokOK t) then s!"bad json-text of {(t.take 60).toString} is not what the driver derives" else
    if d != "1" then "propfail deterministic" else
    let mvt := marshalVT layers
    if classOf mvt != mcls then s!"diff M {classOf mvt}" else
    match mvt with
    | .ok t =>
      (match sec "B", (sec "VT").map join, (sec "U").map join with
       | some [bhex], some implVT, some implU =>
         match hexBytes (if bhex == "empty" then [] else bhex.toList) with
         | none => "bad hex"
         | some goB =>
           let mb := ProtoWire.encodeTile t
           if mb != goB then
             let i := firstDiff mb goB 0
             s!"diff bytes at {i} of model {mb.length} impl {goB.length}: model {toHex ((mb.drop (i - min i 4)).take 12)}"
           else
           match ProtoWire.decodeTile goB with
           | .err e => s!"diff decodeTile err:{werrClass e}"
           | .panic w => s!"diff decodeTile panic {w}"
           | .ok t' =>
             if showVT t' != implVT then s!"diff decodeTile VT {showVT t'}"
             else if t' != t then "diff decodeTile structure"
             else
             let modelU := showOutcome (ProtoWire.unmarshalBytesWith oriFloat goB)
             if modelU != implU then s!"diff U {modelU}"
             else
             -- the hypotheses of `bytes_roundtrip_exact`
             let exact := !frac && mvtWF layers && exactDomainZ layers && oriAgreeB layers
             if exact && implU != showDLayers (expectLayers layers) then "propfail bytes-roundtrip"
             else if goB.isEmpty then "ok triv-empty-tile"
             else if exact then s!"ok wire exact len{(Nat.log2 goB.length)}"
             else if !frac && mvtWF layers then "ok wire wf"
             else s!"ok wire nonwf {(implU.splitOn " ").headD "-"}"
       | _, _, _ => "bad output")
    | _ => s!"ok wire marshal-{mcls}"
  | _, _ => "bad output"

/-- `wireh`: arbitrary bytes through `mvt.Unmarshal`, full outcome, against
    `ProtoWire.unmarshalBytes`.  Property: no panic. -/
def handleWireH (inp out : Toks) : String :=
  match inp, out with
  | [hx], "U" :: _ =>
    let secs := splitSemi out
    let sec (k : String) : Option Toks := (secs.find? fun s => s.head? == some k).map (·.drop 1)
    let u := (sec "U").getD []
    match hexBytes (if hx == "empty" then [] else hx.toList) with
    | none => "bad hex"
    | some data =>
      let implU := join u
      if let some v := keptVerdict (sec "K") true then v else
      if implU.startsWith "panic" then "propfail panic unmarshal" else
      let implErr := implU.startsWith "err"
      let len := if data.length ≤ 2 then "triv-short" else "hostile"
      match ProtoWire.decodeTile data with
      | .panic w => s!"diff decodeTile panic {w}"
      | .err .nonUtf8 => "skip non-utf8-string"
      -- an error comes out as ErrDataIsGZipped iff the data starts with the gzip magic
      -- (`unmarshalTop`); the class of any other scanner error is not modelled
      | .err .geomTail =>
        if !implErr then s!"ok {len} geomtail lenient"
        else if (implU == "err:gzipped") != dataIsGZipped data then s!"diff U {classOf (unmarshalTop data (.err .wire : R Unit))}"
        else s!"ok {len} geomtail err"
      | .err .wire =>
        let want := classOf (unmarshalTop data (.err .wire : R Unit))
        if !implErr then s!"diff U {want}"
        else if (implU == "err:gzipped") != dataIsGZipped data then s!"diff U {want}"
        else if want == "err:gzipped" then s!"ok {len} wire-err gzip-magic" else s!"ok {len} wire-err"
      | .ok _ =>
        let modelU := showOutcome (ProtoWire.unmarshalBytesWith oriFloat data)
        if modelU == implU then s!"ok {len} scanned {(implU.splitOn " ").headD "-"}{if dataIsGZipped data then " gzip-magic" else ""}"
        else s!"diff U {modelU}"
  | _, _ => "bad input"

/-- `rawstr`: a layer name, a key and a string value given as raw bytes (possibly not UTF-8, which
    a Lean `String` cannot hold, so there is no model side): the property clause alone — the three
    byte strings come back unchanged, plain and gzipped, and the bytes are the same on every
    marshal.  Compared on the hex tokens. -/
def handleRawStr (inp out : Toks) : String :=
  match inp, out with
  | [n, k, v], [cls, n', k', v', g, d, kp] =>
    if cls.startsWith "panic" then "propfail panic rawstr"
    else if kp != "kept" then s!"propfail kept-result rawstr {kp}"
    else if d != "1" then "propfail deterministic rawstr"
    else if cls != "ok" then s!"propfail rawstr {cls}"
    else if n' != n || k' != k || v' != v then "propfail rawstr roundtrip"
    else if g != "same" then "propfail rawstr gzipped"
    else
      let utf8 := (unH n).isSome && (unH k).isSome && (unH v).isSome
      if utf8 then "ok rawstr utf8" else "ok rawstr non-utf8"
  | _, cls :: _ => if cls.startsWith "panic" then "propfail panic rawstr" else "bad rawstr"
  | _, _ => "bad rawstr"

/-- `newlayers`: `mvt.Marshal(mvt.NewLayers(m))` repeated on one map `m` (the way the package
    documentation builds a tile).  No model: the clause is determinism — the bytes are a function
    of the map — and that every output decodes to the map's layers (as a set: names, version 1,
    extent 4096, the features in order). -/
def handleNewLayers (inp out : Toks) : String :=
  let secs := splitSemi out
  let sec (k : String) : Option Toks := (secs.find? fun s => s.head? == some k).map (·.drop 1)
  match inp, sec "N", sec "S" with
  | _ :: nl :: _, some [dist, reps], some [s] =>
    if s != "1" then "propfail newlayers-roundtrip"
    else if dist != "1" then s!"propfail newlayers-order {dist} different tiles in {reps} calls on one map"
    else if nl == "0" || nl == "1" then "ok triv-newlayers"
    else "ok newlayers"
  | _, _, _ =>
    match out with
    | cls :: _ => if cls.startsWith "panic" then "propfail panic newlayers" else s!"bad newlayers {cls}"
    | [] => "bad newlayers"

def handle (ts : Toks) : String :=
  match ts with
  | op :: rest =>
    let (inp, out) := splitArrow rest
    match op with
    | "rt" => handleRT inp out
    | "hostile" => handleHostile inp out
    | "wire" => handleWire inp out
    | "wireh" => handleWireH inp out
    | "rawstr" => handleRawStr inp out
    | "newlayers" => handleNewLayers inp out
    | _ => "bad op " ++ op
  | [] => "bad empty"

end Driver.C03
