import Orb.Proto
import Orb.Project
import Driver.C18
import Driver.HeapOps
import Std.Data.HashMap

/-!
  Driver for C15 (project.WGS84 / Mercator closed forms, project.Geometry, mvt tile projection).

  Same scheme as `Driver/C18.lean`: the model `Orb.Project` is instantiated at `OF` (Float + oracle
  flag) with `sin log atan exp tan` reading the table of Go's own libm values shipped with the case;
  `floor`, `+ − × ÷`, comparisons and `math.Max/Min` are redone here and must reproduce the
  implementation's outputs bit for bit.

  Executable property on the implementation's outputs:
  * `w2m` / `m2w`: round trip within 1e-9 degrees / 1 mm (MEASURED float accuracy, not proved);
  * `tile`: tile → WGS84 → tile returns exactly the input integers.  Failures are classified by
    clause: `tile-roundtrip-pow2`, `tile-roundtrip-nonpow2` (the missing half pixel, repaired by fix
    7b86dd1: must now pass on every non-polar pixel),
    `tile-roundtrip-polar-clamp` — emitted ONLY when model and implementation agree on the case, the
    tile has zoom ≤ 1, and EVERY bad vertex is bad in y alone and is itself a pixel on whose own
    latitude `mercator.ToPlanar`'s ±0.9999 clamp fires (|lat| > asin(0.9999) = 89.1897°); a failing
    vertex that is not such a pixel is never absorbed;
    judged domain of the exact round trip: zoom ≤ 22 and zoom + log₂ extent ≤ 44 (error analysis at
    `resolutionLimit`); failures outside are `skip`, the twin is compared everywhere;
  * `tiles`: the same for `Layers.ProjectToWGS84` / `Layers.ProjectToTile` (models `layersProjectTo*`),
    judged layer by layer; `tile` runs the models `layerProjectToWGS84` / `layerProjectToTile`;
  * `proj`: kind / nesting / order preserved, `proj` called exactly once per vertex in storage order,
    bound = box of the two projected corners, slices transformed in place; `projd` is the same case
    through the exported helper of the kind (`project.LineString`, …) instead of `project.Geometry`;
  * `projn`: the same clauses on geometries of up to ~10⁵ vertices / members built from a formula on both
    sides (`bigGeom`); the implementation's result travels as a digest (`digGeom`), which must equal the
    digest of the specification (`fill g (ptsM f (verts g))`) and of the model;
  * ABSOLUTE position (`tile-wgs84-absolute`, every `tile` / `tiles` / `seq` / `abs` case inside the judged
    domain): the WGS84 image of every pixel equals the closed-form pixel centre of THAT tile and extent,
    computed here with Lean's own libm, within 1e-9 degrees — a wrong offset shared by both directions
    (a self-consistent round trip) fails it; `abs` additionally compares the images of pixel −½ and
    extent−½ with the corners of maptile's `Tile.Bound()` (`tile-corner-bound`) and brackets the pixels
    (0,0) and (extent, extent) within one pixel of them (`tile-pixel-bound`);
  * receiver history: a trailing input token `w` / `wc` / `n` / `wn` on `tile` / `tiles` / `totile` / `abs`
    means that the measured calls ran on a layer value already used for other tiles and another extent
    (`wc`: on a struct copy of it; `n`: on a value built by `mvt.NewLayer`; `wn`: both) — the verdict is that of the fresh value, the models are pure functions of
    (tile, extent); `seq` judges every step of a sequence of (tile, extent) steps over three layer
    values and one `Layers` value like a `tile` case.
-/
namespace Driver.C15
open Orb Orb.Proto Orb.Project Driver.C18

def twoPiBits : UInt64 := 0x401921FB54442D18
def piHalfBits : UInt64 := 0x3FF921FB54442D18
def d180piBits : UInt64 := 0x404CA5DC1A63C1F8
def rBits : UInt64 := 0x415854A640000000
def rPiBits : UInt64 := 0x41731BF8457C1093
def rPi180Bits : UInt64 := 0x40FB2D77DA4A0C31
def c9999Bits : UInt64 := 0x3FEFFF2E48E8A71E

/-- the table of recorded libm calls, hashed (tables of the size families reach 10⁵ entries);
    the first entry of a key wins, as in `C18.look1` -/
abbrev Tab := Std.HashMap (String × UInt64) UInt64

def tabOf (t : Array Ent) : Tab :=
  t.foldl (fun m e => if m.contains (e.fn, e.a) then m else m.insert (e.fn, e.a) e.v) {}

def lookH (m : Tab) (fn : String) (x : OF) : OF :=
  if x.v.isNaN then ⟨nanF, x.ok⟩ else
  match m[(fn, x.v.toBits)]? with
  | some v => ⟨Float.ofBits v, x.ok⟩
  | none => ⟨nanF, false⟩

def mkMFnH (m : Tab) : MFn OF where
  sin := lookH m "s"
  log := lookH m "l"
  atan := lookH m "a"
  exp := lookH m "e"
  tan := lookH m "t"
  floor := fun x => ⟨x.v.floor, x.ok⟩
  max := fun a b => ⟨goMax a.v b.v, a.ok && b.ok⟩
  min := fun a b => ⟨goMin a.v b.v, a.ok && b.ok⟩
  ofNat := fun n => ⟨Float.ofNat n, true⟩
  pi := ofB piBits
  twoPi := ofB twoPiBits
  piHalf := ofB piHalfBits
  d180pi := ofB d180piBits
  R := ofB rBits
  rPi := ofB rPiBits
  rPi180 := ofB rPi180Bits
  c9999 := ofB c9999Bits

def mkMFn (t : Array Ent) : MFn OF := mkMFnH (tabOf t)

instance : LE OF := ⟨fun a b => a.v ≤ b.v⟩
instance : DecidableLE OF := fun a b => inferInstanceAs (Decidable (a.v ≤ b.v))
/-- `Bound.Extend` calls `math.Min` / `math.Max`: NaN propagates, `Min(-0, +0) = -0` (not `if a ≤ b`). -/
instance : Min OF := ⟨fun a b => ⟨goMin a.v b.v, a.ok && b.ok⟩⟩
instance : Max OF := ⟨fun a b => ⟨goMax a.v b.v, a.ok && b.ok⟩⟩

/-- Verdict assembly.  `propfail` outranks `diff` EXCEPT for the label that a known finding absorbs
    (`tile-roundtrip-polar-clamp`): that one is only ever produced when model and implementation
    agree (see `judgeLayer`), and should it still meet a disagreement the `diff` wins. -/
def fin15 (agree : Option String) (s : String) : String :=
  match agree with
  | some d => if s.startsWith "propfail" && !s.startsWith "propfail tile-roundtrip-polar-clamp" then s else d
  | none => s

/-- `consts => pi twoPi piHalf d180pi R rPi rPi180 c9999 DefaultExtent` -/
def handleConsts (out : Toks) : String :=
  match (counted bits) (toString 8 :: out) with
  | some (l, rest) =>
    if l == [piBits, twoPiBits, piHalfBits, d180piBits, rBits, rPiBits, rPi180Bits, c9999Bits] && rest == ["4096"]
    then "ok consts" else "diff consts"
  | none => "bad consts"

/-- `shape => Layer n field:type* Layers elem`: the exported struct the models `layerProjectTo*` stand for
    is (Name, Version, Extent, Features) — the projection reads `Extent` and `Features` only.  Any other
    field is receiver state the model cannot follow (a cache, a flag): model and code disagree. -/
def handleShape (out : Toks) : String :=
  if out == ["Layer", "4", "Name:string", "Version:uint32", "Extent:uint32", "Features:[]*geojson.Feature", "Layers", "*mvt.Layer"]
  then "ok shape layer-fields" else "diff layer-fields Layer 4 Name:string Version:uint32 Extent:uint32 Features:[]*geojson.Feature Layers *mvt.Layer"

def absF (x : Float) : Float := x.abs

/-- `w2m lon lat => mx my lon2 lat2 T…` -/
def handleW2M (inp out : Toks) : String :=
  match (do
    let (g, _) ← pt inp
    let (m, o) ← pt out
    let (g2, o) ← pt o
    let (t, _) ← tableP o
    pure (g, m, g2, t)) with
  | none => if out == ["panic"] then "propfail panic" else "bad w2m"
  | some (g, m, g2, t) =>
    let F := mkMFn t
    let mm := wgs84ToMercator F (toO g)
    let mg := mercatorToWGS84 F (toO m)
    fin (cmpAll [mm.x, mm.y, mg.x, mg.y] [m.x, m.y, g2.x, g2.y]) <|
    let ex := (fl g2.x - fl g.x).abs
    let ey := (fl g2.y - fl g.y).abs
    if !((fl g.y).abs ≤ 85.05) then
      -- outside the quantifier (|lat| ≤ 85.05): twin only; the tag says whether the ±earthRadiusPi clamp fired
      let yraw := F.log (F.tan ((90 + ofB g.y) * F.pi / 360)) * F.R
      s!"ok w2m beyond-range {if yraw.v.isNaN then "nan" else if yraw.v > (ofB rPiBits).v || yraw.v < -(ofB rPiBits).v then "clamp-active" else "clamp-inactive"} twin-only"
    else
    -- measured: 1e-9 degrees
    if !(ex ≤ 1e-9) then "propfail merc-roundtrip-lon" else
    if !(ey ≤ 1e-9) then "propfail merc-roundtrip-lat" else
    let e := if ex < ey then ey else ex
    s!"ok w2m {if e == 0 then "e=0" else if e < 1e-13 then "e<1e-13" else if e < 1e-11 then "e<1e-11" else "e<=1e-9"}"

/-- `m2w mx my => lon lat mx2 my2 T…` -/
def handleM2W (inp out : Toks) : String :=
  match (do
    let (m, _) ← pt inp
    let (g, o) ← pt out
    let (m2, o) ← pt o
    let (t, _) ← tableP o
    pure (m, g, m2, t)) with
  | none => if out == ["panic"] then "propfail panic" else "bad m2w"
  | some (m, g, m2, t) =>
    let F := mkMFn t
    let mg := mercatorToWGS84 F (toO m)
    let mm := wgs84ToMercator F (toO g)
    fin (cmpAll [mg.x, mg.y, mm.x, mm.y] [g.x, g.y, m2.x, m2.y]) <|
    let ex := (fl m2.x - fl m.x).abs
    let ey := (fl m2.y - fl m.y).abs
    -- outside the square |x|, |y| ≤ R·π the forward map clamps y (and lon leaves [-180,180]): not in the quantifier
    if !((fl m.x).abs ≤ fl rPiBits) || !((fl m.y).abs ≤ fl rPiBits) then "skip mercator-outside-range twin-only" else
    -- measured: 1 mm
    if !(ex ≤ 1e-3) then "propfail merc-roundtrip-rev-x" else
    if !(ey ≤ 1e-3) then "propfail merc-roundtrip-rev-y" else
    let e := if ex < ey then ey else ex
    s!"ok m2w {if e == 0 then "e=0" else if e < 1e-8 then "e<1e-8" else if e < 1e-6 then "e<1e-6" else "e<=1e-3"}"

def many' {α} (p : P α) (n : Nat) : P (List α) := many p n

/-- flat vertex list with Float coordinates -/
def vertsF (g : Geom UInt64) : List (Pt Float) := (verts g).map (mapPt fl)

def geomBitsEq (a b : Geom UInt64) : Bool := showGeom a == showGeom b

/-- float `==` on all coordinates and identical structure (`-0 == +0`) -/
def geomFloatEq (a b : Geom UInt64) : Bool :=
  showGeom (mapGeom (fun _ => (0 : UInt64)) a) == showGeom (mapGeom (fun _ => (0 : UInt64)) b) &&
  ((coords a).zip (coords b)).all fun (x, y) => fl x == fl y

/-- identical structure and float-equal coordinates (`-0 == +0`), all NaNs identified (Go's `math.Min/Max` return
    `math.NaN()`, an overflowing `Inf - Inf` the hardware's default NaN) -/
def geomNaNEq (a b : Geom UInt64) : Bool :=
  showGeom (mapGeom (fun _ => (0 : UInt64)) a) == showGeom (mapGeom (fun _ => (0 : UInt64)) b) &&
  ((coords a).zip (coords b)).all fun (x, y) => fl x == fl y || sameF (fl x) y

def pureProj (f : Pt OF → Pt OF) : Proj Unit OF := fun p s => (f p, s)

def geomOk (g : Geom OF) : Bool := (coords g).all (·.ok)
def geomBits (g : Geom OF) : Geom UInt64 := mapGeom (fun (x : OF) => x.v.toBits) g

/-- model geometry (OF) against implementation geometry (bits), NaN-insensitive bit equality -/
def geomAgree (m : Geom OF) (i : Geom UInt64) : Option String :=
  if !geomOk m then some "diff oracle-miss" else
  let mb := geomBits m
  if showGeom (mapGeom (fun _ => (0 : UInt64)) mb) != showGeom (mapGeom (fun _ => (0 : UInt64)) i) then some ("diff " ++ showGeom mb)
  else if ((coords mb).zip (coords i)).all (fun (x, y) => sameF (fl x) y) then none
  else some ("diff " ++ showGeom mb)

def firstSome (l : List (Option String)) : Option String := l.findSome? id

/-- vertices of a feature geometry (none for nil / typed nil) -/
def vertsV (g : GVal UInt64) : List (Pt Float) :=
  match g with
  | .val g => vertsF g
  | _ => []

/-- The units in which a round-trip failure is attributed: every vertex on its own, except that the
    two corners of a `Bound` form ONE unit — `project.Bound` re-boxes after each stage, so one clamped
    corner (sent to the bottom row by `ToPlanar`) displaces both y values of the box. -/
partial def unitsG (g : Geom UInt64) : List (List (Pt Float)) :=
  match g with
  | .bound a b => [[mapPt fl a, mapPt fl b]]
  | .collection gs => gs.flatMap unitsG
  | g => (vertsF g).map fun p => [p]

def unitsV (g : GVal UInt64) : List (List (Pt Float)) :=
  match g with
  | .val g => unitsG g
  | _ => []

def shapeStr (g : GVal UInt64) : String := showGVal (mapGVal (fun _ => (0 : UInt64)) g)

/-- model feature (OF) against implementation feature (bits) -/
def gvalAgree (m : GVal OF) (i : GVal UInt64) : Option String :=
  match m, i with
  | .val a, .val b => geomAgree a b
  | a, b =>
    let ab : GVal UInt64 := mapGVal (fun (x : OF) => x.v.toBits) a
    if showGVal ab == showGVal b then none else some ("diff " ++ showGVal ab)

/-- Judged domain of "exactly the same integers": `zoom + log₂ extent ≤ resolutionLimit`.
    Error analysis (float64, |u| ≤ 2 world widths): `ToGeo` delivers the latitude to a few 2⁻⁵³ rad;
    in `ToPlanar` the quotient `(1+s)/(1−s)` loses `2⁻⁵³/(1−s)` relative, i.e. ≤ 2⁻⁴⁵ inside the
    mercator square (1−s ≥ 0.0038) and ≤ 2⁻³⁹·⁷ up to the clamp (1−s ≥ 10⁻⁴, zoom ≤ 1 only); after
    `log` and `/4π` the world fraction is off by ≤ 2⁻⁴⁸ (2⁻⁴³ near the clamp), so a pixel of
    `2^-(zoom + log₂ extent)` world widths keeps its ½-pixel margin up to level 46 (41 near the
    clamp, where uint32 extents at zoom ≤ 1 reach level 33 at most).  44 leaves a factor 8. -/
def resolutionLimit : Nat := 44

/-! ### absolute position of a tile's pixels -/

/-- the property's stated tolerance: 1e-9 degrees -/
def absTol : Float := 1e-9

/-- pixels per tile side: the extent (2³² for extent 0: `isPowerOfTwo(0)`, n = 32) -/
def spanF (e : Nat) : Float := if e == 0 then 4294967296.0 else Float.ofNat e

/-- Closed form of the WGS84 position of the centre of pixel `p` of tile (x, y, z) at the given extent,
    with Lean's OWN `exp` / `atan` (no table, nothing of the model `newProjection`): world fraction
    `(tile + (pixel + ½) / extent) / 2^z`, longitude linear, latitude the inverse mercator. -/
def absWGS84 (x y z e : Nat) (p : Pt Float) : Pt Float :=
  let mt := Float.ofNat (2 ^ z)
  let u := (Float.ofNat x + (p.x + 0.5) / spanF e) / mt
  let v := (Float.ofNat y + (p.y + 0.5) / spanF e) / mt
  ⟨360 * (u - 0.5), 2 * Float.atan (Float.exp (piF - 2 * piF * v)) * (180 / piF) - 90⟩

def closeF (a b : Float) : Bool := (a - b).abs ≤ absTol

def level (z e : Nat) : Nat := if isPowerOfTwo e then z + trailingZeros32 e else z + Nat.log2 e

/-- domain of the absolute clause: a tile of the quantifier (zoom ≤ 22, x, y < 2^z) inside the judged resolution -/
def absDomain (x y z e : Nat) : Bool := z ≤ 22 && x < 2 ^ z && y < 2 ^ z && level z e ≤ 44

/-- number of units (vertices; a bound's two corners together: `project.Bound` re-boxes) of the WGS84
    outputs `g1` that are NOT within `absTol` of the closed form of their input pixel, and the number of units -/
def absBad (x y z e : Nat) (gs g1 : List (GVal UInt64)) : Nat × Nat :=
  let ups := (gs.flatMap unitsV).zip (g1.flatMap unitsV)
  let mn := fun (a b : Float) => if a ≤ b then a else b
  let mx := fun (a b : Float) => if a ≤ b then b else a
  let bad := ups.filter fun (ui, uo) =>
    match ui, uo with
    | [a], [o] => let w := absWGS84 x y z e a; !(closeF w.x o.x && closeF w.y o.y)
    | [a, b], [lo, hi] =>
      let wa := absWGS84 x y z e a
      let wb := absWGS84 x y z e b
      !(closeF (mn wa.x wb.x) lo.x && closeF (mn wa.y wb.y) lo.y && closeF (mx wa.x wb.x) hi.x && closeF (mx wa.y wb.y) hi.y)
    | _, _ => true
  (bad.length, ups.length)

/-- The tile round trip of ONE layer, judged on the implementation's outputs `g1` (WGS84) and `g2` (back
    in the tile) for inputs `gs`.  `agreed` = the twin reproduced the implementation on this case. -/
def judgeLayer (F : MFn OF) (agreed : Bool) (x y z e : Nat) (gs g1 g2 : List (GVal UInt64)) : String :=
  let T := newProjection F x y z e
  let pow2 := isPowerOfTwo e
  let vin := gs.flatMap vertsV
  let vout := g2.flatMap vertsV
  let sameShape := gs.length == g2.length && (gs.zip g2).all fun (a, b) => shapeStr a == shapeStr b
  if !sameShape then "propfail tile-roundtrip-shape" else
  let sameShape1 := gs.length == g1.length && (gs.zip g1).all fun (a, b) => shapeStr a == shapeStr b
  if !sameShape1 then "propfail tile-wgs84-shape" else
  -- absolute clause first: it is never absorbed by a known finding
  let ab := if absDomain x y z e then absBad x y z e gs g1 else (0, 0)
  if ab.1 != 0 then s!"propfail tile-wgs84-absolute extent={e} z={z} bad={ab.1} of={ab.2}" else
  let n := vin.length
  let pairs := vin.zip vout
  let badx := (pairs.filter fun (a, b) => !(a.x == b.x)).length
  let bady := (pairs.filter fun (a, b) => !(a.y == b.y)).length
  -- the level at which one pixel is one unit: `z + n` on the power-of-two path (n = 32 for extent 0)
  let level := if pow2 then z + trailingZeros32 e else z + Nat.log2 e
  let cls := if e == 0 then "extent0" else if pow2 then "pow2" else "nonpow2"
  let ext := if e < 256 then " ext<256" else if e > 8192 then " ext>8192" else ""
  let zb := if z ≤ 7 then "0-7" else if z ≤ 15 then "8-15" else if z ≤ 22 then "16-22" else ">22"
  if badx == 0 && bady == 0 then
    (if n == 0 then "ok triv-tile-no-vertices" else s!"ok tile {cls} z={zb}{ext}")
  else
    -- A bad vertex is excused ONLY by its own latitude (a bound: by one of its own two corners, see
    -- `unitsG`): the model's latitude of that very pixel must make ToPlanar's clamp fire (sin(lat) beyond ±0.9999 ⇔ |lat| > 89.1897°), which within the pixel
    -- range [-extent, 2·extent) happens only at zoom ≤ 1 (|u| > 0.288 world widths above/below the map).
    let clamped := fun (p : Pt Float) =>
      let lat := (T.toWGS84 ⟨⟨p.x, true⟩, ⟨p.y, true⟩⟩).y
      let siny := F.sin (lat * F.pi / 180)
      siny.ok && (siny.v < -(F.c9999.v) || F.c9999.v < siny.v) && lat.v.abs > 89.1897
    let upairs := (gs.flatMap unitsV).zip (g2.flatMap unitsV)
    let badu := upairs.filter fun (ua, ub) => (ua.zip ub).any fun (a, b) => !(a.x == b.x) || !(a.y == b.y)
    let excused := badu.all fun (ua, ub) => ((ua.zip ub).all fun (a, b) => a.x == b.x) && ua.any clamped
    let polar := (vin.filter clamped).length
    let offBy1 := pairs.all fun (a, b) => (a.x == b.x || a.x - b.x == 1) && (a.y == b.y || a.y - b.y == 1)
    if agreed && z ≤ 1 && excused then s!"propfail tile-roundtrip-polar-clamp extent={e} z={z} bad-y={bady} of={n}"
    else if z > 22 then s!"skip zoom-outside-quantifier z={z}"
    else if level > resolutionLimit then s!"skip float-resolution zoom+log2(extent)={level}"
    else if pow2 then s!"propfail tile-roundtrip-pow2 extent={e} z={z} bad-x={badx} bad-y={bady} polar={polar} of={n}"
    else s!"propfail tile-roundtrip-nonpow2 extent={e} z={z} bad-x={badx} bad-y={bady} polar={polar} of={n} {if offBy1 then "all-one-low" else "mixed"}"

def warmTag (rest : Toks) : String :=
  match rest with
  | ["w"] => " used-layer"
  | ["wc"] => " copy-of-used-layer"
  | ["n"] => " newlayer"
  | ["wn"] => " used-newlayer"
  | _ => ""

/-- `tile X Y Z extent k geom* [w|wc] => geom*(wgs84) geom*(tile) T…`
    (`Layer.ProjectToWGS84` then `Layer.ProjectToTile`; features may be nil / typed nil) -/
def handleTile (inp out : Toks) : String :=
  match (do
    let (x, i) ← nat inp
    let (y, i) ← nat i
    let (z, i) ← nat i
    let (e, i) ← nat i
    let (k, i) ← nat i
    let (gs, wm) ← many gval k i
    let (g1, o) ← many gval k out
    let (g2, o) ← many gval k o
    let (t, _) ← tableP o
    pure (x, y, z, e, gs, g1, g2, t, wm)) with
  | none => if out == ["panic"] then "propfail panic" else "bad tile"
  | some (x, y, z, e, gs, g1, g2, t, wm) =>
    let F := mkMFn t
    -- stage 1: the model of Layer.ProjectToWGS84 on the input; stage 2: the model of
    -- Layer.ProjectToTile on the implementation's own WGS84 features
    let m1 := layerProjectToWGS84 F x y z e (gs.map toOV)
    let m2 := layerProjectToTile F x y z e (g1.map toOV)
    let agree := firstSome ((m1.zip g1).map (fun (m, i) => gvalAgree m i) ++ (m2.zip g2).map (fun (m, i) => gvalAgree m i))
    let v := judgeLayer F agree.isNone x y z e gs g1 g2
    -- `w` / `wc`: the calls ran on a used layer value / on a struct copy of a used one (tag only)
    fin15 agree <| if v.startsWith "ok tile" then v ++ warmTag wm else v

/-- the features of every layer, layer by layer (as many per layer as the input has) -/
def outP : List (Nat × List (GVal UInt64)) → P (List (List (GVal UInt64)))
  | [] => fun ts => some ([], ts)
  | l :: ls => fun ts => do
    let (a, ts) ← many gval l.2.length ts
    let (as, ts) ← outP ls ts
    pure (a :: as, ts)

/-- `tiles X Y Z n (extent k geom*)ⁿ => (geom*)ⁿ(wgs84) (geom*)ⁿ(tile) T…`
    (`Layers.ProjectToWGS84` then `Layers.ProjectToTile` on n layers, each with its own extent) -/
def handleTiles (inp out : Toks) : String :=
  let layerP : P (Nat × List (GVal UInt64)) := fun ts => do
    let (e, ts) ← nat ts
    let (k, ts) ← nat ts
    let (gs, ts) ← many gval k ts
    pure ((e, gs), ts)
  match (do
    let (x, i) ← nat inp
    let (y, i) ← nat i
    let (z, i) ← nat i
    let (n, i) ← nat i
    let (ls, wm) ← many layerP n i
    let (g1, o) ← outP ls out
    let (g2, o) ← outP ls o
    let (t, _) ← tableP o
    pure (x, y, z, ls, g1, g2, t, wm)) with
  | none => if out == ["panic"] then "propfail panic" else "bad tiles"
  | some (x, y, z, ls, g1, g2, t, wm) =>
    let F := mkMFn t
    let m1 := layersProjectToWGS84 F x y z (ls.map fun l => (l.1, l.2.map toOV))
    let mid := (ls.zip g1).map fun (l, g) => (l.1, g.map toOV)
    let m2 := layersProjectToTile F x y z mid
    let cmp : List (Nat × List (GVal OF)) → List (List (GVal UInt64)) → List (Option String) := fun ms is =>
      (ms.zip is).flatMap fun (m, i) => (m.2.zip i).map fun (a, b) => gvalAgree a b
    let agree := firstSome (cmp m1 g1 ++ cmp m2 g2)
    let vs := ((ls.zip g1).zip g2).map fun ((l, ga), g) => judgeLayer F agree.isNone x y z l.1 l.2 ga g
    -- the worst verdict of the layers: propfail (unabsorbed first), then skip, then ok
    let pf := vs.filter (·.startsWith "propfail")
    let v :=
      match pf.find? (fun v => !v.startsWith "propfail tile-roundtrip-polar-clamp"), pf.head?, vs.find? (·.startsWith "skip") with
      | some v, _, _ => v
      | none, some v, _ => v
      | none, none, some v => v
      | none, none, none =>
        if vs.all (· == "ok triv-tile-no-vertices") then "ok triv-tiles-no-vertices"
        else s!"ok tiles layers={if ls.length ≤ 3 then toString ls.length else if ls.length ≤ 64 then "4-64" else ">64"}{if ls.any (fun l => isPowerOfTwo l.1) then " pow2" else ""}{if ls.any (fun l => !isPowerOfTwo l.1) then " nonpow2" else ""}{warmTag wm}"
    fin15 agree v

/-- `totile X Y Z extent geom => geom T…` (twin only) -/
def handleToTile (inp out : Toks) : String :=
  match (do
    let (x, i) ← nat inp
    let (y, i) ← nat i
    let (z, i) ← nat i
    let (e, i) ← nat i
    let (g, wm) ← geom i
    let (g1, o) ← geom out
    let (t, _) ← tableP o
    pure (x, y, z, e, g, g1, t, wm)) with
  | none => if out == ["panic"] then "propfail panic" else "bad totile"
  | some (x, y, z, e, g, g1, t, wm) =>
    let F := mkMFn t
    let T := newProjection F x y z e
    let m := (geometryM (pureProj T.toTile) (toOG g) ()).1
    fin (geomAgree m g1) <|
    if (vertsF g).any (fun p => p.y.abs > 89.1897) then "ok totile polar-clamp twin-only" ++ warmTag wm else "ok totile twin-only" ++ warmTag wm

/-- the harness's point function: the k-th call maps p to an affine image shifted by k -/
def affine (co : Array Float) : Proj Nat OF := fun p k =>
  let kf : Float := Float.ofNat k
  let c := fun (i : Nat) => co.getD i 0
  (⟨⟨c 0 * p.x.v + c 1 * p.y.v + c 2 + kf * c 3, true⟩, ⟨c 4 * p.x.v + c 5 * p.y.v + c 6 + kf * c 7, true⟩⟩, k + 1)

def gvalShow (g : GVal UInt64) : String := showGVal g

/-- `proj a b c d e f g h <gval> => <gval> calls alias`; `op` = `proj` (through `project.Geometry`) or
    `projd` (the exported helper of the kind called directly): same model, same clauses -/
def handleProj (op : String) (inp out : Toks) : String :=
  match (do
    let (co, i) ← many bits 8 inp
    let (g, _) ← gval i
    pure (co, g)) with
  | none => "bad proj"
  | some (co, g) =>
    if out == ["panic"] then "propfail panic" else
    match (do
      let (r, o) ← gval out
      let (calls, o) ← nat o
      let (al, _) ← tok o
      pure (r, calls, al)) with
    | none => "bad proj-out"
    | some (r, calls, al) =>
      let f := affine (co.map fl).toArray
      let (mr, mcalls) := geometryVM f (toOV g) 0
      let mrb : GVal UInt64 := mapGVal (fun (x : OF) => x.v.toBits) mr
      let agree : Option String :=
        match mrb, r with
        | .val a, .val b => if geomNaNEq a b then (if mcalls == calls then none else some s!"diff calls {mcalls}") else some ("diff " ++ showGeom a)
        | a, b => if showGVal a == showGVal b && mcalls == calls then none else some ("diff " ++ showGVal a)
      fin agree <|
      match g, r with
      | .val g, .val r =>
        -- executable statement of `project_map`: the calls are the run over the vertex list in storage
        -- order, each vertex once, and the result is the input's shape filled with the outputs
        let vs := verts (toOG g)
        let run := ptsM f vs 0
        if calls != vs.length then "propfail project-calls-once-per-vertex" else
        let spec := geomBits (fill (toOG g) run.1)
        if showGeom (mapGeom (fun _ => (0 : UInt64)) spec) != showGeom (mapGeom (fun _ => (0 : UInt64)) r) then "propfail project-shape" else
        if !(geomNaNEq spec r) then "propfail project-map" else
        (match g with
         | .point _ | .bound _ _ => if al != "v" then "bad alias" else (match g with | .bound _ _ => s!"ok {op} bound" | _ => s!"ok triv-{op}-point")
         | _ => if al != "1" then "propfail project-not-in-place" else
                if vs.isEmpty then s!"ok triv-{op}-empty {C18.kindTag g}" else
                s!"ok {op} {C18.kindTag g}{if vs.length ≥ 4096 then " n>=4096" else if vs.length ≥ 60 then " n>=60" else ""}")
      | .nilIface, .nilIface => if calls == 0 then s!"ok triv-{op}-nil" else "propfail project-nil-calls"
      | .nilSlice k, .nilSlice k' => if k == k' && calls == 0 then s!"ok triv-{op}-nilslice" else "propfail project-nilslice"
      | _, _ => "propfail project-nil-kind"

/-! ### formula-built big geometries (`c15BigGeom` of the harness) and their digest -/

def bigPt (j : Nat) : Pt OF := ⟨⟨Float.ofNat (j % 97), true⟩, ⟨Float.ofNat (j % 89), true⟩⟩

/-- the `k` vertices from number `j` on -/
def bigPts (j k : Nat) : List (Pt OF) := (List.range k).map fun i => bigPt (j + i)

/-- rows of a MultiLineString / Polygon: member `i` has `1 + i % 3` points, member `bigAt` has `bigN` (if > 0) -/
def bigRows (n bigAt bigN : Nat) : List (List (Pt OF)) :=
  ((List.range n).foldl (fun (st : Nat × Array (List (Pt OF))) i =>
      let k := if i == bigAt && bigN > 0 then bigN else 1 + i % 3
      (st.1 + k, st.2.push (bigPts st.1 k))) (0, #[])).2.toList

/-- polygons of a MultiPolygon: polygon `i` has `1 + i % 2` rings; ring 0 as in `bigRows`, ring q ≥ 1 has `1 + (i+q) % 3` points -/
def bigPolys (n bigAt bigN : Nat) : List (List (List (Pt OF))) :=
  ((List.range n).foldl (fun (st : Nat × Array (List (List (Pt OF)))) i =>
      let k0 := if i == bigAt && bigN > 0 then bigN else 1 + i % 3
      let r0 := bigPts st.1 k0
      if i % 2 == 0 then (st.1 + k0, st.2.push [r0])
      else
        let k1 := 1 + (i + 1) % 3
        (st.1 + k0 + k1, st.2.push [r0, bigPts (st.1 + k0) k1])) (0, #[])).2.toList

/-- members of a Collection: cycling P, LS(2), MP(1), B, R(3), PG(one ring of 2); member `bigAt` is a
    geometry of kind `bigKind` (0 MP, 1 LS, 2 R, 3 PG, 4 MLS, 5 MPG) with `bigN` points -/
def bigMembers (n bigAt bigN bigKind : Nat) : List (Geom OF) :=
  ((List.range n).foldl (fun (st : Nat × Array (Geom OF)) i =>
      let j := st.1
      if i == bigAt && bigN > 0 then
        let ps := bigPts j bigN
        let g : Geom OF :=
          match bigKind with
          | 0 => .multiPoint ps
          | 1 => .lineString ps
          | 2 => .ring ps
          | 3 => .polygon [ps]
          | 4 => .multiLineString [ps]
          | _ => .multiPolygon [[ps]]
        (j + bigN, st.2.push g)
      else
        match i % 6 with
        | 0 => (j + 1, st.2.push (.point (bigPt j)))
        | 1 => (j + 2, st.2.push (.lineString (bigPts j 2)))
        | 2 => (j + 1, st.2.push (.multiPoint (bigPts j 1)))
        | 3 => (j + 2, st.2.push (.bound (bigPt j) (bigPt (j + 1))))
        | 4 => (j + 3, st.2.push (.ring (bigPts j 3)))
        | _ => (j + 2, st.2.push (.polygon [bigPts j 2]))) (0, #[])).2.toList

def bigGeom (kind : String) (n bigAt bigN bigKind : Nat) : Option (Geom OF) :=
  match kind with
  | "MP" => some (.multiPoint (bigPts 0 n))
  | "LS" => some (.lineString (bigPts 0 n))
  | "R" => some (.ring (bigPts 0 n))
  | "MLS" => some (.multiLineString (bigRows n bigAt bigN))
  | "PG" => some (.polygon (bigRows n bigAt bigN))
  | "MPG" => some (.multiPolygon (bigPolys n bigAt bigN))
  | "C" => some (.collection (bigMembers n bigAt bigN bigKind))
  | _ => none

/-- word-wise FNV-1a step -/
def fnvW (h x : UInt64) : UInt64 := (h ^^^ x) * 1099511628211

def digPt (h : UInt64) (p : Pt UInt64) : UInt64 := fnvW (fnvW h p.x) p.y
def digPts (h : UInt64) (ps : List (Pt UInt64)) : UInt64 := ps.foldl digPt (fnvW h ps.length.toUInt64)
def digPtss (h : UInt64) (l : List (List (Pt UInt64))) : UInt64 := l.foldl digPts (fnvW h l.length.toUInt64)

/-- digest of kind codes, member counts and coordinate bit patterns (`c15Digest` of the harness) -/
partial def digGeom (h : UInt64) : Geom UInt64 → UInt64
  | .point p => digPt (fnvW h 1) p
  | .multiPoint ps => digPts (fnvW h 2) ps
  | .lineString ps => digPts (fnvW h 3) ps
  | .multiLineString ls => digPtss (fnvW h 4) ls
  | .ring ps => digPts (fnvW h 5) ps
  | .polygon rs => digPtss (fnvW h 6) rs
  | .multiPolygon ps => ps.foldl digPtss (fnvW (fnvW h 7) ps.length.toUInt64)
  | .bound a b => digPt (digPt (fnvW h 8) a) b
  | .collection gs => gs.foldl digGeom (fnvW (fnvW h 9) gs.length.toUInt64)

def fnvInit : UInt64 := 14695981039346656037

/-- `projn via kind n bigAt bigN bigKind procs a b c d e f g h => digest calls alias` -/
def handleProjN (inp out : Toks) : String :=
  match (do
    let (via, i) ← tok inp
    let (kind, i) ← tok i
    let (ns, i) ← many nat 5 i
    let (co, _) ← many bits 8 i
    pure (via, kind, ns, co)) with
  | none => "bad projn"
  | some (via, kind, ns, co) =>
    if out == ["panic"] then "propfail panic" else
    let n := ns.getD 0 0
    let bigAt := ns.getD 1 0
    let bigN := ns.getD 2 0
    let bigKind := ns.getD 3 0
    let procs := ns.getD 4 0
    match bigGeom kind n bigAt bigN bigKind, out with
    | some g, [ds, cs, al] =>
      (match hexToNat? ds, cs.toNat? with
       | some dn, some calls =>
        let d := UInt64.ofNat dn
        let f := affine (co.map fl).toArray
        let (mr, mcalls) := geometryM f g 0
        let dm := digGeom fnvInit (geomBits mr)
        let agree : Option String :=
          if dm == d && mcalls == calls then none else some s!"diff digest {natToHex dm.toNat 16} calls {mcalls}"
        fin agree <|
        -- executable statement of `project_map` on the digest: the calls are the run over the vertex
        -- list in storage order, each vertex once, and the result is the input's shape filled with the outputs
        let vs := verts g
        let run := ptsM f vs 0
        if calls != vs.length then s!"propfail project-calls-once-per-vertex calls={calls} vertices={vs.length}" else
        let spec := digGeom fnvInit (geomBits (fill g run.1))
        if spec != d then s!"propfail project-map digest want={natToHex spec.toNat 16} vertices={vs.length}" else
        if al != "1" then "propfail project-not-in-place" else
        let own := bigN == 0
        let len := if own then n else bigN
        s!"ok projn {via} {kind} {if own then "own-length" else "long-member"} {if len ≥ 65536 then "n>=65536" else if len ≥ 4096 then "n>=4096" else if len ≥ 1000 then "n>=1000" else "n<1000"}{if procs != 0 then " gomaxprocs" else ""}"
       | _, _ => "bad projn-out")
    | _, _ => "bad projn-kind"

/-! ### absolute position: `Layer.ProjectToWGS84` of the tile's corners against maptile's `Tile.Bound()` -/

/-- `abs X Y Z extent MP 4 (-½,-½) (E-½,E-½) (0,0) (E,E) [w|wc] => MP 4 … B W S E N T…` -/
def handleAbs (inp out : Toks) : String :=
  match (do
    let (x, i) ← nat inp
    let (y, i) ← nat i
    let (z, i) ← nat i
    let (e, i) ← nat i
    let (g, wm) ← geom i
    let (g1, o) ← geom out
    let (b, o) ← geom o
    let (t, _) ← tableP o
    pure (x, y, z, e, g, wm, g1, b, t)) with
  | none => if out == ["panic"] then "propfail panic" else "bad abs"
  | some (x, y, z, e, g, wm, g1, b, t) =>
    let F := mkMFn t
    let m1 := layerProjectToWGS84 F x y z e [toOV (.val g)]
    let agree := firstSome ((m1.zip [GVal.val g1]).map fun (m, i) => gvalAgree m i)
    fin15 agree <|
    let E := spanF e
    let want : List (Pt Float) := [⟨-0.5, -0.5⟩, ⟨E - 0.5, E - 0.5⟩, ⟨0, 0⟩, ⟨E, E⟩]
    let vin := vertsF g
    if !(vin.length == 4 && (vin.zip want).all fun (a, b) => a.x == b.x && a.y == b.y) then "bad abs-input" else
    match vertsF g1, b with
    | [nw, se, p0, pe], .bound lo hi =>
      if !absDomain x y z e then s!"skip abs-outside-judged-domain z={z} level={level z e}" else
      let W := fl lo.x
      let S := fl lo.y
      let Ea := fl hi.x
      let N := fl hi.y
      -- (1) pixel −½ is the north-west corner of the tile, pixel extent−½ the south-east corner
      if !(closeF nw.x W && closeF nw.y N && closeF se.x Ea && closeF se.y S) then
        s!"propfail tile-corner-bound extent={e} z={z} nw={hx nw.x},{hx nw.y} se={hx se.x},{hx se.y}" else
      -- (2) the centres of pixel (0,0) / (extent, extent) lie half a pixel inside / outside those corners
      -- (longitude: half a pixel = 180/(2^z·extent) degrees; latitude: at most that, and more than nothing)
      let pix := 360 / (Float.ofNat (2 ^ z) * E)
      let inside := fun (d : Float) => 0 < d && d ≤ pix
      if !(inside (p0.x - W) && inside (N - p0.y) && inside (pe.x - Ea) && inside (S - pe.y)) then
        s!"propfail tile-pixel-bound extent={e} z={z}" else
      -- (3) all four against the closed form with Lean's own libm
      let ab := absBad x y z e [.val g] [.val g1]
      if ab.1 != 0 then s!"propfail tile-wgs84-absolute extent={e} z={z} bad={ab.1} of={ab.2}" else
      let exact := nw.x == W && nw.y == N && se.x == Ea && se.y == S
      let cls := if e == 0 then "extent0" else if isPowerOfTwo e then "pow2" else "nonpow2"
      s!"ok abs {cls} {if exact then "corners-bit-equal" else "corners-within-1e-9"}{warmTag wm}"
    | _, _ => "propfail tile-wgs84-shape"

/-! ### sequences of (tile, extent) steps on layer values with a history -/

structure Step where
  x : Nat
  y : Nat
  z : Nat
  e : Nat
  a : Nat
  b : Nat
  fl : Nat
  gs : List (GVal UInt64)

def stepP : P Step := fun ts => do
  let (hd, ts) ← many nat 8 ts
  let (gs, ts) ← many gval (hd.getD 7 0) ts
  pure (⟨hd.getD 0 0, hd.getD 1 0, hd.getD 2 0, hd.getD 3 0, hd.getD 4 0 % 3, hd.getD 5 0 % 3, hd.getD 6 0, gs⟩, ts)

/-- the outputs of every step: features after `ProjectToWGS84`, then after `ProjectToTile` -/
def stepOutP : List Step → P (List (List (GVal UInt64) × List (GVal UInt64)))
  | [] => fun ts => some ([], ts)
  | s :: ss => fun ts => do
    let (g1, ts) ← many gval s.gs.length ts
    let (g2, ts) ← many gval s.gs.length ts
    let (r, ts) ← stepOutP ss ts
    pure ((g1, g2) :: r, ts)

/-- `seq n (X Y Z extent a b flags k geom*)ⁿ => (geom*(wgs84) geom*(tile))ⁿ T…`: step i projects its
    features to WGS84 on layer value `a` (flag 1: on a struct copy of it; flag 2: through the `Layers`
    value; flag 4: through a copy of the `Layers` value) and back on layer value `b`.  Every step is
    judged like a `tile` case of its own tile and extent: nothing of the earlier steps may matter. -/
def handleSeq (inp out : Toks) : String :=
  match (do
    let (n, i) ← nat inp
    let (ss, _) ← many stepP n i
    let (os, o) ← stepOutP ss out
    let (t, _) ← tableP o
    pure (ss, os, t)) with
  | none => if out == ["panic"] then "propfail panic" else "bad seq"
  | some (ss, os, t) =>
    let F := mkMFn t
    let agree := firstSome <| (ss.zip os).flatMap fun (s, (g1, g2)) =>
      let m1 := layerProjectToWGS84 F s.x s.y s.z s.e (s.gs.map toOV)
      let m2 := layerProjectToTile F s.x s.y s.z s.e (g1.map toOV)
      (m1.zip g1).map (fun (m, i) => gvalAgree m i) ++ (m2.zip g2).map (fun (m, i) => gvalAgree m i)
    let vs := (ss.zip os).map fun (s, (g1, g2)) => judgeLayer F agree.isNone s.x s.y s.z s.e s.gs g1 g2
    let pf := vs.filter (·.startsWith "propfail")
    let key := fun (s : Step) => (s.x, s.y, s.z, s.e)
    -- a layer value meets two different (tile, extent) pairs
    let reuse := [0, 1, 2].any fun l =>
      let ks := (ss.filter fun s => s.a == l || s.b == l).map key
      ks.any fun k => ks.any fun k' => k != k'
    let v :=
      match pf.find? (fun v => !v.startsWith "propfail tile-roundtrip-polar-clamp"), pf.head?, vs.find? (·.startsWith "skip") with
      | some v, _, _ => v
      | none, some v, _ => v
      | none, none, some v => v
      | none, none, none =>
        if vs.all (· == "ok triv-tile-no-vertices") then "ok triv-seq-no-vertices"
        else s!"ok seq{if reuse then " layer-reused-for-other-tile-or-extent" else " no-reuse"}{if ss.any (fun s => s.a != s.b && !s.gs.isEmpty) then " back-on-other-layer" else ""}{if ss.any (fun s => s.fl % 4 ≥ 2) then " via-layers" else ""}{if ss.any (fun s => s.fl % 2 == 1 || s.fl % 8 ≥ 4) then " copies" else ""}"
    fin15 agree v

/-! ### heap level: `project.Geometry` on slices that share backing arrays (`Orb.HeapOps.projectH`) -/

/-- the harness's pure affine point function of `projh` -/
def affineH (co : Array Float) : Pt Float → Pt Float := fun p =>
  let c := fun (i : Nat) => co.getD i 0
  ⟨c 0 * p.x + c 1 * p.y + c 2, c 3 * p.x + c 4 * p.y + c 5⟩

/-- `projh a b c d e f <heap> <sgeom> => <heap afterwards> <located result> <located argument>` -/
def handleProjH (inp out : Toks) : String :=
  match (do
    let (co, i) ← many bits 6 inp
    let (hp, i) ← Driver.HeapOps.heapP i
    let (g, _) ← Driver.HeapOps.sgeomP i
    pure (co, hp, g)) with
  | none => "bad projh"
  | some (co, hp, g) =>
    if out == ["panic"] then "propfail panic" else
    let f := affineH (co.map fl).toArray
    let σ := Driver.HeapOps.storeF hp
    let gF := Driver.HeapOps.mapS fl g
    let (σ', r) := Orb.HeapOps.projectH σ gF f
    let n0 := hp.length
    let isVal := match gF with | .point _ | .bound _ _ => true | _ => false
    let arg := if isVal then gF else r
    let m := showPtss (Driver.HeapOps.storeBits σ') ++ " " ++ Driver.HeapOps.showSGeom n0 σ' r ++ " " ++
      Driver.HeapOps.showSGeom n0 σ' arg
    let got := " ".intercalate out
    let agree : Option String := if m == got then none else some ("diff " ++ m)
    fin agree <|
    match Driver.HeapOps.heapP out with
    | none => "bad projh-out"
    | some (hp', rest) =>
      -- executable statements of `project_cell` (every cell holds f applied once per header
      -- occurrence covering it: 0 = frame, 1 = in place, 2 = the shared vertices are projected TWICE),
      -- of `project_in_place` (the very same headers come back, nothing is fresh) and of
      -- "the argument holds the result"
      let hs := Orb.HeapOps.hdrs gF
      let cnt := fun (a i : Nat) => hs.countP (·.covers a i)
      let cs := Driver.HeapOps.cells hp
      if hp'.length != hp.length || (hp.zip hp').any (fun (x, y) => x.length != y.length) then
        "propfail project-heap-shape" else
      let bad := cs.filter fun (a, i) =>
        let old := ((hp.getD a []).getD i ⟨0, 0⟩)
        let new := ((hp'.getD a []).getD i ⟨0, 0⟩)
        let want := Orb.HeapOps.iter f (cnt a i) (mapPt fl old)
        !(Driver.HeapOps.samePt (mapPt Float.toBits want) new)
      if !bad.isEmpty then
        (match bad.head? with
         | some (a, i) => s!"propfail project-cell-count array={a} index={i} covered={cnt a i}"
         | none => "propfail project-cell-count") else
      if Driver.HeapOps.countFresh rest != 0 then "propfail project-not-in-place fresh-slice" else
      let half := rest.length / 2
      if !isVal && rest.take half != rest.drop half then "propfail project-argument-differs-from-result" else
      if Driver.HeapOps.locsOf (rest.take (if isVal then rest.length else half)) != hs.filter (·.cap != 0)
          && !isVal then
        "propfail project-not-in-place headers" else
      let mx := cs.foldl (fun acc (a, i) => max acc (cnt a i)) 0
      let partialOverlap := hs.any fun h =>
        let ks := (List.range h.len).map fun k => cnt h.arr (h.off + k)
        ks.any (· != ks.headD 0)
      if isVal then "ok triv-projh-value" else
      if mx == 0 then "ok triv-projh-no-cells" else
      s!"ok projh {if mx == 1 then "each-cell-once" else if mx == 2 then "shared-twice" else "shared-3+"}{if partialOverlap then " partial-overlap" else ""}"

def handle (ts : Toks) : String :=
  match ts with
  | op :: rest =>
    let (inp, out) := splitArrow rest
    match op with
    | "projh" => handleProjH inp out
    | "consts" => handleConsts out
    | "shape" => handleShape out
    | "w2m" => handleW2M inp out
    | "m2w" => handleM2W inp out
    | "tile" => handleTile inp out
    | "tiles" => handleTiles inp out
    | "totile" => handleToTile inp out
    | "proj" => handleProj "proj" inp out
    | "projd" => handleProj "projd" inp out
    | "projn" => handleProjN inp out
    | "abs" => handleAbs inp out
    | "seq" => handleSeq inp out
    | _ => "bad op " ++ op
  | [] => "bad empty"

end Driver.C15
