import Orb.Proto
import Orb.Project
import Driver.C18
import Driver.HeapOps

/-!
  Driver for C15 (project.WGS84 / Mercator closed forms, project.Geometry, mvt tile projection).

  Same scheme as `Driver/C18.lean`: the model `Orb.Project` is instantiated at `OF` (Float + oracle
  flag) with `sin log atan exp tan` reading the table of Go's own libm values shipped with the case;
  `floor`, `+ − × ÷`, comparisons and `math.Max/Min` are redone here and must reproduce the
  implementation's outputs bit for bit.

  Executable property on the implementation's outputs:
  * `w2m` / `m2w`: round trip within 1e-9 degrees / 1 mm (MEASURED float accuracy, not proved);
  * `tile`: tile → WGS84 → tile returns exactly the input integers.  Failures are classified by
    clause: `tile-roundtrip-pow2`, `tile-roundtrip-nonpow2` (the missing half pixel, repaired by fix
    7b86dd1: must now pass on every non-polar pixel),
    `tile-roundtrip-polar-clamp` — emitted ONLY when model and implementation agree on the case, the
    tile has zoom ≤ 1, and EVERY bad vertex is bad in y alone and is itself a pixel on whose own
    latitude `mercator.ToPlanar`'s ±0.9999 clamp fires (|lat| > asin(0.9999) = 89.1897°); a failing
    vertex that is not such a pixel is never absorbed;
    judged domain of the exact round trip: zoom ≤ 22 and zoom + log₂ extent ≤ 44 (error analysis at
    `resolutionLimit`); failures outside are `skip`, the twin is compared everywhere;
  * `tiles`: the same for `Layers.ProjectToWGS84` / `Layers.ProjectToTile` (models `layersProjectTo*`),
    judged layer by layer; `tile` runs the models `layerProjectToWGS84` / `layerProjectToTile`;
  * `proj`: kind / nesting / order preserved, `proj` called exactly once per vertex in storage order,
    bound = box of the two projected corners, slices transformed in place.
-/
namespace Driver.C15
open Orb Orb.Proto Orb.Project Driver.C18

def twoPiBits : UInt64 := 0x401921FB54442D18
def piHalfBits : UInt64 := 0x3FF921FB54442D18
def d180piBits : UInt64 := 0x404CA5DC1A63C1F8
def rBits : UInt64 := 0x415854A640000000
def rPiBits : UInt64 := 0x41731BF8457C1093
def rPi180Bits : UInt64 := 0x40FB2D77DA4A0C31
def c9999Bits : UInt64 := 0x3FEFFF2E48E8A71E

def mkMFn (t : Array Ent) : MFn OF where
  sin := look1 t "s"
  log := look1 t "l"
  atan := look1 t "a"
  exp := look1 t "e"
  tan := look1 t "t"
  floor := fun x => ⟨x.v.floor, x.ok⟩
  max := fun a b => ⟨goMax a.v b.v, a.ok && b.ok⟩
  min := fun a b => ⟨goMin a.v b.v, a.ok && b.ok⟩
  ofNat := fun n => ⟨Float.ofNat n, true⟩
  pi := ofB piBits
  twoPi := ofB twoPiBits
  piHalf := ofB piHalfBits
  d180pi := ofB d180piBits
  R := ofB rBits
  rPi := ofB rPiBits
  rPi180 := ofB rPi180Bits
  c9999 := ofB c9999Bits

instance : LE OF := ⟨fun a b => a.v ≤ b.v⟩
instance : DecidableLE OF := fun a b => inferInstanceAs (Decidable (a.v ≤ b.v))
/-- `Bound.Extend` calls `math.Min` / `math.Max`: NaN propagates, `Min(-0, +0) = -0` (not `if a ≤ b`). -/
instance : Min OF := ⟨fun a b => ⟨goMin a.v b.v, a.ok && b.ok⟩⟩
instance : Max OF := ⟨fun a b => ⟨goMax a.v b.v, a.ok && b.ok⟩⟩

/-- Verdict assembly.  `propfail` outranks `diff` EXCEPT for the label that a known finding absorbs
    (`tile-roundtrip-polar-clamp`): that one is only ever produced when model and implementation
    agree (see `judgeLayer`), and should it still meet a disagreement the `diff` wins. -/
def fin15 (agree : Option String) (s : String) : String :=
  match agree with
  | some d => if s.startsWith "propfail" && !s.startsWith "propfail tile-roundtrip-polar-clamp" then s else d
  | none => s

/-- `consts => pi twoPi piHalf d180pi R rPi rPi180 c9999 DefaultExtent` -/
def handleConsts (out : Toks) : String :=
  match (counted bits) (toString 8 :: out) with
  | some (l, rest) =>
    if l == [piBits, twoPiBits, piHalfBits, d180piBits, rBits, rPiBits, rPi180Bits, c9999Bits] && rest == ["4096"]
    then "ok consts" else "diff consts"
  | none => "bad consts"

def absF (x : Float) : Float := x.abs

/-- `w2m lon lat => mx my lon2 lat2 T…` -/
def handleW2M (inp out : Toks) : String :=
  match (do
    let (g, _) ← pt inp
    let (m, o) ← pt out
    let (g2, o) ← pt o
    let (t, _) ← tableP o
    pure (g, m, g2, t)) with
  | none => if out == ["panic"] then "propfail panic" else "bad w2m"
  | some (g, m, g2, t) =>
    let F := mkMFn t
    let mm := wgs84ToMercator F (toO g)
    let mg := mercatorToWGS84 F (toO m)
    fin (cmpAll [mm.x, mm.y, mg.x, mg.y] [m.x, m.y, g2.x, g2.y]) <|
    let ex := (fl g2.x - fl g.x).abs
    let ey := (fl g2.y - fl g.y).abs
    if !((fl g.y).abs ≤ 85.05) then
      -- outside the quantifier (|lat| ≤ 85.05): twin only; the tag says whether the ±earthRadiusPi clamp fired
      let yraw := F.log (F.tan ((90 + ofB g.y) * F.pi / 360)) * F.R
      s!"ok w2m beyond-range {if yraw.v.isNaN then "nan" else if yraw.v > (ofB rPiBits).v || yraw.v < -(ofB rPiBits).v then "clamp-active" else "clamp-inactive"} twin-only"
    else
    -- measured: 1e-9 degrees
    if !(ex ≤ 1e-9) then "propfail merc-roundtrip-lon" else
    if !(ey ≤ 1e-9) then "propfail merc-roundtrip-lat" else
    let e := if ex < ey then ey else ex
    s!"ok w2m {if e == 0 then "e=0" else if e < 1e-13 then "e<1e-13" else if e < 1e-11 then "e<1e-11" else "e<=1e-9"}"

/-- `m2w mx my => lon lat mx2 my2 T…` -/
def handleM2W (inp out : Toks) : String :=
  match (do
    let (m, _) ← pt inp
    let (g, o) ← pt out
    let (m2, o) ← pt o
    let (t, _) ← tableP o
    pure (m, g, m2, t)) with
  | none => if out == ["panic"] then "propfail panic" else "bad m2w"
  | some (m, g, m2, t) =>
    let F := mkMFn t
    let mg := mercatorToWGS84 F (toO m)
    let mm := wgs84ToMercator F (toO g)
    fin (cmpAll [mg.x, mg.y, mm.x, mm.y] [g.x, g.y, m2.x, m2.y]) <|
    let ex := (fl m2.x - fl m.x).abs
    let ey := (fl m2.y - fl m.y).abs
    -- outside the square |x|, |y| ≤ R·π the forward map clamps y (and lon leaves [-180,180]): not in the quantifier
    if !((fl m.x).abs ≤ fl rPiBits) || !((fl m.y).abs ≤ fl rPiBits) then "skip mercator-outside-range twin-only" else
    -- measured: 1 mm
    if !(ex ≤ 1e-3) then "propfail merc-roundtrip-rev-x" else
    if !(ey ≤ 1e-3) then "propfail merc-roundtrip-rev-y" else
    let e := if ex < ey then ey else ex
    s!"ok m2w {if e == 0 then "e=0" else if e < 1e-8 then "e<1e-8" else if e < 1e-6 then "e<1e-6" else "e<=1e-3"}"

def many' {α} (p : P α) (n : Nat) : P (List α) := many p n

/-- flat vertex list with Float coordinates -/
def vertsF (g : Geom UInt64) : List (Pt Float) := (verts g).map (mapPt fl)

def geomBitsEq (a b : Geom UInt64) : Bool := showGeom a == showGeom b

/-- float `==` on all coordinates and identical structure (`-0 == +0`) -/
def geomFloatEq (a b : Geom UInt64) : Bool :=
  showGeom (mapGeom (fun _ => (0 : UInt64)) a) == showGeom (mapGeom (fun _ => (0 : UInt64)) b) &&
  ((coords a).zip (coords b)).all fun (x, y) => fl x == fl y

/-- identical structure and float-equal coordinates (`-0 == +0`), all NaNs identified (Go's `math.Min/Max` return
    `math.NaN()`, an overflowing `Inf - Inf` the hardware's default NaN) -/
def geomNaNEq (a b : Geom UInt64) : Bool :=
  showGeom (mapGeom (fun _ => (0 : UInt64)) a) == showGeom (mapGeom (fun _ => (0 : UInt64)) b) &&
  ((coords a).zip (coords b)).all fun (x, y) => fl x == fl y || sameF (fl x) y

def pureProj (f : Pt OF → Pt OF) : Proj Unit OF := fun p s => (f p, s)

def geomOk (g : Geom OF) : Bool := (coords g).all (·.ok)
def geomBits (g : Geom OF) : Geom UInt64 := mapGeom (fun (x : OF) => x.v.toBits) g

/-- model geometry (OF) against implementation geometry (bits), NaN-insensitive bit equality -/
def geomAgree (m : Geom OF) (i : Geom UInt64) : Option String :=
  if !geomOk m then some "diff oracle-miss" else
  let mb := geomBits m
  if showGeom (mapGeom (fun _ => (0 : UInt64)) mb) != showGeom (mapGeom (fun _ => (0 : UInt64)) i) then some ("diff " ++ showGeom mb)
  else if ((coords mb).zip (coords i)).all (fun (x, y) => sameF (fl x) y) then none
  else some ("diff " ++ showGeom mb)

def firstSome (l : List (Option String)) : Option String := l.findSome? id

/-- vertices of a feature geometry (none for nil / typed nil) -/
def vertsV (g : GVal UInt64) : List (Pt Float) :=
  match g with
  | .val g => vertsF g
  | _ => []

/-- The units in which a round-trip failure is attributed: every vertex on its own, except that the
    two corners of a `Bound` form ONE unit — `project.Bound` re-boxes after each stage, so one clamped
    corner (sent to the bottom row by `ToPlanar`) displaces both y values of the box. -/
partial def unitsG (g : Geom UInt64) : List (List (Pt Float)) :=
  match g with
  | .bound a b => [[mapPt fl a, mapPt fl b]]
  | .collection gs => gs.flatMap unitsG
  | g => (vertsF g).map fun p => [p]

def unitsV (g : GVal UInt64) : List (List (Pt Float)) :=
  match g with
  | .val g => unitsG g
  | _ => []

def shapeStr (g : GVal UInt64) : String := showGVal (mapGVal (fun _ => (0 : UInt64)) g)

/-- model feature (OF) against implementation feature (bits) -/
def gvalAgree (m : GVal OF) (i : GVal UInt64) : Option String :=
  match m, i with
  | .val a, .val b => geomAgree a b
  | a, b =>
    let ab : GVal UInt64 := mapGVal (fun (x : OF) => x.v.toBits) a
    if showGVal ab == showGVal b then none else some ("diff " ++ showGVal ab)

/-- Judged domain of "exactly the same integers": `zoom + log₂ extent ≤ resolutionLimit`.
    Error analysis (float64, |u| ≤ 2 world widths): `ToGeo` delivers the latitude to a few 2⁻⁵³ rad;
    in `ToPlanar` the quotient `(1+s)/(1−s)` loses `2⁻⁵³/(1−s)` relative, i.e. ≤ 2⁻⁴⁵ inside the
    mercator square (1−s ≥ 0.0038) and ≤ 2⁻³⁹·⁷ up to the clamp (1−s ≥ 10⁻⁴, zoom ≤ 1 only); after
    `log` and `/4π` the world fraction is off by ≤ 2⁻⁴⁸ (2⁻⁴³ near the clamp), so a pixel of
    `2^-(zoom + log₂ extent)` world widths keeps its ½-pixel margin up to level 46 (41 near the
    clamp, where uint32 extents at zoom ≤ 1 reach level 33 at most).  44 leaves a factor 8. -/
def resolutionLimit : Nat := 44

/-- The tile round trip of ONE layer, judged on the implementation's outputs `g2` for inputs `gs`.
    `agreed` = the twin reproduced the implementation on this case. -/
def judgeLayer (F : MFn OF) (agreed : Bool) (x y z e : Nat) (gs g2 : List (GVal UInt64)) : String :=
  let T := newProjection F x y z e
  let pow2 := isPowerOfTwo e
  let vin := gs.flatMap vertsV
  let vout := g2.flatMap vertsV
  let sameShape := gs.length == g2.length && (gs.zip g2).all fun (a, b) => shapeStr a == shapeStr b
  if !sameShape then "propfail tile-roundtrip-shape" else
  let n := vin.length
  let pairs := vin.zip vout
  let badx := (pairs.filter fun (a, b) => !(a.x == b.x)).length
  let bady := (pairs.filter fun (a, b) => !(a.y == b.y)).length
  -- the level at which one pixel is one unit: `z + n` on the power-of-two path (n = 32 for extent 0)
  let level := if pow2 then z + trailingZeros32 e else z + Nat.log2 e
  let cls := if e == 0 then "extent0" else if pow2 then "pow2" else "nonpow2"
  let ext := if e < 256 then " ext<256" else if e > 8192 then " ext>8192" else ""
  let zb := if z ≤ 7 then "0-7" else if z ≤ 15 then "8-15" else if z ≤ 22 then "16-22" else ">22"
  if badx == 0 && bady == 0 then
    (if n == 0 then "ok triv-tile-no-vertices" else s!"ok tile {cls} z={zb}{ext}")
  else
    -- A bad vertex is excused ONLY by its own latitude (a bound: by one of its own two corners, see
    -- `unitsG`): the model's latitude of that very pixel must make ToPlanar's clamp fire (sin(lat) beyond ±0.9999 ⇔ |lat| > 89.1897°), which within the pixel
    -- range [-extent, 2·extent) happens only at zoom ≤ 1 (|u| > 0.288 world widths above/below the map).
    let clamped := fun (p : Pt Float) =>
      let lat := (T.toWGS84 ⟨⟨p.x, true⟩, ⟨p.y, true⟩⟩).y
      let siny := F.sin (lat * F.pi / 180)
      siny.ok && (siny.v < -(F.c9999.v) || F.c9999.v < siny.v) && lat.v.abs > 89.1897
    let upairs := (gs.flatMap unitsV).zip (g2.flatMap unitsV)
    let badu := upairs.filter fun (ua, ub) => (ua.zip ub).any fun (a, b) => !(a.x == b.x) || !(a.y == b.y)
    let excused := badu.all fun (ua, ub) => ((ua.zip ub).all fun (a, b) => a.x == b.x) && ua.any clamped
    let polar := (vin.filter clamped).length
    let offBy1 := pairs.all fun (a, b) => (a.x == b.x || a.x - b.x == 1) && (a.y == b.y || a.y - b.y == 1)
    if agreed && z ≤ 1 && excused then s!"propfail tile-roundtrip-polar-clamp extent={e} z={z} bad-y={bady} of={n}"
    else if z > 22 then s!"skip zoom-outside-quantifier z={z}"
    else if level > resolutionLimit then s!"skip float-resolution zoom+log2(extent)={level}"
    else if pow2 then s!"propfail tile-roundtrip-pow2 extent={e} z={z} bad-x={badx} bad-y={bady} polar={polar} of={n}"
    else s!"propfail tile-roundtrip-nonpow2 extent={e} z={z} bad-x={badx} bad-y={bady} polar={polar} of={n} {if offBy1 then "all-one-low" else "mixed"}"

/-- `tile X Y Z extent k geom* => geom*(wgs84) geom*(tile) T…`
    (`Layer.ProjectToWGS84` then `Layer.ProjectToTile`; features may be nil / typed nil) -/
def handleTile (inp out : Toks) : String :=
  match (do
    let (x, i) ← nat inp
    let (y, i) ← nat i
    let (z, i) ← nat i
    let (e, i) ← nat i
    let (k, i) ← nat i
    let (gs, _) ← many gval k i
    let (g1, o) ← many gval k out
    let (g2, o) ← many gval k o
    let (t, _) ← tableP o
    pure (x, y, z, e, gs, g1, g2, t)) with
  | none => if out == ["panic"] then "propfail panic" else "bad tile"
  | some (x, y, z, e, gs, g1, g2, t) =>
    let F := mkMFn t
    -- stage 1: the model of Layer.ProjectToWGS84 on the input; stage 2: the model of
    -- Layer.ProjectToTile on the implementation's own WGS84 features
    let m1 := layerProjectToWGS84 F x y z e (gs.map toOV)
    let m2 := layerProjectToTile F x y z e (g1.map toOV)
    let agree := firstSome ((m1.zip g1).map (fun (m, i) => gvalAgree m i) ++ (m2.zip g2).map (fun (m, i) => gvalAgree m i))
    fin15 agree <| judgeLayer F agree.isNone x y z e gs g2

/-- the features of every layer, layer by layer (as many per layer as the input has) -/
def outP : List (Nat × List (GVal UInt64)) → P (List (List (GVal UInt64)))
  | [] => fun ts => some ([], ts)
  | l :: ls => fun ts => do
    let (a, ts) ← many gval l.2.length ts
    let (as, ts) ← outP ls ts
    pure (a :: as, ts)

/-- `tiles X Y Z n (extent k geom*)ⁿ => (geom*)ⁿ(wgs84) (geom*)ⁿ(tile) T…`
    (`Layers.ProjectToWGS84` then `Layers.ProjectToTile` on n layers, each with its own extent) -/
def handleTiles (inp out : Toks) : String :=
  let layerP : P (Nat × List (GVal UInt64)) := fun ts => do
    let (e, ts) ← nat ts
    let (k, ts) ← nat ts
    let (gs, ts) ← many gval k ts
    pure ((e, gs), ts)
  match (do
    let (x, i) ← nat inp
    let (y, i) ← nat i
    let (z, i) ← nat i
    let (n, i) ← nat i
    let (ls, _) ← many layerP n i
    let (g1, o) ← outP ls out
    let (g2, o) ← outP ls o
    let (t, _) ← tableP o
    pure (x, y, z, ls, g1, g2, t)) with
  | none => if out == ["panic"] then "propfail panic" else "bad tiles"
  | some (x, y, z, ls, g1, g2, t) =>
    let F := mkMFn t
    let m1 := layersProjectToWGS84 F x y z (ls.map fun l => (l.1, l.2.map toOV))
    let mid := (ls.zip g1).map fun (l, g) => (l.1, g.map toOV)
    let m2 := layersProjectToTile F x y z mid
    let cmp : List (Nat × List (GVal OF)) → List (List (GVal UInt64)) → List (Option String) := fun ms is =>
      (ms.zip is).flatMap fun (m, i) => (m.2.zip i).map fun (a, b) => gvalAgree a b
    let agree := firstSome (cmp m1 g1 ++ cmp m2 g2)
    let vs := (ls.zip g2).map fun (l, g) => judgeLayer F agree.isNone x y z l.1 l.2 g
    -- the worst verdict of the layers: propfail (unabsorbed first), then skip, then ok
    let pf := vs.filter (·.startsWith "propfail")
    let v :=
      match pf.find? (fun v => !v.startsWith "propfail tile-roundtrip-polar-clamp"), pf.head?, vs.find? (·.startsWith "skip") with
      | some v, _, _ => v
      | none, some v, _ => v
      | none, none, some v => v
      | none, none, none =>
        if vs.all (· == "ok triv-tile-no-vertices") then "ok triv-tiles-no-vertices"
        else s!"ok tiles layers={ls.length}{if ls.any (fun l => isPowerOfTwo l.1) then " pow2" else ""}{if ls.any (fun l => !isPowerOfTwo l.1) then " nonpow2" else ""}"
    fin15 agree v

/-- `totile X Y Z extent geom => geom T…` (twin only) -/
def handleToTile (inp out : Toks) : String :=
  match (do
    let (x, i) ← nat inp
    let (y, i) ← nat i
    let (z, i) ← nat i
    let (e, i) ← nat i
    let (g, _) ← geom i
    let (g1, o) ← geom out
    let (t, _) ← tableP o
    pure (x, y, z, e, g, g1, t)) with
  | none => if out == ["panic"] then "propfail panic" else "bad totile"
  | some (x, y, z, e, g, g1, t) =>
    let F := mkMFn t
    let T := newProjection F x y z e
    let m := (geometryM (pureProj T.toTile) (toOG g) ()).1
    fin (geomAgree m g1) <|
    if (vertsF g).any (fun p => p.y.abs > 89.1897) then "ok totile polar-clamp twin-only" else "ok totile twin-only"

/-- the harness's point function: the k-th call maps p to an affine image shifted by k -/
def affine (co : Array Float) : Proj Nat OF := fun p k =>
  let kf : Float := Float.ofNat k
  let c := fun (i : Nat) => co.getD i 0
  (⟨⟨c 0 * p.x.v + c 1 * p.y.v + c 2 + kf * c 3, true⟩, ⟨c 4 * p.x.v + c 5 * p.y.v + c 6 + kf * c 7, true⟩⟩, k + 1)

def gvalShow (g : GVal UInt64) : String := showGVal g

/-- `proj a b c d e f g h <gval> => <gval> calls alias` -/
def handleProj (inp out : Toks) : String :=
  match (do
    let (co, i) ← many bits 8 inp
    let (g, _) ← gval i
    pure (co, g)) with
  | none => "bad proj"
  | some (co, g) =>
    if out == ["panic"] then "propfail panic" else
    match (do
      let (r, o) ← gval out
      let (calls, o) ← nat o
      let (al, _) ← tok o
      pure (r, calls, al)) with
    | none => "bad proj-out"
    | some (r, calls, al) =>
      let f := affine (co.map fl).toArray
      let (mr, mcalls) := geometryVM f (toOV g) 0
      let mrb : GVal UInt64 := mapGVal (fun (x : OF) => x.v.toBits) mr
      let agree : Option String :=
        match mrb, r with
        | .val a, .val b => if geomNaNEq a b then (if mcalls == calls then none else some s!"diff calls {mcalls}") else some ("diff " ++ showGeom a)
        | a, b => if showGVal a == showGVal b && mcalls == calls then none else some ("diff " ++ showGVal a)
      fin agree <|
      match g, r with
      | .val g, .val r =>
        -- executable statement of `project_map`: the calls are the run over the vertex list in storage
        -- order, each vertex once, and the result is the input's shape filled with the outputs
        let vs := verts (toOG g)
        let run := ptsM f vs 0
        if calls != vs.length then "propfail project-calls-once-per-vertex" else
        let spec := geomBits (fill (toOG g) run.1)
        if showGeom (mapGeom (fun _ => (0 : UInt64)) spec) != showGeom (mapGeom (fun _ => (0 : UInt64)) r) then "propfail project-shape" else
        if !(geomNaNEq spec r) then "propfail project-map" else
        (match g with
         | .point _ | .bound _ _ => if al != "v" then "bad alias" else (match g with | .bound _ _ => "ok proj bound" | _ => "ok triv-proj-point")
         | _ => if al != "1" then "propfail project-not-in-place" else
                if vs.isEmpty then s!"ok triv-proj-empty {C18.kindTag g}" else s!"ok proj {C18.kindTag g}")
      | .nilIface, .nilIface => if calls == 0 then "ok triv-proj-nil" else "propfail project-nil-calls"
      | .nilSlice k, .nilSlice k' => if k == k' && calls == 0 then "ok triv-proj-nilslice" else "propfail project-nilslice"
      | _, _ => "propfail project-nil-kind"

/-! ### heap level: `project.Geometry` on slices that share backing arrays (`Orb.HeapOps.projectH`) -/

/-- the harness's pure affine point function of `projh` -/
def affineH (co : Array Float) : Pt Float → Pt Float := fun p =>
  let c := fun (i : Nat) => co.getD i 0
  ⟨c 0 * p.x + c 1 * p.y + c 2, c 3 * p.x + c 4 * p.y + c 5⟩

/-- `projh a b c d e f <heap> <sgeom> => <heap afterwards> <located result> <located argument>` -/
def handleProjH (inp out : Toks) : String :=
  match (do
    let (co, i) ← many bits 6 inp
    let (hp, i) ← Driver.HeapOps.heapP i
    let (g, _) ← Driver.HeapOps.sgeomP i
    pure (co, hp, g)) with
  | none => "bad projh"
  | some (co, hp, g) =>
    if out == ["panic"] then "propfail panic" else
    let f := affineH (co.map fl).toArray
    let σ := Driver.HeapOps.storeF hp
    let gF := Driver.HeapOps.mapS fl g
    let (σ', r) := Orb.HeapOps.projectH σ gF f
    let n0 := hp.length
    let isVal := match gF with | .point _ | .bound _ _ => true | _ => false
    let arg := if isVal then gF else r
    let m := showPtss (Driver.HeapOps.storeBits σ') ++ " " ++ Driver.HeapOps.showSGeom n0 σ' r ++ " " ++
      Driver.HeapOps.showSGeom n0 σ' arg
    let got := " ".intercalate out
    let agree : Option String := if m == got then none else some ("diff " ++ m)
    fin agree <|
    match Driver.HeapOps.heapP out with
    | none => "bad projh-out"
    | some (hp', rest) =>
      -- executable statements of `project_cell` (every cell holds f applied once per header
      -- occurrence covering it: 0 = frame, 1 = in place, 2 = the shared vertices are projected TWICE),
      -- of `project_in_place` (the very same headers come back, nothing is fresh) and of
      -- "the argument holds the result"
      let hs := Orb.HeapOps.hdrs gF
      let cnt := fun (a i : Nat) => hs.countP (·.covers a i)
      let cs := Driver.HeapOps.cells hp
      if hp'.length != hp.length || (hp.zip hp').any (fun (x, y) => x.length != y.length) then
        "propfail project-heap-shape" else
      let bad := cs.filter fun (a, i) =>
        let old := ((hp.getD a []).getD i ⟨0, 0⟩)
        let new := ((hp'.getD a []).getD i ⟨0, 0⟩)
        let want := Orb.HeapOps.iter f (cnt a i) (mapPt fl old)
        !(Driver.HeapOps.samePt (mapPt Float.toBits want) new)
      if !bad.isEmpty then
        (match bad.head? with
         | some (a, i) => s!"propfail project-cell-count array={a} index={i} covered={cnt a i}"
         | none => "propfail project-cell-count") else
      if Driver.HeapOps.countFresh rest != 0 then "propfail project-not-in-place fresh-slice" else
      let half := rest.length / 2
      if !isVal && rest.take half != rest.drop half then "propfail project-argument-differs-from-result" else
      if Driver.HeapOps.locsOf (rest.take (if isVal then rest.length else half)) != hs.filter (·.cap != 0)
          && !isVal then
        "propfail project-not-in-place headers" else
      let mx := cs.foldl (fun acc (a, i) => max acc (cnt a i)) 0
      let partialOverlap := hs.any fun h =>
        let ks := (List.range h.len).map fun k => cnt h.arr (h.off + k)
        ks.any (· != ks.headD 0)
      if isVal then "ok triv-projh-value" else
      if mx == 0 then "ok triv-projh-no-cells" else
      s!"ok projh {if mx == 1 then "each-cell-once" else if mx == 2 then "shared-twice" else "shared-3+"}{if partialOverlap then " partial-overlap" else ""}"

def handle (ts : Toks) : String :=
  match ts with
  | op :: rest =>
    let (inp, out) := splitArrow rest
    match op with
    | "projh" => handleProjH inp out
    | "consts" => handleConsts out
    | "w2m" => handleW2M inp out
    | "m2w" => handleM2W inp out
    | "tile" => handleTile inp out
    | "tiles" => handleTiles inp out
    | "totile" => handleToTile inp out
    | "proj" => handleProj inp out
    | _ => "bad op " ++ op
  | [] => "bad empty"

end Driver.C15
