import Orb.Proto
import Orb.Tile
import Orb.TileCover
import Orb.TileGeo
import Driver.C13
import Std.Data.HashSet
import Std.Data.HashMap

/-!
  Driver for C14 (tile covers and MergeUp).

  `cover <zoom> <gval lon/lat> => <n> (fx fy)*n ; M <n> (sa sv la lv)*n ; ok <k> (x y)*k | err uneven | panic`
      the n fractions are `maptile.Fraction(p, zoom)` of the n vertices in traversal order; the `M` segment
      carries, per vertex, Go's own libm values on the path of `Fraction` (sin argument / value, log
      argument / value): the shipped fraction is cross-checked against C13's model of `Fraction`
      (`Orb.TileGeo.fraction`) on top of them, bit for bit (`fracCheck`)
  `coll  <zoom> <C k geoms> => <n> fractions ; M … ; <member result> ; … ; <collection result>`
      members may be the token `nil` (a nil-interface member, at any depth: see `NG`)
  `merge <min> <reps> <k> (x y z v)*k => same|differ ; <m> (x y z)*m`      (MergeUp)
  `mergep <min> <count> <reps> <k> (x y z v)*k => same|differ ; <m> (x y z)*m`
-/
namespace Driver.C14
open Orb Orb.Proto Orb.Tile Orb.TileCover

abbrev F := Float
abbrev Q := Rat

/-- Go (amd64) `uint32(f)`: CVTTSD2SQ to int64 (truncation; out of range → 0x8000…), low 32 bits. -/
def f2u32 (x : Float) : Nat :=
  if x.isNaN then 0
  else if x ≥ 9223372036854775808.0 || x < -9223372036854775808.0 then 0
  else if x < 0 then (2^64 - (-x).toUInt64.toNat) % 2^32
  else x.toUInt64.toNat % 2^32

def opsF : Ops Float := ⟨Float.floor, Float.abs, f2u32, westEdgeOf Float.ofNat⟩

def splitSemi (ts : Toks) : List Toks :=
  let rec go (cur : Toks) (acc : List Toks) : Toks → List Toks
    | [] => (cur.reverse :: acc).reverse
    | t :: r => if t == ";" then go [] (cur.reverse :: acc) r else go (t :: cur) acc r
  go [] [] ts

/-- vertices in traversal order -/
def allPts (g : Geom UInt64) : List (Pt UInt64) :=
  let rec pair : List UInt64 → List (Pt UInt64)
    | x :: y :: t => ⟨x, y⟩ :: pair t
    | _ => []
  pair (coords g)

def enc (x y : Nat) : Nat := x * 4294967296 + y

/-- sorted, duplicate-free list of (x, y) -/
def canonXY (ts : List Tile) : List Nat :=
  let a := (ts.map fun t => enc t.x t.y).toArray.qsort (· < ·)
  let rec dd (prev : Option Nat) (acc : List Nat) : List Nat → List Nat
    | [] => acc.reverse
    | v :: r => if prev == some v then dd prev acc r else dd (some v) (v :: acc) r
  dd none [] a.toList

def showXY (l : List Nat) : String :=
  l.foldl (fun s v => s ++ " " ++ toString (v / 4294967296) ++ " " ++ toString (v % 4294967296)) (toString l.length)

def showRes (r : CRes (List Tile)) : String :=
  match r with
  | .ok ts => "ok " ++ showXY (canonXY ts)
  | .err .unevenIntersections => "err uneven"
  | .err .outOfFuel => "fuel"
  | .panic _ => "panic"

/-- parse `ok k (x y)*` -/
def parseOk (ts : Toks) : Option (List (Nat × Nat)) :=
  match ts with
  | "ok" :: r => do
    let (l, _) ← counted (fun ts => do let (x, ts) ← nat ts; let (y, ts) ← nat ts; pure ((x, y), ts)) r
    pure l
  | _ => none

/-! ### exact geometry in tile space -/

abbrev QP := Pt Q

def eps : Q := 1 / 1000000

def qfloor (q : Q) : Int := q.floor

/-- distance ≥ eps from the integer grid in both coordinates -/
def awayFromEdges (p : QP) : Bool :=
  let fx := p.x - (qfloor p.x : Q)
  let fy := p.y - (qfloor p.y : Q)
  fx ≥ eps && fx ≤ 1 - eps && fy ≥ eps && fy ≤ 1 - eps

/-- parameters at which the segment crosses integer grid lines of one axis -/
def crossings (a b : Q) : List Q :=
  if a == b then [] else
  let lo := if a < b then a else b
  let hi := if a < b then b else a
  let k0 := qfloor lo + 1
  let k1 := qfloor hi
  if k1 < k0 then [] else
  (List.range (k1 - k0 + 1).toNat).filterMap fun (i : Nat) =>
    let k : Q := ((k0 + (i : Int) : Int) : Q)
    let t := (k - a) / (b - a)
    if t > 0 && t < 1 then some t else none

/-- one sample point strictly inside every sub-interval between consecutive grid crossings -/
def segSamples (a b : QP) : List QP :=
  let ts := ((0 : Q) :: 1 :: (crossings a.x b.x ++ crossings a.y b.y)).toArray.qsort (· < ·)
  let l := ts.toList
  (l.zip (l.drop 1)).filterMap fun (t0, t1) =>
    if t0 < t1 then
      let m := (t0 + t1) / 2
      some ⟨a.x + m * (b.x - a.x), a.y + m * (b.y - a.y)⟩
    else none

/-- does the segment meet the closed box [x0,x1]×[y0,y1]? (Liang–Barsky, exact) -/
def segMeetsBox (a b : QP) (x0 y0 x1 y1 : Q) : Bool :=
  let axis (p d lo hi : Q) (iv : Option (Q × Q)) : Option (Q × Q) :=
    match iv with
    | none => none
    | some (t0, t1) =>
      if d == 0 then (if lo ≤ p && p ≤ hi then some (t0, t1) else none)
      else
        let ta := (lo - p) / d
        let tb := (hi - p) / d
        let tl := if ta < tb then ta else tb
        let th := if ta < tb then tb else ta
        let n0 := if tl > t0 then tl else t0
        let n1 := if th < t1 then th else t1
        if n0 ≤ n1 then some (n0, n1) else none
  (axis a.y (b.y - a.y) y0 y1 (axis a.x (b.x - a.x) x0 x1 (some (0, 1)))).isSome

/-- one polygon edge, in exact and in float form (the floats ARE the exact values: they come from bit patterns) -/
structure Edge where
  s : QP
  e : QP
  sf : Pt Float
  ef : Pt Float

def qToF (q : Q) : Float := Float.ofInt q.num / Float.ofNat q.den

/-- edges of the rings (each ring as given, plus the closing edge if it is not closed) -/
def edgesOf (rings : List (List QP)) : List Edge :=
  rings.flatMap fun r =>
    match r with
    | [] => []
    | f :: _ =>
      let closed := r ++ [f]
      (closed.zip (closed.drop 1)).map fun (s, e) => ⟨s, e, ⟨qToF s.x, qToF s.y⟩, ⟨qToF e.x, qToF e.y⟩⟩

/-- even-odd membership (crossing number), EXACT: the sign of each crossing test is taken from floats
    only when it is certain (margin 1e-9 relative to the operands), otherwise from rationals.
    `q` must be exactly representable as a pair of floats (tile index + dyadic offset). -/
def evenOdd (edges : List Edge) (q : QP) : Bool :=
  let qf : Pt Float := ⟨qToF q.x, qToF q.y⟩
  edges.foldl (fun acc ed =>
    if (ed.sf.y > qf.y) != (ed.ef.y > qf.y) then
      -- q.x < s.x + (q.y - s.y) * (e.x - s.x) / (e.y - s.y), without division
      let dyf := ed.ef.y - ed.sf.y
      let lf := (qf.x - ed.sf.x) * dyf
      let rf := (qf.y - ed.sf.y) * (ed.ef.x - ed.sf.x)
      let mag := lf.abs + rf.abs
      let left : Bool :=
        if (lf - rf).abs > 1e-9 * mag + 1e-300 then
          (if dyf > 0 then lf < rf else lf > rf)
        else
          let dy := ed.e.y - ed.s.y
          let lhs := (q.x - ed.s.x) * dy
          let rhs := (q.y - ed.s.y) * (ed.e.x - ed.s.x)
          (if dy > 0 then lhs < rhs else lhs > rhs)
      if left then !acc else acc
    else acc) false

def toQP (p : Pt UInt64) : Option QP := do
  let x ← bitsToRat? p.x
  let y ← bitsToRat? p.y
  pure ⟨x, y⟩

abbrev XYSet := Std.HashSet Nat

def mkSet (l : List (Nat × Nat)) : XYSet := l.foldl (fun s (x, y) => s.insert (enc x y)) {}

def hasTile (s : XYSet) (x y : Int) : Bool :=
  x ≥ 0 && y ≥ 0 && s.contains (enc x.toNat y.toNat)

/-- completeness of a path cover: every sample point (≥ eps from tile edges) lies in a covered tile.
    Returns the first uncovered sample and the set of tiles justified by samples. -/
def pathComplete (set : XYSet) (path : List QP) : Option String × XYSet :=
  let segs := path.zip (path.drop 1)
  segs.foldl (fun (acc : Option String × XYSet) (a, b) =>
    if a == b then acc else
    (segSamples a b).foldl (fun (acc : Option String × XYSet) p =>
      let tx := qfloor p.x; let ty := qfloor p.y
      let just := if tx ≥ 0 && ty ≥ 0 then acc.2.insert (enc tx.toNat ty.toNat) else acc.2
      if acc.1.isNone && awayFromEdges p && !hasTile set tx ty then
        (some s!"{tx} {ty}", just) else (acc.1, just)) acc) (none, {})

/-- soundness of a path cover: every covered tile's closed square (grown by eps) meets a segment -/
def pathSound (cov : List (Nat × Nat)) (just : XYSet) (paths : List (List QP)) : Option String :=
  let segs := paths.flatMap fun p => (p.zip (p.drop 1)).filter fun (a, b) => !(a == b)
  (cov.find? fun (x, y) =>
    !just.contains (enc x y) &&
    !(segs.any fun (a, b) => segMeetsBox a b ((x : Q) - eps) ((y : Q) - eps) ((x : Q) + 1 + eps) ((y : Q) + 1 + eps))).map
    fun (x, y) => s!"{x} {y}"

/-- the paths (line strings / rings as given) and polygons (lists of rings) of a geometry -/
partial def pathsOf : Geom Q → List (List QP)
  | .lineString ps => [ps]
  | .multiLineString ls => ls
  | .ring ps => [ps]
  | .polygon rs => rs
  | .multiPolygon ps => ps.flatten
  | .collection gs => gs.flatMap pathsOf
  | _ => []

partial def polysOf : Geom Q → List (List (List QP))
  | .ring ps => if ps.isEmpty then [] else [[ps]]
  | .polygon rs => [rs]
  | .multiPolygon ps => ps
  | .collection gs => gs.flatMap polysOf
  | _ => []

def isClosedRing (r : List QP) : Bool := r.length ≥ 4 && r.head? == r.getLast?

/-- interior samples: for (a bounded number of) uncovered tiles in the tile-space bound, no sample
    point of the tile may lie inside the polygon -/
def interiorCheck (set : XYSet) (rings : List (List QP)) : Option String :=
  let vs := rings.flatten
  match vs with
  | [] => none
  | v :: _ =>
    let minx := vs.foldl (fun m p => if p.x < m then p.x else m) v.x
    let maxx := vs.foldl (fun m p => if p.x > m then p.x else m) v.x
    let miny := vs.foldl (fun m p => if p.y < m then p.y else m) v.y
    let maxy := vs.foldl (fun m p => if p.y > m then p.y else m) v.y
    let x0 := qfloor minx; let x1 := qfloor maxx
    let y0 := qfloor miny; let y1 := qfloor maxy
    let w := (x1 - x0 + 1).toNat; let h := (y1 - y0 + 1).toNat
    let total := w * h
    let limit := 3000
    -- visit `min total limit` tiles along a stride coprime with `total`
    let stride := if total ≤ limit then 1 else
      let rec cop (fuel s : Nat) : Nat := match fuel with
        | 0 => 1
        | f+1 => if Nat.gcd s total == 1 then s else cop f (s + 1)
      cop 64 (total / limit * 7 + 3)
    let n := if total ≤ limit then total else limit
    -- dyadic offsets (exactly representable), all ≥ 1e-6 tile away from the tile edges
    let offs : List (Q × Q) := [(1/2, 1/2), (1/4, 1/4), (3/4, 1/4), (1/4, 3/4), (3/4, 3/4),
      (1/128, 1/2), (127/128, 1/2), (1/2, 1/128), (1/2, 127/128),
      (1/1024, 1/1024), (1023/1024, 1/1024), (1/1024, 1023/1024), (1023/1024, 1023/1024)]
    let edges := edgesOf rings
    (List.range n).findSome? fun i =>
      let idx := (i * stride) % total
      let tx := x0 + ((idx % w : Nat) : Int)
      let ty := y0 + ((idx / w : Nat) : Int)
      if hasTile set tx ty then none else
      offs.findSome? fun (ox, oy) =>
        let q : QP := ⟨(tx : Q) + ox, (ty : Q) + oy⟩
        if evenOdd edges q then some s!"{tx} {ty}" else none

/-- no covered tile outside the tile-space bound of the vertices (exact, tolerance eps = 1e-6 tile) -/
def boundCheck (cov : List (Nat × Nat)) (vs : List QP) : Option String :=
  match vs with
  | [] => (cov.head?).map fun (x, y) => s!"{x} {y}"
  | v :: _ =>
    let minx := vs.foldl (fun m p => if p.x < m then p.x else m) v.x
    let maxx := vs.foldl (fun m p => if p.x > m then p.x else m) v.x
    let miny := vs.foldl (fun m p => if p.y < m then p.y else m) v.y
    let maxy := vs.foldl (fun m p => if p.y > m then p.y else m) v.y
    -- "outside" = the tile's closed square is farther than eps from the bound (a vertex exactly on a tile
    -- edge may, through the rounding of the accumulated tMax, bring in the tile on the other side)
    (cov.find? fun (x, y) =>
      ((x : Q) + 1 + eps < minx) || ((x : Q) - eps > maxx) || ((y : Q) + 1 + eps < miny) || ((y : Q) - eps > maxy)).map
      fun (x, y) => s!"{x} {y}"

/-- the fraction table: lon/lat bits ↦ fraction bits -/
abbrev FracTab := Std.HashMap (UInt64 × UInt64) (Pt UInt64)

def mkTab (ps fs : List (Pt UInt64)) : FracTab :=
  (ps.zip fs).foldl (fun m (p, f) => m.insert (p.x, p.y) f) {}

def fracF (tab : FracTab) (p : Pt Float) : Pt Float :=
  match tab.get? (p.x.toBits, p.y.toBits) with
  | some f => ⟨Float.ofBits f.x, Float.ofBits f.y⟩
  | none => ⟨0.0 / 0.0, 0.0 / 0.0⟩

def fracBits (tab : FracTab) (p : Pt UInt64) : Pt UInt64 := (tab.get? (p.x, p.y)).getD ⟨0x7ff8000000000000, 0x7ff8000000000000⟩

/-- geometry in exact tile-fraction coordinates -/
def ptsQ (tab : FracTab) (ps : List (Pt UInt64)) : Option (List QP) := ps.mapM fun p => toQP (fracBits tab p)
def ptssQ (tab : FracTab) (ls : List (List (Pt UInt64))) : Option (List (List QP)) := ls.mapM (ptsQ tab)

partial def geomQ (tab : FracTab) : Geom UInt64 → Option (Geom Q)
  | .point p => (toQP (fracBits tab p)).map .point
  | .multiPoint ps => (ptsQ tab ps).map .multiPoint
  | .lineString ps => (ptsQ tab ps).map .lineString
  | .ring ps => (ptsQ tab ps).map .ring
  | .multiLineString ls => (ptssQ tab ls).map .multiLineString
  | .polygon ls => (ptssQ tab ls).map .polygon
  | .multiPolygon pg => (pg.mapM (ptssQ tab)).map .multiPolygon
  | .bound a b => do
    let a ← toQP (fracBits tab a); let b ← toQP (fracBits tab b)
    pure (.bound a b)
  | .collection gs => (gs.mapM (geomQ tab)).map .collection

/-- fuel for the DDA loop of one segment: generous multiple of the tile extent of the whole geometry -/
def fuelOf (fs : List (Pt UInt64)) : Nat :=
  let xs := fs.map fun f => (Float.ofBits f.x)
  let ys := fs.map fun f => (Float.ofBits f.y)
  let mn (l : List Float) := l.foldl (fun m v => if v < m then v else m) (l.headD 0)
  let mx (l : List Float) := l.foldl (fun m v => if v > m then v else m) (l.headD 0)
  let ext := (mx xs - mn xs) + (mx ys - mn ys)
  if ext.isNaN || ext > 1e7 then 20000000 else 2 * ext.toUInt64.toNat + 64

/-- The tile that contains the point: the column from the LONGITUDE, exactly — `⌊(lon/360 + 1/2)·2^z⌋` over
    the rationals, i.e. the unique column `x` with `Bound().Min[0] ≤ lon < Bound().Max[0]` (the edges
    `360*(x/2^z - 0.5)` of `Tile.Bound()` are computed without rounding, which `edgesExact` re-checks on the
    twin of that expression) — kept inside `0 … 2^z - 1` (lon = 180 belongs to the last column); the row
    from the shipped fraction (`Fraction`'s latitude goes through math.Sin / math.Log). -/
def atQ (lon : Q) (f : QP) (z : Nat) : Int × Int :=
  let n : Int := (2 ^ z : Nat)
  let x := qfloor ((lon / 360 + 1 / 2) * (n : Q))
  (if x ≥ n then n - 1 else if x < 0 then 0 else x, qfloor f.y)

/-- the Float twin of `Tile.Bound()`'s longitude expression gives the exact edge of columns `x` and `x+1` -/
def edgesExact (z : Nat) (x : Int) : Bool :=
  let n := 2 ^ z
  [x.toNat, x.toNat + 1].all fun c =>
    bitsToRat? (westEdgeOf Float.ofNat c n).toBits == some (360 * ((c : Q) / (n : Q) - 1 / 2))

/-- lon (exact) and fraction (exact) of a raw vertex -/
def lonFrac (tab : FracTab) (p : Pt UInt64) : Option (Q × QP) := do
  let lon ← bitsToRat? p.x
  let f ← toQP (fracBits tab p)
  pure (lon, f)

/-- Executable statement of the cover clauses on the implementation's outcome `cov`; `raw` is the lon/lat
    geometry, `g` the same geometry in exact tile-fraction coordinates. -/
partial def specCover (z : Nat) (tab : FracTab) (raw : Geom UInt64) (g : Geom Q) (emptyBound : Bool)
    (cov : List (Nat × Nat)) : Option String :=
  let set := mkSet cov
  let at? (p : Pt UInt64) : Option (Int × Int) := (lonFrac tab p).map fun (lon, f) => atQ lon f z
  match raw, g with
  | .point p, _ =>
    (match at? p with
     | none => some "point-not-finite"
     | some (x, y) =>
       if !edgesExact z x then some "edge-inexact" else
       if cov.length == 1 && hasTile set x y then none else some "point-tile")
  | .multiPoint ps, _ =>
    (match ps.mapM at? with
     | none => some "multipoint-not-finite"
     | some want =>
       if !(want.all fun (x, _) => edgesExact z x) then some "edge-inexact" else
       if !(want.all fun (x, y) => hasTile set x y) then some "multipoint-missing"
       else if !(cov.all fun (x, y) => want.contains ((x : Int), (y : Int))) then some "multipoint-extra"
       else none)
  | .bound a b, _ =>
    if emptyBound then (if cov.isEmpty then none else some "bound-empty-nonempty") else
    (match at? a, at? b with
     | some (lx, ly), some (hx, hy) =>
       if !(edgesExact z lx && edgesExact z hx) then some "edge-inexact" else
       let wantN := ((hx + 1 - lx).toNat) * ((ly + 1 - hy).toNat)
       if cov.length != wantN then some "bound-count"
       else if !(cov.all fun (x, y) => lx ≤ (x : Int) && (x : Int) ≤ hx && hy ≤ (y : Int) && (y : Int) ≤ ly) then some "bound-rect"
       else none
     | _, _ => some "bound-not-finite")
  | _, .collection _ => none
  | _, g =>
    let paths := pathsOf g
    let polys := polysOf g
    -- boundary / line: every tile a segment passes through is present
    let (miss, just) := paths.foldl (fun (acc : Option String × XYSet) p =>
      let (m, j) := pathComplete set p
      (if acc.1.isSome then acc.1 else m, j.fold (fun s v => s.insert v) acc.2)) (none, {})
    match miss with
    | some w => some ("segment-tile-missing " ++ w)
    | none =>
      if polys.isEmpty then
        -- lines: no stray tiles
        (pathSound cov just paths).map ("stray-tile " ++ ·)
      else
        match boundCheck cov paths.flatten with
        | some w => some ("outside-bound " ++ w)
        | none =>
          -- interior samples, for closed rings only (the quantifier: simple closed polygons)
          polys.findSome? fun rings =>
            if rings.all isClosedRing then (interiorCheck set rings).map ("interior-tile-missing " ++ ·) else none

def kindTag : Geom UInt64 → String
  | .point _ => "point" | .multiPoint _ => "multipoint" | .lineString _ => "line"
  | .multiLineString _ => "multiline" | .ring _ => "ring" | .polygon _ => "polygon"
  | .multiPolygon _ => "multipolygon" | .bound _ _ => "bound" | .collection _ => "collection"

def isEmptyBoundF : Geom UInt64 → Bool
  | .bound a b =>
    let ax := Float.ofBits a.x; let ay := Float.ofBits a.y
    let bx := Float.ofBits b.x; let by' := Float.ofBits b.y
    ax > bx || ay > by'
  | _ => false

/-- are all fractions inside the tile square of the zoom (the property's domain)? -/
def inDomain (z : Nat) (fs : List (Pt UInt64)) : Bool :=
  let n := Float.ofNat (2 ^ z)
  fs.all fun f =>
    let x := Float.ofBits f.x; let y := Float.ofBits f.y
    x ≥ 0 && x < n && y ≥ 0 && y < n

/-- A property failure on a case where model and implementation ALSO disagree gets its own clause label
    (`propfail <clause>+diff …`): the failure still outranks the bare `diff` (it is a concrete violation),
    but a known-finding pattern written for `<clause>` can never absorb a model/implementation
    disagreement — the plain label is emitted only when the two agree on the case. -/
def withDiff (s : String) : String :=
  match s.splitOn " " with
  | p :: c :: rest => " ".intercalate (p :: (c ++ "+diff") :: rest)
  | _ => s ++ " +diff"

def finish (agree : Bool) (model : String) (s : String) : String :=
  if s.startsWith "propfail" then (if agree then s else withDiff s)
  else if agree then s else "diff " ++ model

/-- all fractions in `[0, n] × [0, n)` and some column equal to `n` (lon = 180): outside the property's
    domain, the case of `maptile.At`'s last-column clamp -/
def lastCol (z : Nat) (fs : List (Pt UInt64)) : Bool :=
  let n := Float.ofNat (2 ^ z)
  (fs.all fun f =>
    let x := Float.ofBits f.x; let y := Float.ofBits f.y
    x ≥ 0 && x ≤ n && y ≥ 0 && y < n) &&
  (fs.any fun f => Float.ofBits f.x == n)

/-- does `maptile.At`'s west-edge step-back fire (in the model) on a point / multi-point / bound corner? -/
def stepsBack (z : Nat) (tab : FracTab) : Geom UInt64 → Bool
  | .point p => one p
  | .multiPoint ps => ps.any one
  | .bound a b => one a || one b
  | _ => false
where
  one (p : Pt UInt64) : Bool :=
    let pf : Pt Float := ⟨Float.ofBits p.x, Float.ofBits p.y⟩
    let f := fracF tab pf
    let mx := shl32 1 z
    let x := f2u32 f.x
    let x := if mx ≠ 0 ∧ x ≥ mx then mx - 1 else x
    (tileAt opsF pf.x f z).x != x

def runModel (z : Nat) (tab : FracTab) (fuel : Nat) (g : Geom UInt64) : CRes (List Tile) :=
  cover opsF (fracF tab) z fuel (mapGeom Float.ofBits g)

/-! ### the shipped fractions against C13's model of `maptile.Fraction`

  The harness ships `maptile.Fraction(p, z)` of every vertex and every clause below is judged on those
  fractions (the ROW of the point clause in particular), so without this check the latitude half of
  `Fraction` would be compared with nothing here.  Every case therefore also carries, per vertex, the
  values Go's `math.Sin` / `math.Log` return on the path of `Fraction` (computed by a mirror of its two
  expressions in the harness), and the Float twin of `Orb.TileGeo.fraction` — the model C13 proves its
  clamp theorems about — redoes the arithmetic on top of them (`Driver.C13.mkEnv`, exactly what C13's
  driver does) and must reproduce the shipped fraction bit for bit.  A libm argument the vertex's
  entry does not contain (`oracle-miss`) or a different value is a `diff`. -/

abbrev LibmRow := UInt64 × UInt64 × UInt64 × UInt64

def libmP : P (List LibmRow) := fun ts =>
  match ts with
  | "M" :: ts => counted (fun ts => do
      let (a, ts) ← bits ts
      let (b, ts) ← bits ts
      let (c, ts) ← bits ts
      let (d, ts) ← bits ts
      pure ((a, b, c, d), ts)) ts
  | _ => none

/-- `none` = every shipped fraction is the model's -/
def fracCheck (z : Nat) (ps fs : List (Pt UInt64)) (lm : List LibmRow) : Option String :=
  if lm.length != ps.length then some "fraction-table-arity" else
  ((ps.zip fs).zip lm).findSome? fun ((p, f), (sa, sv, la, lv)) =>
    let E := Driver.C13.mkEnv #[⟨"s", sa, sv⟩, ⟨"l", la, lv⟩]
    let m := Orb.TileGeo.fraction E ⟨Driver.C13.ofB p.x, Driver.C13.ofB p.y⟩ z
    if !(m.x.ok && m.y.ok) then some "fraction oracle-miss"
    else if Driver.C13.sameF m.x.v f.x && Driver.C13.sameF m.y.v f.y then none
    else some s!"fraction-of {showPt p} is {floatToHex m.x.v} {floatToHex m.y.v}"

/-! ### nil-INTERFACE members of collections (local reader)

  `orb.Collection{nil, ls}` travels as `C 2 nil LS …` (harness/proto.go writes and reads the token
  `nil` for a nil member); the shared parser `Orb.Proto.geom` cannot express it (`Geom` has no nil
  constructor).  The reader below accepts `nil` as a member of a collection at any nesting depth and
  DROPS it before the value reaches the model: the model-level statement is "a nil member contributes
  nothing" — its own cover is the empty set (`ok 0`) and the cover of the collection is the union of
  the covers of the other members.  That is what the unchanged Go code does: tilecover.Geometry
  (helpers.go:13) returns `(nil, nil)` for a nil geometry, tilecover.Collection (helpers.go:82) recurses
  through that guarded entry point and `Set.Merge(nil)` adds nothing.  The harness's vertex listing
  (`c14Pts`) skips nil members too, so the fractions line up.  A panic is `propfail panic`. -/

inductive NG where
  | nil
  | leaf (g : Geom UInt64)
  | coll (ms : List NG)
deriving Inhabited

partial def ngeom : P NG := fun ts =>
  match ts with
  | "nil" :: ts => some (.nil, ts)
  | "C" :: ts => do
    let (n, ts) ← nat ts
    let rec go : Nat → Toks → Option (List NG × Toks)
      | 0, ts => some ([], ts)
      | n+1, ts => do
        let (g, ts) ← ngeom ts
        let (gs, ts) ← go n ts
        pure (g :: gs, ts)
    let (gs, ts) ← go n ts
    pure (.coll gs, ts)
  | ts => (geom ts).map fun (g, ts) => (.leaf g, ts)

/-- the value handed to the model: nil members dropped (`none` = the value itself is nil) -/
partial def NG.drop : NG → Option (Geom UInt64)
  | .nil => none
  | .leaf g => some g
  | .coll ms => some (.collection (ms.filterMap NG.drop))

partial def NG.hasNil : NG → Bool
  | .nil => true
  | .leaf _ => false
  | .coll ms => ms.any NG.hasNil

def handleCover (inp out : Toks) : String :=
  match (do
    let (z, i) ← nat inp
    let (v, _) ← gval i
    pure (z, v)) with
  | none => "bad input"
  | some (z, v) =>
    match splitSemi out with
    | [fr, lmt, res] =>
      (match v with
       | .nilIface | .nilSlice _ =>
         if res == ["ok", "0"] then "ok triv-nil" else if res == ["panic"] then "propfail panic" else "diff ok 0"
       | .val g =>
         match pts fr, libmP lmt with
         | none, _ => "bad fractions"
         | _, none => "bad libm-table"
         | some (fs, _), some (lm, _) =>
           let ps := allPts g
           if ps.length != fs.length then "bad fraction-count" else
           let tab := mkTab ps fs
           let model := showRes (runModel z tab (fuelOf fs) g)
           if model == "fuel" then "skip fuel" else
           let got := " ".intercalate res
           -- the shipped fractions must be the model's (C13's `fraction` on Go's libm values)
           let fbad := fracCheck z ps fs lm
           let model := match fbad with | some d => d ++ " ; " ++ model | none => model
           let fin (s : String) : String := finish (fbad.isNone && model == got) model s
           fin <|
           if res == ["panic"] then "propfail panic" else
           if !(inDomain z fs) then
             (if lastCol z fs then "ok outside-domain lastcol-" ++ kindTag g else "ok outside-domain") else
           match res with
           | ["err", "uneven"] =>
             -- inside the quantifier (closed rings) an error is a violation; unclosed rings may be rejected
             (match geomQ tab g with
              | some gq => if (polysOf gq).all (·.all isClosedRing) then "propfail uneven-on-closed-polygon" else "ok uneven-unclosed-" ++ kindTag g
              | none => "skip non-finite")
           | _ =>
             match parseOk res, geomQ tab g with
             | some cov, some gq =>
               (match specCover z tab g gq (isEmptyBoundF g) cov with
                | some "edge-inexact" => "skip edge-inexact"
                | some why => "propfail " ++ why
                | none =>
                  let big := if cov.length ≥ 400 then "-big" else if cov.length ≤ 1 then "-one" else ""
                  "ok " ++ kindTag g ++ big ++ (if stepsBack z tab g then "-stepback" else ""))
             | none, _ => "bad output"
             | _, none => "skip non-finite")
    | _ => "bad output-shape"

def handleColl (inp out : Toks) : String :=
  match (do
    let (z, i) ← nat inp
    let (v, _) ← ngeom i
    pure (z, v)) with
  | none => "bad input"
  | some (z, ng) =>
    match ng, splitSemi out with
    | .coll ms, fr :: lmt :: rest =>
      -- `g`: the collection with its nil-interface members dropped (at every depth); `gs`: its top-level
      -- members in wire order, `none` for a nil one (whose own cover must be the empty set)
      let g : Geom UInt64 := .collection (ms.filterMap NG.drop)
      let gs : List (Option (Geom UInt64)) := ms.map NG.drop
      let nmTag := if ng.hasNil then " nil-member" else ""
      (match pts fr, libmP lmt with
       | none, _ => "bad fractions"
       | _, none => "bad libm-table"
       | some (fs, _), some (lm, _) =>
         let ps := allPts g
         if ps.length != fs.length then "bad fraction-count" else
         if rest.length != gs.length + 1 then "bad member-count" else
         let tab := mkTab ps fs
         let fuel := fuelOf fs
         let memberModel (m : Option (Geom UInt64)) : String :=
           match m with
           | none => "ok 0"            -- tilecover.Geometry(nil, z) = (nil, nil)
           | some m => showRes (runModel z tab fuel m)
         let model := " ; ".intercalate ((gs.map memberModel) ++ [showRes (runModel z tab fuel g)])
         let got := " ; ".intercalate (rest.map (" ".intercalate ·))
         if (model.splitOn "fuel").length > 1 then "skip fuel" else
         let fbad := fracCheck z ps fs lm
         let model := match fbad with | some d => d ++ " ; " ++ model | none => model
         let fin (s : String) : String := finish (fbad.isNone && model == got) model s
         fin <|
         if rest.any (· == ["panic"]) then "propfail panic" else
         let members := rest.take gs.length
         let whole := rest.getD gs.length []
         match members.find? (fun r => (parseOk r).isNone) with
         | some r =>
           -- the first failing member's error is the collection's
           if whole == r then "ok coll-error" else "propfail collection-error-not-propagated"
         | none =>
           match parseOk whole with
           | none => "propfail collection-fails-members-ok"
           | some cov =>
             let u := members.foldl (fun (s : XYSet) r => ((parseOk r).getD []).foldl (fun s (x, y) => s.insert (enc x y)) s) {}
             let cs := mkSet cov
             if u.size != cs.size || !(cov.all fun (x, y) => u.contains (enc x y)) then "propfail collection-not-union"
             else if gs.isEmpty then "ok triv-coll-empty"
             else if gs.all (·.isNone) then "ok triv-coll-only-nil" ++ nmTag
             else "ok coll-union" ++ nmTag)
    | _, _ => "bad coll"

/-! ### MergeUp -/

def tileKey (t : Tile) : Nat := (t.z * 4294967296 + t.x) * 4294967296 + t.y

def canonTiles (ts : List Tile) : List Tile :=
  let a := ts.toArray.qsort (fun a b => tileKey a < tileKey b)
  let rec dd (prev : Option Tile) (acc : List Tile) : List Tile → List Tile
    | [] => acc.reverse
    | v :: r => if prev == some v then dd prev acc r else dd (some v) (v :: acc) r
  dd none [] a.toList

def showTiles (ts : List Tile) : String :=
  ts.foldl (fun s t => s ++ s!" {t.x} {t.y} {t.z}") (toString ts.length)

def tile4P : P (Tile × Bool) := fun ts => do
  let (x, ts) ← nat ts
  let (y, ts) ← nat ts
  let (z, ts) ← nat ts
  let (v, ts) ← nat ts
  pure ((⟨x, y, z⟩, v == 1), ts)

def tile3P : P Tile := fun ts => do
  let (x, ts) ← nat ts
  let (y, ts) ← nat ts
  let (z, ts) ← nat ts
  pure (⟨x, y, z⟩, ts)

def idOrders : Orders := ⟨id, fun _ l => l⟩
def revOrders : Orders := ⟨List.reverse, fun _ l => l.reverse⟩
/-- a third order: rotate by a third and interleave -/
def mixOrders : Orders :=
  let f (l : List Tile) : List Tile :=
    let k := l.length / 3
    let a := l.drop k ++ l.take k
    let ev := (a.zipIdx.filter fun (_, i) => i % 2 == 0).map (·.1)
    let od := (a.zipIdx.filter fun (_, i) => i % 2 == 1).map (·.1)
    od.reverse ++ ev
  ⟨f, fun _ l => f l⟩

abbrev TSetH := Std.HashSet Nat

/-- Executable statement of `mergeUp_spec` on the implementation's result `r` for input `s` (true tiles,
    all at zoom `zoom`) and target `min ≤ zoom`. -/
def specMerge (s r : List Tile) (zoom min : Nat) : Option String :=
  let rs : TSetH := r.foldl (fun h t => h.insert (tileKey t)) {}
  let ss : TSetH := s.foldl (fun h t => h.insert (tileKey t)) {}
  if !(r.all fun t => min ≤ t.z && t.z ≤ zoom) then some "zoom-below-target" else
  -- no tile has a proper ancestor in the result
  if (r.any fun t => (List.range (t.z - min)).any fun k => rs.contains (tileKey (ancestorAt t (k + 1)))) then some "overlap" else
  -- same leaf set: sizes agree and every descendant at the input zoom is an input tile
  let total := r.foldl (fun n t => n + 4 ^ (zoom - t.z)) 0
  if total != ss.size then some "leaf-count" else
  if !(r.all fun t =>
      let k := zoom - t.z
      let w := 2 ^ k
      (List.range w).all fun i => (List.range w).all fun j => ss.contains (tileKey ⟨t.x * w + i, t.y * w + j, zoom⟩))
    then some "leaf-set" else
  -- no complete sibling quad above the target
  if (r.any fun t => t.z > min &&
      ([(0, 0), (1, 0), (0, 1), (1, 1)].all fun (i, j) => rs.contains (tileKey ⟨t.x / 2 * 2 + i, t.y / 2 * 2 + j, t.z⟩)))
    then some "unmerged-quad" else none

def handleMerge (partial_ : Bool) (inp out : Toks) : String :=
  match (do
    let (mn, i) ← nat inp
    let (cnt, i) ← (if partial_ then int i else some (0, i))
    let (_reps, i) ← nat i
    let (ts, _) ← counted tile4P i
    pure (mn, cnt, ts)) with
  | none => "bad input"
  | some (mn, cnt, kv) =>
    if out == ["panic"] then "propfail panic" else
    match splitSemi out with
    | [[same], res] =>
      (match counted tile3P res with
       | none => "bad output"
       | some (r, _) =>
         let m0 : TMap := kv.foldl (fun m (t, v) => m.set t v) []
         let run (o : Orders) : List Tile :=
           canonTiles ((mergeUpGen o (if partial_ then some cnt else none) m0 mn).trues)
         let m1 := run idOrders
         let m2 := run revOrders
         let m3 := run mixOrders
         let trues := kv.filter (·.2) |>.map (·.1)
         let zoom := (trues.head?.map (·.z)).getD 1
         let sameZoom := trues.all (·.z == zoom)
         let valid := trues.all fun t => t.x < 2 ^ t.z && t.y < 2 ^ t.z && t.z ≤ 30
         let inQ := sameZoom && valid && mn ≤ zoom
         let modelStable := m1 == m2 && m2 == m3
         let got := canonTiles r
         let fin (s : String) : String :=
           if !modelStable then
             (if s.startsWith "propfail" then s
              else if inQ then "propfail model-order-dependent" else "skip order-dependent-input")
           else finish (m1 == got) (showTiles m1) s
         fin <|
         if same != "same" then (if inQ then "propfail result-depends-on-map-order" else "skip order-dependent-input") else
         if !inQ then "ok outside-quantifier" else
         if partial_ then (if trues.isEmpty then "ok triv-partial-empty" else "ok partial") else
         match specMerge trues got zoom mn with
         | some why => "propfail " ++ why
         | none =>
           if trues.isEmpty then "ok triv-merge-empty"
           else if mn == zoom then "ok merge-same-zoom"
           else if got.length == trues.length then "ok merge-nothing"
           else if got.all (·.z == mn) then "ok merge-all-to-target"
           else "ok merge-mixed")
    | _ => "bad output-shape"

/-! ### long segments (op `long`)

  A two- or three-vertex line whose segments take 10^4 … 2·2^z tile steps: the cover (up to millions
  of tiles) is neither shipped nor modelled.  The harness builds it once and answers questions:
  `… ; n <size> <entries that are false or of another zoom> ; v x y in ; s (x y in)* ; v x y in …`
  — per vertex the tile `maptile.At` names and whether the cover holds it, per segment the tiles of the
  points at the fractions `longFracs` between the two vertices' tile fractions.  Judged here, from the
  shipped fractions (themselves checked against the model, `fracCheck`):
  * `long-vertex-tile`: the tile named for a vertex is ⌊fraction⌋ (the model's `At` inside the domain);
  * `long-vertex-missing`: every vertex's tile is in the cover;
  * `long-sample-missing`: the tile of a sample point is in the cover — only samples at least 0.05
    tile away from every tile edge are judged (the walk accumulates `tMax += tDelta` over millions of
    steps: its crossings are exact to ~10^-3 tile at most);
  * `long-cover-too-small`: size ≥ max over the segments of |Δcol| + |Δrow| + 1 (a connected walk from
    the first tile of a segment to its last visits at least that many tiles);
  * `long-bad-entry`: no entry with value false or another zoom. -/

def longFracs : List Float := [0.25, 0.5, 0.75, 0.9, 0.99, 0.999]

def triples : Toks → Option (List (Nat × Nat × Bool))
  | [] => some []
  | x :: y :: i :: rest => do
    let x ← x.toNat?
    let y ← y.toNat?
    let r ← triples rest
    pure ((x, y, i == "1") :: r)
  | _ => none

def handleLong (inp out : Toks) : String :=
  match (do
    let (z, i) ← nat inp
    let (v, _) ← gval i
    pure (z, v)) with
  | some (z, .val g) =>
    (match splitSemi out with
    | fr :: lmt :: res :: rest =>
      match pts fr, libmP lmt with
      | none, _ => "bad fractions"
      | _, none => "bad libm-table"
      | some (fs, _), some (lm, _) =>
        let ps := allPts g
        if ps.length != fs.length || ps.length < 2 then "bad fraction-count" else
        match fracCheck z ps fs lm with
        | some d => "diff " ++ d
        | none =>
        if res == ["panic"] then "propfail panic" else
        if res == ["err"] then "propfail long-error" else
        if !(inDomain z fs) then "ok outside-domain" else
        match res with
        | ["n", size, bad] =>
          let size := size.toNat?.getD 0
          if bad != "0" then s!"propfail long-bad-entry {bad}" else
          let ff : List (Float × Float) := fs.map fun f => (Float.ofBits f.x, Float.ofBits f.y)
          let tile (f : Float × Float) : Nat × Nat := (f.1.floor.toUInt64.toNat, f.2.floor.toUInt64.toNat)
          -- rest = v, s, v, s, …, v
          let vs := rest.filter (·.head? == some "v")
          let ss := rest.filter (·.head? == some "s")
          if vs.length != ff.length || ss.length + 1 != ff.length then "bad long-shape" else
          let vbad := (ff.zip vs).zipIdx.findSome? fun ((f, v), i) =>
            match triples (v.drop 1) with
            | some [(x, y, inn)] =>
              if (x, y) != tile f then some s!"propfail long-vertex-tile vertex#{i} At {x} {y} floor {(tile f).1} {(tile f).2}"
              else if !inn then some s!"propfail long-vertex-missing vertex#{i} tile {x} {y} size {size}"
              else none
            | _ => some "bad long-vertex"
          match vbad with
          | some m => m
          | none =>
          let segs := (ff.zip (ff.drop 1)).zip ss
          let away (a : Float) : Bool := let r := a - a.floor; r ≥ 0.05 && r ≤ 0.95
          let sbad := segs.zipIdx.findSome? fun (((a, b), s), i) =>
            match triples (s.drop 1) with
            | some l =>
              if l.length != longFracs.length then some "bad long-samples" else
              (longFracs.zip l).findSome? fun (t, (x, y, inn)) =>
                let p := (a.1 + t * (b.1 - a.1), a.2 + t * (b.2 - a.2))
                if !(away p.1 && away p.2) then none
                else if (x, y) != tile p then some s!"bad long-sample-tile segment#{i}"
                else if !inn then some s!"propfail long-sample-missing segment#{i} fraction {t} tile {x} {y} size {size}"
                else none
            | none => some "bad long-samples"
          match sbad with
          | some m => m
          | none =>
          let dist (a b : Nat) : Nat := if a ≥ b then a - b else b - a
          let need := (ff.zip (ff.drop 1)).foldl (fun m (a, b) =>
            let ta := tile a; let tb := tile b
            max m (dist ta.1 tb.1 + dist ta.2 tb.2 + 1)) 0
          if size < need then s!"propfail long-cover-too-small size {size} need {need}" else
          let cls := if need > 1048576 then "-over-2^20" else if need > 65536 then "-over-2^16" else if need > 9000 then "-over-9000" else ""
          s!"ok long{cls}"
        | _ => "bad long-output"
    | _ => "bad output-shape")
  | _ => "bad input"

def handle (ts : Toks) : String :=
  match ts with
  | op :: rest =>
    let (inp, out) := splitArrow rest
    match op with
    | "cover" => handleCover inp out
    | "coll" => handleColl inp out
    | "long" => handleLong inp out
    | "merge" => handleMerge false inp out
    | "mergep" => handleMerge true inp out
    | _ => "bad op " ++ op
  | [] => "bad empty"

end Driver.C14
