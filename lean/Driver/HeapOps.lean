import Orb.Proto
import Orb.HeapOps

/-!
  Parser / printer glue for the heap-level correspondence ops `projh` (C15) and `cliph` (C08);
  format in harness/heapops.go.  Trusted harness code, not used in proofs.
-/
namespace Driver.HeapOps
open Orb Orb.Proto Orb.Heap Orb.HeapOps

def hdrP : P Hdr := fun ts => do
  let (a, ts) ← nat ts
  let (o, ts) ← nat ts
  let (l, ts) ← nat ts
  let (c, ts) ← nat ts
  pure (⟨a, o, l, c⟩, ts)

/-- `A (n (x y)*)*` -/
def heapP : P (List (List (Pt UInt64))) := ptss

partial def sgeomP : P (SGeom UInt64) := fun ts =>
  match ts with
  | "P" :: ts => (pt ts).map fun (p, ts) => (.point p, ts)
  | "B" :: ts => do
    let (a, ts) ← pt ts
    let (b, ts) ← pt ts
    pure (.bound a b, ts)
  | "MP" :: ts => (hdrP ts).map fun (h, ts) => (.multiPoint h, ts)
  | "LS" :: ts => (hdrP ts).map fun (h, ts) => (.lineString h, ts)
  | "R" :: ts => (hdrP ts).map fun (h, ts) => (.ring h, ts)
  | "MLS" :: ts => (counted hdrP ts).map fun (h, ts) => (.multiLineString h, ts)
  | "PG" :: ts => (counted hdrP ts).map fun (h, ts) => (.polygon h, ts)
  | "MPG" :: ts => (counted (counted hdrP) ts).map fun (h, ts) => (.multiPolygon h, ts)
  | "C" :: ts => do
    let (n, ts) ← nat ts
    let rec go : Nat → Toks → Option (List (SGeom UInt64) × Toks)
      | 0, ts => some ([], ts)
      | n+1, ts => do
        let (g, ts) ← sgeomP ts
        let (gs, ts) ← go n ts
        pure (g :: gs, ts)
    let (gs, ts) ← go n ts
    pure (.collection gs, ts)
  | _ => none

partial def mapS {α β} (f : α → β) : SGeom α → SGeom β
  | .point p => .point (mapPt f p)
  | .multiPoint h => .multiPoint h
  | .lineString h => .lineString h
  | .multiLineString h => .multiLineString h
  | .ring h => .ring h
  | .polygon h => .polygon h
  | .multiPolygon h => .multiPolygon h
  | .bound a b => .bound (mapPt f a) (mapPt f b)
  | .collection gs => .collection (gs.map (mapS f))

def mapStore {α β} (f : α → β) (σ : List (List (Pt α))) : List (List (Pt β)) := σ.map (·.map (mapPt f))

def storeF (σ : List (List (Pt UInt64))) : Store Float := mapStore Float.ofBits σ
def storeBits (σ : Store Float) : List (List (Pt UInt64)) := mapStore Float.toBits σ

/-- a located slice: where the header points, relative to the `n0` input arrays -/
def showLoc (n0 : Nat) (σ : Store Float) (h : Hdr) : String :=
  if h.cap == 0 then "E"
  else if h.arr < n0 then s!"H {h.arr} {h.off} {h.len} {h.cap}"
  else "F " ++ showPts ((readH σ h).map (mapPt Float.toBits))

def showLocs (n0 : Nat) (σ : Store Float) (hs : List Hdr) : String :=
  hs.foldl (fun s h => s ++ " " ++ showLoc n0 σ h) (toString hs.length)

partial def showSGeom (n0 : Nat) (σ : Store Float) : SGeom Float → String
  | .point p => "P " ++ showPt (mapPt Float.toBits p)
  | .bound a b => "B " ++ showPt (mapPt Float.toBits a) ++ " " ++ showPt (mapPt Float.toBits b)
  | .multiPoint h => "MP " ++ showLoc n0 σ h
  | .lineString h => "LS " ++ showLoc n0 σ h
  | .ring h => "R " ++ showLoc n0 σ h
  | .multiLineString hs => "MLS " ++ showLocs n0 σ hs
  | .polygon hs => "PG " ++ showLocs n0 σ hs
  | .multiPolygon hss => hss.foldl (fun s hs => s ++ " " ++ showLocs n0 σ hs) ("MPG " ++ toString hss.length)
  | .collection gs => gs.foldl (fun s g => s ++ " " ++ showSGeom n0 σ g) ("C " ++ toString gs.length)

/-- the located slices named in an outcome, in order (`E` and fresh slices are skipped):
    a scan for `H a o l c` groups — kind tags and hex coordinates never spell `H` -/
def locsOf : Toks → List Hdr
  | "H" :: a :: o :: l :: c :: rest =>
    match a.toNat?, o.toNat?, l.toNat?, c.toNat? with
    | some a, some o, some l, some c => ⟨a, o, l, c⟩ :: locsOf rest
    | _, _, _, _ => locsOf rest
  | _ :: rest => locsOf rest
  | [] => []

def countFresh (ts : Toks) : Nat := (ts.filter (· == "F")).length

/-- all cells `(a, i)` of a store -/
def cells {β} (σ : List (List β)) : List (Nat × Nat) :=
  (List.range σ.length).flatMap fun a => (List.range (σ.getD a []).length).map fun i => (a, i)

def sameBits (x y : UInt64) : Bool :=
  x == y || (Float.ofBits x).isNaN && (Float.ofBits y).isNaN

def samePt (p q : Pt UInt64) : Bool := sameBits p.x q.x && sameBits p.y q.y

def sameStore (a b : List (List (Pt UInt64))) : Bool :=
  a.length == b.length && (a.zip b).all fun (x, y) => x.length == y.length && (x.zip y).all fun (p, q) => samePt p q

/-- a located slice of an outcome, read back from the reported heap: `E`, `H a o l c`, `F n (x y)*` -/
def locP (hp : List (List (Pt UInt64))) : P (List (Pt UInt64)) := fun ts =>
  match ts with
  | "E" :: ts => some ([], ts)
  | "H" :: ts => (hdrP ts).map fun (h, ts) => ((((hp.getD h.arr []).drop h.off).take h.len), ts)
  | "F" :: ts => pts ts
  | _ => none

/-- the VALUE a located outcome denotes in the reported heap -/
partial def lgeomP (hp : List (List (Pt UInt64))) : P (Geom UInt64) := fun ts =>
  match ts with
  | "P" :: ts => (pt ts).map fun (p, ts) => (.point p, ts)
  | "B" :: ts => do
    let (a, ts) ← pt ts
    let (b, ts) ← pt ts
    pure (.bound a b, ts)
  | "MP" :: ts => (locP hp ts).map fun (h, ts) => (.multiPoint h, ts)
  | "LS" :: ts => (locP hp ts).map fun (h, ts) => (.lineString h, ts)
  | "R" :: ts => (locP hp ts).map fun (h, ts) => (.ring h, ts)
  | "MLS" :: ts => (counted (locP hp) ts).map fun (h, ts) => (.multiLineString h, ts)
  | "PG" :: ts => (counted (locP hp) ts).map fun (h, ts) => (.polygon h, ts)
  | "MPG" :: ts => (counted (counted (locP hp)) ts).map fun (h, ts) => (.multiPolygon h, ts)
  | "C" :: ts => do
    let (n, ts) ← nat ts
    let rec go : Nat → Toks → Option (List (Geom UInt64) × Toks)
      | 0, ts => some ([], ts)
      | n+1, ts => do
        let (g, ts) ← lgeomP hp ts
        let (gs, ts) ← go n ts
        pure (g :: gs, ts)
    let (gs, ts) ← go n ts
    pure (.collection gs, ts)
  | _ => none

/-- every header is a legal slice of its array (`Hdr.WF`) -/
def wfAll (σ : Store Float) (hs : List Hdr) : Bool :=
  hs.all fun h => h.len ≤ h.cap && h.off + h.cap ≤ (σ.getD h.arr []).length

/-- no two header occurrences have overlapping capacity windows (`Orb.HeapOps.Sep`) -/
def sepAll (hs : List Hdr) : Bool :=
  let idx := List.range hs.length
  idx.all fun i => idx.all fun j => !(i < j) ||
    (match hs[i]?, hs[j]? with
     | some x, some y => !(x.arr == y.arr && x.off < y.off + y.cap && y.off < x.off + x.cap)
     | _, _ => true)

end Driver.HeapOps
