/-
  Line-protocol driver.  Reads case lines on stdin, prints one verdict line per case:
     ok [tags…]            model = implementation and the executable property holds
     diff <model outcome>  model and implementation disagree
     propfail <clause> …   the executable statement of the property is false on the
                           implementation's outcome (this is a concrete violation)
     skip <why>            case outside what the exact model can judge (counted)
     bad <why>             unparsable line (harness bug)
-/
import Driver.All

open Orb.Proto

partial def loop (h : IO.FS.Stream) (out : IO.FS.Stream) : IO Unit := do
  let line ← h.getLine
  if line.isEmpty then return ()
  let toks := splitLine (line.trimAscii.toString)
  -- a leading `#<n>` is the harness's sequence number: it is echoed in front of the verdict, so that
  -- the harness can tell a verdict that belongs to another case (an extra or a lost line)
  let (tag, toks) := match toks with
    | t :: rest => if t.startsWith "#" then (t ++ " ", rest) else ("", toks)
    | [] => ("", [])
  let r := match toks with
    | [] => "bad empty"
    | p :: rest => Driver.dispatch p rest
  out.putStrLn (tag ++ r)
  loop h out

def main : IO Unit := do
  let out ← IO.getStdout
  loop (← IO.getStdin) out
  out.flush
