import Orb.Proto
import Orb.Clip
import Orb.ClipSpec
import Orb.EvenOdd
import Driver.C07
import Driver.HeapOps
import Generated.Params

/-! Driver for C08 (ring / polygon clipping keeps exactly the region inside the box). -/
namespace Driver.C08
open Orb Orb.Proto Orb.Core Orb.Clip Driver.C07

def ebF : Bound F :=
  ⟨⟨Float.ofInt Generated.Params.emptyBoundMinX, Float.ofInt Generated.Params.emptyBoundMinY⟩,
   ⟨Float.ofInt Generated.Params.emptyBoundMaxX, Float.ofInt Generated.Params.emptyBoundMaxY⟩⟩

def tol : Q := 1 / 1000000000

/-- even-odd membership of `q` in the implicitly closed ring `r` (crossing number, exact);
    only meaningful off the boundary -/
def evenOdd (r : List (Pt Q)) (q : Pt Q) : Bool :=
  match r with
  | [] => false
  | f :: _ =>
    let closed := r ++ [f]
    let edges := closed.zip (closed.drop 1)
    edges.foldl (fun acc (s, e) =>
      if (s.y > q.y) != (e.y > q.y) then
        let xint := s.x + (q.y - s.y) * (e.x - s.x) / (e.y - s.y)
        if q.x < xint then !acc else acc
      else acc) false

/-- squared distance from `q` to the segment `a b`, exact -/
def segDist2 (a b q : Pt Q) : Q :=
  let dx := b.x - a.x; let dy := b.y - a.y
  let l2 := dx * dx + dy * dy
  if l2 == 0 then (q.x - a.x) * (q.x - a.x) + (q.y - a.y) * (q.y - a.y) else
  let t := ((q.x - a.x) * dx + (q.y - a.y) * dy) / l2
  let t := if t < 0 then 0 else if t > 1 then 1 else t
  let px := a.x + t * dx; let py := a.y + t * dy
  (q.x - px) * (q.x - px) + (q.y - py) * (q.y - py)

def nearRing (r : List (Pt Q)) (q : Pt Q) (eps2 : Q) : Bool :=
  match r with
  | [] => false
  | f :: _ =>
    let closed := r ++ [f]
    (closed.zip (closed.drop 1)).any fun (a, b) => segDist2 a b q ≤ eps2

def area2 (r : List (Pt Q)) : Q :=
  match r with
  | [] => 0
  | f :: _ =>
    let closed := r ++ [f]
    (closed.zip (closed.drop 1)).foldl (fun acc (a, b) => acc + (a.x * b.y - b.x * a.y)) 0

/-- the former vertex clause (every kind, both axes, tolerance 1e-9): superseded by `vertsOK` below, kept for
    reference only -/
def inBoxTol (b : Bound Q) (p : Pt Q) : Bool :=
  b.lo.x - tol ≤ p.x && p.x ≤ b.hi.x + tol && b.lo.y - tol ≤ p.y && p.y ≤ b.hi.y + tol

/-! ### "never a vertex outside the box": COPIED and COMPUTED output vertices

  Which coordinates of a result did the code compute, and which did it copy from its argument?

  * `clip.Geometry` on a Point returns the argument; `clip.MultiPoint` appends the members `b.Contains`
    accepts; `clip.Bound` takes `math.Max` / `math.Min` of corner coordinates.  COPIES throughout: every
    coordinate of the result is bit-identical to a coordinate of the argument or of the box, and it was
    compared with the box edges as it is.  No rounding ⇒ NO TOLERANCE: the vertices (corners) must lie in
    the closed box exactly.
  * `clip.LineString` / `clip.MultiLineString` (closed bound here): a result vertex is an input vertex with
    region code 0 (a copy) or was computed by `intersect` / `clampToBound` and re-coded with `bitCode` until
    its code is 0 (see Driver/C07.lean, "provenance").  Either way the result vertex has been TESTED by the
    code against the closed box: exact membership, no tolerance (C07 judges the same code the same way).
  * `clip.Ring` (Sutherland–Hodgman, passes left, right, bottom, top; also inside Polygon / MultiPolygon):
    a pass copies the vertices on the inner side of its edge line and inserts `intersect` points whose
    clipped coordinate IS the edge value, the other one being computed (`a + (b-a)·(e-a')/(b'-a')`).
      - after the left and right passes every vertex has `lo.x ≤ x ≤ hi.x` exactly (copied and tested, or
        set to an edge value);
      - the bottom and top passes copy vertices tested against `lo.y` / `hi.y` and insert points with
        `y = lo.y` / `y = hi.y` exactly and a COMPUTED x, interpolated between two x in [lo.x, hi.x]
        (up to the error of the previous such point).
    So for every vertex of a clipped ring: `lo.y ≤ y ≤ hi.y` EXACTLY; and `lo.x ≤ x ≤ hi.x` EXACTLY unless
    `y` is exactly `lo.y` or `hi.y`, where x may be a computed value.  Its error: four roundings on the
    term `(b-a)·q`, `|·| ≤ |b-a| ≤ 2M`, one on the sum, `|·| ≤ M` (M = largest absolute coordinate of box
    and argument, u = 2⁻⁵³): below 12·u·M ≈ 1.4e-15·M per point, twice that when the top pass interpolates
    from a point the bottom pass computed.  Tolerance used: `1e-13 · max 1 M`.  An input vertex that the
    code returns unchanged (in particular a whole ring that fits the box) is thereby held to the exact
    test on y always and on x whenever it does not lie exactly on the bottom / top edge line. -/

def absQ (a : Q) : Q := if a < 0 then -a else a

/-- `1e-13 · max 1 M`, M = largest absolute coordinate among `cs` -/
def tolComputed (cs : List Q) : Q :=
  let m := cs.foldl (fun m c => if m < absQ c then absQ c else m) 1
  m / 10000000000000

def boundCoords (b : Bound Q) : List Q := [b.lo.x, b.lo.y, b.hi.x, b.hi.y]

def ringVertOK (b : Bound Q) (t : Q) (v : Pt Q) : Bool :=
  b.lo.y ≤ v.y && v.y ≤ b.hi.y &&
  (if v.y == b.lo.y || v.y == b.hi.y then b.lo.x - t ≤ v.x && v.x ≤ b.hi.x + t
   else b.lo.x ≤ v.x && v.x ≤ b.hi.x)

/-- the vertex clause on a RESULT, by the kind of each of its parts -/
partial def vertsOK (b : Bound Q) (t : Q) : Geom Q → Bool
  | .point p => Driver.C07.inClosed b p
  | .multiPoint ps => ps.all (Driver.C07.inClosed b)
  | .lineString l => l.all (Driver.C07.inClosed b)
  | .multiLineString ls => ls.all fun l => l.all (Driver.C07.inClosed b)
  | .ring r => r.all (ringVertOK b t)
  | .polygon pg => pg.all fun r => r.all (ringVertOK b t)
  | .multiPolygon mp => mp.all fun pg => pg.all fun r => r.all (ringVertOK b t)
  | .bound lo hi => Driver.C07.inClosed b lo && Driver.C07.inClosed b hi
  | .collection gs => gs.all (vertsOK b t)


/-! ### "nothing remains" — exact classification of the INPUT against the box (over Rat)

  ERROR ANALYSIS behind `tol = 1e-9`.  Every vertex the Go code tests is an input vertex or the result
  of `intersect`: `a + (b-a)*(e-a')/(b'-a')` with the quotient in [0,1] (the segment crosses the clip
  line), i.e. at most 5 roundings on magnitudes bounded by the coordinates (|v| ≤ 2^4 in every generator
  of this property): absolute error < 8 ulp(16) < 3e-14 per pass, < 2e-13 after four passes.  A decision
  of the code (vertex strictly beyond an edge or not) can therefore differ from the exact decision only for
  geometry within 2e-13 of a box edge line.  All "must be non-nil" verdicts are issued only when the input
  reaches the box SHRUNK by 1e-9 and all "must be nil" verdicts only when it misses the box GROWN by 1e-9
  (or misses the open box exactly while staying within 1e-9 of it: the `touching` class, which is exact
  on the integer / half-integer grids where no rounding occurs in the comparisons that matter).

  TRUSTED GEOMETRY (not proved in Lean): if no edge of a closed chain meets a convex set then the
  even-odd parity is the same at every point of that set (so the box centre decides for the whole box).
  The segment tests themselves are proved sound in OrbProofs/C08Nil.lean (`segMeetsClosed_false_sound`,
  `segWitnessOpen_sound`); that a nil result implies an empty region and an empty boundary inside the open
  box is `ring_nil_nothing_remains` / `polygon_nil_nothing_remains` / `geometry_nil_nothing_remains`. -/

inductive Rem where
  | yes                 -- certainly something remains (reaches the box shrunk by `tol`)
  | no (why : String)   -- certainly nothing remains (misses the box grown by `tol`); `why` names the kind
  | touch               -- 2-d only: misses the OPEN box exactly, but comes within `tol` of the closed box
  | unknown
deriving BEq, Repr, Inhabited

def grow (b : Bound Q) (d : Q) : Bound Q := ⟨⟨b.lo.x - d, b.lo.y - d⟩, ⟨b.hi.x + d, b.hi.y + d⟩⟩
def centre (b : Bound Q) : Pt Q := ⟨(b.lo.x + b.hi.x) / 2, (b.lo.y + b.hi.y) / 2⟩

/-- Liang–Barsky: the parameter interval of the part of the segment `p q` in the closed box -/
def lbInterval (b : Bound Q) (p q : Pt Q) : Option (Q × Q) :=
  let axis (acc : Option (Q × Q)) (pc d lo hi : Q) : Option (Q × Q) :=
    match acc with
    | none => none
    | some (t0, t1) =>
      if d == 0 then (if lo ≤ pc && pc ≤ hi then some (t0, t1) else none) else
      let ta := (lo - pc) / d; let tb := (hi - pc) / d
      let (ta, tb) := if ta ≤ tb then (ta, tb) else (tb, ta)
      let t0 := if t0 < ta then ta else t0
      let t1 := if tb < t1 then tb else t1
      if t0 ≤ t1 then some (t0, t1) else none
  axis (axis (some (0, 1)) p.x (q.x - p.x) b.lo.x b.hi.x) p.y (q.y - p.y) b.lo.y b.hi.y

/-- the closed segment has a point strictly inside the box (witness: the midpoint of the clipped part) -/
def segInOpen (b : Bound Q) (p q : Pt Q) : Bool :=
  match lbInterval b p q with
  | some (t0, t1) => Orb.ClipSpec.segWitnessOpen b p q [(t0 + t1) / 2]
  | none => false

/-- winding number of the implicitly closed chain around `q` (signed count of the edges the upward ray
    crosses; same half-open rule as `EvenOdd.crossesAbove`, so its parity is the even-odd parity) -/
def winding (r : List (Pt Q)) (q : Pt Q) : Int :=
  (Orb.EvenOdd.edges r).foldl (fun acc (s, e) =>
    if s.x ≤ q.x && q.x < e.x && Orb.EvenOdd.cross s e q < 0 then acc + 1
    else if e.x ≤ q.x && q.x < s.x && 0 < Orb.EvenOdd.cross s e q then acc - 1 else acc) 0

/-- the centre of the box is outside the ring under BOTH fill rules (even-odd and non-zero winding): a
    self-overlapping ring can wind twice around the box — empty under the even-odd rule, but with signed
    area 2·box, which the area-additivity clause counts; such a ring is left undecided -/
def outsideBoth (r : List (Pt Q)) (q : Pt Q) : Bool := !(Orb.EvenOdd.inside r q) && winding r q == 0

def pathSegs (l : List (Pt Q)) : List (Pt Q × Pt Q) := l.zip (l.drop 1)
def isClosedL (l : List (Pt Q)) : Bool := !l.isEmpty && l.head? == l.getLast?

/-- a closed ring (chain ∪ even-odd region) against the box -/
def ringRem (b : Bound Q) (r : List (Pt Q)) : Rem :=
  if r.isEmpty then .no "empty" else
  if !isClosedL r then .unknown else
  let bIn := grow b (-tol); let bOut := grow b tol
  let segs := Orb.EvenOdd.edges r
  if segs.any (fun s => segInOpen bIn s.1 s.2) then .yes else
  -- a degenerate ring lying in the closed box on its boundary: governed by "inside ⇒ unchanged"
  if r.all (inClosed b) then .unknown else
  if !(segs.any fun s => Orb.ClipSpec.segMeetsClosed bOut s.1 s.2) then
    (if Orb.EvenOdd.inside r (centre b) then .yes else if outsideBoth r (centre b) then .no "sliver-disjoint" else .unknown)
  else if !(segs.any fun s => segInOpen b s.1 s.2) then
    (if Orb.EvenOdd.inside r (centre b) then .yes else if outsideBoth r (centre b) then .touch else .unknown)
  else .unknown

/-- the hole's region swallows the whole (grown) box -/
def holeSwallows (b : Bound Q) (h : List (Pt Q)) : Bool :=
  isClosedL h && !((Orb.EvenOdd.edges h).any fun s => Orb.ClipSpec.segMeetsClosed (grow b tol) s.1 s.2) &&
    Orb.EvenOdd.inside h (centre b)

def polyRem (b : Bound Q) (pg : List (List (Pt Q))) : Rem :=
  match pg with
  | [] => .no "empty"
  | outer :: holes =>
    match ringRem b outer with
    | .yes =>
      if holes.any (holeSwallows b) then .no "hole-covers-box" else
      if holes.all (fun h => match ringRem b h with | .no _ => true | _ => false) then .yes else .unknown
    | r => r

def combineRem (l : List Rem) : Rem :=
  if l.any (· == .yes) then .yes else
  if l.all (fun r => match r with | .no _ => true | _ => false) then
    -- name the member that would be the culprit if the result were not nil: a 2-d member first (sliver,
    -- hole covering the box), then an empty Bound, then plain absence
    (match l.find? (fun r => match r with | .no w => w != "empty" && w != "far" && w != "empty-bound" | _ => false) with
     | some r => r
     | none =>
       if l.any (fun r => match r with | .no w => w == "empty-bound" | _ => false) then .no "empty-bound" else
       .no (if l.isEmpty then "empty" else "far")) else
  if l.all (fun r => match r with | .no _ => true | .touch => true | _ => false) then .touch else .unknown

def lineRem (b : Bound Q) (l : List (Pt Q)) : Rem :=
  match l with
  | [] => .no "empty"
  | [_] => .unknown
  | _ =>
    -- exact, no arithmetic involved: a vertex in the closed box has region code 0 and is copied into a piece
    -- (the segments at it cannot be rejected); with every vertex strictly beyond one edge line the bound
    -- pre-test (or, for a member, the region codes) rejects everything
    if l.any (inClosed b) then .yes else
    if l.all (fun p => p.x < b.lo.x) || l.all (fun p => p.x > b.hi.x) ||
       l.all (fun p => p.y < b.lo.y) || l.all (fun p => p.y > b.hi.y) then .no "far" else
    let segs := pathSegs l
    if segs.any (fun s => segInOpen (grow b (-tol)) s.1 s.2) then .yes else
    if !(segs.any fun s => Orb.ClipSpec.segMeetsClosed (grow b tol) s.1 s.2) then .no "far" else .unknown

def geomQ (g : Geom UInt64) : Option (Geom Q) :=
  if (coords g).all (fun c => (bitsToRat? c).isSome) then
    some (mapGeom (fun c => (bitsToRat? c).getD 0) g) else none

/-- classification of a whole geometry.  Points and Bounds are exact (comparisons only: closed box). -/
partial def remOf (b : Bound Q) : Geom Q → Rem
  | .point p => if inClosed b p then .yes else .no "far"
  | .multiPoint ps => if ps.isEmpty then .no "empty" else if ps.any (inClosed b) then .yes else .no "far"
  | .lineString l => lineRem b l
  | .multiLineString ls => combineRem (ls.map (lineRem b))
  | .ring r => ringRem b r
  | .polygon pg => polyRem b pg
  | .multiPolygon mp => combineRem (mp.map (polyRem b))
  | .bound lo hi =>
    let c : Bound Q := ⟨lo, hi⟩
    -- an EMPTY Bound argument has no point: the result must be nil (since the orb fix of the former finding
    -- C08-empty-bound-returns-box there is no recorded exception: a non-nil result is a plain violation)
    if c.isEmpty then .no "empty-bound" else if b.intersects c then .yes else .no "far"
  | .collection gs => combineRem (gs.map (remOf b))

/-- rings of a (result) geometry, at any depth; `true` marks a hole -/
partial def ringsOf : Geom Q → List (Bool × List (Pt Q))
  | .ring r => [(false, r)]
  | .polygon pg => pg.zipIdx.map fun (r, i) => (i != 0, r)
  | .multiPolygon mp => mp.flatMap fun pg => pg.zipIdx.map fun (r, i) => (i != 0, r)
  | .collection gs => gs.flatMap ringsOf
  | _ => []

/-- a non-empty ring all of whose edges miss the OPEN box and that does not enclose the box: it lies on
    the box boundary and encloses nothing -/
def isSliver (b : Bound Q) (r : List (Pt Q)) : Bool :=
  !r.isEmpty && !((Orb.EvenOdd.edges r).any fun s => segInOpen b s.1 s.2) && outsideBoth r (centre b)

/-- a ring that IS the box boundary as far as the open box can tell (edges miss the open box, encloses it) -/
def isFullBox (b : Bound Q) (r : List (Pt Q)) : Bool :=
  !r.isEmpty && !((Orb.EvenOdd.edges r).any fun s => segInOpen b s.1 s.2) && Orb.EvenOdd.inside r (centre b)

/-- executable statement, on the implementation's RESULT, of "nothing of a vanished ring stays behind":
    no ring of the result (other than an input ring returned unchanged) may be a sliver, and no polygon
    of the result may have a hole that covers the whole box -/
def resultDefects (b : Bound Q) (inp res : Geom Q) : Option String :=
  let inRings := (ringsOf inp).map (·.2)
  -- the property quantifies over CLOSED rings: Go's ring() does not clip the implicitly closed polygon of an
  -- open vertex list, so nothing is claimed about regions then
  if !(inRings.all fun r => r.isEmpty || isClosedL r) then none else
  let rs := ringsOf res
  if rs.any (fun (_, r) => isSliver b r && !(inRings.contains r)) then some "sliver-in-result" else
  if rs.any (fun (h, r) => h && isFullBox b r) then some "hole-covers-box-in-result" else none

/-- the model's verdict on the MEMBERS of a collection (used only when the model's outcome is the
    implementation's outcome bit for bit, so that a member's model result is what the implementation
    returned for it) -/
partial def memberViolations (bq : Bound Q) (bf : Bound F) (g : Geom UInt64) : List String :=
  match g with
  | .collection gs => gs.flatMap fun m =>
      -- `clip.Collection` calls `clip.Geometry` on every member: `r` is what it got for `m`
      let r := geometry ebF bf (mapGeom Float.ofBits m)
      let here : List String :=
        match geomQ m with
        | none => []
        | some mq =>
          (match remOf bq mq, r with
           | .yes, some none => ["nil-but-remains"]
           | .no w, some (some _) => ["nothing-remains-not-nil " ++ w]
           | .touch, some (some _) => ["nothing-remains-not-nil sliver-touching"]
           | _, _ => [])
      -- the members of a nested collection were clipped one by one only if the nested collection passed
      -- its own bound pre-test, which is certain only when its result is not nil
      here ++ (match r with | some (some _) => memberViolations bq bf m | _ => [])
  | _ => []

/-- `propfail` outranks `diff`, but never hides it: a property failure on a case where the model and the
    implementation disagree carries the model's outcome, so that no known-finding pattern (they are
    anchored) can absorb a model/implementation disagreement -/
def finish (m got s : String) : String :=
  if s.startsWith "propfail" then (if m == got then s else s ++ " | diff " ++ m)
  else if m == got then s else "diff " ++ m

def showRingOpt (r : Option (List (Pt F))) : String :=
  match r with
  | some [] => "nil"
  | some l => showPtsF l
  | none => "stuck"

/-- `ring <box> <pts> <k> <query pts> => nil | <pts>` -/
def handleRing (inp out : Toks) : String :=
  match (do
    let (b, i) ← boundP inp
    let (ps, i) ← pts i
    let (qs, _) ← pts i
    pure (b, ps, qs)) with
  | none => "bad input"
  | some (b, ps, qs) =>
    if out == ["panic"] then "propfail panic" else
    let m := showRingOpt (ring (boundF b) (ptsF ps))
    let got := " ".intercalate out
    let fin (s : String) : String := finish m got s
    fin <|
    let res : Option (List (Pt UInt64)) := if out == ["nil"] then some [] else (pts out).map (·.1)
    match res, boundQ b, ptsQ ps, ptsQ qs with
    | some rbits, some bq, some pq, some qq =>
      (match ptsQ rbits with
       | none => "propfail non-finite-output"   -- finite box and ring, NaN / infinite coordinate in the result
       | some rq =>
         if !(bq.lo.x < bq.hi.x && bq.lo.y < bq.hi.y) then "skip degenerate-box" else
         if !(rq.all (ringVertOK bq (tolComputed (boundCoords bq ++ pq.flatMap fun p => [p.x, p.y])))) then
           "propfail vertex-outside-box" else
         let closedIn := pq.length ≥ 1 && pq.head? == pq.getLast?
         if closedIn && !rq.isEmpty && rq.head? != rq.getLast? then "propfail not-closed" else
         -- wholly inside: unchanged
         if pq.length ≥ 1 && pq.all (inClosed bq) && rq != pq then "propfail inside-not-unchanged" else
         -- region equality at the sample points (strictly inside the box, off both boundaries)
         let eps2 : Q := 1 / 1000000000000
         let bad := qq.filter fun q =>
           closedIn && strictlyInside bq q && !(nearRing pq q eps2) && !(nearRing rq q eps2) &&
           !(q.x - bq.lo.x ≤ 1/1000000) && !(bq.hi.x - q.x ≤ 1/1000000) &&
           !(q.y - bq.lo.y ≤ 1/1000000) && !(bq.hi.y - q.y ≤ 1/1000000) &&
           evenOdd rq q != evenOdd pq q
         if !bad.isEmpty then "propfail region-differs" else
         -- disjoint bound ⇒ nothing
         let disjoint := pq.all (fun p => p.x < bq.lo.x) || pq.all (fun p => p.x > bq.hi.x) ||
                         pq.all (fun p => p.y < bq.lo.y) || pq.all (fun p => p.y > bq.hi.y)
         -- "a ring disjoint from the box yields nothing" / "nil exactly when nothing remains", exact:
         -- the ring's chain and even-odd region against the box (see `ringRem`)
         let rem := if closedIn then ringRem bq pq else Rem.unknown
         -- A ring whose bound misses the box by LESS THAN THE ROUNDING of the first pass (a vertex one ulp
         -- beyond a corner, on both axes) is the touching case of finding C08-sh-boundary-sliver reached by
         -- rounding: the left / right pass computes an intersection that rounds ONTO the corner, and
         -- Sutherland–Hodgman returns k copies of that corner.  Only in exactly that situation — the ring
         -- comes within 1e-9 of the closed box (`touch`), and the result is a zero-area ring on the boundary
         -- (`isSliver`) — the failure carries that finding's label; any other non-nil result for a ring with a
         -- disjoint bound, and any result the Float twin does not reproduce (`finish` appends the diff), stays
         -- `disjoint-not-nil`.
         if disjoint && !rq.isEmpty then
           (if rem == .touch && isSliver bq rq then "propfail nothing-remains-not-nil sliver-touching"
            else "propfail disjoint-not-nil") else
         (match rem, rq.isEmpty with
          | .yes, true => "propfail nil-but-remains"
          | .no w, false => "propfail nothing-remains-not-nil " ++ w
          | .touch, false => "propfail nothing-remains-not-nil sliver-touching"
          | _, _ =>
            if closedIn && rq != pq && isSliver bq rq then "propfail sliver-in-result" else
            let t := match rem with | .yes => "" | .no _ => " far" | .touch => " touching" | .unknown => " undecided"
            if rq.isEmpty then "ok ring-nil" ++ t else if rq == pq then "ok ring-unchanged" else "ok ring-cut" ++ t))
    | _, _, _, _ => "skip non-finite"

/-- `split <box> <axis> <coord> <pts> => full ; a ; b` (each `nil` or pts): signed area is additive -/
def handleSplit (inp out : Toks) : String :=
  match (do
    let (b, i) ← boundP inp
    let (axis, i) ← nat i
    let (cb, i) ← bits i
    let (ps, _) ← pts i
    pure (b, axis, cb, ps)) with
  | none => "bad input"
  | some (b, axis, cb, ps) =>
    if out == ["panic"] then "propfail panic" else
    let c := Float.ofBits cb
    let bf := boundF b
    let (b1, b2) : Bound F × Bound F :=
      if axis == 0 then (⟨bf.lo, ⟨c, bf.hi.y⟩⟩, ⟨⟨c, bf.lo.y⟩, bf.hi⟩)
      else (⟨bf.lo, ⟨bf.hi.x, c⟩⟩, ⟨⟨bf.lo.x, c⟩, bf.hi⟩)
    let pf := ptsF ps
    let m := " ; ".intercalate [showRingOpt (ring bf pf), showRingOpt (ring b1 pf), showRingOpt (ring b2 pf)]
    let got := " ".intercalate out
    let fin (s : String) : String := finish m got s
    fin <|
    let parts := got.splitOn " ; "
    let toQ (s : String) : Option (List (Pt Q)) :=
      if s == "nil" then some [] else (pts (splitLine s)).bind fun (l, _) => ptsQ l
    match parts.map toQ with
    | [some f, some a, some bb] =>
      let af := area2 f; let aa := area2 a; let ab := area2 bb
      let scale := (if af < 0 then -af else af) + 1
      let d := af - (aa + ab)
      if (if d < 0 then -d else d) > scale / 100000000 then "propfail area-not-additive"
      else if f.isEmpty then "ok split-nil" else "ok split"
    | _ => "skip non-finite"

/-- vertices of a geometry value -/
def allPts (g : Geom UInt64) : List (Pt UInt64) :=
  let c := coords g
  let rec pair : List UInt64 → List (Pt UInt64)
    | x :: y :: t => ⟨x, y⟩ :: pair t
    | _ => []
  pair c

/-- `geom <box> <gval> => nil | <geom>` : the generic entry point -/
def handleGeom (inp out : Toks) : String :=
  match (do
    let (b, i) ← boundP inp
    let (g, _) ← gval i
    pure (b, g)) with
  | none => "bad input"
  | some (b, v) =>
    if out == ["panic"] then "propfail panic" else
    let m : String :=
      (match Orb.ClipSpec.clipV ebF (boundF b) (mapGVal Float.ofBits v) with
       | none => "stuck"
       | some none => "nil"
       | some (some r) => showGeom (mapGeom Float.toBits r))
    let got := " ".intercalate out
    let fin (s : String) : String := finish m got s
    fin <|
    -- the exact classification of the input (nil interface / typed nil: nothing there)
    let boxOK := match boundQ b with | some bq => bq.lo.x < bq.hi.x && bq.lo.y < bq.hi.y | none => false
    let gq : Option (Geom Q) := match v with | .val g => geomQ g | _ => none
    let rem : Rem := match v, boundQ b, gq with
      | .val _, some bq, some q => if boxOK then remOf bq q else .unknown
      | .val _, _, _ => .unknown
      | _, _, _ => .no "empty"
    let remTag := match rem with
      | .yes => "" | .no w => if w.startsWith "sliver" then " far" else " " ++ w
      | .touch => " touching" | .unknown => " undecided"
    if got == "nil" then
      (match rem with
       | .yes => "propfail nil-but-remains"
       | _ => "ok geom-nil" ++ remTag) else
    -- "returns nil exactly when nothing remains": a typed-nil or vertex-less value is not nil
    (if (out.drop 1).any (fun t => ["nMP", "nLS", "nMLS", "nR", "nPG", "nMPG", "nC"].contains t) then
       "propfail empty-result-not-nil typed-nil-member" else
     match gval out with
     | some (.nilSlice _, _) => "propfail empty-result-not-nil typed-nil"
     | some (.val r, _) =>
       if (allPts r).isEmpty then "propfail empty-result-not-nil no-vertices" else
       (match r with
        | .collection gs => if gs.any (fun m => (allPts m).isEmpty) then "propfail empty-result-not-nil member" else ""
        | _ => "")
     | _ => "") |> fun early => if early != "" then early else
    match geom out, boundQ b with
    | some (r, _), some bq =>
      (match geomQ r with
       | some rgq =>
         let inCoords : List Q := match gq with | some q => coords q | none => []
         if !(vertsOK bq (tolComputed (boundCoords bq ++ inCoords)) rgq) then "propfail vertex-outside-box" else
         -- nil ⇔ nothing remains, judged on the whole argument
         (match rem with
          | .no w => "propfail nothing-remains-not-nil " ++ w
          | .touch => "propfail nothing-remains-not-nil sliver-touching"
          | _ =>
            -- … on the rings of the result (slivers, holes that cover the box) …
            (match gq, geomQ r with
             | some q, some rq => if boxOK then resultDefects bq q rq else none
             | _, _ => none) |> fun d =>
            match d with
            | some w => "propfail " ++ w
            | none =>
              -- … and member by member through the model, when the model's outcome IS the outcome
              let mv := match v with
                | .val g => if boxOK && m == got then memberViolations bq (boundF b) g else []
                | _ => []
              match mv with
              | w :: _ => "propfail member " ++ w
              | [] =>
                -- holes: a hole that certainly reaches into the box must still be there
                let holesOK : Bool := match gq, geomQ r with
                  | some (.polygon (_ :: hs)), some (.polygon (_ :: hs')) =>
                    if boxOK then decide ((hs.filter fun h => ringRem bq h == .yes).length ≤ hs'.length) else true
                  | some (.polygon (_ :: hs)), some _ =>
                    if boxOK then !(hs.any fun h => ringRem bq h == .yes) else true
                  | _, _ => true
                if !holesOK then "propfail hole-dropped-but-remains" else
                (match r with | .collection _ => "ok geom-coll" | _ => "ok geom") ++ remTag)
       | none => if gq.isSome then "propfail non-finite-output" else "skip non-finite")
    | _, _ => "bad output"

/-! ### `(*mvt.Layer).Clip` / `mvt.Layers.Clip` (encoding/mvt/clip.go): in-place compaction of `l.Features` -/

def gvals : Nat → P (List (GVal UInt64))
  | 0 => fun ts => some ([], ts)
  | n+1 => fun ts => do
    let (g, ts) ← gval ts
    let (gs, ts) ← gvals n ts
    pure (g :: gs, ts)

def layersP : Nat → P (List (List (GVal UInt64)))
  | 0 => fun ts => some ([], ts)
  | n+1 => fun ts => do
    let (k, ts) ← nat ts
    let (fs, ts) ← gvals k ts
    let (ls, ts) ← layersP n ts
    pure (fs :: ls, ts)

def idGeoms : Nat → P (List (Nat × GVal UInt64))
  | 0 => fun ts => some ([], ts)
  | n+1 => fun ts => do
    let (i, ts) ← nat ts
    let (g, ts) ← gval ts
    let (r, ts) ← idGeoms n ts
    pure ((i, g) :: r, ts)

def gvalPts (v : GVal UInt64) : List (Pt UInt64) := match v with | .val g => allPts g | _ => []

/-- outcome of one layer: `<at> (<id> <geom>)^at <n-at> <stale id>^(n-at) <a|m>` -/
def layerOutP : P (List (Nat × GVal UInt64) × List Nat × String) := fun ts => do
  let (k, ts) ← nat ts
  let (kept, ts) ← idGeoms k ts
  let (s, ts) ← nat ts
  let (stale, ts) ← many nat s ts
  let (al, ts) ← tok ts
  pure ((kept, stale, al), ts)

def layerOutsP : Nat → P (List (List (Nat × GVal UInt64) × List Nat × String))
  | 0 => fun ts => some ([], ts)
  | n+1 => fun ts => do
    let (x, ts) ← layerOutP ts
    let (r, ts) ← layerOutsP n ts
    pure (x :: r, ts)

def showLayerSt (st : Orb.ClipSpec.LayerSt Nat (Geom F)) : String :=
  let k := st.kept.foldl (fun s (i, g) => s ++ " " ++ toString i ++ " " ++ showGeom (mapGeom Float.toBits g)) (toString st.kept.length)
  let t := st.stale.foldl (fun s i => s ++ " " ++ toString i) (toString st.stale.length)
  k ++ " " ++ t ++ " a"

/-- `layer <box> <L> (<k> <gval>^k)^L => (<layer outcome>)^L`; feature ids are 0, 1, … in input order -/
def handleLayer (inp out : Toks) : String :=
  match (do
    let (b, i) ← boundP inp
    let (nl, i) ← nat i
    let (ls, _) ← layersP nl i
    pure (b, ls)) with
  | none => "bad layer"
  | some (b, ls) =>
    if out == ["panic"] then "propfail panic" else
    -- number the features
    let numbered : List (List (Nat × GVal UInt64)) :=
      (ls.foldl (fun (acc : List (List (Nat × GVal UInt64)) × Nat) fs =>
        (acc.1 ++ [fs.zipIdx.map fun (g, i) => (acc.2 + i, g)], acc.2 + fs.length)) ([], 0)).1
    let bf := boundF b
    let models := numbered.map fun fs =>
      Orb.ClipSpec.layerClip (fun (v : GVal UInt64) => Orb.ClipSpec.clipV ebF bf (mapGVal Float.ofBits v)) fs
    let m : String := " ".intercalate (models.map fun r => match r with | some st => showLayerSt st | none => "stuck")
    let got := " ".intercalate out
    let fin (s : String) : String := finish m got s
    fin <|
    match layerOutsP ls.length out, boundQ b with
    | some (outs, []), some bq =>
      if !(bq.lo.x < bq.hi.x && bq.lo.y < bq.hi.y) then "skip degenerate-box" else
      -- executable statement: per layer, the survivors are a subsequence of the features, every
      -- feature that certainly has something in the box survives, none that certainly has nothing does,
      -- no vertex outside the box, the slice is compacted in place, nothing is lost from the array
      let verdicts := (numbered.zip outs).map fun (fs, (kept, stale, al)) =>
        let ids := fs.map (·.1)
        let keptIds := kept.map (·.1)
        if !(keptIds.isSublist ids) then "propfail layer-order" else
        if (keptIds ++ stale).length != ids.length || !(stale.all ids.contains) then "propfail layer-cells" else
        if al != "a" then "propfail layer-not-in-place" else
        if kept.any (fun (_, g) => (gvalPts g).isEmpty) then "propfail layer-empty-feature-kept" else
        let inCoords : List Q := fs.flatMap fun (_, v) =>
          match v with | .val g => (match geomQ g with | some q => coords q | none => []) | _ => []
        let tc := tolComputed (boundCoords bq ++ inCoords)
        if kept.any (fun (_, g) => match g with
            | .val r => (match geomQ r with | some rq => !(vertsOK bq tc rq) | none => false)
            | _ => false) then
          "propfail vertex-outside-box" else
        let bad := fs.filterMap fun (i, v) =>
          let rem : Rem := match v with
            | .val g => (match geomQ g with | some q => remOf bq q | none => .unknown)
            | _ => .no "empty"
          match rem, keptIds.contains i with
          | .yes, false => some "propfail nil-but-remains"
          | .no w, true => some ("propfail nothing-remains-not-nil " ++ w)
          | .touch, true => some "propfail nothing-remains-not-nil sliver-touching"
          | _, _ => none
        match bad with
        | w :: _ => w
        | [] => "ok"
      (match verdicts.find? (· != "ok") with
       | some w => w
       | none =>
         let nk := (outs.map fun (k, _, _) => k.length).foldl (· + ·) 0
         let nf := (ls.map List.length).foldl (· + ·) 0
         if nf == 0 then "ok triv layer-empty" else
         if nk == 0 then "ok layer all-dropped" else if nk == nf then "ok layer all-kept" else "ok layer compacted")
    | _, _ => "bad layer-out"

/-! ### heap level: `clip.Geometry` on the caller's own memory (`Orb.HeapOps.geometryH`) -/

/-- `cliph <box> <heap> <sgeom> => <heap afterwards> (nil | <located result>)` -/
def handleClipH (inp out : Toks) : String :=
  match (do
    let (b, i) ← boundP inp
    let (hp, i) ← Driver.HeapOps.heapP i
    let (g, _) ← Driver.HeapOps.sgeomP i
    pure (b, hp, g)) with
  | none => "bad cliph"
  | some (b, hp, g) =>
    if out == ["panic"] then "propfail panic" else
    let σ := Driver.HeapOps.storeF hp
    let gF := Driver.HeapOps.mapS Float.ofBits g
    let n0 := hp.length
    let m : String := match Orb.HeapOps.geometryH ebF (boundF b) σ gF with
      | none => "stuck"
      | some (σ', r) =>
        showPtss (Driver.HeapOps.storeBits (σ'.take n0)) ++ " " ++
          (match r with | none => "nil" | some r => Driver.HeapOps.showSGeom n0 σ' r)
    let got := " ".intercalate out
    let fin (s : String) : String := finish m got s
    fin <|
    match Driver.HeapOps.heapP out with
    | none => "bad cliph-out"
    | some (hp', rest) =>
      -- executable statements of `clip_frame` (nothing outside the capacity windows of the 2-d
      -- members' rings is written; no array changes its size), `clip_readonly_1d` and
      -- `clip_result_fresh_or_subslice`
      let rh := Orb.HeapOps.ringHdrs gF
      if hp'.length != hp.length || (hp.zip hp').any (fun (x, y) => x.length != y.length) then
        "propfail clip-heap-shape" else
      let changed := (Driver.HeapOps.cells hp).filter fun (a, i) =>
        !(Driver.HeapOps.samePt ((hp.getD a []).getD i ⟨0, 0⟩) ((hp'.getD a []).getD i ⟨0, 0⟩))
      if rh.isEmpty && !changed.isEmpty then "propfail clip-1d-not-readonly" else
      let outside := changed.find? (fun (a, i) => !(rh.any (·.inWin a i)))
      if let some (a, i) := outside then s!"propfail clip-writes-outside-ring-window array={a} index={i}" else
      let locs := Driver.HeapOps.locsOf rest
      if locs.any (fun l => !(rh.any fun h => h.arr == l.arr && h.off == l.off && h.cap == l.cap && l.len ≤ h.cap)) then
        "propfail clip-result-aliases-input-outside-a-ring-slice" else
      -- executable statement of `clip_denote`: legal, pairwise separated slices ⇒ the value the outcome
      -- denotes in the reported heap is the value-level clip of what the argument denoted before
      let allH := Orb.HeapOps.hdrs gF
      let separated := Driver.HeapOps.wfAll σ allH && Driver.HeapOps.sepAll allH
      let valueModel : String := match geometry ebF (boundF b) (Orb.HeapOps.denoteS σ gF) with
        | none => "stuck"
        | some none => "nil"
        | some (some v) => showGeom (mapGeom Float.toBits v)
      let valueImpl : String := if rest == ["nil"] then "nil" else
        match Driver.HeapOps.lgeomP hp' rest with
        | some (v, _) => showGeom v
        | none => "unparsable"
      if separated && valueModel != valueImpl then "propfail clip-denote-separated " ++ valueModel else
      let nF := Driver.HeapOps.countFresh rest
      let beyondLen := changed.any fun (a, i) => !(rh.any (·.covers a i))
      let all := Orb.HeapOps.hdrs gF
      let idx := List.range all.length
      let overlap := idx.any fun i => idx.any fun j => i < j &&
        (match all[i]?, all[j]? with
         | some x, some y => x.arr == y.arr && x.off < y.off + y.cap && y.off < x.off + x.cap
         | _, _ => false)
      let sfx := (if beyondLen then " writes-beyond-len" else "") ++ (if overlap then " windows-overlap" else "") ++
        (if !separated && valueModel != valueImpl then " differs-from-value-level" else "")
      if rh.isEmpty then (if rest == ["nil"] then "ok cliph readonly-1d nil" else "ok cliph readonly-1d") else
      if rest == ["nil"] then (if changed.isEmpty then "ok cliph nil-untouched" else "ok cliph nil-clobbered" ++ sfx) else
      let where_ := if !locs.isEmpty && nF != 0 then "in-place+fresh" else if !locs.isEmpty then "in-place" else
        if nF != 0 then "fresh" else "values"
      s!"ok cliph {where_}{if changed.isEmpty then " heap-unchanged" else ""}{sfx}"

def handle (ts : Toks) : String :=
  match ts with
  | op :: rest =>
    let (inp, out) := splitArrow rest
    match op with
    | "cliph" => handleClipH inp out
    | "ring" => handleRing inp out
    | "split" => handleSplit inp out
    | "geom" => handleGeom inp out
    -- `layer <box> [E<Extent>v<Version>] ...`: the receiver's other fields are part of the case (an optional
    -- fifth token); the statement and the model do not depend on them: Layer.Clip clips every feature
    -- whatever the Extent says
    | "layer" => handleLayer (match inp.drop 4 with
      | t :: tl => if t.startsWith "E" then inp.take 4 ++ tl else inp
      | [] => inp) out
    -- reach self-test of the generator (harness/clipreach.go): the number of cases of the corner-shot
    -- family on which a replica of clip.line's loop takes the `clips == 2` (clampToBound) arm
    | "reach" => (match inp with
      | [n] => if n == "0" then "bad reach-gate clamp-arm-unreached" else "ok reach-clamp"
      | _ => "bad reach")
    | _ => "bad op " ++ op
  | [] => "bad empty"

end Driver.C08
