import Orb.Proto
import Orb.Clip
import Driver.C07
import Driver.HeapOps
import Generated.Params

/-! Driver for C08 (ring / polygon clipping keeps exactly the region inside the box). -/
namespace Driver.C08
open Orb Orb.Proto Orb.Core Orb.Clip Driver.C07

def ebF : Bound F :=
  ⟨⟨Float.ofInt Generated.Params.emptyBoundMinX, Float.ofInt Generated.Params.emptyBoundMinY⟩,
   ⟨Float.ofInt Generated.Params.emptyBoundMaxX, Float.ofInt Generated.Params.emptyBoundMaxY⟩⟩

def tol : Q := 1 / 1000000000

/-- even-odd membership of `q` in the implicitly closed ring `r` (crossing number, exact);
    only meaningful off the boundary -/
def evenOdd (r : List (Pt Q)) (q : Pt Q) : Bool :=
  match r with
  | [] => false
  | f :: _ =>
    let closed := r ++ [f]
    let edges := closed.zip (closed.drop 1)
    edges.foldl (fun acc (s, e) =>
      if (s.y > q.y) != (e.y > q.y) then
        let xint := s.x + (q.y - s.y) * (e.x - s.x) / (e.y - s.y)
        if q.x < xint then !acc else acc
      else acc) false

/-- squared distance from `q` to the segment `a b`, exact -/
def segDist2 (a b q : Pt Q) : Q :=
  let dx := b.x - a.x; let dy := b.y - a.y
  let l2 := dx * dx + dy * dy
  if l2 == 0 then (q.x - a.x) * (q.x - a.x) + (q.y - a.y) * (q.y - a.y) else
  let t := ((q.x - a.x) * dx + (q.y - a.y) * dy) / l2
  let t := if t < 0 then 0 else if t > 1 then 1 else t
  let px := a.x + t * dx; let py := a.y + t * dy
  (q.x - px) * (q.x - px) + (q.y - py) * (q.y - py)

def nearRing (r : List (Pt Q)) (q : Pt Q) (eps2 : Q) : Bool :=
  match r with
  | [] => false
  | f :: _ =>
    let closed := r ++ [f]
    (closed.zip (closed.drop 1)).any fun (a, b) => segDist2 a b q ≤ eps2

def area2 (r : List (Pt Q)) : Q :=
  match r with
  | [] => 0
  | f :: _ =>
    let closed := r ++ [f]
    (closed.zip (closed.drop 1)).foldl (fun acc (a, b) => acc + (a.x * b.y - b.x * a.y)) 0

def inBoxTol (b : Bound Q) (p : Pt Q) : Bool :=
  b.lo.x - tol ≤ p.x && p.x ≤ b.hi.x + tol && b.lo.y - tol ≤ p.y && p.y ≤ b.hi.y + tol

def showRingOpt (r : Option (List (Pt F))) : String :=
  match r with
  | some [] => "nil"
  | some l => showPtsF l
  | none => "stuck"

/-- `ring <box> <pts> <k> <query pts> => nil | <pts>` -/
def handleRing (inp out : Toks) : String :=
  match (do
    let (b, i) ← boundP inp
    let (ps, i) ← pts i
    let (qs, _) ← pts i
    pure (b, ps, qs)) with
  | none => "bad input"
  | some (b, ps, qs) =>
    if out == ["panic"] then "propfail panic" else
    let m := showRingOpt (ring (boundF b) (ptsF ps))
    let got := " ".intercalate out
    let fin (s : String) : String := if s.startsWith "propfail" || m == got then s else "diff " ++ m
    fin <|
    let res : Option (List (Pt UInt64)) := if out == ["nil"] then some [] else (pts out).map (·.1)
    match res, boundQ b, ptsQ ps, ptsQ qs with
    | some rbits, some bq, some pq, some qq =>
      (match ptsQ rbits with
       | none => "skip non-finite"
       | some rq =>
         if !(bq.lo.x < bq.hi.x && bq.lo.y < bq.hi.y) then "skip degenerate-box" else
         if !(rq.all (inBoxTol bq)) then "propfail vertex-outside-box" else
         let closedIn := pq.length ≥ 1 && pq.head? == pq.getLast?
         if closedIn && !rq.isEmpty && rq.head? != rq.getLast? then "propfail not-closed" else
         -- wholly inside: unchanged
         if pq.length ≥ 1 && pq.all (inClosed bq) && rq != pq then "propfail inside-not-unchanged" else
         -- region equality at the sample points (strictly inside the box, off both boundaries)
         let eps2 : Q := 1 / 1000000000000
         let bad := qq.filter fun q =>
           closedIn && strictlyInside bq q && !(nearRing pq q eps2) && !(nearRing rq q eps2) &&
           !(q.x - bq.lo.x ≤ 1/1000000) && !(bq.hi.x - q.x ≤ 1/1000000) &&
           !(q.y - bq.lo.y ≤ 1/1000000) && !(bq.hi.y - q.y ≤ 1/1000000) &&
           evenOdd rq q != evenOdd pq q
         if !bad.isEmpty then "propfail region-differs" else
         -- disjoint bound ⇒ nothing
         let disjoint := pq.all (fun p => p.x < bq.lo.x) || pq.all (fun p => p.x > bq.hi.x) ||
                         pq.all (fun p => p.y < bq.lo.y) || pq.all (fun p => p.y > bq.hi.y)
         if disjoint && !rq.isEmpty then "propfail disjoint-not-nil" else
         if rq.isEmpty then "ok ring-nil" else if rq == pq then "ok ring-unchanged" else "ok ring-cut")
    | _, _, _, _ => "skip non-finite"

/-- `split <box> <axis> <coord> <pts> => full ; a ; b` (each `nil` or pts): signed area is additive -/
def handleSplit (inp out : Toks) : String :=
  match (do
    let (b, i) ← boundP inp
    let (axis, i) ← nat i
    let (cb, i) ← bits i
    let (ps, _) ← pts i
    pure (b, axis, cb, ps)) with
  | none => "bad input"
  | some (b, axis, cb, ps) =>
    if out == ["panic"] then "propfail panic" else
    let c := Float.ofBits cb
    let bf := boundF b
    let (b1, b2) : Bound F × Bound F :=
      if axis == 0 then (⟨bf.lo, ⟨c, bf.hi.y⟩⟩, ⟨⟨c, bf.lo.y⟩, bf.hi⟩)
      else (⟨bf.lo, ⟨bf.hi.x, c⟩⟩, ⟨⟨bf.lo.x, c⟩, bf.hi⟩)
    let pf := ptsF ps
    let m := " ; ".intercalate [showRingOpt (ring bf pf), showRingOpt (ring b1 pf), showRingOpt (ring b2 pf)]
    let got := " ".intercalate out
    let fin (s : String) : String := if s.startsWith "propfail" || m == got then s else "diff " ++ m
    fin <|
    let parts := got.splitOn " ; "
    let toQ (s : String) : Option (List (Pt Q)) :=
      if s == "nil" then some [] else (pts (splitLine s)).bind fun (l, _) => ptsQ l
    match parts.map toQ with
    | [some f, some a, some bb] =>
      let af := area2 f; let aa := area2 a; let ab := area2 bb
      let scale := (if af < 0 then -af else af) + 1
      let d := af - (aa + ab)
      if (if d < 0 then -d else d) > scale / 100000000 then "propfail area-not-additive"
      else if f.isEmpty then "ok split-nil" else "ok split"
    | _ => "skip non-finite"

/-- vertices of a geometry value -/
def allPts (g : Geom UInt64) : List (Pt UInt64) :=
  let c := coords g
  let rec pair : List UInt64 → List (Pt UInt64)
    | x :: y :: t => ⟨x, y⟩ :: pair t
    | _ => []
  pair c

/-- `geom <box> <gval> => nil | <geom>` : the generic entry point -/
def handleGeom (inp out : Toks) : String :=
  match (do
    let (b, i) ← boundP inp
    let (g, _) ← gval i
    pure (b, g)) with
  | none => "bad input"
  | some (b, v) =>
    if out == ["panic"] then "propfail panic" else
    let m : String := match v with
      | .val g =>
        (match geometry ebF (boundF b) (mapGeom Float.ofBits g) with
         | none => "stuck"
         | some none => "nil"
         | some (some r) => showGeom (mapGeom Float.toBits r))
      | _ => "nil"
    let got := " ".intercalate out
    let fin (s : String) : String := if s.startsWith "propfail" || m == got then s else "diff " ++ m
    fin <|
    if got == "nil" then "ok geom-nil" else
    -- "returns nil exactly when nothing remains": a typed-nil or vertex-less value is not nil
    (if (out.drop 1).any (fun t => ["nMP", "nLS", "nMLS", "nR", "nPG", "nMPG", "nC"].contains t) then
       "propfail empty-result-not-nil typed-nil-member" else
     match gval out with
     | some (.nilSlice _, _) => "propfail empty-result-not-nil typed-nil"
     | some (.val r, _) =>
       if (allPts r).isEmpty then "propfail empty-result-not-nil no-vertices" else
       (match r with
        | .collection gs => if gs.any (fun m => (allPts m).isEmpty) then "propfail empty-result-not-nil member" else ""
        | _ => "")
     | _ => "") |> fun early => if early != "" then early else
    match geom out, boundQ b with
    | some (r, _), some bq =>
      (match ptsQ (allPts r) with
       | some vs => if vs.all (inBoxTol bq) then (match r with | .collection _ => "ok geom-coll" | _ => "ok geom") else "propfail vertex-outside-box"
       | none => "skip non-finite")
    | _, _ => "bad output"

/-! ### heap level: `clip.Geometry` on the caller's own memory (`Orb.HeapOps.geometryH`) -/

/-- `cliph <box> <heap> <sgeom> => <heap afterwards> (nil | <located result>)` -/
def handleClipH (inp out : Toks) : String :=
  match (do
    let (b, i) ← boundP inp
    let (hp, i) ← Driver.HeapOps.heapP i
    let (g, _) ← Driver.HeapOps.sgeomP i
    pure (b, hp, g)) with
  | none => "bad cliph"
  | some (b, hp, g) =>
    if out == ["panic"] then "propfail panic" else
    let σ := Driver.HeapOps.storeF hp
    let gF := Driver.HeapOps.mapS Float.ofBits g
    let n0 := hp.length
    let m : String := match Orb.HeapOps.geometryH ebF (boundF b) σ gF with
      | none => "stuck"
      | some (σ', r) =>
        showPtss (Driver.HeapOps.storeBits (σ'.take n0)) ++ " " ++
          (match r with | none => "nil" | some r => Driver.HeapOps.showSGeom n0 σ' r)
    let got := " ".intercalate out
    let fin (s : String) : String := if s.startsWith "propfail" || m == got then s else "diff " ++ m
    fin <|
    match Driver.HeapOps.heapP out with
    | none => "bad cliph-out"
    | some (hp', rest) =>
      -- executable statements of `clip_frame` (nothing outside the capacity windows of the 2-d
      -- members' rings is written; no array changes its size), `clip_readonly_1d` and
      -- `clip_result_fresh_or_subslice`
      let rh := Orb.HeapOps.ringHdrs gF
      if hp'.length != hp.length || (hp.zip hp').any (fun (x, y) => x.length != y.length) then
        "propfail clip-heap-shape" else
      let changed := (Driver.HeapOps.cells hp).filter fun (a, i) =>
        !(Driver.HeapOps.samePt ((hp.getD a []).getD i ⟨0, 0⟩) ((hp'.getD a []).getD i ⟨0, 0⟩))
      if rh.isEmpty && !changed.isEmpty then "propfail clip-1d-not-readonly" else
      let outside := changed.find? (fun (a, i) => !(rh.any (·.inWin a i)))
      if let some (a, i) := outside then s!"propfail clip-writes-outside-ring-window array={a} index={i}" else
      let locs := Driver.HeapOps.locsOf rest
      if locs.any (fun l => !(rh.any fun h => h.arr == l.arr && h.off == l.off && h.cap == l.cap && l.len ≤ h.cap)) then
        "propfail clip-result-aliases-input-outside-a-ring-slice" else
      -- executable statement of `clip_denote`: legal, pairwise separated slices ⇒ the value the outcome
      -- denotes in the reported heap is the value-level clip of what the argument denoted before
      let allH := Orb.HeapOps.hdrs gF
      let separated := Driver.HeapOps.wfAll σ allH && Driver.HeapOps.sepAll allH
      let valueModel : String := match geometry ebF (boundF b) (Orb.HeapOps.denoteS σ gF) with
        | none => "stuck"
        | some none => "nil"
        | some (some v) => showGeom (mapGeom Float.toBits v)
      let valueImpl : String := if rest == ["nil"] then "nil" else
        match Driver.HeapOps.lgeomP hp' rest with
        | some (v, _) => showGeom v
        | none => "unparsable"
      if separated && valueModel != valueImpl then "propfail clip-denote-separated " ++ valueModel else
      let nF := Driver.HeapOps.countFresh rest
      let beyondLen := changed.any fun (a, i) => !(rh.any (·.covers a i))
      let all := Orb.HeapOps.hdrs gF
      let idx := List.range all.length
      let overlap := idx.any fun i => idx.any fun j => i < j &&
        (match all[i]?, all[j]? with
         | some x, some y => x.arr == y.arr && x.off < y.off + y.cap && y.off < x.off + x.cap
         | _, _ => false)
      let sfx := (if beyondLen then " writes-beyond-len" else "") ++ (if overlap then " windows-overlap" else "") ++
        (if !separated && valueModel != valueImpl then " differs-from-value-level" else "")
      if rh.isEmpty then (if rest == ["nil"] then "ok cliph readonly-1d nil" else "ok cliph readonly-1d") else
      if rest == ["nil"] then (if changed.isEmpty then "ok cliph nil-untouched" else "ok cliph nil-clobbered" ++ sfx) else
      let where_ := if !locs.isEmpty && nF != 0 then "in-place+fresh" else if !locs.isEmpty then "in-place" else
        if nF != 0 then "fresh" else "values"
      s!"ok cliph {where_}{if changed.isEmpty then " heap-unchanged" else ""}{sfx}"

def handle (ts : Toks) : String :=
  match ts with
  | op :: rest =>
    let (inp, out) := splitArrow rest
    match op with
    | "cliph" => handleClipH inp out
    | "ring" => handleRing inp out
    | "split" => handleSplit inp out
    | "geom" => handleGeom inp out
    | _ => "bad op " ++ op
  | [] => "bad empty"

end Driver.C08
