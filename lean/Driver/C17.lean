import Orb.Proto
import Orb.Resample

/-!
  Driver for C17 (resample.Resample / resample.ToInterval).

      rs <df> <line> <N>      => D m d0 … dm-1 <result> ; B <reuse>
      iv <df> <line> <dbits>  => D m d0 … dm-1 <result> ; B <reuse>
      conc <G> <rounds> <k> (<op> <df> <line> <arg>)*k
                              => D … <result_0> | … | D … <result_k-1> ; C same <calls> | C <member> <round> <result>

  `<df>` = `pl` (planar.Distance) | `geo` (geo.Distance); `<line>` = `nLS | LS n (x y)*`;
  `<result>` = `nLS | LS k (x y)* | panic | hang | toobig`; `D …` are the values the real
  distance function returned on the consecutive vertex pairs.  (`hang` = no answer from the
  watchdogged child process that runs the cases whose computed length is not a positive finite
  number; the code as it stands always answers — `resample_total`.)

  * correspondence: the Float twin of `Orb.Resample` (planar distance recomputed with
    `Float.sqrt` and checked against the observed values bit for bit; great-circle distance
    taken from the observed values, since math.Cos is not bit-compatible) must reproduce the
    result bit for bit, nil-ness included.
  * executable property, on the implementation's result: count, endpoints, every point on
    the line, travel order, equal spacing (in the parameter: `spacing`; and measured with the
    distance function that was passed in: `spacing-df`), interval count, nil for non-positive
    N / d, identity for < 2 vertices, all-equal padding / truncation, no panic, no hang.
    Exact `Rat` arithmetic when the vertices are integers and every segment is axis-aligned
    (lengths rational), `Float` otherwise (tags `float`, `geo`).

  Tolerances (error analysis).  `u = 2^-53`; `T` = total length (in the unit of `df`: metres for
  geo); `E` = largest |coordinate| of the input (coordinate extent); `W = T·max_i |b_i - a_i|∞ / d_i`
  over the segments of positive length = the length of the line in COORDINATE units, measured
  at the scale of its most stretched segment (`W ≤ T` for planar; degrees for geo — never metres).
  * positions (on-line, order, spacing): the reference point of the spacing clause is computed
    with the expressions of the Go code (`t = k·T/(N-1)`, `τ = (t - dist)/d`, `a + τ·(b - a)`),
    so an exactly-correct result differs from it only by the rounding of these operations:
    |Δt| ≤ 2u·T, |Δτ| ≤ 3u·T/d + u, point error ≤ |Δτ|·|b - a| + 3u·E ≤ 4u·W + 3u·E
    (twice that between two such evaluations that chose neighbouring segments at a vertex).
    The position tolerance is `tol·W + 1e-13·E` with `tol = 1e-9` (Float) resp. `1e-12` (exact
    instance): the first term has a margin of > 1e3 over the bound, the second of > 100, and
    neither depends on the unit of `df`.
  * `spacing-df`: |cum + df(a, p) − k·T/(N−1)| ≤ 2·L·(position tolerance) + tol·T, where `L` is
    the Lipschitz constant of `df` in its second argument per coordinate unit: 1 (planar; the
    factor 2 covers √2), 4·111320 m/° for geo.Distance (R·π/180·(√2 + π/2) < 4·111320).
  * ToInterval count: `x = T/d` carries a relative error ≤ (m+1)·u; when `x(1 ± 1e-9)` straddles
    an integer both counts are accepted and the sampling clauses are judged with the count the
    implementation chose (tag suffix `edge-count`).  Exact instance: the count may exceed the
    exact `⌊T/d⌋ + 1` by one only if `T/d` is within 1e-12 (relative) below an integer.

  Zero-length hops between DISTINCT coordinates.  geo.Distance folds the longitude difference, so
  the antimeridian pair `(180, lat) (-180, lat)` — the usual way of writing a line that crosses
  the antimeridian — is a segment of length exactly 0 (`d·π/180` of 360 is bit for bit `2π`; the
  twin's `geoF` uses the same + − × ÷ and reproduces the 0 bit for bit; no cosine is involved
  because `0·cos = 0`).  The line JUMPS there: for the on-line / order clauses such a segment is
  its two end points (`segsOfD`), not the planar segment across all longitudes; the spacing
  clauses skip it (`pointAtArc`, `arcSeg` look at segments of positive length only) and take the
  first / last VERTEX as the reference of the first / last point.

  Nothing outside the call (harness/c17_state.go).  `Orb.Resample` is a function of its arguments; the
  code has to be one too:
  * `; B …`: after the fresh call (a freshly made slice, used once) the harness repeats the call out
    of ONE reused vertex buffer (same backing array for the whole process) after that buffer held a
    different line of the same length / with the same end points / a longer / a shorter one, after
    a call with another distance function, with a closure of the same function literal, with
    another count or interval, through the other entry point, and immediately again.  Every
    repetition must return the fresh result bit for bit: `propfail reuse-differs <which> <op> :: <the
    verdict of the property on THAT result>` otherwise (`handleCall`).
  * op `conc`: k calls made one after the other are judged like k cases; then G goroutines make
    `rounds` calls each (goroutine j, round r: member (j+r) mod k, out of its own private buffer)
    and every result must be the sequential one bit for bit: `propfail concurrent-differs …`
    (`handleConc`).
  * lines of up to 20000 vertices resampled to up to 50000 points: beyond `bigWork` vertex × point
    pairs the sampling clauses are judged in linear time (`samplingCheckLinear`: spacing and
    spacing-df by one monotone walk; the point of the line at arc length `k·T/(N-1)` is on the line and
    in travel order by construction), in `Float` also for integer axis-aligned lines (tags
    `float-long`, `geo-long`), and the twin of a long geo line takes the observed distances as the
    `dists` list directly (`twinObs`) instead of looking each pair up.

  Outside the quantifier (`skip`): d = NaN (neither `d > 0` nor `d ≤ 0`); d > 0 so small that
  `T/d ≥ 2^63` (the requested count is not representable as an `int`; Go's `int(x)` wraps to
  MinInt64 and `make` panics — there is no result of that size for any implementation);
  more than 1e6 points (harness resource screen).
-/
namespace Driver.C17
open Orb Orb.Proto Orb.Resample

instance : NatCast Float := ⟨Float.ofNat⟩

/-! ### generic geometry used by the executable property (instantiated at `Rat` and `Float`) -/
section check
variable {β : Type} [Add β] [Sub β] [Mul β] [Div β] [OfNat β 0] [OfNat β 1] [NatCast β]
  [LE β] [LT β] [DecidableLE β] [DecidableLT β]

def vsub (a b : Pt β) : Pt β := ⟨a.x - b.x, a.y - b.y⟩
def dot (a b : Pt β) : β := a.x * b.x + a.y * b.y
def dsq (a b : Pt β) : β := dot (vsub a b) (vsub a b)
def clamp01 (t : β) : β := if t < 0 then 0 else if 1 < t then 1 else t
def absv (t : β) : β := if t < 0 then 0 - t else t
def maxv (a b : β) : β := if a < b then b else a

/-- parameter of the point of segment `a b` closest to `p`, and the squared distance to it -/
def nearest (a b p : Pt β) : β × β :=
  let l := dsq a b
  let τ := if 0 < l then clamp01 (dot (vsub p a) (vsub b a) / l) else 0
  (τ, dsq p (lerp a b τ))

/-- the segments of the line for the on-line / order clauses, given the lengths `ds` the distance
    function assigns to them.  A segment of length zero has no interior: it consists of its two
    end points only — also when these differ as coordinates, which happens with geo.Distance on
    the antimeridian pair `(180, lat) (-180, lat)` (the usual way of writing a line that crosses
    the antimeridian; the longitude difference folds to exactly 0) and with the planar distance
    when the squares underflow.  Such a hop becomes the two degenerate segments `(a, a)`, `(b, b)`:
    the line JUMPS from `a` to `b`, the planar segment between them (all longitudes!) is not part
    of it.  (The indices of `placeFrom` / `orderViolation` refer to this list; only their order matters.) -/
def segsOfD : List (Pt β) → List β → List (Pt β × Pt β)
  | a :: b :: rest, d :: ds =>
    (if 0 < d then [(a, b)] else [(a, a), (b, b)]) ++ segsOfD (b :: rest) ds
  | _, _ => []

/-- is `p` within `tol2` (squared) of some segment? -/
def onLine (segs : List (Pt β × Pt β)) (p : Pt β) (tol2 : β) : Bool :=
  segs.any fun (a, b) => (nearest a b p).2 ≤ tol2

/-- smallest placement `(i, τ) ≥ (i0, τ0)` (lexicographically, `τtol` slack) of `p` on the line -/
def placeFrom (segs : List (Pt β × Pt β)) (i0 : Nat) (τ0 : β) (p : Pt β) (tol2 τtol : β) : Option (Nat × β) :=
  let rec go : List (Pt β × Pt β) → Nat → Option (Nat × β)
    | [], _ => none
    | (a, b) :: rest, i =>
      let (τ, d2) := nearest a b p
      if d2 ≤ tol2 ∧ (i0 < i ∨ τ0 ≤ τ + τtol) then some (i, if i0 < i then τ else maxv τ τ0)
      else go rest (i + 1)
  go (segs.drop i0) i0

/-- do the points admit placements that never go backwards along the line? first offender -/
def orderViolation (segs : List (Pt β × Pt β)) (out : List (Pt β)) (tol2 τtol : β) : Option Nat :=
  let rec go : List (Pt β) → Nat → Nat → β → Option Nat
    | [], _, _, _ => none
    | p :: ps, k, i, τ =>
      match placeFrom segs i τ p tol2 τtol with
      | none => some k
      | some (i', τ') => go ps (k + 1) i' τ'
  go out 0 0 0

/-- the point at arc length `t` from the start (segment lengths `ds`), `last` beyond the end -/
def pointAtArc : List (Pt β) → List β → β → β → Pt β → Pt β
  | a :: b :: rest, d :: ds, acc, t, last =>
    if 0 < d ∧ t ≤ acc + d then lerp a b ((t - acc) / d)
    else pointAtArc (b :: rest) ds (acc + d) t last
  | _, _, _, _, last => last

/-- start vertex and cumulative length of the segment that contains arc length `t`
    (the same choice as `pointAtArc`) -/
def arcSeg : List (Pt β) → List β → β → β → Option (Pt β × β)
  | a :: b :: rest, d :: ds, acc, t =>
    if 0 < d ∧ t ≤ acc + d then some (a, acc) else arcSeg (b :: rest) ds (acc + d) t
  | _, _, _, _ => none

/-- the arc length at which the `k`-th of `N` points is due -/
def arcTarget (total : β) (N k : Nat) : β :=
  if k == 0 then 0 else if k + 1 == N then total else (k : β) * total / ((N - 1 : Nat) : β)

/-- first `k` whose point is not (within `tol2`) the point at arc length `k·total/(N-1)`.
    The reference for `k = 0` is the first vertex and for `k = N-1` (`N ≥ 2`) the last one — the
    end-point clause, judged exactly before this one — and NOT `pointAtArc 0` / `pointAtArc total`:
    these are the start / end of the first / last segment of POSITIVE length, which is a different
    coordinate when the line begins / ends with a zero-length hop between distinct coordinates
    (antimeridian pair under geo.Distance). -/
def spacingViolation (ps : List (Pt β)) (ds : List β) (total : β) (N : Nat) (last : Pt β)
    (out : List (Pt β)) (tol2 : β) : Option Nat :=
  let first := ps.head?.getD last
  let rec go : List (Pt β) → Nat → Option Nat
    | [], _ => none
    | p :: rest, k =>
      let ref := if k == 0 then first else if k + 1 == N then last
        else pointAtArc ps ds 0 (arcTarget total N k) last
      if dsq p ref ≤ tol2 then go rest (k + 1) else some k
  go out 0

/-- first `k` for which the distance travelled to the `k`-th point — the segments before it in
    full plus `dfc (start of its segment) point`, i.e. MEASURED WITH THE DISTANCE FUNCTION — is not
    `k·total/(N-1)` within `tolD` -/
def dfSpacingViolation (dfc : Pt β → Pt β → β) (ps : List (Pt β)) (ds : List β) (total : β) (N : Nat)
    (last : Pt β) (out : List (Pt β)) (tolD : β) : Option Nat :=
  let rec go : List (Pt β) → Nat → Option Nat
    | [], _ => none
    | p :: rest, k =>
      let t := arcTarget total N k
      let (a, acc) := (arcSeg ps ds 0 t).getD (last, total)
      if absv (acc + dfc a p - t) ≤ tolD then go rest (k + 1) else some k
  go out 0

def sumL (ds : List β) : β := ds.foldl (· + ·) 0

/-- coordinate extent `E`: the largest |coordinate| of the input -/
def extentOf (ps : List (Pt β)) : β :=
  ps.foldl (fun m p => maxv m (maxv (absv p.x) (absv p.y))) 0

/-- `max_i |b_i - a_i|∞ / d_i` over the segments of positive length: coordinate units per unit of `df` -/
def stretchOf : List (Pt β) → List β → β → β
  | a :: b :: rest, d :: ds, m =>
    stretchOf (b :: rest) ds (if 0 < d then maxv m (maxv (absv (b.x - a.x)) (absv (b.y - a.y)) / d) else m)
  | _, _, m => m

/-- the sampling clauses (on the line, in travel order, equally spaced in the parameter and in
    the distance function `dfc`) for `N` points; `none` = all hold.  `tol`, `tolE` are the relative
    tolerances (line size, coordinate extent), `lip` the Lipschitz constant of `dfc` per coordinate unit (see the header). -/
def samplingCheck (dfc : Pt β → Pt β → β) (lip : β) (ps : List (Pt β)) (ds : List β) (N : Nat)
    (out : List (Pt β)) (tol tolE : β) : Option String :=
  let total := sumL ds
  let s := tol * (total * stretchOf ps ds 0) + tolE * extentOf ps
  let tol2 := s * s
  let tolD := lip * s + lip * s + tol * total
  let segs := segsOfD ps ds
  let last := ps.getLast?.getD ⟨0, 0⟩
  match (out.zipIdx.find? fun (p, _) => !onLine segs p tol2) with
  | some (_, k) => some s!"on-line {k}"
  | none =>
    match orderViolation segs out tol2 tol with
    | some k => some s!"order {k}"
    | none =>
      match spacingViolation ps ds total N last out tol2 with
      | some k => some s!"spacing {k}"
      | none =>
        match dfSpacingViolation dfc ps ds total N last out tolD with
        | some k => some s!"spacing-df {k}"
        | none => none

/-- `spacingViolation` (`useDf = false`) / `dfSpacingViolation` (`useDf = true`) in LINEAR time, for
    long lines: one monotone walk over the segments.  The arc targets `arcTarget total N k` do not
    decrease with `k`, so the segment that `pointAtArc` / `arcSeg` find by scanning from the start
    for the `k`-th point is the one this walk is standing on (or a later one it moves to).
    Same references, same tolerances; first offender. -/
partial def linearViolation (dfc : Pt β → Pt β → β) (useDf : Bool) (total : β) (N : Nat)
    (first last : Pt β) (tol2 tolD : β) :
    List (Pt β) → List β → β → List (Pt β) → Nat → Option Nat
  | _, _, _, [], _ => none
  | ps, ds, acc, p :: rest, k =>
    let t := arcTarget total N k
    match ps, ds with
    | a :: b :: ps', d :: ds' =>
      if 0 < d ∧ t ≤ acc + d then
        let good : Bool :=
          if useDf then decide (absv (acc + dfc a p - t) ≤ tolD)
          else
            let ref := if k == 0 then first else if k + 1 == N then last else lerp a b ((t - acc) / d)
            decide (dsq p ref ≤ tol2)
        if good then linearViolation dfc useDf total N first last tol2 tolD ps ds acc rest (k + 1) else some k
      else linearViolation dfc useDf total N first last tol2 tolD (b :: ps') ds' (acc + d) (p :: rest) k
    | _, _ =>
      -- beyond the last segment of positive length: the reference is the last vertex
      let good : Bool :=
        if useDf then decide (absv (total + dfc last p - t) ≤ tolD)
        else decide (dsq p (if k == 0 then first else last) ≤ tol2)
      if good then linearViolation dfc useDf total N first last tol2 tolD ps ds acc rest (k + 1) else some k

/-- the sampling clauses for LONG lines (more than `bigWork` vertex × point pairs), in linear time:
    the spacing clause — the `k`-th point IS (within the position tolerance) the point of the line at
    arc length `k·total/(N-1)`, which puts it on the line and in travel order up to that tolerance —
    and the spacing-df clause.  Same tolerances as `samplingCheck`. -/
def samplingCheckLinear (dfc : Pt β → Pt β → β) (lip : β) (ps : List (Pt β)) (ds : List β) (N : Nat)
    (out : List (Pt β)) (tol tolE : β) : Option String :=
  let total := sumL ds
  let s := tol * (total * stretchOf ps ds 0) + tolE * extentOf ps
  let tol2 := s * s
  let tolD := lip * s + lip * s + tol * total
  let last := ps.getLast?.getD ⟨0, 0⟩
  let first := ps.head?.getD last
  match linearViolation dfc false total N first last tol2 tolD ps ds 0 out 0 with
  | some k => some s!"spacing {k}"
  | none =>
    match linearViolation dfc true total N first last tol2 tolD ps ds 0 out 0 with
    | some k => some s!"spacing-df {k}"
    | none => none

end check

/-- vertex × point pairs beyond which a case is judged in linear time (`samplingCheckLinear`, Float
    only): the quadratic clauses of `samplingCheck` and the exact `Rat` instance are for the others -/
def bigWork : Nat := 4000000

/-! ### instances -/

def planarF (a b : Pt Float) : Float :=
  let d0 := a.x - b.x
  let d1 := a.y - b.y
  Float.sqrt (d0 * d0 + d1 * d1)

/-- `geo.Distance` recomputed with Lean's libm (`Float.cos` is not bit-compatible with math.Cos:
    used only inside tolerances — the `spacing-df` clause — and cross-checked against the
    observed values to 1e-9) -/
def geoF (a b : Pt Float) : Float :=
  let pi : Float := Float.ofBits 0x400921FB54442D18
  let d2r (d : Float) : Float := d * pi / 180
  let dLat := d2r (a.y - b.y)
  let dLon := Float.abs (d2r (a.x - b.x))
  let dLon := if pi < dLon then 2 * pi - dLon else dLon
  let x := dLon * Float.cos (d2r ((a.y + b.y) / 2))
  Float.sqrt (dLat * dLat + x * x) * 6378137

/-- Lipschitz bound of geo.Distance in metres per degree of displacement of one argument -/
def geoLip : Float := 4 * 111320

/-- do the observed great-circle distances agree (1e-9 relative, 1e-9 m absolute) with `geoF`? -/
def geoObsOk (ps : List (Pt Float)) (ds : List Float) : Bool :=
  (List.zipWith (fun (pq : Pt Float × Pt Float) (d : Float) =>
      decide (Float.abs (geoF pq.1 pq.2 - d) ≤ Float.ofScientific 1 true 9 * (d + 1))) (ps.zip ps.tail) ds).all id

def sameBits (p q : Pt Float) : Bool := p.x.toBits == q.x.toBits && p.y.toBits == q.y.toBits

/-- distance function given by its observed values on the consecutive vertex pairs -/
def tableDf : List (Pt Float) → List Float → Pt Float → Pt Float → Float
  | p :: q :: rest, d :: ds, a, b => if sameBits p a && sameBits q b then d else tableDf (q :: rest) ds a b
  | _, _, _, _ => 0.0 / 0.0

/-- Go's `int(x)` on the values that occur here (0 ≤ x ≤ 1e6) -/
def truncF (x : Float) : Int := x.toInt64.toInt

def toFl (ps : List (Pt UInt64)) : List (Pt Float) := ps.map (mapPt Float.ofBits)
def ofFl (ps : List (Pt Float)) : List (Pt UInt64) := ps.map (mapPt Float.toBits)

def showLine (l : Line Float) : String :=
  match l with
  | none => "nLS"
  | some ps => "LS " ++ showPts (ofFl ps)

def showRes (r : Res Fail (Line Float)) : String :=
  match r with
  | .ok l => showLine l
  | .err _ => "hang"
  | .panic _ => "panic"

def lineP : P (Option (List (Pt UInt64))) := fun ts =>
  match gval ts with
  | some (.nilSlice .lineString, ts) => some (none, ts)
  | some (.val (.lineString ps), ts) => some (some ps, ts)
  | _ => none

def ratPts (ps : List (Pt UInt64)) : Option (List (Pt Rat)) :=
  ps.mapM fun p => do
    let x ← bitsToRat? p.x
    let y ← bitsToRat? p.y
    pure ⟨x, y⟩

def isIntPt (p : Pt Rat) : Bool := p.x.den == 1 && p.y.den == 1

/-- integer vertices, every segment horizontal, vertical or of zero length -/
def axisAligned : List (Pt Rat) → Bool
  | a :: b :: rest => isIntPt a && isIntPt b && (a.x == b.x || a.y == b.y) && axisAligned (b :: rest)
  | [a] => isIntPt a
  | [] => true

def manhattan (a b : Pt Rat) : Rat := absv (a.x - b.x) + absv (a.y - b.y)

def floatEqPt (p q : Pt Float) : Bool := p.x == q.x && p.y == q.y

def tol9 : Float := Float.ofScientific 1 true 9
def tol12 : Rat := 1 / 1000000000000
def tol13 : Rat := 1 / 10000000000000

inductive Op where
  | rs (n : Int)
  | iv (d : UInt64)

/-- the executable statement of C17, evaluated on the implementation's result `res`
    (`none` = nil).  `dsF` are the observed segment distances; `agree` = the Float twin
    reproduced the result bit for bit (the known-finding label `spacing-df geo-nonlinear` is
    emitted only then, so that it can never absorb a model/implementation disagreement). -/
def propCheck (dfName : String) (op : Op) (inp : Option (List (Pt UInt64))) (dsF : List Float)
    (res : Option (List (Pt UInt64))) (agree : Bool) : String :=
  let psB := inp.getD []
  let psF := toFl psB
  let opName := match op with | .rs _ => "rs" | .iv _ => "iv"
  let nonpos : Bool := match op with
    | .rs n => decide (n ≤ 0)
    | .iv d => decide (Float.ofBits d ≤ 0)
  if nonpos then
    (if res.isNone then s!"ok triv-nonpos {opName}" else "propfail nonpos-not-nil")
  else if psB.length ≤ 1 then
    (if (res.map showPts) == (inp.map showPts) then s!"ok triv-short {opName} {psB.length}" else "propfail short-identity")
  else
    match res, psF with
    | none, _ => "propfail nil-result"
    | _, [] => "bad empty"
    | some outB, p0 :: _ =>
      let outF := toFl outB
      let totalF := sumL dsF
      if psF.all (floatEqPt p0) then
        -- all vertices coincide: padded / truncated to the requested count
        let want : Option Nat := match op with
          | .rs n => some n.toNat
          | .iv d => if totalF == 0 then some 1 else
              (let x := totalF / Float.ofBits d; if x < 1000000 then some ((truncF x).toNat + 1) else none)
        match want with
        | none => "skip allequal-count"
        | some m =>
          if outF.length != m then s!"propfail allequal-count {outF.length} {m}"
          else if !(outF.all (floatEqPt p0)) then "propfail allequal-points"
          else if m > psF.length then s!"ok allequal-pad {opName}"
          else if m < psF.length then s!"ok allequal-trunc {opName}"
          else s!"ok allequal-same {opName}"
      else if !(0 < totalF) then
        -- the vertices differ but their distances sum to zero (underflow): outside "positive
        -- length"; only the discrete clauses are judged
        if !(totalF == 0) then "skip non-finite-length" else
        let N : Nat := match op with | .rs n => n.toNat | .iv _ => 1
        if outB.length != N then s!"propfail count {outB.length} {N}"
        else if outB.head? != psB.head? then "propfail start-point"
        else if N ≥ 2 && outB.getLast? != psB.getLast? then "propfail end-point"
        else s!"ok zero-computed-length {opName}"
      else
        -- exact instance?
        let big : Bool := psB.length * outB.length > bigWork
        let exact : Option (List (Pt Rat) × List Rat × List (Pt Rat)) :=
          if dfName != "pl" || big then none else do
            let ps ← ratPts psB
            let out ← ratPts outB
            if axisAligned ps then some (ps, List.zipWith manhattan ps ps.tail, out) else none
        let first := outB.head?
        let lastO := outB.getLast?
        let lastI := psB.getLast?
        match exact with
        | some (ps, ds, out) =>
          let total := sumL ds
          -- the admissible counts: exactly N for Resample; for ToInterval ⌊T/d⌋+1, and one more
          -- when T/d is within rounding (1e-12 relative) below an integer: Go divides in floats
          -- and the quotient then rounds up to that integer (it can never round down past one)
          let N? : Option (Nat × Bool) := match op with
            | .rs n => some (n.toNat, false)
            | .iv d =>
              if Float.ofBits d == 1.0 / 0.0 then some (1, false) else
              (bitsToRat? d).map fun dr =>
                let x := total / dr
                let N := (x.floor + 1).toNat
                (N, decide ((N : Rat) - x ≤ tol12 * x))
          (match N? with
           | none => "skip nonfinite-interval"
           | some (N0, up) =>
             if !(out.length == N0 || (up && out.length == N0 + 1)) then s!"propfail count {out.length} {N0}"
             else
             let N := out.length
             let edge := if N == N0 then "" else " edge-count"
             if first != psB.head? then "propfail start-point"
             else if N ≥ 2 && lastO != lastI then "propfail end-point"
             else match samplingCheck manhattan 1 ps ds N out tol12 tol13 with
               | some why => "propfail " ++ why
               | none =>
                 -- exact model, for the tag (and as the exact half of the correspondence)
                 let mr : Res Fail (Line Rat) := resample manhattan (some ps) (N : Int)
                 let shape := if N == 1 then "one" else if N == 2 then "two" else "many"
                 (match mr with
                  | .ok (some mout) =>
                    if mout == out then s!"ok exact {opName} {shape}{edge}" else
                    if mout.length == out.length then s!"ok exact-rounded {opName} {shape}{edge}" else "diff exact-model-count"
                  | _ => "diff exact-model-fails"))
        | none =>
          let geo := dfName == "geo"
          let arith := (if geo then "geo" else "float") ++ (if big then "-long" else "")
          -- admissible counts: for ToInterval ⌊x⌋+1 with x = T/d; when x(1 ± 1e-9) straddles an
          -- integer the count is undecidable in floats: both neighbours are accepted and the
          -- sampling clauses are judged with the count the implementation chose
          let cands : List Nat := match op with
            | .rs n => [n.toNat]
            | .iv d =>
              let x := totalF / Float.ofBits d
              let lo := Float.floor (x * (1 - tol9))
              let hi := Float.floor (x * (1 + tol9))
              if lo == hi then [(truncF lo).toNat + 1] else [(truncF lo).toNat + 1, (truncF hi).toNat + 1]
          let N := outF.length
          if !(cands.contains N) then s!"propfail count {N} {cands}"
          else if first != psB.head? then "propfail start-point"
          else if N ≥ 2 && lastO != lastI then "propfail end-point"
          else
            let edge := if cands.length == 1 then "" else " edge-count"
            let shape := if N == 1 then "one" else if N == 2 then "two" else "many"
            let dfc : Pt Float → Pt Float → Float := if geo then geoF else planarF
            match (if big then samplingCheckLinear dfc (if geo then geoLip else 1) psF dsF N outF tol9 (Float.ofScientific 1 true 13)
                   else samplingCheck dfc (if geo then geoLip else 1) psF dsF N outF tol9 (Float.ofScientific 1 true 13)) with
            | none => s!"ok {arith} {opName} {shape}{edge}"
            | some why =>
              -- geo.Distance is not linear along a segment that is neither a meridian nor a
              -- parallel, while the code interpolates linearly in lon/lat: every other clause
              -- holds (incl. spacing in the parameter) and the twin agrees => the known finding
              if geo && why.startsWith "spacing-df " then
                (if agree then "propfail spacing-df geo-nonlinear " ++ (why.drop 11).toString
                 else s!"ok {arith} {opName} {shape}{edge}")   -- turned into `diff` by the caller
              else "propfail " ++ why

/-- Float twin with the OBSERVED segment distances put in for `dists df ps` (`Orb.Resample.resample` /
    `toInterval` unfolded one step: `precompute` returns `(sumDists ds, ds)`).  Used for long geo
    lines, where looking every pair up in the table (`tableDf`) is quadratic. -/
def twinObs (op : Op) (lineF : Line Float) (dsF : List Float) : Res Fail (Line Float) :=
  let ps := lineF.pts
  let core (n : Int) : Res Fail (Line Float) :=
    match edgeCases lineF n with
    | .ok (some r) => .ok r
    | .ok none => resampleCore ps dsF (sumDists dsF) n
    | .err e => .err e
    | .panic s => .panic s
  match op with
  | .rs n => if n ≤ 0 then .ok none else
      (match edgeCases lineF n with
       | .ok (some r) => .ok r
       | .ok none => (match ps with
          | [] => .panic "makeslice: len out of range"
          | _ :: _ => resampleCore ps dsF (sumDists dsF) n)
       | .err e => .err e
       | .panic s => .panic s)
  | .iv d =>
    let dF := Float.ofBits d
    if dF ≤ 0 then .ok none
    else if ps.length ≤ 1 then .ok lineF
    else core (truncF (sumDists dsF / dF) + 1)

def cut (s : String) (n : Nat := 300) : String := if s.length > n then (s.take n).toString ++ "…" else s

/-- one call: the input, the observed segment distances `dsB`, the serialised result `resT` -/
def judgeRes (opName dfName : String) (inp : Option (List (Pt UInt64))) (op : Op)
    (dsB : List UInt64) (resT : Toks) : String :=
  let dsF := dsB.map Float.ofBits
  let psF := toFl (inp.getD [])
  -- the distance function of the twin
  let plDs := List.zipWith planarF psF psF.tail
  -- planar: recomputed bit for bit; geo: observed values, cross-checked against `geoF` to 1e-9
  let dfOk := if dfName == "pl" then (plDs.map Float.toBits) == dsB else geoObsOk psF dsF
  let df : Pt Float → Pt Float → Float := if dfName == "pl" then planarF else tableDf psF dsF
  let lineF : Line Float := inp.map toFl
  let implS := " ".intercalate resT
  if implS == "toobig" then "skip too-many-points" else
  -- outside the quantifier "d > 0" / no representable result (see the header)
  let outside : Option String := match op with
    | .rs _ => none
    | .iv d =>
      let dF := Float.ofBits d
      if dF != dF then some "nan-interval"
      else if 0 < dF && psF.length ≥ 2 && !(sumL dsF / dF < 9223372036854775808) then
        some s!"unrepresentable-count {resT.headD "?"}"
      else none
  match outside with
  | some why => "skip " ++ why
  | none =>
  let model : Res Fail (Line Float) :=
    if dfName != "pl" && psF.length > 2000 then
      (if dsF.length + 1 == psF.length then twinObs op lineF dsF else .panic "observations missing")
    else match op with
      | .rs n => resample df lineF n
      | .iv d => toInterval truncF df lineF (Float.ofBits d)
  let mS := showRes model
  let agree := dfOk && mS == implS
  let fin (s : String) : String :=
    if s.startsWith "propfail" || agree then s
    else if !dfOk then (if dfName == "pl" then "diff planar-distance-bits" else "diff geo-distance-values")
    else "diff " ++ (if mS.length > 4000 then (mS.take 4000).toString ++ "…" else mS)
  fin <|
    match resT with
    | ["panic"] =>
      if (inp.getD []).isEmpty then s!"propfail panic {opName} empty-line"
      else s!"propfail panic {opName} len={(inp.getD []).length}"
    | ["toolong", n] =>
      -- a repetition / concurrent call returned far more points than the fresh / sequential call
      -- (more than twice as many plus 5000: harness/c17_state.go does not transmit such a result)
      s!"propfail count {n} (not transmitted)"
    | ["hang"] =>
      -- no answer from the watchdogged child process (twice).  Since 8096037 the append loop
      -- is bounded by `step < totalPoints`; this outcome is reachable by mutants only.
      if sumL dsF == 0 then s!"propfail hang {opName} zero-computed-length"
      else s!"propfail hang {opName} len={(inp.getD []).length}"
    | _ =>
      match lineP resT with
      | some (res, []) => propCheck dfName op inp dsF res agree
      | _ => "bad result"

/-- split a token list at every `sep` -/
def splitAt (sep : String) (ts : Toks) : List Toks :=
  let (cur, acc) := ts.foldr (fun t (cur, acc) => if t == sep then ([], cur :: acc) else (t :: cur, acc)) ([], [])
  cur :: acc

def parseOp (opName : String) (argT : Toks) : Option Op :=
  match opName, argT with
  | "rs", [n] => n.toInt?.map Op.rs
  | "iv", [d] => (hexToNat? d).map fun v => Op.iv (UInt64.ofNat v)
  | _, _ => none

/-- `D m d0 … dm-1 <result>` -/
def judgeOutcome (opName dfName : String) (inp : Option (List (Pt UInt64))) (op : Op) (outT : Toks) : String :=
  match outT with
  | "D" :: outT =>
    (match counted bits outT with
     | none => "bad dists"
     | some (dsB, resT) => judgeRes opName dfName inp op dsB resT)
  | _ => "bad outcome"

/-- rs / iv: the fresh call, then the reuse section `; B …` (harness/c17_state.go): every repetition
    of the call out of the ONE reused vertex buffer must have returned the fresh result bit for bit.
    A repetition that differs is a violation whatever the fresh call returned (`propfail reuse-differs
    <which repetition> :: <how the property judges THAT result>`); a `propfail` of the fresh result
    outranks it, a `diff` does not. -/
def handleCall (opName dfName : String) (rest : Toks) : String :=
  let (inpT, outT) := splitArrow rest
  match lineP inpT with
  | none => "bad line"
  | some (inp, argT) =>
    match parseOp opName argT with
    | none => "bad op"
    | some op =>
      match splitAt ";" outT with
      | [mainT] => judgeOutcome opName dfName inp op mainT       -- (lines written before the reuse section existed)
      | [mainT, reuseT] =>
        let v := judgeOutcome opName dfName inp op mainT
        (match reuseT with
         | ["B", "none"] => v
         | ["B", "same", _] => v
         | "B" :: label :: res2 =>
           if v.startsWith "propfail" || v.startsWith "bad" then v else
           (match mainT with
            | "D" :: dT =>
              (match counted bits dT with
               | some (dsB, _) =>
                 s!"propfail reuse-differs {label} {opName} :: " ++ cut (judgeRes opName dfName inp op dsB res2)
               | none => "bad dists")
            | _ => "bad outcome")
         | _ => "bad reuse-section")
      | _ => "bad outcome-sections"

/-- one member of a `conc` case: `<op> <df> <line> <arg>` -/
def memberP : P (String × String × Option (List (Pt UInt64)) × Op) := fun ts =>
  match ts with
  | opName :: dfName :: ts =>
    (match lineP ts with
     | some (inp, a :: ts) => (parseOp opName [a]).map fun op => ((opName, dfName, inp, op), ts)
     | _ => none)
  | _ => none

/-- `conc <G> <rounds> <k> member*k => D … res_0 | … | D … res_k-1 ; C same <calls> | C <member> <round> <result>`:
    the k sequential calls are judged like k ordinary cases; every one of the G × rounds concurrent
    calls (and the k sequential calls made afterwards, round -1) must have returned the sequential
    result of its member bit for bit.  The known-finding label `spacing-df geo-nonlinear` of a
    member is not a verdict of the `conc` case (the same lines are generated as plain rs / iv cases). -/
def handleConc (rest : Toks) : String :=
  let (inpT, outT) := splitArrow rest
  match inpT with
  | g :: rounds :: kT :: memT =>
    (match kT.toNat?, splitAt ";" outT with
     | some k, [membersT, cT] =>
       (match many memberP k memT with
        | some (mems, []) =>
          let outs := splitAt "|" membersT
          if outs.length != k then "bad conc-member-count" else
          let vs := (mems.zip outs).map fun ((opName, dfName, inp, op), o) => judgeOutcome opName dfName inp op o
          let vs := vs.map fun v => if v.startsWith "propfail spacing-df geo-nonlinear" then "ok known" else v
          let firstOf (pre : String) : Option String :=
            (vs.zipIdx.find? fun (v, _) => v.startsWith pre).map fun (v, i) => cut v 400 ++ s!" @member{i}"
          (match firstOf "propfail" with
           | some v => v
           | none =>
             match cT with
             | ["C", "same", _] =>
               (match firstOf "bad" with
                | some v => v
                | none =>
                  match firstOf "diff" with
                  | some v => v
                  | none => s!"ok conc {g}x{rounds} k={k}")
             | "C" :: iT :: rT :: res2 =>
               (match iT.toNat? with
                | some i =>
                  (match mems[i]?, outs[i]? with
                   | some (opName, dfName, inp, op), some ("D" :: dT) =>
                     (match counted bits dT with
                      | some (dsB, _) =>
                        s!"propfail concurrent-differs member={i} round={rT} {opName} :: " ++
                          cut (judgeRes opName dfName inp op dsB res2)
                      | none => "bad dists")
                   | _, _ => "bad conc-member-index")
                | none => "bad conc-section")
             | _ => "bad conc-section")
        | _ => "bad conc-members")
     | _, _ =>
       -- a member that may only run in the watchdogged child process (hand-written case): not run
       if outT.head? == some "unfit-member" then "skip conc-unfit-member"
       else "bad conc-outcome " ++ cut (" ".intercalate outT) 60)
  | _ => "bad conc"

def handle (ts : Toks) : String :=
  match ts with
  | "conc" :: rest => handleConc rest
  | opName :: dfName :: rest => handleCall opName dfName rest
  | _ => "bad empty"

end Driver.C17
