import Orb.Proto
import Orb.Resample

/-!
  Driver for C17 (resample.Resample / resample.ToInterval).

      rs <df> <line> <N>      => D m d0 … dm-1 <result>
      iv <df> <line> <dbits>  => D m d0 … dm-1 <result>

  `<df>` = `pl` (planar.Distance) | `geo` (geo.Distance); `<line>` = `nLS | LS n (x y)*`;
  `<result>` = `nLS | LS k (x y)* | panic | hang | toobig`; `D …` are the values the real
  distance function returned on the consecutive vertex pairs.

  * correspondence: the Float twin of `Orb.Resample` (planar distance recomputed with
    `Float.sqrt` and checked against the observed values bit for bit; great-circle distance
    taken from the observed values, since math.Cos is not bit-compatible) must reproduce the
    result bit for bit, nil-ness included.
  * executable property, on the implementation's result: count, endpoints, every point on
    the line, travel order, equal spacing, interval count, nil for non-positive N / d,
    identity for < 2 vertices, all-equal padding / truncation, no panic, no hang.
    Exact `Rat` arithmetic when the vertices are integers and every segment is axis-aligned
    (lengths rational; tolerance 1e-12·scale for the rounding of Go's floats), `Float`
    with a 1e-9 relative tolerance otherwise (tags `float`, `geo`).
-/
namespace Driver.C17
open Orb Orb.Proto Orb.Resample

instance : NatCast Float := ⟨Float.ofNat⟩

/-! ### generic geometry used by the executable property (instantiated at `Rat` and `Float`) -/
section check
variable {β : Type} [Add β] [Sub β] [Mul β] [Div β] [OfNat β 0] [OfNat β 1] [NatCast β]
  [LE β] [LT β] [DecidableLE β] [DecidableLT β]

def vsub (a b : Pt β) : Pt β := ⟨a.x - b.x, a.y - b.y⟩
def dot (a b : Pt β) : β := a.x * b.x + a.y * b.y
def dsq (a b : Pt β) : β := dot (vsub a b) (vsub a b)
def clamp01 (t : β) : β := if t < 0 then 0 else if 1 < t then 1 else t
def absv (t : β) : β := if t < 0 then 0 - t else t
def maxv (a b : β) : β := if a < b then b else a

/-- parameter of the point of segment `a b` closest to `p`, and the squared distance to it -/
def nearest (a b p : Pt β) : β × β :=
  let l := dsq a b
  let τ := if 0 < l then clamp01 (dot (vsub p a) (vsub b a) / l) else 0
  (τ, dsq p (lerp a b τ))

def segsOf : List (Pt β) → List (Pt β × Pt β)
  | a :: b :: rest => (a, b) :: segsOf (b :: rest)
  | _ => []

/-- is `p` within `tol2` (squared) of some segment? -/
def onLine (segs : List (Pt β × Pt β)) (p : Pt β) (tol2 : β) : Bool :=
  segs.any fun (a, b) => (nearest a b p).2 ≤ tol2

/-- smallest placement `(i, τ) ≥ (i0, τ0)` (lexicographically, `τtol` slack) of `p` on the line -/
def placeFrom (segs : List (Pt β × Pt β)) (i0 : Nat) (τ0 : β) (p : Pt β) (tol2 τtol : β) : Option (Nat × β) :=
  let rec go : List (Pt β × Pt β) → Nat → Option (Nat × β)
    | [], _ => none
    | (a, b) :: rest, i =>
      let (τ, d2) := nearest a b p
      if d2 ≤ tol2 ∧ (i0 < i ∨ τ0 ≤ τ + τtol) then some (i, if i0 < i then τ else maxv τ τ0)
      else go rest (i + 1)
  go (segs.drop i0) i0

/-- do the points admit placements that never go backwards along the line? first offender -/
def orderViolation (segs : List (Pt β × Pt β)) (out : List (Pt β)) (tol2 τtol : β) : Option Nat :=
  let rec go : List (Pt β) → Nat → Nat → β → Option Nat
    | [], _, _, _ => none
    | p :: ps, k, i, τ =>
      match placeFrom segs i τ p tol2 τtol with
      | none => some k
      | some (i', τ') => go ps (k + 1) i' τ'
  go out 0 0 0

/-- the point at arc length `t` from the start (segment lengths `ds`), `last` beyond the end -/
def pointAtArc : List (Pt β) → List β → β → β → Pt β → Pt β
  | a :: b :: rest, d :: ds, acc, t, last =>
    if 0 < d ∧ t ≤ acc + d then lerp a b ((t - acc) / d)
    else pointAtArc (b :: rest) ds (acc + d) t last
  | _, _, _, _, last => last

/-- first `k` whose point is not (within `tol2`) the point at arc length `k·total/(N-1)` -/
def spacingViolation (ps : List (Pt β)) (ds : List β) (total : β) (N : Nat) (last : Pt β)
    (out : List (Pt β)) (tol2 : β) : Option Nat :=
  let rec go : List (Pt β) → Nat → Option Nat
    | [], _ => none
    | p :: rest, k =>
      let t : β := if k == 0 then 0 else if k + 1 == N then total else (k : β) * total / ((N - 1 : Nat) : β)
      if dsq p (pointAtArc ps ds 0 t last) ≤ tol2 then go rest (k + 1) else some k
  go out 0

def sumL (ds : List β) : β := ds.foldl (· + ·) 0

def scaleOf (ps : List (Pt β)) (total : β) : β :=
  let m := ps.foldl (fun m p => maxv m (maxv (absv p.x) (absv p.y))) total
  if 0 < m then m else 1

/-- the sampling clauses (on the line, in travel order, equally spaced) for `N` points;
    `none` = all hold -/
def samplingCheck (ps : List (Pt β)) (ds : List β) (N : Nat) (out : List (Pt β)) (tol : β) : Option String :=
  let total := sumL ds
  let s := tol * scaleOf ps total
  let tol2 := s * s
  let segs := segsOf ps
  let last := ps.getLast?.getD ⟨0, 0⟩
  match (out.zipIdx.find? fun (p, _) => !onLine segs p tol2) with
  | some (_, k) => some s!"on-line {k}"
  | none =>
    match orderViolation segs out tol2 tol with
    | some k => some s!"order {k}"
    | none =>
      match spacingViolation ps ds total N last out tol2 with
      | some k => some s!"spacing {k}"
      | none => none

end check

/-! ### instances -/

def planarF (a b : Pt Float) : Float :=
  let d0 := a.x - b.x
  let d1 := a.y - b.y
  Float.sqrt (d0 * d0 + d1 * d1)

def sameBits (p q : Pt Float) : Bool := p.x.toBits == q.x.toBits && p.y.toBits == q.y.toBits

/-- distance function given by its observed values on the consecutive vertex pairs -/
def tableDf : List (Pt Float) → List Float → Pt Float → Pt Float → Float
  | p :: q :: rest, d :: ds, a, b => if sameBits p a && sameBits q b then d else tableDf (q :: rest) ds a b
  | _, _, _, _ => 0.0 / 0.0

/-- Go's `int(x)` on the values that occur here (0 ≤ x ≤ 1e6) -/
def truncF (x : Float) : Int := x.toInt64.toInt

def toFl (ps : List (Pt UInt64)) : List (Pt Float) := ps.map (mapPt Float.ofBits)
def ofFl (ps : List (Pt Float)) : List (Pt UInt64) := ps.map (mapPt Float.toBits)

def showLine (l : Line Float) : String :=
  match l with
  | none => "nLS"
  | some ps => "LS " ++ showPts (ofFl ps)

def showRes (r : Res Fail (Line Float)) : String :=
  match r with
  | .ok l => showLine l
  | .err _ => "hang"
  | .panic _ => "panic"

def lineP : P (Option (List (Pt UInt64))) := fun ts =>
  match gval ts with
  | some (.nilSlice .lineString, ts) => some (none, ts)
  | some (.val (.lineString ps), ts) => some (some ps, ts)
  | _ => none

def ratPts (ps : List (Pt UInt64)) : Option (List (Pt Rat)) :=
  ps.mapM fun p => do
    let x ← bitsToRat? p.x
    let y ← bitsToRat? p.y
    pure ⟨x, y⟩

def isIntPt (p : Pt Rat) : Bool := p.x.den == 1 && p.y.den == 1

/-- integer vertices, every segment horizontal, vertical or of zero length -/
def axisAligned : List (Pt Rat) → Bool
  | a :: b :: rest => isIntPt a && isIntPt b && (a.x == b.x || a.y == b.y) && axisAligned (b :: rest)
  | [a] => isIntPt a
  | [] => true

def manhattan (a b : Pt Rat) : Rat := absv (a.x - b.x) + absv (a.y - b.y)

def floatEqPt (p q : Pt Float) : Bool := p.x == q.x && p.y == q.y

def tol9 : Float := Float.ofScientific 1 true 9
def tol12 : Rat := 1 / 1000000000000

inductive Op where
  | rs (n : Int)
  | iv (d : UInt64)

/-- the executable statement of C17, evaluated on the implementation's result `res`
    (`none` = nil).  `dsF` are the observed segment distances. -/
def propCheck (dfName : String) (op : Op) (inp : Option (List (Pt UInt64))) (dsF : List Float)
    (res : Option (List (Pt UInt64))) (modelN : Option Nat) : String :=
  let psB := inp.getD []
  let psF := toFl psB
  let opName := match op with | .rs _ => "rs" | .iv _ => "iv"
  let nonpos : Bool := match op with
    | .rs n => decide (n ≤ 0)
    | .iv d => decide (Float.ofBits d ≤ 0)
  if nonpos then
    (if res.isNone then s!"ok triv-nonpos {opName}" else "propfail nonpos-not-nil")
  else if psB.length ≤ 1 then
    (if (res.map showPts) == (inp.map showPts) then s!"ok triv-short {opName} {psB.length}" else "propfail short-identity")
  else
    match res, psF with
    | none, _ => "propfail nil-result"
    | _, [] => "bad empty"
    | some outB, p0 :: _ =>
      let outF := toFl outB
      let totalF := sumL dsF
      if psF.all (floatEqPt p0) then
        -- all vertices coincide: padded / truncated to the requested count
        let want : Option Nat := match op with
          | .rs n => some n.toNat
          | .iv d => if totalF == 0 then some 1 else
              (let x := totalF / Float.ofBits d; if x < 1000000 then some ((truncF x).toNat + 1) else none)
        match want with
        | none => "skip allequal-count"
        | some m =>
          if outF.length != m then s!"propfail allequal-count {outF.length} {m}"
          else if !(outF.all (floatEqPt p0)) then "propfail allequal-points"
          else if m > psF.length then s!"ok allequal-pad {opName}"
          else if m < psF.length then s!"ok allequal-trunc {opName}"
          else s!"ok allequal-same {opName}"
      else if !(0 < totalF) then
        -- the vertices differ but their distances sum to zero (underflow): outside "positive
        -- length"; only the discrete clauses are judged
        if !(totalF == 0) then "skip non-finite-length" else
        let N : Nat := match op with | .rs n => n.toNat | .iv _ => 1
        if outB.length != N then s!"propfail count {outB.length} {N}"
        else if outB.head? != psB.head? then "propfail start-point"
        else if N ≥ 2 && outB.getLast? != psB.getLast? then "propfail end-point"
        else s!"ok zero-computed-length {opName}"
      else
        -- exact instance?
        let exact : Option (List (Pt Rat) × List Rat × List (Pt Rat)) :=
          if dfName != "pl" then none else do
            let ps ← ratPts psB
            let out ← ratPts outB
            if axisAligned ps then some (ps, List.zipWith manhattan ps ps.tail, out) else none
        let first := outB.head?
        let lastO := outB.getLast?
        let lastI := psB.getLast?
        match exact with
        | some (ps, ds, out) =>
          let total := sumL ds
          let N? : Option Nat := match op with
            | .rs n => some n.toNat
            | .iv d => (bitsToRat? d).map fun dr => ((total / dr).floor + 1).toNat
          (match N? with
           | none => "skip nonfinite-interval"
           | some N =>
             if (match op with | .iv _ => modelN != some N | _ => false) then "skip rounding-sensitive-count"
             else if out.length != N then s!"propfail count {out.length} {N}"
             else if first != psB.head? then "propfail start-point"
             else if N ≥ 2 && lastO != lastI then "propfail end-point"
             else match samplingCheck ps ds N out tol12 with
               | some why => "propfail " ++ why
               | none =>
                 -- exact model, for the tag (and as the exact half of the correspondence)
                 let mr : Res Fail (Line Rat) := resample manhattan (some ps) (N : Int)
                 let shape := if N == 1 then "one" else if N == 2 then "two" else "many"
                 (match mr with
                  | .ok (some mout) =>
                    if mout == out then s!"ok exact {opName} {shape}" else
                    if mout.length == out.length then s!"ok exact-rounded {opName} {shape}" else "diff exact-model-count"
                  | _ => "diff exact-model-fails"))
        | none =>
          let arith := if dfName == "geo" then "geo" else "float"
          let N? : Option Nat := match op with
            | .rs n => some n.toNat
            | .iv d =>
              let x := totalF / Float.ofBits d
              -- the count is floor(x)+1; undecidable in floats when x is within 1e-9 of an integer
              let lo := Float.floor (x * (1 - tol9))
              let hi := Float.floor (x * (1 + tol9))
              if lo == hi then some ((truncF lo).toNat + 1) else none
          (match N? with
           | none => "skip rounding-sensitive-count"
           | some N =>
             if outF.length != N then s!"propfail count {outF.length} {N}"
             else if first != psB.head? then "propfail start-point"
             else if N ≥ 2 && lastO != lastI then "propfail end-point"
             else match samplingCheck psF dsF N outF tol9 with
               | some why => "propfail " ++ why
               | none =>
                 let shape := if N == 1 then "one" else if N == 2 then "two" else "many"
                 s!"ok {arith} {opName} {shape}")

def handle (ts : Toks) : String :=
  match ts with
  | opName :: dfName :: rest =>
    let (inpT, outT) := splitArrow rest
    match lineP inpT with
    | none => "bad line"
    | some (inp, argT) =>
      let op? : Option Op := match opName, argT with
        | "rs", [n] => n.toInt?.map Op.rs
        | "iv", [d] => (hexToNat? d).map fun v => Op.iv (UInt64.ofNat v)
        | _, _ => none
      match op?, outT with
      | none, _ => "bad op"
      | some op, "D" :: outT =>
        (match counted bits outT with
         | none => "bad dists"
         | some (dsB, resT) =>
           let dsF := dsB.map Float.ofBits
           let psF := toFl (inp.getD [])
           -- the distance function of the twin
           let plDs := List.zipWith planarF psF psF.tail
           let dfOk := dfName != "pl" || (plDs.map Float.toBits) == dsB
           let df : Pt Float → Pt Float → Float := if dfName == "pl" then planarF else tableDf psF dsF
           let lineF : Line Float := inp.map toFl
           let model : Res Fail (Line Float) := match op with
             | .rs n => resample df lineF n
             | .iv d => toInterval truncF df lineF (Float.ofBits d)
           let modelN : Option Nat := match model with
             | .ok (some l) => some l.length
             | _ => none
           let mS := showRes model
           let implS := " ".intercalate resT
           if implS == "toobig" then "skip too-many-points" else
           let agree := dfOk && mS == implS
           let fin (s : String) : String :=
             if s.startsWith "propfail" || agree then s
             else if !dfOk then "diff planar-distance-bits"
             else "diff " ++ mS
           fin <|
             match resT with
             | ["panic"] =>
               if (inp.getD []).isEmpty then s!"propfail panic {opName} empty-line"
               else s!"propfail panic {opName} len={(inp.getD []).length}"
             | ["hang"] =>
               -- the vertices differ but the distances sum to zero (underflow): the append loop never exits
               if sumL dsF == 0 then s!"propfail hang {opName} zero-computed-length"
               else s!"propfail hang {opName} len={(inp.getD []).length}"
             | _ =>
               match lineP resT with
               | some (res, []) => propCheck dfName op inp dsF res modelN
               | _ => "bad result")
      | _, _ => "bad outcome"
  | _ => "bad empty"

end Driver.C17
