import Orb.Proto
import Orb.WKB
import Orb.WKBOrder
import Orb.Core
import Generated.Params

/-! Driver for C01 (WKB / EWKB round trip, decode paths, scanner coercions) and shared WKB glue. -/
namespace Driver.C01
open Orb Orb.Proto Orb.WKB

def hexOfBytes (bs : Bytes) : String :=
  if bs.isEmpty then "empty" else String.ofList ((hexEncode false bs).map fun b => Char.ofNat b.toNat)

def bytesOfHex (s : String) : Option Bytes :=
  if s == "empty" then some [] else hexDecode (s.toList.map fun c => UInt8.ofNat c.toNat)

def ebF : Core.Bound Float :=
  ⟨⟨Float.ofInt Generated.Params.emptyBoundMinX, Float.ofInt Generated.Params.emptyBoundMinY⟩,
   ⟨Float.ofInt Generated.Params.emptyBoundMaxX, Float.ofInt Generated.Params.emptyBoundMaxY⟩⟩

/-- `Geometry.Bound()` of a decoded value, through the Float twin of the core model. -/
def bndF : BoundFn := fun g =>
  let b := Core.bound ebF (mapGeom Float.ofBits g)
  (⟨b.lo.x.toBits, b.lo.y.toBits⟩, ⟨b.hi.x.toBits, b.hi.y.toBits⟩)

def hasNaN (g : G) : Bool := (coords g).any fun b => (Float.ofBits b).isNaN
def hasNegZero (g : G) : Bool := (coords g).any fun b => b == 0x8000000000000000

def errClass : Err → String
  | .notWKB | .notWKBHeader => "notwkb"
  | .incorrectGeometry => "incorrect"
  | .unsupportedGeometry => "unsupported"
  | .eof => "eof"
  | .unexpectedEOF => "ueof"
  | .badMember | .badHex => "other"
  | .unsupportedDataType => "datatype"
  | .nestingTooDeep => "toodeep"

def showOutcome (r : R (G × Nat)) : String :=
  match r with
  | .ok (g, srid) => s!"ok {srid} {showGeom g}"
  | .err e => "err " ++ errClass e
  | .panic _ => "panic"

def parseOrder (s : String) : Option Order :=
  if s == "1" then some .little else if s == "0" then some .big else none

def parseDest (s : String) : Option Dest :=
  match s with
  | "any" => some .any | "P" => some .point | "MP" => some .multiPoint | "LS" => some .lineString
  | "MLS" => some .multiLineString | "R" => some .ring | "PG" => some .polygon | "MPG" => some .multiPolygon
  | "C" => some .collection | "B" => some .bound | _ => none

/-- split a token list at `;` tokens -/
def splitSemi (ts : Toks) : List Toks :=
  let rec go (ts : Toks) (cur : Toks) (acc : List Toks) : List Toks :=
    match ts with
    | [] => (cur.reverse :: acc).reverse
    | ";" :: rest => go rest [] (cur.reverse :: acc)
    | t :: rest => go rest (t :: cur) acc
  go ts [] []

/-- bit-exact comparison except that a `Bound` destination is compared through float `==`
    (math.Min/Max and the model's min/max may pick different zeros) -/
def sameOutcome (a b : String) : Bool := a == b

/-- verdict of a "fragmenting readers" segment (`same` | `differs:<reader>=<outcome>,…`, then optionally
    `zero1=<outcome>` for the reader that answers (0, nil) also to one-byte requests, kept apart: the bare
    `r.Read(buf[:1])` of readByteOrderType is a finding of its own); `none` when every reader agreed -/
def frVerdict (fr : Toks) : Option String :=
  match fr with
  | ["same"] => none
  | ["same", z] => if z.startsWith "zero1=" then some ("propfail stream-zero-read-not-retried " ++ z) else some "bad output"
  | _ => some ("propfail stream-reader-dependent " ++ " ".intercalate fr)

/-- judge of `rt` / `wrt`: encoder bytes, both decoders, and the agreement of the other exported
    encoder entry points (4th segment, `same` when they all wrote the same bytes) -/
def judgeRt (o : Order) (srid : Nat) (v : GVal UInt64) (out : Toks) : String :=
    match splitSemi out with
    | [hex] :: um :: st :: more =>
      let mbytes := encode o srid v
      let mhex := hexOfBytes mbytes
      let mum := showOutcome (unmarshal mbytes)
      let mst := showOutcome (decode mbytes)
      let agree := mhex == hex && " ".intercalate um == mum && " ".intercalate st == mst
      let fin (s : String) : String := if s.startsWith "propfail" || agree then s else s!"diff {mhex} ; {mum} ; {mst}"
      fin <|
      if um == ["panic"] || st == ["panic"] || hex == "panic" then "propfail panic" else
      match more with
      | _ :: _ :: _ :: _ => "bad output"
      | [api, fr] =>
        if api != ["same"] then "propfail encoder-entry-points-disagree " ++ " ".intercalate api else
        -- 5th segment: the stream decoder once more through fragmenting readers (`same` when every one of
        -- them gave the outcome of the plain reader, which is judged against the model just above)
        let r := judgeVal v hex um st
        if r.startsWith "ok" then (frVerdict fr).getD r else r
      | [api] => if api != ["same"] then "propfail encoder-entry-points-disagree " ++ " ".intercalate api else judgeVal v hex um st
      | [] => judgeVal v hex um st
    | _ => if out == ["panic"] then "propfail panic" else "bad output"
where
  judgeVal (v : GVal UInt64) (hex : String) (um st : Toks) : String :=
      match v with
      | .val g =>
        -- property: both decoders return the canonical value and the srid that was written — when the
        -- collections of the value are nested no deeper than MaxCollectionDepth; ErrNestingTooDeep beyond
        let deep := collDepth g > Generated.Params.wkb_MaxCollectionDepth
        let want := if deep then "err toodeep" else showOutcome (.ok (canon g, srid))
        if " ".intercalate um != want then "propfail unmarshal-roundtrip"
        else if " ".intercalate st != want then "propfail stream-roundtrip"
        else if deep then "ok coll-too-deep"
        else (match g with | .collection _ => "ok coll" | .point _ => "ok point" | _ => "ok geom")
      | _ => if hex != "empty" then "propfail nil-encodes-to-bytes" else "ok triv-nil"

/-- `rt o srid gval => HEX ; <Unmarshal outcome> ; <Decoder outcome> [; same|<entry points that differ>]` (package ewkb) -/
def handleRt (inp out : Toks) : String :=
  match (do
    let (ot, i) ← tok inp
    let o ← parseOrder ot
    let (srid, i) ← nat i
    let (v, _) ← gval i
    pure (o, srid, v)) with
  | none => "bad input"
  | some (o, srid, v) => judgeRt o srid v out

/-- `wrt o gval => HEX ; <wkb.Unmarshal> ; <wkb.NewDecoder.Decode> ; same|…` (package wkb: no SRID) -/
def handleWrt (inp out : Toks) : String :=
  match (do
    let (ot, i) ← tok inp
    let o ← parseOrder ot
    let (v, _) ← gval i
    pure (o, v)) with
  | none => "bad input"
  | some (o, v) =>
    let r := judgeRt o 0 v out
    if r.startsWith "ok " then "ok wkb-" ++ (r.drop 3).toString else r

/-- split trailing `; wr …` / `; fr …` segments off an outcome -/
def splitExtras (out : Toks) : Toks × List Toks :=
  let segs := splitSemi out
  let isExtra (s : Toks) : Bool := match s with | "wr" :: _ => true | "fr" :: _ => true | _ => false
  (List.intercalate [";"] (segs.filter fun s => !isExtra s), segs.filter isExtra)

/-- the verdict of the writer / reader segments: `none` when all say `same` -/
def extrasVerdict (extras : List Toks) : Option String :=
  extras.findSome? fun s =>
    match s with
    | ["wr", "same"] => none
    | "wr" :: rest => some ("propfail encoder-writer-dependent " ++ " ".intercalate rest)
    | "fr" :: rest => frVerdict rest
    | _ => some "bad output"

/-- `seq n (o srid how gval)* => HEX ; outcome ; … ; outcome` : one Encoder, one Decoder, a stream of values -/
def handleSeq (inp out : Toks) : String :=
  match (do
    let (n, i) ← nat inp
    let item : P (Order × Nat × GVal UInt64) := fun ts => do
      let (ot, ts) ← tok ts
      let o ← parseOrder ot
      let (srid, ts) ← nat ts
      let (_, ts) ← tok ts
      let (v, ts) ← gval ts
      pure ((o, srid, v), ts)
    let (items, _) ← many item n i
    pure items) with
  | none => "bad input"
  | some items =>
    if out == ["panic"] then "propfail panic" else
    -- trailing segments `wr …` (the same Encode calls on other kinds of writers) and `fr …` (the same
    -- Decode calls on fragmenting readers): `same`, or the writers / readers that gave something else
    let (out, extras) := splitExtras out
    let mbytes := items.foldl (fun acc (o, srid, v) => acc ++ encode o srid v) []
    let vals := items.filterMap fun (_, srid, v) => match v with | .val g => some (g, srid) | _ => none
    -- model: successive Decode() calls on one stream, one more than there are values
    let rec dec (fuel : Nat) (s : Bytes) (acc : List String) : List String :=
      match fuel with
      | 0 => acc
      | fuel+1 =>
        match decodeStream Generated.Params.wkb_MaxCollectionDepth s with
        | .ok (g, srid, rest) => dec fuel rest (acc ++ [showOutcome (.ok (g, srid))])
        | .err e => acc ++ ["err " ++ errClass e]
        | .panic _ => acc ++ ["panic"]
    let mouts := dec (vals.length + 1) mbytes []
    let model := " ; ".intercalate (hexOfBytes mbytes :: mouts)
    let got := " ".intercalate out
    let fin (s : String) : String := if s.startsWith "propfail" || model == got then s else "diff " ++ model
    fin <|
    match splitSemi out with
    | [] => "bad output"
    | _hex :: outs =>
      if outs.any (· == ["panic"]) then "propfail panic" else
      let want := vals.map fun (g, srid) => showOutcome (.ok (canon g, srid))
      let gotVals := (outs.take vals.length).map (" ".intercalate ·)
      if gotVals != want then "propfail stream-sequence-roundtrip" else
      if (outs.drop vals.length).map (" ".intercalate ·) != ["err eof"] then "propfail stream-end-not-eof" else
      match extrasVerdict extras with
      | some v => v
      | none => if vals.length ≤ 1 then "ok seq-short" else "ok seq"

def frameBytes (framing : String) (prefixSrid : Nat) (bs : Bytes) : Option Bytes :=
  match framing with
  | "raw" => some bs
  | "hex" => some (hexEncode false bs)
  | "HEX" => some (hexEncode true bs)
  | "xhex" => some (92 :: 120 :: hexEncode false bs)
  | "prefix" => some (u32 .little prefixSrid ++ bs)
  | _ => none

/-- The `*orb.Bound` destination.  Finite, non-negative-zero coordinates: the Float twin of the core
    bound model (`bndF`).  With a NaN or a -0 the twin is not bit-compatible with Go's math.Min/Max, so
    for the value the round trip denotes (`canon g`) the reference is orb's own `Bound()` of that value,
    which the harness sends as a trailing `; B x y x y` segment (the scan model and `scan_table` are
    parametric in the bound function). -/
def boundWith (g : G) (oracle : Option (Pt UInt64 × Pt UInt64)) : BoundFn := fun g' =>
  match oracle with
  | some b => if (hasNaN g' || hasNegZero g') && showGeom g' == showGeom (canon g) then b else bndF g'
  | none => bndF g'

/-- can the bound destination be judged?  `decoded` is what the same scanner returns for destination nil.
    Not when that value has a NaN / -0 and no reference bound is available for it (no oracle sent, or the
    bytes decode to something else than `canon g`, as in the ambiguous-prefix class of `wkb.Scanner`). -/
def boundJudgeable (g : G) (oracle : Option (Pt UInt64 × Pt UInt64)) (decoded : R (G × Nat)) : Bool :=
  match decoded with
  | .ok (g', _) => !(hasNaN g' || hasNegZero g') || (oracle.isSome && showGeom g' == showGeom (canon g))
  | _ => true

/-- split `outcome… [; B x y x y]` -/
def splitOracle (out : Toks) : Toks × Option (Pt UInt64 × Pt UInt64) :=
  match splitSemi out with
  | [o] => (o, none)
  | [o, b] =>
    (match geom b with
     | some (.bound a c, []) => (o, some (a, c))
     | _ => (out, none))
  | _ => (out, none)

/-- `sc o srid dest framing psrid gval => outcome [; bound oracle]` : ewkb.Scanner / ScannerPrefixSRID -/
def handleSc (inp out : Toks) : String :=
  match (do
    let (ot, i) ← tok inp
    let o ← parseOrder ot
    let (srid, i) ← nat i
    let (dt, i) ← tok i
    let d ← parseDest dt
    let (framing, i) ← tok i
    let (psrid, i) ← nat i
    let (g, _) ← geom i
    let framed ← frameBytes framing psrid (encode o srid (.val g))
    pure (o, srid, d, framing, psrid, g, framed)) with
  | none => "bad input"
  | some (_o, srid, d, framing, psrid, g, framed) =>
    let (outc, oracle) := splitOracle out
    let got := " ".intercalate outc
    if got == "panic" then "propfail panic" else
    let isPrefix := framing == "prefix"
    if d == .bound && !boundJudgeable g oracle (ewkbScan bndF isPrefix .any framed) then "skip nan-bound" else
    let bnd := boundWith g oracle
    let m := ewkbScan bnd isPrefix d framed
    let ms := showOutcome m
    let agree := ms == got
    let fin (s : String) : String := if s.startsWith "propfail" || agree then s else "diff " ++ ms
    fin <|
    -- the documented coercion table, on the value the round trip denotes
    let wantSrid := if isPrefix then (if srid != 0 then srid else psrid) else srid
    let want := match coerce bnd d (canon g) with
      | some v => showOutcome (.ok (v, wantSrid))
      | none => "err incorrect"
    if got != want then "propfail scan-coercion " ++ (if (coerce bnd d (canon g)).isSome then "value" else "mismatch-not-rejected")
    else if (coerce bnd d (canon g)).isSome then
      (if d == .any then "ok scan-any" else if d == .bound && (hasNaN g || hasNegZero g) then "ok scan-bound-bits" else "ok scan-coerced")
    else "ok scan-rejected"

/-- destination token of `wsc`: `PG` (little endian, no SRID) or `PG:<order>:<srid>` -/
def parseWscDest (s : String) : Option (Dest × Order × Nat) :=
  match s.splitOn ":" with
  | [d] => (parseDest d).map fun d => (d, .little, 0)
  | [d, o, n] => do
    let d ← parseDest d
    let o ← parseOrder o
    let n ← n.toNat?
    pure (d, o, n)
  | _ => none

/-- `wsc dest[:o:srid] framing psrid gval => outcome [; bound oracle]` : the deprecated wkb.Scanner with its
    MySQL prefix retry.  The known-finding label `ambiguous-first-byte` is emitted ONLY when the prefix is
    in the documented ambiguous class AND the implementation does exactly what the model of the code does;
    any other disagreement in that class is a `diff`. -/
def handleWsc (inp out : Toks) : String :=
  match (do
    let (dt, i) ← tok inp
    let (d, o, srid) ← parseWscDest dt
    let (framing, i) ← tok i
    let (psrid, i) ← nat i
    let (g, _) ← geom i
    let framed ← frameBytes framing psrid (encode o srid (.val g))
    pure (d, framing, psrid, g, framed)) with
  | none => "bad input"
  | some (d, framing, psrid, g, framed) =>
    let (outc, oracle) := splitOracle out
    let got := " ".intercalate outc
    if got == "panic" then "propfail panic" else
    if d == .bound && !boundJudgeable g oracle (match wkbScan bndF .any framed with
        | .ok g => .ok (g, 0) | .err e => .err e | .panic s => .panic s) then "skip nan-bound" else
    let bnd := boundWith g oracle
    let m : R (G × Nat) := match wkbScan bnd d framed with
      | .ok g => .ok (g, 0) | .err e => .err e | .panic s => .panic s
    let ms := showOutcome m
    let agree := ms == got
    let want := match coerce bnd d (canon g) with
      | some v => showOutcome (.ok (v, 0))
      | none => "err incorrect"
    if got != want then
      -- classify the known-ambiguous prefix: first prefix byte 0x00/0x01 looks like a byte-order mark
      let b0 := psrid % 256
      let b1 := (psrid / 256) % 256
      let amb := framing == "prefix" && (b0 == 0 || b0 == 1 || (b0 == 48 && (b1 == 48 || b1 == 49)) || (b0 == 92 && b1 == 120))
      if amb then (if agree then "propfail wkb-scanner-prefix ambiguous-first-byte" else "diff " ++ ms)
      else if framing == "prefix" then "propfail wkb-scanner-prefix other"
      else "propfail wkb-scanner-coercion " ++ (if (coerce bnd d (canon g)).isSome then "value" else "mismatch-not-rejected")
    else if !agree then "diff " ++ ms
    else if d == .bound && (hasNaN g || hasNegZero g) then "ok wkb-scan-bound-bits" else "ok wkb-scan"

/-! ### driver.Valuer round trip -/

def showStep (r : ScanState × Option Err) : String :=
  match r.2 with
  | some e => "err " ++ errClass e
  | none => if r.1.valid then
      (match r.1.geom with | some g => s!"ok {r.1.srid} {showGeom g}" | none => s!"ok {r.1.srid} nil")
    else "null"

/-- `val kind srid gval => <hex|nil|typednil> ; <scan outcome>` : `wkb.Value` / `ewkb.Value` / `ewkb.ValuePrefixSRID`
    read back by `wkb.Scanner` / `ewkb.Scanner` / `ewkb.ScannerPrefixSRID` (destination nil) -/
def handleVal (inp out : Toks) : String :=
  match (do
    let (k, i) ← tok inp
    let (srid, i) ← nat i
    let (v, _) ← gval i
    if k == "w" || k == "e" || k == "p" then pure (k, srid, v) else none) with
  | none => "bad input"
  | some (k, srid, v) =>
    if out == ["panic"] then "propfail panic" else
    -- model of the Valuer: nil when Marshal wrote nothing
    let payload := encode .little (if k == "e" then srid else 0) v
    let mval : Option Bytes :=
      if payload.isEmpty then none else some (if k == "p" then u32 .little srid ++ payload else payload)
    let mvtok := match mval with | none => "nil" | some b => hexOfBytes b
    let inp' : ScanIn := match mval with | none => .null | some b => .bytes b
    let mstep : R (ScanState × Option Err) :=
      if k == "w" then wkbScanStep bndF .any ScanState.fresh inp' else ewkbScanStep bndF (k == "p") .any ScanState.fresh inp'
    let ms := match mstep with | .ok r => showStep r | .err e => "err " ++ errClass e | .panic _ => "panic"
    let model := mvtok ++ " ; " ++ ms
    let got := " ".intercalate out
    let fin (s : String) : String := if s.startsWith "propfail" || model == got then s else "diff " ++ model
    fin <|
    match splitSemi out with
    | [[vt], sc] =>
      let scs := " ".intercalate sc
      if scs == "panic" then "propfail panic" else
      (match v with
       | .val g =>
         let want := showOutcome (.ok (canon g, if k == "w" then 0 else srid))
         if vt == "nil" || vt == "typednil" then "propfail value-of-geometry-is-null"
         else if scs != want then "propfail value-roundtrip " ++ k
         else "ok value-" ++ k
       | _ =>
         if vt != "nil" then "propfail nil-value-not-null " ++ vt
         else if scs != "null" then
           -- the specific label (a candidate known finding) only for exactly what the model of the code
           -- does: ScannerPrefixSRID fails the `d.([]byte)` assertion on a nil interface
           (if model == got && k == "p" && scs == "err datatype" then "propfail null-roundtrip p-scanner-rejects-null"
            else "propfail null-roundtrip other " ++ k)
         else "ok triv-null-" ++ k)
    | _ => "bad output"

/-! ### sizes above the allocation caps -/

def fnv (s : String) : String :=
  natToHex (s.foldl (fun (h : UInt64) c => (h ^^^ UInt64.ofNat c.toNat) * 0x100000001b3) 0xcbf29ce484222325).toNat 16

/-- mirror of the harness's `bigGeom`: point number `k` is (bits base+2k, bits base+2k+1) -/
def bigGeom (shape : String) (n : Nat) (base : UInt64) : Option G :=
  let pt (k : Nat) : Pt UInt64 := ⟨base + 2 * UInt64.ofNat k, base + 2 * UInt64.ofNat k + 1⟩
  let pts (k0 m : Nat) : List (Pt UInt64) := (List.range m).map fun i => pt (k0 + i)
  match shape with
  | "LS" => some (.lineString (pts 0 n))
  | "R" => some (.ring (pts 0 n))
  | "MP" => some (.multiPoint (pts 0 n))
  | "MLS" => some (.multiLineString ((List.range n).map fun i => pts (3*i) (i % 3)))
  | "PG" => some (.polygon ((List.range n).map fun i => pts (3*i) (i % 3)))
  | "MPG" => some (.multiPolygon ((List.range n).map fun i =>
      (List.range (i % 2 + 1)).map fun j => pts (6*i + 3*j) ((i + j) % 3)))
  | "C" => some (.collection ((List.range n).map fun i =>
      match i % 4 with
      | 0 => .point (pt i)
      | 1 => .lineString (pts (2*i) 2)
      | 2 => .multiPoint (pts i 1)
      | _ => .polygon []))
  | "CC" => some (.collection [.collection ((List.range n).map fun i => .point (pt i)), .point (pt n)])
  | "PGR" => some (.polygon [pts 0 n, pts n 3])
  | "MLSL" => some (.multiLineString [pts 0 n, pts n 2])
  | "MPGR" => some (.multiPolygon [[pts 0 n, pts n 1], [pts (n+1) 2]])
  | "CLS" => some (.collection [.lineString (pts 0 n), .point (pt n), .polygon [pts (n+1) n]])
  -- n collection levels around one point / with a sibling point after the inner collection at every level
  | "NEST" => some (nest false n)
  | "NESTW" => some (nest true n)
  | "NESTM" => some (nestM n)
  | _ => none
where
  /-- `n` collection levels around one point, members of every kind before / after the inner collection -/
  nestM : Nat → G
    | 0 => .point ⟨base, base + 1⟩
    | k+1 =>
      let pt (j : Nat) : Pt UInt64 := ⟨base + 2 * UInt64.ofNat j, base + 2 * UInt64.ofNat j + 1⟩
      let pts (k0 m : Nat) : List (Pt UInt64) := (List.range m).map fun i => pt (k0 + i)
      let mixed (j : Nat) : G :=
        match j % 7 with
        | 0 => .point (pt j)
        | 1 => .lineString (pts j 2)
        | 2 => .polygon [pts j 3]
        | 3 => .multiPoint (pts j 2)
        | 4 => .collection []
        | 5 => .multiPolygon [[pts j 1]]
        | _ => .multiLineString [pts j 1, []]
      let lvl := k + 1
      .collection ((if lvl % 3 == 1 then [mixed lvl] else []) ++ [nestM k] ++ (if lvl % 2 == 0 then [mixed (lvl + 1)] else []))
  nest (wide : Bool) : Nat → G
    | 0 => .point ⟨base, base + 1⟩
    | 1 => .collection [.point ⟨base, base + 1⟩]
    | k+2 =>
      let sib : Pt UInt64 := ⟨base + 2 * UInt64.ofNat (k + 1), base + 2 * UInt64.ofNat (k + 1) + 1⟩
      .collection (nest wide (k+1) :: (if wide then [.point sib] else []))

def kindTok : G → String
  | .point _ => "P" | .multiPoint _ => "MP" | .lineString _ => "LS" | .ring _ => "R"
  | .multiLineString _ => "MLS" | .polygon _ => "PG" | .multiPolygon _ => "MPG" | .bound _ _ => "B"
  | .collection _ => "C"

def digest (r : R (G × Nat)) : String :=
  match r with
  | .ok (g, srid) => s!"ok {srid} {kindTok g} {(coords g).length / 2} {fnv (showGeom g)}"
  | .err e => "err " ++ errClass e
  | .panic _ => "panic"

def allDests : List Dest :=
  [.any, .point, .multiPoint, .lineString, .multiLineString, .ring, .polygon, .multiPolygon, .collection, .bound]

/-- `big shape n o srid base => <len> <fnv of hex> ; <Unmarshal> ; <Decoder> ; <ewkb.Scanner into each of the 10
    destinations>` with outcomes as digests `ok srid KIND npoints fnv` -/
def handleBig (inp out : Toks) : String :=
  match (do
    let (shape, i) ← tok inp
    let (n, i) ← nat i
    let (ot, i) ← tok i
    let o ← parseOrder ot
    let (srid, i) ← nat i
    let (bt, _) ← tok i
    let base ← hexToNat? bt
    let g ← bigGeom shape n (UInt64.ofNat base)
    pure (shape, o, srid, n, g)) with
  | none => "bad input"
  | some (shape, o, srid, n, g) =>
    if out == ["panic"] then "propfail panic" else
    let (out, extras) := splitExtras out
    let segs := (splitSemi out).map (" ".intercalate ·)
    if segs.any (· == "panic") then "propfail panic" else
    let mbytes := encGeom o srid g
    let mhead := s!"{mbytes.length} {fnv (hexOfBytes mbytes)}"
    let mum := digest (unmarshal mbytes)
    let mst := digest (decode mbytes)
    let msc := allDests.map fun d => digest (scan bndF d mbytes)
    let model := mhead :: mum :: mst :: msc
    let fin (s : String) : String := if s.startsWith "propfail" || model == segs then s else "diff " ++ " ; ".intercalate model
    let fin2 (s : String) : String := if s.startsWith "ok" then (extrasVerdict extras).getD s else s
    fin <| fin2 <|
    match segs with
    | _head :: um :: st :: sc =>
      -- beyond MaxCollectionDepth the decoders must refuse (the scanners into `any` / `C` with them)
      if collDepth g > Generated.Params.wkb_MaxCollectionDepth then
        (if um != "err toodeep" then "propfail unmarshal-too-deep-accepted " ++ um
         else if st != "err toodeep" then "propfail stream-too-deep-accepted " ++ st
         else if sc.head? != some "err toodeep" then "propfail scan-too-deep-accepted"
         else "ok nest-too-deep")
      else
      let want := digest (.ok (canon g, srid))
      if um != want then "propfail unmarshal-roundtrip large " ++ um
      else if st != want then "propfail stream-roundtrip large " ++ st
      else
        let wants := allDests.map fun d => match coerce bndF d (canon g) with
          | some v => digest (.ok (v, srid))
          | none => "err incorrect"
        if sc != wants then "propfail scan-coercion large"
        else if shape == "NESTM" then (if n + 100 > Generated.Params.wkb_MaxCollectionDepth then "ok nest-mixed-at-limit" else if n > 5 then "ok nest-mixed-deep" else "ok nest-mixed")
        else if shape.startsWith "NEST" then (if n + 100 > Generated.Params.wkb_MaxCollectionDepth then "ok nest-at-limit" else "ok nest")
        else if n > 10000 then "ok large-points" else if n ≥ 9999 then "ok at-points-cap"
        else if n > 101 then "ok mid-size" else if n ≥ 100 then "ok at-cap" else if n > 7 then "ok mid-size-small" else "ok small-size"
    | _ => "bad output"

/-! ### one scanner value reused over several rows -/

def parseScanItem (ts : Toks) : Option ((ScanIn × Bool) × Toks) :=
  match ts with
  | "null" :: ts => some ((.null, false), ts)
  | "nilb" :: ts => some ((.nilBytes, false), ts)
  | "b" :: ts => do
    let (ot, ts) ← tok ts
    let o ← parseOrder ot
    let (srid, ts) ← nat ts
    let (framing, ts) ← tok ts
    let (psrid, ts) ← nat ts
    let (g, ts) ← geom ts
    let framed ← frameBytes framing psrid (encode o srid (.val g))
    pure ((.bytes framed, hasNaN g || hasNegZero g), ts)
  | _ => none

def showGeomOpt : Option G → String
  | some g => showGeom g
  | none => "nil"

/-- the fields after a `Scan`, as the harness prints them: `<err class|-> <valid> <srid> <geometry|nil>` -/
def showFields (r : ScanState × Option Err) : String :=
  let e := match r.2 with | some e => errClass e | none => "-"
  s!"{e} {if r.1.valid then 1 else 0} {r.1.srid} {showGeomOpt r.1.geom}"

/-- `scq which dest n item* => step ; … ; step` : one `GeometryScanner` value (`e` ewkb.Scanner, `p`
    ewkb.ScannerPrefixSRID, `w` wkb.Scanner) scans `n` rows.  Model: the state machine of the code
    (`ewkbScanStep` / `wkbScanStep`).  Property: every row reads as it would on a fresh scanner
    (error, Valid, Geometry, and the SRID of a valid row). -/
def handleScq (inp out : Toks) : String :=
  match (do
    let (w, i) ← tok inp
    let (dt, i) ← tok i
    let d ← parseDest dt
    let (n, i) ← nat i
    let (items, _) ← many parseScanItem n i
    if w == "e" || w == "p" || w == "w" then pure (w, d, items) else none) with
  | none => "bad input"
  | some (w, d, items0) =>
    let items := items0.map (·.1)
    if out == ["panic"] then "propfail panic" else
    if d == .bound && items0.any (·.2) then "skip nan-bound-rows" else
    let segs := (splitSemi out).map (" ".intercalate ·)
    if segs.any (· == "panic") then "propfail panic" else
    -- (NaN / -0 into the bound destination is not judged here: `sc` / `wsc` do, with the bound oracle)
    let step (σ : ScanState) (x : ScanIn) : R (ScanState × Option Err) :=
      if w == "w" then wkbScanStep bndF d σ x else ewkbScanStep bndF (w == "p") d σ x
    let rec run (σ : ScanState) (xs : List ScanIn) (acc : List String) : List String :=
      match xs with
      | [] => acc.reverse
      | x :: xs =>
        (match step σ x with
         | .ok r => run r.1 xs (showFields r :: acc)
         | _ => ("panic" :: acc).reverse)
    let model := run ScanState.fresh items []
    let stripDD (s : String) : String := if s.endsWith " dest-differs" then (s.dropEnd 13).toString else s
    -- ` kept-changed`: the value the caller kept from that row (s.Geometry / the destination's value, the slices
    -- themselves) printed differently after the later rows had been scanned
    let stripKC (s : String) : String := if s.endsWith " kept-changed" then (s.dropEnd 13).toString else s
    let keptChanged := segs.any (·.endsWith " kept-changed")
    let segs := segs.map stripKC
    let gotFields := segs.map stripDD
    if keptChanged then "propfail scanner-reuse kept-changed " ++ w else
    if segs.any (·.endsWith " dest-differs") then "propfail scanner-destination-differs" else
    -- the property, on the IMPLEMENTATION's rows: each must equal what the fresh-scanner model gives
    let fresh := items.map fun x => match step ScanState.fresh x with
      | .ok f => showFieldsObs f | _ => "panic"
    let gotObs := gotFields.map obsOfFields
    let agree := gotFields == model
    if gotObs != fresh then
      -- which clause: a NULL row that keeps the previous row, or a stale SRID / value
      let idx := firstDiff gotObs fresh 0
      let isNull := match items[idx]? with | some .null => true | _ => false
      -- the specific label (a candidate known finding) only when the implementation does exactly what the
      -- model of the code does, i.e. the ONLY deviation from a fresh scanner is wkb.Scanner keeping the
      -- previous row on a nil interface
      if agree && isNull && w == "w" then "propfail scanner-reuse stale-after-null w"
      else if agree then "propfail scanner-reuse history-dependent " ++ w
      else "propfail scanner-reuse row-differs-from-fresh " ++ w
    else if !agree then "diff " ++ " ; ".intercalate model
    else if items.length ≥ 2 then "ok scanner-reuse-" ++ w else "ok triv-scanner-reuse"
where
  /-- observable part of a printed row: error, valid, geometry, and the SRID only if valid -/
  obsOfFields (s : String) : String :=
    match s.splitOn " " with
    | e :: v :: srid :: rest => " ".intercalate (e :: v :: (if v == "1" then srid else "0") :: rest)
    | _ => s
  showFieldsObs (r : ScanState × Option Err) : String := obsOfFields (showFields r)
  firstDiff : List String → List String → Nat → Nat
    | a :: as, b :: bs, i => if a == b then firstDiff as bs (i+1) else i
    | _, _, i => i

/-! ### byte-order values -/

/-- `bo tok srid gval => <payload order> HEX ; <Unmarshal> ; <Decoder> ; same|…` : `ewkb.Marshal(g, srid, order)`
    for a `binary.ByteOrder` VALUE named by `tok` (`le` = binary.LittleEndian itself, `be` = binary.BigEndian itself,
    anything else = another value: binary.NativeEndian, user types).  The harness probes which order the
    value writes integers in (first output token).  Model of the code: `encodeBO` (mark by probing the
    value, fix C01-3).  Property: the bytes decode back to the value (`byte_order_roundtrip`). -/
def handleBo (inp out : Toks) : String :=
  match (do
    let (t, i) ← tok inp
    let (srid, i) ← nat i
    let (v, _) ← gval i
    pure (t, srid, v)) with
  | none => "bad input"
  | some (t, srid, v) =>
    if out == ["panic"] then "propfail panic" else
    match out with
    | pot :: rest =>
      (match parseOrder pot, splitSemi rest with
       | some po, [[hex], um, st, api] =>
         let isLE := t == "le"
         let mark := codeMark isLE po
         let mbytes := encodeBO isLE po srid v
         let mhex := hexOfBytes mbytes
         let mum := showOutcome (unmarshal mbytes)
         let mst := showOutcome (decode mbytes)
         let ums := " ".intercalate um
         let sts := " ".intercalate st
         let agree := mhex == hex && ums == mum && sts == mst
         let fin (s : String) : String := if s.startsWith "propfail" || agree then s else s!"diff {mhex} ; {mum} ; {mst}"
         fin <|
         if ums == "panic" || sts == "panic" then "propfail panic" else
         -- the documented values must be what they are said to be
         if (t == "le" && po != .little) || (t == "be" && po != .big) then "bad payload order" else
         if api != ["same"] then "propfail encoder-entry-points-disagree " ++ " ".intercalate api else
         (match v with
          | .val g =>
            let deep := collDepth g > Generated.Params.wkb_MaxCollectionDepth
            let want := if deep then "err toodeep" else showOutcome (.ok (canon g, srid))
            if ums != want || sts != want then
              (if agree && mark != po then "propfail byte-order-mark-mismatch " ++ t
               else "propfail byte-order-roundtrip " ++ t)
            else if t == "le" || t == "be" then "ok order-documented" else "ok order-" ++ t
          | _ => if hex != "empty" then "propfail nil-encodes-to-bytes" else "ok triv-nil-order")
       | _, _ => "bad output")
    | [] => "bad output"

/-- `trunc o srid cut gval => <kept> <len> ; <Unmarshal> ; <Decoder> ; <readers>` : the first `kept = cut % (len+1)`
    bytes of an encoding through both decoders (model: `unmarshal` / `decode` on the same prefix) and the
    stream decoder once more through every fragmenting reader. -/
def handleTrunc (inp out : Toks) : String :=
  match (do
    let (ot, i) ← tok inp
    let o ← parseOrder ot
    let (srid, i) ← nat i
    let (cut, i) ← nat i
    let (v, _) ← gval i
    pure (o, srid, cut, v)) with
  | none => "bad input"
  | some (o, srid, cut, v) =>
    if out == ["panic"] then "propfail panic" else
    match splitSemi out with
    | [[kt, lt], um, st, fr] =>
      let mbytes := encode o srid v
      let kept := cut % (mbytes.length + 1)
      let d := mbytes.take kept
      let mum := showOutcome (unmarshal d)
      let mst := showOutcome (decode d)
      let ums := " ".intercalate um
      let sts := " ".intercalate st
      let agree := kt == toString kept && lt == toString mbytes.length && ums == mum && sts == mst
      let fin (s : String) : String := if s.startsWith "propfail" || agree then s else s!"diff {kept} {mbytes.length} ; {mum} ; {mst}"
      fin <|
      if ums == "panic" || sts == "panic" then "propfail panic" else
      if (frVerdict fr).isSome then (frVerdict fr).getD "" else
      -- a proper prefix of an encoding is never accepted as the value
      (match v with
       | .val g =>
         let whole := showOutcome (.ok (canon g, srid))
         if kept < mbytes.length && (ums == whole || sts == whole) then "propfail truncated-accepted"
         else if kept == mbytes.length then "ok trunc-whole"
         else if sts.startsWith "err" then "ok trunc-" ++ (sts.drop 4).toString else "ok trunc-other-value"
       | _ => "ok triv-trunc-nil")
    | _ => "bad output"

/-- `zread o srid gval => <Decoder> ; <readers>` : the stream decoder on the encoding, through the plain reader
    (model: `decode`) and through the fragmenting readers INCLUDING the one that answers (0, nil) to one-byte
    requests (`zero1=`; the other ops leave that one out). -/
def handleZread (inp out : Toks) : String :=
  match (do
    let (ot, i) ← tok inp
    let o ← parseOrder ot
    let (srid, i) ← nat i
    let (v, _) ← gval i
    pure (o, srid, v)) with
  | none => "bad input"
  | some (o, srid, v) =>
    if out == ["panic"] then "propfail panic" else
    match splitSemi out with
    | [st, fr] =>
      let mst := showOutcome (decode (encode o srid v))
      let sts := " ".intercalate st
      let fin (s : String) : String := if s.startsWith "propfail" || sts == mst then s else s!"diff {mst}"
      fin <|
      if sts == "panic" then "propfail panic" else
      (match v with
       | .val g =>
         let deep := collDepth g > Generated.Params.wkb_MaxCollectionDepth
         let want := if deep then "err toodeep" else showOutcome (.ok (canon g, srid))
         if sts != want then "propfail stream-roundtrip" else (frVerdict fr).getD "ok zero-read"
       | _ => (frVerdict fr).getD "ok triv-zero-read-nil")
    | _ => "bad output"

def handle (ts : Toks) : String :=
  match ts with
  | op :: rest =>
    let (inp, out) := splitArrow rest
    match op with
    | "rt" => handleRt inp out
    | "wrt" => handleWrt inp out
    | "val" => handleVal inp out
    | "big" => handleBig inp out
    | "seq" => handleSeq inp out
    | "sc" => handleSc inp out
    | "scq" => handleScq inp out
    | "wsc" => handleWsc inp out
    | "bo" => handleBo inp out
    | "trunc" => handleTrunc inp out
    | "zread" => handleZread inp out
    | _ => "bad op " ++ op
  | [] => "bad empty"

end Driver.C01
