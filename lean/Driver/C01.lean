import Orb.Proto
import Orb.WKB
import Orb.Core
import Generated.Params

/-! Driver for C01 (WKB / EWKB round trip, decode paths, scanner coercions) and shared WKB glue. -/
namespace Driver.C01
open Orb Orb.Proto Orb.WKB

def hexOfBytes (bs : Bytes) : String :=
  if bs.isEmpty then "empty" else String.ofList ((hexEncode false bs).map fun b => Char.ofNat b.toNat)

def bytesOfHex (s : String) : Option Bytes :=
  if s == "empty" then some [] else hexDecode (s.toList.map fun c => UInt8.ofNat c.toNat)

def ebF : Core.Bound Float :=
  ⟨⟨Float.ofInt Generated.Params.emptyBoundMinX, Float.ofInt Generated.Params.emptyBoundMinY⟩,
   ⟨Float.ofInt Generated.Params.emptyBoundMaxX, Float.ofInt Generated.Params.emptyBoundMaxY⟩⟩

/-- `Geometry.Bound()` of a decoded value, through the Float twin of the core model. -/
def bndF : BoundFn := fun g =>
  let b := Core.bound ebF (mapGeom Float.ofBits g)
  (⟨b.lo.x.toBits, b.lo.y.toBits⟩, ⟨b.hi.x.toBits, b.hi.y.toBits⟩)

def hasNaN (g : G) : Bool := (coords g).any fun b => (Float.ofBits b).isNaN
def hasNegZero (g : G) : Bool := (coords g).any fun b => b == 0x8000000000000000

def errClass : Err → String
  | .notWKB | .notWKBHeader => "notwkb"
  | .incorrectGeometry => "incorrect"
  | .unsupportedGeometry => "unsupported"
  | .eof => "eof"
  | .unexpectedEOF => "ueof"
  | .badMember | .badHex => "other"
  | .unsupportedDataType => "datatype"

def showOutcome (r : R (G × Nat)) : String :=
  match r with
  | .ok (g, srid) => s!"ok {srid} {showGeom g}"
  | .err e => "err " ++ errClass e
  | .panic _ => "panic"

def parseOrder (s : String) : Option Order :=
  if s == "1" then some .little else if s == "0" then some .big else none

def parseDest (s : String) : Option Dest :=
  match s with
  | "any" => some .any | "P" => some .point | "MP" => some .multiPoint | "LS" => some .lineString
  | "MLS" => some .multiLineString | "R" => some .ring | "PG" => some .polygon | "MPG" => some .multiPolygon
  | "C" => some .collection | "B" => some .bound | _ => none

/-- split a token list at `;` tokens -/
def splitSemi (ts : Toks) : List Toks :=
  let rec go (ts : Toks) (cur : Toks) (acc : List Toks) : List Toks :=
    match ts with
    | [] => (cur.reverse :: acc).reverse
    | ";" :: rest => go rest [] (cur.reverse :: acc)
    | t :: rest => go rest (t :: cur) acc
  go ts [] []

/-- bit-exact comparison except that a `Bound` destination is compared through float `==`
    (math.Min/Max and the model's min/max may pick different zeros) -/
def sameOutcome (a b : String) : Bool := a == b

/-- `rt o srid gval => HEX ; <Unmarshal outcome> ; <Decoder outcome>` -/
def handleRt (inp out : Toks) : String :=
  match (do
    let (ot, i) ← tok inp
    let o ← parseOrder ot
    let (srid, i) ← nat i
    let (v, _) ← gval i
    pure (o, srid, v)) with
  | none => "bad input"
  | some (o, srid, v) =>
    match splitSemi out with
    | [[hex], um, st] =>
      let mbytes := encode o srid v
      let mhex := hexOfBytes mbytes
      let mum := showOutcome (unmarshal mbytes)
      let mst := showOutcome (decode mbytes)
      let agree := mhex == hex && " ".intercalate um == mum && " ".intercalate st == mst
      let fin (s : String) : String := if s.startsWith "propfail" || agree then s else s!"diff {mhex} ; {mum} ; {mst}"
      fin <|
      if um == ["panic"] || st == ["panic"] || hex == "panic" then "propfail panic" else
      match v with
      | .val g =>
        -- property: both decoders return the canonical value and the srid that was written
        let want := showOutcome (.ok (canon g, srid))
        if " ".intercalate um != want then "propfail unmarshal-roundtrip"
        else if " ".intercalate st != want then "propfail stream-roundtrip"
        else (match g with | .collection _ => "ok coll" | .point _ => "ok point" | _ => "ok geom")
      | _ => if hex != "empty" then "propfail nil-encodes-to-bytes" else "ok triv-nil"
    | _ => if out == ["panic"] then "propfail panic" else "bad output"

/-- `seq n (o srid how gval)* => HEX ; outcome ; … ; outcome` : one Encoder, one Decoder, a stream of values -/
def handleSeq (inp out : Toks) : String :=
  match (do
    let (n, i) ← nat inp
    let item : P (Order × Nat × GVal UInt64) := fun ts => do
      let (ot, ts) ← tok ts
      let o ← parseOrder ot
      let (srid, ts) ← nat ts
      let (_, ts) ← tok ts
      let (v, ts) ← gval ts
      pure ((o, srid, v), ts)
    let (items, _) ← many item n i
    pure items) with
  | none => "bad input"
  | some items =>
    if out == ["panic"] then "propfail panic" else
    let mbytes := items.foldl (fun acc (o, srid, v) => acc ++ encode o srid v) []
    let vals := items.filterMap fun (_, srid, v) => match v with | .val g => some (g, srid) | _ => none
    -- model: successive Decode() calls on one stream, one more than there are values
    let rec dec (fuel : Nat) (s : Bytes) (acc : List String) : List String :=
      match fuel with
      | 0 => acc
      | fuel+1 =>
        match decodeStream s.length s with
        | .ok (g, srid, rest) => dec fuel rest (acc ++ [showOutcome (.ok (g, srid))])
        | .err e => acc ++ ["err " ++ errClass e]
        | .panic _ => acc ++ ["panic"]
    let mouts := dec (vals.length + 1) mbytes []
    let model := " ; ".intercalate (hexOfBytes mbytes :: mouts)
    let got := " ".intercalate out
    let fin (s : String) : String := if s.startsWith "propfail" || model == got then s else "diff " ++ model
    fin <|
    match splitSemi out with
    | [] => "bad output"
    | _hex :: outs =>
      if outs.any (· == ["panic"]) then "propfail panic" else
      let want := vals.map fun (g, srid) => showOutcome (.ok (canon g, srid))
      let gotVals := (outs.take vals.length).map (" ".intercalate ·)
      if gotVals != want then "propfail stream-sequence-roundtrip" else
      if (outs.drop vals.length).map (" ".intercalate ·) != ["err eof"] then "propfail stream-end-not-eof" else
      if vals.length ≤ 1 then "ok seq-short" else "ok seq"

def frameBytes (framing : String) (prefixSrid : Nat) (bs : Bytes) : Option Bytes :=
  match framing with
  | "raw" => some bs
  | "hex" => some (hexEncode false bs)
  | "HEX" => some (hexEncode true bs)
  | "xhex" => some (92 :: 120 :: hexEncode false bs)
  | "prefix" => some (u32 .little prefixSrid ++ bs)
  | _ => none

/-- `sc o srid dest framing psrid gval => outcome` : ewkb.Scanner / ScannerPrefixSRID -/
def handleSc (inp out : Toks) : String :=
  match (do
    let (ot, i) ← tok inp
    let o ← parseOrder ot
    let (srid, i) ← nat i
    let (dt, i) ← tok i
    let d ← parseDest dt
    let (framing, i) ← tok i
    let (psrid, i) ← nat i
    let (g, _) ← geom i
    let framed ← frameBytes framing psrid (encode o srid (.val g))
    pure (o, srid, d, framing, psrid, g, framed)) with
  | none => "bad input"
  | some (_o, srid, d, framing, psrid, g, framed) =>
    let isPrefix := framing == "prefix"
    let m := ewkbScan bndF isPrefix d framed
    let ms := showOutcome m
    let got := " ".intercalate out
    let nanBound := d == .bound && (hasNaN g || hasNegZero g)
    let agree := ms == got || nanBound
    let fin (s : String) : String := if s.startsWith "propfail" || agree then s else "diff " ++ ms
    fin <|
    if got == "panic" then "propfail panic" else
    if nanBound then "skip nan-bound" else
    -- the documented coercion table, on the value the round trip denotes
    let wantSrid := if isPrefix then (if srid != 0 then srid else psrid) else srid
    let want := match coerce bndF d (canon g) with
      | some v => showOutcome (.ok (v, wantSrid))
      | none => "err incorrect"
    if got != want then "propfail scan-coercion " ++ (if (coerce bndF d (canon g)).isSome then "value" else "mismatch-not-rejected")
    else if (coerce bndF d (canon g)).isSome then (if d == .any then "ok scan-any" else "ok scan-coerced") else "ok scan-rejected"

/-- `wsc dest framing psrid gval => outcome` : the deprecated wkb.Scanner with its MySQL prefix retry -/
def handleWsc (inp out : Toks) : String :=
  match (do
    let (dt, i) ← tok inp
    let d ← parseDest dt
    let (framing, i) ← tok i
    let (psrid, i) ← nat i
    let (g, _) ← geom i
    let framed ← frameBytes framing psrid (encode .little 0 (.val g))
    pure (d, framing, psrid, g, framed)) with
  | none => "bad input"
  | some (d, framing, psrid, g, framed) =>
    let m : R (G × Nat) := match wkbScan bndF d framed with
      | .ok g => .ok (g, 0) | .err e => .err e | .panic s => .panic s
    let ms := showOutcome m
    let got := " ".intercalate out
    let nanBound := d == .bound && (hasNaN g || hasNegZero g)
    let agree := ms == got || nanBound
    let fin (s : String) : String := if s.startsWith "propfail" || agree then s else "diff " ++ ms
    fin <|
    if got == "panic" then "propfail panic" else
    if nanBound then "skip nan-bound" else
    let want := match coerce bndF d (canon g) with
      | some v => showOutcome (.ok (v, 0))
      | none => "err incorrect"
    if got != want then
      -- classify the known-ambiguous prefix: first prefix byte 0x00/0x01 looks like a byte-order mark
      let b0 := psrid % 256
      let b1 := (psrid / 256) % 256
      let amb := framing == "prefix" && (b0 == 0 || b0 == 1 || (b0 == 48 && (b1 == 48 || b1 == 49)) || (b0 == 92 && b1 == 120))
      "propfail wkb-scanner-prefix " ++ (if amb then "ambiguous-first-byte" else "other")
    else "ok wkb-scan"

def handle (ts : Toks) : String :=
  match ts with
  | op :: rest =>
    let (inp, out) := splitArrow rest
    match op with
    | "rt" => handleRt inp out
    | "seq" => handleSeq inp out
    | "sc" => handleSc inp out
    | "wsc" => handleWsc inp out
    | _ => "bad op " ++ op
  | [] => "bad empty"

end Driver.C01
