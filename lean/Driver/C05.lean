import Orb.Proto
import Orb.WKB
import Driver.C01
import Driver.C02
import Driver.C03
import Driver.C04

/-! Driver for C05 (decoders never panic, never loop forever, never over-allocate on hostile input).

    `wkb <hex> [dest] => um ; st ; sc ; psc ; wsc ; dsc ; dpsc ; dwsc ; A <um> <st> <scan> <stable>`
      five decode outcomes into a nil destination, the three scanners into the typed destination `dest`,
      measured TotalAlloc of `Unmarshal`, of `Decode` and of `ewkb.Scanner(dest).Scan`, re-encoding stability.
      Every outcome is compared with the model; every measured allocation with what the MODEL's accounting of
      the decoder's own `make` calls says (`unmarshalAlloc`, `decodeAlloc`, `scanDestAlloc` in Orb/WKB.lean),
      and the model's figure with the property's bound `allocPerByte·len + allocFixed`.
    `wkbnest <kind> <k> => ok | err … | crash … | timeout`   (decoded in a child process; the outcome is
      compared with what the decoders must say about `k` nested one-member multis / collections)
    `wkt` / `mvt` / `gj`: the hostile streams, judged by the handlers of C04 / C03 / C02; C05 adds the
      watchdog verdict and, for `mvt`, the property's own allocation bound against the INPUT length
      (C03 judges `UnmarshalGzipped` against the unzipped length). -/
namespace Driver.C05
open Orb Orb.Proto Orb.WKB Driver.C01

/-- What a measured TotalAlloc may exceed the model's accounting by: size-class rounding and `append`
    growth of the accounted slices (factor 2), the copy of the input handed to the decoder, readers,
    error values and `append` beyond a capped capacity (32 bytes per input byte), and what the
    harness's other goroutines allocate meanwhile (64 KiB). -/
def measuredBound (model len : Nat) : Nat := 2 * model + 32 * len + 65536

/-- the property's bound, on the model's own figure -/
def linearBound (len : Nat) : Nat := allocPerByte * len + allocFixed

/-- `wkbcommon.Scan`'s framing (`\x…`, bare hex) removed; `none` when Scan stops before decoding. -/
def scanPayload (data : Bytes) : Option Bytes :=
  if lenLt data 5 then none else
  let step1 : Option Bytes :=
    match data with
    | 92 :: 120 :: rest => hexDecode rest
    | _ => some data
  match step1 with
  | some d =>
    (match d with
     | a :: b :: _ => if a = 48 ∧ (b = 48 ∨ b = 49) then hexDecode d else some d
     | _ => none)
  | none => none

/-- comparison of a scanner outcome with the model's; the `*orb.Bound` destination of a value with a
    NaN or a negative zero is compared up to the bound's coordinates (Go's math.Min/Max and the Float
    twin may pick different NaN payloads / zeros) -/
def sameScan (d : Dest) (mAny m : R (G × Nat)) (got : String) : Bool :=
  let ms := showOutcome m
  if ms == got then true else
  match d, mAny, m with
  | .bound, .ok (g, _), .ok (_, srid) =>
    (hasNaN g || hasNegZero g) && got.startsWith s!"ok {srid} "
  | _, _, _ => false

def handleWkb (inp out : Toks) : String :=
  match (match inp with
    | [hex] => some (hex, Dest.any)
    | [hex, dt] => (parseDest dt).map fun d => (hex, d)
    | _ => none) with
  | none => "bad input"
  | some (hex, d) =>
    (match bytesOfHex hex with
     | none => "bad hex"
     | some bs =>
       if out == ["panic"] then "propfail panic harness" else
       match splitSemi out with
       | [um, st, sc, psc, wsc, dsc, dpsc, dwsc, fl] =>
         let j (t : Toks) := " ".intercalate t
         let all := [um, st, sc, psc, wsc, dsc, dpsc, dwsc]
         if all.any (· == ["panic"]) then "propfail panic wkb" else
         if all.any (· == ["timeout"]) then "propfail timeout wkb" else
         let len := bs.length
         let lift (r : R G) : R (G × Nat) :=
           match r with | .ok g => .ok (g, 0) | .err e => .err e | .panic s => .panic s
         let mum := showOutcome (unmarshal bs)
         let mst := showOutcome (decode bs)
         let aSc := ewkbScan bndF false .any bs
         let aPsc := ewkbScan bndF true .any bs
         let aWsc := lift (wkbScan bndF .any bs)
         let mDsc := ewkbScan bndF false d bs
         let mDpsc := ewkbScan bndF true d bs
         let mDwsc := lift (wkbScan bndF d bs)
         let agree := j um == mum && j st == mst && j sc == showOutcome aSc && j psc == showOutcome aPsc
           && j wsc == showOutcome aWsc
           && sameScan d aSc mDsc (j dsc) && sameScan d aPsc mDpsc (j dpsc) && sameScan d aWsc mDwsc (j dwsc)
         let diff := s!"diff {mum} ; {mst} ; {showOutcome aSc} ; {showOutcome aPsc} ; {showOutcome aWsc} ; {showOutcome mDsc} ; {showOutcome mDpsc} ; {showOutcome mDwsc}"
         (match fl with
          | ["A", aum, ast, asc, stable] =>
            (match aum.toNat?, ast.toNat?, asc.toNat? with
             | some aum, some ast, some asc =>
               -- the model's accounting of the decoder's own `make` calls
               let mAum := unmarshalAlloc bs
               let mAst := decodeAlloc bs
               let mAsc := match scanPayload bs with | some p => scanDestAlloc d p | none => 0
               -- (1) the implementation allocates what the model accounts for, and no more
               if aum > measuredBound mAum len then s!"propfail alloc-unexplained wkb-unmarshal measured={aum} model={mAum} len={len}" else
               if ast > measuredBound mAst len then s!"propfail alloc-unexplained wkb-decode measured={ast} model={mAst} len={len}" else
               if asc > measuredBound mAsc len then s!"propfail alloc-unexplained wkb-scan measured={asc} model={mAsc} len={len}" else
               if stable != "1" then "propfail reencode-unstable" else
               if !agree then diff else
               -- (2) the model's figure is within the property's bound (theorems decode_alloc_le,
               --     unmarshal_alloc_linear, scanDest_alloc_le: a failure here means model and proofs are out of step)
               if mAst > linearBound len then s!"propfail alloc-superlinear wkb-decode model={mAst} len={len}" else
               if mAum > linearBound len then s!"propfail alloc-superlinear wkb-unmarshal model={mAum} len={len}" else
               if mAsc > linearBound len then s!"propfail alloc-superlinear wkb-scan model={mAsc} len={len}" else
               -- (3) a returned value is nested no deeper than the decoders' limit, and the model's count of
               --     simultaneously active Decode calls is within it (theorems decode_depth_le, *_result_depth_le)
               if decodeDepth bs > Generated.Params.wkb_MaxCollectionDepth + 1 ||
                  unmarshalDepth bs > Generated.Params.wkb_MaxCollectionDepth + 1 then "propfail recursion-depth wkb model" else
               if (match unmarshal bs with | .ok (g, _) => decide (collDepth g > Generated.Params.wkb_MaxCollectionDepth) | _ => false)
                 then "propfail result-too-deep wkb-unmarshal" else
               let typed := if d == .any then "" else if (j dsc).startsWith "ok" then " typed-ok" else " typed-err"
               if (j um).startsWith "ok" then "ok wkb-value" ++ typed else "ok wkb-error " ++ (j um) ++ typed
             | _, _, _ => "bad alloc")
          | _ => "bad flags")
       | _ => "bad output")

/-- What the decoders must say about `k` one-member multi (kind mls, mpoly: `Unmarshal`) / collection
    (kind coll: the stream decoder) headers around an empty member.  The inputs are up to 180 MB, too large
    to be handed to the compiled model, but their outcome follows from the model in closed form:
    a nested multi is the wrong member type (`scanMember`, theorem `nested_unmarshal_rejected`); `k`
    collections around a line string are nested `k` deep (`decodeStream_encode` / `decodeStream_too_deep`
    with `g` = the k-fold collection of an empty line string, whose encoding this input is). -/
def nestExpect (kind : String) (k : Nat) : String :=
  if kind == "coll" then (if k ≤ Generated.Params.wkb_MaxCollectionDepth then "ok" else "err toodeep")
  else (if k ≤ 1 then "ok" else "err incorrect")

/-- `wkbnest kind k`: a crash (a Go stack overflow is fatal) or a hang is a violation at any depth; a clean
    outcome must be the expected one. -/
def handleNest (inp out : Toks) : String :=
  match inp with
  | [kind, k] =>
    (match k.toNat? with
     | none => "bad input"
     | some kn =>
       let want := nestExpect kind kn
       (match out with
        | ["crash", "stack-overflow"] => s!"propfail stack-overflow wkbnest {kind} depth={k}"
        | "crash" :: w => "propfail process-crash wkbnest " ++ " ".intercalate w
        | ["timeout"] => "propfail timeout wkbnest"
        | ["ok"] => if want == "ok" then s!"ok wkbnest {kind}" else s!"diff {want}"
        | "err" :: _ => if " ".intercalate out == want then s!"ok wkbnest {kind} err" else s!"diff {want}"
        | _ => "bad output"))
  | _ => "bad input"

/-- the property's allocation bound for `mvt.UnmarshalGzipped`, against the length of the INPUT -/
def gzipBound (len : Nat) : Nat := 512 * len + 1048576

/-- `mvt`: C03's verdict; on `ok`, additionally the allocation of `UnmarshalGzipped` against the input
    length alone.  The label is given only when C03's handler has accepted the case (outcomes agree with
    the model and the allocation is explained by the unzipped length). -/
def handleMvt (inp out : Toks) : String :=
  let v := Driver.C03.handleHostile inp out
  if !v.startsWith "ok" then v else
  match inp with
  | [hx] =>
    let len := if hx == "empty" then 0 else hx.length / 2
    let sec := (splitSemi out).find? fun s => s.head? == some "G"
    (match sec with
     | some [_, _, ga, dl] =>
       (match ga.toNat?, dl.toNat? with
        | some ga, some dl =>
          if ga > gzipBound len then s!"propfail alloc-gzip-bomb mvt bytes={ga} len={len} unzipped={dl}" else v
        | _, _ => v)
     | _ => v)
  | _ => v

/-- `wkt`: C04's verdict on the eight outcomes and the allocation of `wkt.Unmarshal`; C05 appends the
    largest allocation of the seven typed parsers (`; talloc n`), judged against C04's bound. -/
def handleWkt (inp out : Toks) : String :=
  let secs := splitSemi out
  match secs.reverse with
  | ["talloc", n] :: rest =>
    let out' := " ; ".intercalate (rest.reverse.map fun t => " ".intercalate t)
    let v := Driver.C04.handleHostile inp (out'.splitOn " " |>.filter (· != ""))
    if !v.startsWith "ok" then v else
    (match n.toNat?, inp.head? with
     | some a, some hx =>
       let len := hx.length / 2
       if a > Driver.C04.allocC * len + Driver.C04.allocK then s!"propfail alloc wkt-typed bytes={a} len={len}" else v
     | _, _ => "bad talloc")
  | _ => Driver.C04.handleHostile inp out

def handle (ts : Toks) : String :=
  match ts with
  | op :: rest =>
    let (inp, out) := splitArrow rest
    -- the outer watchdog / recover of harness/c05.go around the delegated runners (C04's handler knows
    -- its own `timeout` outcome)
    if (op == "mvt" || op == "gj") && out == ["timeout"] then s!"propfail timeout {op}" else
    if (op == "mvt" || op == "gj" || op == "wkt") && out == ["panic"] then s!"propfail panic harness {op}" else
    match op with
    | "wkb" => handleWkb inp out
    | "wkbnest" => handleNest inp out
    | "wkt" => handleWkt inp out
    | "mvt" => handleMvt inp out
    | "gj" => Driver.C02.handleHostile inp out
    | _ => "bad op " ++ op
  | [] => "bad empty"

end Driver.C05
