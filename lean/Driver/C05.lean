import Orb.Proto
import Orb.WKB
import Driver.C01
import Driver.C02
import Driver.C03
import Driver.C04

/-! Driver for C05 (decoders never panic, never loop forever, never over-allocate on hostile input).

    `wkb <hex> [dest] => um ; st ; sc ; psc ; wsc ; dsc ; dpsc ; dwsc ; wum ; wst ; X … ; A <um> <st> <scan> <stable> <wum> <wst>`
      five decode outcomes into a nil destination, the three scanners into the typed destination `dest`,
      package wkb's own `Unmarshal` and stream `Decode` (the model's outcome with the SRID dropped), the three
      scanners handed the bytes as a string / a nil slice (`X`: unsupported data type / not valid, six classes),
      measured TotalAlloc of `Unmarshal`, of `Decode`, of `ewkb.Scanner(dest).Scan`, of `wkb.Unmarshal` and of
      wkb's `Decode`, re-encoding stability.
      Every outcome is compared with the model; every measured allocation with what the MODEL's accounting of
      the decoder's own `make` calls says (`unmarshalAlloc`, `decodeAlloc`, `scanDestAlloc` in Orb/WKB.lean),
      and the model's figure with the property's bound `allocPerByte·len + allocFixed`.
    `wkbnest <kind> <k> => ok | err … | crash … | timeout`   (decoded in a child process; the outcome is
      compared with what the decoders must say about `k` nested one-member multis / collections)
    `wkt` / `mvt` / `gj`: the hostile streams, judged by the handlers of C04 / C03 / C02; C05 adds the
      watchdog verdict and, for `mvt`, the property's own allocation bound against the INPUT length
      (C03 judges `UnmarshalGzipped` against the unzipped length).  The harness appends `; ep <calls> <name:panic>…`
      (every listed entry point of the family called directly on the same bytes: a panic there fails the case
      unless the delegated verdict is a failure already) and, for `gj`, `; wf 0|1` (the bytes are a well-formed
      document: the label `panic-bson-corrupt-document` is kept only when they are not).
    `selftest [run] => ok <listed> <called> | fail … | noprops`: every public entry point props.json lists
      for C05 is in the harness's table and has been called. -/
namespace Driver.C05
open Orb Orb.Proto Orb.WKB Driver.C01

/-- What a measured TotalAlloc may exceed the model's accounting by: size-class rounding and `append`
    growth of the accounted slices (factor 2), the copy of the input handed to the decoder, readers,
    error values and `append` beyond a capped capacity (32 bytes per input byte), and what the
    harness's other goroutines allocate meanwhile (64 KiB). -/
def measuredBound (model len : Nat) : Nat := 2 * model + 32 * len + 65536

/-- the property's bound, on the model's own figure -/
def linearBound (len : Nat) : Nat := allocPerByte * len + allocFixed

/-- `wkbcommon.Scan`'s framing (`\x…`, bare hex) removed; `none` when Scan stops before decoding. -/
def scanPayload (data : Bytes) : Option Bytes :=
  if lenLt data 5 then none else
  let step1 : Option Bytes :=
    match data with
    | 92 :: 120 :: rest => hexDecode rest
    | _ => some data
  match step1 with
  | some d =>
    (match d with
     | a :: b :: _ => if a = 48 ∧ (b = 48 ∨ b = 49) then hexDecode d else some d
     | _ => none)
  | none => none

/-- comparison of a scanner outcome with the model's; the `*orb.Bound` destination of a value with a
    NaN or a negative zero is compared up to the bound's coordinates (Go's math.Min/Max and the Float
    twin may pick different NaN payloads / zeros) -/
def sameScan (d : Dest) (mAny m : R (G × Nat)) (got : String) : Bool :=
  let ms := showOutcome m
  if ms == got then true else
  match d, mAny, m with
  | .bound, .ok (g, _), .ok (_, srid) =>
    (hasNaN g || hasNegZero g) && got.startsWith s!"ok {srid} "
  | _, _, _ => false

def handleWkb (inp out : Toks) : String :=
  match (match inp with
    | [hex] => some (hex, Dest.any)
    | [hex, dt] => (parseDest dt).map fun d => (hex, d)
    | _ => none) with
  | none => "bad input"
  | some (hex, d) =>
    (match bytesOfHex hex with
     | none => "bad hex"
     | some bs =>
       if out == ["panic"] then "propfail panic harness" else
       match splitSemi out with
       | [um0, st0, sc0, psc0, wsc0, dsc0, dpsc0, dwsc0, wum0, wst0, "X" :: xs, fl] =>
         let j (t : Toks) := " ".intercalate t
         -- the harness writes a long outcome once: `= k` stands for the k-th outcome
         let raw := [um0, st0, sc0, psc0, wsc0, dsc0, dpsc0, dwsc0, wum0, wst0]
         let ex (t : Toks) : Toks :=
           match t with
           | ["=", k] => (match k.toNat? with | some k => raw.getD k ["bad-reference"] | none => ["bad-reference"])
           | _ => t
         let um := ex um0; let st := ex st0; let sc := ex sc0; let psc := ex psc0; let wsc := ex wsc0
         let dsc := ex dsc0; let dpsc := ex dpsc0; let dwsc := ex dwsc0; let wum := ex wum0; let wst := ex wst0
         let all := [um, st, sc, psc, wsc, dsc, dpsc, dwsc, wum, wst]
         let names := ["ewkb.Unmarshal", "ewkb.Decoder", "ewkb.Scanner", "ewkb.ScannerPrefixSRID", "wkb.Scanner",
           "ewkb.Scanner(dest)", "ewkb.ScannerPrefixSRID(dest)", "wkb.Scanner(dest)", "wkb.Unmarshal", "wkb.Decoder"]
         let who (what : String) : String :=
           " ".intercalate ((names.zip all).filterMap fun (n, o) => if o == [what] then some n else none)
         if all.any (· == ["panic"]) then "propfail panic wkb " ++ who "panic" else
         if all.any (· == ["timeout"]) then "propfail timeout wkb " ++ who "timeout" else
         if xs.any (· == "panic") then "propfail panic wkb scan-of-non-bytes" else
         if xs.any (· == "timeout") then "propfail timeout wkb scan-of-non-bytes" else
         let len := bs.length
         let lift (r : R G) : R (G × Nat) :=
           match r with | .ok g => .ok (g, 0) | .err e => .err e | .panic s => .panic s
         let mum := showOutcome (unmarshal bs)
         let mst := showOutcome (decode bs)
         let aSc := ewkbScan bndF false .any bs
         let aPsc := ewkbScan bndF true .any bs
         let aWsc := lift (wkbScan bndF .any bs)
         let mDsc := ewkbScan bndF false d bs
         let mDpsc := ewkbScan bndF true d bs
         let mDwsc := lift (wkbScan bndF d bs)
         -- package wkb's wrappers drop the SRID and map the errors class by class
         let drop (r : R (G × Nat)) : R (G × Nat) :=
           match r with | .ok (g, _) => .ok (g, 0) | r => r
         let mwum := showOutcome (drop (unmarshal bs))
         let mwst := showOutcome (drop (decode bs))
         -- a string is an unsupported data type, a nil slice is SQL NULL (no value, no error), for all three
         let mxs := ["err:datatype", "invalid", "err:datatype", "invalid", "err:datatype", "invalid"]
         let agree := j um == mum && j st == mst && j sc == showOutcome aSc && j psc == showOutcome aPsc
           && j wsc == showOutcome aWsc
           && sameScan d aSc mDsc (j dsc) && sameScan d aPsc mDpsc (j dpsc) && sameScan d aWsc mDwsc (j dwsc)
           && j wum == mwum && j wst == mwst && xs == mxs
         let diff := s!"diff {mum} ; {mst} ; {showOutcome aSc} ; {showOutcome aPsc} ; {showOutcome aWsc} ; {showOutcome mDsc} ; {showOutcome mDpsc} ; {showOutcome mDwsc} ; {mwum} ; {mwst} ; X {j mxs}"
         (match fl with
          | ["A", aum, ast, asc, stable, awum, awst] =>
            (match aum.toNat?, ast.toNat?, asc.toNat?, awum.toNat?, awst.toNat? with
             | some aum, some ast, some asc, some awum, some awst =>
               -- the model's accounting of the decoder's own `make` calls
               let mAum := unmarshalAlloc bs
               let mAst := decodeAlloc bs
               let mAsc := match scanPayload bs with | some p => scanDestAlloc d p | none => 0
               -- (1) the implementation allocates what the model accounts for, and no more
               if aum > measuredBound mAum len then s!"propfail alloc-unexplained wkb-unmarshal measured={aum} model={mAum} len={len}" else
               if ast > measuredBound mAst len then s!"propfail alloc-unexplained wkb-decode measured={ast} model={mAst} len={len}" else
               if asc > measuredBound mAsc len then s!"propfail alloc-unexplained wkb-scan measured={asc} model={mAsc} len={len}" else
               if awum > measuredBound mAum len then s!"propfail alloc-unexplained wkb-unmarshal-plain measured={awum} model={mAum} len={len}" else
               if awst > measuredBound mAst len then s!"propfail alloc-unexplained wkb-decode-plain measured={awst} model={mAst} len={len}" else
               if stable != "1" then "propfail reencode-unstable" else
               if !agree then diff else
               -- (2) the model's figure is within the property's bound (theorems decode_alloc_le,
               --     unmarshal_alloc_linear, scanDest_alloc_le: a failure here means model and proofs are out of step)
               if mAst > linearBound len then s!"propfail alloc-superlinear wkb-decode model={mAst} len={len}" else
               if mAum > linearBound len then s!"propfail alloc-superlinear wkb-unmarshal model={mAum} len={len}" else
               if mAsc > linearBound len then s!"propfail alloc-superlinear wkb-scan model={mAsc} len={len}" else
               -- (3) a returned value is nested no deeper than the decoders' limit, and the model's count of
               --     simultaneously active Decode calls is within it (theorems decode_depth_le, *_result_depth_le)
               if decodeDepth bs > Generated.Params.wkb_MaxCollectionDepth + 1 ||
                  unmarshalDepth bs > Generated.Params.wkb_MaxCollectionDepth + 1 then "propfail recursion-depth wkb model" else
               if (match unmarshal bs with | .ok (g, _) => decide (collDepth g > Generated.Params.wkb_MaxCollectionDepth) | _ => false)
                 then "propfail result-too-deep wkb-unmarshal" else
               let typed := if d == .any then "" else if (j dsc).startsWith "ok" then " typed-ok" else " typed-err"
               if (j um).startsWith "ok" then "ok wkb-value" ++ typed else "ok wkb-error " ++ (j um) ++ typed
             | _, _, _, _, _ => "bad alloc")
          | _ => "bad flags")
       | _ => "bad output")

/-- What the decoders must say about `k` one-member multi (kind mls, mpoly: `Unmarshal`) / collection
    (kind coll: the stream decoder) headers around an empty member.  The inputs are up to 180 MB, too large
    to be handed to the compiled model, but their outcome follows from the model in closed form:
    a nested multi is the wrong member type (`scanMember`, theorem `nested_unmarshal_rejected`); `k`
    collections around a line string are nested `k` deep (`decodeStream_encode` / `decodeStream_too_deep`
    with `g` = the k-fold collection of an empty line string, whose encoding this input is). -/
def nestExpect (kind : String) (k : Nat) : String :=
  if kind == "coll" then (if k ≤ Generated.Params.wkb_MaxCollectionDepth then "ok" else "err toodeep")
  else (if k ≤ 1 then "ok" else "err incorrect")

/-- `wkbnest kind k`: a crash (a Go stack overflow is fatal) or a hang is a violation at any depth; a clean
    outcome must be the expected one. -/
def handleNest (inp out : Toks) : String :=
  match inp with
  | [kind, k] =>
    (match k.toNat? with
     | none => "bad input"
     | some kn =>
       let want := nestExpect kind kn
       (match out with
        | ["crash", "stack-overflow"] => s!"propfail stack-overflow wkbnest {kind} depth={k}"
        | "crash" :: w => "propfail process-crash wkbnest " ++ " ".intercalate w
        | ["timeout"] => "propfail timeout wkbnest"
        | ["ok"] => if want == "ok" then s!"ok wkbnest {kind}" else s!"diff {want}"
        | "err" :: _ => if " ".intercalate out == want then s!"ok wkbnest {kind} err" else s!"diff {want}"
        | _ => "bad output"))
  | _ => "bad input"

/-- `selftest`: the harness's table of entry points against props.json and its call counters. -/
def handleSelfTest (out : Toks) : String :=
  match out with
  | ["ok", listed, called] =>
    (match listed.toNat?, called.toNat? with
     | some l, some c => if l == 0 || c < l then s!"propfail selftest listed={l} called={c}" else "ok selftest"
     | _, _ => "bad selftest")
  | "fail" :: names => "propfail selftest entry-point-never-called " ++ " ".intercalate (names.take 12)
  | ["noprops"] => "bad selftest props.json-not-found"
  | _ => "bad selftest"

/-- What c05.go appends to a delegated runner's output, taken off the end. -/
structure Tail where
  out : Toks                      -- the delegated runner's own output
  bad : List String := []         -- `name:panic:origin` of the entry points that panicked when called directly
  wf : Option Bool := none        -- the bytes are a well-formed document
  pw : Option (List String) := none  -- origins of the panics C02's runner reported (decodes repeated)

def splitTail (out : Toks) : Tail :=
  let secs := splitSemi out
  let rec go (rev : List Toks) (t : Tail) : List Toks × Tail :=
    match rev with
    | ("ep" :: _ :: names) :: rest => go rest { t with bad := names ++ t.bad }
    | ["wf", b] :: rest => go rest { t with wf := some (b == "1") }
    | ("pw" :: os) :: rest => go rest { t with pw := some os }
    | _ => (rev.reverse, t)
  let (keep, t) := go secs.reverse { out := [] }
  { t with out := " ; ".intercalate (keep.map fun t => " ".intercalate t) |>.splitOn " " |>.filter (· != "") }

/-- a panic of an entry point called directly fails the case, unless the delegated verdict is a failure
    already (a known panic of the same decoder reached through json.Unmarshal / bson.Unmarshal) -/
def withDirect (op : String) (bad : List String) (v : String) : String :=
  if bad.isEmpty || v.startsWith "propfail" || v.startsWith "bad" then v
  else s!"propfail panic entry-point {op} " ++ " ".intercalate (bad.take 8)

def typedBsonHelpers : List String :=
  ["Point", "MultiPoint", "LineString", "MultiLineString", "Polygon", "MultiPolygon"].map fun t =>
    s!"geojson.{t}.UnmarshalBSON:panic:orb"

/-- `gj`: C02's verdict, with the known-finding labels for panics narrowed:
    * `panic-bson-corrupt-document` (the third-party panic on corrupt lengths) is kept only when the bytes are
      NOT a well-formed document and every panic was raised inside go.mongodb.org/mongo-driver; any other
      panic on a document outside the model's alphabet is `panic-bson-document …` (unlisted);
    * the entry points called directly: third-party panics on corrupt bytes get the same label; the six typed
      helpers dereferencing the nil `*Geometry` that bson.Unmarshal leaves for a document whose length field
      is zero are `panic-typed-helper-bson-zero-length`; everything else is `panic entry-point …`. -/
def handleGj (inp out : Toks) : String :=
  let t := splitTail out
  let v := Driver.C02.handleHostile inp t.out
  let isBson := inp.head? == some "bson"
  let v :=
    if v == "propfail panic-bson-corrupt-document" then
      if t.wf == some false && t.pw == some ["bson"] then v
      else s!"propfail panic-bson-document wellformed={t.wf == some true} origin=" ++ "+".intercalate (t.pw.getD ["?"])
    else v
  if t.bad.isEmpty || v.startsWith "propfail" || v.startsWith "bad" then v else
  let own := t.bad.filter fun b => !b.endsWith ":panic:bson"
  if own.isEmpty then
    (if isBson && t.wf == some false then "propfail panic-bson-corrupt-document"
     else "propfail panic-bson-document direct wellformed=true " ++ " ".intercalate (t.bad.take 8))
  else if isBson && (match inp with | [_, hx] => hx.startsWith "00000000" | _ => false)
      && own.all (typedBsonHelpers.contains ·) then "propfail panic-typed-helper-bson-zero-length"
  else withDirect "gj" own v

/-- the property's allocation bound for `mvt.UnmarshalGzipped`, against the length of the INPUT -/
def gzipBound (len : Nat) : Nat := 512 * len + 1048576

/-- `mvt`: C03's verdict; on `ok`, additionally the allocation of `UnmarshalGzipped` against the input
    length alone.  The label is given only when C03's handler has accepted the case (outcomes agree with
    the model and the allocation is explained by the unzipped length). -/
def handleMvt (inp out : Toks) : String :=
  let v := Driver.C03.handleHostile inp out
  if !v.startsWith "ok" then v else
  match inp with
  | [hx] =>
    let len := if hx == "empty" then 0 else hx.length / 2
    let sec := (splitSemi out).find? fun s => s.head? == some "G"
    (match sec with
     | some [_, _, ga, dl] =>
       (match ga.toNat?, dl.toNat? with
        | some ga, some dl =>
          if ga > gzipBound len then s!"propfail alloc-gzip-bomb mvt bytes={ga} len={len} unzipped={dl}" else v
        | _, _ => v)
     | _ => v)
  | _ => v

/-- `wkt`: C04's verdict on the eight outcomes and the allocation of `wkt.Unmarshal`; C05 appends the
    largest allocation of the seven typed parsers (`; talloc n`), judged against C04's bound. -/
def handleWkt (inp out : Toks) : String :=
  let secs := splitSemi out
  match secs.reverse with
  | ["talloc", n] :: rest =>
    let out' := " ; ".intercalate (rest.reverse.map fun t => " ".intercalate t)
    let v := Driver.C04.handleHostile inp (out'.splitOn " " |>.filter (· != ""))
    if !v.startsWith "ok" then v else
    (match n.toNat?, inp.head? with
     | some a, some hx =>
       let len := hx.length / 2
       if a > Driver.C04.allocC * len + Driver.C04.allocK then s!"propfail alloc wkt-typed bytes={a} len={len}" else v
     | _, _ => "bad talloc")
  | _ => Driver.C04.handleHostile inp out

def handle (ts : Toks) : String :=
  match ts with
  | op :: rest =>
    let (inp, out) := splitArrow rest
    -- the outer watchdog / recover of harness/c05.go around the delegated runners (C04's handler knows
    -- its own `timeout` outcome)
    if (op == "mvt" || op == "gj") && out == ["timeout"] then s!"propfail timeout {op}" else
    if (op == "mvt" || op == "gj" || op == "wkt") && out == ["panic"] then s!"propfail panic harness {op}" else
    match op with
    | "wkb" => handleWkb inp out
    | "wkbnest" => handleNest inp out
    | "selftest" => handleSelfTest out
    | "wkt" => let t := splitTail out; withDirect op t.bad (handleWkt inp t.out)
    | "mvt" => let t := splitTail out; withDirect op t.bad (handleMvt inp t.out)
    | "gj" => handleGj inp out
    | _ => "bad op " ++ op
  | [] => "bad empty"

end Driver.C05
