import Orb.Proto
import Orb.WKB
import Driver.C01
import Driver.C02
import Driver.C03
import Driver.C04

/-! Driver for C05 (decoders never panic / never over-allocate on hostile input).
    `wkb <hex> => um ; st ; sc-any ; psc-any ; wsc-any ; A <alloc bytes> <stable>`
    The WKT / MVT / GeoJSON hostile streams are judged by the handlers of C04 / C03 / C02. -/
namespace Driver.C05
open Orb Orb.Proto Orb.WKB Driver.C01

/-- allocation allowed for one WKB decode call: proportional to the input plus the fixed caps
    (MaxPointsAlloc points of 16 bytes, MaxMultiAlloc headers, bufio / reader overhead) -/
def wkbAllocBound (len : Nat) : Nat :=
  512 * len + 16 * Generated.Params.wkb_MaxPointsAlloc * 2 + 64 * Generated.Params.wkb_MaxMultiAlloc + 65536

def handleWkb (inp out : Toks) : String :=
  match inp with
  | [hex] =>
    (match bytesOfHex hex with
     | none => "bad hex"
     | some bs =>
       if out == ["panic"] then "propfail panic harness" else
       match splitSemi out with
       | [um, st, sc, psc, wsc, fl] =>
         let j (t : Toks) := " ".intercalate t
         if [um, st, sc, psc, wsc].any (· == ["panic"]) then "propfail panic wkb" else
         if [um, st, sc, psc, wsc].any (· == ["timeout"]) then "propfail timeout wkb" else
         let mum := showOutcome (unmarshal bs)
         let mst := showOutcome (decode bs)
         let msc := showOutcome (ewkbScan bndF false .any bs)
         let mpsc := showOutcome (ewkbScan bndF true .any bs)
         let mwsc := showOutcome (match wkbScan bndF .any bs with
           | .ok g => .ok (g, 0) | .err e => .err e | .panic s => .panic s)
         let agree := j um == mum && j st == mst && j sc == msc && j psc == mpsc && j wsc == mwsc
         let fin (s : String) : String :=
           if s.startsWith "propfail" || agree then s else s!"diff {mum} ; {mst} ; {msc} ; {mpsc} ; {mwsc}"
         fin <|
         (match fl with
          | ["A", alloc, stable] =>
            (match alloc.toNat? with
             | none => "bad alloc"
             | some a =>
               if a > wkbAllocBound bs.length then s!"propfail alloc wkb {a} > {wkbAllocBound bs.length}" else
               if stable != "1" then "propfail reencode-unstable" else
               if (j um).startsWith "ok" then "ok wkb-value" else "ok wkb-error " ++ (j um))
          | _ => "bad flags")
       | _ => "bad output")
  | _ => "bad input"

def handle (ts : Toks) : String :=
  match ts with
  | op :: rest =>
    let (inp, out) := splitArrow rest
    match op with
    | "wkb" => handleWkb inp out
    | "wkt" => Driver.C04.handleHostile inp out
    | "mvt" => Driver.C03.handleHostile inp out
    | "gj" => Driver.C02.handleHostile inp out
    | _ => "bad op " ++ op
  | [] => "bad empty"

end Driver.C05
